// C01 correspondence harness: real asl Array / Stack / Queue behind the line protocol.
// Line:  <t><c> <op> <args...>   t: i = int, s = String, c = Counted (heap payload, global live-instance counter),
//                                   n = Node { int v; Array<Node> kids; } (own small op set, container a only)
//                                c: a = Array<T>, k = Stack<T>, q = Queue<T>
// Six handle slots per (t,c); a slot holds a heap-allocated container object or nothing.
// Index arguments are total: reduced modulo the current length (+1 where the end is a legal position).
// Output: <result> | <view of slot 0> ... <view of slot 5> | K<cap of slot 0>,...,<cap of slot 5> [| L<live Counted objects>]
//   view = "-" (no object) or len/rc/elements (elements as a list up to 12, else a hash of the sequence).
// Only public API observables are used: length(), operator[], rc(), cap().  cap() decides the documented exclusion
// "operation would grow a block whose rc() > 1" (known finding shared-growth) and is printed after every op
// (section K) so that the model's growth policy and allocation path are compared with the source on every op.
#include "common.h"
#include <asl/Array.h>
#include <asl/Stack.h>
#include <asl/Queue.h>
#include <asl/String.h>
using namespace asl;
using namespace vh;

static const int NS = 6;

struct Counted {
	int* p;
	static long live, made, peak;   // made = copy constructions, peak = largest `live` (both reset by the op `sortc`)
	Counted() : p(new int(0)) { live++; if (live > peak) peak = live; }
	Counted(const Counted& o) : p(new int(*o.p)) { live++; made++; if (live > peak) peak = live; }
	Counted& operator=(const Counted& o) { int v = *o.p; *p = v; return *this; }
	~Counted() { delete p; live--; }   // p is not cleared: destroying a stale bitwise copy is a double free
	bool operator==(const Counted& o) const { return *p == *o.p; }
	bool operator!=(const Counted& o) const { return *p != *o.p; }
	bool operator<(const Counted& o) const { return *p < *o.p; }
};
long Counted::live = 0;
long Counted::made = 0;
long Counted::peak = 0;

static_assert(sizeof(int) == 4, "model constant esz(int)");
static_assert(sizeof(String) == 24, "model constant esz(String)");
static_assert(sizeof(Counted) == 8, "model constant esz(Counted)");

// ---- codecs
static void parse(const std::string& t, int& x) { x = (int)num(t); }
static void parse(const std::string& t, String& x) { Exact e(unhex(t)); x = String(e.p, (int)e.n); }
static void parse(const std::string& t, Counted& x) { *x.p = (int)num(t); }
static std::string show(int x) { return str(x); }
static std::string show(const String& x) { return hex(*x, x.length()); }
static std::string show(const Counted& x) { return str(*x.p); }
static long long code(int v) { return (((long long)v % 1000003) + 1000003) % 1000003; }
static long long code(const Counted& v) { return code(*v.p); }
static long long code(const String& s) { long long h = 1; for (int i = 0; i < s.length(); i++) h = (h * 257 + (unsigned char)s[i]) % 1000003; return h; }
static long long key(int v) { return v; }
static long long key(const Counted& v) { return *v.p; }
static long long key(const String& s) { return s.length(); }

template<class T> struct Pred {
	long long m, r;
	Pred(long long m_, long long r_) : m(m_ + 1), r(r_ % (m_ + 1)) {}
	bool operator()(const T& x) const { return ((key(x) % m) + m) % m == r; }
};
template<class T> struct KeyOf { long long operator()(const T& x) const { return key(x); } };
// n elements parsed into an exact-size heap array outside every asl::Array (argument of the pointer variants)
template<class T> struct Buf {
	T* p; int n;
	Buf(const Toks& t, size_t from) : n((int)(t.size() - from)) { p = new T[n]; for (int i = 0; i < n; i++) parse(t[from + i], p[i]); }
	~Buf() { delete[] p; }
};
// the initializer-list members: a braced list has a compile-time length, so 0..4 elements
#define IL_CASES(N, STMT) switch (N) { \
	case 0: { std::initializer_list<T> il = {}; STMT; break; } \
	case 1: { std::initializer_list<T> il = { p[0] }; STMT; break; } \
	case 2: { std::initializer_list<T> il = { p[0], p[1] }; STMT; break; } \
	case 3: { std::initializer_list<T> il = { p[0], p[1], p[2] }; STMT; break; } \
	default: { std::initializer_list<T> il = { p[0], p[1], p[2], p[3] }; STMT; break; } }
template<class T> struct Desc { bool operator()(const T& a, const T& b) const { return b < a; } };

// sort() on a thread with a small stack: a recursion as deep as the array is long overflows it
#include <pthread.h>
#include <limits.h>
struct IntDesc { bool operator()(const int& a, const int& b) const { return b < a; } };
struct IntKey { long long operator()(const int& x) const { return x; } };
struct SortJob { Array<int>* a; int mode; };
static void* sortThread(void* p)
{
	SortJob* j = (SortJob*)p;
	if (j->mode == 1) j->a->sort(IntDesc()); else if (j->mode == 2) j->a->sortBy(IntKey(), true); else j->a->sort();
	return 0;
}
static bool ksort(Array<int>& a, int n, int mode)
{
	Array<int> r(n);
	if (n > 0) r[0] = 0;
	for (int m = 2; m <= n; m++) { r[m - 1] = r[m / 2]; r[m / 2] = m - 1; }   // the middle element is the maximum at every level
	if (mode == 1) for (int i = 0; i < n; i++) r[i] = n - 1 - r[i];             // mirrored for the descending comparator
	a = r;
	SortJob job = { &a, mode };
	pthread_attr_t at; pthread_attr_init(&at);
	size_t sz = 24 * 1024; if (sz < (size_t)PTHREAD_STACK_MIN) sz = PTHREAD_STACK_MIN;
	pthread_attr_setstacksize(&at, sz);
	pthread_t th;
	if (pthread_create(&th, &at, sortThread, &job) != 0) return false;
	pthread_join(th, 0);
	return true;
}
template<class T> static bool ksort(Array<T>&, int, int) { return false; }

template<class T> static std::string view(const Array<T>* a)
{
	if (!a) return "-";
	int n = a->length();
	std::string s = str(n) + "/" + str(a->rc()) + "/";
	if (n <= 12) { for (int i = 0; i < n; i++) { if (i) s += ","; s += show((*a)[i]); } }
	else { long long h = 7; for (int i = 0; i < n; i++) h = (h * 131 + code((*a)[i])) % 1000000007; s += "#" + str(h); }
	return s;
}

// members that exist only in Stack / Queue
template<class T> static bool extra(Array<T>&, const Toks&, std::string&) { return false; }
template<class T> static bool extra(Stack<T>& a, const Toks& t, std::string& out)
{
	const std::string& op = t[1];
	size_t n = t.size();
	int len = a.length();
	if (op == "push" && n == 4) { T v; parse(t[3], v); if (len >= a.cap() && a.rc() > 1) { out = "skip"; return true; } a.push(v); out = "ok"; return true; }
	if (op == "pop" && n == 3) { if (len == 0) { out = "skip"; return true; } a.pop(); out = "ok"; return true; }
	if (op == "popn" && n == 4) { a.pop((int)(num(t[3]) % (len + 1))); out = "ok"; return true; }
	if (op == "popget" && n == 3) { if (len == 0) { out = "skip"; return true; } T y = a.popget(); out = "v " + show(y); return true; }
	if (op == "top" && n == 4) { if (len == 0) { out = "skip"; return true; }
		int i = (int)(num(t[3]) % len); const Stack<T>& c = a;
		if (i == 0 && !(a.top() == c.top(0))) { out = "err top-mismatch"; return true; }
		out = "v " + show(i == 0 ? c.top() : a.top(i)); return true; }
	return false;
}
template<class T> static bool extra(Queue<T>& a, const Toks& t, std::string& out)
{
	const std::string& op = t[1];
	size_t n = t.size();
	int len = a.length();
	if (op == "put" && n == 4) { T v; parse(t[3], v); if (len >= a.cap() && a.rc() > 1) { out = "skip"; return true; } a.put(v); out = "ok"; return true; }
	if (op == "qget" && n == 3) { if (len == 0) { out = "skip"; return true; } T y = a.get(); out = "v " + show(y); return true; }
	return false;
}

template<class C, class T> struct Table {
	C* H[NS];
	Table() { for (int i = 0; i < NS; i++) H[i] = 0; }
	void reset() { for (int i = 0; i < NS; i++) { delete H[i]; H[i] = 0; } }
	static int slot(const std::string& t) { return (int)(num(t) % NS); }

	// `if (!H[t]) H[t] = new C(); *H[t] = r;`
	void store(int t, const Array<T>& r) { if (!H[t]) H[t] = new C(); (Array<T>&)*H[t] = r; }

	std::string op(const Toks& t)
	{
		const std::string& op = t[1];
		size_t n = t.size();
		if (op == "reset" && n == 2) { reset(); return "ok"; }
		if (n < 3) return "bad-op";
		int h = slot(t[2]);
		if (op == "new" && n == 3) { delete H[h]; H[h] = 0; H[h] = new C(); return "ok"; }
		if (op == "ksort" && n == 5) { if (!H[h]) H[h] = new C(); return ksort((Array<T>&)*H[h], (int)num(t[3]), (int)num(t[4])) ? "ok" : "bad-op"; }
		if (op == "newp" && n >= 3) { Buf<T> b(t, 3); delete H[h]; H[h] = 0; Array<T> r(b.p, b.n); store(h, r); return "ok"; }
		if (op == "newil" && n >= 3 && n <= 7) { Buf<T> b(t, 3); const T* p = b.p; delete H[h]; H[h] = 0; IL_CASES(b.n, { Array<T> r(il); store(h, r); }) return "ok"; }
		if (op == "newn" && n == 5) { T v; parse(t[4], v); delete H[h]; H[h] = 0; Array<T> r((int)num(t[3]), v); store(h, r); return "ok"; }
		if (op == "cp" && n == 4) { int g = slot(t[3]); if (!H[g]) return "skip"; C* c = new C(*H[g]); delete H[h]; H[h] = c; return "ok"; }
		if (op == "asg" && n == 4) { int g = slot(t[3]); if (!H[h] || !H[g]) return "skip"; *H[h] = *H[g]; return "ok"; }
		if (!H[h]) {
			// every other op works through slot h (for the producing ops h is t[3], tested below)
			if (!(op == "slice" || op == "slicee" || op == "clone" || op == "concat" || op == "rev" || op == "filt")) return known(op, n) ? "skip" : "bad-op";
		}
		if (op == "slice" || op == "slicee" || op == "clone" || op == "concat" || op == "rev" || op == "filt") {
			if (n < 4) return "bad-op";
			int s = slot(t[3]);
			if (!H[s]) return "skip";
			C& a = *H[s];
			int len = a.length();
			if (op == "slice" && n == 6) { int i1 = (int)(num(t[4]) % (len + 1)); int i2 = i1 + (int)(num(t[5]) % (len - i1 + 1)); Array<T> r = a.slice(i1, i2); store(h, r); return "ok"; }
			if (op == "slicee" && n == 5) { int i1 = (int)(num(t[4]) % (len + 1)); Array<T> r = a.slice(i1); store(h, r); return "ok"; }
			if (op == "clone" && n == 4) { Array<T> r = a.clone(); store(h, r); return "ok"; }
			if (op == "rev" && n == 4) { Array<T> r = a.reversed(); store(h, r); return "ok"; }
			if (op == "filt" && n == 6) { Array<T> r = a.filter(Pred<T>(num(t[4]), num(t[5]))); store(h, r); return "ok"; }
			if (op == "concat" && n == 5) { int g = slot(t[4]); if (!H[g]) return "skip"; Array<T> r = (num(t[2]) & 1) ? a.concat(*H[g]) : (a | *H[g]); store(h, r); return "ok"; }
			return "bad-op";
		}
		C& a = *H[h];
		int len = a.length();
		bool shared = a.rc() > 1;
		std::string out;
		if (extra(a, t, out)) return out;
		if (op == "drop" && n == 3) { delete H[h]; H[h] = 0; return "ok"; }
		if (op == "app" && n == 4) { T v; parse(t[3], v); if (len >= a.cap() && shared) return "skip"; if (len % 3 == 1) a << v; else if (len % 3 == 2) (a, v); else a.insert(-1, v); return "ok"; }
		if (op == "xapp" && n == 4) { T v; parse(t[3], v); a << v; return "ok"; }   // unguarded: probe of the known finding
		if (op == "ins" && n == 5) { T v; parse(t[4], v); if (len >= a.cap() && shared) return "skip"; a.insert((int)(num(t[3]) % (len + 1)), v); return "ok"; }
		if (op == "appo" && n == 4) { if (len == 0) return "ok"; if (len >= a.cap() && shared) return "skip"; a << a[(int)(num(t[3]) % len)]; return "ok"; }
		if (op == "inso" && n == 5) { if (len == 0) return "ok"; if (len >= a.cap() && shared) return "skip"; a.insert((int)(num(t[3]) % (len + 1)), a[(int)(num(t[4]) % len)]); return "ok"; }
		if (op == "insx" && n == 6) { int g = slot(t[4]); if (!H[g]) return "skip"; C& b = *H[g]; if (b.length() == 0) return "skip";
			if (len >= a.cap() && shared) return "skip";
			a.insert((int)(num(t[3]) % (len + 1)), b[(int)(num(t[5]) % b.length())]); return "ok"; }
		if (op == "rem" && n == 5) { int i = (int)(num(t[3]) % (len + 1)); int c = (int)(num(t[4]) % (len - i + 1)); if (c == 1 && (i & 1)) a.remove(i); else a.remove(i, c); return "ok"; }
		if (op == "remone" && n == 5) { T v; parse(t[3], v); bool r = a.removeOne(v, (int)(num(t[4]) % (len + 1))); return r ? "b 1" : "b 0"; }
		if (op == "reml" && n == 3) { a.removeLast(); return "ok"; }
		if (op == "rsz" && n == 5) { T v; parse(t[4], v); int m = (int)num(t[3]); if (m > a.cap() && shared) return "skip"; a.resize(m); for (int i = len; i < m; i++) a[i] = v; return "ok"; }
		if (op == "res" && n == 4) { int m = (int)num(t[3]); if (m > a.cap() && shared) return "skip"; a.reserve(m); return "ok"; }
		if (op == "clr" && n == 3) { a.clear(); return "ok"; }
		if (op == "sort" && n == 3) { a.sort(); return "ok"; }
		if (op == "sortd" && n == 3) { a.sort(Desc<T>()); return "ok"; }
		if (op == "sortby" && n == 4) { a.sortBy(KeyOf<T>(), num(t[3]) != 0); return "ok"; }
		if (op == "sortc" && n == 4 && showLive_) {
			// sort of counted elements: copies made by the sort (pivots + swap temporaries) and the most that were alive at once
			long base = Counted::live; Counted::made = 0; Counted::peak = base; long m = num(t[3]) % 4;
			if (m == 1) a.sort(Desc<T>()); else if (m == 2) a.sortBy(KeyOf<T>(), true); else if (m == 3) a.sortBy(KeyOf<T>(), false); else a.sort();
			return "t " + str(Counted::made) + " " + str(Counted::peak - base); }
		if (op == "asgil" && n >= 3 && n <= 7) { Buf<T> b(t, 3); const T* p = b.p; if (b.n > a.cap() && shared) return "skip"; IL_CASES(b.n, (Array<T>&)a = il) return "ok"; }
		if (op == "appil" && n >= 3 && n <= 7) { Buf<T> b(t, 3); const T* p = b.p; if (len + b.n > a.cap() && shared) return "skip"; IL_CASES(b.n, a.append(il)) return "ok"; }
		if (op == "copyp" && n >= 3) { Buf<T> b(t, 3); if (b.n > a.cap() && shared) return "skip"; a.copy(b.p, b.n); return "ok"; }
		if (op == "appp" && n >= 3) { Buf<T> b(t, 3); if (len + b.n > a.cap() && shared) return "skip"; a.append(b.p, b.n); return "ok"; }
		if (op == "appown" && n == 5) { int j = (int)(num(t[3]) % (len + 1)); int k = (int)(num(t[4]) % (len - j + 1));
			if (len + k > a.cap() && shared) return "skip"; a.append(a.data() + j, k); return "ok"; }
		if (op == "copyown" && n == 5) { int j = (int)(num(t[3]) % (len + 1)); int k = (int)(num(t[4]) % (len - j + 1));
			a.copy(a.data() + j, k); return "ok"; }
		if (op == "remx" && n == 5) { a.remove((int)num(t[3]), (int)num(t[4])); return "ok"; }   // raw: a count beyond the end must be ignored
		if (op == "iter" && n == 3) {
			// every way of enumerating must visit exactly operator[](0..len-1)
			long long want = 7, h1 = 7, h2 = 7, h3 = 7, h4 = 7, h5 = 7; int c3 = 0;
			for (int i = 0; i < len; i++) want = (want * 131 + code(a[i])) % 1000000007;
			for (auto& x : a) h1 = (h1 * 131 + code(x)) % 1000000007;
			const C& ca = a;
			for (const auto& x : ca) h2 = (h2 * 131 + code(x)) % 1000000007;
			foreach(T& x, a) h3 = (h3 * 131 + code(x)) % 1000000007;
			for (typename Array<T>::Enumerator e = a.all(); e; ++e) { if (~e != c3++) return "err enumerator-index"; h4 = (h4 * 131 + code(*e)) % 1000000007; }
			int half = len / 2;
			for (int i = 0; i < half; i++) h5 = (h5 * 131 + code(a[i])) % 1000000007;
			if (half > 0) { typename Array<T>::Enumerator e = a.slice_(half); if (e.length() != len - half) return "err slice_-length";
				for (; e; ++e) h5 = (h5 * 131 + code(*e)) % 1000000007; }
			else h5 = want;
			if (a.slice_(0, 0).length() != 0 || a.slice_(0).length() != len) return "err slice_-empty-range";
			if (h1 != want || h2 != want || h3 != want || h4 != want || h5 != want || c3 != len) return "err enumeration-mismatch";
			return "ok";
		}
		if (op == "dup" && n == 3) { a.dup(); return "ok"; }
		if (op == "remif" && n == 5) { a.removeIf(Pred<T>(num(t[3]), num(t[4]))); return "ok"; }
		if (op == "apnd" && n == 4) { int g = slot(t[3]); if (!H[g]) return "skip"; if (len + H[g]->length() > a.cap() && shared) return "skip"; a.append(*H[g]); return "ok"; }
		if (op == "copy" && n == 4) { int g = slot(t[3]); if (!H[g]) return "skip"; if (H[g]->length() > a.cap() && shared) return "skip"; a.copy(*H[g]); return "ok"; }
		if (op == "set" && n == 5) { T v; parse(t[4], v); if (len == 0) return "ok"; a[(int)(num(t[3]) % len)] = v; return "ok"; }
		if (op == "get" && n == 4) { if (len == 0) return "skip"; const C& c = a; int i = (int)(num(t[3]) % len); if (!(c[i] == a[i])) return "err const-index-mismatch"; return "v " + show(c[i]); }
		if (op == "idx" && n == 5) { T v; parse(t[3], v); int i = a.indexOf(v, (int)(num(t[4]) % (len + 1))); return "idx " + str(i) + (a.contains(v) ? " 1" : " 0"); }
		if (op == "last" && n == 3) { if (len == 0) return "skip"; const C& c = a; return "v " + show(c.last()); }
		if (op == "eq" && n == 4) { int g = slot(t[3]); if (!H[g]) return "skip"; bool e = a == *H[g], ne = a != *H[g]; if (e == ne) return "err eq-ne-inconsistent"; return e ? "b 1" : "b 0"; }
		return "bad-op";
	}

	static bool known(const std::string& op, size_t n)
	{
		static const char* ops[] = { "drop", "app", "xapp", "push", "put", "ins", "appo", "inso", "insx", "rem", "remone", "reml", "rsz", "res", "clr", "sort", "sortd", "sortby", "sortc", "asgil", "appil", "copyp", "appp", "iter", "appown", "copyown", "remx",
			"dup", "remif", "apnd", "copy", "set", "get", "idx", "last", "eq", "pop", "popn", "popget", "top", "qget", 0 };
		for (int i = 0; ops[i]; i++) if (op == ops[i]) return true;
		return false;
	}

	bool showLive_;
	std::string step(const Toks& t, bool showLive)
	{
		showLive_ = showLive;
		std::string r = op(t);   // all temporaries of the operation are gone when op() returns
		if (r == "bad-op" || r.compare(0, 3, "err") == 0) return r;
		if (t[1] == "reset") return r;
		r += " |";
		for (int i = 0; i < NS; i++) r += " " + view<T>(H[i]);
		r += " | K";
		for (int i = 0; i < NS; i++) { if (i) r += ","; r += H[i] ? str(H[i]->cap()) : std::string("-"); }
		if (showLive) r += " | L" + str(Counted::live);
		return r;
	}
};

template<class T> struct Tables {
	Table<Array<T>, T> a;
	Table<Stack<T>, T> k;
	Table<Queue<T>, T> q;
	void reset() { a.reset(); k.reset(); q.reset(); }
	std::string step(const Toks& t, bool showLive)
	{
		char c = t[0][1];
		if (c == 'a') return a.step(t, showLive);
		if (c == 'k') return k.step(t, showLive);
		if (c == 'q') return q.step(t, showLive);
		return "bad-op";
	}
};

// ---- an element type whose payload is itself an asl::Array: arguments can live inside an element of the same array
struct Node {
	int v; Array<Node> kids; Array<int> ints;
	static long live;
	Node(int x = 0) : v(x) { live++; }
	Node(const Node& o) : v(o.v), kids(o.kids), ints(o.ints) { live++; }
	Node& operator=(const Node& o) { v = o.v; kids = o.kids; ints = o.ints; return *this; }
	~Node() { live--; }
};
long Node::live = 0;

static std::string renderN(const Array<Node>& a, int depth)
{
	if (depth == 0) return "...";
	std::string s;
	for (int i = 0; i < a.length(); i++) {
		if (i) s += ",";
		s += str(a[i].v) + ":" + str(a[i].kids.rc()) + "<" + str(a[i].ints.rc()) + ";";
		for (int k = 0; k < a[i].ints.length(); k++) { if (k) s += "."; s += str(a[i].ints[k]); }
		s += ">[" + renderN(a[i].kids, depth - 1) + "]";
	}
	return s;
}

struct NodeTable {
	Array<Node>* H[NS];
	NodeTable() { for (int i = 0; i < NS; i++) H[i] = 0; }
	void reset() { for (int i = 0; i < NS; i++) { delete H[i]; H[i] = 0; } }
	static int slot(const std::string& t) { return (int)(num(t) % NS); }
	std::string op(const Toks& t)
	{
		const std::string& op = t[1];
		size_t n = t.size();
		if (op == "reset" && n == 2) { reset(); return "ok"; }
		if (n < 3) return "bad-op";
		int h = slot(t[2]);
		if (op == "new" && n == 3) { delete H[h]; H[h] = new Array<Node>(); return "ok"; }
		if (op == "cp" && n == 4) { int g = slot(t[3]); if (!H[g]) return "skip"; Array<Node>* c = new Array<Node>(*H[g]); delete H[h]; H[h] = c; return "ok"; }
		if (op == "getk" && n == 5) { int g = slot(t[3]); if (!H[g] || H[g]->length() == 0) return "skip";
			Array<Node>* c = new Array<Node>((*H[g])[(int)(num(t[4]) % H[g]->length())].kids); delete H[h]; H[h] = c; return "ok"; }
		if (!H[h]) return "skip";
		Array<Node>& a = *H[h];
		int len = a.length();
		if (op == "drop" && n == 3) { delete H[h]; H[h] = 0; return "ok"; }
		if (op == "app" && n == 4) { if (a.rc() > 1) return "skip"; a << Node((int)num(t[3])); return "ok"; }
		if (len == 0) return "skip";
		int j = (int)(num(t[3]) % len);
		if (op == "kapp" && n == 5) { Array<Node>& k = a[j].kids; if (k.rc() > 1) return "skip"; k << Node((int)num(t[4])); return "ok"; }
		if (op == "iapp" && n == 5) { Array<int>& k = a[j].ints; if (k.rc() > 1) return "skip"; k << (int)num(t[4]); return "ok"; }
		if (op == "asgk" && n == 4) { a = a[j].kids; return "ok"; }
		if (op == "asgi" && n == 4) { if (a.rc() > 1) return "skip"; a = a[j].ints; return "ok"; }
		if (op == "apndk" && n == 4) { if (a.rc() > 1) return "skip"; a.append(a[j].kids); return "ok"; }
		if (op == "copyk" && n == 4) { if (a.rc() > 1) return "skip"; a.copy(a[j].kids); return "ok"; }
		if (op == "rem" && n == 4) { a.remove(j); return "ok"; }
		return "bad-op";
	}
	std::string step(const Toks& t)
	{
		std::string r = op(t);
		if (r == "bad-op" || t[1] == "reset") return r;
		r += " |";
		for (int i = 0; i < NS; i++) r += " " + (H[i] ? str(H[i]->length()) + "/" + str(H[i]->rc()) + "/" + renderN(*H[i], 6) : std::string("-"));
		r += " | L" + str(Node::live);
		return r;
	}
};
static NodeTable TN;

static Tables<int> TI;
static Tables<String> TS;
static Tables<Counted> TC;

static void reset() { TI.reset(); TS.reset(); TC.reset(); TN.reset(); }

static std::string step(const Toks& t)
{
	if (t.size() < 2 || t[0].size() != 2) return "bad-op";
	switch (t[0][0]) {
	case 'i': return TI.step(t, false);
	case 's': return TS.step(t, false);
	case 'c': return TC.step(t, true);
	case 'n': return t[0][1] == 'a' ? TN.step(t) : std::string("bad-op");
	}
	return "bad-op";
}

int main()
{
	int r = run(reset, step);
	reset();
	if (Node::live != 0) { fprintf(stderr, "live Node objects at exit: %ld\n", Node::live); return 3; }
	if (Counted::live != 0) { fprintf(stderr, "live Counted objects at exit: %ld\n", Counted::live); return 3; }
	return r;
}
