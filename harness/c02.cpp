// C02 correspondence harness: real asl Map / Dic / HashMap / HashDic / Set behind the line protocol.
// Line:  <kind> <op> <slot> <args...>     kinds: mi = Map<int,int>   ds = Dic<String>
//                                               hi = HashMap<int,int> hs = HashDic<int>
//                                               si = Set<int>         ss = Set<String>
//                                               cv = converting constructors of Map / Dic (stateless, see conv())
// int keys/values decimal, String keys/values hex ("-" = empty).  Public API observables are printed with
// hash-container enumerations sorted (dump) and ordered-map enumerations in order.  The `raw` op additionally
// prints the bucket count and the UNSORTED enumeration (foreach order): it ties the model's hash functions,
// binOf, growth rule and chain order to the code (the plugin's oracle treats a raw-only difference as
// "model no longer describes the code", not as a failing input of the property).
// `share s t` makes slot t a second HANDLE to the table of slot s (HashMap::operator=); every other op that
// assigns to a slot (new, clone, from, union, inter, diff) gives it a table of its own.
#include "common.h"
#include <asl/Map.h>
#include <asl/HashMap.h>
#include <asl/Set.h>
#include <asl/String.h>
#include <algorithm>
using namespace asl;
using namespace vh;

static const int NS = 4;

// ---- codecs (token <-> key/value)
static void parse(const std::string& t, int& x) { x = (int)num(t); }
static void parse(const std::string& t, String& x) { Exact e(unhex(t)); x = String(e.p, (int)e.n); }
static std::string show(int x) { return str(x); }
static std::string show(const String& x) { return hex(*x, x.length()); }
// canonical order for sorted dumps: ints numerically, strings by their hex text

// sortable rendering of an entry (asl::swap and std::swap clash on std::pair<String,..>, so sort plain text)
struct Ent { long long ik; std::string sk, text; };
static bool entLess(const Ent& a, const Ent& b) { return a.ik != b.ik ? a.ik < b.ik : a.sk < b.sk; }
static Ent ent(int k, const std::string& text) { Ent e; e.ik = k; e.text = text; return e; }
static Ent ent(const String& k, const std::string& text) { Ent e; e.ik = 0; e.sk = show(k); e.text = text; return e; }

static Map<int, int> MI[NS];
static Dic<String> DS[NS];
static HashMap<int, int> HI[NS];
static HashDic<int> HS[NS];
static Set<int> SI[NS];
static Set<String> SS[NS];

static void reset()
{
	for (int i = 0; i < NS; i++) {
		MI[i] = Map<int, int>();
		DS[i] = Dic<String>();
		HI[i] = HashMap<int, int>();
		HS[i] = HashDic<int>();
		SI[i] = Set<int>();
		SS[i] = Set<String>();
	}
}

static int slot(const std::string& t) { return (int)(((num(t) % NS) + NS) % NS); }

// ---- ordered maps -----------------------------------------------------------------------------
template<class M, class K, class V>
static std::string ordered(M* m, const Toks& t, const K&, const V&)
{
	const std::string& op = t[1];
	size_t n = t.size();
	if (n < 3) return "bad-op";
	M& a = m[slot(t[2])];
	K k; V v;
	if (op == "set" && n == 5) { parse(t[3], k); parse(t[4], v); a.set(k, v); return "ok " + str(a.length()); }
	if (op == "asg" && n == 5) { parse(t[3], k); parse(t[4], v); a[k] = v; return "ok " + str(a.length()); }
	if (op == "idx" && n == 4) { parse(t[3], k); V& r = a[k]; return show(r) + " " + str(a.length()); }
	if (op == "asgfrom" && n == 5) { K j; parse(t[3], k); parse(t[4], j); a[k] = a[j]; return "ok " + str(a.length()); }
	if (op == "cidx" && n == 4) { parse(t[3], k); const M& c = a; return show(c[k]) + " " + str(a.length()); }
	if (op == "find" && n == 4) { parse(t[3], k); const M& c = a; const V* p = c.find(k); V* q = a.find(k);
		if ((p == 0) != (q == 0)) return "err find-const-mismatch";
		return p ? "some " + show(*p) : "none"; }
	if (op == "has" && n == 4) { parse(t[3], k); return a.has(k) ? "1" : "0"; }
	if (op == "get" && n == 5) { parse(t[3], k); parse(t[4], v); return show(a.get(k, v)); }
	if (op == "rem" && n == 4) { parse(t[3], k); bool r = a.remove(k); return std::string(r ? "1 " : "0 ") + str(a.length()); }
	if (op == "clear" && n == 3) { a.clear(); return "ok " + str(a.length()); }
	if (op == "clone" && n == 4) { m[slot(t[3])] = a.clone(); return "ok " + str(m[slot(t[3])].length()); }
	if (op == "add" && n == 4) { M other = m[slot(t[3])].clone(); a.add(other); return "ok " + str(a.length()); }
	if (op == "addself" && n == 3) { a.add(a); return "ok " + str(a.length()); }
	if (op == "eq" && n == 4) { M& b = m[slot(t[3])]; bool e = a == b, ne = a != b; if (e == ne) return "err eq-ne-inconsistent"; return e ? "1" : "0"; }
	if (op == "len" && n == 3) { return str(a.length()) + (!a ? " empty" : " nonempty"); }
	if (op == "keys" && n == 3) {
		Array<K> ks = a.keys();
		std::string s = str(ks.length());
		for (int i = 0; i < ks.length(); i++) s += " " + show(ks[i]);
		return s;
	}
	if (op == "walk" && n == 3) { // the explicit Map::Enumerator: operator bool, ~e, *e, ++e
		std::string s = str(a.length());
		for (typename M::Enumerator e = a.all(); e; ++e) s += " " + show(~e) + ":" + show(*e);
		return s;
	}
	if (op == "dump" && n == 3) {
		std::string s = str(a.length());
		int cnt = 0;
		foreach2(K& kk, const V& vv, a) { s += " " + show(kk) + ":" + show(vv); cnt++; }
		// second enumeration through the explicit enumerator
		int cnt2 = 0;
		for (typename M::Enumerator e = a.all(); e; ++e) cnt2++;
		if (cnt != cnt2) return "err enumerations-disagree";
		return s;
	}
	return "bad-op";
}

// ---- hash maps --------------------------------------------------------------------------------
template<class M, class K, class V>
static std::string hashed(M* m, const Toks& t, const K&, const V&)
{
	const std::string& op = t[1];
	size_t n = t.size();
	if (n < 3) return "bad-op";
	M& a = m[slot(t[2])];
	K k; V v;
	if (op == "new" && n == 4) { int sz = (int)num(t[3]); if (sz < -3 || sz > 65536) return "bad-op"; a = M(sz); return "ok " + str(a.length()); }
	if (op == "share" && n == 4) { m[slot(t[3])] = a; return "ok " + str(m[slot(t[3])].length()); }
	if (op == "set" && n == 5) { parse(t[3], k); parse(t[4], v); a.set(k, v); return "ok " + str(a.length()); }
	if (op == "asg" && n == 5) { parse(t[3], k); parse(t[4], v); a[k] = v; return "ok " + str(a.length()); }
	if (op == "idx" && n == 4) { parse(t[3], k); V& r = a[k]; return show(r) + " " + str(a.length()); }
	if (op == "asgfrom" && n == 5) { K j; parse(t[3], k); parse(t[4], j); a[k] = a[j]; return "ok " + str(a.length()); }
	if (op == "cidx" && n == 4) { parse(t[3], k); const M& c = a; return show(c[k]) + " " + str(a.length()); }
	if (op == "find" && n == 4) { parse(t[3], k); const M& c = a; const V* p = c.find(k); return p ? "some " + show(*p) : "none"; }
	if (op == "has" && n == 4) { parse(t[3], k); return a.has(k) ? "1" : "0"; }
	if (op == "get" && n == 5) { parse(t[3], k); parse(t[4], v); return show(a.get(k, v)); }
	if (op == "rem" && n == 4) { parse(t[3], k); a.remove(k); return "ok " + str(a.length()); }
	if (op == "clear" && n == 3) { a.clear(); return "ok " + str(a.length()); }
	if (op == "clone" && n == 4) { m[slot(t[3])] = a.clone(); return "ok " + str(m[slot(t[3])].length()); }
	if (op == "dup" && n == 3) { a.dup(); return "ok " + str(a.length()); }
	if (op == "eq" && n == 4) { M& b = m[slot(t[3])]; bool e = a == b, ne = a != b; if (e == ne) return "err eq-ne-inconsistent"; return e ? "1" : "0"; }
	if (op == "len" && n == 3) { return str(a.length()); }
	if (op == "raw" && n == 3) {
		if (ASL_HMAP_SKIP != 2) return "err ASL_HMAP_SKIP-is-not-2";
		std::string s = str(a.a.length() - ASL_HMAP_SKIP);
		foreach2(K& kk, const V& vv, a) s += " " + show(kk) + ":" + show(vv);
		return s;
	}
	if (op == "walk" && n == 3) { // the explicit HashMap::Enumerator: operator bool, ~e, *e, ++e (no foreach macro)
		std::string s = str(a.a.length() - ASL_HMAP_SKIP);
		const M& c = a;
		for (typename M::Enumerator e = c.all(); e; ++e) s += " " + show(~e) + ":" + show(*e);
		return s;
	}
	if (op == "pot" && n == 4) { long long z = num(t[3]); if (z < -4 || z > 1073741824LL) return "bad-op"; return str(nextPoT((int)z)); }
	if (op == "dump" && n == 3) {
		std::vector<Ent> out;
		foreach2(K& kk, const V& vv, a) out.push_back(ent(kk, show(kk) + ":" + show(vv)));
		std::stable_sort(out.begin(), out.end(), entLess);
		std::string s = str(a.length());
		for (size_t i = 0; i < out.size(); i++) s += " " + out[i].text;
		return s;
	}
	return "bad-op";
}

// ---- sets -------------------------------------------------------------------------------------
template<class S, class K>
static std::string dumpSet(const S& a, const K&)
{
	Array<K> arr = a.array();
	std::vector<Ent> out;
	for (int i = 0; i < arr.length(); i++) out.push_back(ent(arr[i], show(arr[i])));
	std::stable_sort(out.begin(), out.end(), entLess);
	int cnt = 0;
	foreach(const K& x, a) { (void)x; cnt++; }
	if (cnt != arr.length()) return "err enumeration-vs-array";
	std::string s = str(a.length()) + (a.empty() ? " empty" : " nonempty");
	for (size_t i = 0; i < out.size(); i++) s += " " + out[i].text;
	return s;
}

template<class S, class K>
static std::string sets(S* m, const Toks& t, const K& kk)
{
	const std::string& op = t[1];
	size_t n = t.size();
	if (n < 3) return "bad-op";
	S& a = m[slot(t[2])];
	K k;
	if (op == "new" && n == 4) { int sz = (int)num(t[3]); if (sz < -3 || sz > 65536) return "bad-op"; a = S(sz); return "ok " + str(a.length()); }
	if (op == "share" && n == 4) { m[slot(t[3])] = a; return "ok " + str(m[slot(t[3])].length()); }
	if (op == "ins" && n == 4) { parse(t[3], k); a << k; return "ok " + str(a.length()); }
	if (op == "rem" && n == 4) { parse(t[3], k); a >> k; return "ok " + str(a.length()); }
	if (op == "has" && n == 4) { parse(t[3], k); return a.contains(k) ? "1" : "0"; }
	if (op == "clear" && n == 3) { a.clear(); return "ok " + str(a.length()); }
	if (op == "clone" && n == 4) { (HashMap<K, int>&)m[slot(t[3])] = a.clone(); return "ok " + str(m[slot(t[3])].length()); }
	if (op == "dup" && n == 3) { a.dup(); return "ok " + str(a.length()); }
	if (op == "from" && n >= 3) {
		Array<K> arr;
		for (size_t i = 3; i < n; i++) { parse(t[i], k); arr << k; }
		a = S(arr);
		return "ok " + str(a.length());
	}
	if (op == "addself" && n == 3) { a << a; return "ok " + str(a.length()); }
	if (op == "raw" && n == 3) {
		if (ASL_HMAP_SKIP != 2) return "err ASL_HMAP_SKIP-is-not-2";
		std::string s = str(a.a.length() - ASL_HMAP_SKIP);
		foreach(const K& x, a) s += " " + show(x);
		return s;
	}
	if (op == "walk" && n == 3) { // the explicit Set::Enumerator and array()
		std::string s = str(a.a.length() - ASL_HMAP_SKIP), s2 = s;
		const S& c = a;
		for (typename S::Enumerator e = c.all(); e; ++e) s += " " + show(*e);
		Array<K> arr = a.array();
		for (int i = 0; i < arr.length(); i++) s2 += " " + show(arr[i]);
		if (s != s2) return "err enumerator-vs-array-order";
		return s;
	}
	if (op == "addset" && n == 4) { S other; other << m[slot(t[3])]; a << other; return "ok " + str(a.length()); }
	if (op == "eq" && n == 4) { S& b = m[slot(t[3])]; bool e = a == b, ne = a != b; if (e == ne) return "err eq-ne-inconsistent"; return e ? "1" : "0"; }
	if (op == "cont" && n == 4) { return a.contains(m[slot(t[3])]) ? "1" : "0"; }
	if (op == "any" && n == 4) { return a.containsAny(m[slot(t[3])]) ? "1" : "0"; }
	if ((op == "union" || op == "inter" || op == "diff") && n == 5) {
		S& x = m[slot(t[3])];
		S& y = m[slot(t[4])];
		S r = op == "union" ? x + y : op == "inter" ? (x & y) : x - y;
		a = r;
		return dumpSet(a, kk);
	}
	if (op == "len" && n == 3) { return str(a.length()); }
	if (op == "dump" && n == 3) { return dumpSet(a, kk); }
	return "bad-op";
}

// ds initasg s k1 j1 [k2 j2 [k3 j3]] :  d = { {k1, d[j1]}, {k2, d[j2]}, ... }   (Dic::operator=(initializer_list<KV>):
// KV holds the value BY REFERENCE, here a reference to one of the map's own values)
static std::string dsInit(const Toks& t)
{
	size_t n = t.size();
	if (n != 5 && n != 7 && n != 9) return "bad-op";
	Dic<String>& d = DS[slot(t[2])];
	int m = (int)(n - 3) / 2;
	String k[3], j[3];
	for (int i = 0; i < m; i++) { parse(t[3 + 2 * i], k[i]); parse(t[4 + 2 * i], j[i]); }
	if (m == 1) d = { {*k[0], d[j[0]]} };
	else if (m == 2) d = { {*k[0], d[j[0]]}, {*k[1], d[j[1]]} };
	else d = { {*k[0], d[j[0]]}, {*k[1], d[j[1]]}, {*k[2], d[j[2]]} };
	return "ok " + str(d.length());
}

// ---- converting constructors -------------------------------------------------------------------
// cv <variant> k1 v1 k2 v2 ...   the source map is built with set() in the given order, then converted:
//   i2s  Map<int,int>    -> Map<String,int>    (decimal text: the order of the keys is NOT preserved)
//   d2i  Map<double,int> -> Map<int,int>       (source keys k/4.0, truncation: keys merge)
//   i2l  Map<int,int>    -> Map<int,long long> (same key type)
//   i2d  Map<int,int>    -> Dic<int>           (Dic(const Map<K2,T2>&))
//   s2s  Dic<int>        -> Dic<long long>     (Dic(const Dic<T2>&), through Map(const Map<K2,T2>&))
// prints: raw layout of the result (foreach) | has get(.,-1) of every converted source key | == against the map
// built by inserting the converted records one by one | remove of the first converted key: result, has after, length
template<class K2, class K, class T>
static std::string convOut(const Map<K2, int>& src, Map<K, T>& c)
{
	std::string s = str(c.length());
	foreach2(K& kk, const T& vv, c) s += " " + show(kk) + ":" + str((long long)vv);
	s += " |";
	Map<K, T> ref;
	foreach2(K2& k, const int& v, src)
	{
		K ck = k;
		T cv = v;
		s += c.has(ck) ? " 1" : " 0";
		s += " " + str((long long)c.get(ck, (T)-1));
		ref.set(ck, cv);
	}
	bool e = c == ref, ne = c != ref;
	if (e == ne) return "err eq-ne-inconsistent";
	s += e ? " | 1 |" : " | 0 |";
	if (src.length() == 0) return s + " -";
	K k0 = src.keys()[0];
	bool r = c.remove(k0);
	s += r ? " 1" : " 0";
	s += c.has(k0) ? " 1 " : " 0 ";
	return s + str(c.length());
}

static std::string conv(const Toks& t)
{
	size_t n = t.size();
	if (n < 2 || (n - 2) % 2 != 0) return "bad-op";
	const std::string& var = t[1];
	if (var == "i2s" || var == "i2l" || var == "i2d") {
		Map<int, int> src;
		for (size_t i = 2; i < n; i += 2) src.set((int)num(t[i]), (int)num(t[i + 1]));
		if (var == "i2s") { Map<String, int> c(src); return convOut(src, c); }
		if (var == "i2l") { Map<int, long long> c(src); return convOut(src, c); }
		Dic<int> c(src);
		return convOut(src, c);
	}
	if (var == "d2i") {
		Map<double, int> src;
		for (size_t i = 2; i < n; i += 2) src.set((double)num(t[i]) / 4.0, (int)num(t[i + 1]));
		Map<int, int> c(src);
		return convOut(src, c);
	}
	if (var == "s2s") {
		Dic<int> src;
		for (size_t i = 2; i < n; i += 2) { String k; parse(t[i], k); src.set(k, (int)num(t[i + 1])); }
		Dic<long long> c(src);
		return convOut(src, c);
	}
	return "bad-op";
}

static std::string step(const Toks& t)
{
	if (t.size() < 2) return "bad-op";
	const std::string& kind = t[0];
	if (kind == "ds" && t[1] == "initasg") return dsInit(t);
	if (kind == "cv") return conv(t);
	if (kind == "mi") return ordered(MI, t, int(), int());
	if (kind == "ds") return ordered(DS, t, String(), String());
	if (kind == "hi") return hashed(HI, t, int(), int());
	if (kind == "hs") return hashed(HS, t, String(), int());
	if (kind == "si") return sets(SI, t, int());
	if (kind == "ss") return sets(SS, t, String());
	return "bad-op";
}

int main()
{
	int r = run(reset, step);
	reset();
	return r;
}
