// C03 correspondence harness: the real asl::String behind the line protocol.
// `cur` lives in its own heap block (sizeof(String) bytes) so that a write past the inline
// storage `_space[16]` lands in an ASan redzone; operands live in exact-size heap blocks.
#include "common.h"
#include <asl/String.h>
#include <asl/Array.h>
#include <asl/Map.h>
#include <algorithm>
#include <string>
using namespace asl;
using namespace vh;

static String* cur = 0;

static void reset()
{
	delete cur;
	cur = new String;
}

static std::string show(const String& s)
{
	std::string r = "s " + str(s.length()) + " " + (s.length() >= 0 ? hex(*s, s.length()) : std::string("neg"));
	size_t k = strlen(*s);
	if ((long long)k != s.length()) r += " strlen=" + str((long long)k);
	return r;
}

static std::string showList(const Array<String>& a)
{
	std::string r = str(a.length());
	for (int i = 0; i < a.length(); i++) {
		r += " " + hex(*a[i], a[i].length());
		if ((int)strlen(*a[i]) != a[i].length()) r += "!strlen";
	}
	return r;
}

static String S(const Exact& e) { return String(e.p, (int)e.n); }
// two API variants of the same query (String& / const char* overloads) must agree
static std::string both(const std::string& a, const std::string& b) { return a == b ? a : "variant-mismatch " + a + " / " + b; }
static std::string b2s(bool b) { return b ? "1" : "0"; }
static int sgn(int x) { return x < 0 ? -1 : x > 0 ? 1 : 0; }

static void piece(int len, long long a, long long b, int& off, int& n)
{
	off = (int)(a % (len + 1));
	n = (int)(b % (len - off + 1));
}

// ---- printf-style constructors: dispatch on the argument kinds (at most two arguments)
struct FArg { char kind; std::string s; long long i; };

static bool parseArg(const std::string& t, FArg& a)
{
	if (t.size() < 2 || t[1] != ':') return false;
	a.kind = t[0];
	if (a.kind == 's') { a.s = unhex(t.substr(2)); return true; }
	if (a.kind == 'i') { a.i = num(t.substr(2)); return true; }
	return false;
}

// which conversions of the format take a `long long` (ll length modifier)?
static std::vector<bool> longFlags(const std::string& f)
{
	std::vector<bool> r;
	for (size_t i = 0; i < f.size(); i++) {
		if (f[i] != '%') continue;
		if (i + 1 < f.size() && f[i + 1] == '%') { i++; continue; }
		size_t j = i + 1;
		while (j < f.size() && !isalpha((unsigned char)f[j])) j++;
		r.push_back(j + 1 < f.size() && f[j] == 'l' && f[j + 1] == 'l');
		i = j;
	}
	return r;
}

#define ARG(k) (a[k].kind == 's' ? 0 : (L[k] ? 2 : 1))
template <class F>
static String callFmt(F make, const std::string& fmt, std::vector<FArg>& a)
{
	std::vector<bool> L = longFlags(fmt);
	L.resize(2);
	const char* f = fmt.c_str();
	if (a.size() == 0) return make(f, 0, 0, 0, (FArg*)0, (FArg*)0);
	if (a.size() == 1) return make(f, 1, ARG(0), 0, &a[0], (FArg*)0);
	return make(f, 2, ARG(0), ARG(1), &a[0], &a[1]);
}

// expands the 13 combinations of (none | s | int | long long)^<=2
#define V0(x) ((x)->s.c_str())
#define V1(x) ((int)(x)->i)
#define V2(x) ((long long)(x)->i)
#define CALL2(CTOR, k0, k1) \
	if (t0 == k0 && t1 == k1) return CTOR(f, V##k0(a0), V##k1(a1));
#define CALL1(CTOR, k0) \
	if (t0 == k0) return CTOR(f, V##k0(a0));
#define DISPATCH(CTOR) \
	if (n == 0) return CTOR(f); \
	if (n == 1) { CALL1(CTOR, 0) CALL1(CTOR, 1) CALL1(CTOR, 2) } \
	CALL2(CTOR, 0, 0) CALL2(CTOR, 0, 1) CALL2(CTOR, 0, 2) CALL2(CTOR, 1, 0) CALL2(CTOR, 1, 1) CALL2(CTOR, 1, 2) \
	CALL2(CTOR, 2, 0) CALL2(CTOR, 2, 1) CALL2(CTOR, 2, 2) \
	return String("?");

static int g_n0 = 0;
#define CTOR_N(f, ...) String(g_n0, f, ##__VA_ARGS__)
#define CTOR_F(f, ...) String::f(f, ##__VA_ARGS__)
static String makeN(const char* f, int n, int t0, int t1, FArg* a0, FArg* a1) { DISPATCH(CTOR_N) }
static String makeF(const char* f, int n, int t0, int t1, FArg* a0, FArg* a1) { DISPATCH(CTOR_F) }

static bool hexok(const std::string& h)
{
	if (h == "-") return true;
	if (h.size() % 2) return false;
	for (size_t i = 0; i < h.size(); i++) if (!isxdigit((unsigned char)h[i])) return false;
	return true;
}

// ops whose arguments are hex byte strings (position mask: bit k = argument k+1 is hex); malformed hex is a
// protocol error answered like the model driver does, never passed to the library
static bool argsok(const Toks& t)
{
	static const char* all[] = {"new", "newc", "assign", "append", "last", "contains", "starts", "ends", "cmp", "concat",
		"rconcat", "split", "splitjoin", "join", "replace", "atoi", "atol", "splitdic", "splitself", "splitsepself", "newarr", "newbytes", "todouble", "matof", 0};
	const std::string& op = t[0];
	for (int k = 0; all[k]; k++)
		if (op == all[k]) { for (size_t i = 1; i < t.size(); i++) if (!hexok(t[i])) return false; return true; }
	if (op == "indexof") return t.size() < 2 || hexok(t[1]);
	if (op == "dtoa" || op == "ftoa") return t.size() == 3 && hexok(t[1]) && hexok(t[2]);
	if (op == "fmt" || op == "fmtf") {
		size_t k = op == "fmt" ? 2 : 1;
		if (t.size() > k && !hexok(t[k])) return false;
		for (size_t i = k + 1; i < t.size(); i++) if (t[i].compare(0, 2, "s:") == 0 && !hexok(t[i].substr(2))) return false;
	}
	return true;
}

static std::string bits64(double d) { unsigned long long u; memcpy(&u, &d, 8); char b[20]; snprintf(b, sizeof b, "%016llx", u); return b; }
static std::string bits32(float f) { unsigned u; memcpy(&u, &f, 4); char b[12]; snprintf(b, sizeof b, "%08x", u); return b; }

static std::string step(const Toks& t)
{
	const std::string& op = t[0];
	if (!argsok(t)) return "bad-op";
	String& c = *cur;
	size_t na = t.size() - 1;
	// ---- construction
	if (op == "new" && na == 1) { Exact d(unhex(t[1])); delete cur; cur = new String(d.p, (int)d.n); return show(*cur); }
	if (op == "newc" && na == 1) { Exact d(unhex(t[1])); delete cur; cur = new String((const char*)d.p); return show(*cur); }
	if (op == "newarr" && na == 1) {
		std::string d = unhex(t[1]); Array<char> a((int)d.size()); if (d.size()) memcpy(a.data(), d.data(), d.size());
		delete cur; cur = new String(a); return show(*cur);
	}
	if (op == "newbytes" && na == 1) {
		std::string d = unhex(t[1]); ByteArray a((int)d.size()); if (d.size()) memcpy(a.data(), d.data(), d.size());
		delete cur; cur = new String(a); return show(*cur);
	}
	if (op == "get" && na == 0) return show(c);
	if (op == "copy" && na == 0) { String* k = new String(c); std::string r = show(*k); delete k; return r; }
	// ---- in-place mutations
	if (op == "assign" && na == 1) { Exact d(unhex(t[1])); if (d.n % 2) { c = (const char*)d.p; } else { String e = S(d); c = e; } return show(c); }
	if (op == "append" && na == 1) { Exact d(unhex(t[1])); if (d.n % 2) { c += (const char*)d.p; } else { String e = S(d); c += e; } return show(c); }
	if (op == "appendc" && na == 1) { c += (char)num(t[1]); return show(c); }
	if (op == "appendint" && na == 1) { c << (int)num(t[1]); return show(c); }
	if (op == "appendself" && na == 2) { int off, n; piece(c.length(), num(t[1]), num(t[2]), off, n); c.append(c.data() + off, n); return show(c); }
	if (op == "plusself" && na == 0) { c += c; return show(c); }
	if (op == "assignself" && na == 2) { int off, n; piece(c.length(), num(t[1]), num(t[2]), off, n); c.assign(*c + off, n); return show(c); }
	if (op == "assigntail" && na == 1) { int off = (int)(num(t[1]) % (c.length() + 1)); c = *c + off; return show(c); }
	if (op == "selfeq" && na == 0) { String& d = c; c = d; return show(c); }
	if (op == "trim" && na == 0) { c.trim(); return show(c); }
	if (op == "clear" && na == 0) { c.clear(); return show(c); }
	if (op == "shrink" && na == 1) { c.resize((int)(num(t[1]) % (c.length() + 1))); return show(c); }
	if (op == "grow" && na == 2) { int old = c.length(), n = (int)num(t[1]); c.resize(old + n); memset(c.data() + old, (int)num(t[2]), n); return show(c); }
	if (op == "refill" && na == 2) { int n = (int)num(t[1]); c.resize(n, false); memset(c.data(), (int)num(t[2]), n); return show(c); }
	if (op == "reserve" && na == 1) { c.resize((int)num(t[1]), true, false); return show(c); }
	if (op == "pokefix" && na == 1) { int k = (int)(num(t[1]) % (c.length() + 1)); c.data()[k] = 0; c.fix(); return show(c); }
	if (op == "replaceme" && na == 2) { c.replaceme((char)num(t[1]), (char)num(t[2])); return show(c); }
	// ---- queries
	if (op == "splitdic" && na == 2) {
		Exact a(unhex(t[1])), b(unhex(t[2]));
		if (a.n == 0) return "err empty";
		Dic<String> d = c.split(S(a), S(b));
		std::vector<std::pair<std::string, std::string> > out;
		foreach2(String& k, const String& v, d)
			out.push_back(std::make_pair(std::string(*k, k.length()), std::string(*v, v.length())));
		std::sort(out.begin(), out.end());
		std::string r = str((long long)out.size());
		for (size_t i = 0; i < out.size(); i++) r += " " + hex(out[i].first) + ":" + hex(out[i].second);
		return r;
	}
	if (op == "indexof" && na == 2) { Exact d(unhex(t[1])); int i0 = (int)(num(t[2]) % (c.length() + 1)); return both(str(c.indexOf((const char*)d.p, i0)), str(c.indexOf(S(d), i0))); }
	if (op == "indexofc" && na == 2) {
		int i0 = (int)(num(t[2]) % (c.length() + 1)); int r = c.indexOf((char)num(t[1]), i0);
		if (i0 == 0 && c.contains((char)num(t[1])) != (r >= 0)) return "variant-mismatch contains(char)";
		return str(r);
	}
	if (op == "lastc" && na == 1) return str(c.lastIndexOf((char)num(t[1])));
	if (op == "last" && na == 1) { Exact d(unhex(t[1])); if (d.n == 0) return "err empty"; return str(c.lastIndexOf((const char*)d.p)); }
	if (op == "contains" && na == 1) { Exact d(unhex(t[1])); return both(b2s(c.contains(S(d))), b2s(c.contains((const char*)d.p))); }
	if (op == "starts" && na == 1) { Exact d(unhex(t[1])); return both(b2s(c.startsWith(S(d))), b2s(c.startsWith((const char*)d.p))); }
	if (op == "ends" && na == 1) { Exact d(unhex(t[1])); return both(b2s(c.endsWith(S(d))), b2s(c.endsWith((const char*)d.p))); }
	if (op == "containsc" && na == 1) return b2s(c.contains((char)num(t[1])));
	if (op == "startsc" && na == 1) return b2s(c.startsWith((char)num(t[1])));
	if (op == "endsc" && na == 1) return b2s(c.endsWith((char)num(t[1])));
	if (op == "cmp" && na == 1) {
		Exact d(unhex(t[1])); String e = S(d);
		return str(sgn(c.compare(e))) + " " + b2s(c == e) + " " + b2s(c != e) + " " + b2s(c < e) + " " + b2s(c == (const char*)d.p);
	}
	if (op == "eqc" && na == 1) return b2s(c == (char)num(t[1]));
	if (op == "at" && na == 1) { const String& k = c; return str((unsigned char)k[(int)(num(t[1]) % (c.length() + 1))]); }
	if (op == "flags" && na == 0) return b2s(c.ok()) + " " + b2s(!c) + " " + b2s(c.isTrue());
	if (op == "substring" && na == 2) { int i, n; piece(c.length(), num(t[1]), num(t[2]), i, n); return show(c.substring(i, i + n)); }
	if (op == "substr" && na == 2) {
		long long i = num(t[1]), n = num(t[2]);
		if (n < 0 || i < -(long long)c.length() || n > 2147483647LL || i > 2147483647LL) return "err range";
		return show(c.substr((int)i, (int)n));
	}
	if (op == "trimmed" && na == 0) return show(c.trimmed());
	if (op == "concat" && na == 1) { Exact d(unhex(t[1])); String e = S(d); return both(show(c + e), show(c + (const char*)d.p)); }
	if (op == "concatc" && na == 1) return show(c + (char)num(t[1]));
	if (op == "rconcatc" && na == 1) return show((char)num(t[1]) + c);
	if (op == "rconcat" && na == 1) { Exact d(unhex(t[1])); return show((const char*)d.p + c); }
	if (op == "split" && na == 1) { Exact d(unhex(t[1])); if (d.n == 0) return "err empty"; return showList(c.split(S(d))); }
	if (op == "splitjoin" && na == 1) { Exact d(unhex(t[1])); if (d.n == 0) return "err empty"; String sep = S(d); return show(c.split(sep).join(sep)); }
	// case mapping (content is C08's business): the results must be well-formed Strings — length() == strlen(), fits its
	// capacity, still so after an append — whatever bytes the input has; for pure ASCII input the text is checked too
	if (op == "caseinv" && na == 0) {
		std::string r = "inv", txt;
		bool ascii = true;
		for (int i = 0; i < c.length(); i++) if ((unsigned char)(*c)[i] >= 128) ascii = false;
		for (int k = 0; k < 2; k++) {
			String* u = new String(k ? c.toLowerCase() : c.toUpperCase());
			const char* nm = k ? " lower:" : " upper:";
			if (u->length() < 0 || (long long)strlen(**u) != u->length())
				r += std::string(nm) + "len=" + str(u->length()) + ",strlen=" + str((long long)strlen(**u));
			else if (u->length() >= u->cap()) r += std::string(nm) + "len>=cap";
			else {
				String v = *u + "!";
				if (v.length() != u->length() + 1 || (long long)strlen(*v) != v.length()) r += std::string(nm) + "append-breaks";
			}
			txt += " " + (ascii ? hex(**u, u->length()) : std::string("~"));
			delete u;
		}
		return (r == "inv" ? "inv ok" : r) + txt;
	}
	// the caller's output array holds the operands: out = [filler, X, filler]
	if (op == "splitself" && na == 1) {
		Exact d(unhex(t[1])); if (d.n == 0) return "err empty";
		Array<String> parts; parts << String("filler-filler-filler-filler") << c << String("filler-filler-filler-filler");
		parts[1].split(S(d), parts); return showList(parts);
	}
	if (op == "splitwsself" && na == 0) {
		Array<String> parts; parts << String("filler-filler-filler-filler") << c << String("filler-filler-filler-filler");
		parts[1].split(parts); return showList(parts);
	}
	if (op == "splitsepself" && na == 1) {
		Exact d(unhex(t[1])); if (d.n == 0) return "err empty";
		Array<String> parts; parts << String("filler-filler-filler-filler") << S(d) << String("filler-filler-filler-filler");
		c.split(parts[1], parts); return showList(parts);
	}
	if (op == "splitws" && na == 0) return showList(c.split());
	if (op == "join" && na >= 1) {
		Exact d(unhex(t[1]));
		Array<String> a;
		for (size_t i = 2; i < t.size(); i++) { Exact p(unhex(t[i])); a << S(p); }
		return show(a.join(S(d)));
	}
	if (op == "replace" && na == 2) { Exact a(unhex(t[1])), b(unhex(t[2])); if (a.n == 0) return "err empty"; return show(c.replace(S(a), S(b))); }
	if (op == "toint" && na == 0) return str((int)c) + " " + str(c.toInt());
	if (op == "tolong" && na == 0) return str((Long)c);
	// ---- number <-> text
	if (op == "itoa" && na == 1) { int x = (int)num(t[1]); String* s = new String(x); std::string r = show(*s) + " " + str((int)*s); delete s; return r; }
	if (op == "utoa" && na == 1) { unsigned x = (unsigned)strtoull(t[1].c_str(), 0, 10); String* s = new String(x); std::string r = show(*s) + " " + str((long long)(unsigned)*s); delete s; return r; }
	if (op == "ltoa" && na == 1) { Long x = (Long)num(t[1]); String* s = new String(x); std::string r = show(*s) + " " + str((Long)*s); delete s; return r; }
	if (op == "ultoa" && na == 1) {
		ULong x = (ULong)strtoull(t[1].c_str(), 0, 10); String* s = new String(x);
		char b[32]; snprintf(b, sizeof b, "%llu", (unsigned long long)(ULong)(Long)*s);
		std::string r = show(*s) + " " + b; delete s; return r;
	}
	if (op == "atoi" && na == 1) { Exact d(unhex(t[1])); return str(myatoi(d.p)); }
	if (op == "atol" && na == 1) { Exact d(unhex(t[1])); return str(myatol(d.p)); }
	if (op == "bool" && na == 1) { String* s = new String(t[1] == "1"); std::string r = show(*s); delete s; return r; }
	if (op == "ofchar" && na == 1) { String* s = new String((char)num(t[1])); std::string r = show(*s); delete s; return r; }
	if (op == "repeat" && na == 2) return show(String::repeat((char)num(t[1]), (int)num(t[2])));
	// ---- floating point (the third token of dtoa/ftoa is the text the model side is given; unused here)
	if (op == "dtoa" && na == 2) {
		unsigned long long u = strtoull(t[1].c_str(), 0, 16); double d; memcpy(&d, &u, 8);
		String* s = new String(d);
		std::string r = show(*s) + " D=" + both(bits64((double)*s), bits64(s->toDouble())) + " M=" + bits64(myatof(**s));
		delete s; return r;
	}
	if (op == "ftoa" && na == 2) {
		unsigned u = (unsigned)strtoul(t[1].c_str(), 0, 16); float f; memcpy(&f, &u, 4);
		String* s = new String(f);
		std::string r = show(*s) + " F=" + bits32((float)*s);
		delete s; return r;
	}
	if (op == "todouble" && na == 1) { Exact d(unhex(t[1])); String s = S(d); return both(bits64((double)s), bits64(s.toDouble())); }
	if (op == "matof" && na == 1) { Exact d(unhex(t[1])); String s = S(d); return bits64(myatof(d.p)) + " " + bits32((float)s); }
	// ---- printf-style constructors
	if ((op == "fmt" && na >= 2) || (op == "fmtf" && na >= 1)) {
		size_t k = op == "fmt" ? 2 : 1;
		if (op == "fmt") g_n0 = (int)num(t[1]);
		std::string f = unhex(t[k]);
		std::vector<FArg> a;
		for (size_t i = k + 1; i < t.size(); i++) { FArg x; if (!parseArg(t[i], x)) return "bad-op"; a.push_back(x); }
		if (a.size() > 2) return "bad-op";
		return show(op == "fmt" ? callFmt(makeN, f, a) : callFmt(makeF, f, a));
	}
	return "bad-op";
}

int main() { return run(reset, step); }
