// C03: src/String.cpp compiled once more inside the harness, with the harness' extra flag
// -fsanitize=signed-integer-overflow (the shared library build does not enable it): the INT_MIN / LLONG_MIN /
// ULong >= 2^63 round trips must not depend on signed wrap-around.  These definitions take precedence over
// the archive member String.o (which the linker then never pulls in).
#include <../src/String.cpp>
