// C04 correspondence harness: real asl::Var behind the line protocol of lean/Driver/C04.lean.
// Root variables are 8 heap-allocated Vars; a path `2/i3/k6162` is slot 2, then [3], then ["ab"].
// Mutable paths are evaluated with the non-const operator[] (auto-creation), source paths with the const one.
// Public API only: type(), is(), length(), has(), conversions, ==, toString(), array()/object() (rc(), cap(), data()).
#include "common.h"
#include <asl/Var.h>
#include <math.h>
#include <new>
#include <stdlib.h>
using namespace asl;
using namespace vh;

static const int NS = 8;
static Var* slot[NS];
static int rcOffA = 0, rcOffO = 0; // references held by the temporaries of array()/object() themselves

// every Var the harness constructs lives in storage filled with 0xAB first: a constructor that leaves a member
// unset shows (Var(Var::INT) etc. before 11663a3)
static void* poisoned() { void* p = ::operator new(sizeof(Var)); memset(p, 0xAB, sizeof(Var)); return p; }
#define NEWVAR new (poisoned()) Var

// what String::operator int() (myatoi) gives: optional sign, digits up to the first other byte, modulo 2^32
static long long keyIndex(const std::string& k)
{
	size_t i = 0; bool neg = false;
	if (i < k.size() && k[i] == '-') { neg = true; i++; }
	else if (i < k.size() && k[i] == '+') i++;
	unsigned long long y = 0;
	for (; i < k.size() && k[i] >= '0' && k[i] <= '9'; i++) y = (10 * y + (unsigned)(k[i] - '0')) % 4294967296ULL;
	unsigned long long u = neg ? (4294967296ULL - y) % 4294967296ULL : y;
	return u < 2147483648ULL ? (long long)u : (long long)u - 4294967296LL;
}

static unsigned long long unum(const std::string& s) { return strtoull(s.c_str(), NULL, 10); }

static String S(const std::string& s) { return String(s.data(), (int)s.size()); }

struct Info { int len, cap, rc; const void* id; };

static Info info(const Var& v)
{
	Info r = { 0, 0, 0, NULL };
	if (v.is(Var::ARRAY)) {
		Array<Var> a = v.array();
		r.len = a.length(); r.cap = a.cap(); r.rc = a.rc() - rcOffA; r.id = a.data();
	}
	else if (v.is(Var::OBJ)) {
		Dic<Var> o = v.object();
		r.len = o.length(); r.cap = o.kv().cap(); r.rc = o.kv().rc() - rcOffO; r.id = o.kv().data();
	}
	return r;
}

struct Step { bool isKey; int i; std::string k; };
struct Path { int root; std::vector<Step> steps; bool ok; };

static Path parsePath(const std::string& s)
{
	Path p; p.ok = false; p.root = 0;
	size_t i = 0, n = s.size();
	size_t j = s.find('/');
	std::string r = s.substr(0, j == std::string::npos ? n : j);
	if (r.empty() || r.find_first_not_of("0123456789") != std::string::npos) return p;
	p.root = atoi(r.c_str());
	if (p.root < 0 || p.root >= NS) return p;
	i = (j == std::string::npos) ? n : j + 1;
	while (i < n) {
		j = s.find('/', i);
		std::string t = s.substr(i, j == std::string::npos ? n - i : j - i);
		i = (j == std::string::npos) ? n : j + 1;
		if (t.size() < 2) return p;
		Step st; st.i = 0;
		if (t[0] == 'i') { st.isKey = false; st.i = atoi(t.c_str() + 1); }
		else if (t[0] == 'k') { st.isKey = true; st.k = unhex(t.substr(1)); }
		else return p;
		p.steps.push_back(st);
	}
	p.ok = true;
	return p;
}

struct Tgt { Var* v; Var* parent; std::string err; };

// the source operand of `p = q`, `p << q`, `p.extend(q)`: a const reference evaluated BEFORE the target path.
// block/idx/key say which element of which block it designates (block == NULL: a root variable or the static none)
struct SrcRef { const Var* v; const void* block; bool isKey; int idx; std::string key; };

static bool bytesLess(const std::string& a, const std::string& b)
{
	size_t n = a.size() < b.size() ? a.size() : b.size();
	int c = memcmp(a.data(), b.data(), n);
	return c < 0 || (c == 0 && a.size() < b.size());
}

// would `(*cur)[step]` move the element the source reference designates? (reallocation of its block, or insertion
// of a property at or before it) -- known finding autocreate-invalidates-source
static bool invalidatesSource(const Var* cur, const Step& s, const SrcRef* src)
{
	if (!src || !src->block) return false;
	if (cur->is(Var::ARRAY)) {
		Info f = info(*cur);
		return f.id == src->block && !s.isKey && s.i >= f.len && s.i + 1 > f.cap;
	}
	if (cur->is(Var::OBJ)) {
		Info f = info(*cur);
		if (f.id != src->block) return false;
		std::string k = s.isKey ? s.k : str(s.i);
		if (cur->has(S(k))) return false;
		return f.len >= f.cap || bytesLess(k, src->key);
	}
	return false;
}

// root[s1][s2]... with the non-const operator[]; a step that would grow a shared block is refused (known finding)
static Tgt resolveMut(const Path& p, bool guard, const SrcRef* src = NULL)
{
	Tgt t; t.v = slot[p.root]; t.parent = NULL;
	for (size_t n = 0; n < p.steps.size(); n++) {
		Step s = p.steps[n];
		Var* cur = t.v;
		bool viaString = false;
		if (s.isKey && cur->is(Var::ARRAY)) {
			// operator[](const String&) on an ARRAY is operator[]((int)key) (7407dbc); a negative index is an error that
			// returns the Var itself (095ba92)
			long long j = keyIndex(s.k);
			if (j < 0) {
				Var* nxt = &(*cur)[S(s.k)];
				if (nxt != cur) { t.err = "UB:negative-key-moved"; return t; }
				continue;
			}
			viaString = true; s.isKey = false; s.i = (int)j;
		}
		if (guard && invalidatesSource(cur, s, src)) { t.err = "skip-source-moved"; return t; }
		if (!s.isKey) {
			if (cur->is(Var::ARRAY)) {
				Info f = info(*cur);
				if (guard && s.i >= f.len && s.i + 1 > f.cap && f.rc > 1) { t.err = "skip-shared-growth"; return t; }
			}
			else if (cur->is(Var::OBJ)) {
				Info f = info(*cur);
				if (guard && !cur->has(String(s.i)) && f.len >= f.cap && f.rc > 1) { t.err = "skip-shared-growth"; return t; }
			}
			Var* nxt = viaString ? &(*cur)[S(p.steps[n].k)] : &(*cur)[s.i];
			if (nxt != cur) t.parent = cur;
			t.v = nxt;
		}
		else {
			if (cur->is(Var::OBJ)) {
				Info f = info(*cur);
				if (guard && !cur->has(S(s.k)) && f.len >= f.cap && f.rc > 1) { t.err = "skip-shared-growth"; return t; }
			}
			Var* nxt = &(*cur)[S(s.k)]; // on a scalar: asl_error (a message) and `return *this`
			if (nxt != cur) t.parent = cur;
			t.v = nxt;
		}
	}
	return t;
}

static const Var* resolveConst(const Path& p, std::string& err, SrcRef* ref = NULL)
{
	const Var* cur = slot[p.root];
	if (ref) { ref->block = NULL; ref->isKey = false; ref->idx = 0; ref->key.clear(); }
	for (size_t n = 0; n < p.steps.size(); n++) {
		const Step& s = p.steps[n];
		if (!s.isKey) {
			// an index beyond the length: the const operator[] gives the static none (8dbc483)
			if (ref) { ref->block = (cur->is(Var::ARRAY) && s.i < cur->length()) ? info(*cur).id : NULL; ref->isKey = false; ref->idx = s.i; }
			cur = &(*cur)[s.i];
		}
		else {
			if (ref) { ref->block = (cur->is(Var::OBJ) && cur->has(S(s.k))) ? info(*cur).id : NULL; ref->isKey = true; ref->key = s.k; }
			cur = &(*cur)[S(s.k)];
		}
	}
	if (ref) ref->v = cur;
	return cur;
}

static bool reaches(const Var& v, const void* target)
{
	if (v.is(Var::ARRAY)) {
		Info f = info(v);
		if (f.id == target) return true;
		for (int i = 0; i < f.len; i++)
			if (reaches(v[i], target)) return true;
	}
	else if (v.is(Var::OBJ)) {
		Info f = info(v);
		if (f.id == target) return true;
		Dic<Var> o = v.object();
		foreach2(String& k, Var& x, o)
			if (reaches(x, target)) return true;
	}
	return false;
}

// d = m / 2^e in normal form (e = 0 or m odd)
static std::string dy(double d)
{
	if (d != d) return "nan";
	if (isinf(d)) return d > 0 ? "inf" : "-inf";
	if (d == 0) return "0/0";
	int ex;
	double fr = frexp(d, &ex);
	long long m = (long long)ldexp(fr, 53);
	int e = 53 - ex;
	while (m % 2 == 0) { m /= 2; e--; }
	if (e < 0) { // an integer
		char buf[400];
		snprintf(buf, sizeof(buf), "%.0f", d); // glibc prints the exact integer value
		return std::string(buf) + "/0";
	}
	return str(m) + "/" + str(e);
}

static void dump(const Var& v, std::string& out)
{
	switch (v.type()) {
	case Var::NONE: out += "N"; break;
	case Var::NUL: out += "Z"; break;
	case Var::BOOL: out += ((bool)v) ? "B1" : "B0"; break;
	case Var::INT: out += "I" + str((int)v); break;
	case Var::NUMBER: out += "D" + dy((double)v); break;
	case Var::FLOAT: out += "F" + dy((double)v); break;
	case Var::STRING: { String s = v.toString(); out += "S" + hex(*s, s.length()); break; }
	case Var::ARRAY: {
		out += "[";
		for (int i = 0; i < v.length(); i++) { if (i) out += ","; dump(v[i], out); }
		out += "]";
		break;
	}
	case Var::OBJ: {
		out += "{";
		Dic<Var> o = v.object();
		int i = 0;
		foreach2(String& k, Var& x, o) { if (i++) out += ","; out += hex(*k, k.length()) + ":"; dump(x, out); }
		out += "}";
		break;
	}
	default: out += "?type" + str((int)v.type());
	}
}

static bool simpleDec(const String& s)
{
	int i = 0, n = s.length();
	if (n > 0 && s[0] == '-') i = 1;
	if (n - i == 0 || n - i > 9) return false;
	for (; i < n; i++) if (s[i] < '0' || s[i] > '9') return false;
	return true;
}

static Var::Type typeOf(const std::string& n, bool& ok)
{
	ok = true;
	if (n == "NONE") return Var::NONE;
	if (n == "NUL") return Var::NUL;
	if (n == "NUMBER") return Var::NUMBER;
	if (n == "BOOL") return Var::BOOL;
	if (n == "INT") return Var::INT;
	if (n == "SSTRING") return Var::SSTRING;
	if (n == "FLOAT") return Var::FLOAT;
	if (n == "STRING") return Var::STRING;
	if (n == "ARRAY") return Var::ARRAY;
	if (n == "OBJ") return Var::OBJ;
	ok = false;
	return Var::NONE;
}

static double litD(const Toks& t, size_t i) { return ldexp((double)num(t[i]), -(int)num(t[i + 1])); }

static void replaceSlot(int k, Var* n) { delete slot[k]; slot[k] = n; }

static void reset()
{
	for (int i = 0; i < NS; i++) { delete slot[i]; slot[i] = NEWVAR; }
}

static std::string step(const Toks& t0)
{
	Toks t = t0;
	bool guard = true;
	if (t[0][0] == '!') { guard = false; t[0] = t[0].substr(1); }
	const std::string& op = t[0];
	size_t n = t.size();
	if (op == "reset" && n == 1) return "ok";

	if (op == "set" && n >= 4) {
		Path p = parsePath(t[1]);
		if (!p.ok) return "bad-op";
		const std::string& k = t[2];
		// validate the literal before touching anything
		bool tok = true;
		Var::Type ty = Var::NONE;
		if (k == "t") { if (n != 4) return "bad-op"; ty = typeOf(t[3], tok); if (!tok) return "bad-op"; }
		else if (k == "d" || k == "f") { if (n != 5) return "bad-op"; }
		else if (k == "i" || k == "u" || k == "l" || k == "L" || k == "UL" || k == "Q" || k == "b" || k == "s" || k == "c") { if (n != 4) return "bad-op"; }
		else return "bad-op";
		Tgt g = resolveMut(p, guard);
		if (!g.err.empty()) return g.err;
		Var& v = *g.v;
		if (k == "i") v = (int)num(t[3]);
		else if (k == "u") v = (unsigned)num(t[3]);
		else if (k == "l") v = (Long)num(t[3]);
		else if (k == "L") v = (long)num(t[3]);
		else if (k == "UL") v = (unsigned long)unum(t[3]);
		else if (k == "Q") v = (ULong)unum(t[3]);
		else if (k == "d") v = litD(t, 3);
		else if (k == "f") v = (float)litD(t, 3);
		else if (k == "b") v = (t[3] == "1");
		else if (k == "s") { Exact e(unhex(t[3])); v = String(e.p, (int)e.n); }
		else if (k == "c") { Exact e(unhex(t[3])); v = (const char*)e.p; }
		else if (k == "t") { Var* tmp = NEWVAR(ty); v = *tmp; delete tmp; } // v = Var::TYPE; i.e. v = Var(ty), the temporary in poisoned storage
		return "ok";
	}
	if ((op == "seta" || op == "setd") && n >= 3) {
		// p = Array<T> (kinds i, s, d) / p = Dic<T> (kinds i, s): the templated container assignments; the target must be REBOUND
		// to a fresh container (every other Var sharing the old one keeps it)
		Path p = parsePath(t[1]);
		if (!p.ok) return "bad-op";
		const std::string& kind = t[2];
		if (op == "seta") {
			if (kind != "i" && kind != "s" && kind != "d") return "bad-op";
			Array<int> ai; Array<String> as; Array<double> ad;
			for (size_t i = 3; i < n; i++) {
				if (kind == "i") ai << (int)num(t[i]);
				else if (kind == "s") as << S(unhex(t[i]));
				else {
					size_t cpos = t[i].find(':');
					if (cpos == std::string::npos) return "bad-op";
					ad << ldexp((double)num(t[i].substr(0, cpos)), -(int)num(t[i].substr(cpos + 1)));
				}
			}
			Tgt g = resolveMut(p, guard);
			if (!g.err.empty()) return g.err;
			if (kind == "i") *g.v = ai; else if (kind == "s") *g.v = as; else *g.v = ad;
			return "ok";
		}
		if (kind != "i" && kind != "s") return "bad-op";
		for (size_t i = 3; i < n; i++) if (t[i].find('=') == std::string::npos) return "bad-op";
		Dic<int> di; Dic<String> ds;
		for (size_t i = 3; i < n; i++) {
			size_t e = t[i].find('=');
			if (kind == "i") di[S(unhex(t[i].substr(0, e)))] = (int)num(t[i].substr(e + 1));
			else ds[S(unhex(t[i].substr(0, e)))] = S(unhex(t[i].substr(e + 1)));
		}
		Tgt g = resolveMut(p, guard);
		if (!g.err.empty()) return g.err;
		if (kind == "i") *g.v = di; else *g.v = ds;
		return "ok";
	}
	if (op == "setsub" && n == 3) {
		// p = *p + off: operator=(const char*) with a pointer into the Var's own string
		Path p = parsePath(t[1]);
		if (!p.ok) return "bad-op";
		Tgt g = resolveMut(p, guard);
		if (!g.err.empty()) return g.err;
		Var& v = *g.v;
		int off = (int)num(t[2]);
		if (!v.is(Var::STRING) || off < 0 || off > v.length()) return "badarg";
		v = *v + off;
		return "ok";
	}
	if ((op == "nest" || op == "nest2" || op == "nesto" || op == "nestx") && n == 3) {
		// harness-only (deep-tree checks of the plugin's extra()): wrap root k into n more levels
		int k = (int)num(t[1]), m = (int)num(t[2]);
		if (k < 0 || k >= NS) return "bad-op";
		Var& v = *slot[k];
		for (int i = 0; i < m; i++) {
			Var w;
			if (op == "nest") w << v;                       // one handle per level
			else if (op == "nest2") w << v << v;            // the child block referenced twice inside the tree
			else if (op == "nesto") { w["a"] = v; w["b"] = 5; w["c"] = v; }
			else { w << v << 3; Var y; y << w << v << w; w = y; }  // shared at two levels
			v = w;
		}
		return "ok";
	}
	if (op == "deep" && n == 3) {
		// harness-only: the recursive operations on root k (known finding deep-recursion beyond the stack)
		int k = (int)num(t[2]);
		if (k < 0 || k >= NS) return "bad-op";
		if (t[1] == "clone") { Var c = slot[k]->clone(); return c.is(Var::ARRAY) ? "ok" : "?"; }
		if (t[1] == "eq") { Var c = slot[k]->clone(); return (c == *slot[k]) ? "1" : "0"; }
		if (t[1] == "tostr") return str(slot[k]->toString().length());
		return "bad-op";
	}
	if (op == "setkey" && n == 4) {
		// const String& k = q.object().kv()[i].key; p = k;  -- operator=(const String&) with the name of a property of q
		Path p = parsePath(t[1]), q = parsePath(t[2]);
		if (!p.ok || !q.ok) return "bad-op";
		std::string err;
		SrcRef ref;
		const Var* src = resolveConst(q, err, &ref);
		if (!src) return err;
		Tgt g = resolveMut(p, guard, &ref);
		if (!g.err.empty()) return g.err;
		src = resolveConst(q, err);   // the target path did not move it (guard above); look at it only now
		if (!src) return "UB:source-lost";
		int i = (int)num(t[3]);
		if (!src->is(Var::OBJ) || i < 0 || i >= src->length()) return "badarg";
		const String* key = &src->object().kv()[i].key; // the handle returned by object() is gone after this line
		*g.v = *key;
		return "ok";
	}
	if (op == "setcs" && n == 4) {
		// p = *q + off: operator=(const char*) with a pointer into the string Var q (e.g. v = *v[0])
		Path p = parsePath(t[1]), q = parsePath(t[2]);
		if (!p.ok || !q.ok) return "bad-op";
		std::string err;
		SrcRef ref;
		const Var* src = resolveConst(q, err, &ref);
		if (!src) return err;
		Tgt g = resolveMut(p, guard, &ref);
		if (!g.err.empty()) return g.err;
		int off = (int)num(t[3]);
		if (!src->is(Var::STRING) || off < 0 || off > src->length()) return "badarg";
		const char* c = **src + off;
		*g.v = c;
		return "ok";
	}
	if (op == "setv" && n == 3) {
		Path p = parsePath(t[1]), q = parsePath(t[2]);
		if (!p.ok || !q.ok) return "bad-op";
		std::string err;
		SrcRef ref;
		const Var* src = resolveConst(q, err, &ref); // const Var& s = q;  -- the source reference comes first
		if (!src) return err;
		Tgt g = resolveMut(p, guard, &ref);          // Var& t = p;
		if (!g.err.empty()) return g.err;
		if (g.parent && reaches(*src, info(*g.parent).id)) return "cyclic";
		*g.v = *src;                                 // t = s;
		return "ok";
	}
	if (op == "app" && n == 3) {
		Path p = parsePath(t[1]), q = parsePath(t[2]);
		if (!p.ok || !q.ok) return "bad-op";
		std::string err;
		SrcRef ref;
		const Var* src = resolveConst(q, err, &ref);
		if (!src) return err;
		Tgt g = resolveMut(p, guard, &ref);
		if (!g.err.empty()) return g.err;
		if (g.v->is(Var::ARRAY)) {
			Info f = info(*g.v);
			if (reaches(*src, f.id)) return "cyclic";
			if (guard && f.len >= f.cap && f.rc > 1) return "skip-shared-growth";
		}
		else if (g.v->is(Var::NONE)) {
			if (g.parent && reaches(*src, info(*g.parent).id)) return "cyclic"; // the new array lives inside parent
			if (src == g.v) return "cyclic"; // v << v on an undefined v: the argument is the Var that becomes the array
		}
		*g.v << *src;
		return "ok";
	}
	if (op == "appl" && n >= 4) {
		Path p = parsePath(t[1]);
		if (!p.ok) return "bad-op";
		const std::string& k = t[2];
		if (k == "d" || k == "f") { if (n != 5) return "bad-op"; }
		else if (k == "i" || k == "u" || k == "l" || k == "L" || k == "UL" || k == "Q" || k == "b" || k == "s" || k == "c") { if (n != 4) return "bad-op"; }
		else return "bad-op";
		Tgt g = resolveMut(p, guard);
		if (!g.err.empty()) return g.err;
		Var& v = *g.v;
		if (v.is(Var::ARRAY)) {
			Info f = info(v);
			if (guard && f.len >= f.cap && f.rc > 1) return "skip-shared-growth";
		}
		if (k == "i") v << (int)num(t[3]);
		else if (k == "u") v << (unsigned)num(t[3]);
		else if (k == "l") v << (Long)num(t[3]);
		else if (k == "L") v << (long)num(t[3]);
		else if (k == "UL") v << (unsigned long)unum(t[3]);
		else if (k == "Q") v << (ULong)unum(t[3]);
		else if (k == "d") v << litD(t, 3);
		else if (k == "f") v << (float)litD(t, 3);
		else if (k == "b") v << (t[3] == "1");
		else if (k == "s") { Exact e(unhex(t[3])); v << String(e.p, (int)e.n); }
		else if (k == "c") { Exact e(unhex(t[3])); const char* c = e.p; v << c; }
		return "ok";
	}
	if (op == "resize" && n == 3) {
		Path p = parsePath(t[1]);
		if (!p.ok) return "bad-op";
		Tgt g = resolveMut(p, guard);
		if (!g.err.empty()) return g.err;
		int m = (int)num(t[2]);
		if (g.v->is(Var::ARRAY)) {
			Info f = info(*g.v);
			if (guard && m > f.cap && f.rc > 1) return "skip-shared-growth";
		}
		g.v->resize(m);
		return "ok";
	}
	if (op == "remat" && n == 4) {
		Path p = parsePath(t[1]);
		if (!p.ok) return "bad-op";
		Tgt g = resolveMut(p, guard);
		if (!g.err.empty()) return g.err;
		g.v->removeAt((int)num(t[2]), (int)num(t[3]));
		return "ok";
	}
	if (op == "rem" && n == 3) {
		Path p = parsePath(t[1]);
		if (!p.ok) return "bad-op";
		Tgt g = resolveMut(p, guard);
		if (!g.err.empty()) return g.err;
		g.v->remove(S(unhex(t[2])));
		return "ok";
	}
	if (op == "clear" && n == 2) {
		Path p = parsePath(t[1]);
		if (!p.ok) return "bad-op";
		Tgt g = resolveMut(p, guard);
		if (!g.err.empty()) return g.err;
		g.v->clear();
		return "ok";
	}
	if (op == "ext" && n == 3) {
		Path p = parsePath(t[1]), q = parsePath(t[2]);
		if (!p.ok || !q.ok) return "bad-op";
		std::string err;
		SrcRef ref;
		const Var* src = resolveConst(q, err, &ref);
		if (!src) return err;
		Tgt g = resolveMut(p, guard, &ref);
		if (!g.err.empty()) return g.err;
		if (g.v->is(Var::OBJ) && src->is(Var::OBJ)) {
			Info f = info(*g.v);
			int newkeys = 0;
			{
				Dic<Var> so = src->object();
				foreach2(String& k, Var& x, so)
				{
					if (x.ok()) {
						if (reaches(x, f.id)) return "cyclic";
						if (!g.v->has(k)) newkeys++;
					}
				}
			}
			if (guard && f.rc > 1 && f.len + newkeys > f.cap) return "skip-shared-growth";
		}
		else if (g.v->is(Var::NONE) && g.parent && src->is(Var::OBJ)) {
			const void* pid = info(*g.parent).id; // the new object lives inside parent
			if (info(*src).id == pid) return "cyclic"; // ... and is then a property of src itself
			Dic<Var> so = src->object();
			foreach2(String& k, Var& x, so)
				if (x.ok() && reaches(x, pid)) return "cyclic";
		}
		g.v->extend(*src);
		return "ok";
	}
	if (op == "clone" && n == 3) {
		int k = (int)num(t[1]);
		Path q = parsePath(t[2]);
		if (k < 0 || k >= NS || !q.ok) return "bad-op";
		std::string err;
		const Var* src = resolveConst(q, err);
		if (!src) return err;
		replaceSlot(k, NEWVAR(src->clone()));
		return "ok";
	}
	if (op == "copy" && n == 3) {
		int k = (int)num(t[1]);
		Path q = parsePath(t[2]);
		if (k < 0 || k >= NS || !q.ok) return "bad-op";
		std::string err;
		const Var* src = resolveConst(q, err);
		if (!src) return err;
		replaceSlot(k, NEWVAR(*src));
		return "ok";
	}
	if (op == "drop" && n == 2) {
		int k = (int)num(t[1]);
		if (k < 0 || k >= NS) return "bad-op";
		replaceSlot(k, NEWVAR);
		return "ok";
	}
	if (op == "ctor" && n >= 3) {
		int k = (int)num(t[1]);
		if (k < 0 || k >= NS) return "bad-op";
		const std::string& c = t[2];
		if (c == "t" && n == 4) {
			bool tok; Var::Type ty = typeOf(t[3], tok);
			if (!tok) return "bad-op";
			replaceSlot(k, NEWVAR(ty));
			return "ok";
		}
		if ((c == "arr" || c == "list") && n >= 4) {
			// Var(const Array<T>&) / Var(std::initializer_list<T>): kinds i (int), s (String), d (double m:e)
			const std::string& kind = t[3];
			size_t m = n - 4;
			if (kind != "i" && kind != "s" && kind != "d") return "bad-op";
			if (c == "list" && (kind == "s" || m < 1 || m > 4)) return "bad-op";
			std::vector<double> dv;
			if (kind == "d") {
				for (size_t i = 4; i < n; i++) {
					size_t cpos = t[i].find(':');
					if (cpos == std::string::npos) return "bad-op";
					dv.push_back(ldexp((double)num(t[i].substr(0, cpos)), -(int)num(t[i].substr(cpos + 1))));
				}
			}
			if (c == "arr") {
				if (kind == "i") { Array<int> a; for (size_t i = 4; i < n; i++) a << (int)num(t[i]); replaceSlot(k, NEWVAR(a)); }
				else if (kind == "s") { Array<String> a; for (size_t i = 4; i < n; i++) a << S(unhex(t[i])); replaceSlot(k, NEWVAR(a)); }
				else { Array<double> a; for (size_t i = 0; i < dv.size(); i++) a << dv[i]; replaceSlot(k, NEWVAR(a)); }
				return "ok";
			}
			if (kind == "i") {
				int x[4] = { 0, 0, 0, 0 };
				for (size_t i = 0; i < m; i++) x[i] = (int)num(t[4 + i]);
				Var* v = m == 1 ? NEWVAR{ x[0] } : m == 2 ? NEWVAR{ x[0], x[1] } : m == 3 ? NEWVAR{ x[0], x[1], x[2] } : NEWVAR{ x[0], x[1], x[2], x[3] };
				replaceSlot(k, v);
			}
			else {
				double x[4] = { 0, 0, 0, 0 };
				for (size_t i = 0; i < m; i++) x[i] = dv[i];
				Var* v = m == 1 ? NEWVAR{ x[0] } : m == 2 ? NEWVAR{ x[0], x[1] } : m == 3 ? NEWVAR{ x[0], x[1], x[2] } : NEWVAR{ x[0], x[1], x[2], x[3] };
				replaceSlot(k, v);
			}
			return "ok";
		}
		if (c == "dic" && n >= 4) {
			// Var(const Dic<T>&): kinds i (int), s (String); entries hexkey=value
			const std::string& kind = t[3];
			if (kind != "i" && kind != "s") return "bad-op";
			for (size_t i = 4; i < n; i++) if (t[i].find('=') == std::string::npos) return "bad-op";
			if (kind == "i") {
				Dic<int> d;
				for (size_t i = 4; i < n; i++) { size_t e = t[i].find('='); d[S(unhex(t[i].substr(0, e)))] = (int)num(t[i].substr(e + 1)); }
				replaceSlot(k, NEWVAR(d));
			}
			else {
				Dic<String> d;
				for (size_t i = 4; i < n; i++) { size_t e = t[i].find('='); d[S(unhex(t[i].substr(0, e)))] = S(unhex(t[i].substr(e + 1))); }
				replaceSlot(k, NEWVAR(d));
			}
			return "ok";
		}
		if (c == "varr" && n >= 3 && n <= 7) {
			// Var::array({q1, q2, ..}) with up to 4 elements
			const Var* e[4] = { NULL, NULL, NULL, NULL };
			size_t m = n - 3;
			for (size_t i = 0; i < m; i++) { Path q = parsePath(t[3 + i]); if (!q.ok) return "bad-op"; }
			for (size_t i = 0; i < m; i++) {
				Path q = parsePath(t[3 + i]);
				std::string err;
				e[i] = resolveConst(q, err);
				if (!e[i]) return err;
			}
			Var* v = m == 0 ? NEWVAR(Var::array({})) : m == 1 ? NEWVAR(Var::array({ *e[0] })) : m == 2 ? NEWVAR(Var::array({ *e[0], *e[1] }))
				: m == 3 ? NEWVAR(Var::array({ *e[0], *e[1], *e[2] })) : NEWVAR(Var::array({ *e[0], *e[1], *e[2], *e[3] }));
			replaceSlot(k, v);
			return "ok";
		}
		if (c == "kv" && n == 5) {
			Path q = parsePath(t[4]);
			if (!q.ok) return "bad-op";
			std::string err;
			const Var* src = resolveConst(q, err);
			if (!src) return err;
			replaceSlot(k, NEWVAR(S(unhex(t[3])), *src));
			return "ok";
		}
		if ((c == "d" || c == "f") && n == 5) {
			if (c == "d") replaceSlot(k, NEWVAR(litD(t, 3)));
			else replaceSlot(k, NEWVAR((float)litD(t, 3)));
			return "ok";
		}
		if (n != 4) return "bad-op";
		if (c == "i") replaceSlot(k, NEWVAR((int)num(t[3])));
		else if (c == "u") replaceSlot(k, NEWVAR((unsigned)num(t[3])));
		else if (c == "l") replaceSlot(k, NEWVAR((Long)num(t[3])));
		else if (c == "L") replaceSlot(k, NEWVAR((long)num(t[3])));
		else if (c == "UL") replaceSlot(k, NEWVAR((unsigned long)unum(t[3])));
		else if (c == "Q") replaceSlot(k, NEWVAR((ULong)unum(t[3])));
		else if (c == "b") replaceSlot(k, NEWVAR(t[3] == "1"));
		else if (c == "s") { Exact e(unhex(t[3])); replaceSlot(k, NEWVAR(String(e.p, (int)e.n))); }
		else if (c == "c") { Exact e(unhex(t[3])); replaceSlot(k, NEWVAR((const char*)e.p)); }
		else return "bad-op";
		return "ok";
	}

	// ---- queries
	if (op == "dumpall" && n == 1) {
		std::string out;
		for (int i = 0; i < NS; i++) { if (i) out += " "; dump(*slot[i], out); }
		return out;
	}
	if (n < 2) return "bad-op";
	Path q = parsePath(t[1]);
	if (!q.ok) return "bad-op";
	if (op == "seta" || op == "setd" || op == "set" || op == "setv" || op == "app" || op == "appl" || op == "resize" || op == "remat" || op == "rem" ||
	    op == "clear" || op == "ext" || op == "clone" || op == "copy" || op == "drop" || op == "ctor")
		return "bad-op";
	std::string err;
	if (op == "eq" || op == "contains") {
		if (n != 3) return "bad-op";
		Path q2 = parsePath(t[2]);
		if (!q2.ok) return "bad-op";
		const Var* a = resolveConst(q, err);
		if (!a) return err;
		const Var* b = resolveConst(q2, err);
		if (!b) return err;
		if (op == "eq") return std::string((*a == *b) ? "1" : "0") + ((*b == *a) ? "1" : "0");
		return a->contains(*b) ? "1" : "0";
	}
	// validate arguments before resolving (the model reports bad-op first, too)
	bool tok = true;
	Var::Type ty = Var::NONE;
	if (op == "is") { if (n != 3) return "bad-op"; ty = typeOf(t[2], tok); if (!tok) return "bad-op"; }
	if (op == "hast") { if (n != 4) return "bad-op"; ty = typeOf(t[3], tok); if (!tok) return "bad-op"; }
	if ((op == "dump" || op == "tostr" || op == "len" || op == "type" || op == "conv" || op == "rc") && n != 2) return "bad-op";
	if ((op == "has" || op == "get") && n != 3) return "bad-op";
	if (op == "eqlit") {
		if (n < 4) return "bad-op";
		const std::string& k = t[2];
		if (k == "d" || k == "f") { if (n != 5) return "bad-op"; }
		else if (k == "i" || k == "b" || k == "s" || k == "c") { if (n != 4) return "bad-op"; }
		else return "bad-op";
	}
	const Var* pv = resolveConst(q, err);
	if (!pv) return err;
	const Var& v = *pv;
	if (op == "dump") { std::string out; dump(v, out); return out; }
	if (op == "tostr") { String s = v.toString(); if ((int)strlen(*s) != s.length()) return "err strlen"; return hex(*s, s.length()); }
	if (op == "len") return str(v.length());
	if (op == "type") return str((int)v.type());
	if (op == "is") return v.is(ty) ? "1" : "0";
	if (op == "has") return v.has(S(unhex(t[2]))) ? "1" : "0";
	if (op == "hast") return v.has(S(unhex(t[2])), ty) ? "1" : "0";
	if (op == "get") { Var r = v(S(unhex(t[2]))); std::string out; dump(r, out); return out; }
	if (op == "rc") { if (v.is(Var::ARRAY) || v.is(Var::OBJ)) return str(info(v).rc); return "-"; }
	if (op == "conv") {
		std::string si, sd, sl, sq;
		bool isstr = v.is(Var::STRING);
		bool isnum = v.is(Var::NUMBER);
		String text = isstr ? v.toString() : String();
		if (isstr && !simpleDec(text)) { si = "u"; sd = "u"; sl = "u"; sq = "u"; }
		else {
			double d = (double)v;
			sd = dy(d);
			if (isnum && !(d > -2147483649.0 && d < 2147483648.0)) si = "u";
			else si = str((int)v);
			// Long / ULong: defined while the truncated value fits (the cast is undefined beyond)
			bool fitsL = !isnum || (d >= -9223372036854775808.0 && d < 9223372036854775808.0);
			char buf[32];
			if (fitsL) { snprintf(buf, sizeof(buf), "%lld", (long long)(Long)v); sl = buf; } else sl = "u";
			if (fitsL || (d >= 9223372036854775808.0 && d < 18446744073709551616.0)) { snprintf(buf, sizeof(buf), "%llu", (unsigned long long)(ULong)v); sq = buf; }
			else sq = "u";
		}
		String s = v.operator String();
		return "i=" + si + " L=" + sl + " Q=" + sq + " d=" + sd + " b=" + (((bool)v) ? "1" : "0") + " s=" + hex(*s, s.length());
	}
	if (op == "eqlit") {
		const std::string& k = t[2];
		bool r = false;
		if (k == "i") r = (v == (int)num(t[3]));
		else if (k == "d") r = (v == litD(t, 3));
		else if (k == "f") r = (v == (float)litD(t, 3));
		else if (k == "b") r = (v == (t[3] == "1"));
		else if (k == "s") { Exact e(unhex(t[3])); r = (v == String(e.p, (int)e.n)); }
		else if (k == "c") { Exact e(unhex(t[3])); r = (v == (const char*)e.p); }
		return r ? "1" : "0";
	}
	return "bad-op";
}

int main()
{
	for (int i = 0; i < NS; i++) slot[i] = NULL;
	{
		Var a(Var::ARRAY), o(Var::OBJ);
		rcOffA = info(a).rc - 1;
		rcOffO = info(o).rc - 1;
	}
	reset();
	int r = run(reset, step);
	for (int i = 0; i < NS; i++) delete slot[i];
	return r;
}
