// C05 correspondence harness: the real JSON/XDL encoder (Xdl::encode / Json::encode), encode∘decode and
// write∘read through a file, behind the line protocol.  Var trees come as prefix-notation tokens.
#include "common.h"
#include <asl/Xdl.h>
#include <asl/JSON.h>
#include <asl/Var.h>
#include <asl/File.h>
#include <unistd.h>
#include "xdl_dump.h"
using namespace asl;
using namespace vh;

struct BadTree {};

static Var build(const Toks& t, size_t& i)
{
	if (i >= t.size()) throw BadTree();
	const std::string& tok = t[i++];
	char tag = tok[0];
	std::string arg = tok.substr(1);
	if (tok == "z") return Var();
	if (tok == "n") return Var(Var::NUL);
	if (tok == "t") return Var(true);
	if (tok == "f") return Var(false);
	if (tag == 'i') return Var((int)num(arg));
	if (tag == 'd') {
		unsigned long long b = strtoull(arg.c_str(), NULL, 16);
		double x;
		memcpy(&x, &b, 8);
		return Var(x);
	}
	if (tag == 'F') {
		unsigned int b = (unsigned int)strtoul(arg.c_str(), NULL, 16);
		float x;
		memcpy(&x, &b, 4);
		return Var(x);
	}
	if (tag == 's') {
		std::string s = unhex(arg);
		return Var(String(s.data(), (int)s.size()));
	}
	if (tag == 'p') return Var(String::repeat('a', (int)num(arg)));
	if (tag == 'r') {
		long long n = num(arg);
		Var x = build(t, i);
		Var a(Var::ARRAY);
		for (long long k = 0; k < n; k++) a << x;
		return a;
	}
	if (tag == 'N' || tag == 'O') {
		long long n = num(arg);
		Var x = build(t, i);
		for (long long k = 0; k < n; k++) {
			Var w(tag == 'N' ? Var::ARRAY : Var::OBJ);
			if (tag == 'N') w << x; else w["k"] = x;
			x = w;
		}
		return x;
	}
	if (tag == 'a') {
		long long n = num(arg);
		Var a(Var::ARRAY);
		for (long long k = 0; k < n; k++) a << build(t, i);
		return a;
	}
	if (tag == 'o') {
		long long n = num(arg);
		Var o(Var::OBJ);
		for (long long k = 0; k < n; k++) {
			if (i >= t.size()) throw BadTree();
			std::string key = unhex(t[i++]);
			Var x = build(t, i);
			o[String(key.data(), (int)key.size())] = x;
		}
		return o;
	}
	throw BadTree();
}

static std::string slurp(const char* path)
{
	std::string s;
	FILE* f = fopen(path, "rb");
	if (!f) return s;
	char buf[65536];
	size_t n;
	while ((n = fread(buf, 1, sizeof buf, f)) > 0) s.append(buf, n);
	fclose(f);
	return s;
}

static std::string step(const Toks& t)
{
	const std::string& op = t[0];
	if ((op == "enc" || op == "rt" || op == "file") && t.size() >= 3) {
		int mode = (int)num(t[1]);
		size_t i = 2;
		Var v;
		try { v = build(t, i); } catch (BadTree&) { return "bad-op"; }
		if (i != t.size()) return "bad-op";
		if (op == "enc") {
			String e = (mode & Json::JSON) ? Json::encode(v, Json::Mode(mode)) : Xdl::encode(v, mode);
			if ((int)strlen(*e) != e.length()) return "err strlen-mismatch";
			return hex(*e, e.length());
		}
		if (op == "rt") {
			if (mode & Json::JSON) return show(Json::decode(Json::encode(v, Json::Mode(mode))));
			return show(Xdl::decode(Xdl::encode(v, mode)));
		}
		char path[64];
		snprintf(path, sizeof path, "/tmp/vh_c05_%d.txt", (int)getpid());
		bool ok = (mode & Json::JSON) ? Json::write(v, path, Json::Mode(mode)) : Xdl::write(v, path, mode);
		if (!ok) return "err write-failed";
		std::string content = slurp(path);
		String e = Xdl::encode(v, mode);
		bool same = content.size() == (size_t)e.length() && memcmp(content.data(), *e, content.size()) == 0;
		Var r = (mode & Json::JSON) ? Json::read(path) : Xdl::read(path);
		unlink(path);
		return std::string(same ? "eq " : "ne ") + show(r);
	}
	return "bad-op";
}

int main() { return run([]() {}, step); }
