// C06 correspondence harness: the real JSON/XDL decoder (XdlParser, Json::decode, Xdl::decode)
// behind the line protocol.  Output = canonical dump of the decoded Var (public API only).
#include "common.h"
#include <asl/Xdl.h>
#include <asl/JSON.h>
#include <asl/Var.h>
#include <asl/Map.h>
#include <algorithm>
#include <memory>
#include "xdl_dump.h"
using namespace asl;
using namespace vh;

static std::unique_ptr<XdlParser> parser;

static void reset() { parser.reset(new XdlParser); }

static std::string step(const Toks& t)
{
	const std::string& op = t[0];
	if ((op == "dec" || op == "xdec") && t.size() == 2) {
		Exact d(unhex(t[1]));
		// String(const char*, n) copies n bytes; decode() reads it as a C string
		String s(d.p, (int)d.n);
		Var v = (op == "dec") ? Json::decode(s) : Xdl::decode(s);
		if (v.ok() != (v.type() != Var::NONE)) return "err ok-mismatch";
		return show(v);
	}
	if (op == "prefix" && t.size() == 3) {
		std::string d = unhex(t[1]);
		size_t k = (size_t)(num(t[2]) % (long long)(d.size() + 1));
		Exact e(d.substr(0, k));
		return show(Json::decode(String(e.p, (int)e.n)));
	}
	if (op == "chunks" && t.size() >= 2) {
		std::string d = unhex(t[1]);
		std::vector<size_t> cuts;
		for (size_t i = 2; i < t.size(); i++) cuts.push_back((size_t)(num(t[i]) % (long long)(d.size() + 1)));
		std::sort(cuts.begin(), cuts.end());
		cuts.push_back(d.size());
		XdlParser p;
		std::string flags;
		size_t pos = 0;
		for (size_t i = 0; i < cuts.size(); i++) {
			Exact e(d.substr(pos, cuts[i] - pos));
			pos = cuts[i];
			p.parse(e.p);
			flags += p.value().ok() ? "v" : "n";
		}
		p.parse(" ");
		return flags + " " + show(p.value());
	}
	if (op == "feed" && t.size() == 2) {
		Exact e(unhex(t[1]));
		parser->parse(e.p);
		return parser->value().ok() ? "v" : "n";
	}
	if (op == "end" && t.size() == 1) {
		parser->parse(" ");
		return show(parser->value());
	}
	if (op == "nest" && t.size() == 5) {
		// text = open^n mid close^n
		std::string a = unhex(t[2]), m = unhex(t[3]), b = unhex(t[4]), d;
		long long n = num(t[1]);
		for (long long i = 0; i < n; i++) d += a;
		d += m;
		for (long long i = 0; i < n; i++) d += b;
		Exact e(d);
		return show(Json::decode(String(e.p, (int)e.n)));
	}
	if (op == "reset" && t.size() == 1) {
		reset();
		return "ok";
	}
	return "bad-op";
}

int main()
{
	reset();
	return run(reset, step);
}
