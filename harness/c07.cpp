// C07 correspondence harness: real asl::Xml decode / encode behind the line protocol.
//   dec <hex>                 Xml::decode on the bytes -> "null" | canonical dump with parent flags
//   enc <fmt> <tree tokens>   build the DOM with the public API, print hex(Xml::encode(tree, fmt))
//   rt  <fmt> <tree tokens>   dump(Xml::decode(Xml::encode(tree, fmt)))
//   sub <hex> <k>             decode, keep only the k-th node (document order, k mod count), release the tree, dump the survivor
//   mut <hex> <k> <j> <how>   decode, detach child j of node k with remove|removee|clear|put (or araw_remove|araw_clear|araw_resize|araw_assign on children()), release the rest, dump the child
//   desc <hex>                decode, then `while (first child is an element) e = e.child(0);` on the only handle, dump e
//   deep <n> <kind>           decode a document nested n levels (0: closed, 1: closed then mismatched end tag, 2: unclosed, 3: closed around the text "x")
//   own <ops...>              a history of DOM mutators over four handle variables (n<v> v=Xml("e"), a<v><w> v<<w, i<v><w><j> v.insert(j,w), r<v><j> v.remove(j), e<v><w> v.remove(w),
//                             c<v> v.clear(), k<v><w><j> v=w.child(j), s<v><w> v=w, d<v> destroy v, u<v><w> v=w.parent()); after every op per
//                             variable "-" or <lowest variable holding the same node>/<parent: n | variable | x>/<children: variable | x>
// tree tokens (preorder): E <hextag> <nattr> {<hexname> <hexval>} <nchildren> children... | T <hextext>
// dump: element  E<hextag>[<hexname>=<hexval>,...]{<flag><child> ...}   text  T<hex>
//       flag '+' iff child.parent() == containing element, '!' otherwise; the whole dump is prefixed with
//       R+ iff the returned element's own parent() is a null object, R! otherwise, and followed by
//       " t=<hex of result.text()>"
#include "common.h"
#include <asl/Xml.h>
using namespace asl;
using namespace vh;

static String S(const std::string& s) { return String(s.data(), (int)s.size()); }

static void dump(const Xml& e, std::string& out)
{
	if (e.isText()) {
		const String& t = e.text();
		out += "T" + hex(*t, t.length());
		return;
	}
	out += "E" + hex(*e.tag(), e.tag().length()) + "[";
	bool first = true;
	foreach2(String& k, const String& v, e.attribs())
	{
		if (!first) out += ",";
		first = false;
		out += hex(*k, k.length()) + "=" + hex(*v, v.length());
	}
	out += "]{";
	for (int i = 0; i < e.numChildren(); i++) {
		const Xml& c = e.child(i);
		if (i) out += " ";
		out += (c.parent() == e) ? "+" : "!";
		dump(c, out);
	}
	out += "}";
}

static void preorder(const Xml& e, std::vector<Xml>& out)
{
	out.push_back(e);
	if (e.isText()) return;
	for (int i = 0; i < e.numChildren(); i++) preorder(e.child(i), out);
}

static std::string show(const Xml& e)
{
	if (!e) return "null";
	// the returned element is a root: parent() must be a null object (calling it reads the raw pointer,
	// so a dangling one is an ASan report)
	std::string out = e.parent().isnull() ? "R+" : "R!";
	dump(e, out);
	const String& tx = e.text();   // Xml::text() of the result (for an element: the text at the end of its first-child chain)
	out += " t=" + hex(*tx, tx.length());
	return out;
}

// parse the preorder token stream starting at t[i]
static bool build(const Toks& t, size_t& i, Xml& out)
{
	if (i >= t.size()) return false;
	if (t[i] == "T") {
		if (i + 1 >= t.size()) return false;
		out = XmlText(S(unhex(t[i + 1])));
		i += 2;
		return true;
	}
	if (t[i] != "E" || i + 2 >= t.size()) return false;
	Xml e(S(unhex(t[i + 1])));
	long long na = num(t[i + 2]);
	i += 3;
	for (long long k = 0; k < na; k++) {
		if (i + 1 >= t.size()) return false;
		e.setAttr(S(unhex(t[i])), S(unhex(t[i + 1])));
		i += 2;
	}
	if (i >= t.size()) return false;
	long long nc = num(t[i]);
	i++;
	for (long long k = 0; k < nc; k++) {
		Xml c;
		if (!build(t, i, c)) return false;
		e << c;
	}
	out = e;
	return true;
}

// nesting depth and parent links of a possibly very deep tree, without recursion
static std::string deepShow(const Xml& root)
{
	if (!root) return "deep null";
	long long depth = 0, nodes = 0, bad = root.parent().isnull() ? 0 : 1;
	std::vector<std::pair<Xml, long long> > work;
	work.push_back(std::make_pair(root, 1LL));
	while (!work.empty()) {
		Xml e = work.back().first;
		long long d = work.back().second;
		work.pop_back();
		nodes++;
		if (d > depth) depth = d;
		if (e.isText()) continue;
		for (int i = 0; i < e.numChildren(); i++) {
			if (!(e.child(i).parent() == e)) bad++;
			work.push_back(std::make_pair(e.child(i), d + 1));
		}
	}
	const String& tx = root.text();   // walks the first-child chain
	return "deep depth=" + str(depth) + " nodes=" + str(nodes) + " badparents=" + str(bad) + " text=" + hex(*tx, tx.length());
}

static std::string ownCanon(Xml* v[4], const Xml& x)
{
	for (int j = 0; j < 4; j++)
		if (v[j] && *v[j] == x) return str(j);
	return "x";
}

static std::string ownRun(const Toks& t)
{
	Xml* v[4] = { 0, 0, 0, 0 };
	std::string out;
	for (size_t k = 1; k < t.size(); k++) {
		const std::string& o = t[k];
		int a[3] = { 0, 0, 0 };
		for (size_t i = 1; i < o.size() && i < 4; i++) a[i - 1] = o[i] - '0';
		int x = a[0] % 4, w = a[1] % 4;
		Xml* nv = 0;      // new value of the handle variable x (acquired before the old one is released)
		bool drop = false;
		switch (o[0]) {
		case 'n': nv = new Xml(Xml("e")); break;
		case 'a': if (v[x] && v[w]) *v[x] << *v[w]; break;
		case 'r': if (v[x] && v[x]->numChildren() > 0) v[x]->remove(a[1] % v[x]->numChildren()); break;
		case 'i': if (v[x] && v[w]) v[x]->insert(a[2], *v[w]); break;   // does nothing unless a[2] < numChildren
		case 'e': if (v[x] && v[w]) v[x]->remove(*v[w]); break;   // remove(const Xml&)
		case 'c': if (v[x]) v[x]->clear(); break;
		case 'k': if (v[w] && v[w]->numChildren() > 0) nv = new Xml(v[w]->child(a[2] % v[w]->numChildren())); break;
		case 's': if (v[w]) nv = new Xml(*v[w]); break;
		case 'd': drop = true; break;
		case 'u': if (v[w]) { Xml p = v[w]->parent(); if (p.isnull()) drop = true; else nv = new Xml(p); } break;
		default: return "bad-op";
		}
		if (nv) {
			if (v[x]) { *v[x] = *nv; delete nv; }   // NodeBase::operator=
			else v[x] = nv;
		}
		else if (drop) { delete v[x]; v[x] = 0; }
		if (k > 1) out += "|";
		for (int i = 0; i < 4; i++) {
			if (i) out += " ";
			if (!v[i]) { out += "-"; continue; }
			out += ownCanon(v, *v[i]) + "/";
			Xml p = v[i]->parent();
			out += p.isnull() ? std::string("n") : ownCanon(v, p);
			out += "/";
			for (int c = 0; c < v[i]->numChildren(); c++) out += ownCanon(v, v[i]->child(c));
		}
	}
	for (int i = 0; i < 4; i++) delete v[i];
	// leaks / use after free / double free are for LSan / ASan to report: the model must predict none
	return out + " end leak=0 fault=false counts=true";
}

static std::string step(const Toks& t)
{
	const std::string& op = t[0];
	if (op == "own") return ownRun(t);
	if (op == "deep" && t.size() == 3) {
		// documents nested N levels, built here (no model side: judged by the plugin's `extra`)
		long long n = num(t[1]);
		std::string d;
		if (t[2] == "1") d += "<r>";
		for (long long i = 0; i < n; i++) d += "<a>";
		if (t[2] == "3") d += "x";
		if (t[2] != "2") for (long long i = 0; i < n; i++) d += "</a>";
		if (t[2] == "1") d += "</x>";
		Xml e = Xml::decode(String(d.data(), (int)d.size()));
		return deepShow(e);
	}
	if (op == "sub" && t.size() == 3) {
		// keep a handle to the k-th node (document order) of the decoded tree, drop the tree, then look at the survivor
		Exact d(unhex(t[1]));
		Xml c;
		{
			Xml r = Xml::decode(String(d.p, (int)d.n));
			if (!r) return "null";
			std::vector<Xml> pre;
			preorder(r, pre);
			c = pre[(size_t)(num(t[2]) % (long long)pre.size())];
		}
		std::string out = c.parent().isnull() ? "R+" : "R!";
		dump(c, out);
		const String& tx = c.text();
		out += " t=" + hex(*tx, tx.length());
		return out;
	}
	if (op == "mut" && t.size() == 5) {
		// take the j-th child c of the k-th node p (document order) of the decoded tree, remove it from p with the
		// mutator named by t[4], look at c.parent() while p is alive, release everything but c, look again
		Exact d(unhex(t[1]));
		Xml c;
		std::string out;
		{
			Xml r = Xml::decode(String(d.p, (int)d.n));
			if (!r) return "null";
			std::vector<Xml> pre;
			preorder(r, pre);
			Xml p = pre[(size_t)(num(t[2]) % (long long)pre.size())];
			if (p.isText() || p.numChildren() == 0) return "skip";
			int j = (int)(num(t[3]) % p.numChildren());
			c = p.child(j);
			if (t[4] == "remove") p.remove(j);
			else if (t[4] == "removee") p.remove(c);
			else if (t[4] == "clear") p.clear();
			else if (t[4] == "put") p.put(String("t"));
			// through the array that the non-const children() hands out (known finding raw-children-array: used by its probe only)
			else if (t[4] == "araw_remove") p.children().remove(j);
			else if (t[4] == "araw_clear") p.children().clear();
			else if (t[4] == "araw_resize") p.children().resize(0);
			else if (t[4] == "araw_assign") p.children()[j] = Xml("z");
			else return "bad-op";
			out = c.parent().isnull() ? "M+" : "M!";
		}
		out += c.parent().isnull() ? "R+" : "R!";
		dump(c, out);
		const String& tx = c.text();
		out += " t=" + hex(*tx, tx.length());
		return out;
	}
	if (op == "desc" && t.size() == 2) {
		// walk down the first-child chain by assigning to the only handle, then a self-assignment through a reference
		Exact d(unhex(t[1]));
		Xml e = Xml::decode(String(d.p, (int)d.n));
		if (!e) return "null";
		while (e.numChildren() > 0 && !e.child(0).isText()) e = e.child(0);
		Xml& r = e;
		e = r;
		return show(e);
	}
	if (op == "dec" && t.size() == 2) {
		Exact d(unhex(t[1]));
		Xml e = Xml::decode(String(d.p, (int)d.n));
		return show(e);
	}
	if ((op == "enc" || op == "rt") && t.size() >= 3) {
		size_t i = 2;
		Xml e;
		if (!build(t, i, e) || i != t.size()) return "bad-op";
		String x = Xml::encode(e, t[1] == "1");
		if ((int)strlen(*x) != x.length()) return "err strlen-mismatch";
		if (op == "enc") return hex(*x, x.length());
		Exact d(std::string(*x, x.length()));
		Xml r = Xml::decode(String(d.p, (int)d.n));
		return show(r);
	}
	return "bad-op";
}

int main() { return run([]() {}, step); }
