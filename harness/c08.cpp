// C08 correspondence harness: the real UTF converters, count/chars/iteration, case mapping.
// Inputs of the free functions live in heap blocks of exact size (terminator flush against the
// redzone); String objects live on the heap and everything of their buffer after the terminator is
// poisoned while const methods run, so a read past the terminator is an AddressSanitizer report
// whatever the length (inline buffer or heap block with slack).
#include "common.h"
#include <asl/String.h>
#include <asl/Array.h>
#include <new>
#include <wchar.h>
#if defined(__SANITIZE_ADDRESS__)
#include <sanitizer/asan_interface.h>
extern "C" size_t __sanitizer_get_allocated_size(const volatile void* p);
#define HAVE_ASAN 1
#else
#define HAVE_ASAN 0
#endif
using namespace asl;
using namespace vh;

static std::vector<long long> ints(const std::string& s)
{
	std::vector<long long> v;
	if (s == "-") return v;
	size_t i = 0;
	while (i <= s.size()) {
		size_t j = s.find(',', i);
		if (j == std::string::npos) j = s.size();
		v.push_back(atoll(s.substr(i, j - i).c_str()));
		i = j + 1;
	}
	return v;
}

static std::string lenhex(const char* p, int n)
{
	if (n < 0) return str(n) + " negative-length";
	return str(n) + " " + hex(p, (size_t)n);
}
static std::string lenhex(const String& a) { return lenhex(*a, a.length()); }

template <class T>
static std::string natlist(const T* p, int n)
{
	if (n <= 0) return "-";
	std::string s;
	for (int i = 0; i < n; i++) { if (i) s += ","; s += str((long long)p[i]); }
	return s;
}

// exact-size heap block of T
template <class T>
struct Block {
	T* p; size_t n;
	Block(size_t n_) : n(n_) { p = (T*)malloc(n * sizeof(T) + (n == 0)); }
	~Block() { free(p); }
};

// a String on the heap; bytes after its terminator are poisoned between lock() and unlock()
struct PStr {
	String* s;
	char* pb; size_t pn;
	PStr(const std::string& b) : pb(0), pn(0)
	{
		void* m = malloc(sizeof(String));
		s = new (m) String(b.data(), (int)b.size());
		lock();
	}
	void lock()
	{
#if HAVE_ASAN
		char* p = (char*)s->data();
		char* o = (char*)s;
		char* end;
		if (p >= o && p < o + sizeof(String)) end = o + sizeof(String);
		else end = p + __sanitizer_get_allocated_size(p);
		pb = p + s->length() + 1;
		pn = end > pb ? (size_t)(end - pb) : 0;
		if (pn) ASAN_POISON_MEMORY_REGION(pb, pn);
#endif
	}
	void unlock()
	{
#if HAVE_ASAN
		if (pn) ASAN_UNPOISON_MEMORY_REGION(pb, pn);
		pn = 0;
#endif
	}
	~PStr() { unlock(); s->~String(); free(s); }
};

static std::string convOut(const std::string& b)
{
	PStr ps(b);
	const String& s = *ps.s;
	std::string out = "count=" + str(s.count());
	{
		Array<int> c = s.chars();
		out += " chars=" + natlist(c.data(), c.length());
	}
	{
		std::string it;
		for (String::Enumerator e = s.all(); e; ++e) {
			int code = *e;
			if (!it.empty()) it += ",";
			it += str(code) + ":" + str(e.n);
		}
		// the C++11 range-for must see the same codes
		std::string it2;
		for (int code : s) { if (!it2.empty()) it2 += ","; it2 += str(code); }
		std::string it1;
		for (String::Enumerator e = s.all(); e; ++e) { int code = *e; if (!it1.empty()) it1 += ","; it1 += str(code); }
		if (it1 != it2) return "err range-for-differs";
		out += " iter=" + (it.empty() ? std::string("-") : it);
	}
	ps.unlock();   // dataw() resizes the buffer
	{
		const wchar_t* w = ps.s->dataw();
		int wl = (int)wcslen(w);
		if (ps.s->wlength() != wl) return "err wlength";
		if ((int)b.size() != ps.s->length() || memcmp(ps.s->data(), b.data(), b.size()) != 0) return "err dataw-changed-bytes";
		out += " wide=" + natlist(w, wl);
		Block<wchar_t> wb(wl + 1);
		memcpy(wb.p, w, (wl + 1) * sizeof(wchar_t));
		String back(wb.p);
		if (back.length() < 0 || back.length() >= back.cap()) return "err back-length";
		if ((*back)[back.length()] != 0) return "err back-unterminated";
		out += " back=" + lenhex(back);
	}
	return out;
}

static std::string caseOut(const std::string& b)
{
	PStr ps(b);
	const String& s = *ps.s;
	String u = s.toUpperCase();
	String l = s.toLowerCase();
	if (u.length() < 0 || l.length() < 0) return "err negative";
	if ((*u)[u.length()] != 0 || (*l)[l.length()] != 0) return "err unterminated";
	if (memchr(*u, 0, u.length()) || memchr(*l, 0, l.length())) return "err embedded-nul (length() is not the offset of the terminator)";
	bool le = u.length() <= (int)b.size() && l.length() <= (int)b.size();
	return "up=" + lenhex(u) + " lo=" + lenhex(l) + " le=" + (le ? "1" : "0");
}

static unsigned long long fnv(unsigned long long h, const std::string& s)
{
	for (size_t i = 0; i < s.size(); i++) { h ^= (unsigned char)s[i]; h *= 1099511628211ULL; }
	return h;
}
static std::string hex64(unsigned long long h) { char b[32]; snprintf(b, sizeof b, "%016llx", h); return b; }

static std::string codesOut(const std::vector<long long>& v)
{
	Array<int> a;
	for (size_t i = 0; i < v.size(); i++) a << (int)v[i];
	String s = String::fromCodes(a);
	if (s.length() < 0) return "err negative";
	if ((*s)[s.length()] != 0) return "err unterminated";
	return "s=" + lenhex(s) + " " + convOut(std::string(*s, (size_t)s.length()));
}

static const unsigned char BND[16] = {0x00, 0x7F, 0x80, 0xBF, 0xC0, 0xC2, 0xDF, 0xE0, 0xEF, 0xF0, 0xF4, 0xF7, 0xF8, 0xFF, 0x41, 0x61};

static std::string step(const Toks& t)
{
	const std::string& op = t[0];
	if (op == "e32" && t.size() == 3) {
		int n = (int)num(t[1]);
		std::vector<long long> v = ints(t[2]);
		size_t k = 0;
		while (k < v.size() && (int)v[k] != 0) k++;
		Block<int> in(k + 1);
		for (size_t i = 0; i < k; i++) in.p[i] = (int)v[i];
		in.p[k] = 0;
		Block<char> out(4 * k + 1);
		int r = utf32toUtf8(in.p, out.p, n);
		if (r < 0 || (size_t)r > 4 * k) return "err ret-out-of-range";
		if (out.p[r] != 0) return "err unterminated";
		return lenhex(out.p, r);
	}
	if (op == "d32" && t.size() == 3) {
		int n = (int)num(t[1]);
		std::string b = unhex(t[2]);
		size_t k = strlen(b.c_str());
		Exact in(b.substr(0, k));
		Block<int> out(k + 1);
		int r = utf8toUtf32(in.p, out.p, n);
		if (r < 0 || (size_t)r > k) return "err ret-out-of-range";
		if (out.p[r] != 0) return "err unterminated";
		return str(r) + " " + natlist(out.p, r);
	}
	if (op == "e16" && t.size() == 3) {
		int n = (int)num(t[1]);
		std::vector<long long> v = ints(t[2]);
		size_t k = 0;
		while (k < v.size() && (int)v[k] != 0) k++;
		Block<wchar_t> in(k + 1);
		for (size_t i = 0; i < k; i++) in.p[i] = (wchar_t)(int)v[i];
		in.p[k] = 0;
		Block<char> out(4 * k + 1);
		int r = utf16toUtf8(in.p, out.p, n);
		if (r < 0 || (size_t)r > 4 * k) return "err ret-out-of-range";
		if (out.p[r] != 0) return "err unterminated";
		return lenhex(out.p, r);
	}
	if (op == "d16" && t.size() == 3) {
		int n = (int)num(t[1]);
		std::string b = unhex(t[2]);
		size_t k = strlen(b.c_str());
		Exact in(b.substr(0, k));
		Block<wchar_t> out(k + 1);
		int r = utf8toUtf16(in.p, out.p, n);
		if (r < 0 || (size_t)r > k) return "err ret-out-of-range";
		if (out.p[r] != 0) return "err unterminated";
		return str(r) + " " + natlist(out.p, r);
	}
	if (op == "conv" && t.size() == 2) return convOut(unhex(t[1]));
	if (op == "str" && t.size() == 2) { std::string b = unhex(t[1]); return convOut(b) + " " + caseOut(b); }
	if (op == "cmap" && t.size() == 2) return caseOut(unhex(t[1]));
	if (op == "nocase" && t.size() == 3) {
		PStr a(unhex(t[1])), b(unhex(t[2]));
		bool e = a.s->equalsNocase(*b.s);
		bool e2 = b.s->equalsNocase(*a.s);
		if (e != e2) return "err not-symmetric";
		String la = a.s->toLowerCase(), lb = b.s->toLowerCase();
		bool le = la == lb;
		bool le2 = la.length() == lb.length() && memcmp(*la, *lb, la.length()) == 0;
		if (le != le2) return "err operator==";
		return std::string("eq=") + (e ? "1" : "0") + " lower_eq=" + (le ? "1" : "0");
	}
	if (op == "codes" && t.size() == 2) return codesOut(ints(t[1]));
	if (op == "code" && t.size() == 2) {
		String s = String::fromCode((int)num(t[1]));
		if ((*s)[s.length()] != 0) return "err unterminated";
		return lenhex(s);
	}
	if ((op == "fixw" || op == "safe") && t.size() == 3) {
		// the wide scratch area: SafeString -> dataw(); the caller stores units; ~SafeString -> fixW() converts in place
		std::vector<long long> v = ints(t[2]);
		std::string b = op == "fixw" ? unhex(t[1]) : std::string();
		String* ps = op == "fixw" ? new String(b.data(), (int)b.size()) : new String();
		SafeString* ss = op == "safe" ? new SafeString(*ps, (int)(num(t[1]) % 64)) : new SafeString(*ps);
		wchar_t* w = *ss;
		long off = (char*)w - ps->data();
		int cap = ps->cap();
		long room = (cap - off) / 4;
		if (off < 0 || off % 4 || room < 1) { delete ss; delete ps; return "err scratch-geometry"; }
		size_t keep = v.size() < (size_t)(room - 1) ? v.size() : (size_t)(room - 1);
		for (size_t i = 0; i < keep; i++) w[i] = (wchar_t)(int)v[i];
		w[keep] = 0;
		for (long i = (long)keep + 1; i < room; i++) w[i] = 0x41414141;   // a read past the terminator would show in the result
		std::string out = "off=" + str(off) + " cap=" + str(cap);
		delete ss;   // fixW()
		if (ps->cap() != cap) { delete ps; return "err fixW-reallocated"; }
		if (ps->length() != (int)strlen(**ps)) { delete ps; return "err length-not-strlen"; }
		if (ps->length() >= ps->cap()) { delete ps; return "err length-beyond-cap"; }
		out += " " + lenhex(*ps);
		delete ps;
		return out;
	}
	if (op == "safec" && t.size() == 2) {
		// read-only wide view through a const SafeString (LPCWSTR use), then ~SafeString -> fixW()
		std::string b = unhex(t[1]);
		String* ps = new String(b.data(), (int)b.size());
		const SafeString* ss = new SafeString(*ps);
		const wchar_t* w = *ss;
		long off = (const char*)w - ps->data();
		int cap = ps->cap();
		std::string out = "off=" + str(off) + " cap=" + str(cap);
		if (off >= 0 && off % 4 == 0 && off + 4 <= cap) out += " wide=" + natlist(w, (int)wcslen(w));
		else out += " wide=(pointer outside the string buffer)";
		delete ss;   // fixW()
		if (ps->length() != (int)strlen(**ps)) { delete ps; return "err length-not-strlen"; }
		out += " " + lenhex(*ps);
		delete ps;
		return out;
	}
	if (op == "cvalid" && t.size() == 2) {
		PStr ps(unhex(t[1]));
		const String& s = *ps.s;
		String u = s.toUpperCase(), l = s.toLowerCase();
		String ru = String::fromCodes(u.chars()), rl = String::fromCodes(l.chars());
		bool vu = ru.length() == u.length() && memcmp(ru.data(), u.data(), u.length()) == 0;
		bool vl = rl.length() == l.length() && memcmp(rl.data(), l.data(), l.length()) == 0;
		return str(s.count()) + " " + str(u.count()) + " " + str(l.count()) + " " + (vu ? "1" : "0") + " " + (vl ? "1" : "0");
	}
	if (op == "wlen" && t.size() == 2) {
		PStr ps(unhex(t[1]));
		ps.unlock();   // dataw() resizes the buffer
		return str(ps.s->wlength());
	}
	if (op == "warr" && t.size() == 2) {
		std::vector<long long> v = ints(t[1]);
		Array<wchar_t> a;
		for (size_t i = 0; i < v.size(); i++) a << (wchar_t)(int)v[i];
		a = a.clone();   // exact-size block
		String s(a);
		if (s.length() < 0 || s.length() >= s.cap()) return "err length-beyond-cap";
		if ((*s)[s.length()] != 0) return "err unterminated";
		return lenhex(s);
	}
	if (op == "sblk" && t.size() == 3) {
		long long lo = num(t[1]), cnt = num(t[2]);
		unsigned long long h = 14695981039346656037ULL;
		for (long long c = lo; c < lo + cnt; c++) {
			if ((c >= 0xd800 && c <= 0xdfff) || c == 0 || c > 0x10ffff) continue;
			std::vector<long long> v(1, c);
			h = fnv(fnv(h, codesOut(v)), "\n");
		}
		return hex64(h);
	}
	if (op == "bblk" && t.size() == 3) {
		std::string p = unhex(t[1]);
		unsigned long long h = 14695981039346656037ULL;
		int na = t[2] == "all" ? 256 : t[2] == "bnd" ? 16 : 0;
		if (!na) return "bad-op";
		for (int i = 0; i < na; i++) {
			std::string s = p + (char)(na == 256 ? i : BND[i]);
			h = fnv(fnv(h, convOut(s) + " " + caseOut(s)), "\n");
		}
		return hex64(h);
	}
	return "bad-op";
}

int main() { return run([]() {}, step); }
