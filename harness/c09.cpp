// C09 correspondence harness: the real HttpRequest(Socket&), HttpServer::serve(Socket), Url, Url::decode
// behind the line protocol.  Streams are delivered through a socketpair (or loopback TCP for `tcp`),
// completely written and half-closed by the peer before the server side starts reading.
#include "common.h"
#include <asl/WebSocket.h>
#include <asl/String.h>
#include <asl/Http.h>
#include <asl/HttpServer.h>
#include <asl/Socket.h>
#include <asl/Map.h>
#include <asl/File.h>
#include <asl/Directory.h>
#include <sys/socket.h>
#include <sys/ioctl.h>
#include <sys/stat.h>
#include <netinet/in.h>
#include <arpa/inet.h>
#include <poll.h>
#include <fcntl.h>
#include <unistd.h>
#include <pthread.h>
#include <time.h>
#include <errno.h>
#include <map>
#include <atomic>
using namespace asl;
using namespace vh;

static String S(const std::string& s) { return String(s.data(), (int)s.size()); }

static unsigned adler32(const unsigned char* p, size_t n)
{
	unsigned a = 1, b = 0;
	for (size_t i = 0; i < n; i++) { a = (a + p[i]) % 65521; b = (b + a) % 65521; }
	return b * 65536u + a;
}

static std::string brep(const void* p, long long n)
{
	if (n < 0) return "negative-length:" + str(n);
	if (n <= 64) return str(n) + ":" + hex(p, (size_t)n);
	return str(n) + ":" + str(adler32((const unsigned char*)p, (size_t)n)) + ":" + hex(p, 16);
}
static std::string brep(const String& s) { return brep(*s, s.length()); }
static std::string brep(const std::string& s) { return brep(s.data(), (long long)s.size()); }

static std::string showDic(const Dic<>& d)
{
	std::string s;
	foreach2(String& k, const String& v, d)
	{
		if (!s.empty()) s += ";";
		s += hex(*k, k.length()) + ":" + brep(v);
	}
	return s.empty() ? "-" : s;
}

static bool scanDD(const String& p)
{
	for (int i = 0; i + 1 < p.length(); i++)
		if (p[i] == '.' && p[i + 1] == '.') return true;
	return false;
}

static String mapAscii(const String& s, bool up)
{
	String r = s;
	for (int i = 0; i < r.length(); i++)
	{
		char c = r[i];
		if (up && c >= 'a' && c <= 'z') r[i] = (char)(c - 32);
		if (!up && c >= 'A' && c <= 'Z') r[i] = (char)(c + 32);
	}
	return r;
}

// `_fragment` is protected and has no accessor
struct Peek : public HttpRequest
{
	static const String& frag(HttpRequest& r) { return r.*(&Peek::_fragment); }
};

static std::string showReq(HttpRequest& r)
{
	std::string s;
	s += "m=" + brep(r.method()) + " r=" + brep(r.resource()) + " pr=" + brep(r.protocol()) + " p=" + brep(r.path());
	s += " q=" + brep(r.querystring());
	s += " f=" + brep(Peek::frag(r));
	const Array<String>& parts = r.parts();
	std::string ps;
	for (int i = 0; i < parts.length(); i++) ps += (i ? "," : "") + hex(*parts[i], parts[i].length());
	s += " parts=" + (parts.length() ? ps : std::string("none"));
	const Dic<>& H = r.headers();
	s += " H=" + showDic(H);
	s += " b=" + brep(r.body().data(), r.body().length());
	s += " qd=" + showDic(r.query());
	bool ci = true;
	foreach2(String& k, const String& v, H)
	{
		String lo = mapAscii(k, false), up = mapAscii(k, true);
		if (!(r.header(lo) == v) || !(r.header(up) == v) || !r.hasHeader(lo)) ci = false;
	}
	s += std::string(" ci=") + (ci ? "1" : "0");
	s += std::string(" dd=") + (scanDD(r.path()) ? "1" : "0");
	return s;
}

// ---------------------------------------------------------------- watchdog ("terminates promptly")

static std::atomic<long long> g_opStart(0); // ms, 0 = idle
static std::atomic<long long> g_opCpu0(0);  // process CPU ms at the start of the op
static std::string g_opLine;

static long long nowMs()
{
	timespec t; clock_gettime(CLOCK_MONOTONIC, &t);
	return (long long)t.tv_sec * 1000 + t.tv_nsec / 1000000;
}
static double cpuS()
{
	timespec t; clock_gettime(CLOCK_PROCESS_CPUTIME_ID, &t);
	return t.tv_sec + t.tv_nsec * 1e-9;
}
static void removeFiles();
#if defined(__SANITIZE_ADDRESS__)
extern "C" void __sanitizer_set_death_callback(void (*callback)(void));
#else
static void __sanitizer_set_death_callback(void (*)(void)) {}   // production-build pass: no sanitizer runtime
#endif

static void* watchdog(void*)
{
	for (;;)
	{
		usleep(100000);
		long long t0 = g_opStart.load();
		if (!t0) continue;
		long long wall = nowMs() - t0, cpu = (long long)(cpuS() * 1000) - g_opCpu0.load();
		// a spinning reader burns CPU; a reader stuck in a timeout sleeps: either way the connection was not handled promptly
		if (wall > 12000 || cpu > 3000)
		{
			fprintf(stderr, "WATCHDOG: operation did not terminate (wall %lld ms, cpu %lld ms): %.200s\n", wall, cpu, g_opLine.c_str());
			fflush(stderr);
			removeFiles();
			_exit(98);
		}
	}
	return 0;
}

// ---------------------------------------------------------------- connections

struct PeerReader
{
	int fd;
	std::string data;
	pthread_t th;
	static void* run(void* p)
	{
		PeerReader* r = (PeerReader*)p;
		char buf[65536];
		for (;;)
		{
			ssize_t n = ::read(r->fd, buf, sizeof buf);
			if (n > 0) r->data.append(buf, (size_t)n);
			else if (n == 0 || errno != EINTR) break;
		}
		return 0;
	}
	void start(int f) { fd = f; pthread_create(&th, 0, run, this); }
	void join() { pthread_join(th, 0); }
};

// a socketpair whose peer end has written `stream` and shut its write side down
struct Conn
{
	int srv, peer, dupfd;
	PeerReader reader;
	bool ok;
	bool threaded;
	// threaded = false: what the server writes must fit the socket buffer (a 100-continue line); it is read at the end
	Conn(const std::string& stream, bool threaded_ = true, bool halfClose = true) : srv(-1), peer(-1), dupfd(-1), ok(false), threaded(threaded_)
	{
		int fd[2];
		if (socketpair(AF_UNIX, SOCK_STREAM, 0, fd)) return;
		srv = fd[0]; peer = fd[1];
		if (stream.size() > 100000)
		{
			int sz = 1 << 22;
			setsockopt(peer, SOL_SOCKET, SO_SNDBUF, &sz, sizeof sz);
			setsockopt(srv, SOL_SOCKET, SO_RCVBUF, &sz, sizeof sz);
		}
		int fl = fcntl(peer, F_GETFL);
		fcntl(peer, F_SETFL, fl | O_NONBLOCK);
		size_t off = 0;
		while (off < stream.size())
		{
			ssize_t n = ::send(peer, stream.data() + off, stream.size() - off, MSG_NOSIGNAL);
			if (n <= 0) break;
			off += (size_t)n;
		}
		fcntl(peer, F_SETFL, fl);
		ok = off == stream.size();
		if (halfClose) shutdown(peer, SHUT_WR);
		dupfd = dup(srv);
		if (threaded) reader.start(peer);
	}
	// unread bytes left in the server side's queue
	long long drain()
	{
		long long n = 0;
		char buf[65536];
		int fl = fcntl(dupfd, F_GETFL);
		fcntl(dupfd, F_SETFL, fl | O_NONBLOCK);
		for (;;)
		{
			ssize_t k = ::read(dupfd, buf, sizeof buf);
			if (k <= 0) break;
			n += k;
		}
		return n;
	}
	// call after the asl Socket has been closed
	std::string finish()
	{
		::close(dupfd); dupfd = -1;
		if (threaded) reader.join();
		else { reader.fd = peer; PeerReader::run(&reader); }
		::close(peer); peer = -1;
		return reader.data;
	}
	~Conn() { if (dupfd >= 0) ::close(dupfd); if (peer >= 0) { if (threaded) reader.join(); ::close(peer); } }
};

static std::string sockState(Socket& c, bool closedByLib)
{
	return "err=" + str(c.error()) + " closed=" + (closedByLib ? "1" : "0");
}

// ---------------------------------------------------------------- servers

static pthread_mutex_t g_mx = PTHREAD_MUTEX_INITIALIZER;
static std::map<int, std::vector<std::string> > g_seen; // connection key -> requests handed to the application
static bool g_tcpMode = false;

static std::vector<long long> g_at; // srv: bytes unread at each dispatch

struct RecServer : public HttpServer
{
	RecServer() : HttpServer(-1) {}
	void serve(HttpRequest& q, HttpResponse& r)
	{
		std::string rec = showReq(q);
		int key = g_tcpMode ? q.sender().port() : -1;
		pthread_mutex_lock(&g_mx);
		g_seen[key].push_back(rec);
		// socketpair mode: the whole stream arrived before serve() started, so what is still unread now says where this
		// request ended (HttpServer::serve ends the connection through closeBehind(), which hides where the loop stopped)
		if (!g_tcpMode) g_at.push_back((long long)q.socket().available());
		pthread_mutex_unlock(&g_mx);
		r.put("ok");
	}
	int tcpPort;
	int clients() { return (int)_numClients; }
	bool startTcp()
	{
		if (!bind("127.0.0.1", 0)) return false;
		tcpPort = _sockets[0].localAddress().port();
		start(true);
		return true;
	}
	void stopTcp()
	{
		_requestStop = true;
		// wake the accept loop
		int fd = ::socket(AF_INET, SOCK_STREAM, 0);
		sockaddr_in a; memset(&a, 0, sizeof a);
		a.sin_family = AF_INET; a.sin_port = htons((unsigned short)tcpPort); a.sin_addr.s_addr = htonl(INADDR_LOOPBACK);
		::connect(fd, (sockaddr*)&a, sizeof a);
		::close(fd);
		for (int i = 0; i < 100 && running(); i++) usleep(20000);
	}
};

static RecServer* g_rec = 0;
static RecServer* g_tcp = 0;
static HttpServer* g_files = 0;
static std::string g_tmp, g_secret = "TOPSECRET-c09-MARKER";
static std::string g_fileA = "0123456789abcdefghijklmnopqrstuvwxyz";

static void setupFiles()
{
	char tmpl[] = "/tmp/c09h-XXXXXX";
	g_tmp = mkdtemp(tmpl);
	mkdir((g_tmp + "/root").c_str(), 0755);
	mkdir((g_tmp + "/root/sub").c_str(), 0755);
	mkdir((g_tmp + "/rootx").c_str(), 0755);
	struct { const char* p; std::string c; } fs[] = {
		{ "/secret.txt", g_secret }, { "/rootx/s.txt", g_secret }, { "/root/index.html", "<html>INDEX</html>" },
		{ "/root/a.txt", g_fileA }, { "/root/sub/b.txt", "BBBB" }, { "/root/sub/index.html", "SUBINDEX" }, { "/root/e.bin", "" } };
	for (size_t i = 0; i < sizeof fs / sizeof fs[0]; i++)
	{
		FILE* f = fopen((g_tmp + fs[i].p).c_str(), "wb");
		fwrite(fs[i].c.data(), 1, fs[i].c.size(), f);
		fclose(f);
	}
	g_files = new HttpServer(-1);
	g_files->setRoot(S(g_tmp + "/root"));
}

static void removeFiles()
{
	if (!g_tmp.empty())
	{
		const char* fs[] = { "/secret.txt", "/rootx/s.txt", "/root/index.html", "/root/a.txt", "/root/sub/b.txt", "/root/sub/index.html", "/root/e.bin" };
		for (size_t i = 0; i < sizeof fs / sizeof fs[0]; i++) unlink((g_tmp + fs[i]).c_str());
		rmdir((g_tmp + "/root/sub").c_str()); rmdir((g_tmp + "/root").c_str()); rmdir((g_tmp + "/rootx").c_str()); rmdir(g_tmp.c_str());
		g_tmp.clear();
	}
}


// ---------------------------------------------------------------- Upgrade hand-off tap
static int g_tapFd = -1;          // a dup of the server-side descriptor of the connection under test
static bool g_tapDone = false;
static std::string g_tapRest;     // the bytes still unread on the connection at the hand-off
static bool g_tapBlock = false;   // fragmented delivery: the rest of the stream is still on its way, read up to the peer's half-close

static void tapNow()
{
	if (g_tapDone || g_tapFd < 0) return;
	g_tapDone = true;
	char buf[65536];
	int fl = fcntl(g_tapFd, F_GETFL);
	fcntl(g_tapFd, F_SETFL, g_tapBlock ? (fl & ~O_NONBLOCK) : (fl | O_NONBLOCK));
	for (;;)
	{
		ssize_t k = ::read(g_tapFd, buf, sizeof buf);
		if (k <= 0) break;
		g_tapRest.append(buf, (size_t)k);
	}
	fcntl(g_tapFd, F_SETFL, fl);
}

// second segment of a fragmented delivery: sent 15 ms after the server started reading, then the write side is shut down
struct LateWriter
{
	int fd; std::string rest; pthread_t th;
	static void* run(void* a)
	{
		LateWriter* w = (LateWriter*)a;
		usleep(15000);
		size_t off = 0;
		while (off < w->rest.size())
		{
			ssize_t n = ::send(w->fd, w->rest.data() + off, w->rest.size() - off, MSG_NOSIGNAL);
			if (n <= 0) break;
			off += (size_t)n;
		}
		shutdown(w->fd, SHUT_WR);
		return 0;
	}
};

struct WsTap : public WebSocketServer
{
	bool served;
	WsTap() : served(false) {}
	void serve(WebSocket&) { served = true; tapNow(); }
};

static HttpServer* g_up = 0;
static WsTap* g_upWs = 0;

static void cleanup()
{
	if (g_tcp) { g_tcp->stopTcp(); if (!g_tcp->running()) { delete g_tcp; g_tcp = 0; } }
	removeFiles();
	delete g_files; g_files = 0;
	delete g_up; g_up = 0; delete g_upWs; g_upWs = 0;
	delete g_rec; g_rec = 0;
}

static std::string seenOf(int key)
{
	pthread_mutex_lock(&g_mx);
	std::vector<std::string> v = g_seen[key];
	g_seen.erase(key);
	pthread_mutex_unlock(&g_mx);
	std::string s = "n=" + str((long long)v.size());
	for (size_t i = 0; i < v.size(); i++) s += " [" + v[i] + "]";
	return s;
}

// ---------------------------------------------------------------- TCP client

struct TcpJob
{
	std::string stream, result;
	int port;
	pthread_t th;
	static void* run(void* p) { ((TcpJob*)p)->go(); return 0; }
	void go()
	{
		int fd = ::socket(AF_INET, SOCK_STREAM, 0);
		sockaddr_in a; memset(&a, 0, sizeof a);
		a.sin_family = AF_INET; a.sin_port = htons((unsigned short)port); a.sin_addr.s_addr = htonl(INADDR_LOOPBACK);
		if (::connect(fd, (sockaddr*)&a, sizeof a)) { result = "connect-failed"; ::close(fd); return; }
		sockaddr_in me; socklen_t ml = sizeof me;
		getsockname(fd, (sockaddr*)&me, &ml);
		int key = ntohs(me.sin_port);
		size_t off = 0;
		while (off < stream.size())
		{
			ssize_t n = ::send(fd, stream.data() + off, stream.size() - off, MSG_NOSIGNAL);
			if (n <= 0) break;
			off += (size_t)n;
		}
		shutdown(fd, SHUT_WR);
		std::string out;
		char buf[65536];
		bool timedOut = false;
		for (;;)
		{
			pollfd pf; pf.fd = fd; pf.events = POLLIN; pf.revents = 0;
			int pr = poll(&pf, 1, 11000);
			if (pr == 0) { timedOut = true; break; }
			ssize_t n = ::read(fd, buf, sizeof buf);
			if (n > 0) out.append(buf, (size_t)n);
			else if (n == 0 || errno != EINTR) break;
		}
		::close(fd);
		if (timedOut) { result = "TIMEOUT server kept the connection open for more than 11 s after the peer's close"; return; }
		this->key = key;
		this->out = out;
	}
	int key;
	std::string out;
};

// ---------------------------------------------------------------- ops

static std::string step(const Toks& t)
{
	const std::string& op = t[0];
	if (op == "req" && t.size() == 2)
	{
		Conn p(unhex(t[1]), false);
		if (!p.ok) return "stream-too-big";
		std::string r;
		{
			Socket c(new Socket_(p.srv));
			{
				HttpRequest q(c);
				r = showReq(q);
			}
			bool closed = c.handle() < 0;
			r += " | " + sockState(c, closed);
			long long rest = p.drain();
			c.close();
			std::string out = p.finish();
			r += " out=" + brep(out) + " rest=" + str(rest);
		}
		return r;
	}
	if (op == "tg" && t.size() == 2)
	{
		Conn p("GET " + unhex(t[1]) + " HTTP/1.1\r\n\r\n", false);
		if (!p.ok) return "stream-too-big";
		std::string r;
		{
			Socket c(new Socket_(p.srv));
			{
				HttpRequest q(c);
				r = "p=" + brep(q.path()) + " dd=" + (scanDD(q.path()) ? "1" : "0");
			}
			c.close();
			p.finish();
		}
		return r;
	}
	if (op == "srv" && t.size() == 2)
	{
		if (!g_rec) g_rec = new RecServer;
		Conn p(unhex(t[1]));
		if (!p.ok) return "stream-too-big";
		g_tcpMode = false;
		g_at.clear();
		std::string r;
		{
			Socket c(new Socket_(p.srv));
			((SocketServer*)g_rec)->serve(c);
			bool closed = c.handle() < 0;
			r = seenOf(-1) + " | " + sockState(c, closed);
			long long rest = p.drain();
			c.close();
			std::string out = p.finish();
			r += " out=" + brep(out) + " rest=" + str(rest) + " at=";
			if (g_at.empty()) r += "-";
			for (size_t i = 0; i < g_at.size(); i++) r += (i ? "," : "") + str(g_at[i]);
		}
		return r;
	}
	if (op == "tcp" && t.size() >= 2)
	{
		if (!g_tcp)
		{
			g_tcp = new RecServer;
			if (!g_tcp->startTcp()) return "cannot-bind";
		}
		g_tcpMode = true;
		std::vector<TcpJob*> jobs;
		for (size_t i = 1; i < t.size(); i++)
		{
			TcpJob* j = new TcpJob;
			j->stream = unhex(t[i]);
			j->port = g_tcp->tcpPort;
			jobs.push_back(j);
		}
		for (size_t i = 0; i < jobs.size(); i++) pthread_create(&jobs[i]->th, 0, TcpJob::run, jobs[i]);
		std::string r;
		for (size_t i = 0; i < jobs.size(); i++) pthread_join(jobs[i]->th, 0);
		// EOF can reach the client before the handler ran (readHeaders closes the socket on a line without ':'):
		// the records are complete once the server has finished every connection
		for (int i = 0; i < 1200 && g_tcp->clients() != 0; i++) usleep(10000);
		for (size_t i = 0; i < jobs.size(); i++)
		{
			if (jobs[i]->result.empty()) jobs[i]->result = seenOf(jobs[i]->key) + " | out=" + brep(jobs[i]->out);
			r += (i ? " || " : "") + jobs[i]->result;
			delete jobs[i];
		}
		return r;
	}
	if (op == "file" && t.size() == 2)
	{
		// safety oracle for the static file server: whatever the stream, no response carries bytes from
		// outside the root, and every status line is one the server can legitimately produce
		if (!g_files) setupFiles();
		Conn p(unhex(t[1]));
		if (!p.ok) return "stream-too-big";
		std::string out;
		{
			Socket c(new Socket_(p.srv));
			((SocketServer*)g_files)->serve(c);
			p.drain();
			c.close();
			out = p.finish();
		}
		if (out.find(g_secret) != std::string::npos) return "leak: response contains a file from outside the root";
		size_t pos = 0;
		while ((pos = out.find("HTTP/1.", pos)) != std::string::npos)
		{
			if (pos == 0 || out[pos - 1] == '\n')
			{
				int code = atoi(out.c_str() + pos + 9);
				if (!(code == 100 || code == 417 || code == 200 || code == 206 || code == 301 || code == 304 || code == 404 || code == 416 || code == 501 || code == 405))
					return "bad-status " + str(code);
			}
			pos += 7;
		}
		return "ok";
	}
	if (op == "fmap" && t.size() == 2)
	{
		// the static file mapping: one GET for the given target on the server rooted at <tmp>/root;
		// status and Content-Length of the answer (model: localRel + the fixture tree), plus the leak trap
		if (!g_files) setupFiles();
		Conn p("GET " + unhex(t[1]) + " HTTP/1.1\r\n\r\n");
		if (!p.ok) return "stream-too-big";
		std::string out;
		{
			Socket c(new Socket_(p.srv));
			((SocketServer*)g_files)->serve(c);
			p.drain();
			c.close();
			out = p.finish();
		}
		if (out.find(g_secret) != std::string::npos) return "leak: response contains a file from outside the root";
		if (out.compare(0, 7, "HTTP/1.") != 0) return "status=none";
		int code = atoi(out.c_str() + 9);
		long long len = -1;
		size_t he = out.find("\r\n\r\n");
		size_t cl = out.find("\r\nContent-Length: ");
		if (cl != std::string::npos && he != std::string::npos && cl < he) len = atoll(out.c_str() + cl + 18);
		return "status=" + str(code) + " len=" + str(len);
	}
	if (op == "rng" && t.size() == 3)
	{
		// Range parser: one GET for a file of the fixture with the given Range value; status, Content-Range, Content-Length
		if (!g_files) setupFiles();
		static const char* paths[] = { "/a.txt", "/e.bin", "/sub/b.txt" };
		Conn p(std::string("GET ") + paths[atoi(t[1].c_str()) % 3] + " HTTP/1.1\r\nRange: " + unhex(t[2]) + "\r\n\r\n");
		if (!p.ok) return "stream-too-big";
		std::string out;
		{
			Socket c(new Socket_(p.srv));
			((SocketServer*)g_files)->serve(c);
			p.drain();
			c.close();
			out = p.finish();
		}
		if (out.find(g_secret) != std::string::npos) return "leak: response contains a file from outside the root";
		if (out.compare(0, 7, "HTTP/1.") != 0) return "status=none";
		int code = atoi(out.c_str() + 9);
		long long len = -1;
		std::string cr = "-";
		size_t he = out.find("\r\n\r\n");
		size_t cl = out.find("\r\nContent-Length: ");
		if (cl != std::string::npos && he != std::string::npos && cl < he) len = atoll(out.c_str() + cl + 18);
		size_t cp = out.find("\r\nContent-Range: ");
		if (cp != std::string::npos && he != std::string::npos && cp < he)
		{
			size_t e = out.find("\r\n", cp + 2);
			cr = out.substr(cp + 17, e - cp - 17);
			for (size_t i = 0; i < cr.size(); i++) if (cr[i] == ' ') cr[i] = '_';
		}
		long long blen = he == std::string::npos ? -1 : (long long)(out.size() - he - 4);
		return "status=" + str(code) + " cr=" + cr + " len=" + str(len) + " body=" + str(blen);
	}
	if ((op == "upg" && t.size() == 3) || (op == "upgf" && t.size() == 4))
	{
		// Upgrade hand-off: request head and first frame bytes arrive together; what is still unread on the connection
		// when the WebSocket server takes over
		if (!g_up) { g_up = new HttpServer(-1); g_upWs = new WsTap; g_up->link(*g_upWs); }
		// upgf: the same stream in two segments, cut at k mod (length + 1); the second one arrives while the server reads
		std::string all = unhex(t[1]) + unhex(t[2]);
		bool frag = op == "upgf";
		size_t cut = frag ? (size_t)(atoll(t[3].c_str()) % (long long)(all.size() + 1)) : all.size();
		Conn p(all.substr(0, cut), true, !frag);
		if (!p.ok) return "stream-too-big";
		LateWriter lw;
		if (frag) { lw.fd = p.peer; lw.rest = all.substr(cut); pthread_create(&lw.th, 0, LateWriter::run, &lw); }
		g_tapBlock = frag;
		g_tapFd = p.dupfd; g_tapDone = false; g_tapRest.clear(); g_upWs->served = false;
		std::string out;
		{
			Socket c(new Socket_(p.srv));
			((SocketServer*)g_up)->serve(c);
			bool ws = g_upWs->served;
			// process() answering 400 (no `Connection: Upgrade`) returns at once: the connection is as it was handed over
			if (!ws) tapNow();
			c.close();
			if (frag) pthread_join(lw.th, 0);
			out = p.finish();
			g_tapFd = -1;
			if (ws || out.compare(0, 24, "HTTP/1.1 400 Bad request") == 0) return "ho=1 rest=" + brep(g_tapRest);
		}
		return "ho=0";
	}
	if (op == "url" && t.size() == 2)
	{
		Exact d(unhex(t[1]));
		Url u(String(d.p, (int)d.n));
		return "proto=" + brep(u.protocol) + " host=" + brep(u.host) + " port=" + str(u.port) + " path=" + brep(u.path);
	}
	if (op == "dec" && t.size() == 2)
	{
		Exact d(unhex(t[1]));
		return brep(Url::decode(String(d.p, (int)d.n)));
	}
	return "bad-op";
}

static std::string timedStep(const Toks& t)
{
	g_opLine = t[0] + (t.size() > 1 ? " " + t[1].substr(0, 160) : "");
	long long w0 = nowMs();
	double c0 = cpuS();
	g_opCpu0.store((long long)(c0 * 1000));
	g_opStart.store(w0 ? w0 : 1);
	std::string r = step(t);
	g_opStart.store(0);
	long long w = nowMs() - w0;
	double c = cpuS() - c0;
	if (w > 5000 || c > 1.5)
		r += " SLOW(wall_ms=" + str(w) + ",cpu_ms=" + str((long long)(c * 1000)) + ")";
	return r;
}

int main()
{
	pthread_t wd;
	pthread_create(&wd, 0, watchdog, 0);
	__sanitizer_set_death_callback(removeFiles); // a sanitizer abort must not leave the temporary web root behind
	int rc = run([]() {}, timedStep);
	cleanup();
	return rc;
}
