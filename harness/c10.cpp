// C10 correspondence harness: the real asl HTTP client (Http::request) and the real HttpServer over
// loopback TCP, plus raw POSIX-socket peers on either side, behind the line protocol.
// See lean/Driver/C10.lean for the op grammar.  Everything printed is a public-API observable
// (what the handler read from HttpRequest, what the client read from HttpResponse) or bytes captured
// on the wire by a raw peer.  The listening port is chosen by the kernel (bind to port 0) and is
// replaced by 0 in everything printed.
#include "common.h"
#include <asl/HttpServer.h>
#include <asl/Http.h>
#include <asl/File.h>
#include <asl/Directory.h>
#include <asl/JSON.h>
#include <asl/Thread.h>
#include <asl/Mutex.h>
#include <sys/types.h>
#include <sys/socket.h>
#include <sys/stat.h>
#include <netinet/in.h>
#include <netinet/tcp.h>
#include <arpa/inet.h>
#include <poll.h>
#include <unistd.h>
#include <errno.h>
#include <pthread.h>
#include <algorithm>
#include <map>
using namespace asl;
using namespace vh;

typedef unsigned long long U64;
typedef std::string Str;

// ------------------------------------------------------------------ small helpers

static String S(const Str& s) { return String(s.data(), (int)s.size()); }
static Str Z(const String& s) { return Str(*s, (size_t)s.length()); }
static ByteArray BA(const String& s) { return ByteArray((const byte*)*s, s.length()); }

static U64 fnv(const void* p, size_t n)
{
	const unsigned char* b = (const unsigned char*)p;
	U64 h = 14695981039346656037ULL;
	for (size_t i = 0; i < n; i++) { h ^= b[i]; h *= 1099511628211ULL; }
	return h;
}

static Str digest(const void* p, size_t n)
{
	char b[64];
	snprintf(b, sizeof b, "B%llu.%016llx", (U64)n, fnv(p, n));
	return b;
}
static Str digest(const Str& s) { return digest(s.data(), s.size()); }

// body spec: `-` | x<hex> | g<seed>.<len>.<mode>   (same generator in Driver/C10.lean and tools/props/c10.py)
static bool bodyOf(const Str& spec, Str& out)
{
	out.clear();
	if (spec == "-") return true;
	if (spec[0] == 'x') { out = unhex(spec.substr(1)); return true; }
	if (spec[0] != 'g') return false;
	unsigned long long seed = 0, len = 0; int mode = 0;
	if (sscanf(spec.c_str() + 1, "%llu.%llu.%d", &seed, &len, &mode) != 3) return false;
	out.resize((size_t)len);
	U64 x = seed % 2147483648ULL;
	for (size_t i = 0; i < len; i++) {
		x = (x * 1103515245ULL + 12345ULL) % 2147483648ULL;
		unsigned b = (unsigned)((x >> 16) & 255);
		unsigned char c;
		if (mode == 0) c = (unsigned char)b;
		else if (mode == 1) { unsigned k = b & 7; c = k == 0 ? 13 : k == 1 ? 10 : k == 2 ? 0 : k == 3 ? 48 : (unsigned char)b; }
		else c = (unsigned char)(32 + b % 95);
		out[i] = (char)c;
	}
	return true;
}

static std::vector<size_t> cutsOf(const Str& spec, size_t len)
{
	std::vector<size_t> c;
	if (spec == "-") return c;
	size_t i = 0;
	while (i < spec.size()) {
		size_t j = spec.find(',', i);
		if (j == Str::npos) j = spec.size();
		size_t v = (size_t)atoll(spec.substr(i, j - i).c_str());
		c.push_back(v % (len + 1));
		i = j + 1;
	}
	std::sort(c.begin(), c.end());
	return c;
}

// a list of sizes in the given order (used cyclically)
static std::vector<size_t> sizesOf(const Str& spec)
{
	std::vector<size_t> c;
	if (spec == "-") return c;
	size_t i = 0;
	while (i < spec.size()) {
		size_t j = spec.find(',', i);
		if (j == Str::npos) j = spec.size();
		c.push_back((size_t)atoll(spec.substr(i, j - i).c_str()) % 1073741825u);
		i = j + 1;
	}
	return c;
}

struct Hdrs { std::vector<std::pair<Str, Str> > v; };

// H<n> then 2n hex tokens
static bool hdrsOf(const Toks& t, size_t& i, Hdrs& h)
{
	if (i >= t.size() || t[i][0] != 'H') return false;
	int n = atoi(t[i].c_str() + 1);
	i++;
	for (int k = 0; k < n; k++) {
		if (i + 1 >= t.size()) return false;
		h.v.push_back(std::make_pair(unhex(t[i]), unhex(t[i + 1])));
		i += 2;
	}
	return true;
}

static Str fixHost(const Str& name, const Str& value, int port)
{
	if (name == "Location") {
		char b[48];
		snprintf(b, sizeof b, "127.0.0.1:%d", port);
		size_t k = value.find(b);
		if (k != Str::npos) return value.substr(0, k) + "127.0.0.1:0" + value.substr(k + strlen(b));
		return value;
	}
	if (name != "Host") return value;
	char b[32];
	snprintf(b, sizeof b, ":%d", port);
	size_t k = value.rfind(b);
	if (k != Str::npos && k + strlen(b) == value.size()) return value.substr(0, k) + ":0";
	return value;
}

typedef std::map<Str, Str> Over;

template<class D>
static Str dicStr(const char* tag, const D& d, int port, const Over* over = 0)
{
	std::vector<std::pair<Str, Str> > out;
	foreach2(String& k, const String& v, d) {
		Str val = fixHost(Z(k), Z(v), port);
		if (over && over->count(Z(k))) val = over->find(Z(k))->second;
		out.push_back(std::make_pair(hex(Z(k)), hex(val)));
	}
	std::sort(out.begin(), out.end());
	Str s = tag + str((long long)out.size());
	for (size_t i = 0; i < out.size(); i++) s += " " + out[i].first + " " + out[i].second;
	return s;
}

// ------------------------------------------------------------------ temp files

static Str tmpdir;
static int fileCounter = 0;

static Str makeFile(const Str& content, const Str& ext)
{
	if (tmpdir.empty()) {
		char b[64];
		snprintf(b, sizeof b, "/tmp/c10h.XXXXXX");
		if (!mkdtemp(b)) { snprintf(b, sizeof b, "/tmp/c10h.%d", (int)getpid()); mkdir(b, 0700); }
		tmpdir = b;
	}
	char nm[64];
	snprintf(nm, sizeof nm, "/f%d", fileCounter++);
	Str p = tmpdir + nm + (ext.empty() ? "" : "." + ext);
	FILE* f = fopen(p.c_str(), "wb");
	if (f) { if (!content.empty()) fwrite(content.data(), 1, content.size(), f); fclose(f); }
	return p;
}

static std::vector<Str> caseFiles;

// ------------------------------------------------------------------ response plan executed by the handler

struct Plan {
	int code;
	Hdrs headers;
	char kind;              // n b t j f s r
	Str loc;                // r, R: target that is not redirected
	Str rel;                // R: the Location text
	Str body;               // bytes / json text / file content
	Str ext;                // file extension
	std::vector<size_t> parts; // stream part sizes
	bool endChunks;
	Plan() : code(200), kind('n'), endChunks(true) {}
};

// P <code> H<n> .. <kind> [args]
static bool planOf(const Toks& t, size_t& i, Plan& p)
{
	if (i + 1 >= t.size() || t[i] != "P") return false;
	p.code = atoi(t[i + 1].c_str());
	i += 2;
	if (!hdrsOf(t, i, p.headers)) return false;
	if (i >= t.size()) return false;
	Str k = t[i++];
	p.kind = k[0];
	if (k == "n") return true;
	if (k == "b" || k == "t" || k == "j") { if (i >= t.size()) return false; return bodyOf(t[i++], p.body); }
	if (k == "f") {
		if (i + 1 >= t.size()) return false;
		if (!bodyOf(t[i++], p.body)) return false;
		p.ext = unhex(t[i++]);
		return true;
	}
	if (k == "r") {
		if (i + 1 >= t.size()) return false;
		p.loc = unhex(t[i++]);
		return bodyOf(t[i++], p.body);
	}
	if (k == "R") { // R <target that answers 200> <Location text sent verbatim, '-' = none, '@' = this server's authority> <body>
		if (i + 2 >= t.size()) return false;
		p.loc = unhex(t[i++]);
		p.rel = t[i] == "-" ? Str() : unhex(t[i]);
		i++;
		return bodyOf(t[i++], p.body);
	}
	if (k == "s" || k == "S" || k == "w") { // streamed parts: sizes a,b,c (cyclic until the body is used up); S = no final chunk; w = no framing header
		if (i + 1 >= t.size()) return false;
		if (!bodyOf(t[i++], p.body)) return false;
		p.parts = sizesOf(t[i++]);
		p.endChunks = k == "s";
		p.kind = k == "w" ? 'w' : 's';
		return true;
	}
	if (k == "W" || k == "B") { if (i >= t.size()) return false; return bodyOf(t[i++], p.body); }
	if (k == "F") { // F <pieces written first, '-' = sendHeaders() alone> <file content>: then put(File)
		if (i + 1 >= t.size()) return false;
		if (!bodyOf(t[i++], p.rel)) return false;
		return bodyOf(t[i++], p.body);
	}
	if (k == "m") return true;
	return false;
}

struct Seen {
	bool called;
	Str line;
	Seen() : called(false) {}
};

// ------------------------------------------------------------------ the real server

struct Slot { Plan plan; Seen seen; Var json; bool wantJson; bool upload; Str upContent, upName; int busy; Slot() : wantJson(false), upload(false), busy(0) {} };

static Mutex gmx;
static std::map<Str, Slot*> slots;   // by X-Plan token ("" = the current single-op slot)
static Slot* current = 0;
static std::vector<Slot*> slotQueue;   // pipelined requests of one connection take their slots in order
static size_t slotPos = 0;
static bool optionsToHandler = false;
static std::map<Str, Str> dlFiles;     // request path -> file (op dl)

// A slot is owned by the op that made it, but a handler thread may still be inside it when the client side of the op
// has already returned (e.g. a client that gives up early): handlers mark the slot busy, ops wait for idle before freeing.
struct SlotUse {
	Slot* s;
	SlotUse(Slot* s_) : s(s_) {}
	~SlotUse();
};
static void retireSlot(Slot* sl);

static Slot* nextQueued()
{
	if (slotPos < slotQueue.size()) return slotQueue[slotPos++];
	return 0;
}

class Srv : public HttpServer
{
public:
	int port() { return _sockets[0].localAddress().port(); }
	int thePort;
	bool handleOptions(HttpRequest& q, HttpResponse& r)
	{
		if (optionsToHandler) return false;
		if (q.method() == "OPTIONS") { Lock l(gmx); nextQueued(); } // answered by the library: its slot stays unused
		return HttpServer::handleOptions(q, r);
	}
	void serve(HttpRequest& q, HttpResponse& r)
	{
		if (q.path().startsWith("/dl/")) { // concurrent downloads (op dl): the file named by the path
			Str p;
			{
				Lock l(gmx);
				std::map<Str, Str>::iterator it = dlFiles.find(Z(q.path()));
				if (it != dlFiles.end()) p = it->second;
			}
			if (p.empty()) { r.setCode(404); return; }
			r.put(File(S(p)));
			return;
		}
		Slot* sl = 0;
		{
			Lock l(gmx);
			if (q.hasHeader("X-Plan")) {
				std::map<Str, Slot*>::iterator it = slots.find(Z(q.header("X-Plan")));
				if (it != slots.end()) sl = it->second;
			}
			if (!sl) sl = nextQueued();
			if (!sl) sl = current;
			if (sl) sl->busy++;
		}
		if (!sl) { r.setCode(500); return; }
		SlotUse inUse(sl);
		// what the handler observes
		Over over;
		Str mark;
		if (sl->wantJson && q.header("Content-Type") == "application/x-www-form-urlencoded") {
			// put(Var) on a request that announces form encoding: key=value pairs, percent-encoded
			Dic<> d;
			foreach2(String& k, Var& v, sl->json)
				d[Url::encode(k, true)] = Url::encode(v.toString(), true);
			bool same = q.body() == BA(d.join('&', '='));
			over["Content-Length"] = "*";
			mark = same ? "F1" : "F0";
		}
		else if (sl->wantJson) {
			bool same = q.json() == sl->json && q.body() == BA(Json::encode(sl->json));
			over["Content-Length"] = "*";
			mark = same ? "J1" : "J0";
		}
		else if (sl->upload) {
			// multipart/form-data envelope with a random boundary: judged here
			Str ct = Z(q.header("Content-Type")), pre = "multipart/form-data; boundary=";
			bool ok = ct.compare(0, pre.size(), pre) == 0;
			Str b = ok ? ct.substr(pre.size()) : "";
			Str want = "--" + b + "\r\nContent-Disposition: form-data; name=\"files\"; filename=\"" + sl->upName + "\"\r\n" +
				"Content-Type: application/octet-stream\r\n\r\n" + sl->upContent + "\r\n--" + b + "--\r\n";
			Str got((const char*)q.body().data(), (size_t)q.body().length());
			// framed by its length, or (Transfer-Encoding ending in chunked) by chunks alone
			Str te = Z(q.header("Transfer-Encoding").toLowerCase());
			size_t comma = te.rfind(',');
			Str lastCoding = comma == Str::npos ? te : te.substr(comma + 1);
			while (!lastCoding.empty() && (lastCoding[0] == ' ' || lastCoding[0] == '\t')) lastCoding.erase(0, 1);
			while (!lastCoding.empty() && (lastCoding[lastCoding.size() - 1] == ' ' || lastCoding[lastCoding.size() - 1] == '\t')) lastCoding.erase(lastCoding.size() - 1);
			bool framed = lastCoding == "chunked" ? !q.hasHeader("Content-Length") : Z(q.header("Content-Length")) == str((long long)want.size());
			ok = ok && got == want && framed;
			over["Content-Length"] = "*";
			over["Content-Type"] = "multipart/form-data; boundary=*";
			mark = ok ? "U1" : "U0";
		}
		Str o = "H " + hex(Z(q.method())) + " " + hex(Z(q.path())) + " " + hex(Z(q.querystring())) + " ";
		o += dicStr("Q", q.query(), thePort) + " " + dicStr("N", q.headers(), thePort, &over) + " ";
		o += mark.empty() ? digest(q.body().data(), (size_t)q.body().length()) : mark;
		sl->seen.called = true;
		sl->seen.line = o;
		// what the handler produces
		const Plan& p = sl->plan;
		if (p.code != 200) r.setCode(p.code);
		for (size_t i = 0; i < p.headers.v.size(); i++) r.setHeader(S(p.headers.v[i].first), S(p.headers.v[i].second));
		switch (p.kind) {
		case 'n': break;
		case 'b': r.put(ByteArray((const byte*)p.body.data(), (int)p.body.size())); break;
		case 't': r.put(S(p.body)); break;
		case 'j': r.put(Json::decode(S(p.body))); break;
		case 'f': { Str path = makeFileLocked(p.body, p.ext); r.put(File(S(path))); break; }
		case 'r':
			if (Z(q.resource()) == p.loc) { r.setCode(200); r.put(ByteArray((const byte*)p.body.data(), (int)p.body.size())); }
			else r.setHeader("Location", String::f("http://127.0.0.1:%d", thePort) + S(p.loc));
			break;
		case 'R':
			if (Z(q.resource()) == p.loc) { r.setCode(200); r.put(ByteArray((const byte*)p.body.data(), (int)p.body.size())); }
			else {
				if (!p.rel.empty()) {
					Str l;
					char au[32];
					snprintf(au, sizeof au, "127.0.0.1:%d", thePort);
					for (size_t c = 0; c < p.rel.size(); c++) { if (p.rel[c] == '@') l += au; else l += p.rel[c]; }
					r.setHeader("Location", S(l));
				}
				r.put(String("moved"));
			}
			break;
		case 'm': // a file that does not exist
			r.put(File(String::f("/tmp/c10h.%d.none/missing.bin", (int)getpid())));
			break;
		case 'B': // the handler calls write() itself after put(): the serve loop must not write the body again
			r.put(ByteArray((const byte*)p.body.data(), (int)p.body.size()));
			r.write();
			break;
		case 'F': { // headers (and a first piece) out before a file body is put: the library's own chunks end behind the file
			Str path = makeFileLocked(p.body, "bin");
			if (p.rel.empty()) r.sendHeaders();
			else r.write(p.rel.data(), (int)p.rel.size());
			r.put(File(S(path)));
			break;
		}
		case 'W': { // the handler writes a file itself, no framing header set
			Str path = makeFileLocked(p.body, "bin");
			r.writeFile(S(path));
			break;
		}
		case 'w':
		case 's': {
			if (p.kind == 's') r.setHeader("Transfer-Encoding", "chunked"); // 'w': no framing header, the library announces and ends the chunks
			size_t pos = 0, k = 0;
			while (pos < p.body.size()) {
				size_t n = p.parts.empty() ? p.body.size() : p.parts[k % p.parts.size()];
				if (n == 0) n = 1;
				if (n > p.body.size() - pos) n = p.body.size() - pos;
				r.write(p.body.data() + pos, (int)n);
				pos += n; k++;
			}
			// nothing to write: 'w' sends the headers alone; 's' leaves everything to the server's closing put("") + write(),
			// which writes the whole (empty, chunked) message and ends it
			if (p.body.empty() && p.kind == 'w') r.sendHeaders();
			if (p.kind == 's' && p.endChunks && !p.body.empty()) r.socket() << "0\r\n\r\n";
			break;
		}
		}
	}
	Str makeFileLocked(const Str& c, const Str& e)
	{
		Lock l(gmx);
		Str p = makeFile(c, e);
		caseFiles.push_back(p);
		return p;
	}
};

static Srv* srv = 0;

SlotUse::~SlotUse() { Lock l(gmx); s->busy--; }

static void retireSlot(Slot* sl)
{
	for (int k = 0; k < 3000; k++) {
		{
			Lock l(gmx);
			if (current == sl) current = 0;
			if (sl->busy == 0) { delete sl; return; }
		}
		usleep(1000);
	}
	// still in use after 3 s: leave it alone (leaked on purpose)
}

static bool ensureServer()
{
	if (srv) return true;
	srv = new Srv;
	if (!srv->bind("127.0.0.1", 0)) { delete srv; srv = 0; return false; }
	srv->thePort = srv->port();
	srv->start(true);
	return true;
}

// ------------------------------------------------------------------ raw sockets

static int rawConnect(int port)
{
	int fd = socket(AF_INET, SOCK_STREAM, 0);
	if (fd < 0) return -1;
	sockaddr_in a;
	memset(&a, 0, sizeof a);
	a.sin_family = AF_INET;
	a.sin_port = htons((unsigned short)port);
	a.sin_addr.s_addr = htonl(INADDR_LOOPBACK);
	if (connect(fd, (sockaddr*)&a, sizeof a) != 0) { close(fd); return -1; }
	int one = 1;
	setsockopt(fd, IPPROTO_TCP, TCP_NODELAY, &one, sizeof one);
	setsockopt(fd, IPPROTO_TCP, TCP_QUICKACK, &one, sizeof one);
	return fd;
}

static bool sendAll(int fd, const char* p, size_t n)
{
	while (n > 0) {
		ssize_t k = send(fd, p, n, MSG_NOSIGNAL);
		if (k <= 0) { if (errno == EINTR) continue; return false; }
		p += k; n -= (size_t)k;
	}
	return true;
}

// send `data` in the pieces delimited by `cuts`, giving the peer time to consume each piece
static bool sendPieces(int fd, const Str& data, const std::vector<size_t>& cuts)
{
	size_t pos = 0;
	for (size_t i = 0; i <= cuts.size(); i++) {
		size_t e = i < cuts.size() ? cuts[i] : data.size();
		if (e > data.size()) e = data.size();
		if (e > pos) {
			if (!sendAll(fd, data.data() + pos, e - pos)) return false;
			pos = e;
			if (i < cuts.size()) usleep(cuts.size() > 64 ? 40 : cuts.size() > 8 ? 100 : 250);
		}
	}
	return true;
}

// read with a deadline; returns bytes read (0 = EOF, -1 = timeout/error)
static int recvSome(int fd, char* buf, int n, int ms)
{
	pollfd p; p.fd = fd; p.events = POLLIN; p.revents = 0;
	int r = poll(&p, 1, ms);
	if (r <= 0) return -1;
	int k = (int)recv(fd, buf, (size_t)n, 0);
	int one = 1;
	setsockopt(fd, IPPROTO_TCP, TCP_QUICKACK, &one, sizeof one); // no delayed ACK: the peer's next small write is not held back
	return k < 0 ? -1 : k;
}

static Str lower(Str s) { for (size_t i = 0; i < s.size(); i++) s[i] = (char)tolower((unsigned char)s[i]); return s; }

// The raw peers' own minimal reader of ONE http message (independent of asl): header block up to CRLFCRLF,
// then Content-Length bytes or chunks.  `pending` holds bytes received beyond the message.
static bool rawReadMessage(int fd, Str& pending, Str& msg, int ms)
{
	msg.clear();
	char buf[65536];
	size_t he;
	while ((he = pending.find("\r\n\r\n")) == Str::npos) {
		int k = recvSome(fd, buf, sizeof buf, ms);
		if (k <= 0) { msg = pending; pending.clear(); return false; }
		pending.append(buf, (size_t)k);
	}
	he += 4;
	Str head = lower(pending.substr(0, he));
	long long cl = -1;
	bool chunked = false;
	size_t p = head.find("\r\ncontent-length:");
	if (p != Str::npos) cl = atoll(head.c_str() + p + 17);
	p = head.find("\r\ntransfer-encoding:");
	if (p != Str::npos) { // chunked when the last coding is "chunked"
		size_t e = head.find("\r\n", p + 2);
		Str v = head.substr(p + 20, e - (p + 20));
		while (!v.empty() && (v[v.size() - 1] == ' ' || v[v.size() - 1] == '\t')) v.erase(v.size() - 1);
		if (v.size() >= 7 && v.compare(v.size() - 7, 7, "chunked") == 0) chunked = true;
	}
	size_t need = he;
	if (cl < 0 && !chunked && head.find("\r\nconnection: close\r\n") != Str::npos) {
		// neither a length nor chunks, and the sender says it closes: the end of the connection ends the message
		for (;;) {
			int k = recvSome(fd, buf, sizeof buf, ms);
			if (k <= 0) break;
			pending.append(buf, (size_t)k);
		}
		msg = pending;
		pending.clear();
		return true;
	}
	if (cl >= 0) need = he + (size_t)cl;
	else if (chunked) {
		size_t q = he;
		for (;;) {
			size_t le;
			while ((le = pending.find("\r\n", q)) == Str::npos) {
				int k = recvSome(fd, buf, sizeof buf, ms);
				if (k <= 0) { msg = pending; pending.clear(); return false; }
				pending.append(buf, (size_t)k);
			}
			unsigned long sz = strtoul(pending.c_str() + q, NULL, 16);
			q = le + 2 + sz + 2;
			if (sz == 0) break;
			while (pending.size() < q) {
				int k = recvSome(fd, buf, sizeof buf, ms);
				if (k <= 0) { msg = pending; pending.clear(); return false; }
				pending.append(buf, (size_t)k);
			}
		}
		need = q;
	}
	while (pending.size() < need) {
		int k = recvSome(fd, buf, sizeof buf, ms);
		if (k <= 0) { msg = pending; pending.clear(); return false; }
		pending.append(buf, (size_t)k);
	}
	msg = pending.substr(0, need);
	pending.erase(0, need);
	return true;
}

// one response as the raw client sees it: an interim "100 Continue" (answer to Expect) is followed by the final message
static bool rawReadResponse(int fd, Str& pending, Str& msg, int ms)
{
	bool got = rawReadMessage(fd, pending, msg, ms);
	if (got && (msg.compare(0, 13, "HTTP/1.1 100 ") == 0)) {
		Str more;
		got = rawReadMessage(fd, pending, more, ms);
		msg += more;
	}
	return got;
}

static Str readToEof(int fd, int ms)
{
	Str out;
	char buf[65536];
	for (;;) {
		int k = recvSome(fd, buf, sizeof buf, ms);
		if (k <= 0) break;
		out.append(buf, (size_t)k);
	}
	return out;
}

// replace the value of a Date header in the header block (current time) and the port in Host
static Str canonWire(const Str& w, int port)
{
	if (w.compare(0, 13, "HTTP/1.1 100 ") == 0) { // interim response first: the final message follows
		size_t e = w.find("\r\n\r\n");
		if (e != Str::npos && e + 4 < w.size()) return w.substr(0, e + 4) + canonWire(w.substr(e + 4), port);
	}
	Str s = w;
	size_t he = s.find("\r\n\r\n");
	if (he == Str::npos) he = s.size();
	size_t p = s.find("\r\nDate: ");
	if (p != Str::npos && p < he) {
		size_t e = s.find("\r\n", p + 2);
		if (e >= p + 12 && s.compare(e - 4, 4, " GMT") == 0) { // the server's clock; a handler's own value stays
			s = s.substr(0, p + 8) + "D" + s.substr(e);
			he = s.find("\r\n\r\n");
		}
	}
	char b[32];
	snprintf(b, sizeof b, ":%d\r\n", port);
	p = s.find("\r\nHost: ");
	if (p != Str::npos && p < he) {
		size_t e = s.find("\r\n", p + 2);
		size_t k = s.find(b, p);
		if (k != Str::npos && k + strlen(b) == e + 2) s = s.substr(0, k) + ":0" + s.substr(e);
	}
	return s;
}

static size_t wireHexLimit = 160;   // op `wirelimit <n>`: print captured bytes in full up to n bytes (debugging replays)

static Str wireStr(const Str& w)
{
	char b[64];
	snprintf(b, sizeof b, "W%llu.%016llx", (U64)w.size(), fnv(w.data(), w.size()));
	Str s = b;
	if (w.size() <= wireHexLimit) s += " " + hex(w);
	return s;
}

// framing of a generated stream: head ++ body (cl) or head ++ chunk-encoded body (ch<sizes>[u][x])
static Str frameStream(const Str& head, const Str& body, const Str& fr)
{
	if (fr == "cl") return head + body;
	if (fr.compare(0, 2, "ch") != 0) return head + body;
	Str spec = fr.substr(2);
	bool upper = false, ext = false, noend = false;
	int pad = 0; // p: sizes zero-padded to 8 digits (accepted), q: to 9 digits (refused by the reader)
	while (!spec.empty() && strchr("uxzpq", spec[spec.size() - 1])) {
		if (spec[spec.size() - 1] == 'p') pad = 8;
		if (spec[spec.size() - 1] == 'q') pad = 9;
		if (spec[spec.size() - 1] == 'u') upper = true;
		if (spec[spec.size() - 1] == 'x') ext = true;
		if (spec[spec.size() - 1] == 'z') noend = true;
		spec.erase(spec.size() - 1);
	}
	std::vector<size_t> sz;
	{
		size_t i = 0;
		while (i < spec.size()) {
			size_t j = spec.find(',', i);
			if (j == Str::npos) j = spec.size();
			sz.push_back((size_t)atoll(spec.substr(i, j - i).c_str()));
			i = j + 1;
		}
	}
	Str out = head;
	size_t pos = 0, k = 0;
	while (pos < body.size()) {
		size_t n = sz.empty() ? body.size() : sz[k % sz.size()];
		if (n == 0) n = 1;
		if (n > body.size() - pos) n = body.size() - pos;
		char b[32];
		snprintf(b, sizeof b, upper ? "%zX" : "%zx", n);
		for (int z = (int)strlen(b); z < pad; z++) out += '0';
		out += b;
		if (ext) out += ";a=b";
		out += "\r\n";
		out.append(body, pos, n);
		out += "\r\n";
		pos += n; k++;
	}
	if (!noend) out += "0\r\n\r\n";
	return out;
}

// ------------------------------------------------------------------ real client

struct Req {
	Str method, target;
	Hdrs headers;
	bool viaDic;          // headers passed as a Dic to the constructor (not capitalized by the sender)
	bool follow;
	bool caller;          // flag C: the 4-argument constructor HttpRequest(method, url, body, headers) on a Dic the caller keeps
	int times;            // how often the same HttpRequest object is passed to Http::request (flag digit, default 1)
	char kind;            // n b t j f u
	Str body;
	Req() : viaDic(false), follow(true), caller(false), times(1), kind('n') {}
};

// <method-hex> <target-hex> <D|S><F|N> H<n> .. <kind> [bodyspec]
static bool reqOf(const Toks& t, size_t& i, Req& r)
{
	if (i + 2 >= t.size()) return false;
	r.method = unhex(t[i]);
	r.target = unhex(t[i + 1]);
	r.viaDic = t[i + 2][0] == 'D' || t[i + 2][0] == 'C';
	r.caller = t[i + 2][0] == 'C';
	r.follow = t[i + 2].size() > 1 && t[i + 2][1] == 'F';
	r.times = t[i + 2].size() > 2 && t[i + 2][2] >= '1' && t[i + 2][2] <= '9' ? t[i + 2][2] - '0' : 1;
	i += 3;
	if (!hdrsOf(t, i, r.headers)) return false;
	if (i >= t.size()) return false;
	r.kind = t[i++][0];
	if (r.kind == 'n') return true;
	if (i >= t.size()) return false;
	return bodyOf(t[i++], r.body);
}

static Str clientObs(HttpResponse& res, int port, const Var* wantJson)
{
	Over over;
	if (wantJson) over["Content-Length"] = "*";
	Str o = "C " + str(res.code()) + " " + hex(Z(res.proto())) + " " + dicStr("N", res.headers(), port, &over) + " ";
	// Date carries the current time
	size_t dp = o.find(" 44617465 ");
	if (dp != Str::npos) {
		size_t e = o.find(' ', dp + 10);
		Str v = o.substr(dp + 10, e == Str::npos ? Str::npos : e - dp - 10);
		if (v.size() >= 8 && v.compare(v.size() - 8, 8, "20474d54") == 0) // ends in " GMT": the server's clock; a handler's own value stays
			o = o.substr(0, dp + 10) + "44" + (e == Str::npos ? "" : o.substr(e));
	}
	if (wantJson) o += (res.json() == *wantJson && res.body() == BA(Json::encode(*wantJson))) ? "J1" : "J0";
	else o += digest(res.body().data(), (size_t)res.body().length());
	o += " E" + hex(Z(res.socketError()));
	return o;
}

static HttpRequest* buildRequest(const Req& r, int port, Slot* sl, Dic<>* callerDic = 0)
{
	String url = String::f("http://127.0.0.1:%d", port) + S(r.target);
	HttpRequest* q;
	if (callerDic) {
		// as Http::post(url, body, headers) does: body and the caller's Dic go to the constructor together
		Dic<>& h = *callerDic;
		HttpRequest* c = 0;
		switch (r.kind) {
		case 'b': c = new HttpRequest(S(r.method), url, ByteArray((const byte*)r.body.data(), (int)r.body.size()), h); break;
		case 't': c = new HttpRequest(S(r.method), url, S(r.body), h); break;
		case 'j': c = new HttpRequest(S(r.method), url, Json::decode(S(r.body)), h); break;
		case 'f': { Str p = makeFile(r.body, "bin"); caseFiles.push_back(p); c = new HttpRequest(S(r.method), url, File(S(p)), h); break; }
		default: c = new HttpRequest(S(r.method), url, h); break;
		}
		c->setFollowRedirects(r.follow);
		return c;
	}
	if (r.viaDic) {
		Dic<> d;
		for (size_t i = 0; i < r.headers.v.size(); i++) d[S(r.headers.v[i].first)] = S(r.headers.v[i].second);
		q = new HttpRequest(S(r.method), url, d);
	}
	else {
		q = new HttpRequest(S(r.method), url);
		for (size_t i = 0; i < r.headers.v.size(); i++) q->setHeader(S(r.headers.v[i].first), S(r.headers.v[i].second));
	}
	q->setFollowRedirects(r.follow);
	switch (r.kind) {
	case 'b': q->put(ByteArray((const byte*)r.body.data(), (int)r.body.size())); break;
	case 't': q->put(S(r.body)); break;
	case 'j': { Var v = Json::decode(S(r.body)); q->put(v); break; }
	case 'f': { Str p = makeFile(r.body, "bin"); caseFiles.push_back(p); q->put(File(S(p))); break; }
	case 'u': {
		Str p = makeFile(r.body, "bin"); caseFiles.push_back(p);
		if (sl) { sl->upload = true; sl->upContent = r.body; sl->upName = p.substr(p.rfind('/') + 1); }
		q->put(File(S(p)));
		if (!q->hasHeader("Content-Type")) q->setHeader("Content-Type", "multipart/form-data");
		break;
	}
	default: break;
	}
	return q;
}

static HttpResponse doRequest(const Req& r, int port, Slot* sl)
{
	HttpRequest* q = buildRequest(r, port, sl);
	HttpResponse res = Http::request(*q);
	delete q;
	return res;
}

// ------------------------------------------------------------------ raw capture server (for the real client)

struct RawServer {
	int lfd, port;
	Str respStream;
	std::vector<size_t> cuts;
	bool closeAfter;
	Str captured;      // request bytes as received
	bool complete;
	pthread_t th;
	RawServer() : lfd(-1), port(0), closeAfter(true), complete(false) {}
	bool open()
	{
		lfd = socket(AF_INET, SOCK_STREAM, 0);
		sockaddr_in a;
		memset(&a, 0, sizeof a);
		a.sin_family = AF_INET;
		a.sin_port = 0;
		a.sin_addr.s_addr = htonl(INADDR_LOOPBACK);
		if (bind(lfd, (sockaddr*)&a, sizeof a) != 0) return false;
		socklen_t n = sizeof a;
		getsockname(lfd, (sockaddr*)&a, &n);
		port = ntohs(a.sin_port);
		listen(lfd, 4);
		return true;
	}
	static void* run(void* self) { ((RawServer*)self)->serve(); return 0; }
	void serve()
	{
		pollfd p; p.fd = lfd; p.events = POLLIN; p.revents = 0;
		if (poll(&p, 1, 5000) <= 0) return;
		int fd = accept(lfd, 0, 0);
		if (fd < 0) return;
		int one = 1;
		setsockopt(fd, IPPROTO_TCP, TCP_NODELAY, &one, sizeof one);
		Str pending;
		complete = rawReadMessage(fd, pending, captured, 3000);
		captured += pending;
		sendPieces(fd, respStream, cuts);
		if (closeAfter) { shutdown(fd, SHUT_WR); readToEof(fd, 3000); }
		else readToEof(fd, 12000); // the client closes when it has what it wants
		close(fd);
	}
	void start() { pthread_create(&th, 0, run, this); }
	void join() { pthread_join(th, 0); if (lfd >= 0) close(lfd); lfd = -1; }
};

// ------------------------------------------------------------------ ops

static void reset()
{
	for (size_t i = 0; i < caseFiles.size(); i++) unlink(caseFiles[i].c_str());
	caseFiles.clear();
	optionsToHandler = false;
	wireHexLimit = 160;
}

static Str obsOrDash(Slot& sl) { return sl.seen.called ? sl.seen.line : Str("H-"); }

// xchg <req> P <plan>            real client <-> real server
static Str opXchg(const Toks& t)
{
	size_t i = 1;
	Req r;
	Slot* slp = new Slot;
	Slot& sl = *slp;
	if (!reqOf(t, i, r) || !planOf(t, i, sl.plan)) { delete slp; return "bad-op"; }
	if (!ensureServer()) { delete slp; return "err bind"; }
	if (r.kind == 'j') { sl.wantJson = true; sl.json = Json::decode(S(r.body)); }
	{ Lock l(gmx); current = slp; }
	Var want;
	if (sl.plan.kind == 'j') want = Json::decode(S(sl.plan.body));
	// the same HttpRequest object is used `times` times (a client that repeats a request)
	Dic<> callerDic;
	if (r.caller)
		for (size_t k = 0; k < r.headers.v.size(); k++) callerDic[S(r.headers.v[k].first)] = S(r.headers.v[k].second);
	HttpRequest* q = buildRequest(r, srv->thePort, slp, r.caller ? &callerDic : 0);
	Str out;
	for (int k = 0; k < r.times; k++) {
		{ Lock l(gmx); sl.seen = Seen(); }
		HttpResponse res = Http::request(*q);
		Str c = clientObs(res, srv->thePort, sl.plan.kind == 'j' ? &want : 0);
		Str h;
		{ Lock l(gmx); h = obsOrDash(sl); }
		out += (k ? " || " : "") + h + " | " + c;
	}
	delete q;
	if (r.caller) {
		// the caller's Dic after the request made from it, and a plain GET made from the same Dic
		out += " ## " + dicStr("D", callerDic, srv->thePort);
		{ Lock l(gmx); sl.seen = Seen(); sl.wantJson = false; }
		HttpRequest q2("GET", String::f("http://127.0.0.1:%d", srv->thePort) + S(r.target), callerDic);
		q2.setFollowRedirects(r.follow);
		HttpResponse res = Http::request(q2);
		Str c = clientObs(res, srv->thePort, sl.plan.kind == 'j' ? &want : 0);
		Str h;
		{ Lock l(gmx); h = obsOrDash(sl); }
		out += " ## " + h + " | " + c;
	}
	{ Lock l(gmx); current = 0; }
	retireSlot(slp);
	return out;
}

// reuse <target-hex> <D|S> H<n> .. <k> { <method-hex> <L|C> <=|b|t|f> [bodyspec] P <plan> }*k
// ONE client HttpRequest object sent k times to the real server; before each send the caller changes the method, the framing
// (L: setHeader("Transfer-Encoding", "") = a length, C: "chunked") and possibly the body (= keeps what the object has).
// Every send is an exchange of its own: what the handler saw and what the client got back, per send.
static Str opReuse(const Toks& t)
{
	size_t i = 1;
	if (t.size() < 4) return "bad-op";
	Str target = unhex(t[i]);
	bool viaDic = t[i + 1][0] == 'D';
	i += 2;
	Hdrs hs;
	if (!hdrsOf(t, i, hs) || i >= t.size()) return "bad-op";
	int k = atoi(t[i++].c_str());
	if (k < 1 || k > 9) return "bad-op";
	struct Send { Str method; bool chunked; char put; Str body; Slot* sl; };
	std::vector<Send> sends;
	bool bad = false;
	for (int j = 0; j < k && !bad; j++) {
		Send s; s.sl = new Slot;
		sends.push_back(s);
		Send& c = sends.back();
		if (i + 2 >= t.size()) { bad = true; break; }
		c.method = unhex(t[i]);
		c.chunked = t[i + 1] == "C";
		c.put = t[i + 2][0];
		i += 3;
		if (c.put != '=') {
			if ((c.put != 'b' && c.put != 't' && c.put != 'f') || i >= t.size() || !bodyOf(t[i++], c.body)) { bad = true; break; }
		}
		if (!planOf(t, i, c.sl->plan)) bad = true;
	}
	if (bad || i != t.size() || !ensureServer()) {
		for (size_t j = 0; j < sends.size(); j++) delete sends[j].sl;
		return bad || i != t.size() ? "bad-op" : "err bind";
	}
	String url = String::f("http://127.0.0.1:%d", srv->thePort) + S(target);
	HttpRequest* q;
	if (viaDic) {
		Dic<> d;
		for (size_t j = 0; j < hs.v.size(); j++) d[S(hs.v[j].first)] = S(hs.v[j].second);
		q = new HttpRequest("GET", url, d);
	}
	else {
		q = new HttpRequest("GET", url);
		for (size_t j = 0; j < hs.v.size(); j++) q->setHeader(S(hs.v[j].first), S(hs.v[j].second));
	}
	Str out;
	for (size_t j = 0; j < sends.size(); j++) {
		Send& c = sends[j];
		q->setMethod(S(c.method));
		q->setHeader("Transfer-Encoding", c.chunked ? "chunked" : "");
		switch (c.put) {
		case 'b': q->put(ByteArray((const byte*)c.body.data(), (int)c.body.size())); break;
		case 't': q->put(S(c.body)); break;
		case 'f': { Str p = makeFile(c.body, "bin"); caseFiles.push_back(p); q->put(File(S(p))); break; }
		default: break;
		}
		Var want;
		if (c.sl->plan.kind == 'j') want = Json::decode(S(c.sl->plan.body));
		{ Lock l(gmx); current = c.sl; }
		HttpResponse res = Http::request(*q);
		Str co = clientObs(res, srv->thePort, c.sl->plan.kind == 'j' ? &want : 0);
		Str h;
		{ Lock l(gmx); h = obsOrDash(*c.sl); current = 0; }
		out += (j ? " || " : "") + h + " | " + co;
		retireSlot(c.sl);
	}
	delete q;
	return out;
}

// cwire <req>          real client -> raw server: the request bytes on the wire
static Str opCwire(const Toks& t)
{
	size_t i = 1;
	Req r;
	if (!reqOf(t, i, r)) return "bad-op";
	RawServer rs;
	if (!rs.open()) return "err bind";
	rs.respStream = "HTTP/1.1 200 OK\r\nContent-Length: 0\r\n\r\n";
	rs.start();
	HttpResponse res = doRequest(r, rs.port, 0);
	rs.join();
	Str w = canonWire(rs.captured, rs.port);
	return wireStr(w) + (rs.complete ? "" : " incomplete") + " C" + str(res.code());
}

// cread <head-hex> <bodyspec> <framing> <cuts> <c|k>     raw server -> real client
static Str opCread(const Toks& t)
{
	if (t.size() != 6) return "bad-op";
	Str head = unhex(t[1]), body;
	if (!bodyOf(t[2], body)) return "bad-op";
	RawServer rs;
	if (!rs.open()) return "err bind";
	rs.respStream = frameStream(head, body, t[3]);
	rs.cuts = cutsOf(t[4], rs.respStream.size());
	rs.closeAfter = t[5] == "c";
	rs.start();
	Req r;
	r.method = "GET";
	r.target = "/";
	r.follow = false;
	HttpResponse res = doRequest(r, rs.port, 0);
	Str c = clientObs(res, rs.port, 0);
	rs.join();
	return c;
}

// raw <s|p> <k> { <head-hex> <bodyspec> <framing> <cuts> P <plan> }*k <fin>   raw client -> real server
//   s: one request at a time on the same connection (keep-alive), p: all requests sent back to back (pipelined),
//   d: like s with a peer that reads late
static Str opRaw(const Toks& t)
{
	if (t.size() < 3) return "bad-op";
	bool pipelined = t[1] == "p";
	bool late = t[1] == "d"; // like s, but the peer starts reading each response 0.3 s after its request went out
	int k = atoi(t[2].c_str());
	size_t i = 3;
	std::vector<Slot*> sls;
	std::vector<Str> streams;
	std::vector<std::vector<size_t> > cuts;
	bool ok = true;
	for (int j = 0; j < k && ok; j++) {
		if (i + 3 >= t.size()) { ok = false; break; }
		Str head = unhex(t[i]), body;
		if (!bodyOf(t[i + 1], body)) { ok = false; break; }
		Str st = frameStream(head, body, t[i + 2]);
		streams.push_back(st);
		cuts.push_back(cutsOf(t[i + 3], st.size()));
		i += 4;
		Slot* sl = new Slot;
		sls.push_back(sl);
		if (!planOf(t, i, sl->plan)) ok = false;
	}
	Str out;
	if (!ok || !ensureServer()) {
		for (size_t j = 0; j < sls.size(); j++) delete sls[j];
		return ok ? "err bind" : "bad-op";
	}
	int fd = rawConnect(srv->thePort);
	if (fd < 0) return "err connect";
	Str pending;
	if (pipelined) {
		// the slots are consumed in order by the handler: chain them through `current`
		Str all;
		std::vector<size_t> allcuts;
		for (size_t j = 0; j < streams.size(); j++) {
			for (size_t c = 0; c < cuts[j].size(); c++) allcuts.push_back(all.size() + cuts[j][c]);
			all += streams[j];
		}
		// one request is handled at a time on a connection, so the handler advances `current` itself: emulate
		// by serving the slots one by one: send everything first, then read the responses in order
		{ Lock l(gmx); slotQueue = sls; slotPos = 0; current = 0; }
		struct Sender { int fd; const Str* d; const std::vector<size_t>* c; static void* run(void* p) { Sender* s = (Sender*)p; sendPieces(s->fd, *s->d, *s->c); shutdown(s->fd, SHUT_WR); return 0; } };
		Sender sd; sd.fd = fd; sd.d = &all; sd.c = &allcuts;
		pthread_t th;
		pthread_create(&th, 0, Sender::run, &sd);
		for (size_t j = 0; j < sls.size(); j++) {
			Str msg;
			bool got = rawReadResponse(fd, pending, msg, 1500);
			Str h = obsOrDash(*sls[j]);
			out += (j ? " ; " : "") + h + " " + wireStr(canonWire(msg, srv->thePort)) + (got ? "" : " short");
		}
		pthread_join(th, 0);
		Str rest = pending + readToEof(fd, 1500);
		out += " ; R" + str((long long)rest.size());
		{ Lock l(gmx); slotQueue.clear(); slotPos = 0; }
	}
	else {
		for (size_t j = 0; j < sls.size(); j++) {
			{ Lock l(gmx); current = sls[j]; }
			sendPieces(fd, streams[j], cuts[j]);
			if (j + 1 == sls.size()) shutdown(fd, SHUT_WR);
			if (late) usleep(300000);
			Str msg;
			bool got = rawReadResponse(fd, pending, msg, 1500);
			out += (j ? " ; " : "") + obsOrDash(*sls[j]) + " " + wireStr(canonWire(msg, srv->thePort)) + (got ? "" : " short");
		}
		Str rest = pending + readToEof(fd, 1500);
		out += " ; R" + str((long long)rest.size());
	}
	close(fd);
	{ Lock l(gmx); current = 0; slotQueue.clear(); slotPos = 0; }
	for (size_t j = 0; j < sls.size(); j++) retireSlot(sls[j]);
	return out;
}

// big <req> P <plan>     one exchange with very large bodies, judged here: the handler must have seen the digest of
// what was sent and the client the digest of what was produced
static Str opBig(const Toks& t)
{
	size_t i = 1;
	Req r;
	Slot* slp = new Slot;
	Slot& sl = *slp;
	if (!reqOf(t, i, r) || !planOf(t, i, sl.plan)) { delete slp; return "bad-op"; }
	if (!ensureServer()) { delete slp; return "err bind"; }
	{ Lock l(gmx); current = slp; }
	HttpResponse res = doRequest(r, srv->thePort, slp);
	Str c = clientObs(res, srv->thePort, 0);
	Str h;
	{ Lock l(gmx); current = 0; h = obsOrDash(sl); }
	Plan planCopy = sl.plan;
	retireSlot(slp);
	Str wantH = " " + digest(r.body), wantC = " " + digest(planCopy.body) + " E-";
	bool okH = h.size() >= wantH.size() && h.compare(h.size() - wantH.size(), wantH.size(), wantH) == 0;
	bool okC = c.size() >= wantC.size() && c.compare(c.size() - wantC.size(), wantC.size(), wantC) == 0;
	bool okCode = c.compare(0, 2 + str(planCopy.code).size() + 1, "C " + str(planCopy.code) + " ") == 0;
	if (okH && okC && okCode) return "ok 1";
	return "bad handler-saw=" + h.substr(h.size() > 60 ? h.size() - 60 : 0) + " sent" + wantH + " client-saw=" + c.substr(0, 300) + " produced" + wantC;
}

// par <clients> <rounds> <seed> <maxbody>    concurrent clients, each with its own tokens; every exchange is judged
// here: the handler saw this client's request, the client received the response made for this request
struct ParClient {
	int id, rounds, port;
	unsigned long long seed;
	int maxbody;
	int okCount;
	Str firstBad;
	std::vector<Slot*> slots;
	std::vector<Str> tokens;
	std::vector<Str> bodies;
	pthread_t th;
};

static void parOne(ParClient* pc, int r)
{
	Slot* sl = pc->slots[r];
	const Str& token = pc->tokens[r];
	const Str& body = pc->bodies[r];
	char path[64];
	snprintf(path, sizeof path, "/c/%d/%d", pc->id, r);
	Str gotCode, gotEcho, gotBody;
	bool rawClient = (pc->id + r) % 3 == 2;
	if (!rawClient) {
		HttpRequest q("POST", String::f("http://127.0.0.1:%d", pc->port) + path);
		q.setHeader("X-Plan", S(token));
		q.setHeader("X-Token", S(token));
		q.put(ByteArray((const byte*)body.data(), (int)body.size()));
		HttpResponse res = Http::request(q);
		gotCode = str(res.code());
		gotEcho = Z(res.header("X-Echo"));
		gotBody = Str((const char*)res.body().data(), (size_t)res.body().length());
	}
	else {
		int fd = rawConnect(pc->port);
		if (fd < 0) { if (pc->firstBad.empty()) pc->firstBad = "connect failed"; return; }
		Str req = Str("POST ") + path + " HTTP/1.1\r\nHost: x\r\nX-Plan: " + token + "\r\nX-Token: " + token +
			"\r\nConnection: close\r\nContent-Length: " + str((long long)body.size()) + "\r\n\r\n" + body;
		std::vector<size_t> cuts;
		unsigned long long x = pc->seed * 31 + (unsigned)r;
		for (int k = 0; k < 6; k++) { x = (x * 1103515245ULL + 12345ULL) % 2147483648ULL; cuts.push_back((size_t)(x % (req.size() + 1))); }
		std::sort(cuts.begin(), cuts.end());
		sendPieces(fd, req, cuts);
		Str pending, msg;
		rawReadMessage(fd, pending, msg, 5000);
		close(fd);
		size_t he = msg.find("\r\n\r\n");
		if (he != Str::npos) {
			gotBody = msg.substr(he + 4);
			if (lower(msg.substr(0, he)).find("\r\ntransfer-encoding: chunked") != Str::npos) {
				Str dec;
				size_t q = 0;
				for (;;) {
					size_t le = gotBody.find("\r\n", q);
					if (le == Str::npos) break;
					unsigned long sz = strtoul(gotBody.c_str() + q, NULL, 16);
					if (sz == 0) break;
					dec += gotBody.substr(le + 2, sz);
					q = le + 2 + sz + 2;
				}
				gotBody = dec;
			}
			size_t sp = msg.find(' ');
			gotCode = msg.substr(sp + 1, 3);
			size_t e = msg.find("\r\nX-Echo: ");
			if (e != Str::npos && e < he) gotEcho = msg.substr(e + 10, msg.find("\r\n", e + 2) - (e + 10));
		}
	}
	Str wantH = "H " + hex(Str("POST")) + " " + hex(Str(path)) + " - Q0 ";
	bool okH = sl->seen.called && sl->seen.line.compare(0, wantH.size(), wantH) == 0 &&
		sl->seen.line.find(" " + hex(Str("X-Token")) + " " + hex(token) + " ") != Str::npos &&
		sl->seen.line.find(" " + digest(body)) != Str::npos;
	bool okC = gotCode == str(sl->plan.code) && gotEcho == token && gotBody == sl->plan.body;
	if (okH && okC) pc->okCount++;
	else if (pc->firstBad.empty())
		pc->firstBad = "client " + str(pc->id) + " round " + str(r) + (rawClient ? " (raw)" : "") + ": handler-ok=" + (okH ? "1" : "0") +
			" saw=" + (sl->seen.called ? sl->seen.line.substr(0, 200) : Str("H-")) + " code=" + gotCode + "/" + str(sl->plan.code) +
			" echo=" + hex(gotEcho) + "/" + hex(token) + " body=" + digest(gotBody) + "/" + digest(sl->plan.body);
}

static void* parRun(void* p)
{
	ParClient* pc = (ParClient*)p;
	for (int r = 0; r < pc->rounds; r++) {
		usleep((useconds_t)((pc->seed + (unsigned)r * 7919u) % 300));
		parOne(pc, r);
	}
	return 0;
}

static Str opPar(const Toks& t)
{
	if (t.size() != 5) return "bad-op";
	int n = atoi(t[1].c_str()), rounds = atoi(t[2].c_str());
	unsigned long long seed = strtoull(t[3].c_str(), 0, 10);
	int maxbody = atoi(t[4].c_str());
	if (n < 1 || n > 256 || rounds < 1) return "bad-op";
	if (!ensureServer()) return "err bind";
	std::vector<ParClient*> cs;
	unsigned long long x = seed % 2147483648ULL;
	for (int i = 0; i < n; i++) {
		ParClient* pc = new ParClient;
		pc->id = i; pc->rounds = rounds; pc->port = srv->thePort; pc->seed = seed + (unsigned)i * 977u; pc->maxbody = maxbody; pc->okCount = 0;
		for (int r = 0; r < rounds; r++) {
			char tok[64];
			snprintf(tok, sizeof tok, "t%llu-%d-%d", seed, i, r);
			x = (x * 1103515245ULL + 12345ULL) % 2147483648ULL;
			size_t l1 = (size_t)(x % (unsigned)(maxbody + 1));
			x = (x * 1103515245ULL + 12345ULL) % 2147483648ULL;
			size_t l2 = (size_t)(x % (unsigned)(maxbody + 1));
			Str b1, b2;
			char spec[64];
			snprintf(spec, sizeof spec, "g%llu.%zu.%d", x % 1000003ULL + (unsigned)i, l1, (i + r) % 3);
			bodyOf(spec, b1);
			snprintf(spec, sizeof spec, "g%llu.%zu.%d", x % 999983ULL + (unsigned)r, l2, (i + r + 1) % 3);
			bodyOf(spec, b2);
			Slot* sl = new Slot;
			sl->plan.code = 200 + (i + r) % 7;
			sl->plan.headers.v.push_back(std::make_pair(Str("X-Echo"), Str(tok)));
			sl->plan.kind = (i + r) % 4 == 3 ? 's' : (i + r) % 4 == 2 ? 'f' : 'b';
			if (sl->plan.kind == 's') sl->plan.parts.push_back(1000 + (size_t)i);
			sl->plan.body = b2;
			pc->slots.push_back(sl);
			pc->tokens.push_back(tok);
			pc->bodies.push_back(b1);
			{ Lock l(gmx); slots[tok] = sl; }
		}
		cs.push_back(pc);
	}
	for (int i = 0; i < n; i++) pthread_create(&cs[i]->th, 0, parRun, cs[i]);
	int ok = 0;
	Str bad;
	for (int i = 0; i < n; i++) {
		pthread_join(cs[i]->th, 0);
		ok += cs[i]->okCount;
		if (bad.empty() && !cs[i]->firstBad.empty()) bad = cs[i]->firstBad;
	}
	{
		Lock l(gmx);
		for (int i = 0; i < n; i++) {
			for (size_t r = 0; r < cs[i]->slots.size(); r++) slots.erase(cs[i]->tokens[r]);
		}
	}
	for (int i = 0; i < n; i++) {
		for (size_t r = 0; r < cs[i]->slots.size(); r++) retireSlot(cs[i]->slots[r]);
		delete cs[i];
	}
	if (bad.empty() && ok == n * rounds) return "ok " + str(ok);
	return "bad " + str(ok) + "/" + str(n * rounds) + " " + bad;
}

// sockio w <bodyspec> <sched>         asl Socket::write over a socketpair whose peer drains in pieces
// sockio r <bodyspec> <cuts> <size>    asl Socket::read(buf, size) while the peer sends in pieces (then closes)
struct IoPeer {
	int fd; bool reader; Str data; std::vector<size_t> sched; Str got;
	static void* run(void* p)
	{
		IoPeer* io = (IoPeer*)p;
		if (io->reader) {
			char buf[65536];
			size_t k = 0;
			for (;;) {
				size_t want = io->sched.empty() ? sizeof buf : io->sched[k % io->sched.size()];
				if (want == 0) want = 1;
				if (want > sizeof buf) want = sizeof buf;
				ssize_t n = recv(io->fd, buf, want, 0);
				if (n <= 0) break;
				io->got.append(buf, (size_t)n);
				if ((k++ & 7) == 0) usleep(30);
			}
		}
		else {
			sendPieces(io->fd, io->data, io->sched);
			shutdown(io->fd, SHUT_WR);
		}
		return 0;
	}
};

static Str opSockio(const Toks& t)
{
	if (t.size() < 4) return "bad-op";
	Str data;
	if (!bodyOf(t[2], data)) return "bad-op";
	int fds[2];
	if (socketpair(AF_UNIX, SOCK_STREAM, 0, fds) != 0) return "err socketpair";
	int small = 4096;
	setsockopt(fds[0], SOL_SOCKET, SO_SNDBUF, &small, sizeof small);
	setsockopt(fds[1], SOL_SOCKET, SO_RCVBUF, &small, sizeof small);
	IoPeer io;
	io.fd = fds[1];
	Str out;
	if (t[1] == "w") {
		io.reader = true;
		io.sched = sizesOf(t[3]);
		pthread_t th;
		pthread_create(&th, 0, IoPeer::run, &io);
		{
			Socket s(fds[0]);
			Exact d(data);
			int ret = s.write(d.p, (int)d.n);
			out = str(ret) + " ";
			shutdown(fds[0], SHUT_WR);
			pthread_join(th, 0);
		} // closes fds[0]
		out += digest(io.got);
	}
	else {
		if (t.size() != 5) { close(fds[0]); close(fds[1]); return "bad-op"; }
		io.reader = false;
		io.data = data;
		io.sched = cutsOf(t[3], data.size());
		int size = atoi(t[4].c_str());
		pthread_t th;
		pthread_create(&th, 0, IoPeer::run, &io);
		{
			Socket s(fds[0]);
			char* buf = (char*)malloc((size_t)size + 1);
			int ret = s.read(buf, size);
			out = str(ret) + " " + digest(buf, (size_t)(ret > 0 ? ret : 0)) + " " + (s.error() ? "1" : "0");
			free(buf);
		} // closes fds[0]: a peer still sending the bytes beyond `size` gets EPIPE and ends
		pthread_join(th, 0);
	}
	close(fds[1]);
	return out;
}

// ------------------------------------------------------------------ concurrent file downloads
// dl <seed> <sizes,csv> <n> { <file> <b> <e> <pace> }*n
//   file k has sizes[k] bytes, byte at offset o = dlByte(seed, k, o).  b = -1: no Range header, else Range: bytes=b-e.
//   pace 0: raw client reading at once; 1: raw client reading slowly in small pieces; 2: asl Http client;
//   3: raw client with a small receive buffer that sends its request, waits until every client of pace 0..2 is done,
//      and only then reads (its handler meanwhile sleeps in send() in the middle of a block).
// Every client checks status, Content-Length, Content-Range and EVERY body byte against the formula.
static inline unsigned char dlByte(unsigned long long seed, unsigned long long f, unsigned long long o)
{
	unsigned long long v = ((o + 1) * 2654435761ULL + (f + 1) * 40503ULL * (o / 1000 + 1) + seed) & 0xFFFFFFFFULL;
	return (unsigned char)((v >> 13) & 255);
}

struct DlShared {
	pthread_mutex_t mx; pthread_cond_t cv;
	int fastLeft;
	int port;
	unsigned long long seed;
	std::vector<size_t> sizes;
};

struct DlClient {
	DlShared* sh;
	int id, file, pace;
	long long b, e;
	Str verdict; // empty = ok
	pthread_t th;
};

static Str dlCheck(DlClient* c, int code, const Str& cl, const Str& cr, const Str& body)
{
	size_t n = c->sh->sizes[(size_t)c->file];
	int wantCode; Str wantCl, wantCr; long long from = 0, len = (long long)n;
	if (c->b < 0) { wantCode = 200; wantCl = str((long long)n); }
	else if (c->b <= c->e && c->b < (long long)n) { // RFC 7233 2.1: a last position at or past the end means "to the end"
		long long e = c->e < (long long)n ? c->e : (long long)n - 1;
		wantCode = 206; from = c->b; len = e - c->b + 1;
		wantCl = str(len);
		wantCr = "bytes " + str(c->b) + "-" + str(e) + "/" + str((long long)n);
	}
	else { wantCode = 416; len = 0; wantCl = "0"; wantCr = "bytes */" + str((long long)n); }
	if (code != wantCode) return "status " + str(code) + " want " + str(wantCode);
	if (cl != wantCl) return "Content-Length " + cl + " want " + wantCl;
	if (cr != wantCr) return "Content-Range [" + cr + "] want [" + wantCr + "]";
	if ((long long)body.size() != len) return "body length " + str((long long)body.size()) + " want " + str(len);
	for (long long k = 0; k < len; k++) {
		unsigned char w = dlByte(c->sh->seed, (unsigned)c->file, (unsigned long long)(from + k));
		if ((unsigned char)body[(size_t)k] != w) {
			char b[96];
			snprintf(b, sizeof b, "first wrong body offset %lld (file offset %lld): got %02x want %02x", k, from + k, (unsigned char)body[(size_t)k], w);
			return b;
		}
	}
	return "";
}

static void* dlRun(void* p)
{
	DlClient* c = (DlClient*)p;
	DlShared* sh = c->sh;
	char path[32];
	snprintf(path, sizeof path, "/dl/%d", c->file);
	Str range;
	if (c->b >= 0) range = "bytes=" + str(c->b) + "-" + str(c->e);
	int code = 0; Str cl, cr, body;
	if (c->pace == 2) {
		HttpRequest q("GET", String::f("http://127.0.0.1:%d", sh->port) + path);
		if (!range.empty()) q.setHeader("Range", S(range));
		HttpResponse res = Http::request(q);
		code = res.code();
		cl = Z(res.header("Content-Length"));
		cr = Z(res.header("Content-Range"));
		body = Str((const char*)res.body().data(), (size_t)res.body().length());
	}
	else {
		int fd = socket(AF_INET, SOCK_STREAM, 0);
		if (c->pace == 3) { int small = 4096; setsockopt(fd, SOL_SOCKET, SO_RCVBUF, &small, sizeof small); }
		sockaddr_in a;
		memset(&a, 0, sizeof a);
		a.sin_family = AF_INET;
		a.sin_port = htons((unsigned short)sh->port);
		a.sin_addr.s_addr = htonl(INADDR_LOOPBACK);
		if (fd < 0 || connect(fd, (sockaddr*)&a, sizeof a) != 0) { c->verdict = "connect failed"; if (fd >= 0) close(fd); goto done; }
		{
			Str req = Str("GET ") + path + " HTTP/1.1\r\nHost: x\r\n" + (range.empty() ? "" : "Range: " + range + "\r\n") + "Connection: close\r\n\r\n";
			sendAll(fd, req.data(), req.size());
			if (c->pace == 3) { // let the handler fill the socket buffers and sleep in send(), until the others are done
				pthread_mutex_lock(&sh->mx);
				while (sh->fastLeft > 0) pthread_cond_wait(&sh->cv, &sh->mx);
				pthread_mutex_unlock(&sh->mx);
			}
			Str all;
			char buf[65536];
			for (;;) {
				int want = c->pace == 1 ? 1 + (int)((all.size() * 7 + (size_t)c->id) % 3000) : (int)sizeof buf;
				pollfd pf; pf.fd = fd; pf.events = POLLIN; pf.revents = 0;
				if (poll(&pf, 1, 15000) <= 0) break;
				int k = (int)recv(fd, buf, (size_t)want, 0);
				if (k <= 0) break;
				all.append(buf, (size_t)k);
				if (c->pace == 1 && (all.size() / 3000) % 8 == 0) usleep(200);
			}
			close(fd);
			size_t he = all.find("\r\n\r\n");
			if (he == Str::npos) { c->verdict = "no header block (" + str((long long)all.size()) + " bytes)"; goto done; }
			Str head = all.substr(0, he + 2);
			body = all.substr(he + 4);
			size_t sp = head.find(' ');
			code = atoi(head.c_str() + sp + 1);
			size_t q1 = head.find("\r\nContent-Length: ");
			if (q1 != Str::npos) cl = head.substr(q1 + 18, head.find("\r\n", q1 + 2) - (q1 + 18));
			q1 = head.find("\r\nContent-Range: ");
			if (q1 != Str::npos) cr = head.substr(q1 + 17, head.find("\r\n", q1 + 2) - (q1 + 17));
		}
	}
	c->verdict = dlCheck(c, code, cl, cr, body);
done:
	if (c->pace != 3) {
		pthread_mutex_lock(&sh->mx);
		sh->fastLeft--;
		pthread_cond_broadcast(&sh->cv);
		pthread_mutex_unlock(&sh->mx);
	}
	return 0;
}

static Str opDl(const Toks& t)
{
	if (t.size() < 4) return "bad-op";
	DlShared sh;
	sh.seed = strtoull(t[1].c_str(), 0, 10);
	sh.sizes = sizesOf(t[2]);
	int n = atoi(t[3].c_str());
	if (n < 1 || n > 256 || t.size() != 4 + 4 * (size_t)n || sh.sizes.empty()) return "bad-op";
	if (!ensureServer()) return "err bind";
	sh.port = srv->thePort;
	pthread_mutex_init(&sh.mx, 0);
	pthread_cond_init(&sh.cv, 0);
	// the files, in this process's own temporary directory
	std::vector<Str> paths;
	for (size_t f = 0; f < sh.sizes.size(); f++) {
		Str content(sh.sizes[f], '\0');
		for (size_t o = 0; o < content.size(); o++) content[o] = (char)dlByte(sh.seed, f, o);
		Str p = makeFile(content, "bin");
		paths.push_back(p);
		char key[32];
		snprintf(key, sizeof key, "/dl/%d", (int)f);
		Lock l(gmx);
		dlFiles[key] = p;
	}
	std::vector<DlClient*> cs;
	sh.fastLeft = 0;
	bool bad = false;
	for (int i = 0; i < n; i++) {
		DlClient* c = new DlClient;
		c->sh = &sh; c->id = i;
		c->file = atoi(t[4 + 4 * i].c_str());
		c->b = atoll(t[5 + 4 * i].c_str());
		c->e = atoll(t[6 + 4 * i].c_str());
		c->pace = atoi(t[7 + 4 * i].c_str());
		if (c->file < 0 || (size_t)c->file >= sh.sizes.size() || c->pace < 0 || c->pace > 3) bad = true;
		if (c->pace != 3) sh.fastLeft++;
		cs.push_back(c);
	}
	Str out;
	if (!bad) {
		// the delayed clients first, so that their handlers are asleep in send() when the others run
		for (int i = 0; i < n; i++) if (cs[i]->pace == 3) pthread_create(&cs[i]->th, 0, dlRun, cs[i]);
		bool anyDelayed = false;
		for (int i = 0; i < n; i++) if (cs[i]->pace == 3) anyDelayed = true;
		if (anyDelayed) usleep(150000);
		for (int i = 0; i < n; i++) if (cs[i]->pace != 3) pthread_create(&cs[i]->th, 0, dlRun, cs[i]);
		if (sh.fastLeft == 0) { pthread_mutex_lock(&sh.mx); pthread_cond_broadcast(&sh.cv); pthread_mutex_unlock(&sh.mx); }
		int ok = 0;
		for (int i = 0; i < n; i++) {
			pthread_join(cs[i]->th, 0);
			if (cs[i]->verdict.empty()) ok++;
			else if (out.empty())
				out = "bad client " + str(i) + " file " + str(cs[i]->file) + " range " + str(cs[i]->b) + "-" + str(cs[i]->e) + " pace " + str(cs[i]->pace) + ": " + cs[i]->verdict;
		}
		if (out.empty()) out = "ok " + str(ok);
	}
	else out = "bad-op";
	for (size_t i = 0; i < cs.size(); i++) delete cs[i];
	{
		Lock l(gmx);
		dlFiles.clear();
	}
	for (size_t f = 0; f < paths.size(); f++) unlink(paths[f].c_str());
	pthread_mutex_destroy(&sh.mx);
	pthread_cond_destroy(&sh.cv);
	return out;
}

static std::string step(const Toks& t)
{
	const std::string& op = t[0];
	if (op == "xchg") return opXchg(t);
	if (op == "reuse") return opReuse(t);
	if (op == "cwire") return opCwire(t);
	if (op == "cread") return opCread(t);
	if (op == "raw") return opRaw(t);
	if (op == "big") return opBig(t);
	if (op == "sockio") return opSockio(t);
	if (op == "par") return opPar(t);
	if (op == "dl") return opDl(t);
	if (op == "wirelimit" && t.size() == 2) { wireHexLimit = (size_t)atoll(t[1].c_str()); return "ok"; }
	if (op == "options") { optionsToHandler = t.size() > 1 && t[1] == "1"; return "ok"; }
	return "bad-op";
}

int main()
{
	int rc = run(reset, step);
	reset();
	if (srv) {
		srv->stop(false);
		for (int k = 0; k < 200 && srv->running(); k++) {
			int fd = rawConnect(srv->thePort); // wakes the accept loop so that it sees the stop request
			if (fd >= 0) close(fd);
			usleep(10000);
		}
		if (!srv->running()) delete srv;
	}
	if (!tmpdir.empty()) rmdir(tmpdir.c_str());
	return rc;
}
