// C11 correspondence harness: the real asl::WebSocket / WebSocketServer behind the line protocol.
// Every connection is one end of a socketpair; the other end is driven by a raw peer thread (writes a
// byte stream, shuts its sending side down, collects whatever the library writes) or by a second
// library WebSocket of the opposite role.
#include "common.h"
#include <asl/WebSocket.h>
#include <asl/Socket.h>
#include <sys/socket.h>
#include <netinet/in.h>
#include <arpa/inet.h>
#include <sys/ioctl.h>
#include <poll.h>
#include <fcntl.h>
#include <unistd.h>
#include <errno.h>
#include <signal.h>
#include <atomic>
#include <thread>
#include <new>
#if defined(__SANITIZE_ADDRESS__)
extern "C" int __sanitizer_install_malloc_and_free_hooks(void (*malloc_hook)(const volatile void*, size_t), void (*free_hook)(const volatile void*)); // libasan
#endif
using namespace asl;
using namespace vh;

// 64-bit FNV-1a (same function in lean/Driver/C11.lean) for long byte strings
static std::string showBytes(const std::string& s)
{
	if (s.size() <= 2048) return hex(s);
	unsigned long long h = 14695981039346656037ull;
	for (size_t i = 0; i < s.size(); i++) { h ^= (unsigned char)s[i]; h *= 1099511628211ull; }
	char b[40];
	snprintf(b, sizeof b, "#%llu", h);
	return b;
}

// WebSocket whose private generator can be put into a chosen state (the mask keys of the client role
// come from `_random`): `Random` is four 64-bit words
struct WS : public WebSocket
{
	WS(const Socket& s, bool isclient) : WebSocket(s, isclient) {}
	void setRng(const std::string& st)
	{
		static_assert(sizeof(Random) == 32, "Random is expected to be ULong _state[4]");
		if (st.size() == 32) memcpy((void*)&_random, st.data(), 32);
	}
};

// Largest single allocation made while an op runs (ASan allocator hook): the property says a frame header
// alone must not make the library reserve the announced length, so the harness compares this with the
// number of bytes it actually sent (Array doubles its capacity: factor 2, plus one 64 KiB chunk and slack).
static std::atomic<size_t> g_maxAlloc(0);
static void onMalloc(const volatile void*, size_t n)
{
	size_t cur = g_maxAlloc.load();
	while (n > cur && !g_maxAlloc.compare_exchange_weak(cur, n)) {}
}
static void onFree(const volatile void*) {}
static bool allocTooBig(size_t sent, std::string& why)
{
	size_t limit = 2 * sent + (1u << 20);
	size_t m = g_maxAlloc.load();
	if (m <= limit) return false;
	why = "alloc-exceeds-received max=" + str((long long)m) + " sent=" + str((long long)sent);
	return true;
}

struct Peer
{
	int fd;
	std::string toWrite;
	std::string got;
	std::atomic<bool> doneWriting;
	std::thread th;
	Peer(int f, const std::string& w) : fd(f), toWrite(w), doneWriting(false) {}
	void start() { th = std::thread([this]() { run(); }); }
	void run()
	{
		fcntl(fd, F_SETFL, fcntl(fd, F_GETFL) | O_NONBLOCK);
		size_t off = 0;
		bool writing = true, reading = true;
		if (toWrite.empty()) { shutdown(fd, SHUT_WR); writing = false; doneWriting = true; }
		char buf[65536];
		while (writing || reading)
		{
			struct pollfd p;
			p.fd = fd;
			p.events = (short)((writing ? POLLOUT : 0) | (reading ? POLLIN : 0));
			p.revents = 0;
			if (poll(&p, 1, 20000) <= 0) break; // nothing for 20 s: give up (reported as a hang by the diff)
			if (reading && (p.revents & (POLLIN | POLLHUP | POLLERR)))
			{
				ssize_t n = ::read(fd, buf, sizeof buf);
				if (n > 0) got.append(buf, (size_t)n);
				else if (n == 0 || (errno != EAGAIN && errno != EINTR)) reading = false;
			}
			if (writing && (p.revents & (POLLOUT | POLLERR | POLLHUP)))
			{
				ssize_t n = ::send(fd, toWrite.data() + off, toWrite.size() - off, MSG_NOSIGNAL);
				if (n > 0) off += (size_t)n;
				else if (n < 0 && errno != EAGAIN && errno != EINTR) { writing = false; doneWriting = true; } // the library closed
				if (writing && off == toWrite.size()) { shutdown(fd, SHUT_WR); writing = false; doneWriting = true; }
			}
		}
		doneWriting = true;
		::close(fd);
	}
	void join() { if (th.joinable()) th.join(); }
};

static int avail(int fd)
{
	int n = 0;
	if (ioctl(fd, FIONREAD, &n) != 0) return -1;
	return n;
}

// Block until the next poll of the connection has a timing-independent answer: either bytes are
// waiting, or the writer has shut its side down (readable with nothing to read = end of stream, and the
// shutdown comes after the last byte was written).
static void settle(int fd, std::atomic<bool>& done)
{
	(void)done;
	if (avail(fd) != 0) return; // data waiting, or the descriptor is already closed
	struct pollfd p;
	p.fd = fd;
	p.events = POLLIN;
	p.revents = 0;
	poll(&p, 1, 20000);
}

struct Result { std::vector<std::string> msgs; bool negative; bool badalloc; bool closed; int code; Result() : negative(false), badalloc(false), closed(false), code(0) {} };

// `while (!ws.closed()) got << ws.receive();`
static void receiveAll(WS& ws, int fd, std::atomic<bool>& done, size_t bound, Result& r)
{
	try {
		for (size_t k = 0; k < bound; k++)
		{
			settle(fd, done);
			if (ws.closed()) break;
			WebSocketMsg m = ws.receive();
			int n = m.length();
			if (n < 0) { r.negative = true; break; }
			ByteArray a = m;
			r.msgs.push_back(std::string((const char*)a.data(), (size_t)n));
		}
		r.closed = ws.closed();
		r.code = ws.code();
	}
	catch (std::bad_alloc&) { r.badalloc = true; }
}

static std::string show(const Result& r, const std::string& out)
{
	if (r.negative) return "negative-length";
	if (r.badalloc) return "bad_alloc";
	std::string s = "n=" + str((long long)r.msgs.size()) + " ";
	if (r.msgs.empty()) s += "-";
	for (size_t i = 0; i < r.msgs.size(); i++)
		s += (i ? " " : "") + str((long long)r.msgs[i].size()) + ":" + showBytes(r.msgs[i]);
	s += std::string(" closed=") + (r.closed ? "1" : "0") + " code=" + str(r.code);
	s += " out=" + str((long long)out.size()) + ":" + showBytes(out);
	return s;
}

struct Srv : public WebSocketServer
{
	void serve(WebSocket& ws) {}
};

// one step of a scripted conversation over a real handshake: 'u' = client sends, 'd' = server sends
struct Step { char dir; int type; std::string data; };

struct ScriptSrv : public WebSocketServer
{
	const std::vector<Step>* script;
	std::vector<std::string> got;
	bool negative;
	ScriptSrv() : script(0), negative(false) {}
	void serve(WebSocket& ws)
	{
		for (size_t i = 0; i < script->size(); i++)
		{
			const Step& st = (*script)[i];
			if (st.dir == 'u') {
				WebSocketMsg m = ws.receive();
				if (m.length() < 0) { negative = true; return; }
				ByteArray a = m;
				got.push_back(std::string((const char*)a.data(), (size_t)a.length()));
			}
			else {
				Exact d(st.data);
				ws.send((const byte*)d.p, (int)d.n, (WebSocket::FrameType)st.type);
			}
		}
		// wait for the client to finish reading and close
		ws.receive();
	}
};

static std::string showList(const std::vector<std::string>& v)
{
	if (v.empty()) return "-";
	std::string s;
	for (size_t i = 0; i < v.size(); i++) s += (i ? "," : "") + str((long long)v[i].size()) + ":" + showBytes(v[i]);
	return s;
}

static bool role(const std::string& s, bool& isClient)
{
	if (s == "c") { isClient = true; return true; }
	if (s == "s") { isClient = false; return true; }
	return false;
}

static std::string step(const Toks& t)
{
	const std::string& op = t[0];
	bool ic;
	if (op == "rx" && t.size() == 4 && role(t[1], ic))
	{
		std::string st = unhex(t[2]), stream = unhex(t[3]);
		if (st.size() != 32) return "bad-op";
		int fd[2];
		if (socketpair(AF_UNIX, SOCK_STREAM, 0, fd) != 0) return "err socketpair";
		Peer peer(fd[1], stream);
		Result r;
		g_maxAlloc = 0;
		{
			WS ws(Socket(new Socket_(fd[0])), ic);
			ws.setRng(st);
			peer.start();
			receiveAll(ws, fd[0], peer.doneWriting, stream.size() + 2, r);
		}
		peer.join();
		std::string why;
		if (allocTooBig(stream.size(), why)) return why;
		return show(r, peer.got);
	}
	if (op == "tx" && t.size() == 5 && role(t[1], ic))
	{
		std::string st = unhex(t[2]);
		if (st.size() != 32) return "bad-op";
		Exact d(unhex(t[4]));
		int fd[2];
		if (socketpair(AF_UNIX, SOCK_STREAM, 0, fd) != 0) return "err socketpair";
		Peer peer(fd[1], "");
		{
			WS ws(Socket(new Socket_(fd[0])), ic);
			ws.setRng(st);
			peer.start();
			ws.send((const byte*)d.p, (int)d.n, (WebSocket::FrameType)num(t[3]));
		}
		peer.join();
		return str((long long)peer.got.size()) + ":" + showBytes(peer.got);
	}
	if (op == "pair" && t.size() >= 4 && t.size() % 2 == 0 && role(t[1], ic))
	{
		std::string st = unhex(t[2]), st2 = unhex(t[3]);
		if (st.size() != 32 || st2.size() != 32) return "bad-op";
		int fd[2];
		if (socketpair(AF_UNIX, SOCK_STREAM, 0, fd) != 0) return "err socketpair";
		std::atomic<bool> done(false);
		std::string pongs;
		size_t total = 0;
		for (size_t i = 4; i + 1 < t.size(); i += 2) total += t[i + 1].size() / 2 + 16;
		// the sending library socket runs in its own thread, then half-closes and drains
		std::thread sender([&]() {
			{
				int fdA = dup(fd[0]); // the library closes its descriptor; keep one to half-close and drain
				WS a(Socket(new Socket_(fd[0])), ic);
				a.setRng(st);
				for (size_t i = 4; i + 1 < t.size(); i += 2)
				{
					Exact d(unhex(t[i + 1]));
					a.send((const byte*)d.p, (int)d.n, (WebSocket::FrameType)num(t[i]));
				}
				shutdown(fdA, SHUT_WR);
				done = true;
				char buf[4096];
				ssize_t n;
				while ((n = ::read(fdA, buf, sizeof buf)) > 0) pongs.append(buf, (size_t)n);
				::close(fdA);
			}
		});
		Result r;
		{
			WS b(Socket(new Socket_(fd[1])), !ic);
			b.setRng(st2);
			receiveAll(b, fd[1], done, total + 2, r);
		}
		sender.join();
		return show(r, pongs);
	}
	if (op == "accept" && t.size() == 3)
	{
		std::string key = unhex(t[2]);
		std::string req = "GET /chat HTTP/1.1\r\nHost: server.example.com\r\nUpgrade: websocket\r\nConnection: Upgrade\r\nSec-WebSocket-Key: " + key + "\r\n";
		if (t[1] == "1") req += "Sec-WebSocket-Protocol: chat\r\n";
		req += "Sec-WebSocket-Version: 13\r\n\r\n";
		int fd[2];
		if (socketpair(AF_UNIX, SOCK_STREAM, 0, fd) != 0) return "err socketpair";
		Peer peer(fd[1], req);
		peer.start();
		{
			Srv srv;
			static_cast<SocketServer&>(srv).serve(Socket(new Socket_(fd[0])));
		}
		peer.join();
		return hex(peer.got);
	}
	if (op == "hs" && t.size() == 2)
	{
		// server handshake for arbitrary request bytes
		std::string req = unhex(t[1]);
		int fd[2];
		if (socketpair(AF_UNIX, SOCK_STREAM, 0, fd) != 0) return "err socketpair";
		Peer peer(fd[1], req);
		peer.start();
		{
			Srv srv;
			static_cast<SocketServer&>(srv).serve(Socket(new Socket_(fd[0])));
		}
		peer.join();
		return hex(peer.got);
	}
	if (op == "copysend" && t.size() == 4 && role(t[1], ic))
	{
		// a copy of the WebSocket is taken while another thread is inside send() (the peer reads late, so that send
		// blocks); the copy must be able to send afterwards, and both frames must arrive whole
		std::string st = unhex(t[2]);
		int size = (int)num(t[3]);
		if (st.size() != 32 || size < 1 || size > (8 << 20)) return "bad-op";
		int fd[2];
		if (socketpair(AF_UNIX, SOCK_STREAM, 0, fd) != 0) return "err socketpair";
		std::string in;
		std::thread peer([&]() { usleep(150000); char buf[65536]; ssize_t n; while ((n = ::read(fd[1], buf, sizeof buf)) > 0) in.append(buf, (size_t)n); });
		WS* ws = new WS(Socket(new Socket_(fd[0])), ic);
		ws->setRng(st);
		std::string big((size_t)size, 0);
		for (int j = 0; j < size; j++) big[(size_t)j] = (char)(j % 251);
		std::thread A([&]() { ws->send((const byte*)big.data(), size, WebSocket::FRAME_BINARY); });
		usleep(50000);
		WS* w2 = new WS(*ws); // copied while A holds the send lock
		A.join();
		std::atomic<bool> done(false);
		std::thread B([&]() { w2->send((const byte*)"hello", 5, WebSocket::FRAME_BINARY); done = true; });
		for (int i = 0; i < 300 && !done; i++) usleep(10000);
		if (!done) { puts("copy-send-blocked"); fflush(stdout); _exit(3); } // the thread can never be joined
		B.join();
		delete w2;
		delete ws;
		peer.join();
		::close(fd[1]);
		// two whole frames
		std::string desc; size_t pos = 0; int k = 0;
		while (pos < in.size()) {
			if (in.size() - pos < 2) return "corrupt: short header";
			unsigned char b0 = (unsigned char)in[pos], b1 = (unsigned char)in[pos + 1];
			unsigned long long len = b1 & 127; size_t h = 2;
			if (len == 126) { if (in.size() - pos < 4) return "corrupt: short header"; len = ((unsigned char)in[pos + 2] << 8) | (unsigned char)in[pos + 3]; h = 4; }
			else if (len == 127) { if (in.size() - pos < 10) return "corrupt: short header"; len = 0; for (int i = 2; i < 10; i++) len = (len << 8) | (unsigned char)in[pos + i]; h = 10; }
			bool masked = (b1 & 0x80) != 0;
			if (masked) h += 4;
			if (b0 != 0x82 || masked != ic || in.size() - pos < h + len) return "corrupt: frame " + str(b0) + " len " + str((long long)len);
			std::string pl = in.substr(pos + h, (size_t)len);
			if (masked) for (size_t i = 0; i < pl.size(); i++) pl[i] = (char)(pl[i] ^ in[pos + h - 4 + (i & 3)]);
			desc += (k ? "," : "") + str((long long)len) + ":" + showBytes(pl);
			k++; pos += h + (size_t)len;
		}
		return "data=" + str(k) + " " + desc;
	}
	if (op == "duplex" && (t.size() == 7 || (t.size() == 8 && t[7] == "copy")) && role(t[1], ic))
	{
		bool viaCopy = t.size() == 8; // the sender uses a copy of the WebSocket taken beforehand: copies share the send lock
		// one thread keeps calling receive() (the peer pings all the time), another one sends: what the peer reads
		// must be whole frames — the data messages in order and one pong per ping in order
		std::string st = unhex(t[2]);
		int nmsg = (int)num(t[3]), size = (int)num(t[4]), seed = (int)num(t[5]), nping = (int)num(t[6]);
		if (st.size() != 32 || nmsg < 1 || nmsg > 64 || size < 1 || size > (1 << 21) || nping < 0 || nping > 5000) return "bad-op";
		int fd[2];
		if (socketpair(AF_UNIX, SOCK_STREAM, 0, fd) != 0) return "err socketpair";
		std::string verdict;
		for (int attempt = 0; attempt < 3; attempt++) // the interleaving is a race: three rounds, any bad one is reported
		{
			if (attempt > 0 && socketpair(AF_UNIX, SOCK_STREAM, 0, fd) != 0) return "err socketpair";
			verdict.clear();
			WS ws(Socket(new Socket_(fd[0])), ic);
			ws.setRng(st);
			WS wcopy(ws);
			WS& wsend = viaCopy ? wcopy : ws;
			std::thread reader([&]() { for (int k = 0; k < 100000 && !ws.closed(); k++) ws.receive(); });
			std::thread sender([&]() {
				for (int i = 0; i < nmsg; i++) {
					std::string pl((size_t)size, 0);
					for (int j = 0; j < size; j++) pl[(size_t)j] = (char)((seed + i * 31 + j) % 251);
					Exact d(pl);
					wsend.send((const byte*)d.p, (int)d.n, WebSocket::FRAME_BINARY);
				}
			});
			// the peer: raw socket, own frame parser
			fcntl(fd[1], F_SETFL, fcntl(fd[1], F_GETFL) | O_NONBLOCK);
			std::string in;
			size_t pos = 0, seen = 0;
			unsigned long long total = (unsigned long long)nmsg * (unsigned long long)(size + 10);
			int msgs = 0, pongs = 0, pings = 0;
			std::string dataDesc, pongBytes;
			char buf[65536];
			for (int spins = 0; verdict.empty() && (msgs < nmsg || pongs < nping); )
			{
				// pings spread over the whole transfer
				while (pings < nping && seen >= (unsigned long long)(pings + 1) * total / (unsigned long long)(nping + 1)) {
					unsigned char p[6] = { 0x89, 0x04, 'p', (unsigned char)pings, (unsigned char)(pings >> 8), 'g' };
					if (::send(fd[1], p, 6, MSG_NOSIGNAL) != 6) break; // retried on the next round
					pings++;
				}
				struct pollfd pf; pf.fd = fd[1]; pf.events = POLLIN; pf.revents = 0;
				int pr = poll(&pf, 1, 100);
				if (pr == 0) { if (++spins > 200) verdict = "timeout msgs=" + str(msgs) + " pongs=" + str(pongs); continue; }
				ssize_t n = ::read(fd[1], buf, sizeof buf);
				if (n == 0) { verdict = "closed-early msgs=" + str(msgs) + " pongs=" + str(pongs); break; }
				if (n < 0) continue;
				spins = 0;
				in.append(buf, (size_t)n);
				seen += (size_t)n;
				for (;;) // complete frames
				{
					size_t av = in.size() - pos;
					if (av < 2) break;
					unsigned char b0 = (unsigned char)in[pos], b1 = (unsigned char)in[pos + 1];
					unsigned long long len = b1 & 127; size_t h = 2;
					if (len == 126) { if (av < 4) break; len = ((unsigned char)in[pos + 2] << 8) | (unsigned char)in[pos + 3]; h = 4; }
					else if (len == 127) { if (av < 10) break; len = 0; for (int i = 2; i < 10; i++) len = (len << 8) | (unsigned char)in[pos + i]; h = 10; }
					bool masked = (b1 & 0x80) != 0;
					if (masked != ic) { verdict = "corrupt: mask bit of frame " + str(b0) + " after " + str(msgs) + " messages, " + str(pongs) + " pongs"; break; }
					if (masked) h += 4;
					if ((b0 != 0x82 && b0 != 0x8a) || len > (unsigned long long)size + 4 || (b0 == 0x82 && len != (unsigned long long)size) || (b0 == 0x8a && len != 4))
					{ verdict = "corrupt: frame " + str(b0) + " len " + str((long long)len) + " after " + str(msgs) + " messages, " + str(pongs) + " pongs"; break; }
					if (av < h + len) break;
					std::string pl = in.substr(pos + h, (size_t)len);
					if (masked) for (size_t i = 0; i < pl.size(); i++) pl[i] = (char)(pl[i] ^ in[pos + h - 4 + (i & 3)]);
					if (b0 == 0x82) { dataDesc += (msgs ? "," : "") + str((long long)len) + ":" + showBytes(pl); msgs++; }
					else { pongBytes += pl; pongs++; }
					pos += h + (size_t)len;
					if (pos > (1u << 22)) { in.erase(0, pos); pos = 0; }
				}
			}
			if (verdict.empty())
				verdict = "data=" + str(msgs) + " " + dataDesc + " pongs=" + str(pongs) + ":" + showBytes(pongBytes);
			::close(fd[1]);
			sender.join();
			reader.join();
			if (verdict.compare(0, 5, "data=") != 0) break;
		}
		return verdict;
	}
	if (op == "watch" && t.size() == 5 && role(t[1], ic))
	{
		// one thread in receive(), another one polling closed() (a sender looping on connected()): the stream of
		// one-byte binary messages must arrive completely
		std::string st = unhex(t[2]);
		int n = (int)num(t[3]), seed = (int)num(t[4]);
		if (st.size() != 32 || n < 1 || n > 1000000) return "bad-op";
		std::string verdict;
		for (int attempt = 0; attempt < 3; attempt++) // a race: three rounds, the first bad one is reported
		{
			int fd[2];
			if (socketpair(AF_UNIX, SOCK_STREAM, 0, fd) != 0) return "err socketpair";
			std::string got;
			bool closed = false;
			{
				WS ws(Socket(new Socket_(fd[0])), ic);
				ws.setRng(st);
				std::atomic<bool> done(false);
				std::thread peer([&]() {
					for (int i = 0; i < n; i++) {
						unsigned char f[3] = { 0x82, 1, (unsigned char)((seed + i) % 251) };
						if (::send(fd[1], f, 3, MSG_NOSIGNAL) != 3) break;
						if (i % 64 == 0) usleep(50);
					}
					usleep(20000);
					shutdown(fd[1], SHUT_WR);
				});
				std::thread watcher([&]() { while (!done) { if (ws.closed()) break; } });
				for (int k = 0; k <= n; k++) {
					WebSocketMsg m = ws.receive();
					if (m.length() != 1) break;
					got += (*m)[0];
				}
				done = true;
				closed = ws.closed();
				peer.join();
				watcher.join();
			}
			::close(fd[1]);
			verdict = "n=" + str((long long)got.size()) + ":" + showBytes(got) + " closed=" + (closed ? "1" : "0");
			if ((int)got.size() != n) break;
		}
		return verdict;
	}
	if (op == "bigsum" && t.size() == 3)
	{
		// fragments of one binary message, each `len` bytes of 'a', generated here (too long for the line protocol):
		// only the lengths of what receive() returns are reported
		long long len = num(t[1]);
		int nfrag = (int)num(t[2]);
		if (len <= 0 || len > 0x7ffffff0LL || nfrag < 1 || nfrag > 8) return "bad-op";
		int fd[2];
		if (socketpair(AF_UNIX, SOCK_STREAM, 0, fd) != 0) return "err socketpair";
		std::atomic<bool> done(false);
		std::thread writer([&]() {
			std::string blk(1 << 20, 'a');
			for (int f = 0; f < nfrag; f++)
			{
				unsigned char h[10] = { (unsigned char)((f == 0 ? 2 : 0) | (f == nfrag - 1 ? 0x80 : 0)), 0x7f, 0, 0, 0, 0,
					(unsigned char)(len >> 24), (unsigned char)(len >> 16), (unsigned char)(len >> 8), (unsigned char)len };
				if (::send(fd[1], h, 10, MSG_NOSIGNAL) != 10) break;
				long long left = len;
				while (left > 0) {
					ssize_t n = ::send(fd[1], blk.data(), (size_t)(left < (long long)blk.size() ? left : (long long)blk.size()), MSG_NOSIGNAL);
					if (n <= 0) { left = -1; break; }
					left -= n;
				}
				if (left < 0) break;
			}
			shutdown(fd[1], SHUT_WR);
			done = true;
		});
		std::string out = "lens=";
		bool neg = false, closed = false, badalloc = false;
		g_maxAlloc = 0;
		try {
			WS ws(Socket(new Socket_(fd[0])), false);
			for (int k = 0; k < nfrag + 2; k++)
			{
				settle(fd[0], done);
				if (ws.closed()) break;
				WebSocketMsg m = ws.receive();
				if (m.length() < 0) { neg = true; break; }
				out += (k ? "," : "") + str(m.length());
			}
			closed = ws.closed();
		}
		catch (std::bad_alloc&) { badalloc = true; }
		::close(fd[1]);
		writer.join();
		if (neg) return "negative-length";
		if (badalloc) return "bad_alloc";
		std::string why;
		if (allocTooBig((size_t)len * (size_t)nfrag, why)) return why;
		return out + " closed=" + (closed ? "1" : "0");
	}
	if (op == "tcp" && t.size() >= 3 && (t.size() - 3) % 3 == 0)
	{
		// library client <-> library server over loopback TCP, both real handshakes
		std::string st = unhex(t[1]), path = unhex(t[2]);
		if (st.size() != 32) return "bad-op";
		std::vector<Step> script;
		for (size_t i = 3; i + 2 < t.size(); i += 3) {
			Step x; x.dir = t[i][0]; x.type = (int)num(t[i + 1]); x.data = unhex(t[i + 2]);
			if ((x.dir != 'u' && x.dir != 'd') || x.data.empty()) return "bad-op";
			script.push_back(x);
		}
		Socket listener;
		if (!listener.bind("127.0.0.1", 0)) return "err bind";
		listener.listen(1);
		int port = listener.localAddress().port();
		std::vector<std::string> cgot;
		bool connected = false, cneg = false;
		std::thread client([&]() {
			WS ws(Socket(), true);
			ws.setRng(st);
			connected = ws.connect(String("ws://127.0.0.1") + String(path.data(), (int)path.size()), port);
			if (!connected) return;
			for (size_t i = 0; i < script.size(); i++)
			{
				const Step& x = script[i];
				if (x.dir == 'u') {
					Exact d(x.data);
					ws.send((const byte*)d.p, (int)d.n, (WebSocket::FrameType)x.type);
				}
				else {
					WebSocketMsg m = ws.receive();
					if (m.length() < 0) { cneg = true; break; }
					ByteArray a = m;
					cgot.push_back(std::string((const char*)a.data(), (size_t)a.length()));
				}
			}
			ws.close();
		});
		ScriptSrv srv;
		srv.script = &script;
		{
			Socket s = listener.accept();
			static_cast<SocketServer&>(srv).serve(s);
		}
		client.join();
		listener.close();
		if (cneg || srv.negative) return "negative-length";
		return std::string("connect=") + (connected ? "1" : "0") + " s=" + showList(srv.got) + " c=" + showList(cgot);
	}
	if (op == "chs" && t.size() == 4)
	{
		// client handshake: the library's connect() against a raw listener on loopback that reads the request up to the
		// empty line, answers the given bytes and shuts its sending side down
		std::string st = unhex(t[1]), path = unhex(t[2]), resp = unhex(t[3]);
		if (st.size() != 32 || path.empty() || path[0] != '/') return "bad-op";
		int ls = ::socket(AF_INET, SOCK_STREAM, 0);
		if (ls < 0) return "err socket";
		struct sockaddr_in a;
		memset(&a, 0, sizeof a);
		a.sin_family = AF_INET;
		a.sin_addr.s_addr = htonl(INADDR_LOOPBACK);
		a.sin_port = 0;
		socklen_t alen = sizeof a;
		if (::bind(ls, (struct sockaddr*)&a, sizeof a) != 0 || ::listen(ls, 1) != 0 || getsockname(ls, (struct sockaddr*)&a, &alen) != 0) { ::close(ls); return "err bind"; }
		int port = ntohs(a.sin_port);
		std::string req;
		std::thread peer([&]() {
			struct pollfd p; p.fd = ls; p.events = POLLIN; p.revents = 0;
			if (poll(&p, 1, 20000) <= 0) return;
			int fd = ::accept(ls, 0, 0);
			if (fd < 0) return;
			char buf[4096];
			while (req.find("\r\n\r\n") == std::string::npos)
			{
				p.fd = fd; p.events = POLLIN; p.revents = 0;
				if (poll(&p, 1, 20000) <= 0) break;
				ssize_t n = ::read(fd, buf, sizeof buf);
				if (n <= 0) break;
				req.append(buf, (size_t)n);
			}
			size_t off = 0;
			while (off < resp.size())
			{
				ssize_t n = ::send(fd, resp.data() + off, resp.size() - off, MSG_NOSIGNAL);
				if (n <= 0) break;
				off += (size_t)n;
			}
			shutdown(fd, SHUT_WR);
			for (;;)
			{
				p.fd = fd; p.events = POLLIN; p.revents = 0;
				if (poll(&p, 1, 20000) <= 0) break;
				ssize_t n = ::read(fd, buf, sizeof buf);
				if (n <= 0) break;
				req.append(buf, (size_t)n);
			}
			::close(fd);
		});
		bool connected;
		{
			WS ws(Socket(), true);
			ws.setRng(st);
			connected = ws.connect(String("ws://127.0.0.1") + String(path.data(), (int)path.size()), port);
			ws.close();
		}
		peer.join();
		::close(ls);
		// the port is chosen by the system: checked here, printed as PORT
		std::string hostline = "Host: 127.0.0.1:" + str((long long)port) + "\r\n";
		size_t at = req.find(hostline);
		if (at == std::string::npos) return "host-line-missing " + hex(req);
		req.replace(at, hostline.size(), "Host: 127.0.0.1:PORT\r\n");
		return std::string("connect=") + (connected ? "1" : "0") + " req=" + hex(req);
	}
	return "bad-op";
}

int main()
{
	signal(SIGPIPE, SIG_IGN);
#if defined(__SANITIZE_ADDRESS__)
	__sanitizer_install_malloc_and_free_hooks(onMalloc, onFree);
#endif
	return run([]() {}, step);
}
