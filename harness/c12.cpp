// C12 correspondence harness: shared handles / atomic counters under a deterministic scheduler.
//   scen <kind> <maxsched> <prog0>|<prog1>|...   enumerate interleavings (DFS order) of the real library at its hook points
//   rec <kind>                                     record the atomic-step shape of every handle operation (single thread)
// kinds: array map hashmap shared smart (handle types), count (AtomicCount), atomic (Atomic<int>)
// program = comma separated ops: c<i> push a copy of handle i | x destroy the last handle | a<i><j> handle i = handle j
//           (indices modulo the current number of handles; ops on an empty handle list are skipped)
//           i / d : ++ / -- on the AtomicCount, p<n> : Atomic<int> += n, s<n> : -= n, I / P : ++x / x++, D / M : --x / x--
#include "common.h"
#include "vsched.h"
#include <asl/Array.h>
#include <asl/Map.h>
#include <asl/HashMap.h>
#include <asl/Pointer.h>
#include <asl/Shared.h>
#include <asl/Mutex.h>
#include <asl/atomic.h>
#include <algorithm>
#include <atomic>
#include <unistd.h>
#include <thread>
#include <set>
using namespace asl;
using namespace vh;

struct Op { char t; int i, j; };
typedef std::vector<Op> Prog;

static std::vector<Prog> parseProgs(const std::string& s)
{
	std::vector<Prog> ps;
	size_t a = 0;
	while (a <= s.size()) {
		size_t b = s.find('|', a);
		if (b == std::string::npos) b = s.size();
		std::string p = s.substr(a, b - a);
		Prog pr;
		size_t c = 0;
		while (c < p.size()) {
			size_t d = p.find(',', c);
			if (d == std::string::npos) d = p.size();
			std::string o = p.substr(c, d - c);
			if (!o.empty() && o != "-") {
				Op op = { o[0], 0, 0 };
				if ((o[0] == 'c' || o[0] == 'u') && o.size() > 1) op.i = o[1] - '0';
				if (o[0] == 'a' && o.size() > 2) { op.i = o[1] - '0'; op.j = o[2] - '0'; }
				if (o[0] == 'p' || o[0] == 's') op.i = atoi(o.c_str() + 1);
				pr.push_back(op);
			}
			c = d + 1;
		}
		ps.push_back(pr);
		a = b + 1;
	}
	return ps;
}

// payload element: counts constructions and destructions, so that "destroyed exactly once" is observable
struct Tracked {
	int v;
	static std::atomic<int> live;
	Tracked() : v(0) { live++; }
	Tracked(int x) : v(x) { live++; }
	Tracked(const Tracked& o) : v(o.v) { live++; }
	Tracked& operator=(const Tracked& o) { v = o.v; return *this; }
	~Tracked() { live--; }
};
std::atomic<int> Tracked::live(0);

typedef Array<Tracked> HArray;
typedef Map<int, Tracked> HMap;
typedef HashMap<int, Tracked> HHash;
typedef Shared<Tracked> HShared;

template<class H> struct Make;
template<> struct Make<HArray> {
	static HArray* make(int k) { HArray* a = new HArray; *a << Tracked(k) << Tracked(k + 1); return a; }
	static int sig(HArray* a) { return a->length() == 2 ? (*a)[0].v * 100 + (*a)[1].v : -1; }
};
template<> struct Make<HMap> {
	static HMap* make(int k) { HMap* a = new HMap; (*a)[k] = Tracked(k + 1); return a; }
	// no foreach here: an enumerator copies the handle, which would add reference-count steps of its own
	static int sig(HMap* a) { const HMap& m = *a; int s = m.length() * 1000; for (int k = 1; k <= 7; k += 6) { const Tracked* v = m.find(k); if (v) s += k * 100 + v->v; } return s; }
};
template<> struct Make<HHash> {
	static HHash* make(int k) { HHash* a = new HHash; (*a)[k] = Tracked(k + 1); (*a)[k + 256] = Tracked(k + 2); return a; }
	static int sig(HHash* a) { const HHash& m = *a; int s = m.length() * 100000; int ks[4] = { 1, 257, 7, 263 }; for (int i = 0; i < 4; i++) { const Tracked* v = m.find(ks[i]); if (v) s += ks[i] * 10 + v->v; } return s; }
};
template<> struct Make<HShared> {
	static HShared* make(int k) { return new HShared(new Tracked(k)); }
	static int sig(HShared* a) { return (**a).v; }
};
struct TObj : public SmartObject_ { Tracked t; TObj(int k) : t(k) {} };
template<> struct Make<SmartObject> {
	static SmartObject* make(int k) { return new SmartObject(new TObj(k)); }
	static int sig(SmartObject* a) { TObj* o = dynamic_cast<TObj*>(a->_p); return o ? o->t.v : -1; }
};

// the payload seen through a handle must be that of object A (built from 1) or of object B (built from 7)
template<class H>
static bool payloadOk(H* h)
{
	// the two reference signatures are computed on the first call with h == 0, outside any scheduled thread
	static int sa = -2, sb = -2;
	if (sa == -2) { H* A = Make<H>::make(1); H* B = Make<H>::make(7); sa = Make<H>::sig(A); sb = Make<H>::sig(B); delete A; delete B; }
	if (!h) return true;
	int s = Make<H>::sig(h);
	return s == sa || s == sb;
}
static std::atomic<int> payloadBad(0);

// addresses of the reference counters of the object behind handle h, in the order a copy increments them
template<class H>
static std::vector<const volatile void*> countersOf(H* h)
{
	vs::Sched& s = vs::S();
	s.record_only = true;
	s.trace.clear();
	H* c = new H(*h);
	std::vector<const volatile void*> r;
	for (size_t i = 0; i < s.trace.size(); i++) if (s.trace[i].kind == vs::K_INC) r.push_back(s.trace[i].addr);
	delete c;
	s.trace.clear();
	s.record_only = false;
	return r;
}

template<class H>
static void runProg(std::vector<H*>& hs, const Prog& p)
{
	for (size_t k = 0; k < p.size(); k++) {
		const Op& o = p[k];
		int n = (int)hs.size();
		if (n == 0) continue;
		if (o.t == 'c') hs.push_back(new H(*hs[o.i % n]));
		else if (o.t == 'x') { delete hs.back(); hs.pop_back(); }
		else if (o.t == 'a') *hs[o.i % n] = *hs[o.j % n];
		else if (o.t == 'u') { if (!payloadOk<H>(hs[o.i % n])) payloadBad++; }
	}
	while (!hs.empty()) { delete hs.back(); hs.pop_back(); }
}

template<class H>
static std::string scenHandles(const std::vector<Prog>& progs, int maxSched)
{
	std::set<std::string> outcomes;
	std::vector<int> prefix;
	int count = 0, deadlocks = 0;
	bool full = false;
	{ vs::Sched& s = vs::S(); s.record_only = true; payloadOk<H>((H*)0); s.trace.clear(); s.record_only = false; }
	for (;;) {
		H* A = Make<H>::make(1);
		H* B = Make<H>::make(7);
		std::vector<const volatile void*> ca = countersOf(A), cb = countersOf(B);
		int n = (int)progs.size();
		std::vector<std::vector<H*> > hs(n);
		for (int i = 0; i < n; i++) { hs[i].push_back(new H(*A)); hs[i].push_back(new H(*B)); }
		delete A;
		delete B;
		std::vector<std::function<void()> > bodies;
		for (int i = 0; i < n; i++)
			bodies.push_back([i, &hs, &progs]() { runProg<H>(hs[i], progs[i]); });
		bool dl = false;
		std::vector<vs::Decision> ds = vs::run(bodies, prefix, &dl);
		if (dl) deadlocks++;
		// frees per counter, from the recorded events
		std::string out = "A=";
		for (size_t k = 0; k < ca.size(); k++) {
			int f = 0;
			for (size_t e = 0; e < vs::S().trace.size(); e++) if (vs::S().trace[e].kind == vs::K_FREE && vs::S().trace[e].addr == ca[k]) f++;
			out += (k ? "," : "") + str(f);
		}
		out += " B=";
		for (size_t k = 0; k < cb.size(); k++) {
			int f = 0;
			for (size_t e = 0; e < vs::S().trace.size(); e++) if (vs::S().trace[e].kind == vs::K_FREE && vs::S().trace[e].addr == cb[k]) f++;
			out += (k ? "," : "") + str(f);
		}
		out += " c=0 v=0";
		if (Tracked::live != 0) out += " PAYLOAD-LIVE=" + str((int)Tracked::live);   // leaked or destroyed twice
		if (payloadBad != 0) { out += " PAYLOAD-CORRUPT"; payloadBad = 0; }
		outcomes.insert(out);
		count++;
		if (!vs::next_prefix(ds, prefix)) { full = true; break; }
		if (count >= maxSched) break;
	}
	std::string r = "sched=" + str(count) + " full=" + str(full ? 1 : 0) + " dl=" + str(deadlocks) + " out=";
	bool first = true;
	for (std::set<std::string>::iterator it = outcomes.begin(); it != outcomes.end(); ++it) { r += (first ? "" : "|") + *it; first = false; }
	return r;
}

static std::string scenCounters(const std::vector<Prog>& progs, int maxSched)
{
	std::set<std::string> outcomes;
	std::vector<int> prefix;
	int count = 0, deadlocks = 0;
	bool full = false;
	for (;;) {
		AtomicCount cnt(0);
		Atomic<int> var(0);
		std::vector<std::function<void()> > bodies;
		for (size_t i = 0; i < progs.size(); i++)
			bodies.push_back([i, &progs, &cnt, &var]() {
				const Prog& p = progs[i];
				for (size_t k = 0; k < p.size(); k++) {
					if (p[k].t == 'i') ++cnt;
					else if (p[k].t == 'd') --cnt;
					else if (p[k].t == 'p') var += p[k].i;
					else if (p[k].t == 's') var -= p[k].i;
					else if (p[k].t == 'I') ++var;
					else if (p[k].t == 'P') var++;
					else if (p[k].t == 'D') --var;
					else if (p[k].t == 'M') var--;
				}
			});
		bool dl = false;
		std::vector<vs::Decision> ds = vs::run(bodies, prefix, &dl);
		if (dl) deadlocks++;
		outcomes.insert("A= B= c=" + str((int)cnt) + " v=" + str((int)*var));
		count++;
		if (!vs::next_prefix(ds, prefix)) { full = true; break; }
		if (count >= maxSched) break;
	}
	std::string r = "sched=" + str(count) + " full=" + str(full ? 1 : 0) + " dl=" + str(deadlocks) + " out=";
	bool first = true;
	for (std::set<std::string>::iterator it = outcomes.begin(); it != outcomes.end(); ++it) { r += (first ? "" : "|") + *it; first = false; }
	return r;
}

// ---- shape recording (G): one operation, single thread, events mapped to (role, counter index)
template<class H>
static std::string evs(const std::vector<const volatile void*>& c0, const std::vector<const volatile void*>& c1)
{
	vs::Sched& s = vs::S();
	std::string r;
	for (size_t e = 0; e < s.trace.size(); e++) {
		int k = s.trace[e].kind;
		if (k != vs::K_INC && k != vs::K_DEC && k != vs::K_FREE) continue;
		int role = -1, idx = -1;
		for (size_t i = 0; i < c0.size(); i++) if (c0[i] == s.trace[e].addr) { role = 0; idx = (int)i; }
		for (size_t i = 0; i < c1.size(); i++) if (c1[i] == s.trace[e].addr) { role = 1; idx = (int)i; }
		r += (r.empty() ? "" : " ");
		r += (k == vs::K_INC ? "inc:" : k == vs::K_DEC ? "dec:" : "free:");
		r += role < 0 ? "?" : str(role) + "." + str(idx);
	}
	return r.empty() ? "-" : r;
}

template<class H>
static std::string recKind()
{
	vs::Sched& s = vs::S();
	std::string out;
	H* X = Make<H>::make(1);
	H* Y = Make<H>::make(7);
	std::vector<const volatile void*> cx = countersOf(X), cy = countersOf(Y);
	out += "counters=" + str((int)cx.size());
	// copy: role 0 = source
	s.record_only = true; s.trace.clear();
	H* c = new H(*X);
	out += " ; copy " + evs<H>(cx, cy);
	// drop while another handle exists
	s.trace.clear();
	delete c;
	out += " ; drop_notlast " + evs<H>(cx, cy);
	// assign, different objects: role 0 = destination's old object, role 1 = source (extra handles keep both alive)
	H* d = new H(*X);
	s.trace.clear();
	*d = *Y;
	out += " ; assign_diff " + evs<H>(cx, cy);
	// assign, same object through different handles
	H* e = new H(*Y);
	s.trace.clear();
	*d = *e;
	out += " ; assign_sameobj " + evs<H>(cy, cy);
	// self assignment
	s.trace.clear();
	*d = *d;
	out += " ; assign_self " + evs<H>(cy, cy);
	s.trace.clear();
	delete d; delete e;
	// drop of the last handle
	s.trace.clear();
	delete X;
	out += " ; drop_last " + evs<H>(cx, cy);
	s.trace.clear();
	delete Y;
	// assign where the destination holds the last handle to its object
	H* P = Make<H>::make(3);
	H* Q = Make<H>::make(9);
	std::vector<const volatile void*> cp = countersOf(P), cq = countersOf(Q);
	s.record_only = true; s.trace.clear();
	*P = *Q;
	out += " ; assign_diff_last " + evs<H>(cp, cq);
	s.trace.clear();
	delete P; delete Q;
	s.record_only = false; s.trace.clear();
	return out;
}

// ---- free-running contention (no scheduler): real races, judged by the final values
template<class H>
static std::string stressHandles(int nth, int iters)
{
	payloadOk<H>((H*)0);
	H* A = Make<H>::make(1);
	std::vector<H*> own(nth);
	for (int i = 0; i < nth; i++) own[i] = new H(*A);
	delete A;
	std::vector<std::thread> th;
	for (int i = 0; i < nth; i++)
		th.push_back(std::thread([i, iters, &own]() {
			for (int k = 0; k < iters; k++) {
				H* c = new H(*own[i]);
				H d(*c);
				if (!payloadOk<H>(&d)) payloadBad++;
				*c = d;
				*c = *own[i];
				if ((k & 7) == 0 && !payloadOk<H>(c)) payloadBad++;
				delete c;
			}
			delete own[i];
		}));
	for (int i = 0; i < nth; i++) th[i].join();
	if (payloadBad != 0) { payloadBad = 0; return "payload-corrupt"; }
	if (Tracked::live != 0) return "payload-live=" + str((int)Tracked::live) + " (leaked or destroyed twice)";
	return "ok";
}


// ---- further handle operations found missing by the defect hunt (free-running, judged by final values)
struct CBase { int v; Tracked t; CBase() : v(5), t(9) {} virtual ~CBase() {} };
struct CDer : public CBase { int d; CDer() : d(3) {} };

// converting copies Shared<Der> -> Shared<Base> by several threads on one object, and as<Der>() back
static std::string stressConv(int nth, int iters)
{
	Shared<CDer>* A = new Shared<CDer>(new CDer);
	CDer* addr = A->get();
	std::vector<Shared<CDer>*> own(nth);
	for (int i = 0; i < nth; i++) own[i] = new Shared<CDer>(*A);
	delete A;
	std::atomic<long long> sum(0);
	std::atomic<int> moved(0);
	std::vector<std::thread> th;
	for (int i = 0; i < nth; i++)
		th.push_back(std::thread([i, iters, &own, &sum, &moved, addr]() {
			for (int k = 0; k < iters; k++) {
				Shared<CBase> b(*own[i]);
				Shared<CBase> c;
				c = *own[i];
				sum += b->v + c->v;
				if (own[i]->get() != addr) moved++;
				if ((k & 3) == 0) { Shared<CDer> back = b.as<CDer>(); sum += back->d; }
			}
			delete own[i];
		}));
	for (int i = 0; i < nth; i++) th[i].join();
	long long want = (long long)nth * iters * 10 + (long long)nth * ((iters + 3) / 4) * 3;
	if (moved != 0) return "converting copy redirected an existing handle " + str((int)moved) + " times";
	if (sum != want) return "wrong payload sum " + str((long long)sum) + " expected " + str(want);
	if (Tracked::live != 0) return "payload-live=" + str((int)Tracked::live) + " (leaked or destroyed twice)";
	return "ok";
}

// SmartObject clones: every clone is a new object that dies with its last handle
struct TObjC : public SmartObject_ { Tracked t; TObjC() : t(4) {} SmartObject_* clone() const { return new TObjC(*this); } };
static std::string cloneCheck(int nth, int iters)
{
	SmartObject* A = new SmartObject(new TObjC);
	std::vector<std::thread> th;
	for (int i = 0; i < nth; i++)
		th.push_back(std::thread([iters, A]() {
			for (int k = 0; k < iters; k++) {
				SmartObject h(*A);
				SmartObject c = h.clone();
				SmartObject c2 = c;
				SmartObject c3 = c2.clone();
			}
		}));
	for (int i = 0; i < nth; i++) th[i].join();
	delete A;
	if (Tracked::live != 0) return "payload-live=" + str((int)Tracked::live) + " (a clone was never destroyed, or destroyed twice)";
	return "ok";
}

// Atomic<T> copy assignment next to a thread that keeps the source busy; a watchdog turns a deadlock into a result
static std::string atomicAssign(int iters)
{
	static Atomic<int> src(0);
	static std::atomic<bool> stop;
	static std::atomic<int> progress;
	stop = false; progress = 0;
	std::thread inc([]() { while (!stop) ++src; });
	std::thread worker([iters]() { for (int i = 0; i < iters; i++) { Atomic<int> b(0); b = src; ++b; b = b; progress = i + 1; } });
	double t0 = now();
	int last = -1;
	for (;;) {
		usleep(100000);
		int p = progress;
		if (p >= iters) break;
		if (p != last) { last = p; t0 = now(); }
		else if (now() - t0 > 20.0) {
			printf("deadlock: Atomic<T> copy assignment made no progress for 20 s after %d iterations\n", p);
			fflush(stdout);
			_exit(0);
		}
	}
	stop = true;
	worker.join();
	inc.join();
	return "ok";
}

static std::string stressCount(int nth, int iters)
{
	AtomicCount cnt(0);
	Atomic<int> var(0);
	std::vector<std::thread> th;
	for (int i = 0; i < nth; i++)
		th.push_back(std::thread([i, iters, &cnt, &var]() {
			for (int k = 0; k < iters; k++) {
				++cnt;
				if ((k & 3) == 3) --cnt;
				if ((k & 15) == 0) var += (i + 1);
			}
		}));
	for (int i = 0; i < nth; i++) th[i].join();
	long long expc = (long long)nth * (iters - iters / 4);
	long long expv = 0;
	for (int i = 0; i < nth; i++) expv += (long long)(i + 1) * ((iters + 15) / 16);
	if ((int)cnt != expc) return "lost-update AtomicCount=" + str((int)cnt) + " expected=" + str(expc);
	if ((int)*var != expv) return "lost-update Atomic<int>=" + str((int)*var) + " expected=" + str(expv);
	return "ok";
}


// ---- shape of every Atomic<T> operator (G): which mutex steps surround the access, and the value it computes
static std::string recAtomicOps()
{
	vs::Sched& s = vs::S();
	std::string out;
	Atomic<int> v(5);
	int sink = 0;
	const volatile void* mtx = 0;
#define REC(name, stmt, expectVal) { \
		s.record_only = true; s.trace.clear(); stmt; \
		std::string e; \
		for (size_t i = 0; i < s.trace.size(); i++) { \
			int k = s.trace[i].kind; \
			if (k == vs::K_LOCK || k == vs::K_UNLOCK) { if (!mtx) mtx = s.trace[i].addr; } \
			e += (e.empty() ? "" : ":"); \
			e += (k == vs::K_LOCK && s.trace[i].addr == mtx) ? "lock" : (k == vs::K_UNLOCK && s.trace[i].addr == mtx) ? "unlock" : "other"; \
		} \
		s.trace.clear(); s.record_only = false; \
		out += std::string(out.empty() ? "" : " ; ") + name + " " + (e.empty() ? "-" : e) + " " + str((int)(*v)) + "/" + str(sink) + "/" + str((int)(expectVal)); }
	REC("assign", v = 7, 7)
	REC("read", sink = ~v, 7)
	REC("conv", sink = (int)v, 7)
	REC("not", sink = !v, 7)
	REC("bool", sink = (bool)v, 7)
	REC("eq", sink = (v == 7), 7)
	REC("ne", sink = (v != 7), 7)
	REC("lt", sink = (v < 8), 7)
	REC("le", sink = (v <= 7), 7)
	REC("gt", sink = (v > 6), 7)
	REC("ge", sink = (v >= 7), 7)
	REC("neg", sink = -v, 7)
	REC("preinc", sink = ++v, 8)
	REC("postinc", sink = v++, 9)
	REC("predec", sink = --v, 8)
	REC("postdec", sink = v--, 7)
	REC("add", v += 5, 12)
	REC("sub", v -= 2, 10)
	REC("mul", v *= 3, 30)
	REC("div", v /= 5, 6)
#undef REC
	// copy assignment and copy construction from another Atomic (two variables, two mutexes): the source is read under
	// ITS mutex, the destination written under its own, never both held together; the copy has a fresh, unlocked mutex
	{
		Atomic<int> w(3);
		const volatile void* mv = mtx;      // v's mutex, identified by the operators above
		s.record_only = true; s.trace.clear();
		v = w;
		std::string e; const volatile void* mw = 0;
		for (size_t i = 0; i < s.trace.size(); i++) {
			int k = s.trace[i].kind;
			if (k != vs::K_LOCK && k != vs::K_UNLOCK) { e += (e.empty() ? "" : ":") + std::string("other"); continue; }
			if (s.trace[i].addr != mv && !mw) mw = s.trace[i].addr;
			e += (e.empty() ? "" : ":");
			e += s.trace[i].addr == mv ? (k == vs::K_LOCK ? "lock" : "unlock") : s.trace[i].addr == mw ? (k == vs::K_LOCK ? "lockSrc" : "unlockSrc") : "other";
		}
		s.trace.clear(); s.record_only = false;
		out += " ; copyassign " + (e.empty() ? std::string("-") : e) + " " + str((int)(*v)) + "/0/3";
		s.record_only = true; s.trace.clear();
		Atomic<int> c(w);
		e.clear();
		for (size_t i = 0; i < s.trace.size(); i++) {
			int k = s.trace[i].kind;
			e += (e.empty() ? "" : ":");
			e += (k == vs::K_LOCK && s.trace[i].addr == mw) ? "lockSrc" : (k == vs::K_UNLOCK && s.trace[i].addr == mw) ? "unlockSrc" : "other";
		}
		s.trace.clear();
		// the copy's own mutex must be usable at once (735352c: it is not a byte copy of a possibly locked one)
		++c;
		bool own = false;
		for (size_t i = 0; i < s.trace.size(); i++) if (s.trace[i].kind == vs::K_LOCK && s.trace[i].addr != mw && s.trace[i].addr != mv) own = true;
		s.trace.clear(); s.record_only = false;
		out += " ; copyctor " + (e.empty() ? std::string("-") : e) + (own ? ":ownMutex" : "") + " " + str((int)(*c)) + "/0/4";
	}
	return out;
}

// ---- handles stored inside shared objects: nest <kind> <descr> <roots> <ops>
//   descr = blocks separated by '/', each the comma list of the blocks its stored handles point to ('-' = none; only
//   to higher-numbered blocks, so that a block is complete before a handle to it is taken); roots = comma list;
//   ops = ';' list of `x` (the last variable goes out of scope) or `<path>=<path>`, path = r<i>[.<e>]*  ('-' = none)
// prints how often each block was released after the ops, and after all variables have gone
struct NA { int id; Array<NA> kids; NA(int x = 0) : id(x) {} };
struct NM { int id; Map<int, NM> kids; NM(int x = 0) : id(x) {} };
struct NH { int id; HashMap<int, NH> kids; NH(int x = 0) : id(x) {} };
struct NS { int id; int n; Shared<NS> kids[8]; NS(int x = 0) : id(x), n(0) {} };
struct NO_ : public SmartObject_ { int id; int n; SmartObject kids[8]; NO_() : id(0), n(0) {} };

template<class H> struct Nest;
template<> struct Nest<Array<NA> > {
	typedef Array<NA> H;
	static H make() { return H(); }
	static void add(H& h, int e, const H& target) { NA n(e); n.kids = target; h << n; }
	static int count(H& h) { return h.length(); }
	static H* inner(H& h, int e) { return &h[e].kids; }
	static int id(H& h, int e) { return h[e].id; }
};
template<> struct Nest<Map<int, NM> > {
	typedef Map<int, NM> H;
	static H make() { return H(); }
	static void add(H& h, int e, const H& target) { NM n(e); n.kids = target; h[e] = n; }
	static int count(H& h) { return h.length(); }
	static H* inner(H& h, int e) { return &h[e].kids; }
	static int id(H& h, int e) { return h[e].id; }
};
template<> struct Nest<HashMap<int, NH> > {
	typedef HashMap<int, NH> H;
	static H make() { return H(); }
	static void add(H& h, int e, const H& target) { NH n(e); n.kids = target; h[e] = n; }
	static int count(H& h) { return h.length(); }
	static H* inner(H& h, int e) { return &h[e].kids; }
	static int id(H& h, int e) { return h[e].id; }
};
template<> struct Nest<Shared<NS> > {
	typedef Shared<NS> H;
	static H make() { return H(new NS); }
	static void add(H& h, int e, const H& target) { h->kids[h->n] = target; h->n++; (void)e; }
	static int count(H& h) { return h->n; }
	static H* inner(H& h, int e) { return &h->kids[e]; }
	static int id(H& h, int e) { return e + h->id; }
};
template<> struct Nest<SmartObject> {
	typedef SmartObject H;
	static NO_* o(H& h) { return static_cast<NO_*>(h._p); }
	static H make() { return H(new NO_); }
	static void add(H& h, int e, const H& target) { o(h)->kids[o(h)->n] = target; o(h)->n++; (void)e; }
	static int count(H& h) { return o(h)->n; }
	static H* inner(H& h, int e) { return &o(h)->kids[e]; }
	static int id(H& h, int e) { return e + o(h)->id; }
};

static bool parseInts(const std::string& s, char sep, std::vector<int>& out)
{
	out.clear();
	if (s == "-") return true;
	size_t a = 0;
	while (a <= s.size()) {
		size_t b = s.find(sep, a);
		if (b == std::string::npos) b = s.size();
		std::string t = s.substr(a, b - a);
		if (t.empty() || t.find_first_not_of("0123456789") != std::string::npos || t.size() > 6) return false;
		out.push_back(atoi(t.c_str()));
		a = b + 1;
	}
	return true;
}

static std::vector<std::string> splitStr(const std::string& s, char sep)
{
	std::vector<std::string> r;
	size_t a = 0;
	while (a <= s.size()) {
		size_t b = s.find(sep, a);
		if (b == std::string::npos) b = s.size();
		r.push_back(s.substr(a, b - a));
		a = b + 1;
	}
	return r;
}

template<class H>
static H* resolvePath(std::vector<H*>& roots, const std::string& p)
{
	std::vector<std::string> parts = splitStr(p, '.');
	if (parts.empty() || parts[0].size() < 2 || parts[0][0] != 'r') return 0;
	std::vector<int> idx;
	if (!parseInts(parts[0].substr(1), ',', idx) || idx.size() != 1) return 0;
	if (idx[0] >= (int)roots.size()) return 0;
	H* cur = roots[idx[0]];
	for (size_t k = 1; k < parts.size(); k++) {
		std::vector<int> e;
		if (!parseInts(parts[k], ',', e) || e.size() != 1) return 0;
		if (e[0] >= Nest<H>::count(*cur)) return 0;
		cur = Nest<H>::inner(*cur, e[0]);
	}
	return cur;
}

template<class H>
static long touchAll(H& h, int& budget)
{
	long s = 0;
	int n = Nest<H>::count(h);
	for (int e = 0; e < n && budget > 0; e++) {
		budget--;
		s += Nest<H>::id(h, e);
		s += touchAll(*Nest<H>::inner(h, e), budget);
	}
	return s;
}

template<class H>
static std::string nestRun(const std::string& descrS, const std::string& rootsS, const std::string& opsS)
{
	std::vector<std::vector<int> > descr;
	std::vector<std::string> bl = splitStr(descrS, '/');
	for (size_t b = 0; b < bl.size(); b++) {
		std::vector<int> v;
		if (!parseInts(bl[b], ',', v) || v.size() > 8) return "bad-op";
		for (size_t i = 0; i < v.size(); i++) if (v[i] <= (int)b || v[i] >= (int)bl.size()) return "bad-op";
		descr.push_back(v);
	}
	std::vector<int> rootT;
	if (!parseInts(rootsS, ',', rootT)) return "bad-op";
	for (size_t i = 0; i < rootT.size(); i++) if (rootT[i] >= (int)descr.size()) return "bad-op";
	int n = (int)descr.size();
	vs::Sched& s = vs::S();
	s.record_only = true;
	std::vector<H>* blk = new std::vector<H>();
	for (int b = 0; b < n; b++) blk->push_back(Nest<H>::make());
	for (int b = n - 1; b >= 0; b--)
		for (size_t e = 0; e < descr[b].size(); e++) Nest<H>::add((*blk)[b], (int)e, (*blk)[descr[b][e]]);
	std::vector<H*> roots;
	for (size_t i = 0; i < rootT.size(); i++) roots.push_back(new H((*blk)[rootT[i]]));
	std::vector<const volatile void*> cnt;
	for (int b = 0; b < n; b++) { std::vector<const volatile void*> c = countersOf(&(*blk)[b]); cnt.push_back(c.empty() ? (const volatile void*)0 : c[0]); }
	s.record_only = true;
	s.trace.clear();
	delete blk;                       // the construction handles go
	std::vector<std::string> ops = opsS == "-" ? std::vector<std::string>() : splitStr(opsS, ';');
	for (size_t k = 0; k < ops.size(); k++) {
		if (ops[k] == "x") { if (!roots.empty()) { delete roots.back(); roots.pop_back(); } continue; }
		size_t eq = ops[k].find('=');
		if (eq == std::string::npos) { s.record_only = false; return "bad-op"; }
		H* dst = resolvePath(roots, ops[k].substr(0, eq));
		H* src = resolvePath(roots, ops[k].substr(eq + 1));
		if (!dst || !src) continue;
		*dst = *src;
	}
	long sum = 0;
	for (size_t i = 0; i < roots.size(); i++) { int budget = 4000; sum += touchAll(*roots[i], budget); }
	std::string out = "frees=";
	for (int pass = 0; pass < 2; pass++) {
		for (int b = 0; b < n; b++) {
			int f = 0;
			for (size_t e = 0; e < s.trace.size(); e++) if (s.trace[e].kind == vs::K_FREE && s.trace[e].addr == cnt[b]) f++;
			out += (b ? "," : "") + str(f);
		}
		if (pass == 0) {
			while (!roots.empty()) { delete roots.back(); roots.pop_back(); }
			out += " end=";
		}
	}
	s.trace.clear();
	s.record_only = false;
	return sum < 0 ? out + " ?" : out;
}

static std::string step(const Toks& t)
{
	if (t[0] == "stress" && t.size() == 4) {
		int nth = (int)num(t[2]), it = (int)num(t[3]);
#ifdef ASL_VERIF
		asl_verif_hook() = 0;
#endif
		std::string r = "bad-op";
		if (t[1] == "array") r = stressHandles<HArray >(nth, it);
		else if (t[1] == "map") r = stressHandles<HMap >(nth, it);
		else if (t[1] == "hashmap") r = stressHandles<HHash >(nth, it);
		else if (t[1] == "shared") r = stressHandles<HShared >(nth, it);
		else if (t[1] == "smart") r = stressHandles<SmartObject>(nth, it);
		else if (t[1] == "count") r = stressCount(nth, it);
		else if (t[1] == "conv") r = stressConv(nth, it);
		else if (t[1] == "clone") r = cloneCheck(nth, it);
		else if (t[1] == "aassign") r = atomicAssign(it);
		vs::install();
		return r;
	}
	if (t[0] == "scen" && t.size() == 4) {
		int maxs = (int)num(t[2]);
		std::vector<Prog> ps = parseProgs(t[3]);
		if (t[1] == "array") return scenHandles<HArray >(ps, maxs);
		if (t[1] == "map") return scenHandles<HMap >(ps, maxs);
		if (t[1] == "hashmap") return scenHandles<HHash >(ps, maxs);
		if (t[1] == "shared") return scenHandles<HShared >(ps, maxs);
		if (t[1] == "smart") return scenHandles<SmartObject>(ps, maxs);
		if (t[1] == "count" || t[1] == "atomic") return scenCounters(ps, maxs);
		return "bad-op";
	}
	if (t[0] == "nest" && t.size() == 5) {
		if (t[1] == "array") return nestRun<Array<NA> >(t[2], t[3], t[4]);
		if (t[1] == "map") return nestRun<Map<int, NM> >(t[2], t[3], t[4]);
		if (t[1] == "hashmap") return nestRun<HashMap<int, NH> >(t[2], t[3], t[4]);
		if (t[1] == "shared") return nestRun<Shared<NS> >(t[2], t[3], t[4]);
		if (t[1] == "smart") return nestRun<SmartObject>(t[2], t[3], t[4]);
		return "bad-op";
	}
	if (t[0] == "rec" && t.size() == 2) {
		if (t[1] == "array") return recKind<HArray >();
		if (t[1] == "map") return recKind<HMap >();
		if (t[1] == "hashmap") return recKind<HHash >();
		if (t[1] == "shared") return recKind<HShared >();
		if (t[1] == "smart") return recKind<SmartObject>();
		if (t[1] == "atomicops") return recAtomicOps();
		return "bad-op";
	}
	return "bad-op";
}

int main()
{
	vs::install();
	return run([]() {}, step);
}
