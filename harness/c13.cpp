// C13 correspondence harness: Thread start/join, parallel_for, ThreadGroup, parallel_invoke, Semaphore, Condition.
//   pfrow <i0> <nth> <lo> <hi>        parallel_for(i0, i1, f, nth) for every i1 in [lo,hi]: which indices ran, how often, grouped by thread
//   thr <kind> <n> <reps>              kind: sub lam sst grp inv cpy cpd cpj reap  -> ran counts and finished() after join, worst over reps
//   sem <ops>                          p = post, w = trywait  (single thread)  -> successes and final value
//   semc <prod> <cons> <k>             concurrent posts and blocking waits, all must return
//   cond <waiters> <reps>              documented condition-variable protocol, every waiter must return
//   condt <u|t per waiter> <reps> <timeout ms>   the same with timed waiters; signal only once all are blocked
//   condx <u|t|l per waiter> <delay us> <timeout ms>   timed waits that run out, waiters that give up (t) or loop again (l); logs every step under the mutex
//   pfs <i0> <i1> <nth> <max>          all interleavings of parallel_for at the hook points (deterministic scheduler), traces
//   ths <kind> <n> <max>               same for thread kinds
#include "common.h"
#include "vsched.h"
#include <asl/Thread.h>
#include <asl/Mutex.h>
#include <asl/Array.h>
#include <algorithm>
#include <set>
#include <map>
using namespace asl;
using namespace vh;

static unsigned long long rngState = 88172645463325252ull;
static unsigned rnd() { rngState ^= rngState << 13; rngState ^= rngState >> 7; rngState ^= rngState << 17; return (unsigned)(rngState >> 11); }

struct Cell { volatile int count; volatile unsigned long who; };

static std::string pfOne(int i0, int i1, int nth)
{
	int len = i1 > i0 ? i1 - i0 : 0;
	std::vector<Cell> cells(len + 8);
	for (size_t k = 0; k < cells.size(); k++) { cells[k].count = 0; cells[k].who = 0; }
	volatile int outside = 0;
	Cell* base = &cells[4];
	Thread::parallel_for(i0, i1, [=, &outside](int i) {
		long long off = (long long)i - i0;
		if (off < -4 || off >= len + 4) { __sync_add_and_fetch(&outside, 1); return; }
		__sync_add_and_fetch(&base[off].count, 1);
		base[off].who = (unsigned long)pthread_self();
	}, nth);
	std::string r;
	if (outside) r += "outside=" + str(outside) + " ";
	for (int off = -4; off < len + 4; off++)
		if ((off < 0 || off >= len) && base[off].count) r += "extra" + str(i0 + off) + " ";
	// group indices by executing thread, groups ordered by their first index
	std::map<unsigned long, std::vector<int> > g;
	for (int off = 0; off < len; off++) {
		if (base[off].count != 1) r += "count(" + str(i0 + off) + ")=" + str(base[off].count) + " ";
		if (base[off].count >= 1) g[(unsigned long)base[off].who].push_back(i0 + off);
	}
	std::vector<std::vector<int> > gs;
	for (std::map<unsigned long, std::vector<int> >::iterator it = g.begin(); it != g.end(); ++it) gs.push_back(it->second);
	std::sort(gs.begin(), gs.end());
	for (size_t a = 0; a < gs.size(); a++) {
		r += "[";
		for (size_t b = 0; b < gs[a].size(); b++) r += (b ? "," : "") + str(gs[a][b]);
		r += "]";
	}
	return r.empty() ? "-" : r;
}

struct SubThread : public Thread { volatile int* ran; SubThread() : ran(0) {} void run() { __sync_add_and_fetch(ran, 1); } };

struct SlowThread : public Thread { volatile int* ran; int us; SlowThread() : ran(0), us(1500) {} void run() { usleep(us); __sync_add_and_fetch(ran, 1); } };

static void jitter() { unsigned r = rnd() % 8; if (r == 0) usleep(rnd() % 200); else if (r < 3) sched_yield(); }

// returns "ran=.. fin=.." for n tasks
static std::string thrOnce(const std::string& kind, int n)
{
	std::vector<int> ran(n + 1, 0);
	std::vector<int> fin(n + 1, 1);
	volatile int* r = (volatile int*)&ran[0];
	if (kind == "sub") {
		std::vector<SubThread*> ts;
		for (int i = 0; i < n; i++) { ts.push_back(new SubThread); ts[i]->ran = r + i; }
		for (int i = 0; i < n; i++) { ts[i]->start(); jitter(); }
		for (int i = 0; i < n; i++) { ts[i]->join(); fin[i] = ts[i]->finished() ? 1 : 0; }
		for (int i = 0; i < n; i++) delete ts[i];
	}
	else if (kind == "lam") {
		std::vector<Thread*> ts;
		for (int i = 0; i < n; i++) { ts.push_back(new Thread([r, i]() { __sync_add_and_fetch(r + i, 1); })); jitter(); }
		for (int i = 0; i < n; i++) { ts[i]->join(); fin[i] = ts[i]->finished() ? 1 : 0; }
		for (int i = 0; i < n; i++) delete ts[i];
	}
	else if (kind == "sst") {
		// static start(f, &t): the returned object holds the handle ("copying a Thread transfers the handle"); join through it,
		// then finished() must be true through the returned object AND through the object that was handed in (shared flag)
		std::vector<Thread*> ts, rs;
		for (int i = 0; i < n; i++) { ts.push_back(new Thread); rs.push_back(new Thread(Thread::start([r, i]() { jitter(); __sync_add_and_fetch(r + i, 1); }, ts[i]))); jitter(); }
		for (int i = 0; i < n; i++) { rs[i]->join(); fin[i] = (rs[i]->finished() && ts[i]->finished()) ? 1 : 0; }
		for (int i = 0; i < n; i++) { delete rs[i]; delete ts[i]; }
	}
	else if (kind == "cpy") {
		// a running function thread is copied (the copy takes over the handle); join and finished() through the copy
		std::vector<Thread*> ts, cs;
		for (int i = 0; i < n; i++) { ts.push_back(new Thread([r, i]() { jitter(); __sync_add_and_fetch(r + i, 1); })); cs.push_back(new Thread(*ts[i])); jitter(); }
		for (int i = 0; i < n; i++) { cs[i]->join(); fin[i] = cs[i]->finished() ? 1 : 0; }
		for (int i = 0; i < n; i++) { delete cs[i]; delete ts[i]; }
	}
	else if (kind == "cpd") {
		// as cpy, but the original object is destroyed while its worker is still running
		std::vector<Thread*> cs;
		for (int i = 0; i < n; i++) { Thread* o = new Thread([r, i]() { usleep(2000 + 700 * i); __sync_add_and_fetch(r + i, 1); }); cs.push_back(new Thread(*o)); delete o; jitter(); }
		for (int i = 0; i < n; i++) { cs[i]->join(); fin[i] = cs[i]->finished() ? 1 : 0; }
		for (int i = 0; i < n; i++) delete cs[i];
	}
	else if (kind == "cpj") {
		// copies made AFTER join (by construction, by assignment, into an Array): finished() must be true through every copy
		for (int i = 0; i < n; i++) {
			Thread a([r, i]() { __sync_add_and_fetch(r + i, 1); });
			a.join();
			Thread b(a);
			Thread c; c = b;
			Array<Thread> v; v << c;
			fin[i] = (b.finished() && c.finished() && v[0].finished() && a.finished()) ? 1 : 0;
		}
	}
	else if (kind == "reap") {
		// an owner that never joins: it polls finished() and deletes the thread object as soon as it is true
		// (n reapers side by side, so that workers do get descheduled between their last steps)
		std::vector<std::thread> owners;
		volatile int* fp = (volatile int*)&fin[0];
		for (int i = 0; i < n; i++) owners.push_back(std::thread([r, fp, i]() {
			SubThread* w = new SubThread; w->ran = r + i;
			w->start();
			while (!w->finished()) {}
			fp[i] = w->finished() ? 1 : 0;
			delete w;
		}));
		for (int i = 0; i < n; i++) owners[i].join();
	}
	else if (kind == "grp") {
		ThreadGroup<SubThread> g;
		for (int i = 0; i < n; i++) { SubThread t; t.ran = r + i; g << t; }
		g.start();
		jitter();
		g.join();
		for (int i = 0; i < n; i++) fin[i] = g._threads[i].finished() ? 1 : 0;
	}
	else if (kind == "grp3") {
		// the SAME group started and joined three times (members keep their finished flag from the earlier round): after every
		// join each member must have completed exactly that many runs; ran = 1 iff that held in all three rounds
		ThreadGroup<SlowThread> g;
		std::vector<int> cnt(n + 1, 0);
		volatile int* c = (volatile int*)&cnt[0];
		for (int i = 0; i < n; i++) { SlowThread t; t.ran = c + i; t.us = 800 + 500 * (i % 4); g << t; }
		std::vector<int> okr(n + 1, 0);
		for (int round = 1; round <= 3; round++) {
			g.start();
			jitter();
			g.join();
			for (int i = 0; i < n; i++) { if (c[i] == round) okr[i]++; fin[i] = fin[i] && g._threads[i].finished() ? 1 : 0; }
		}
		usleep(4000);   // let late members end before the counters go out of scope
		for (int i = 0; i < n; i++) ran[i] = okr[i] == 3 ? 1 : (int)c[i] * 10 + okr[i];
	}
	else if (kind == "invs") {
		// parallel_invoke with one slow function, each position in turn: at return EVERY function must have run (ran = 1 iff so in all turns)
		std::vector<int> okr(n + 1, 0);
		for (int slow = 0; slow < n; slow++) {
			std::vector<int> c(n + 1, 0);
			volatile int* q = (volatile int*)&c[0];
			auto f = [q, slow](int i) { if (i == slow) usleep(4000); __sync_add_and_fetch(q + i, 1); };
			if (n == 2) Thread::parallel_invoke([f]() { f(0); }, [f]() { f(1); });
			else if (n == 3) Thread::parallel_invoke([f]() { f(0); }, [f]() { f(1); }, [f]() { f(2); });
			else if (n == 4) Thread::parallel_invoke([f]() { f(0); }, [f]() { f(1); }, [f]() { f(2); }, [f]() { f(3); });
			else return "bad-op";
			for (int i = 0; i < n; i++) if (q[i] == 1) okr[i]++;
			usleep(6000);   // let a function that was not waited for end before its counters go out of scope
		}
		for (int i = 0; i < n; i++) ran[i] = okr[i] == n ? 1 : okr[i] * 10;
	}
	else if (kind == "inv") {
		if (n == 2) Thread::parallel_invoke([r]() { __sync_add_and_fetch(r + 0, 1); }, [r]() { __sync_add_and_fetch(r + 1, 1); });
		else if (n == 3) Thread::parallel_invoke([r]() { __sync_add_and_fetch(r + 0, 1); }, [r]() { __sync_add_and_fetch(r + 1, 1); }, [r]() { __sync_add_and_fetch(r + 2, 1); });
		else if (n == 4) Thread::parallel_invoke([r]() { __sync_add_and_fetch(r + 0, 1); }, [r]() { __sync_add_and_fetch(r + 1, 1); }, [r]() { __sync_add_and_fetch(r + 2, 1); }, [r]() { __sync_add_and_fetch(r + 3, 1); });
		else return "bad-op";
	}
	else return "bad-op";
	std::string s = "ran=";
	for (int i = 0; i < n; i++) s += (i ? "," : "") + str(ran[i]);
	s += " fin=";
	for (int i = 0; i < n; i++) s += (i ? "," : "") + str(fin[i]);
	return s;
}

static std::string evName(const vs::Ev& e)
{
	const char* k = e.kind == vs::K_SPAWN ? "S" : e.kind == vs::K_BEGIN ? "B" : e.kind == vs::K_READY ? "R" : e.kind == vs::K_SPIN ? "P" :
	                e.kind == vs::K_END ? "E" : e.kind == vs::K_JOIN ? "J" : 0;
	if (!k) return "";
	return (e.tid == 0 ? std::string("c") : "w" + str(e.tid - 1)) + k;
}

// enumerate interleavings of `body` run as the controlled creator thread; library threads are adopted at BEGIN
static std::string schedEnum(std::function<std::string()> body, int maxSched)
{
	std::set<std::string> traces;
	std::vector<int> prefix;
	int count = 0, deadlocks = 0, badRuns = 0;
	bool full = false;
	std::string firstBad;
	vs::S().adopt = true;
	for (;;) {
		std::string result;
		std::vector<std::function<void()> > bodies;
		bodies.push_back([&]() { result = body(); });
		bool dl = false;
		std::vector<vs::Decision> ds = vs::run(bodies, prefix, &dl);
		if (dl) deadlocks++;
		std::string tr;
		for (size_t e = 0; e < vs::S().trace.size(); e++) { std::string n = evName(vs::S().trace[e]); if (!n.empty()) tr += (tr.empty() ? "" : ",") + n; }
		traces.insert(tr + "=>" + result);
		count++;
		if (!vs::next_prefix(ds, prefix)) { full = true; break; }
		if (count >= maxSched) break;
	}
	vs::S().adopt = false;
	std::string r = "sched=" + str(count) + " full=" + str(full ? 1 : 0) + " dl=" + str(deadlocks) + " traces=";
	bool first = true;
	for (std::set<std::string>::iterator it = traces.begin(); it != traces.end(); ++it) { r += (first ? "" : ";") + *it; first = false; }
	return r;
}

static std::string step(const Toks& t)
{
	if (t[0] == "seed" && t.size() == 2) { rngState = 88172645463325252ull ^ (unsigned long long)num(t[1]) * 0x9E3779B97F4A7C15ull; if (!rngState) rngState = 1; return "ok"; }
	if (t[0] == "pfrow" && t.size() == 5) {
		int i0 = (int)num(t[1]), nth = (int)num(t[2]), lo = (int)num(t[3]), hi = (int)num(t[4]);
		std::string r;
		for (int i1 = lo; i1 <= hi; i1++) r += (r.empty() ? "" : " ") + str(i1) + ":" + pfOne(i0, i1, nth);
		return r;
	}
	if (t[0] == "pfx" && t.size() == 4) return pfOne((int)num(t[1]), (int)num(t[2]), (int)num(t[3]));
	if (t[0] == "thr" && t.size() == 4) {
		int n = (int)num(t[2]), reps = (int)num(t[3]);
		std::string first;
		for (int k = 0; k < reps; k++) {
			std::string r = thrOnce(t[1], n);
			if (k == 0) first = r;
			else if (r != first) return r + " (rep " + str(k) + " differs from " + first + ")";
		}
		return first;
	}
	if (t[0] == "sem" && t.size() == 2) {
		Semaphore s(0);
		int ok = 0, fail = 0;
		for (size_t i = 0; i < t[1].size(); i++) {
			if (t[1][i] == 'p') s.post();
			else if (t[1][i] == 'w') { if (s.trywait()) ok++; else fail++; }
		}
		return "ok=" + str(ok) + " refused=" + str(fail) + " value=" + str(s.value());
	}
	if (t[0] == "semc" && t.size() == 4) {
		int P = (int)num(t[1]), C = (int)num(t[2]), k = (int)num(t[3]);
		Semaphore s(0);
		int total = P * k;
		std::vector<Thread*> ts;
		volatile int got = 0;
		for (int c = 0; c < C; c++) {
			int mine = total / C + (c < total % C ? 1 : 0);
			ts.push_back(new Thread([&s, &got, mine]() { for (int i = 0; i < mine; i++) { s.wait(); __sync_add_and_fetch(&got, 1); } }));
		}
		for (int p = 0; p < P; p++)
			ts.push_back(new Thread([&s, k]() { for (int i = 0; i < k; i++) { s.post(); if ((i & 7) == 0) sched_yield(); } }));
		for (size_t i = 0; i < ts.size(); i++) { ts[i]->join(); delete ts[i]; }
		return "ok got=" + str(got) + " value=" + str(s.value());
	}
	if (t[0] == "cond" && t.size() == 3) {
		int W = (int)num(t[1]), reps = (int)num(t[2]);
		for (int r = 0; r < reps; r++) {
			bool ready = false;
			Mutex mutex;
			Condition cond(mutex);
			volatile int woke = 0;
			std::vector<Thread*> ts;
			for (int w = 0; w < W; w++)
				ts.push_back(new Thread([&]() {
					jitter();
					mutex.lock();
					while (!ready) cond.wait();
					mutex.unlock();
					__sync_add_and_fetch(&woke, 1);
				}));
			jitter();
			mutex.lock();
			ready = true;
			cond.signal();
			mutex.unlock();
			for (size_t i = 0; i < ts.size(); i++) { ts[i]->join(); delete ts[i]; }
			if (woke != W) return "lost woke=" + str(woke);
		}
		return "ok";
	}
	if (t[0] == "condt" && t.size() == 4) {
		// timed and untimed waiters (u = untimed, t = wait(timeout), one letter per waiter): the signal is issued, mutex held,
		// only after every waiter is blocked; each must wake promptly, and a timed wait must not report a timeout
		std::string kinds = t[1];
		int reps = (int)num(t[2]);
		double timeout = num(t[3]) / 1000.0;
		int W = (int)kinds.size();
		for (int r = 0; r < reps; r++) {
			bool ready = false;
			Mutex mutex;
			Condition cond(mutex);
			volatile int blocked = 0, woke = 0, timedout = 0;
			double tsignal = 0;
			std::vector<double> twake(W, 0.0);
			std::vector<Thread*> ts;
			for (int w = 0; w < W; w++) {
				bool timed = kinds[w] == 't';
				ts.push_back(new Thread([&, w, timed]() {
					jitter();
					mutex.lock();
					blocked++;
					while (!ready) {
						if (timed) { if (cond.wait(timeout)) { timedout++; break; } }
						else cond.wait();
					}
					twake[w] = now();
					mutex.unlock();
					__sync_add_and_fetch(&woke, 1);
				}));
			}
			for (;;) {
				mutex.lock();
				bool all = blocked == W;
				if (all) { ready = true; tsignal = now(); cond.signal(); }
				mutex.unlock();
				if (all) break;
				usleep(200);
			}
			for (size_t i = 0; i < ts.size(); i++) { ts[i]->join(); delete ts[i]; }
			if (woke != W) return "lost woke=" + str(woke);
			if (timedout) return "lost: " + str((int)timedout) + " timed waiter(s) reported a timeout although the signal was issued while they were blocked";
			for (int w = 0; w < W; w++)
				if (twake[w] - tsignal > timeout * 0.5) return "lost: waiter " + str(w) + " woke " + str((int)((twake[w] - tsignal) * 1000)) + " ms after the signal";
		}
		return "ok";
	}
	if (t[0] == "condx" && t.size() == 4) {
		// the protocol with timed waits that DO run out and waiters that give up or loop again (u = untimed, t = timed and
		// gives up on a time-out, l = timed and loops again): every step is recorded while the mutex is held, so the log
		// is the real order of the critical sections; the Lean model (AslModel/ThreadTimed.lean) must accept it.
		std::string kinds = t[1];
		int delayus = (int)num(t[2]);
		double timeout = num(t[3]) / 1000.0;
		int W = (int)kinds.size();
		bool ready = false;
		Mutex mutex;
		Condition cond(mutex);
		std::vector<std::string> ev;
		std::string outc(W, '?');
		std::vector<Thread*> ts;
		for (int w = 0; w < W; w++) {
			char kind = kinds[w];
			ts.push_back(new Thread([&, w, kind]() {
				jitter();
				mutex.lock();
				ev.push_back("L" + str(w));
				for (;;) {
					if (ready) { ev.push_back("P" + str(w)); outc[w] = 'p'; break; }
					ev.push_back("S" + str(w));
					bool tmo = false;
					if (kind == 'u') cond.wait(); else tmo = cond.wait(timeout);
					ev.push_back("W" + str(w) + ":" + (tmo ? "1" : "0"));
					if (tmo && kind == 't') { ev.push_back("G" + str(w)); outc[w] = 't'; break; }
				}
				ev.push_back("X" + str(w));
				mutex.unlock();
			}));
		}
		usleep(delayus);
		mutex.lock();
		ev.push_back("sL");
		ready = true;
		ev.push_back("sP");
		cond.signal();
		ev.push_back("sB");
		ev.push_back("sU");
		mutex.unlock();
		for (size_t i = 0; i < ts.size(); i++) { ts[i]->join(); delete ts[i]; }
		std::string tr;
		for (size_t i = 0; i < ev.size(); i++) tr += (i ? "," : "") + ev[i];
		return "out=" + outc + " trace=" + tr;
	}
	if (t[0] == "pfs" && t.size() == 5) {
		int i0 = (int)num(t[1]), i1 = (int)num(t[2]), nth = (int)num(t[3]);
		return schedEnum([=]() { return pfOne(i0, i1, nth); }, (int)num(t[4]));
	}
	if (t[0] == "ths" && t.size() == 4) {
		std::string kind = t[1];
		int n = (int)num(t[2]);
		return schedEnum([=]() { return thrOnce(kind, n); }, (int)num(t[3]));
	}
	return "bad-op";
}

int main()
{
	vs::install();
	return run([]() {}, step);
}
