// C13: the context hand-over of lambda threads and parallel_for at the library's own optimisation level (-O3, hooks off).
// One schedule is injected: the worker is single-stepped (x86 trap flag) and descheduled for 100 ms right after its first
// store into the creator's frame (`ready = true`); everything it still reads from the context after that is stale.
#define _GNU_SOURCE 1
#include <asl/Thread.h>
#include <dlfcn.h>
#include <signal.h>
#include <ucontext.h>
#include <stdio.h>
#include <string.h>
#include <time.h>
using namespace asl;
static __thread unsigned char* wp; static __thread unsigned char snap[40]; static __thread int armed;
static Thread* volatile gflag = 0;   // mode `reap`: the thread object under test (its finished() is polled)
static void onTrap(int, siginfo_t*, void* u) {
	ucontext_t* uc = (ucontext_t*)u;
	if (armed && (gflag ? gflag->finished() : memcmp(wp, snap, sizeof(snap)) != 0)) {   // the worker has just set s.ready in the creator's frame / published finished
		armed = 0; struct timespec ts = {0, 100000000}; nanosleep(&ts, 0); // worker descheduled 100 ms here
		uc->uc_mcontext.gregs[REG_EFL] &= ~0x100L; }
	else if (!armed) uc->uc_mcontext.gregs[REG_EFL] &= ~0x100L;
}
struct Tr { void* (*f)(void*); void* a; };
static void* tramp(void* q) { Tr t = *(Tr*)q; delete (Tr*)q; wp = (unsigned char*)t.a; memcpy(snap, wp, sizeof(snap)); armed = 1;
	asm volatile("pushfq\n\torq $0x100,(%%rsp)\n\tpopfq" ::: "memory", "cc"); return t.f(t.a); }
extern "C" int pthread_create(pthread_t* th, const pthread_attr_t* at, void* (*f)(void*), void* a) {
	typedef int (*PC)(pthread_t*, const pthread_attr_t*, void* (*)(void*), void*);
	static PC real = (PC)dlsym(RTLD_NEXT, "pthread_create"); Tr* t = new Tr; t->f = f; t->a = a; return real(th, at, tramp, t); }
static long ra, rb, rc, rd; static double* re; static int hits[8];
__attribute__((noinline)) void sink(long a, long b, long c, long d, double* e) { ra=a; rb=b; rc=c; rd=d; re=e; }
__attribute__((noinline)) Thread* make(long a, long b, long c, long d, double* e) { return new Thread([=]{ sink(a,b,c,d,e); }); }
__attribute__((noinline)) void otherWork() { volatile char buf[4096]; for (int i=0;i<4096;i++) buf[i]=0x41; }
// mode `reap`: an owner that polls finished() and deletes the thread object as soon as it is true; the worker is
// descheduled for 100 ms right after it has published the flag; the freed storage is reused by another Thread object
static volatile int decoyCalls = 0;
struct W : public Thread { void run() {} };
struct Decoy : public Thread { void run() {} void ended() { decoyCalls++; } };
static int reap() {
	W* w = new W; gflag = w; void* addr = (void*)w;
	w->start();
	while (!w->finished()) {}
	delete w;
	Decoy* d = new Decoy;                         // same size, same thread: the allocator hands the storage out again
	struct timespec ts = {0, 300000000}; nanosleep(&ts, 0);
	bool reused = (void*)d == addr;
	printf("owner deleted the finished thread object; storage reused=%d; ended() called on the new object %d times : %s\n", (int)reused, (int)decoyCalls, decoyCalls == 0 ? "PASS" : "FAIL");
	return decoyCalls == 0 ? 0 : 1;
}
int main(int argc, char** argv) {
	struct sigaction sa; memset(&sa,0,sizeof(sa)); sa.sa_sigaction=onTrap; sa.sa_flags=SA_SIGINFO; sigaction(SIGTRAP,&sa,0);
	if (argc > 1 && !strcmp(argv[1], "reap")) return reap();
	if (argc == 1) { double x = 0; Thread* t = make(1,2,3,4,&x); otherWork(); t->join();
		bool ok = ra==1 && rb==2 && rc==3 && rd==4 && re==&x;
		printf("lambda ran with a=%ld b=%ld c=%ld d=%ld e=%s : %s\n", ra,rb,rc,rd, re==&x ? "ok" : "WRONG", ok ? "PASS" : "FAIL"); delete t; return ok ? 0 : 1; }
	else { long a=3,b=5; int* h=hits; Thread::parallel_for(0,4,[=](int i){ h[i]+=(int)(a*i+b); },4);
		bool ok = hits[0]==5 && hits[1]==8 && hits[2]==11 && hits[3]==14;
		printf("hits %d %d %d %d : %s\n", hits[0],hits[1],hits[2],hits[3], ok ? "PASS" : "FAIL"); return ok ? 0 : 1; }
}
