// C14 correspondence harness: the real SocketServer under load, jitter at the hook points, ASan.
//   srv <conc|seq> <tcp|unix> <nclients> <burst|trickle|mixed> <stop_ms> <seed> [trace]
// prints a summary that must be the same for every schedule:  served=<n> once=1 replies=1 running=0 late=0 opened=1
// and, with the trailing word `trace`, the recorded hook-point trace (for the model's trace acceptor).
#include "common.h"
#include <asl/SocketServer.h>
#include <asl/Socket.h>
#include <asl/Thread.h>
#include <asl/File.h>
#include <mutex>
#include <thread>
#include <map>
#include <vector>
#include <set>
#include <unistd.h>
#include <time.h>
#include <dlfcn.h>
#include <errno.h>
#include <atomic>
#include <sys/socket.h>

// accept() of the process, interposed: the next `failAccepts` calls fail as they do when the process is out of descriptors
// (EMFILE; the pending connection stays in the backlog and the listening socket stays readable)
static std::atomic<int> failAccepts(0);
static std::atomic<int> failedAccepts(0);
static void recordFailedAccept();
static void recordAccept();
extern "C" int accept(int fd, struct sockaddr* a, socklen_t* l)
{
	typedef int (*Fn)(int, struct sockaddr*, socklen_t*);
	static Fn real = (Fn)dlsym(RTLD_NEXT, "accept");
	if (failAccepts.load() > 0 && failAccepts.fetch_sub(1) > 0) { failedAccepts++; recordFailedAccept(); errno = EMFILE; return -1; }
	int r = real(fd, a, l);
	if (r >= 0) recordAccept();     // event a<k> of the trace: a connection was really taken from the listen queue
	return r;
}
using namespace asl;
using namespace vh;

namespace {

std::mutex gmu;
struct Ev { int kind; const volatile void* addr; unsigned long th; };
std::vector<Ev> gtrace;
bool recording = false;
unsigned long long jstate = 1;
int jitterPct = 0;
volatile unsigned long acceptTid = 0;

unsigned jrnd() { jstate ^= jstate << 13; jstate ^= jstate >> 7; jstate ^= jstate << 17; return (unsigned)(jstate >> 11); }

void hook(int kind, const volatile void* addr)
{
	if (!recording) return;
	unsigned r;
	{
		std::lock_guard<std::mutex> lk(gmu);
		Ev e = { kind, addr, (unsigned long)pthread_self() };
		gtrace.push_back(e);
		r = jrnd();
	}
	if (kind == 20 || kind == 23 || kind == 24) acceptTid = (unsigned long)pthread_self();
	if (kind == 14 && (unsigned long)pthread_self() == acceptTid && (r & 1)) {
		// the accept thread is slow to finish (busy, not sleeping: no cancellation point): the destructor must wait for it
		struct timespec t0, t1;
		clock_gettime(CLOCK_MONOTONIC, &t0);
		long ms = 20 + (long)((r >> 8) % 100);
		do { clock_gettime(CLOCK_MONOTONIC, &t1); } while ((t1.tv_sec - t0.tv_sec) * 1000 + (t1.tv_nsec - t0.tv_nsec) / 1000000 < ms);
		return;
	}
	if (kind == 11 && (r % 3) == 0) {
		// a handler thread that starts late (the scheduler did not run it yet): up to 0.25 s
		usleep(100000 + (r >> 8) % 150000);
		return;
	}
	if (kind >= 20 || kind == 1 || kind == 2) {
		if ((int)(r % 100) < jitterPct) usleep((r >> 8) % 400);
		else if ((r & 3) == 0) sched_yield();
	}
}

}
static void recordFailedAccept() { hook(40, 0); }   // event F of the trace: the model's `acceptFail`
static void recordAccept() { hook(41, 0); }
namespace {

struct TestServer : public SocketServer
{
	std::mutex mu;
	std::map<std::string, int> served;
	int badSockets;
	int serveCalls;
	volatile bool stopReturned;
	int lateServes;
	TestServer() : badSockets(0), serveCalls(0), stopReturned(false), lateServes(0) {}
	const volatile void* countAddr() { return &_numClients; }
	void serve(Socket client)
	{
		{ std::lock_guard<std::mutex> lk(mu); serveCalls++; }
		if (stopReturned) { std::lock_guard<std::mutex> lk(mu); lateServes++; }
		if (client.handle() < 0) { std::lock_guard<std::mutex> lk(mu); badSockets++; }   // not a connection at all
		String line;
		if (client.waitInput(4.0)) line = client.readLine();
		std::string tok(*line, line.length());
		while (!tok.empty() && (tok[tok.size() - 1] == '\r' || tok[tok.size() - 1] == '\n')) tok.erase(tok.size() - 1);
		{
			std::lock_guard<std::mutex> lk(mu);
			served[tok]++;
		}
		if (!tok.empty()) {
						client << String("hi ") + line + "\n";
		}
		unsigned r;
		{ std::lock_guard<std::mutex> lk(gmu); r = jrnd(); }
		if (r % 5 == 0) usleep(r % 3000);
	}
};

}

static std::string runScenario(bool seq, bool unixSock, bool both, int nclients, const std::string& pattern, int stopMs, unsigned long long seed, bool wantTrace)
{
	jstate = 88172645463325252ull ^ (seed * 0x9E3779B97F4A7C15ull);
	if (!jstate) jstate = 1;
	jitterPct = 10 + (int)(seed % 4) * 15;
	TestServer* server = new TestServer;
	server->setSequential(seq);
	failedAccepts = 0;
	failAccepts = (pattern == "afail") ? 1 + (int)(seed % 6) : 0;
	String path;
	int port = 0;
	bool bound = false;
	if (both) {
		path = String("/tmp/vc14-") + String((int)getpid()) + "-" + String((int)(seed % 100000)) + ".sock";
		File(path).remove();
		bound = server->bindPath(path);
		bool b2 = false;
		for (int k = 0; k < 40 && !b2; k++) {
			port = 20000 + (int)((seed * 7919 + k * 131 + (unsigned)getpid() * 17) % 30000);
			b2 = server->bind("127.0.0.1", port);
		}
		bound = bound && b2;
	}
	else if (unixSock) {
		path = String("/tmp/vc14-") + String((int)getpid()) + "-" + String((int)(seed % 100000)) + ".sock";
		File(path).remove();
		bound = server->bindPath(path);
	}
	else {
		for (int k = 0; k < 40 && !bound; k++) {
			port = 20000 + (int)((seed * 7919 + k * 131 + (unsigned)getpid() * 17) % 30000);
			bound = server->bind("127.0.0.1", port);
		}
	}
	if (!bound) { delete server; return "bind-failed"; }
	{
		std::lock_guard<std::mutex> lk(gmu);
		gtrace.clear();
		recording = true;
	}
	server->start(true);
	std::vector<std::string> replies(nclients);
	std::vector<int> sent(nclients, 0);
	std::vector<double> failedAt(nclients, 0.0);   // time of a connect() that failed (0: none)
	std::vector<std::thread> cl;
	for (int k = 0; k < nclients; k++) {
		int delayUs = 0, holdUs = 0;
		bool early = false;
		unsigned r;
		{ std::lock_guard<std::mutex> lk(gmu); r = jrnd(); }
		if (pattern == "trickle") delayUs = (int)(r % (unsigned)(stopMs * 1200 + 1));
		else if (pattern == "slow") {
			// the first clients connect just before stop() and keep their handler inside serve() well beyond it
			if (k < 2) { delayUs = stopMs > 3 ? (stopMs - 3) * 1000 : 0; holdUs = 1500000 + (int)(r % 1500000); }
			else delayUs = (int)(r % (unsigned)(stopMs * 1000 + 1));
		}
		else if (pattern == "mixed") { delayUs = (r & 1) ? 0 : (int)((r >> 3) % (unsigned)(stopMs * 1500 + 1)); early = ((r >> 1) % 5 == 0); }
		bool useUnix = both ? (k % 2 == 1) : unixSock;
		// in sequential mode a client queues behind the slow ones (up to 2 x 3 s inside serve()): it must wait that long for its reply
		double replyWait = seq ? 14.0 + 0.15 * nclients : 6.0;   // generous: the wait only matters when a reply is really missing (a loaded machine must not fail it)
		cl.push_back(std::thread([k, delayUs, holdUs, early, useUnix, port, replyWait, &path, &replies, &sent, &failedAt]() {
			if (delayUs) usleep(delayUs);
			String tok = String("c") + String(k);
			if (useUnix) {
				LocalSocket s;
				errno = 0;
				if (!s.connect(path)) { int e = errno; if (e == ENOENT || e == ECONNREFUSED) failedAt[k] = now(); return; }   // time the refusal came back; a full backlog (EAGAIN) is not a refusal
				if (early) { s.close(); return; }
				if (holdUs) usleep(holdUs);
				s << tok + "\n";
				sent[k] = 1;
				if (s.waitInput(replyWait)) { String l = s.readLine(); replies[k] = std::string(*l, l.length()); }
				s.close();
			}
			else {
				Socket s;
				errno = 0;
				if (!s.connect("127.0.0.1", port)) { int e = errno; if (e == ECONNREFUSED) failedAt[k] = now(); return; }
				if (early) { s.close(); return; }
				if (holdUs) usleep(holdUs);
				s << tok + "\n";
				sent[k] = 1;
				if (s.waitInput(replyWait)) { String l = s.readLine(); replies[k] = std::string(*l, l.length()); }
				s.close();
			}
		}));
	}
	usleep(stopMs * 1000);
	double tStop = now();
	server->stop(true);
	server->stopReturned = true;
	bool runningAfter = server->running();
	const volatile void* cntAddr = server->countAddr();
	usleep(2000);
	// copy the oracle data, then destroy the server while client threads may still be around
	std::map<std::string, int> served;
	int late, badsock, serveCalls;
	{
		std::lock_guard<std::mutex> lk(server->mu);
		served = server->served;
		late = server->lateServes;
		badsock = server->badSockets;
		serveCalls = server->serveCalls;
	}
	failAccepts = 0;
	delete server;
	usleep(30000);   // a thread still using the destroyed server would be caught by ASan here
	for (size_t i = 0; i < cl.size(); i++) cl[i].join();
	std::vector<Ev> tr;
	{
		std::lock_guard<std::mutex> lk(gmu);
		recording = false;
		tr = gtrace;
	}
	if (unixSock || both) File(path).remove();
	// ---- oracles
	int once = 1, repliesOk = 1, nserved = 0;
	for (std::map<std::string, int>::iterator it = served.begin(); it != served.end(); ++it) {
		if (it->first.empty()) continue;       // early-closing clients: token never arrived
		nserved++;
		if (it->second != 1) once = 0;
	}
	for (int k = 0; k < nclients; k++) {
		std::string tok = "c" + str(k);
		bool wasServed = served.count(tok) > 0;
		if (!replies[k].empty()) {
			std::string want = "hi " + tok;
			std::string got = replies[k];
			while (!got.empty() && (got[got.size() - 1] == '\r' || got[got.size() - 1] == '\n')) got.erase(got.size() - 1);
			if (got != want || !wasServed) repliesOk = 0;
		}
		else if (wasServed && sent[k]) {
			// served but no reply seen: only acceptable if the client timed out; count as failure (3 s is ample)
			repliesOk = 0;
		}
	}
	// every connection the accept loop took from the listening socket (hook 20) must have been passed to serve() once,
	// whether or not its client ever sent anything
	int acceptedAll = 0;
	for (size_t i = 0; i < tr.size(); i++) if (tr[i].kind == 41) acceptedAll++;   // successful accept() calls (interposed), not hook 20
#ifdef ASL_VERIF
	int allServed = (serveCalls == acceptedAll) ? 1 : 0;
#else
	int allServed = 1; (void)acceptedAll;   // production-build pass: no hook points, so no accept events to count
#endif
	// a connection attempt must not be REFUSED (no such path / nobody listening) while the server is running: refusals that came back clearly before stop() was called
	int refused = 0;
	for (int k = 0; k < nclients; k++) if (failedAt[k] > 0 && failedAt[k] < tStop - 0.02) refused++;
	if (refused) once = 0;
	std::string out = "served-exactly-once=" + str(once && allServed ? 1 : 0) + " replies=" + str(repliesOk) + " running=" + str(runningAfter ? 1 : 0) + " late=" + str(late) + " badsock=" + str(badsock);
	if (!wantTrace) return out;
	// ---- trace encoding
	std::map<const volatile void*, int> handlerOf;   // SockClientThread* -> connection index
	std::map<unsigned long, int> connOfThread;        // handler thread -> connection index
	int accepted = 0, current = -1;
	unsigned long accTh = 0;
	for (size_t i = 0; i < tr.size(); i++) if (tr[i].kind == 41 || tr[i].kind == 40 || tr[i].kind == 23 || tr[i].kind == 24) { accTh = tr[i].th; break; }
	std::string t;
	for (size_t i = 0; i < tr.size(); i++) {
		const Ev& e = tr[i];
		std::string ev;
		switch (e.kind) {
		case 41: current = accepted++; ev = "a" + str(current); break;   // accept() returned a connection
		case 20: break;                                                  // (the loop's own hook: after its test of the handle)
		case 22: handlerOf[e.addr] = current; break;
		case 1: if (e.addr == cntAddr) ev = "n"; break;
		case 2: if (e.addr == cntAddr) { int c = seq ? current : (connOfThread.count(e.th) ? connOfThread[e.th] : -1); ev = "d" + str(c); } break;
		case 25: { int c = e.addr ? (handlerOf.count(e.addr) ? handlerOf[e.addr] : -1) : current; connOfThread[e.th] = c; ev = "b" + str(c); } break;
		case 26: { int c = e.addr ? (handlerOf.count(e.addr) ? handlerOf[e.addr] : -1) : current; ev = "e" + str(c); } break;
		case 27: { int c = e.addr ? (handlerOf.count(e.addr) ? handlerOf[e.addr] : -1) : current; ev = "c" + str(c); } break;
		case 14: if (accTh && e.th == accTh) ev = "E"; break;
		case 40: ev = "F"; break;
		case 23: ev = "S"; break;
		case 24: ev = "s"; break;
		case 28: ev = "R"; break;
		case 29: ev = "T"; break;
		case 30: ev = "D"; break;
		default: break;
		}
		if (!ev.empty()) t += (t.empty() ? "" : ",") + ev;
	}
	return out + " accepted=" + str(accepted) + " nserved=" + str(nserved) + " trace=" + (t.empty() ? "-" : t);
}

static std::string step(const Toks& t)
{
	if (t[0] == "srv" && (t.size() == 7 || t.size() == 8)) {
		return runScenario(t[1] == "seq", t[2] == "unix", t[2] == "both", (int)num(t[3]), t[4], (int)num(t[5]), (unsigned long long)num(t[6]), t.size() == 8);
	}
	return "bad-op";
}

int main()
{
#ifdef ASL_VERIF
	asl_verif_hook() = hook;
#endif
	return run([]() {}, step);
}
