// C15 correspondence harness: real asl codecs behind the line protocol.
#include "common.h"
#include <asl/String.h>
#include <asl/util.h>
#include <asl/Http.h>
#include <asl/SHA1.h>
#include <asl/Map.h>
#include <algorithm>
#include <stdlib.h>
#include <string.h>
using namespace asl;
using namespace vh;

// SHA1::update / SHA1::end are private members: their addresses are taken in an explicit template instantiation
// (access checking does not apply there, [temp.spec]), so the streaming interface is driven on the real object without
// touching the header or the library
template<typename Tag, typename Tag::type M> struct Access { friend typename Tag::type access(Tag) { return M; } };
struct SHA1Update { typedef void (SHA1::*type)(const byte*, int); friend type access(SHA1Update); };
struct SHA1End { typedef SHA1::Hash (SHA1::*type)(); friend type access(SHA1End); };
template struct Access<SHA1Update, &SHA1::update>;
template struct Access<SHA1End, &SHA1::end>;

static String S(const std::string& s) { return String(s.data(), (int)s.size()); }

static std::string lenhex(const ByteArray& a)
{
	if (a.length() < 0) return str(a.length()) + " negative-length";
	return str(a.length()) + " " + hex(a.data(), a.length());
}
static std::string lenhex(const String& a)
{
	return str(a.length()) + " " + hex(*a, a.length());
}

static std::string step(const Toks& t)
{
	const std::string& op = t[0];
	if (op == "b64enc" && t.size() == 2) {
		Exact d(unhex(t[1]));
		String e = encodeBase64((const byte*)d.p, (int)d.n);
		if ((int)strlen(*e) != e.length()) return "err strlen-mismatch";
		return hex(*e, e.length());
	}
	if (op == "b64dec" && t.size() == 2) {
		std::string d = unhex(t[1]);
		return lenhex(decodeBase64(S(d)));
	}
	if (op == "b64decn" && t.size() == 3) {
		// the (pointer, n) entry point on a buffer of exactly the given bytes (no terminator): only the first n count
		Exact d(unhex(t[1]));
		int n = (int)num(t[2]);
		if (n < 0 || n > (int)d.n) return "bad-op";
		return lenhex(decodeBase64((const char*)d.p, n));
	}
	if (op == "sha1r" && t.size() == 4) {
		// digest of a long message made of a repeated block (too long for the line protocol): compared with the digest given
		std::string blk = unhex(t[2]);
		long n = (long)num(t[1]);
		if (blk.empty() || n < 0 || n > 2147483647L) return "bad-op";
		byte* p = (byte*)malloc(n ? n : 1);
		for (long i = 0; i < n; i += (long)blk.size()) memcpy(p + i, blk.data(), std::min((long)blk.size(), n - i));
		SHA1::Hash h = SHA1::hash(p, (int)n);
		free(p);
		std::string got = hex(&h[0], 20);
		return got == t[3] ? "ok" : "digest " + got;
	}
	if (op == "sha1g" && t.size() == 4) {
		// digest of a long message of pseudo-random content (xorshift64* from the seed, 8 bytes per step, little-endian),
		// generated here and by the plugin alike: compared with the hashlib digest given on the line
		unsigned long long x = (unsigned long long)num(t[1]);
		long n = (long)num(t[2]);
		if (!x || n < 0 || n > 2147483647L) return "bad-op";
		byte* p = (byte*)malloc(n ? n : 1);
		for (long i = 0; i < n; i += 8) {
			x ^= x >> 12; x ^= x << 25; x ^= x >> 27;
			unsigned long long v = x * 2685821657736338717ULL;
			for (int k = 0; k < 8 && i + k < n; k++) p[i + k] = (byte)(v >> (8 * k));
		}
		SHA1::Hash h = SHA1::hash(p, (int)n);
		free(p);
		std::string got = hex(&h[0], 20);
		return got == t[3] ? "ok" : "digest " + got;
	}
	if (op == "b64ex" && t.size() == 3) {
		// every string of the given length over the given alphabet through the decoder; FNV-1a digest of all results
		std::string alpha = unhex(t[1]);
		int L = (int)num(t[2]);
		if (alpha.empty() || L < 0 || L > 10) return "bad-op";
		unsigned long long h = 1469598103934665603ULL, total = 1;
		for (int i = 0; i < L; i++) total *= alpha.size();
		std::string s(L, 0);
		for (unsigned long long k = 0; k < total; k++) {
			unsigned long long x = k;
			for (int i = L - 1; i >= 0; i--) { s[i] = alpha[x % alpha.size()]; x /= alpha.size(); }
			ByteArray r = decodeBase64(S(s));
			if (r.length() < 0) return "negative-length at " + hex(s.data(), s.size());
			h = (h ^ (unsigned long long)(r.length() & 255)) * 1099511628211ULL;
			for (int i = 0; i < r.length(); i++) h = (h ^ (unsigned long long)r[i]) * 1099511628211ULL;
		}
		return str((long long)total) + " " + hex((const char*)&h, 8);
	}
	if (op == "b64rt" && t.size() == 2) {
		Exact d(unhex(t[1]));
		ByteArray a((const byte*)d.p, (int)d.n);
		return lenhex(decodeBase64(encodeBase64(a)));
	}
	if (op == "b64fold" && t.size() == 3) {
		// the library's encoding folded here into lines of n characters with CR LF (MIME: 76), through the library's decoder
		long n = (long)num(t[1]);
		if (n < 0) return "bad-op";
		Exact d(unhex(t[2]));
		String e = encodeBase64((const byte*)d.p, (int)d.n);
		std::string f;
		long k = n;
		for (int i = 0; i < e.length(); i++) {
			if (k == 0) { f += "\r\n"; k = n > 0 ? n - 1 : 0; }
			else k--;
			f += (*e)[i];
		}
		return lenhex(decodeBase64(S(f)));
	}
	if (op == "hexenc" && t.size() == 2) {
		Exact d(unhex(t[1]));
		String e = encodeHex((const byte*)d.p, (int)d.n);
		return hex(*e, e.length());
	}
	if (op == "hexdec" && t.size() == 2) {
		return lenhex(decodeHex(S(unhex(t[1]))));
	}
	if (op == "hexrt" && t.size() == 2) {
		Exact d(unhex(t[1]));
		ByteArray a((const byte*)d.p, (int)d.n);
		return lenhex(decodeHex(encodeHex(a)));
	}
	if (op == "urlenc" && t.size() == 3) {
		String e = Url::encode(S(unhex(t[2])), t[1] == "1");
		return hex(*e, e.length());
	}
	if (op == "urldec" && t.size() == 2) {
		return lenhex(Url::decode(S(unhex(t[1]))));
	}
	if (op == "urlrt" && t.size() == 3) {
		return lenhex(Url::decode(Url::encode(S(unhex(t[2])), t[1] == "1")));
	}
	if (op == "queryrt") {
		Dic<> d;
		for (size_t i = 1; i < t.size(); i++) {
			size_t c = t[i].find(':');
			d[S(unhex(t[i].substr(0, c)))] = S(unhex(t[i].substr(c + 1)));
		}
		Dic<> r = Url::parseQuery(Url::params(d));
		std::vector<std::pair<std::string, std::string> > out;
		foreach2(String& k, const String& v, r)
			out.push_back(std::make_pair(hex(*k, k.length()), hex(*v, v.length())));
		std::sort(out.begin(), out.end());
		std::string s;
		for (size_t i = 0; i < out.size(); i++) s += (i ? " " : "") + out[i].first + ":" + out[i].second;
		return s.empty() ? "{}" : s;
	}
	if (op == "params") {
		Dic<> d;
		for (size_t i = 1; i < t.size(); i++) {
			size_t c = t[i].find(':');
			d[S(unhex(t[i].substr(0, c)))] = S(unhex(t[i].substr(c + 1)));
		}
		return lenhex(Url::params(d));
	}
	if (op == "pquery" && t.size() == 2) {
		Dic<> r = Url::parseQuery(S(unhex(t[1])));
		std::vector<std::pair<std::string, std::string> > out;
		foreach2(String& k, const String& v, r)
			out.push_back(std::make_pair(hex(*k, k.length()), hex(*v, v.length())));
		std::string s;      // in the dictionary's own order
		for (size_t i = 0; i < out.size(); i++) s += (i ? " " : "") + out[i].first + ":" + out[i].second;
		return s.empty() ? "{}" : s;
	}
	if (op == "sha1s" && t.size() >= 2) {
		// the message cut at the given absolute positions (a position behind the previous one gives an empty update, one
		// past the end takes what is left), one SHA1::update per piece - each from its own exact-size heap block - then the
		// rest, then SHA1::end
		std::string d = unhex(t[1]);
		SHA1 sha;
		size_t pos = 0;
		for (size_t i = 2; i <= t.size(); i++) {
			size_t k;
			if (i < t.size()) {
				long c = (long)num(t[i]);
				if (c < 0) return "bad-op";
				k = (size_t)c > pos ? (size_t)c - pos : 0;
				k = std::min(k, d.size() - std::min(pos, d.size()));
			}
			else k = d.size() - std::min(pos, d.size());
			size_t from = std::min(pos, d.size());
			byte* p = (byte*)malloc(k ? k : 1);
			memcpy(p, d.data() + from, k);
			(sha.*access(SHA1Update()))(p, (int)k);
			free(p);
			if (i < t.size()) pos += (size_t)num(t[i]) > pos ? (size_t)num(t[i]) - pos : 0;
		}
		SHA1::Hash h = (sha.*access(SHA1End()))();
		return hex(&h[0], 20);
	}
	if (op == "sha1" && t.size() == 2) {
		Exact d(unhex(t[1]));
		SHA1::Hash h = SHA1::hash((const byte*)d.p, (int)d.n);
		return hex(&h[0], 20);
	}
	return "bad-op";
}

int main() { return run([]() {}, step); }
