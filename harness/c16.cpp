// C16 correspondence harness: StreamBuffer / StreamBufferReader / File / Socket stream operators of the
// real library behind the line protocol (see lean/Driver/C16.lean for the op list).
// Written bytes are observed outside asl: the buffer content, the temp file via POSIX pread on a second
// descriptor, the socket via recv on the raw peer descriptor of a socketpair.  For the read phase the
// observed bytes are handed to a fresh reader: an exact-size heap copy (StreamBufferReader), the file
// itself reopened by asl::File, a second socketpair fed with POSIX send (asl::Socket wrapping the fd).
#include "common.h"
#include <asl/StreamBuffer.h>
#include <asl/File.h>
#include <asl/Socket.h>
#include <asl/Stack.h>
#include <asl/Queue.h>
#include <sys/types.h>
#include <sys/socket.h>
#include <sys/stat.h>
#include <fcntl.h>
#include <unistd.h>
#include <errno.h>
#include <sys/ioctl.h>
#include <pthread.h>
#include <vector>
using namespace asl;
using namespace vh;

typedef unsigned long long U64;

enum { K_NONE, K_SB, K_FILE, K_SOCK };

struct St {
	int kind;
	bool reading;
	std::string written;
	// writers
	StreamBuffer* sb;
	File* wf;
	std::string path;
	int rawfd;
	Socket* ws;
	int peerfd;
	// readers
	byte* rdata;
	StreamBufferReader* sbr;
	File* rf;
	Socket* rs;
	int feedfd;
	Endian re;
	size_t pos;
	// `readerf`: the reader socket is fed in pieces cut at these offsets of the written stream
	bool frag;
	std::vector<size_t> cuts;
	size_t fed;
	int rfd;
	St() : kind(K_NONE), reading(false), sb(0), wf(0), rawfd(-1), ws(0), peerfd(-1), rdata(0), sbr(0), rf(0), rs(0), feedfd(-1), re(ENDIAN_LITTLE), pos(0), frag(false), fed(0), rfd(-1) {}
};

static St st;
static int counter = 0;

static void clearSlots();

static void reset()
{
	delete st.sbr;
	if (st.rdata) free(st.rdata);
	delete st.sb;
	delete st.rf;
	delete st.wf;
	if (st.rawfd >= 0) close(st.rawfd);
	if (!st.path.empty()) unlink(st.path.c_str());
	delete st.ws; // closes its descriptor
	if (st.peerfd >= 0) close(st.peerfd);
	delete st.rs;
	if (st.feedfd >= 0) close(st.feedfd);
	clearSlots();
	st = St();
}

static bool parseEndian(const std::string& s, Endian& e, bool& dflt)
{
	dflt = false;
	if (s == "def") { dflt = true; return true; }
	if (s == "big") { e = ENDIAN_BIG; return true; }
	if (s == "little") { e = ENDIAN_LITTLE; return true; }
	if (s == "native") { e = ENDIAN_NATIVE; return true; }
	return false;
}

static bool parseU64(const std::string& h, U64& u)
{
	if (h.size() > 16 || h.size() % 2 || h == "-") { if (h == "-") { u = 0; return true; } return false; }
	u = 0;
	for (size_t i = 0; i < h.size(); i++) {
		char c = h[i];
		if (!((c >= '0' && c <= '9') || (c >= 'a' && c <= 'f') || (c >= 'A' && c <= 'F'))) return false;
		u = (u << 4) | (U64)hv(c);
	}
	return true;
}

static bool validHex(const std::string& h)
{
	if (h == "-") return true;
	if (h.size() % 2) return false;
	for (size_t i = 0; i < h.size(); i++) {
		char c = h[i];
		if (!((c >= '0' && c <= '9') || (c >= 'a' && c <= 'f') || (c >= 'A' && c <= 'F'))) return false;
	}
	return true;
}

// value of type T from the 64-bit number of the op line
template <class T> struct Conv { static T of(U64 u) { return (T)u; } };
template <> struct Conv<bool> { static bool of(U64 u) { return u != 0; } };
template <> struct Conv<float> { static float of(U64 u) { unsigned v = (unsigned)u; float f; memcpy(&f, &v, 4); return f; } };
template <> struct Conv<double> { static double of(U64 u) { double f; memcpy(&f, &u, 8); return f; } };

// bit pattern of a value, as 2*sizeof(T) hex digits (most significant first)
template <class T> struct Bits { static U64 of(const T& x) { U64 u = (U64)x; return sizeof(T) == 8 ? u : (u & ((1ULL << (8 * sizeof(T))) - 1)); } };
template <> struct Bits<bool> { static U64 of(const bool& x) { return x ? 1 : 0; } };
template <> struct Bits<float> { static U64 of(const float& x) { unsigned v; memcpy(&v, &x, 4); return v; } };
template <> struct Bits<double> { static U64 of(const double& x) { U64 v; memcpy(&v, &x, 8); return v; } };

static std::string hexW(U64 u, int w)
{
	char b[40];
	snprintf(b, sizeof b, "%0*llx", 2 * w, u);
	return b;
}

#define FOR_TYPES(X) \
	X("i8", signed char) X("u8", byte) X("ch", char) X("b", bool) X("i16", short) X("u16", unsigned short) \
	X("i32", int) X("u32", unsigned) X("i64", Long) X("u64", ULong) X("f32", float) X("f64", double)

static int widthOf(const std::string& ty)
{
#define X(n, T) if (ty == n) return (int)sizeof(T);
	FOR_TYPES(X)
#undef X
	return 0;
}

static std::string argFault; // set when a write modified the (const) argument it was given

template <class S, class T> static void wScalarT(S& s, U64 u)
{
	T x = Conv<T>::of(u);
	U64 before = Bits<T>::of(x);
	s << (const T&)x;
	if (Bits<T>::of(x) != before) argFault = "err scalar-argument-modified-by-the-write " + hexW(Bits<T>::of(x), (int)sizeof(T));
}

template <class S> static bool wScalar(S& s, const std::string& ty, U64 u)
{
#define X(n, T) if (ty == n) { wScalarT<S, T>(s, u); return true; }
	FOR_TYPES(X)
#undef X
	return false;
}

template <class T> static void fillArray(Array<T>& a, const std::string& blob)
{
	int w = (int)sizeof(T);
	int n = (int)(blob.size() / w);
	a = Array<T>(n);
	for (int i = 0; i < n; i++) {
		U64 u = 0;
		for (int j = 0; j < w; j++) u = (u << 8) | (unsigned char)blob[i * w + j];
		T x = Conv<T>::of(u);
		memcpy(&a[i], &x, sizeof(T));
	}
}

// the caller's array as the program sees it: each element's bit pattern, most significant digit first
template <class T> static std::string dumpArray(const Array<T>& a)
{
	std::string d;
	for (int i = 0; i < a.length(); i++) d += hexW(Bits<T>::of(a[i]), (int)sizeof(T));
	return d.empty() ? "-" : d;
}

template <class S, class T> static void wArrayT(S& s, const std::string& blob)
{
	Array<T> a;
	fillArray(a, blob);
	std::string before = dumpArray(a);
	s << (const Array<T>&)a;
	std::string after = dumpArray(a);
	if (after != before) argFault = "err array-argument-modified-by-the-write " + after;
}

template <class S> static bool wArray(S& s, const std::string& ty, const std::string& blob)
{
#define X(n, T) if (ty == n) { wArrayT<S, T>(s, blob); return true; }
	FOR_TYPES(X)
#undef X
	return false;
}

// C arrays T[N] and char[N] buffers (StreamBuffer): N is a compile-time constant
template <class T, int N> static void wCArrayN(StreamBuffer& s, const std::string& blob)
{
	T arr[N];
	for (int i = 0; i < N; i++) {
		U64 u = 0;
		for (int j = 0; j < (int)sizeof(T); j++) u = (u << 8) | (unsigned char)blob[i * sizeof(T) + j];
		T x = Conv<T>::of(u);
		memcpy(&arr[i], &x, sizeof(T));
	}
	s << arr;
}

template <class T> static void wCArrayT(StreamBuffer& s, const std::string& blob)
{
	switch (blob.size() / sizeof(T)) {
	case 1: wCArrayN<T, 1>(s, blob); break; case 2: wCArrayN<T, 2>(s, blob); break;
	case 3: wCArrayN<T, 3>(s, blob); break; case 4: wCArrayN<T, 4>(s, blob); break;
	case 5: wCArrayN<T, 5>(s, blob); break; case 6: wCArrayN<T, 6>(s, blob); break;
	case 7: wCArrayN<T, 7>(s, blob); break; case 8: wCArrayN<T, 8>(s, blob); break;
	}
}

static void wCArray(StreamBuffer& s, const std::string& ty, const std::string& blob)
{
#define X(n, T) if (ty == n && ty != "ch") { wCArrayT<T>(s, blob); return; }
	FOR_TYPES(X)
#undef X
}

template <class S, int N> static void wCharBufN(S& s, const std::string& d)
{
	char buf[N];
	memset(buf, 0, N);
	memcpy(buf, d.data(), d.size() < (size_t)N ? d.size() : (size_t)N - 1);
	s << buf;
}

template <class S> static void wCharBuf(S& s, const std::string& d)
{
	switch (d.size() + 1) {
#define C(N) case N: wCharBufN<S, N>(s, d); break;
	C(1) C(2) C(3) C(4) C(5) C(6) C(7) C(8) C(9) C(10) C(11) C(12) C(13) C(14) C(15) C(16)
#undef C
	}
}

// objects DERIVED from Array<T> (Stack<T>, Queue<T>, StreamBuffer) written to / read from File and Socket
template <class S, class C, class T> static void wDerivedT(S& s, const std::string& blob)
{
	C o;
	Array<T>& base = o;
	fillArray(base, blob);
	std::string before = dumpArray(base);
	s << (const C&)o;
	if (dumpArray(base) != before) argFault = "err array-argument-modified-by-the-write " + dumpArray(base);
}

template <class S> static bool wDerived(S& s, const std::string& cls, const std::string& ty, const std::string& blob)
{
#define X(n, T) if (ty == n) { if (cls == "stack") wDerivedT<S, Stack<T>, T>(s, blob); else wDerivedT<S, Queue<T>, T>(s, blob); return true; }
	FOR_TYPES(X)
#undef X
	return false;
}

template <class R, class C, class T> static std::string rDerivedT(R& r, int n)
{
	C o;
	Array<T>& base = o;
	base = Array<T>(n);
	if (n) memset((void*)&base[0], 0, n * sizeof(T));
	r >> o;
	if (base.length() != n) return "err array-length-changed-to-" + str(base.length());
	return dumpArray(base);
}

template <class R> static std::string rDerived(R& r, const std::string& cls, const std::string& ty, int n)
{
#define X(nm, T) if (ty == nm) return cls == "stack" ? rDerivedT<R, Stack<T>, T>(r, n) : rDerivedT<R, Queue<T>, T>(r, n);
	FOR_TYPES(X)
#undef X
	return "bad-op";
}

// array variables: the same Array<T> object written several times
enum { NSLOT = 4 };
template <class T> struct Slot { static Array<T> a[NSLOT]; };
template <class T> Array<T> Slot<T>::a[NSLOT];
static std::string slotTy[NSLOT];

static void clearSlots()
{
	for (int i = 0; i < NSLOT; i++) {
#define X(n, T) Slot<T>::a[i] = Array<T>();
		FOR_TYPES(X)
#undef X
		slotTy[i].clear();
	}
}

static bool setSlot(int k, const std::string& ty, const std::string& blob)
{
#define X(n, T) if (ty == n) { fillArray(Slot<T>::a[k], blob); slotTy[k] = ty; return true; }
	FOR_TYPES(X)
#undef X
	return false;
}

template <class S> static void wSlot(S& s, int k)
{
#define X(n, T) if (slotTy[k] == n) { s << (const Array<T>&)Slot<T>::a[k]; return; }
	FOR_TYPES(X)
#undef X
}

static std::string dumpSlot(int k)
{
#define X(n, T) if (slotTy[k] == n) return dumpArray(Slot<T>::a[k]);
	FOR_TYPES(X)
#undef X
	return "?";
}

template <class R, class T> static std::string rScalarT(R& r) { T x; r >> x; return hexW(Bits<T>::of(x), (int)sizeof(T)); }

// `r >> array` for an array whose length was set by the caller (File, Socket)
template <class R, class T> static std::string rArrayT(R& r, int n)
{
	Array<T> a(n);
	if (n) memset((void*)&a[0], 0, n * sizeof(T));
	r >> a;
	if (a.length() != n) return "err array-length-changed-to-" + str(a.length());
	return dumpArray(a);
}

template <class R> static std::string rArray(R& r, const std::string& ty, int n)
{
#define X(nm, T) if (ty == nm) return rArrayT<R, T>(r, n);
	FOR_TYPES(X)
#undef X
	return "bad-op";
}

template <class R> static std::string rScalar(R& r, const std::string& ty)
{
#define X(n, T) if (ty == n) return rScalarT<R, T>(r);
	FOR_TYPES(X)
#undef X
	return "bad-op";
}

// bytes appended to the stream since the last observation, as seen from outside asl
static std::string observe()
{
	std::string app;
	if (st.kind == K_SB) {
		size_t old = st.written.size();
		int n = st.sb->length();
		if (n < (int)old) return "!shrunk";
		if (memcmp(st.sb->data(), st.written.data(), old) != 0) return "!earlier-bytes-changed";
		app.assign((const char*)st.sb->data() + old, n - old);
	}
	else if (st.kind == K_FILE) {
		st.wf->flush();
		struct stat sd;
		if (fstat(st.rawfd, &sd) != 0) return "!fstat";
		size_t old = st.written.size();
		if ((size_t)sd.st_size < old) return "!shrunk";
		app.resize(sd.st_size - old);
		size_t got = 0;
		while (got < app.size()) {
			ssize_t k = pread(st.rawfd, &app[got], app.size() - got, old + got);
			if (k <= 0) return "!pread";
			got += k;
		}
	}
	else if (st.kind == K_SOCK) {
		char buf[65536];
		for (;;) {
			ssize_t k = recv(st.peerfd, buf, sizeof buf, MSG_DONTWAIT);
			if (k > 0) { app.append(buf, k); continue; }
			if (k < 0 && errno == EINTR) continue;
			break;
		}
	}
	st.written += app;
	return hex(app);
}

template <class S> static std::string writeOn(S& s, const Toks& t)
{
	const std::string& op = t[0];
	if (op == "endian" && t.size() == 2) {
		Endian e = ENDIAN_LITTLE; bool d;
		if (!parseEndian(t[1], e, d)) return "bad-op";
		if (!d) s.setEndian(e);
		return "ok";
	}
	if (op == "w" && t.size() == 3) {
		U64 u;
		if (!widthOf(t[1]) || !parseU64(t[2], u) || t[2] == "-") return "bad-op";
		argFault.clear();
		wScalar(s, t[1], u);
		std::string o = observe();
		return argFault.empty() ? o : argFault;
	}
	if (op == "wa" && t.size() == 3) {
		int w = widthOf(t[1]);
		if (!w || !validHex(t[2])) return "bad-op";
		std::string blob = unhex(t[2]);
		if (blob.size() % w) return "bad-op";
		argFault.clear();
		wArray(s, t[1], blob);
		std::string o = observe();
		return argFault.empty() ? o : argFault;
	}
	if (op == "wv" && t.size() == 2) {
		if (t[1].empty() || t[1].size() > 9) return "bad-op";
		for (size_t i = 0; i < t[1].size(); i++) if (t[1][i] < '0' || t[1][i] > '9') return "bad-op";
		int k = (int)(num(t[1]) % NSLOT);
		if (slotTy[k].empty()) return "no-var";
		wSlot(s, k);
		std::string o = observe();
		return o + " " + dumpSlot(k); // bytes appended, then the caller's array as it is now
	}
	if (op == "was") {
		for (size_t i = 1; i < t.size(); i++) if (!validHex(t[i])) return "bad-op";
		Array<String> a;
		for (size_t i = 1; i < t.size(); i++) { std::string d = unhex(t[i]); a << String(d.data(), (int)d.size()); }
		s << (const Array<String>&)a;
		for (size_t i = 1; i < t.size(); i++) { std::string d = unhex(t[i]); if (a[(int)i - 1].length() != (int)d.size() || memcmp(*a[(int)i - 1], d.data(), d.size())) return "err array-argument-modified-by-the-write"; }
		return observe();
	}
	if ((op == "wb" || op == "ws" || op == "wz" || op == "wc") && t.size() == 2) {
		if (!validHex(t[1])) return "bad-op";
		Exact d(unhex(t[1]));
		if (op == "wc") { char* p = d.p; s << p; return observe(); } // a non-const pointer to a C string
		if (op == "wb") { ByteArray a((const byte*)d.p, (int)d.n); s << a; }
		else if (op == "ws") { String x(d.p, (int)d.n); s << x; }
		else s << (const char*)d.p;
		return observe();
	}
	return "bad-op";
}

// ---- fragmented delivery (`readerf`): the peer of the reader socket is a thread that writes the observed bytes in pieces.
// A read of `need` bytes at position pos gets the pieces up to the first cut at or after pos + need; every piece after the
// first goes out only when the reader has taken everything delivered before (FIONREAD on its descriptor is 0), so a value
// that contains a cut reaches the reader in two or more recv() calls whatever the scheduling.
static size_t nextCut(size_t from)
{
	size_t c = st.written.size();
	for (size_t i = 0; i < st.cuts.size(); i++) if (st.cuts[i] > from && st.cuts[i] < c) c = st.cuts[i];
	return c;
}

static bool feedPiece()
{
	size_t c = nextCut(st.fed);
	while (st.fed < c) {
		ssize_t k = send(st.feedfd, st.written.data() + st.fed, c - st.fed, MSG_NOSIGNAL);
		if (k < 0 && errno == EINTR) continue;
		if (k <= 0) return false;
		st.fed += k;
	}
	if (st.fed == st.written.size()) shutdown(st.feedfd, SHUT_WR);
	return true;
}

struct Feeder {
	pthread_t th;
	bool started;
	size_t end;
	static void* run(void* p) { ((Feeder*)p)->loop(); return 0; }
	void loop()
	{
		while (st.fed < end) {
			for (int i = 0; i < 40000; i++) { // at most 2 s: a reader that does not take its bytes is not waited for
				int q = 0;
				if (ioctl(st.rfd, FIONREAD, &q) != 0 || q == 0) break;
				usleep(50);
			}
			if (!feedPiece()) break;
		}
	}
	explicit Feeder(size_t need) : started(false), end(0)
	{
		if (st.kind != K_SOCK || !st.frag) return;
		end = st.pos + need;
		if (end > st.written.size()) end = st.written.size();
		if (st.fed >= end) return;
		started = pthread_create(&th, 0, run, this) == 0;
		if (!started) loop();
	}
	~Feeder() { if (started) pthread_join(th, 0); }
};

static int be32(const char* p) { unsigned u = ((unsigned)(byte)p[0] << 24) | ((unsigned)(byte)p[1] << 16) | ((unsigned)(byte)p[2] << 8) | (unsigned)(byte)p[3]; int x; memcpy(&x, &u, 4); return x; }
static int le32(const char* p) { unsigned u = ((unsigned)(byte)p[3] << 24) | ((unsigned)(byte)p[2] << 16) | ((unsigned)(byte)p[1] << 8) | (unsigned)(byte)p[0]; int x; memcpy(&x, &u, 4); return x; }

static std::string step1(const Toks& t);

// every read asked for bytes that are there (the protocol guards the others): the socket must stay healthy
static std::string step(const Toks& t)
{
	std::string r = step1(t);
	if (st.kind == K_SOCK && st.reading && st.rs && st.rs->error() != 0 && r.compare(0, 3, "err") != 0 && t[0] != "state")
		return "err socket-marked-failed-by-a-satisfied-read error=" + str(st.rs->error()) + " (" + r + ")";
	if (st.kind == K_SOCK && !st.reading && st.ws && st.ws->error() != 0 && r.compare(0, 3, "err") != 0 && t[0] != "state")
		return "err socket-marked-failed-by-a-write error=" + str(st.ws->error()) + " (" + r + ")";
	return r;
}

static std::string step1(const Toks& t)
{
	const std::string& op = t[0];
	if (op == "new" && t.size() == 3) {
		Endian e = ENDIAN_LITTLE; bool d;
		int k = t[1] == "sb" ? K_SB : t[1] == "file" ? K_FILE : t[1] == "sock" ? K_SOCK : K_NONE;
		if (k == K_NONE || !parseEndian(t[2], e, d)) return "bad-op";
		reset();
		if (k == K_SB) st.sb = d ? new StreamBuffer() : new StreamBuffer(e);
		else if (k == K_FILE) {
			char name[128];
			snprintf(name, sizeof name, "/tmp/c16h-%d-%d.bin", (int)getpid(), counter++);
			st.path = name;
			st.wf = new File(String(name), File::WRITE);
			if (!*st.wf) return "err cannot-create-temp-file";
			st.rawfd = open(name, O_RDONLY);
			if (st.rawfd < 0) return "err cannot-open-temp-file";
			if (!d) st.wf->setEndian(e);
		}
		else {
			int fds[2];
			if (socketpair(AF_UNIX, SOCK_STREAM, 0, fds) != 0) return "err socketpair";
			st.ws = new Socket(fds[0]);
			st.peerfd = fds[1];
			if (!d) st.ws->setEndian(e);
		}
		st.kind = k;
		return "ok";
	}
	if (st.kind == K_NONE) return "no-stream";

	if ((op == "reader" && t.size() == 2) || (op == "readerf" && t.size() >= 2)) {
		// `readerf <e> <cut>...`: as `reader`; a Socket reader gets the bytes in pieces cut at offsets cut mod (n+1)
		for (size_t j = 2; j < t.size(); j++) {
			if (t[j].empty() || t[j].size() > 9) return "bad-op";
			for (size_t i = 0; i < t[j].size(); i++) if (t[j][i] < '0' || t[j][i] > '9') return "bad-op";
		}
		if (st.reading) return "closed";
		Endian e = ENDIAN_LITTLE; bool d;
		if (!parseEndian(t[1], e, d)) return "bad-op";
		size_t n = st.written.size();
		if (st.kind == K_SB) {
			st.rdata = (byte*)malloc(n ? n : 1); // exact size: an over-read hits the ASan redzone
			memcpy(st.rdata, st.written.data(), n);
			st.sbr = d ? new StreamBufferReader(st.rdata, (int)n) : new StreamBufferReader(st.rdata, (int)n, e);
			st.re = d ? ENDIAN_LITTLE : e;
		}
		else if (st.kind == K_FILE) {
			st.wf->close();
			st.rf = new File(String(st.path.c_str()), File::READ);
			if (!*st.rf) return "err cannot-reopen";
			if (!d) st.rf->setEndian(e);
			st.re = d ? ENDIAN_NATIVE : e;
		}
		else {
			int fds[2];
			if (socketpair(AF_UNIX, SOCK_STREAM, 0, fds) != 0) return "err socketpair";
			st.feedfd = fds[0];
			st.rfd = fds[1];
			if (op == "readerf") {
				st.frag = true;
				st.fed = 0;
				for (size_t j = 2; j < t.size(); j++) st.cuts.push_back((size_t)(num(t[j]) % (long long)(n + 1)));
				if (n == 0) shutdown(st.feedfd, SHUT_WR);
			}
			else {
			size_t sent = 0;
			while (sent < n) {
				ssize_t k = send(st.feedfd, st.written.data() + sent, n - sent, MSG_DONTWAIT | MSG_NOSIGNAL);
				if (k <= 0) return "err feed-short";
				sent += k;
			}
			shutdown(st.feedfd, SHUT_WR); // everything is in the socket buffer: a read past the end returns instead of blocking
			}
			st.rs = new Socket(fds[1]);
			if (!d) st.rs->setEndian(e);
			st.re = d ? ENDIAN_NATIVE : e;
		}
		st.reading = true;
		st.pos = 0;
		return "ok " + str((long long)n);
	}

	if (op == "av" && t.size() == 4) {
		if (t[1].empty() || t[1].size() > 9) return "bad-op";
		for (size_t i = 0; i < t[1].size(); i++) if (t[1][i] < '0' || t[1][i] > '9') return "bad-op";
		int w = widthOf(t[2]);
		if (!w || !validHex(t[3])) return "bad-op";
		std::string blob = unhex(t[3]);
		if (blob.size() % w) return "bad-op";
		setSlot((int)(num(t[1]) % NSLOT), t[2], blob);
		return "ok";
	}
	if (op == "wd" && t.size() == 4) {
		if (st.reading) return "closed";
		int w = widthOf(t[2]);
		if ((t[1] != "stack" && t[1] != "queue") || !w || !validHex(t[3])) return "bad-op";
		std::string blob = unhex(t[3]);
		if (blob.size() % w) return "bad-op";
		if (st.kind == K_SB) return "na"; // StreamBuffer << derived-from-Array does not compile
		argFault.clear();
		if (st.kind == K_FILE) wDerived(*st.wf, t[1], t[2], blob); else wDerived(*st.ws, t[1], t[2], blob);
		std::string o = observe();
		return argFault.empty() ? o : argFault;
	}
	if (op == "wdsb" && t.size() == 2) {
		if (st.reading) return "closed";
		if (!validHex(t[1])) return "bad-op";
		if (st.kind == K_SB) return "na";
		std::string d = unhex(t[1]);
		StreamBuffer o(ENDIAN_BIG);
		o.write(d.data(), (int)d.size());
		if (st.kind == K_FILE) *st.wf << (const StreamBuffer&)o; else *st.ws << (const StreamBuffer&)o;
		return observe();
	}
	if (op == "wca" && t.size() == 2) {
		if (st.reading) return "closed";
		if (!validHex(t[1])) return "bad-op";
		std::string d = unhex(t[1]);
		if (d.size() > 15) return "bad-op";
		if (st.kind == K_SB) wCharBuf(*st.sb, d);
		else if (st.kind == K_FILE) wCharBuf(*st.wf, d);
		else wCharBuf(*st.ws, d);
		return observe();
	}
	if (op == "wcarr" && t.size() == 3) {
		if (st.reading) return "closed";
		int w = widthOf(t[1]);
		if (!w || !validHex(t[2]) || t[1] == "ch") return "bad-op"; // char[N] is a C string (wc / wca)
		std::string blob = unhex(t[2]);
		if (blob.size() % w || blob.empty() || blob.size() / w > 8) return "bad-op";
		if (st.kind != K_SB) return "na";
		wCArray(*st.sb, t[1], blob);
		return observe();
	}
	if (op == "wself" || op == "wselfpart") {
		if (st.reading) return "closed";
		if (st.kind != K_SB) return "na";
		if (op == "wself" && t.size() == 1) {
			*st.sb << **st.sb; // the buffer's own bytes as a ByteArray
			return observe();
		}
		if (op == "wselfpart" && t.size() == 3) {
			for (int j = 1; j < 3; j++) {
				if (t[j].empty() || t[j].size() > 9) return "bad-op";
				for (size_t i = 0; i < t[j].size(); i++) if (t[j][i] < '0' || t[j][i] > '9') return "bad-op";
			}
			long long len = st.sb->length();
			long long a = num(t[1]) % (len + 1);
			long long n = num(t[2]) % (len - a + 1);
			st.sb->write(st.sb->data() + a, (int)n); // a piece of the buffer itself
			return observe();
		}
		return "bad-op";
	}
	bool isWrite = op == "wc" || op == "was" || op == "wv" || op == "endian" || op == "w" || op == "wa" || op == "wb" || op == "ws" || op == "wz";
	if (isWrite) {
		if (st.reading) return "closed";
		if (st.kind == K_SB) return writeOn(*st.sb, t);
		if (st.kind == K_FILE) return writeOn(*st.wf, t);
		return writeOn(*st.ws, t);
	}

	if (op == "state" && t.size() == 1) {
		// what the object reports about itself: a healthy stream has no error and (reader socket) exactly the unread bytes pending
		if (st.kind != K_SOCK) return "na";
		if (!st.reading) return "ok error=" + str(st.ws->error());
		if (st.frag) while (st.fed < st.written.size()) if (!feedPiece()) return "err feed-short"; // available() is asked with everything delivered
		return "ok error=" + str(st.rs->error()) + " available=" + str(st.rs->available());
	}
	bool isRead = op == "rd" || op == "rsame" || op == "ra" || op == "rendian" || op == "r" || op == "rb" || op == "skip" || op == "rs";
	if (!isRead) return "bad-op";
	if (!st.reading) return "not-reading";
	size_t remaining = st.written.size() - st.pos;

	if (op == "rendian" && t.size() == 2) {
		Endian e = ENDIAN_LITTLE; bool d;
		if (!parseEndian(t[1], e, d)) return "bad-op";
		if (!d) {
			if (st.kind == K_SB) st.sbr->setEndian(e);
			else if (st.kind == K_FILE) st.rf->setEndian(e);
			else st.rs->setEndian(e);
			st.re = e;
		}
		return "ok";
	}
	if (op == "r" && t.size() == 2) {
		int w = widthOf(t[1]);
		if (!w) return "bad-op";
		if (remaining < (size_t)w) return "eof";
		if (st.kind != K_SB && t[1] == "b" && (byte)st.written[st.pos] > 1) return "na-bool";
		Feeder fd_((size_t)w);
		std::string r = st.kind == K_SB ? rScalar(*st.sbr, t[1]) : st.kind == K_FILE ? rScalar(*st.rf, t[1]) : rScalar(*st.rs, t[1]);
		st.pos += w;
		if (st.kind == K_SB && (size_t)st.sbr->length() != st.written.size() - st.pos) return "err reader-position";
		return r;
	}
	if (op == "rd" && t.size() == 4) {
		int w = widthOf(t[2]);
		if ((t[1] != "stack" && t[1] != "queue") || !w || t[3].empty() || t[3].size() > 3) return "bad-op";
		for (size_t i = 0; i < t[3].size(); i++) if (t[3][i] < '0' || t[3][i] > '9') return "bad-op";
		int n = (int)num(t[3]);
		if (st.kind == K_SB) return "na";
		if (remaining < (size_t)n * w) return "eof";
		if (t[2] == "b") for (int i = 0; i < n; i++) if ((byte)st.written[st.pos + i] > 1) return "na-bool";
		Feeder fd_((size_t)n * w);
		std::string r = st.kind == K_FILE ? rDerived(*st.rf, t[1], t[2], n) : rDerived(*st.rs, t[1], t[2], n);
		st.pos += (size_t)n * w;
		return r;
	}
	if (op == "ra" && t.size() == 3) {
		int w = widthOf(t[1]);
		if (!w || t[2].empty() || t[2].size() > 3) return "bad-op";
		for (size_t i = 0; i < t[2].size(); i++) if (t[2][i] < '0' || t[2][i] > '9') return "bad-op";
		int n = (int)num(t[2]);
		if (st.kind == K_SB) return "na";
		if (remaining < (size_t)n * w) return "eof";
		if (t[1] == "b") for (int i = 0; i < n; i++) if ((byte)st.written[st.pos + i] > 1) return "na-bool";
		Feeder fd_((size_t)n * w);
		std::string r = st.kind == K_FILE ? rArray(*st.rf, t[1], n) : rArray(*st.rs, t[1], n);
		st.pos += (size_t)n * w;
		return r;
	}
	if ((op == "rb" || op == "skip") && t.size() == 2) {
		for (size_t i = 0; i < t[1].size(); i++) if (t[1][i] < '0' || t[1][i] > '9') return "bad-op";
		if (t[1].empty() || t[1].size() > 18) return "bad-op";
		int n = (int)((U64)num(t[1]) % (U64)(remaining + 1));
		std::string r = "ok";
		Feeder fd_((size_t)n);
		if (op == "rb") {
			if (st.kind == K_SB) { ByteArray a = st.sbr->read(n); r = hex(a.data(), a.length()); }
			else if (st.kind == K_FILE) { ByteArray a(n); int m = st.rf->read(a.data(), n); r = hex(a.data(), m < 0 ? 0 : m); }
			else { ByteArray a = st.rs->read(n); r = hex(a.data(), a.length()); }
		}
		else {
			if (st.kind == K_SB) st.sbr->skip(n);
			else if (st.kind == K_FILE) st.rf->seek(n, File::HERE);
			else st.rs->skip(n);
		}
		st.pos += n;
		return r;
	}
	if (op == "rsame" && t.size() == 2 && !validHex(t[1])) return "bad-op";
	if ((op == "rs" && t.size() == 1) || (op == "rsame" && t.size() == 2)) {
		if (st.kind == K_SB || remaining < 4) return "na";
		const char* p = st.written.data() + st.pos;
		int n;
		if (st.re == ENDIAN_BIG) n = be32(p);
		else if (st.re == ENDIAN_LITTLE) n = le32(p);
		else memcpy(&n, p, 4);
		// Socket: fewer than n bytes pending would block (and n bytes are allocated first): not exercised
		if (st.kind == K_SOCK && n >= 0 && (size_t)n > remaining - 4) return "na";
		size_t take = n < 0 ? 0 : ((size_t)n > remaining - 4 ? remaining - 4 : (size_t)n);
		String x;
		Feeder fd_(4 + take);
		if (st.kind == K_FILE) *st.rf >> x;
		else *st.rs >> x;
		st.pos += 4 + take;
		if (x.length() < 0 || (size_t)x.length() > take) return "err string-of-length-" + str(x.length()) + "-for-prefix-" + str(n);
		return str(x.length()) + " " + hex(*x, x.length());
	}
	return "bad-op";
}

int main()
{
	int rc = run(reset, step);
	reset();
	return rc;
}
