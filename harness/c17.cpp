// C17 correspondence harness: asl::File / asl::TextFile / asl::Directory::copy,move behind the line protocol.
// Files live in per-process scratch directories: dir 1 and dir 2 under /tmp (same device) and, after
// `dev2 1`, dir 2 under /dev/shm (another device, so that rename() fails with EXDEV).
// What was written is also observed with plain POSIX calls (`raw`), and files can be prepared with POSIX
// calls (`rawput`), so that the asl writers and the asl readers are each compared with an outside view.
#include "common.h"
#include <asl/File.h>
#include <asl/TextFile.h>
#include <asl/Directory.h>
#include <asl/Array.h>
#include <sys/stat.h>
#include <sys/types.h>
#include <fcntl.h>
#include <unistd.h>
#include <stdint.h>
using namespace asl;
using namespace vh;

// ---------------------------------------------------------------- canonical output

static uint32_t crcTab[256];
static void crcInit()
{
	for (uint32_t i = 0; i < 256; i++) {
		uint32_t c = i;
		for (int k = 0; k < 8; k++) c = (c & 1) ? (c >> 1) ^ 0xEDB88320u : c >> 1;
		crcTab[i] = c;
	}
}
static uint32_t crcUpd(uint32_t c, const void* p, size_t n)
{
	const unsigned char* b = (const unsigned char*)p;
	for (size_t i = 0; i < n; i++) c = crcTab[(c ^ b[i]) & 0xff] ^ (c >> 8);
	return c;
}
static std::string hex8(uint32_t v) { char b[16]; snprintf(b, sizeof b, "%08x", v); return b; }

static std::string showBytes(const void* p, long long n)
{
	if (n < 0) return str(n) + " negative-length";
	if (n <= 4096) return str(n) + " " + hex(p, (size_t)n);
	return str(n) + " crc:" + hex8(crcUpd(0xffffffffu, p, (size_t)n) ^ 0xffffffffu);
}
static std::string showBytes(const std::string& s) { return showBytes(s.data(), (long long)s.size()); }
static std::string showBytes(const ByteArray& a) { return showBytes(a.data(), a.length()); }
static std::string showBytes(const String& s) { return showBytes(*s, s.length()); }

static std::string showLines(const Array<String>& ls)
{
	long long total = 0;
	for (int i = 0; i < ls.length(); i++) total += ls[i].length() + 1;
	std::string r = "n=" + str(ls.length()) + " ";
	if (total <= 4096) {
		for (int i = 0; i < ls.length(); i++) r += (i ? "," : "") + hex(*ls[i], ls[i].length());
		return r;
	}
	uint32_t c = 0xffffffffu;
	for (int i = 0; i < ls.length(); i++) {
		uint32_t n = (uint32_t)ls[i].length();
		unsigned char le[4] = { (unsigned char)n, (unsigned char)(n >> 8), (unsigned char)(n >> 16), (unsigned char)(n >> 24) };
		c = crcUpd(c, le, 4);
		c = crcUpd(c, *ls[i], n);
	}
	return r + "crc:" + hex8(c ^ 0xffffffffu);
}

// ---------------------------------------------------------------- byte-string tokens

static bool genBytes(const std::string& tok, std::string& out)
{
	size_t dot = tok.find('.');
	if (dot == std::string::npos) return false;
	unsigned long long n = strtoull(tok.c_str() + 1, 0, 10), seed = strtoull(tok.c_str() + dot + 1, 0, 10);
	bool nulFree = tok[0] == 't';
	static unsigned char base[65521];
	uint64_t x = (uint64_t)seed * 2862933555777941757ull + 3037000493ull;
	for (int i = 0; i < 65521; i++) {
		x = x * 6364136223846793005ull + 1442695040888963407ull;
		unsigned v = (unsigned)(x >> 56);
		base[i] = (unsigned char)(nulFree ? v % 255 + 1 : v);
	}
	out.resize(n);
	for (unsigned long long i = 0; i < n; i++) out[i] = (char)base[i % 65521];
	return true;
}

static bool parseBytes(const std::string& tok, std::string& out)
{
	if (tok.empty()) return false;
	if (tok[0] == 'g' || tok[0] == 't') return genBytes(tok, out);
	out = unhex(tok);
	return true;
}

// ---------------------------------------------------------------- scratch directories

static std::string root1, rootx;    // /tmp/aslc17-<pid>-XXXXXX , /dev/shm/aslc17-<pid>-XXXXXX ("" if unavailable)
static bool xdev = false;

static std::string dirOf(int d) { return d == 0 ? root1 + "/d1" : (xdev ? rootx + "/d2" : root1 + "/d2"); }
static std::string pathOf(int p) { return dirOf(p / 2) + (p % 2 ? "/b" : "/a"); }

static int parsePath(const std::string& s)
{
	if (s == "1a") return 0;
	if (s == "1b") return 1;
	if (s == "2a") return 2;
	if (s == "2b") return 3;
	return -1;
}

static void wipe()
{
	const char* names[] = { "/d1/a", "/d1/b", "/d2/a", "/d2/b" };
	for (int i = 0; i < 4; i++) {
		unlink((root1 + names[i]).c_str());
		if (!rootx.empty()) unlink((rootx + names[i]).c_str());
	}
}

static void cleanup()
{
	wipe();
	rmdir((root1 + "/d1").c_str());
	rmdir((root1 + "/d2").c_str());
	rmdir(root1.c_str());
	if (!rootx.empty()) { rmdir((rootx + "/d2").c_str()); rmdir(rootx.c_str()); }
}

static bool setupDirs()
{
	char t[128];
	snprintf(t, sizeof t, "/tmp/aslc17-%d-XXXXXX", (int)getpid());
	if (!mkdtemp(t)) return false;
	root1 = t;
	mkdir((root1 + "/d1").c_str(), 0700);
	mkdir((root1 + "/d2").c_str(), 0700);
	snprintf(t, sizeof t, "/dev/shm/aslc17-%d-XXXXXX", (int)getpid());
	if (mkdtemp(t)) {
		struct stat a, b;
		rootx = t;
		mkdir((rootx + "/d2").c_str(), 0700);
		if (stat(root1.c_str(), &a) || stat(rootx.c_str(), &b) || a.st_dev == b.st_dev) {
			rmdir((rootx + "/d2").c_str());
			rmdir(rootx.c_str());
			rootx = "";
		}
	}
	atexit(cleanup);
	return true;
}

// ---------------------------------------------------------------- POSIX view

static bool rawRead(const std::string& path, std::string& out)
{
	int fd = ::open(path.c_str(), O_RDONLY);
	if (fd < 0) return false;
	out.clear();
	char buf[1 << 16];
	for (;;) {
		ssize_t n = ::read(fd, buf, sizeof buf);
		if (n <= 0) break;
		out.append(buf, (size_t)n);
	}
	::close(fd);
	return true;
}

static bool rawWrite(const std::string& path, const std::string& data)
{
	int fd = ::open(path.c_str(), O_WRONLY | O_CREAT | O_TRUNC, 0600);
	if (fd < 0) return false;
	size_t off = 0;
	while (off < data.size()) {
		ssize_t n = ::write(fd, data.data() + off, data.size() - off);
		if (n <= 0) { ::close(fd); return false; }
		off += (size_t)n;
	}
	::close(fd);
	return true;
}

static std::string rawStr(int p)
{
	std::string c;
	if (!rawRead(pathOf(p), c)) return "absent";
	return showBytes(c);
}

static bool hasNul(const std::string& s) { return s.find('\0') != std::string::npos; }

// ---------------------------------------------------------------- session

struct Sess {
	File* f; TextFile* t; int mode; String line;     // mode: 0 r, 1 w, 2 a, 3 rw
	Sess() : f(0), t(0), mode(0) {}
};
static Sess* sess = 0;

static void closeSess()
{
	if (!sess) return;
	delete sess->f;
	delete sess->t;
	delete sess;
	sess = 0;
}

// ---------------------------------------------------------------- persistent objects (h-operations)
//
// Up to four File / TextFile objects live across operations.  What the library must answer is decided by
// the model; the bookkeeping below only implements the rules of the protocol that both sides apply from the
// operation history alone (see tools/props/c17.py, "protocol of the h-operations"):
//   dirty    - the object is open in a writing mode and something was written since it was opened / flushed:
//              how much of that is on disk is stdio's business, so for every OTHER object and for temporaries
//              the size of the path is printed as `?` and reads of it are refused (`err dirty`); the object
//              itself flushes in size()/content()/text()/firstBytes() and is answered exactly;
//   poisoned - a stat-backed query was made on a CLOSED object while its path was dirty: the size it cached is
//              not determined, its hsize prints `?` until close()/content()/text() discard the cache;
//   spent    - text()/lines() opened or used the object's own handle: where they leave it is not modelled, so
//              read()/lines() through it are refused until it is closed or reopened;
//   ver      - version of the path when the object was opened for reading (a later writer makes it stale for
//              read()/lines(); content()/text()/firstBytes() of an open object go through a fresh handle).
struct HObj {
	File* f; TextFile* t; int path; int mode; bool dirty, poisoned, spent; long ver;   // mode: -1 closed, 0 r, 1 w, 2 a, 3 rw
	HObj() : f(0), t(0), path(0), mode(-1), dirty(false), poisoned(false), spent(false), ver(0) {}
	File* base() { return f ? f : (File*)t; }
};
static HObj* hs[4] = { 0, 0, 0, 0 };
static bool haveFull = false;       // /dev/full is a character device that can be opened for writing
static long pver[4] = { 0, 0, 0, 0 };

static void dropHandle(int i)
{
	if (!hs[i]) return;
	delete hs[i]->f;
	delete hs[i]->t;
	delete hs[i];
	hs[i] = 0;
}

static void hclose(HObj* o)
{
	o->base()->close();
	o->mode = -1; o->dirty = false; o->poisoned = false; o->spent = false;
}

static void closeAllHandles() { for (int i = 0; i < 4; i++) if (hs[i]) hclose(hs[i]); }

static bool pathDirty(int p)
{
	for (int i = 0; i < 4; i++) if (hs[i] && hs[i]->path == p && hs[i]->dirty) return true;
	return false;
}

static bool otherWriter(int self, int p)
{
	for (int i = 0; i < 4; i++) if (i != self && hs[i] && hs[i]->path == p && hs[i]->mode >= 1) return true;
	return false;
}

static void reset()
{
	closeSess();
	for (int i = 0; i < 4; i++) dropHandle(i);
	for (int i = 0; i < 4; i++) pver[i] = 0;
	wipe();
	xdev = false;
}

static String P(int p) { return String(pathOf(p).c_str()); }
static String S(const Exact& e) { return String(e.p, (int)e.n); }
static std::string b01(bool b) { return b ? "1" : "0"; }

static File* anyFile() { return sess->f ? sess->f : (File*)sess->t; }

static std::string linesStr(int p)
{
	return showLines(TextFile(P(p)).lines());
}

static std::string stepOld(const Toks& t)
{
	const std::string& op = t[0];
	static const char* sessionOps[] = { "w", "sb", "ss", "sc", "si", "r", "rl", "rlc", "end", "seek", "pos", 0 };
	bool isSessOp = false;
	for (int i = 0; sessionOps[i]; i++) if (op == sessionOps[i]) isSessOp = true;
	if (!isSessOp) closeSess();

	if (op == "dev2" && t.size() == 2) {
		unlink((root1 + "/d2/a").c_str()); unlink((root1 + "/d2/b").c_str());
		if (!rootx.empty()) { unlink((rootx + "/d2/a").c_str()); unlink((rootx + "/d2/b").c_str()); }
		if (t[1] == "1" && rootx.empty()) return "err nodev";
		xdev = t[1] == "1";
		return "ok";
	}
	std::string bs;
	if ((op == "put" || op == "tput" || op == "tapp" || op == "rawput") && t.size() == 3) {
		int p = parsePath(t[1]);
		if (p < 0 || !parseBytes(t[2], bs)) return "bad-op";
		Exact e(bs);
		if (op == "put") return b01(File(P(p)).put(ByteArray((const byte*)e.p, (int)e.n)));
		if (op == "tput") return b01(TextFile(P(p)).put(S(e)));
		if (op == "tapp") return b01(TextFile(P(p)).append(S(e)));
		return rawWrite(pathOf(p), bs) ? "ok" : "err rawput";
	}
	if (op == "open" && t.size() == 4) {
		int p = parsePath(t[1]);
		int m = t[3] == "r" ? 0 : t[3] == "w" ? 1 : t[3] == "a" ? 2 : t[3] == "rw" ? 3 : -1;
		if (p < 0 || m < 0 || (t[2] != "f" && t[2] != "t")) return "bad-op";
		File::OpenMode om = m == 0 ? File::READ : m == 1 ? File::WRITE : m == 2 ? File::APPEND : File::RW;
		sess = new Sess;
		sess->mode = m;
		bool ok;
		if (t[2] == "f") { sess->f = new File(P(p), om); ok = !!*sess->f; }
		else { sess->t = new TextFile(P(p), om); ok = !!*sess->t; }
		if (!ok) { closeSess(); return "err open"; }
		return "ok";
	}
	if (op == "close" && t.size() == 1) return "ok";
	if ((op == "w" || op == "sb" || op == "ss" || op == "sc") && t.size() == 2) {
		if (!parseBytes(t[1], bs)) return "bad-op";
		if (!sess) return "err nosession";
		if (sess->mode == 0) return "err mode";
		Exact e(bs);
		if (op == "w") {
			if (sess->f) return str(sess->f->write(e.p, (int)e.n));
			return b01(sess->t->write(S(e)));
		}
		if (op == "sb") {
			if (sess->f) *sess->f << ByteArray((const byte*)e.p, (int)e.n);
			else *sess->t << S(e);
			return "ok";
		}
		if (op == "ss") {
			if (sess->f) *sess->f << S(e);
			else *sess->t << S(e);
			return "ok";
		}
		if (sess->f) *sess->f << (const char*)e.p;
		else *sess->t << (const char*)e.p;
		return "ok";
	}
	if (op == "si" && t.size() == 2) {
		if (!sess) return "err nosession";
		if (sess->mode == 0) return "err mode";
		int v = (int)(unsigned)(unsigned long long)num(t[1]);
		if (sess->f) *sess->f << v;
		else *sess->t << v;
		return "ok";
	}
	if (op == "rlc" && t.size() == 2) {
		// readLine(char) is offered in every mode: on an object opened for writing it must come back empty-handed
		std::string d = unhex(t[1]);
		if (d.size() != 1) return "bad-op";
		if (!sess) return "err nosession";
		if (!sess->t) return "err kind";
		if (sess->mode == 3) return "err mode";                 // "r+": reading right after writing is undefined in C
		std::string c;
		if (sess->mode == 0 && rawRead(*sess->t->path(), c) && hasNul(c)) return "err nul";
		String s = sess->t->readLine(d[0]);
		return showBytes(s) + " " + b01(sess->t->end());
	}
	if ((op == "rl" || op == "end") && t.size() == 1) {
		// readLine(String&) and end() are offered in every mode but "r+": after a failed read end() must say so
		if (!sess) return "err nosession";
		if (op == "rl" && !sess->t) return "err kind";
		if (sess->mode == 3) return "err mode";
		if (op == "end") return b01(sess->t ? sess->t->end() : sess->f->end());
		bool r = sess->t->readLine(sess->line);
		if ((int)strlen(*sess->line) != sess->line.length()) return "err strlen-mismatch";
		return b01(r) + " " + showBytes(sess->line) + " " + b01(sess->t->end());
	}
	if (op == "r" || op == "seek" || op == "pos") {
		if (!sess) return "err nosession";
		// read(p, n) is offered in every mode but "r+": through a writer it returns nothing and sets the error indicator
		if (op == "r" ? sess->mode == 3 : sess->mode != 0) return "err mode";
		if (op == "r" && t.size() == 2) {
			long long k = num(t[1]);
			if (k < 0 || k > (1 << 26)) return "bad-op";
			char* buf = (char*)malloc(k ? (size_t)k : 1);
			int n = anyFile()->read(buf, (int)k);
			std::string r = showBytes(buf, n);
			free(buf);
			return r;
		}
		if (op == "seek" && t.size() == 2) {
			Long sz = File(anyFile()->path()).size();
			anyFile()->seek((Long)((unsigned long long)num(t[1]) % (unsigned long long)(sz + 1)));
			return "ok";
		}
		if (op == "pos" && t.size() == 1) return str(anyFile()->position());
		return "bad-op";
	}
	if ((op == "content" || op == "size" || op == "exists" || op == "raw" || op == "text" || op == "lines" || op == "rm") && t.size() == 2) {
		int p = parsePath(t[1]);
		if (p < 0) return "bad-op";
		if (op == "content") return showBytes(File(P(p)).content());
		if (op == "size") return str(File(P(p)).size());
		if (op == "exists") return b01(File(P(p)).exists());
		if (op == "raw") return rawStr(p);
		if (op == "text") return showBytes(TextFile(P(p)).text());
		if (op == "lines") return linesStr(p);
		return b01(Directory::remove(P(p)));
	}
	if (op == "first" && t.size() == 3) {
		int p = parsePath(t[1]);
		long long k = num(t[2]);
		if (p < 0 || k < 0 || k > (1 << 26)) return "bad-op";
		return showBytes(File(P(p)).firstBytes((int)k));
	}
	if ((op == "copy" || op == "move") && t.size() == 3 && t[2] == "full") {
		int p = parsePath(t[1]);
		if (p < 0) return "bad-op";
		if (!haveFull) return "err nofull";
		return b01(op == "copy" ? Directory::copy(P(p), "/dev/full") : Directory::move(P(p), "/dev/full"));
	}
	if ((op == "copy" || op == "move") && t.size() == 3) {
		int p = parsePath(t[1]), q = parsePath(t[2]);
		if (p < 0 || q < 0) return "bad-op";
		return b01(op == "copy" ? Directory::copy(P(p), P(q)) : Directory::move(P(p), P(q)));
	}
	if ((op == "copyd" || op == "moved") && t.size() == 3) {
		int p = parsePath(t[1]);
		long long d = num(t[2]);
		if (p < 0 || (d != 1 && d != 2)) return "bad-op";
		String dir(dirOf((int)d - 1).c_str());
		return b01(op == "copyd" ? File(P(p)).copy(dir) : File(P(p)).move(dir));
	}
	// ---- self-contained operations (scratch files 1a, 1b, 2a)
	if (op == "xshr" && t.size() == 2) {
		// File::operator>>(String&) on a raw file: the string, position(), end()
		if (!parseBytes(t[1], bs)) return "bad-op";
		if (!rawWrite(pathOf(0), bs)) return "err rawput";
		File f(P(0), File::READ);
		if (!f) return "err open";
		String x("junk");
		f >> x;
		if (x.length() < 0 || (*x)[x.length()] != '\0') return "err unterminated";
		return showBytes(x) + " pos=" + str(f.position()) + " end=" + b01(f.end());
	}
	if (op == "xshw" && t.size() == 3) {
		// `f << int(s.length()) << s << tail` then `g >> x` and the rest of the file
		std::string sb, tb;
		if (!parseBytes(t[1], sb) || !parseBytes(t[2], tb)) return "bad-op";
		unlink(pathOf(0).c_str());
		{
			File f(P(0), File::WRITE);
			if (!f) return "err open";
			String s(sb.data(), (int)sb.size());
			if (s.length() != (int)sb.size()) return "err string-ctor";
			ByteArray tail((int)tb.size());
			if (tb.size()) memcpy(&tail[0], tb.data(), tb.size());
			f << int(s.length()) << s << tail;
		}
		File g(P(0), File::READ);
		if (!g) return "err open";
		String x("junk");
		g >> x;
		ByteArray rest((int)tb.size() + 8);
		int m = g.read(&rest[0], rest.length());
		return showBytes(x) + " rest=" + showBytes(&rest[0], m < 0 ? 0 : m) + " end=" + b01(g.end());
	}
	if (op == "xrlw" && t.size() == 2) {
		// the loop driven by the bool result of readLine(String&): delivered strings, the string left by the final
		// `false` call, end()
		if (!parseBytes(t[1], bs)) return "bad-op";
		if (!rawWrite(pathOf(0), bs)) return "err rawput";
		TextFile tf(P(0), File::READ);
		if (!tf) return "err open";
		Array<String> ls;
		String s;
		while (tf.readLine(s)) {
			if ((int)strlen(*s) != s.length()) return "err strlen-mismatch";
			ls << s;
		}
		if ((int)strlen(*s) != s.length()) return "err strlen-mismatch";
		return showLines(ls) + " last=" + showBytes(s) + " end=" + b01(tf.end());
	}
	if ((op == "xlines" || op == "xrl" || op == "xtext" || op == "xcopy") && t.size() == 2) {
		if (!parseBytes(t[1], bs)) return "bad-op";
		if (!rawWrite(pathOf(0), bs)) return "err rawput";
		if (op == "xlines") return linesStr(0);
		if (op == "xtext") return showBytes(TextFile(P(0)).text());
		if (op == "xrl") {
			TextFile tf(P(0), File::READ);
			if (!tf) return "err open";
			Array<String> ls;
			while (!tf.end()) ls << tf.readLine();
			return showLines(ls);
		}
		unlink(pathOf(1).c_str());
		bool ok = Directory::copy(P(0), P(1));
		return b01(ok) + " " + rawStr(1);
	}
	if (op == "xmove" && t.size() == 3) {
		if (!parseBytes(t[2], bs)) return "bad-op";
		unlink((root1 + "/d2/a").c_str()); unlink((root1 + "/d2/b").c_str());
		if (!rootx.empty()) { unlink((rootx + "/d2/a").c_str()); unlink((rootx + "/d2/b").c_str()); }
		if (t[1] == "1" && rootx.empty()) return "err nodev";
		xdev = t[1] == "1";
		if (!rawWrite(pathOf(0), bs)) return "err rawput";
		bool ok = Directory::move(P(0), P(2));
		struct stat sb;
		return b01(ok) + " " + rawStr(2) + " src=" + b01(stat(pathOf(0).c_str(), &sb) == 0);
	}
	if ((op == "xtwice" || op == "xputread" || op == "xreopen") && t.size() == 3) {
		// whole-file readers asked twice / after a lazily opening writer / after reopening, on ONE object
		if (!parseBytes(t[2], bs)) return "bad-op";
		bool isT = t[1] == "t";
		if (!isT && t[1] != "f") return "bad-op";
		unlink(pathOf(0).c_str());
		Exact e(bs);
		std::string r;
		{
			File* f = isT ? 0 : new File(P(0));
			TextFile* tf = isT ? new TextFile(P(0)) : 0;
			File* o = isT ? (File*)tf : f;
			if (op == "xtwice") {
				if (!rawWrite(pathOf(0), bs)) r = "err rawput";
				else if (isT) { r = showBytes(tf->text()); r += " " + showBytes(tf->text()); r += " " + showBytes(o->firstBytes(2)); r += " " + showBytes(tf->text()); }
				else { r = showBytes(o->content()); r += " " + showBytes(o->content()); r += " " + showBytes(o->firstBytes(2)); r += " " + showBytes(o->content()); }
			}
			else if (op == "xputread") {
				if (isT) tf->write(S(e)); else f->put(ByteArray((const byte*)e.p, (int)e.n));
				r = str(o->size());
				r += " " + (isT ? showBytes(tf->text()) : showBytes(o->content()));
				if (isT) tf->write(S(e)); else f->put(ByteArray((const byte*)e.p, (int)e.n));    // the object goes on writing where it was
				r += " " + str(o->size());
			}
			else {
				if (isT) tf->write(S(e)); else f->put(ByteArray((const byte*)e.p, (int)e.n));
				bool ok = isT ? tf->open(File::READ) : f->open(File::READ);
				r = b01(ok) + " " + (isT ? showBytes(tf->text()) : showBytes(o->content()));
			}
			delete f;
			delete tf;
		}
		if (op == "xreopen") r += " " + rawStr(0);
		return r;
	}
	if (op == "xwend" && t.size() == 2) {
		// the documented idiom on an object that has just written: while (!f.end()) f.readLine();
		if (!parseBytes(t[1], bs)) return "bad-op";
		unlink(pathOf(0).c_str());
		Exact e(bs);
		TextFile f(P(0));
		f.write(S(e));
		int n = 0;
		while (!f.end() && n < 100000) { f.readLine(); n++; }
		return str(n);
	}
	if (op == "xdirend" && t.size() == 1) {
		TextFile f(String((root1 + "/d1").c_str()));
		int n = 0;
		while (!f.end() && n < 100000) { f.readLine(); n++; }
		return str(n);
	}
	if (op == "xdircopy" && t.size() == 1) {
		// Directory::copy of a directory (reading the source fails) and a cross-device move of an empty directory
		unlink(pathOf(1).c_str());
		std::string sub = root1 + "/d1/sub", subx = rootx.empty() ? root1 + "/d2/subx" : rootx + "/d2/subx";
		mkdir(sub.c_str(), 0700);
		bool okc = Directory::copy(String(sub.c_str()), P(1));
		unlink(pathOf(1).c_str());
		bool okm = rootx.empty() ? false : Directory::move(String(sub.c_str()), String(subx.c_str()));
		struct stat sb;
		bool there = stat(sub.c_str(), &sb) == 0;
		rmdir(sub.c_str()); unlink(subx.c_str()); rmdir(subx.c_str());
		return b01(okc) + " " + b01(okm) + " src=" + b01(there);
	}
	if (op == "xdirrlc" && t.size() == 1) {
		// readLine(char) on a path that opens but cannot be read must come back (repair 95952ce)
		return showBytes(TextFile(String((root1 + "/d1").c_str())).readLine('\n'));
	}
	if (op == "xwrlc" && t.size() == 2) {
		// readLine(char) through an object that has just written (must come back), then after close()
		if (!parseBytes(t[1], bs)) return "bad-op";
		unlink(pathOf(0).c_str());
		Exact e(bs);
		TextFile f(P(0));
		f.write(S(e));
		std::string r = showBytes(f.readLine('\n'));
		f.close();
		if (hasNul(bs)) return r + " err nul";
		return r + " " + showBytes(f.readLine('\n'));
	}
	if (op == "xdirlines" && t.size() == 1) {
		// a path that can be opened but not read (a directory): fgets fails without reaching the end of the file;
		// lines() must come back (repair 9eba4eb)
		return showLines(TextFile(String((root1 + "/d1").c_str())).lines());
	}
	if (op == "xwlines" && t.size() == 2) {
		// TextFile: write through the object, then lines() of the same object, text(), lines() twice more
		if (!parseBytes(t[1], bs)) return "bad-op";
		unlink(pathOf(0).c_str());
		Exact e(bs);
		TextFile f(P(0));
		f.write(S(e));
		std::string r = showLines(f.lines());
		f.close();
		f.text();
		r += " | " + showLines(f.lines());
		r += " | " + showLines(f.lines());
		return r;
	}
	if (op == "xreadwrite" && t.size() == 4) {
		// a whole-file reader, then a lazily opening writer, on one object that was never opened explicitly
		std::string b1, b2;
		if (!parseBytes(t[2], b1) || !parseBytes(t[3], b2)) return "bad-op";
		bool isT = t[1] == "t";
		if (!isT && t[1] != "f") return "bad-op";
		if (!rawWrite(pathOf(0), b1)) return "err rawput";
		Exact e2(b2);
		bool ok;
		if (isT) { TextFile f(P(0)); f.text(); f.lines(); ok = f.append(S(e2)); }
		else { File f(P(0)); f.content(); f.firstBytes(1); ok = f.put(ByteArray((const byte*)e2.p, (int)e2.n)); }
		return b01(ok) + " " + rawStr(0);
	}
	if (op == "xobjcopy" && t.size() == 4) {
		// File::copy and File::move of an object that still holds unflushed writes
		if (!parseBytes(t[3], bs)) return "bad-op";
		bool isT = t[1] == "t";
		if (!isT && t[1] != "f") return "bad-op";
		unlink((root1 + "/d2/a").c_str());
		if (!rootx.empty()) unlink((rootx + "/d2/a").c_str());
		if (t[2] == "1" && rootx.empty()) return "err nodev";
		xdev = t[2] == "1";
		unlink(pathOf(0).c_str()); unlink(pathOf(1).c_str());
		Exact e(bs);
		std::string r;
		{
			File* f = isT ? 0 : new File(P(0));
			TextFile* tf = isT ? new TextFile(P(0)) : 0;
			File* o = isT ? (File*)tf : f;
			if (isT) tf->write(S(e)); else f->put(ByteArray((const byte*)e.p, (int)e.n));
			bool okc = o->copy(P(1));
			r = b01(okc);
			r += " " + rawStr(1);
			if (isT) tf->write(S(e)); else f->put(ByteArray((const byte*)e.p, (int)e.n));     // goes on writing after the copy
			bool okm = o->move(P(2));
			r += " " + b01(okm);
			delete f;
			delete tf;
		}
		struct stat sb;
		return r + " " + rawStr(2) + " src=" + b01(stat(pathOf(0).c_str(), &sb) == 0);
	}
	if (op == "xfull" && t.size() == 2) {
		// a destination that accepts no byte: copy must not report success, move must keep the source
		if (!parseBytes(t[1], bs)) return "bad-op";
		if (!haveFull) return "err nofull";
		if (!rawWrite(pathOf(0), bs)) return "err rawput";
		bool okc = Directory::copy(P(0), "/dev/full");
		bool okm = Directory::move(P(0), "/dev/full");
		std::string r = b01(okc) + " " + b01(okm);
		return r + " " + rawStr(0);
	}
	if ((op == "xstale" || op == "xstalesize") && t.size() == 4) {
		// an object asks size(), the file is then replaced through a temporary; what does the object say afterwards?
		std::string b1, b2;
		if (!parseBytes(t[2], b1) || !parseBytes(t[3], b2)) return "bad-op";
		bool isT = t[1] == "t";
		if (!isT && t[1] != "f") return "bad-op";
		if (!rawWrite(pathOf(0), b1)) return "err rawput";
		File* f = isT ? 0 : new File(P(0));
		TextFile* tf = isT ? new TextFile(P(0)) : 0;
		File* o = isT ? (File*)tf : f;
		o->size();
		Exact e2(b2);
		TextFile(P(0)).write(S(e2));
		std::string r;
		if (op == "xstalesize") r = str(o->size());
		else r = isT ? showBytes(tf->text()) : showBytes(o->content());
		delete f;
		delete tf;
		return r;
	}
	if (op == "xobj" && t.size() == 6) {
		// ONE object: open(mode), write, a stat-backed query while open, write, close(), then size(), text(), content()
		std::string b1, b2;
		if (!parseBytes(t[4], b1) || !parseBytes(t[5], b2)) return "bad-op";
		bool isT = t[1] == "t";
		if (!isT && t[1] != "f") return "bad-op";
		File::OpenMode om = t[2] == "w" ? File::WRITE : File::APPEND;
		if (t[2] != "w" && t[2] != "a") return "bad-op";
		unlink(pathOf(0).c_str());
		File* f = isT ? 0 : new File(P(0));
		TextFile* tf = isT ? new TextFile(P(0)) : 0;
		File* o = isT ? (File*)tf : f;
		std::string r;
		if (!(isT ? tf->open(om) : f->open(om))) r = "err open";
		else {
			Exact e1(b1), e2(b2);
			if (isT) tf->write(S(e1)); else f->write(e1.p, (int)e1.n);
			const std::string& q = t[3];
			if (q == "size") o->size();
			else if (q == "exists") o->exists();
			else if (q == "isfile") o->isFile();
			else if (q == "isdir") o->isDirectory();
			else if (q == "mtime") o->lastModified();
			if (isT) *tf << S(e2); else *f << ByteArray((const byte*)e2.p, (int)e2.n);
			o->close();
			r = str(o->size());
			if (isT) { r += " " + showBytes(tf->text()); o->close(); }
			r += " " + showBytes(o->content());
		}
		delete f;
		delete tf;
		return r;
	}
	if (op == "xfo" && t.size() == 5) {
		// operations through an object after a FAILED open: File/TextFile(1a, READ) on a missing path (c), or an object of
		// 1b on which open(1a, READ) fails (o); then one lazily opening writer, size(), content()/text(), path()
		bool isT = t[1] == "t";
		if (!isT && t[1] != "f") return "bad-op";
		if (t[2] != "c" && t[2] != "o") return "bad-op";
		const std::string& api = t[3];
		if (isT ? !(api == "w" || api == "a" || api == "p" || api == "s") : api != "p") return "bad-op";
		if (!parseBytes(t[4], bs)) return "bad-op";
		unlink(pathOf(0).c_str());
		if (t[2] == "o" && !rawWrite(pathOf(1), std::string("precious"))) return "err rawput";
		File* f = 0;
		TextFile* tf = 0;
		bool ok;
		if (t[2] == "c") {
			if (isT) tf = new TextFile(P(0), File::READ); else f = new File(P(0), File::READ);
			ok = isT ? !!(*tf) : !!(*f);
		}
		else {
			if (isT) tf = new TextFile(P(1)); else f = new File(P(1));
			ok = isT ? tf->open(P(0), File::READ) : f->open(P(0), File::READ);
		}
		File* o = isT ? (File*)tf : f;
		Exact e(bs);
		bool w;
		if (!isT) w = f->put(ByteArray((const byte*)e.p, (int)e.n));
		else if (api == "w") w = tf->write(S(e));
		else if (api == "a") w = tf->append(S(e));
		else if (api == "p") w = tf->put(S(e));
		else { *tf << S(e); w = !!(*tf); }
		std::string r = "open=" + b01(ok) + " w=" + b01(w) + " size=" + str(o->size());
		r += " data=" + (isT ? showBytes(tf->text()) : showBytes(o->content()));
		std::string pth = *o->path();
		r += " path=" + std::string(pth == pathOf(0) ? "0" : pth == pathOf(1) ? "1" : "?");
		delete f;
		delete tf;
		return r + " raw0=" + rawStr(0) + " raw1=" + rawStr(1);
	}
	if ((op == "xput" && t.size() == 3) || (op == "xseq" && t.size() == 5)) {
		// one writer (xput) or two writers in a row (xseq) on a fresh path, then the three views of the file
		unlink(pathOf(0).c_str());
		for (size_t k = 1; k + 1 < t.size(); k += 2) {
			if (!parseBytes(t[k + 1], bs)) return "bad-op";
			const std::string& api = t[k];
			Exact e(bs);
			if (api == "put") File(P(0)).put(ByteArray((const byte*)e.p, (int)e.n));
			else if (api == "tput") TextFile(P(0)).put(S(e));
			else if (api == "tapp") TextFile(P(0)).append(S(e));
			else if (api == "fw") { File f(P(0), File::WRITE); if (!f) return "err open"; f.write(e.p, (int)e.n); }
			else if (api == "fa") { File f(P(0), File::APPEND); if (!f) return "err open"; f.write(e.p, (int)e.n); }
			else if (api == "fsb") { File f(P(0), File::WRITE); if (!f) return "err open"; f << ByteArray((const byte*)e.p, (int)e.n); }
			else if (api == "fss") { File f(P(0), File::WRITE); if (!f) return "err open"; f << S(e); }
			else if (api == "tw") { TextFile f(P(0), File::WRITE); if (!f) return "err open"; f.write(S(e)); }
			else if (api == "ts") { TextFile f(P(0), File::WRITE); if (!f) return "err open"; f << S(e); }
			else return "bad-op";
		}
		Long sz = File(P(0)).size();
		ByteArray c = File(P(0)).content();
		std::string raw;
		bool have = rawRead(pathOf(0), raw);
		bool same = have && (long long)raw.size() == c.length() && memcmp(raw.data(), c.data(), raw.size()) == 0;
		return str(sz) + " " + showBytes(c) + " raw=" + b01(same);
	}
	return "bad-op";
}

static bool dirtyOther(int self, int p)
{
	for (int i = 0; i < 4; i++) if (i != self && hs[i] && hs[i]->path == p && hs[i]->dirty) return true;
	return false;
}

static std::string hstep(const Toks& t)
{
	const std::string& op = t[0];
	if (t.size() < 2 || t[1].size() != 1 || t[1][0] < '0' || t[1][0] > '3') return "bad-op";
	int hi = t[1][0] - '0';
	if (op == "hnew" && t.size() == 4) {
		int p = parsePath(t[2]);
		if (p < 0 || (t[3] != "f" && t[3] != "t")) return "bad-op";
		dropHandle(hi);
		HObj* o = new HObj;
		o->path = p;
		if (t[3] == "f") o->f = new File(P(p)); else o->t = new TextFile(P(p));
		hs[hi] = o;
		return "ok";
	}
	HObj* o = hs[hi];
	if (!o) return "err nohandle";
	int p = o->path;
	if (op == "hopen" && t.size() == 3) {
		int m = t[2] == "r" ? 0 : t[2] == "w" ? 1 : t[2] == "a" ? 2 : t[2] == "rw" ? 3 : -1;
		if (m < 0) return "bad-op";
		if (m >= 1 && otherWriter(hi, p)) return "err busy";
		File::OpenMode om = m == 0 ? File::READ : m == 1 ? File::WRITE : m == 2 ? File::APPEND : File::RW;
		bool wasOpen = o->mode >= 0;
		bool ok = o->f ? o->f->open(om) : o->t->open(om);     // on an open object: the library closes the old handle itself
		if (wasOpen) o->poisoned = false;                       // that close() discarded the cache
		o->dirty = false; o->spent = false;
		o->mode = ok ? m : -1;
		if (!ok) return "err open";
		if (m == 1 || m == 2) pver[p]++;
		o->ver = pver[p];
		return "ok";
	}
	if (op == "hclose" && t.size() == 2) { hclose(o); return "ok"; }
	if (op == "hflush" && t.size() == 2) {
		if (o->mode < 0) return "err closed";
		o->base()->flush();
		o->dirty = false;
		return "ok";
	}
	std::string bs;
	if ((op == "hw" || op == "happ" || op == "hput" || op == "hsh") && t.size() == 3) {
		if (!parseBytes(t[2], bs)) return "bad-op";
		if (op == "happ" && o->f) return "err kind";
		bool needsOpen = o->f && (op == "hw" || op == "hsh");       // File::write / File::operator<< use _file as it is
		if (o->mode < 0 && needsOpen) return "err closed";
		if (o->mode == 0) return "err mode";
		int lazy = op == "happ" ? 2 : 1;                            // append() opens APPEND, the others WRITE
		if (o->mode < 0 && otherWriter(hi, p)) return "err busy";
		Exact e(bs);
		std::string r;
		if (op == "hw") r = o->f ? str(o->f->write(e.p, (int)e.n)) : b01(o->t->write(S(e)));
		else if (op == "happ") r = b01(o->t->append(S(e)));
		else if (op == "hput") r = o->f ? b01(o->f->put(ByteArray((const byte*)e.p, (int)e.n))) : b01(o->t->put(S(e)));
		else { if (o->f) *o->f << ByteArray((const byte*)e.p, (int)e.n); else *o->t << S(e); r = "ok"; }
		if (o->mode < 0 && !!*o->base()) o->mode = lazy;
		if (o->mode >= 1) { o->dirty = true; pver[p]++; o->ver = pver[p]; }
		return r;
	}
	if ((op == "hsize" || op == "hexists" || op == "hisfile" || op == "hisdir" || op == "hmtime") && t.size() == 2) {
		bool other = dirtyOther(hi, p);
		bool own = o->dirty;
		if (o->mode < 0 && other) o->poisoned = true;          // a closed object caches what stat sees now
		if (op == "hsize") {
			Long s = o->base()->size();                         // an open object flushes itself and asks again
			if (o->mode >= 0) o->dirty = false;
			return (other || (o->mode < 0 && o->poisoned)) ? "?" : str(s);
		}
		(void)own;
		if (op == "hexists") return b01(o->base()->exists());
		if (op == "hisfile") return b01(o->base()->isFile());
		if (op == "hisdir") return b01(o->base()->isDirectory());
		o->base()->lastModified();
		return "ok";
	}
	if ((op == "hcontent" && t.size() == 2) || (op == "htext" && t.size() == 2) || (op == "hlines" && t.size() == 2) || (op == "hfirst" && t.size() == 3)) {
		// whole-file readers: an object that is not open opens, reads and closes; an open one (any mode) flushes and
		// reads through a temporary
		if ((op == "htext" || op == "hlines") && !o->t) return "err kind";
		if (dirtyOther(hi, p)) return "err dirty";
		std::string r;
		if (op == "hcontent") r = showBytes(o->base()->content());
		else if (op == "htext") r = showBytes(o->t->text());
		else if (op == "hlines") r = showLines(o->t->lines());
		else {
			long long k = num(t[2]);
			if (k < 0 || k > (1 << 26)) return "bad-op";
			r = showBytes(o->base()->firstBytes((int)k));
		}
		if (!!*o->base() != (o->mode >= 0)) return "err open-state-changed " + r;   // they leave the object as it was
		if (o->mode >= 0) o->dirty = false;                     // they flushed the object
		else o->poisoned = false;                               // they discarded the cache (close() / _info.clear())
		return r;
	}
	if (op == "hr" && t.size() == 3) {
		// read() continues from the object's own position
		if (o->mode >= 1) return "err mode";
		if (o->mode < 0) return "err closed";
		if (pathDirty(p)) return "err dirty";
		if (o->ver != pver[p]) return "err stale";
		long long k = num(t[2]);
		if (k < 0 || k > (1 << 26)) return "bad-op";
		char* buf = (char*)malloc(k ? (size_t)k : 1);
		int n = o->base()->read(buf, (int)k);
		std::string r = showBytes(buf, n);
		free(buf);
		return r;
	}
	if ((op == "hcopy" || op == "hmove") && t.size() == 3) {
		// File::copy / File::move of the object (to a path, or to /dev/full)
		bool full = t[2] == "full";
		int q = full ? -1 : parsePath(t[2]);
		if (!full && q < 0) return "bad-op";
		if (full && !haveFull) return "err nofull";
		for (int i = 0; i < 4; i++) {
			if (!hs[i] || hs[i]->mode < 0) continue;
			if ((i != hi && hs[i]->path == p) || (!full && hs[i]->path == q && i != hi)) return "err busy";
		}
		String to = full ? String("/dev/full") : P(q);
		bool ok = op == "hcopy" ? o->base()->copy(to) : o->base()->move(to);
		if (op == "hcopy") { if (o->mode >= 0) o->dirty = false; }
		else { if (!!*o->base()) return "err still-open"; if (o->mode >= 0) o->poisoned = false; o->mode = -1; o->dirty = false; pver[p]++; }
		if (!full) pver[q]++;
		return b01(ok);
	}
	return "bad-op";
}

static std::string step2(const Toks& t);

// every operation runs under a watchdog: a library call that does not come back (a loop that never ends) is reported
// as a crash (SIGALRM) after 8 s instead of growing until the memory is exhausted
static std::string step(const Toks& t)
{
	alarm(8);
	std::string r = step2(t);
	alarm(0);
	return r;
}

static std::string step2(const Toks& t)
{
	const std::string& op = t[0];
	static const char* hops[] = { "hnew", "hopen", "hclose", "hflush", "hw", "happ", "hput", "hsh", "hsize", "hexists", "hisfile",
		"hisdir", "hmtime", "hcontent", "hfirst", "hr", "htext", "hlines", "hcopy", "hmove", 0 };
	for (int i = 0; hops[i]; i++) if (op == hops[i]) { closeSess(); return hstep(t); }
	// observations through temporaries leave the persistent objects alone; everything else closes them first
	bool obs = op == "raw" || op == "size" || op == "content" || op == "text" || op == "lines" || op == "exists" || op == "first";
	if (!obs) closeAllHandles();
	else if (t.size() >= 2) {
		int p = parsePath(t[1]);
		if (p >= 0 && pathDirty(p) && op != "exists") { closeSess(); return op == "size" ? "?" : "err dirty"; }
	}
	return stepOld(t);
}

int main()
{
	crcInit();
	{ struct stat sf; haveFull = stat("/dev/full", &sf) == 0 && S_ISCHR(sf.st_mode) && access("/dev/full", W_OK) == 0; }
	if (!setupDirs()) { fprintf(stderr, "cannot create scratch directories\n"); return 3; }
	return run(reset, step);
}
