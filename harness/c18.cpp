// C18 correspondence harness: real asl::IniFile and asl::TabularDataFile behind the line protocol.
// IniFile ops act on one file per process (the path is private to this process); the object under
// test lives between `load`/`reopen` and `close`.  Observables are public API only: ok(),
// sectionNames(), values(), const operator[], has(), and the bytes of the file.
#include "common.h"
#include <asl/IniFile.h>
#include <asl/TabularDataFile.h>
#include <asl/TextFile.h>
#include <asl/Var.h>
#include <unistd.h>
#include <signal.h>
#include <sys/stat.h>
#include <math.h>
using namespace asl;
using namespace vh;

static std::string g_path, g_csv;
static IniFile* g_ini = 0;

static String S(const std::string& s) { return String(s.data(), (int)s.size()); }
static std::string hexs(const String& s) { return hex(*s, s.length()); }

static void putFile(const std::string& path, const std::string& text)
{
	FILE* f = fopen(path.c_str(), "wb");
	if (!f) { perror("fopen"); exit(3); }
	if (!text.empty()) fwrite(text.data(), 1, text.size(), f);
	fclose(f);
}

static bool getFile(const std::string& path, std::string& text)
{
	FILE* f = fopen(path.c_str(), "rb");
	if (!f) return false;
	text.clear();
	char buf[4096];
	size_t n;
	while ((n = fread(buf, 1, sizeof buf, f)) > 0) text.append(buf, n);
	fclose(f);
	return true;
}

static std::string fileText(const std::string& path)
{
	std::string t;
	if (!getFile(path, t)) return "nofile";
	return "file " + hex(t);
}

static void setFile(const std::string& arg)
{
	if (arg == "none") unlink(g_path.c_str());
	else putFile(g_path, unhex(arg));
}

static std::string dump(const IniFile& ini)
{
	std::string s = std::string("ok=") + (ini.ok() ? "1" : "0") + " secs=";
	Array<String> names = ini.sectionNames();
	for (int i = 0; i < names.length(); i++) s += (i ? "," : "") + hexs(names[i]);
	s += " vals=";
	Dic<> vals = ini.values();
	int k = 0;
	foreach2(String& key, const String& v, vals)
		s += (k++ ? "," : "") + hexs(key) + "=" + hexs(v);
	return s;
}

static std::string dumpNonEmpty(const IniFile& ini)
{
	std::string s = "vals=";
	Dic<> vals = ini.values();
	int k = 0;
	foreach2(String& key, const String& v, vals)
		if (v.length() > 0)
			s += (k++ ? "," : "") + hexs(key) + "=" + hexs(v);
	return s;
}

// an operation that must return: the process ends with exit code 98 when it has not after a few seconds
static void onAlarm(int)
{
	static const char msg[] = "hang: the operation did not return within its time limit\n";
	if (write(2, msg, sizeof msg - 1) < 0) {}
	_exit(98);
}

static void reset()
{
	if (g_ini) { delete g_ini; g_ini = 0; }
	unlink(g_path.c_str());
	unlink(g_csv.c_str());
}

static bool makeCell(const std::string& c, Var& v)
{
	if (c.compare(0, 2, "s:") == 0) {
		Exact e(unhex(c.substr(2)));
		v = Var(String(e.p, (int)e.n));
		return true;
	}
	if (c.compare(0, 2, "n:") == 0) {
		std::string lex = c.substr(2);
		bool isint = lex.size() <= 9;
		for (size_t j = 0; j < lex.size() && isint; j++)
			if (!(isdigit((unsigned char)lex[j]) || (j == 0 && lex[j] == '-' && lex.size() > 1))) isint = false;
		if (isint && lex != "-0") v = Var(atoi(lex.c_str()));  // an INT Var: printed with %i
		else v = Var(strtod(lex.c_str(), NULL));               // a NUMBER Var: printed with %.15g
		return true;
	}
	return false;
}

// <ncols> <name>*ncols <item>* : writes the table through TabularDataFile into g_csv.
// items: a cell, `[` cells `]` = one array Var handed to operator<<, `=` = the same array Var object again.
// lens receives the lengths the caller's array Vars have after all the writing.
static bool writeTable(const Toks& t0, std::string& lens)
{
	// `tabws/tabrts <sep> <dec> …`: setSeparator / setDecimal before columns()
	Toks t = t0;
	int sep = -1, dec = -1;
	if (t.size() >= 4 && t[0] == "tabrtt") t.erase(t.begin() + 1);   // the readAs string: used by the reader only
	if (t.size() >= 3 && (t[0] == "tabws" || t[0] == "tabrts" || t[0] == "tabrtt")) {
		sep = (int)num(t[1]);
		dec = (int)num(t[2]);
		t.erase(t.begin() + 1, t.begin() + 3);
	}
	if (t.size() < 2) return false;
	size_t n = (size_t)num(t[1]);
	if (t.size() < 2 + n) return false;
	Array<String> cols;
	for (size_t i = 0; i < n; i++) cols << S(unhex(t[2 + i]));
	unlink(g_csv.c_str());
	std::vector<Var*> arrays;
	bool ok = true, open = false;
	{
		TabularDataFile f(S(g_csv));
		if (sep >= 0) f.setSeparator((char)sep);
		if (dec >= 0) f.setDecimal((char)dec);
		f.columns(cols);
		for (size_t i = 2 + n; i < t.size() && ok; i++) {
			const std::string& c = t[i];
			if (c == "[") { if (open) ok = false; else { arrays.push_back(new Var(Var::ARRAY)); open = true; } }
			else if (c == "]") { if (!open) ok = false; else { open = false; f << *arrays.back(); } }
			else if (c == "=") { if (open || arrays.empty()) ok = false; else f << *arrays.back(); }
			else {
				Var v;
				if (!makeCell(c, v)) ok = false;
				else if (open) *arrays.back() << v;
				else f << v;
			}
		}
		if (open) ok = false;
	}
	lens.clear();
	for (size_t i = 0; i < arrays.size(); i++) {
		lens += (i ? "," : " lens=") + str(arrays[i]->length());
		delete arrays[i];
	}
	return ok;
}

static std::string readTable(const char* types = 0)
{
	TabularDataFile f(S(g_csv));
	if (types) f.readAs(String(types));
	Array<Array<Var> > d = f.data();
	const Array<String>& cols = f.columns();
	std::string s = "cols=";
	for (int i = 0; i < cols.length(); i++) s += (i ? "," : "") + hexs(cols[i]);
	s += " rows=";
	for (int i = 0; i < d.length(); i++) {
		if (i) s += ";";
		for (int j = 0; j < d[i].length(); j++) {
			if (j) s += ",";
			const Var& v = d[i][j];
			if (v.is(Var::STRING)) s += "s" + hexs(v.toString());
			else if (v.is(Var::INT)) s += "i" + str((int)v);
			else if (v.is(Var::NUMBER)) {
				char b[64];
				snprintf(b, sizeof b, "%.15g", (double)v);
				s += "n" + hex(b, strlen(b));
			}
			else s += "?";
		}
	}
	return s;
}

static std::string step(const Toks& t)
{
	const std::string& op = t[0];
	if (op == "load" && t.size() == 3) {
		if (g_ini) { delete g_ini; g_ini = 0; }
		setFile(t[1]);
		g_ini = new IniFile(S(g_path), t[2] == "1");
		return dump(*g_ini);
	}
	if (op == "reopen" && t.size() == 2) {
		if (g_ini) return "err open";
		g_ini = new IniFile(S(g_path), t[1] == "1");
		return dump(*g_ini);
	}
	if ((op == "set" || op == "put") && t.size() == 3) {
		if (!g_ini) return "err closed";
		Exact n(unhex(t[1])), v(unhex(t[2]));
		if (op == "set") g_ini->set(String(n.p, (int)n.n), String(v.p, (int)v.n));
		else (*g_ini)[String(n.p, (int)n.n)] = String(v.p, (int)v.n);
		return "ok";
	}
	if (op == "get" && t.size() == 2) {
		if (!g_ini) return "err closed";
		Exact n(unhex(t[1]));
		const IniFile& c = *g_ini;
		String name(n.p, (int)n.n);
		bool h = c.has(name);
		String v = c[name];
		return std::string(h ? "1 " : "0 ") + hexs(v);
	}
	if (op == "vals" && t.size() == 1) {
		if (!g_ini) return "err closed";
		return dump(*g_ini);
	}
	if (op == "write" && t.size() == 1) {
		if (!g_ini) return "err closed";
		g_ini->write();
		return fileText(g_path);
	}
	if (op == "close" && t.size() == 1) {
		if (!g_ini) return "err closed";
		delete g_ini;
		g_ini = 0;
		return fileText(g_path);
	}
	if (op == "fresh" && t.size() == 1) {
		IniFile f(S(g_path), false);
		return dump(f);
	}
	if (op == "inirt" && t.size() >= 3 && (t.size() - 3) % 2 == 0) {
		if (g_ini) { delete g_ini; g_ini = 0; }
		setFile(t[2]);
		{
			IniFile ini(S(g_path));
			for (size_t i = 3; i + 1 < t.size(); i += 2) {
				Exact n(unhex(t[i])), v(unhex(t[i + 1]));
				ini.set(String(n.p, (int)n.n), String(v.p, (int)v.n));
			}
			if (t[1][0] == 'w') ini.write();
		}
		IniFile f(S(g_path), false);
		return dumpNonEmpty(f);
	}
	if (op == "inidir" && t.size() >= 2 && t.size() % 2 == 0) {
		// an IniFile on a path that opens but cannot be read (a directory): the constructor must return
		if (g_ini) { delete g_ini; g_ini = 0; }
		std::string dir = g_path + ".d";
		rmdir(dir.c_str());
		if (mkdir(dir.c_str(), 0700) != 0) return "err mkdir";
		signal(SIGALRM, onAlarm);
		alarm(t[1] == "1" ? 2 : 5);   // with shouldwrite the unrepaired loop also eats memory
		std::string out;
		{
			IniFile ini(S(dir), t[1] == "1");
			out = dump(ini);
			for (size_t i = 2; i + 1 < t.size(); i += 2) {
				Exact n(unhex(t[i])), v(unhex(t[i + 1]));
				ini.set(String(n.p, (int)n.n), String(v.p, (int)v.n));
			}
			out += " | " + dump(ini);
		}
		alarm(0);
		struct stat sb;
		bool still = stat(dir.c_str(), &sb) == 0 && S_ISDIR(sb.st_mode);
		rmdir(dir.c_str());
		return out + (still ? " | dir" : " | changed");
	}
	if (op == "tabw" || op == "tabws") {
		std::string lens;
		if (!writeTable(t, lens)) return "bad-op";
		std::string text;
		getFile(g_csv, text);
		return hex(text) + lens;
	}
	if (op == "tabrt" || op == "tabrtx" || op == "tabrts") {
		std::string lens;
		if (!writeTable(t, lens)) return "bad-op";
		return readTable();
	}
	if (op == "tabrtt" && t.size() >= 5) {
		std::string ty = t[1] == "-" ? "" : t[1];
		std::string lens;
		if (!writeTable(t, lens)) return "bad-op";
		return readTable(ty.c_str());
	}
	if (op == "tabreadt" && t.size() == 3) {
		std::string ty = t[1] == "-" ? "" : t[1];
		putFile(g_csv, unhex(t[2]));
		return readTable(ty.c_str());
	}
	if (op == "tabread" && t.size() == 2) {
		putFile(g_csv, unhex(t[1]));
		return readTable();
	}
	if (op == "atof" && t.size() == 2) {
		Exact e(unhex(t[1]));
		char b[64];
		snprintf(b, sizeof b, "%.15g", myatof(e.p));
		return hex(b, strlen(b));
	}
	return "bad-op";
}

int main()
{
	const char* tmp = getenv("TMPDIR");
	char buf[512];
	snprintf(buf, sizeof buf, "%s/asl_c18_%d", tmp ? tmp : "/tmp", (int)getpid());
	g_path = std::string(buf) + ".ini";
	g_csv = std::string(buf) + ".csv";
	int r = run(reset, step);
	reset();
	return r;
}
