// C19 correspondence harness: real asl::Date behind the line protocol.
// Time values travel as integer milliseconds since the epoch; TZ is forced to UTC so that the
// "no zone designator = local time" path of the parsers is the identity offset.
// Every instant is also judged by an independent oracle written here (Hinnant's civil_from_days /
// days_from_civil + snprintf): `inst` lines end with or=ok | or=BAD:<what>, scans print `bad <ms> <what>`.
#include "common.h"
#include <asl/Date.h>
#include <asl/String.h>
#include <math.h>
#include <time.h>
#include <stdint.h>
using namespace asl;
using namespace vh;

typedef long long ll;

static const ll MS_MIN = -62135596800000LL, MS_MAX = 253402300799999LL;   // 0001-01-01T00:00:00.000 .. 9999-12-31T23:59:59.999
static const ll DAY_MIN = -719162, DAY_MAX = 2932896;

static String S(const std::string& s) { return String(s.data(), (int)s.size()); }

static ll floordiv(ll a, ll b) { ll q = a / b; return (a % b != 0 && ((a < 0) != (b < 0))) ? q - 1 : q; }
static ll floormod(ll a, ll b) { return a - floordiv(a, b) * b; }

static std::string tstr(double t)
{
	if (t != t) return "nan";
	if (fabs(t) > 9.0e15) return "huge";
	return str(llround(t * 1000.0));
}


// ---- independent oracle (Howard Hinnant, "chrono-compatible low-level date algorithms")
static void civil_from_days(ll z, int& y, int& m, int& d)
{
	z += 719468;
	ll era = floordiv(z, 146097);
	ll doe = z - era * 146097;
	ll yoe = (doe - doe / 1460 + doe / 36524 - doe / 146096) / 365;
	ll yy = yoe + era * 400;
	ll doy = doe - (365 * yoe + yoe / 4 - yoe / 100);
	ll mp = (5 * doy + 2) / 153;
	d = (int)(doy - (153 * mp + 2) / 5 + 1);
	m = (int)(mp < 10 ? mp + 3 : mp - 9);
	y = (int)(yy + (m <= 2));
}

static std::string fieldsStr(const DateData& p)
{
	char b[160];
	snprintf(b, sizeof b, "%d %d %d %d %d %d %d", p.year, p.month, p.day, p.hours, p.minutes, p.seconds, p.weekDay);
	return b;
}

static std::string raw(const String& s) { return std::string(*s, s.length()); }

// everything observable about one instant; `why` receives the oracle's verdict ("" = ok)
static ll roundMs(ll us) { return floordiv(us + 500, 1000); }

// the instant is given in microseconds (the double us / 1e6); `ms` below is the nearest millisecond (ties up), which is
// what every field, every format and the FULL round trip must show
static std::string instLineCore(double t, ll ms, std::string& why);
static std::string instLineU(ll us, std::string& why) { return instLineCore(us / 1000000.0, roundMs(us), why); }

// `ms`: the millisecond instant that every observable of Date(t) must show
static std::string instLineCore(double t, ll ms, std::string& why)
{
	why = "";
	Date   d(t);
	DateData p = d.splitUTC();
	Date   mk(Date::UTC, p.year, p.month, p.day, p.hours, p.minutes, p.seconds);
	String L = d.toUTCString(Date::LONG), Sh = d.toUTCString(Date::SHORT), D = d.toUTCString(Date::DATE_ONLY),
	       H = d.toUTCString(Date::HTTP), F = d.toUTCString(Date::FULL);
	double rl = Date(L).time(), rs = Date(Sh).time(), rh = Date(H).time(), rf = Date(F).time();
	std::string line = "f=" + fieldsStr(p) + " mk=" + tstr(mk.time()) + " L=" + raw(L) + " S=" + raw(Sh) + " D=" + raw(D) +
	                   " H=" + raw(H) + " F=" + raw(F) + " rt=" + tstr(rl) + " " + tstr(rs) + " " + tstr(rh) + " " + tstr(rf);
	// ---- oracle
	ll secs = floordiv(ms, 1000), msp = floormod(ms, 1000);
	ll day = floordiv(secs, 86400), sod = floormod(secs, 86400);
	int y, m, dd;
	civil_from_days(day, y, m, dd);
	int hh = (int)(sod / 3600), mi = (int)(sod % 3600 / 60), ss = (int)(sod % 60);
	int wd = (int)floormod(4 + day, 7);
	{ double tr = floor(floor(t * 1000 + 0.5) / 1000);   // the floating-point steps of Date::calc that the model abstracts
	  if (tr != (double)secs) why += " fp-round";
	  if ((ll)floor(tr * (1 / 86400.0)) != day || (ll)floor(tr / 86400.0) != day) why += " fp-day"; }
	if (p.year != y || p.month != m || p.day != dd) why += " date-fields";
	if (p.hours != hh || p.minutes != mi || p.seconds != ss) why += " time-fields";
	if (p.weekDay != wd) why += " weekday";
	if (tstr(mk.time()) != str(secs * 1000)) why += " construct";
	static const char* wdn[] = { "Sun", "Mon", "Tue", "Wed", "Thu", "Fri", "Sat" };
	static const char* mnn[] = { "Jan", "Feb", "Mar", "Apr", "May", "Jun", "Jul", "Aug", "Sep", "Oct", "Nov", "Dec" };
	char b[96];
	snprintf(b, sizeof b, "%04d-%02d-%02dT%02d:%02d:%02dZ", y, m, dd, hh, mi, ss);
	if (raw(L) != b) why += " fmt-long";
	snprintf(b, sizeof b, "%04d%02d%02dT%02d%02d%02dZ", y, m, dd, hh, mi, ss);
	if (raw(Sh) != b) why += " fmt-short";
	snprintf(b, sizeof b, "%04d-%02d-%02dZ", y, m, dd);
	if (raw(D) != b) why += " fmt-date";
	snprintf(b, sizeof b, "%s, %02d %s %04d %02d:%02d:%02d GMT", wdn[wd], dd, mnn[m - 1], y, hh, mi, ss);
	if (raw(H) != b) why += " fmt-http";
	snprintf(b, sizeof b, "%04d-%02d-%02dT%02d:%02d:%02d.%03dZ", y, m, dd, hh, mi, ss, (int)msp);
	if (raw(F) != b) why += " fmt-full";
	if (tstr(rl) != str(secs * 1000)) why += " parse-long";
	if (tstr(rs) != str(secs * 1000)) why += " parse-short";
	if (tstr(rh) != str(secs * 1000)) why += " parse-http";
	if (tstr(rf) != str(ms)) why += " parse-full";
	return line;
}

static uint64_t fnv(uint64_t h, const std::string& s)
{
	for (size_t i = 0; i < s.size(); i++) { h ^= (unsigned char)s[i]; h *= 1099511628211ULL; }
	return h;
}

static std::string instLine(ll ms, std::string& why) { return instLineU(ms * 1000, why); }

static ll usOfDay(ll day, ll mode)
{
	static const ll e[6] = { 100, 200, 300, 700, 800, 900 };
	if (mode == 0) return 0;
	if (mode == 1) return floormod(day * 7919, 1000) * 1000;
	return -e[floormod(day * 7919, 6)];
}

static std::string u64(uint64_t v) { char b[32]; snprintf(b, sizeof b, "%llu", (unsigned long long)v); return b; }

static bool fmtOf(const std::string& k, Date::Format& f)
{
	if (k == "0") f = Date::LONG; else if (k == "1") f = Date::SHORT; else if (k == "2") f = Date::DATE_ONLY;
	else if (k == "3") f = Date::HTTP; else if (k == "4") f = Date::FULL; else return false;
	return true;
}

static bool isInt(const std::string& s)
{
	size_t i = (s.size() && s[0] == '-') ? 1 : 0;
	if (i >= s.size() || s.size() > 19) return false;
	for (; i < s.size(); i++) if (s[i] < '0' || s[i] > '9') return false;
	return true;
}

// the double x as n / 2^k in lowest terms (0 = 0 / 2^0); false if it is not of that form with k >= 0
static bool dyad(double x, ll& n, ll& k)
{
	n = 0; k = 0;
	if (x == 0) return true;
	int e;
	double f = frexp(x, &e);                     // x = f * 2^e, 0.5 <= |f| < 1
	n = (ll)ldexp(f, 53);                        // exact: a 53-bit integer
	k = 53 - e;
	if (k < 0) return false;
	while (k > 0 && n % 2 == 0) { n /= 2; k--; }
	return true;
}

// a Date's stored double in lowest terms n / 2^k, the library's floor(t*1000+0.5) on it, splitUTC() and toUTCString(FULL)
static std::string dblLine(const Date& d)
{
	ll n, k;
	if (!dyad(d.time(), n, k)) return "err exponent";
	ll r = (ll)floor(d.time() * 1000 + 0.5);
	String F = d.toUTCString(Date::FULL);
	return str(n) + " " + str(k) + " " + str(r) + " " + fieldsStr(d.splitUTC()) + " " + raw(F);
}

static std::string step(const Toks& t)
{
	const std::string& op = t[0];
	if (op == "split" && t.size() == 2 && isInt(t[1])) {
		ll ms = num(t[1]);
		if (ms < MS_MIN || ms > MS_MAX) return "range";
		return fieldsStr(Date(ms / 1000.0).splitUTC());
	}
	if (op == "make" && t.size() == 7) {
		for (int i = 1; i < 7; i++) if (!isInt(t[i])) return "bad-op";
		Date d(Date::UTC, (int)num(t[1]), (int)num(t[2]), (int)num(t[3]), (int)num(t[4]), (int)num(t[5]), (int)num(t[6]));
		return tstr(d.time());
	}
	if (op == "fmt" && t.size() == 3 && isInt(t[2])) {
		Date::Format f;
		if (!fmtOf(t[1], f)) return "bad-op";
		ll ms = num(t[2]);
		if (ms < MS_MIN || ms > MS_MAX) return "range";
		String s = Date(ms / 1000.0).toUTCString(f);
		if ((int)strlen(*s) != s.length()) return "err strlen-mismatch";
		return hex(*s, s.length());
	}
	if (op == "rt" && t.size() == 3 && isInt(t[2])) {
		Date::Format f;
		if (!fmtOf(t[1], f)) return "bad-op";
		ll ms = num(t[2]);
		if (ms < MS_MIN || ms > MS_MAX) return "range";
		return tstr(Date(Date(ms / 1000.0).toUTCString(f)).time());
	}
	if (op == "parse" && t.size() == 2) {
		Exact e(unhex(t[1]));
		String s(e.p, (int)e.n);
		return tstr(Date(s).time());
	}
	if (op == "parsefmt" && t.size() == 3) {
		Exact e(unhex(t[1])), f(unhex(t[2]));
		String s(e.p, (int)e.n), fm(f.p, (int)f.n);
		return tstr(Date(s, fm).time());
	}
	if (op == "inst" && t.size() == 2 && isInt(t[1])) {
		ll ms = num(t[1]);
		if (ms < MS_MIN || ms > MS_MAX) return "range";
		std::string why;
		std::string l = instLine(ms, why);
		return l + (why.empty() ? " or=ok" : " or=BAD:" + why);
	}
	bool oracleOnly = (op == "oscan" || op == "osecs");   // impl judged by the built-in oracle only; the model answers "ok"
	if (op == "instu" && t.size() == 2 && isInt(t[1])) {
		ll us = num(t[1]);
		if (roundMs(us) < MS_MIN || roundMs(us) > MS_MAX) return "range";
		std::string why;
		std::string l = instLineU(us, why);
		return l + (why.empty() ? " or=ok" : " or=BAD:" + why);
	}
	if (op == "tieu" && t.size() == 2 && isInt(t[1])) {
		// an instant at (or within the resolution of the double of) half a millisecond: either neighbouring millisecond is a
		// correct rounding, but every field, every format and every round trip must show the SAME one
		ll us = num(t[1]), lo = floordiv(us, 1000);
		if (lo < MS_MIN || lo + 1 > MS_MAX) return "range";
		double tt = us / 1000000.0;
		ll rf = llround(Date(Date(tt).toUTCString(Date::FULL)).time() * 1000.0);
		// what a double can resolve at this instant, in microseconds: outside that distance from the tie the nearest
		// millisecond is determinate (roundMs), inside it either neighbour is a correct rounding
		double ulp = nextafter(fabs(tt), INFINITY) - fabs(tt);
		double tol = fmax(1.0, 4 * ulp * 1e6);
		ll off = floormod(us, 1000) - 500;
		if ((double)llabs(off) > tol) { if (rf != roundMs(us)) return "BAD full-roundtrip " + str(rf) + " expected " + str(roundMs(us)); }
		else if (rf != lo && rf != lo + 1) return "BAD full-roundtrip " + str(rf);
		std::string why;
		instLineCore(tt, rf, why);
		return why.empty() ? "ok" : "BAD" + why;
	}
	if (op == "rtp" && t.size() == 2) {
		// parse, print FULL, parse again: the same instant to the millisecond
		Exact e(unhex(t[1]));
		String s(e.p, (int)e.n);
		double t1 = Date(s).time();
		if (t1 != t1) return "nan";
		if (fabs(t1) > 9.0e15) return "range";
		ll m1 = llround(t1 * 1000.0);
		if (m1 <= MS_MIN || m1 >= MS_MAX) return "range";
		String f = Date(t1).toUTCString(Date::FULL);
		double t2 = Date(f).time();
		double ulp1 = nextafter(fabs(t1), INFINITY) - fabs(t1);
		if (!(fabs(t2 - t1) <= 0.0005 + fmax(1e-6, 4 * ulp1))) return "BAD " + raw(f) + " " + tstr(t2) + " for " + tstr(t1);
		return "ok";
	}
	if (op == "dbl" && t.size() == 2 && isInt(t[1])) {
		// the stored double of a whole-millisecond instant, in lowest terms n / 2^k, the library's floor(t*1000+0.5) on it,
		// and what splitUTC / toUTCString(FULL) show through it
		ll ms = num(t[1]);
		if (ms < MS_MIN || ms > MS_MAX) return "range";
		return dblLine(Date((double)ms / 1000.0));
	}
	if (op == "addsec" && t.size() == 3 && isInt(t[1]) && isInt(t[2])) {
		// Date::operator+(double) (s >= 0) / operator-(double) (s < 0) with a whole number of seconds
		ll ms = num(t[1]), sec = num(t[2]);
		if (ms < MS_MIN || ms > MS_MAX) return "range";
		if (sec > 400000000000LL || sec < -400000000000LL) return "range";
		ll r = ms + 1000 * sec;
		if (r < MS_MIN || r > MS_MAX) return "range";
		Date d((double)ms / 1000.0);
		Date e = sec >= 0 ? d + (double)sec : d - (double)(-sec);
		return dblLine(e);
	}
	if (op == "diff" && t.size() == 3 && isInt(t[1]) && isInt(t[2])) {
		// double Date::operator-(const Date&): the difference in lowest terms n / 2^k and rounded to the millisecond
		ll m1 = num(t[1]), m2 = num(t[2]);
		if (m1 < MS_MIN || m1 > MS_MAX || m2 < MS_MIN || m2 > MS_MAX) return "range";
		Date a((double)m1 / 1000.0), b((double)m2 / 1000.0);
		double x = a - b;
		ll n, k;
		if (!dyad(x, n, k)) return "err exponent";
		return str(n) + " " + str(k) + " " + str((ll)floor(x * 1000 + 0.5));
	}
	if (op == "cmp" && t.size() == 3 && isInt(t[1]) && isInt(t[2])) {
		ll m1 = num(t[1]), m2 = num(t[2]);
		if (m1 < MS_MIN || m1 > MS_MAX || m2 < MS_MIN || m2 > MS_MAX) return "range";
		Date a((double)m1 / 1000.0), b((double)m2 / 1000.0);
		return std::string("lt=") + (a < b ? "1" : "0") + " le=" + (a <= b ? "1" : "0") + " gt=" + (a > b ? "1" : "0");
	}
	if (op == "splitu" && t.size() == 2 && isInt(t[1])) {
		ll us = num(t[1]);
		if (roundMs(us) < MS_MIN || roundMs(us) > MS_MAX) return "range";
		return fieldsStr(Date(us / 1000000.0).splitUTC());
	}
	if (op == "fmtu" && t.size() == 3 && isInt(t[2])) {
		Date::Format f;
		if (!fmtOf(t[1], f)) return "bad-op";
		ll us = num(t[2]);
		if (roundMs(us) < MS_MIN || roundMs(us) > MS_MAX) return "range";
		String s = Date(us / 1000000.0).toUTCString(f);
		return hex(*s, s.length());
	}
	if ((op == "scan" || op == "oscan") && (t.size() == 5 || t.size() == 6) && isInt(t[1]) && isInt(t[2]) && isInt(t[3]) && isInt(t[4]) && (t.size() == 5 || isInt(t[5]))) {
		ll d0 = num(t[1]), n = num(t[2]), sod = num(t[3]), st = num(t[4]), mode = t.size() == 6 ? num(t[5]) : 1;
		if (mode < 0 || mode > 2) return "range";
		if (n < 0 || st < 1 || st > 1000 || d0 < DAY_MIN || d0 + st * (n - 1) > DAY_MAX || n > 100000 || sod < 0 || sod >= 86400) return "range";
		uint64_t h = 14695981039346656037ULL;
		std::string why;
		for (ll i = 0; i < n; i++) {
			ll day = d0 + st * i, us = (day * 86400 + sod) * 1000000 + usOfDay(day, mode);
			if (roundMs(us) < MS_MIN || roundMs(us) > MS_MAX) continue;
			h = fnv(h, instLineU(us, why));
			if (!why.empty()) return "bad us=" + str(us) + why;
		}
		return oracleOnly ? std::string("ok") : "ok " + u64(h);
	}
	if ((op == "secs" || op == "osecs") && t.size() == 4 && isInt(t[1]) && isInt(t[2]) && isInt(t[3])) {
		ll day = num(t[1]), s0 = num(t[2]), n = num(t[3]);
		if (n < 0 || day < DAY_MIN || day > DAY_MAX || s0 < 0 || s0 + n > 86400) return "range";
		uint64_t h = 14695981039346656037ULL;
		std::string why;
		for (ll i = 0; i < n; i++) {
			ll ms = (day * 86400 + s0 + i) * 1000;
			h = fnv(h, instLine(ms, why));
			if (!why.empty()) return "bad " + str(ms) + why;
		}
		return oracleOnly ? std::string("ok") : "ok " + u64(h);
	}
	return "bad-op";
}

int main()
{
	setenv("TZ", "UTC", 1);
	tzset();
	return vh::run([]() {}, step);
}
