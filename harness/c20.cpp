// C20 correspondence harness.
//  * exact part: the real templates Matrix4_<T>, Matrix3_<T>, Quaternion_<T>, Matrix_<T>/solve/solve_ instantiated
//    over the prime field 2^61-1 (class Fp below), so that every result is an exact value that the Lean model
//    (lean/Driver/C20.lean, the expressions regenerated from the headers + the solve_ model) must reproduce.
//  * numeric part (ops starting with 'f'): float / double instantiations judged against long double references
//    with bounds c * eps * condition number; prints `ok` or `fail ...` (the model side prints `ok`).
// The sanitizer build of this template-heavy file is compiled without optimisation (5 s instead of 22 s); the production-build
// pass (-O3, no sanitizer, no ASL_VERIF) compiles the library's templates exactly as a user would.
#ifdef __SANITIZE_ADDRESS__
#pragma GCC optimize ("O0")
#endif
#include "common.h"
#include <stdint.h>
#include <math.h>
#include <float.h>
#include <string.h>
#include <algorithm>

// ---------------------------------------------------------------- exact scalar: integers mod 2^61-1
struct Fp {
	uint64_t v;
	static const uint64_t P = 2305843009213693951ULL;
	Fp() : v(0) {}
	Fp(int x) : v(x >= 0 ? (uint64_t)x % P : (P - (uint64_t)(-(long long)x) % P) % P) {}
	Fp(long long x) : v(x >= 0 ? (uint64_t)x % P : (P - (uint64_t)(-x) % P) % P) {}
	Fp(double d) {   // the only non-integer literals of the templates: (T)0.5, T(PI) (PI stands for the constant 3, see cos/sin below) and the threshold T(4e-15)
		if (d == 0.5) v = (P + 1) / 2; else if (d > 3.14159 && d < 3.1416) v = 3;
		else if (d > 0 && d < 1e-3) v = 7;   // the gimbal-lock threshold literals of eulerAngles (T(2e-6) / T(4e-15)): the constant LIM of the driver
		else if (d == (double)(long long)d && fabs(d) < 1e15) v = Fp((long long)d).v; else { fprintf(stderr, "Fp: unsupported literal %g\n", d); abort(); } }
	static Fp raw(uint64_t x) { Fp r; r.v = x % P; return r; }
};
inline Fp operator+(Fp a, Fp b) { uint64_t s = a.v + b.v; if (s >= Fp::P) s -= Fp::P; return Fp::raw(s); }
inline Fp operator-(Fp a, Fp b) { return Fp::raw(a.v >= b.v ? a.v - b.v : a.v + Fp::P - b.v); }
inline Fp operator-(Fp a) { return Fp::raw(a.v ? Fp::P - a.v : 0); }
inline Fp operator*(Fp a, Fp b) { return Fp::raw((uint64_t)(((unsigned __int128)a.v * b.v) % Fp::P)); }
inline Fp fpow(Fp a, uint64_t e) { Fp r(1); while (e) { if (e & 1) r = r * a; a = a * a; e >>= 1; } return r; }
inline Fp operator/(Fp a, Fp b) { return a * fpow(b, Fp::P - 2); }   // x / 0 = 0, as in the model
inline Fp& operator+=(Fp& a, Fp b) { a = a + b; return a; }
inline Fp& operator-=(Fp& a, Fp b) { a = a - b; return a; }
inline Fp& operator*=(Fp& a, Fp b) { a = a * b; return a; }
inline Fp& operator/=(Fp& a, Fp b) { a = a / b; return a; }
inline bool operator==(Fp a, Fp b) { return a.v == b.v; }
inline bool operator!=(Fp a, Fp b) { return a.v != b.v; }
// order of the balanced representatives in (-P/2, P/2]: a fixed total order, the same one the model driver uses, under which
// `t >= 0` fails for half of the field so that every branch of rotation() is exercised
inline uint64_t fkey(Fp a) { return a.v <= Fp::P / 2 ? a.v + Fp::P : a.v; }
inline bool operator<(Fp a, Fp b) { return fkey(a) < fkey(b); }
inline bool operator>(Fp a, Fp b) { return b < a; }
inline bool operator>=(Fp a, Fp b) { return !(a < b); }
inline bool operator<=(Fp a, Fp b) { return !(b < a); }
inline Fp fabs(Fp a) { return a.v <= Fp::P / 2 ? a : -a; }
inline Fp sqrt(Fp a) { return fpow(a, (Fp::P + 1) / 4); }
// stand-ins for the trigonometric functions (the same ones as AslModel.Fp.trig): the rational parametrisation of the unit
// circle, so that cos^2 + sin^2 = 1 holds exactly and the axis-angle / rotateE code paths can be executed over the field
inline Fp cos(Fp x) { return (Fp(1) - x * x) / (Fp(1) + x * x); }
inline Fp sin(Fp x) { return (Fp(2) * x) / (Fp(1) + x * x); }
inline Fp acos(Fp w) { return sqrt((Fp(1) - w) / (Fp(1) + w)); }
// tangent of the half angle of the point (x, y): cos(atan2(y, x)) = x/r, sin(atan2(y, x)) = y/r whenever r = sqrt(x^2+y^2) exists
inline Fp atan2(Fp y, Fp x) { return y / (sqrt(x * x + y * y) + x); }      // a square root whenever one exists (P = 3 mod 4)

#include <asl/Matrix4.h>
#include <asl/Matrix3.h>
#include <asl/Quaternion.h>
#include <asl/Matrix.h>
#include <asl/Vec3.h>
#include <asl/Vec4.h>

using namespace asl;
using namespace vh;

typedef Matrix4_<Fp> M4;
typedef Matrix3_<Fp> M3;
typedef Quaternion_<Fp> Q;
typedef Matrix_<Fp> MX;

static std::string fs(Fp x) { char b[32]; snprintf(b, sizeof b, "%llu", (unsigned long long)x.v); return b; }

static bool nums(const Toks& t, std::vector<Fp>& v)
{
	for (size_t i = 1; i < t.size(); i++) {
		const std::string& s = t[i];
		if (s.empty() || s.size() > 19) return false;
		for (size_t k = 0; k < s.size(); k++) if (s[k] < '0' || s[k] > '9') return false;
		v.push_back(Fp::raw(strtoull(s.c_str(), 0, 10)));
	}
	return true;
}

static M4 m4of(const std::vector<Fp>& v, size_t o = 0)
{
	// exact-size heap block: the pointer constructor reads m[0..15]
	Fp* p = (Fp*)malloc(16 * sizeof(Fp));
	for (int i = 0; i < 16; i++) p[i] = v[o + i];
	M4 m(p);
	free(p);
	return m;
}
static M3 m3of(const std::vector<Fp>& v, size_t o = 0)
{
	Fp* p = (Fp*)malloc(9 * sizeof(Fp));
	for (int i = 0; i < 9; i++) p[i] = v[o + i];
	M3 m(p);
	free(p);
	return m;
}
static std::string show(const M4& m) { std::string s; for (int i = 0; i < 4; i++) for (int j = 0; j < 4; j++) s += (s.empty() ? "" : " ") + fs(m(i, j)); return s; }
static std::string show(const M3& m) { std::string s; for (int i = 0; i < 3; i++) for (int j = 0; j < 3; j++) s += (s.empty() ? "" : " ") + fs(m(i, j)); return s; }
static std::string show(const Q& q) { return fs(q.w) + " " + fs(q.x) + " " + fs(q.y) + " " + fs(q.z); }
static std::string show(const Vec3_<Fp>& p) { return fs(p.x) + " " + fs(p.y) + " " + fs(p.z); }
static std::string show(const MX& m)
{
	std::string s = str(m.rows()) + " " + str(m.cols());
	for (int i = 0; i < m.rows(); i++) for (int j = 0; j < m.cols(); j++) s += " " + fs(m(i, j));
	return s;
}
static MX dense(int r, int c, const std::vector<Fp>& v, size_t o)
{
	MX m(r, c);
	for (int i = 0; i < r; i++) for (int j = 0; j < c; j++) m(i, j) = v[o + (size_t)c * i + j];
	return m;
}

// ---------------------------------------------------------------- numeric part
typedef long double LD;

// doubles are passed as the 16 hex digits of their IEEE-754 bit pattern; `finite` is cleared for NaN / inf / huge values
static bool dbls(const Toks& t, size_t from, std::vector<double>& v, bool& finite)
{
	for (size_t i = from; i < t.size(); i++) {
		if (t[i].size() != 16) return false;
		for (size_t k = 0; k < 16; k++) if (!isxdigit((unsigned char)t[i][k])) return false;
		uint64_t u = strtoull(t[i].c_str(), 0, 16);
		double d; memcpy(&d, &u, 8);
		if (!(d == d) || fabs(d) > 1e100) finite = false;
		v.push_back(d);
	}
	return true;
}

// Gauss-Jordan with complete pivoting in long double: inverse of an n x n matrix; returns false if singular
static bool ldinv(int n, const std::vector<LD>& a, std::vector<LD>& inv)
{
	std::vector<LD> w(a);
	inv.assign((size_t)n * n, 0);
	for (int i = 0; i < n; i++) inv[(size_t)i * n + i] = 1;
	std::vector<int> colperm(n);
	for (int i = 0; i < n; i++) colperm[i] = i;
	for (int k = 0; k < n; k++) {
		int pr = k, pc = k; LD best = 0;
		for (int i = k; i < n; i++) for (int j = k; j < n; j++) if (fabsl(w[(size_t)i * n + j]) > best) { best = fabsl(w[(size_t)i * n + j]); pr = i; pc = j; }
		if (best == 0) return false;
		for (int j = 0; j < n; j++) { std::swap(w[(size_t)k * n + j], w[(size_t)pr * n + j]); std::swap(inv[(size_t)k * n + j], inv[(size_t)pr * n + j]); }
		for (int i = 0; i < n; i++) std::swap(w[(size_t)i * n + k], w[(size_t)i * n + pc]);
		std::swap(colperm[k], colperm[pc]);
		LD d = w[(size_t)k * n + k];
		for (int j = 0; j < n; j++) { w[(size_t)k * n + j] /= d; inv[(size_t)k * n + j] /= d; }
		for (int i = 0; i < n; i++) if (i != k) {
			LD f = w[(size_t)i * n + k];
			if (f == 0) continue;
			for (int j = 0; j < n; j++) { w[(size_t)i * n + j] -= f * w[(size_t)k * n + j]; inv[(size_t)i * n + j] -= f * inv[(size_t)k * n + j]; }
		}
	}
	// undo the column permutation: row colperm[k] of the true inverse is row k of inv
	std::vector<LD> r((size_t)n * n);
	for (int k = 0; k < n; k++) for (int j = 0; j < n; j++) r[(size_t)colperm[k] * n + j] = inv[(size_t)k * n + j];
	inv = r;
	return true;
}
static LD norminf(int r, int c, const std::vector<LD>& a)
{
	LD m = 0;
	for (int i = 0; i < r; i++) { LD s = 0; for (int j = 0; j < c; j++) s += fabsl(a[(size_t)i * c + j]); if (s > m) m = s; }
	return m;
}
// Leibniz determinant in long double (n <= 4)
static LD lddet(int n, const std::vector<LD>& a)
{
	int p[4] = { 0, 1, 2, 3 };
	LD s = 0;
	do {
		int inv = 0;
		for (int i = 0; i < n; i++) for (int j = i + 1; j < n; j++) if (p[i] > p[j]) inv++;
		LD t = (inv & 1) ? -1 : 1;
		for (int i = 0; i < n; i++) t *= a[(size_t)i * n + p[i]];
		s += t;
	} while (std::next_permutation(p, p + n));
	return s;
}

static std::string failmsg(const char* what, LD got, LD bound)
{
	char b[200];
	snprintf(b, sizeof b, "fail %s residual=%.3Lg bound=%.3Lg", what, got, bound);
	return b;
}

template<class T> struct Eps {};
template<> struct Eps<float> { static LD v() { return FLT_EPSILON; } static const char* n() { return "float"; } };
template<> struct Eps<double> { static LD v() { return DBL_EPSILON; } static const char* n() { return "double"; } };

// fixed-size inverse / det / product (n = 3: Matrix3_<T>, n = 4: Matrix4_<T>)
template<class T, class M>
static std::string fixedInv(int n, const std::vector<double>& v, LD maxcond)
{
	std::vector<LD> a(v.begin(), v.end()), ri;
	std::vector<T> tv(n * n);
	for (int i = 0; i < n * n; i++) { tv[i] = (T)v[i]; a[i] = (LD)tv[i]; }   // the matrix actually given to the library
	if (!ldinv(n, a, ri)) return "ok";
	LD na = norminf(n, n, a), ni = norminf(n, n, ri), cond = na * ni, eps = Eps<T>::v();
	if (cond > maxcond) return "ok";   // outside the quantifier (well-conditioned matrices)
	T* p = (T*)malloc(sizeof(T) * n * n);
	for (int i = 0; i < n * n; i++) p[i] = tv[i];
	M m(p);
	free(p);
	M inv = m.inverse();
	M pr = m * inv, pl = inv * m;
	LD e1 = 0, e2 = 0, e3 = 0;
	for (int i = 0; i < n; i++) for (int j = 0; j < n; j++) {
		e1 = std::max(e1, fabsl((LD)pr(i, j) - (i == j)));
		e2 = std::max(e2, fabsl((LD)pl(i, j) - (i == j)));
		e3 = std::max(e3, fabsl((LD)inv(i, j) - ri[(size_t)i * n + j]));
	}
	LD c = 64;
	std::string tn = Eps<T>::n();
	if (!(e1 <= c * eps * cond)) return failmsg((tn + " M*inverse(M)-I").c_str(), e1, c * eps * cond);
	if (!(e2 <= c * eps * cond)) return failmsg((tn + " inverse(M)*M-I").c_str(), e2, c * eps * cond);
	if (!(e3 <= c * eps * cond * ni)) return failmsg((tn + " inverse(M)-reference").c_str(), e3, c * eps * cond * ni);
	// determinant against the Leibniz sum; error bound relative to the product of the row 1-norms
	LD dref = lddet(n, a), rows = 1;
	for (int i = 0; i < n; i++) { LD s = 0; for (int j = 0; j < n; j++) s += fabsl(a[(size_t)i * n + j]); rows *= s; }
	LD ed = fabsl((LD)m.det() - dref);
	if (!(ed <= c * eps * rows)) return failmsg((tn + " det-reference").c_str(), ed, c * eps * rows);
	// det(M * M^T) = det(M)^2 within the same kind of bound
	M mt = m.transposed();
	LD edm = fabsl((LD)(m * mt).det() - dref * dref);
	if (!(edm <= 4 * c * eps * rows * rows)) return failmsg((tn + " det(M*Mt)-det(M)^2").c_str(), edm, 4 * c * eps * rows * rows);
	return "ok";
}

template<class T>
static std::string fsolve(int r, int cc, int m, const std::vector<double>& v, LD maxcond)
{
	// A is r x cc, b is r x m; r >= cc
	Matrix_<T> A(r, cc), b(r, m);
	std::vector<LD> a((size_t)r * cc), bb((size_t)r * m);
	for (int i = 0; i < r; i++) for (int j = 0; j < cc; j++) { A(i, j) = (T)v[(size_t)i * cc + j]; a[(size_t)i * cc + j] = (LD)A(i, j); }
	for (int i = 0; i < r; i++) for (int j = 0; j < m; j++) { b(i, j) = (T)v[(size_t)r * cc + (size_t)i * m + j]; bb[(size_t)i * m + j] = (LD)b(i, j); }
	// reference: x = (A^T A)^-1 A^T b in long double (for a square A this is A^-1 b)
	std::vector<LD> g((size_t)cc * cc, 0), gi, atb((size_t)cc * m, 0);
	for (int i = 0; i < cc; i++) for (int j = 0; j < cc; j++) for (int k = 0; k < r; k++) g[(size_t)i * cc + j] += a[(size_t)k * cc + i] * a[(size_t)k * cc + j];
	for (int i = 0; i < cc; i++) for (int j = 0; j < m; j++) for (int k = 0; k < r; k++) atb[(size_t)i * m + j] += a[(size_t)k * cc + i] * bb[(size_t)k * m + j];
	std::vector<LD> ai;
	LD cond;
	if (r == cc) {
		if (!ldinv(cc, a, ai)) return "ok";
		cond = norminf(cc, cc, a) * norminf(cc, cc, ai);
	} else {
		if (!ldinv(cc, g, gi)) return "ok";
		cond = norminf(cc, cc, g) * norminf(cc, cc, gi);   // condition number of the normal equations the code solves
	}
	if (cond > maxcond) return "ok";
	std::vector<LD> xr((size_t)cc * m, 0);
	if (r == cc) { for (int i = 0; i < cc; i++) for (int j = 0; j < m; j++) for (int k = 0; k < cc; k++) xr[(size_t)i * m + j] += ai[(size_t)i * cc + k] * bb[(size_t)k * m + j]; }
	else { for (int i = 0; i < cc; i++) for (int j = 0; j < m; j++) for (int k = 0; k < cc; k++) xr[(size_t)i * m + j] += gi[(size_t)i * cc + k] * atb[(size_t)k * m + j]; }
	Matrix_<T> x = solve(A, b);
	if (x.rows() != cc || x.cols() != m) return "fail dims";
	LD eps = Eps<T>::v(), c = 64 * cc;
	std::string tn = Eps<T>::n();
	for (int j = 0; j < m; j++) {
		LD nx = 0, ex = 0;
		for (int i = 0; i < cc; i++) { nx = std::max(nx, fabsl(xr[(size_t)i * m + j])); ex = std::max(ex, fabsl((LD)x(i, j) - xr[(size_t)i * m + j])); }
		// Square systems: elimination with partial pivoting is backward stable, so |x^ - x| <= c eps cond(A) |x|.
		// Over-determined systems are solved through the normal equations G x = A^T b, G = A^T A.  The right-hand side the code
		// forms carries the rounding error |fl(A^T b) - A^T b| <= gamma_r |A|^T |b|, which is NOT small relative to |A^T b| when b is
		// nearly orthogonal to the columns of A (then x itself is tiny); it propagates as G^-1 times that error.  The standard
		// perturbation bound for the normal-equations method (Higham, Accuracy and Stability, 20.4) is therefore
		//   |x^ - x| <= c eps ( cond(G) |x| + |G^-1| | |A|^T |b| | ),
		// and the residual of the normal equations is at most |G| times that.
		LD nab = 0, ni = 0;
		if (r != cc) {
			for (int i = 0; i < cc; i++) { LD t = 0; for (int k = 0; k < r; k++) t += fabsl(a[(size_t)k * cc + i]) * fabsl(bb[(size_t)k * m + j]); nab = std::max(nab, t); }
			ni = norminf(cc, cc, gi);
		}
		LD bx = c * eps * (cond * nx + ni * nab);
		if (!(ex <= bx + LDBL_MIN)) return failmsg((tn + " solve x-reference").c_str(), ex, bx);
		// residual of the (normal) equations
		if (r == cc) {
			LD na = norminf(cc, cc, a), res = 0;
			for (int i = 0; i < cc; i++) { LD s = -bb[(size_t)i * m + j]; for (int k = 0; k < cc; k++) s += a[(size_t)i * cc + k] * (LD)x(k, j); res = std::max(res, fabsl(s)); }
			if (!(res <= c * eps * cond * na * nx + LDBL_MIN)) return failmsg((tn + " solve A*x-b").c_str(), res, c * eps * cond * na * nx);
		} else {
			LD ng = norminf(cc, cc, g), res = 0;
			for (int i = 0; i < cc; i++) { LD s = -atb[(size_t)i * m + j]; for (int k = 0; k < cc; k++) s += g[(size_t)i * cc + k] * (LD)x(k, j); res = std::max(res, fabsl(s)); }
			if (!(res <= ng * bx + LDBL_MIN)) return failmsg((tn + " lstsq AtA*x-Atb").c_str(), res, ng * bx);
		}
	}
	return "ok";
}

// ------------------------------------------------ rotations
struct R3 { LD m[3][3]; };
static R3 ldquat(LD w, LD x, LD y, LD z)   // rotation matrix of a unit quaternion, from the sandwich product q v q*
{
	R3 r;
	LD q[4] = { w, x, y, z };
	for (int c = 0; c < 3; c++) {
		LD v[4] = { 0, 0, 0, 0 }; v[c + 1] = 1;
		// t = q * v
		LD t[4] = { q[0] * v[0] - q[1] * v[1] - q[2] * v[2] - q[3] * v[3],
		            q[0] * v[1] + q[1] * v[0] + q[2] * v[3] - q[3] * v[2],
		            q[0] * v[2] - q[1] * v[3] + q[2] * v[0] + q[3] * v[1],
		            q[0] * v[3] + q[1] * v[2] - q[2] * v[1] + q[3] * v[0] };
		LD k[4] = { q[0], -q[1], -q[2], -q[3] };
		LD u[4] = { t[0] * k[0] - t[1] * k[1] - t[2] * k[2] - t[3] * k[3],
		            t[0] * k[1] + t[1] * k[0] + t[2] * k[3] - t[3] * k[2],
		            t[0] * k[2] - t[1] * k[3] + t[2] * k[0] + t[3] * k[1],
		            t[0] * k[3] + t[1] * k[2] - t[2] * k[1] + t[3] * k[0] };
		for (int i = 0; i < 3; i++) r.m[i][c] = u[i + 1];
	}
	return r;
}
static R3 ldaxis(int ax, LD a)
{
	R3 r; LD c = cosl(a), s = sinl(a);
	for (int i = 0; i < 3; i++) for (int j = 0; j < 3; j++) r.m[i][j] = (i == j);
	int i1 = (ax + 1) % 3, i2 = (ax + 2) % 3;
	r.m[i1][i1] = c; r.m[i1][i2] = -s; r.m[i2][i1] = s; r.m[i2][i2] = c;
	return r;
}
static R3 ldmul(const R3& a, const R3& b)
{
	R3 r;
	for (int i = 0; i < 3; i++) for (int j = 0; j < 3; j++) { LD s = 0; for (int k = 0; k < 3; k++) s += a.m[i][k] * b.m[k][j]; r.m[i][j] = s; }
	return r;
}
template<class T> static LD rdist(const Matrix4_<T>& a, const R3& b)
{
	LD e = 0;
	for (int i = 0; i < 3; i++) for (int j = 0; j < 3; j++) e = std::max(e, fabsl((LD)a(i, j) - b.m[i][j]));
	return e;
}
template<class T> static LD rdist(const Matrix4_<T>& a, const Matrix4_<T>& b)
{
	LD e = 0;
	for (int i = 0; i < 4; i++) for (int j = 0; j < 4; j++) e = std::max(e, fabsl((LD)a(i, j) - (LD)b(i, j)));
	return e;
}

static const char* ORDERS[12] = { "XYZ", "XZY", "YXZ", "YZX", "ZXY", "ZYX", "XYX", "XZX", "YXY", "YZY", "ZXZ", "ZYZ" };

// all conversions starting from one rotation matrix R (reference Rref): quaternion, axis-angle, 24 Euler conventions
template<class T>
static std::string rotAll(const Matrix4_<T>& R, const R3& Rref, const char* origin)
{
	// tight = c*eps for every conversion, at any angle (incl. 10^-k) and at any distance from gimbal lock: going from a rotation
	// to Euler angles and back to a rotation is a well-conditioned problem (only the individual angles are ill-conditioned next to
	// the lock), also for matrices whose small elements carry absolute noise ~eps (those coming from a quaternion).
	LD eps = Eps<T>::v(), tight = 64 * eps;
	std::string tn = std::string(Eps<T>::n()) + " " + origin + " ";
	LD e = rdist(R, Rref);
	if (!(e <= tight)) return failmsg((tn + "matrix-vs-reference").c_str(), e, tight);
	// matrix -> quaternion -> matrix
	Quaternion_<T> q = R.rotation();
	LD ql = fabsl((LD)q.length2() - 1);
	if (!(ql <= tight)) return failmsg((tn + "rotation() not unit").c_str(), ql, tight);
	e = rdist(q.matrix(), Rref);
	if (!(e <= tight)) return failmsg((tn + "rotation().matrix()").c_str(), e, tight);
	// axis-angle (rotation vector) and back, both through the quaternion and through the matrix
	Vec3_<T> v = q.axisAngle();
	if (!((LD)v.length() <= 3.14159265358979323846L * (1 + 8 * eps))) return failmsg((tn + "axisAngle length > pi").c_str(), (LD)v.length(), 3.14159265358979323846L);
	e = rdist(Quaternion_<T>::fromAxisAngle(v).matrix(), Rref);
	if (!(e <= tight)) return failmsg((tn + "fromAxisAngle(q.axisAngle())").c_str(), e, tight);
	e = rdist(Matrix4_<T>::rotate(R.axisAngle()), Rref);
	if (!(e <= tight)) return failmsg((tn + "rotate(R.axisAngle())").c_str(), e, tight);
	// Euler angles, 12 axis orders, moving and fixed frames
	for (int o = 0; o < 12; o++) for (int fixed = 0; fixed < 2; fixed++) {
		char name[8];
		snprintf(name, sizeof name, "%s%s", ORDERS[o], fixed ? "*" : "");
		Vec3_<T> a = R.eulerAngles(name);
		if (!(a.x == a.x && a.y == a.y && a.z == a.z)) return "fail " + tn + "eulerAngles(" + name + ") is NaN";
		// independent composition in long double: moving axes R[a0](x) R[a1](y) R[a2](z); fixed axes = reversed product
		int i0 = name[0] - 'X', i1 = name[1] - 'X', i2 = name[2] - 'X';
		R3 ref = fixed ? ldmul(ldmul(ldaxis(i2, a.z), ldaxis(i1, a.y)), ldaxis(i0, a.x))
		               : ldmul(ldmul(ldaxis(i0, a.x), ldaxis(i1, a.y)), ldaxis(i2, a.z));
		LD e1 = 0;
		for (int i = 0; i < 3; i++) for (int j = 0; j < 3; j++) e1 = std::max(e1, fabsl(ref.m[i][j] - Rref.m[i][j]));
		if (!(e1 <= tight)) return failmsg((tn + "eulerAngles(" + name + ") composed independently").c_str(), e1, tight);
		e = rdist(Matrix4_<T>::rotateE(a, name), Rref);
		if (!(e <= tight)) return failmsg((tn + "rotateE(eulerAngles(" + name + "))").c_str(), e, tight);
	}
	return "ok";
}

template<class T>
static std::string frot(const std::vector<double>& v)
{
	LD w = v[0], x = v[1], y = v[2], z = v[3], n = sqrtl(w * w + x * x + y * y + z * z);
	if (!(n > 1e-6L)) return "ok";
	w /= n; x /= n; y /= n; z /= n;
	Quaternion_<T> q((T)w, (T)x, (T)y, (T)z);
	R3 ref = ldquat(w, x, y, z);
	return rotAll<T>(q.matrix(), ref, "quat");
}

template<class T>
static std::string feuler(const std::string& order, const std::vector<double>& v)
{
	bool fixed = order.size() == 4;
	Vec3_<T> a((T)v[0], (T)v[1], (T)v[2]);
	int i0 = order[0] - 'X', i1 = order[1] - 'X', i2 = order[2] - 'X';
	R3 ref = fixed ? ldmul(ldmul(ldaxis(i2, (LD)a.z), ldaxis(i1, (LD)a.y)), ldaxis(i0, (LD)a.x))
	               : ldmul(ldmul(ldaxis(i0, (LD)a.x), ldaxis(i1, (LD)a.y)), ldaxis(i2, (LD)a.z));
	Matrix4_<T> R = Matrix4_<T>::rotateE(a, order.c_str());
	return rotAll<T>(R, ref, ("euler " + order).c_str());
}

template<class T>
static std::string faxis(const std::vector<double>& v)
{
	// rotation vector (axis * angle), |v| <= pi expected for the round trip of the vector itself
	Vec3_<T> a((T)v[0], (T)v[1], (T)v[2]);
	LD ax = (LD)a.x, ay = (LD)a.y, az = (LD)a.z, ang = sqrtl(ax * ax + ay * ay + az * az);
	R3 ref;
	if (ang == 0) ref = ldquat(1, 0, 0, 0);
	else ref = ldquat(cosl(ang / 2), sinl(ang / 2) * ax / ang, sinl(ang / 2) * ay / ang, sinl(ang / 2) * az / ang);
	Matrix4_<T> R = Matrix4_<T>::rotate(a);
	std::string s = rotAll<T>(R, ref, "axis-angle");
	if (s != "ok") return s;
	LD eps = Eps<T>::v(), loose = 64 * eps * std::max((LD)1, ang);
	if (ang < 3.14159265358979323846L - 1e-3L) {   // at pi the vectors v and -v describe the same rotation
		Vec3_<T> b = R.axisAngle();
		LD e = std::max(fabsl((LD)b.x - ax), std::max(fabsl((LD)b.y - ay), fabsl((LD)b.z - az)));
		if (!(e <= loose)) return failmsg((std::string(Eps<T>::n()) + " axisAngle(rotate(v)) - v").c_str(), e, loose);
	}
	return "ok";
}

static bool validOrder(const std::string& order)
{
	if (order.size() < 3 || order.size() > 4) return false;
	for (int i = 0; i < 3; i++) if (order[i] < 'X' || order[i] > 'Z') return false;
	if (order[0] == order[1] || order[1] == order[2]) return false;
	if (order.size() == 4 && order[3] != '*') return false;
	return true;
}

// ---------------------------------------------------------------- dispatcher
static std::string step(const Toks& t)
{
	const std::string& op = t[0];
	if (op[0] == 'f') {
		std::vector<double> v;
		bool fin = true;
		if (op == "f4inv" || op == "f3inv") {
			if (!dbls(t, 1, v, fin)) return "bad-op";
			int n = op == "f4inv" ? 4 : 3;
			if ((int)v.size() != n * n) return "bad-op";
			if (!fin) return "ok";
			std::string s = n == 4 ? fixedInv<double, Matrix4_<double> >(4, v, 1e9L) : fixedInv<double, Matrix3_<double> >(3, v, 1e9L);
			if (s != "ok") return s;
			return n == 4 ? fixedInv<float, Matrix4_<float> >(4, v, 1e4L) : fixedInv<float, Matrix3_<float> >(3, v, 1e4L);
		}
		if (op == "fsolve" && t.size() >= 4) {
			int r = (int)num(t[1]), c = (int)num(t[2]), m = (int)num(t[3]);
			if (r < 1 || c < 1 || m < 1 || r > 64 || c > r || m > 16) return "bad-op";
			if (!dbls(t, 4, v, fin) || (int)v.size() != r * c + r * m) return "bad-op";
			if (!fin) return "ok";
			std::string s = fsolve<double>(r, c, m, v, r == c ? 1e9L : 1e8L);
			if (s != "ok") return s;
			return fsolve<float>(r, c, m, v, r == c ? 1e4L : 1e3L);
		}
		if (op == "frot") {
			if (!dbls(t, 1, v, fin) || v.size() != 4) return "bad-op";
			if (!fin) return "ok";
			std::string s = frot<double>(v);
			if (s != "ok") return s;
			return frot<float>(v);
		}
		if (op == "feuler" && t.size() == 5) {
			if (!validOrder(t[1]) || !dbls(t, 2, v, fin) || v.size() != 3) return "bad-op";
			if (!fin) return "ok";
			std::string s = feuler<double>(t[1], v);
			if (s != "ok") return s;
			return feuler<float>(t[1], v);
		}
		if (op == "faxis") {
			if (!dbls(t, 1, v, fin) || v.size() != 3) return "bad-op";
			if (!fin) return "ok";
			std::string s = faxis<double>(v);
			if (s != "ok") return s;
			return faxis<float>(v);
		}
		return "bad-op";
	}
	std::vector<Fp> v;
	if (!nums(t, v)) return "bad-op";
	size_t n = v.size();
	if (op == "m4det" && n == 16) return fs(m4of(v).det());
	if (op == "m4inv" && n == 16) return show(m4of(v).inverse());
	if (op == "m4invchk" && n == 16) { M4 m = m4of(v); return show(m * m.inverse()); }
	if (op == "m4mul" && n == 32) return show(m4of(v) * m4of(v, 16));
	if (op == "m4tr" && n == 16) return show(m4of(v).transposed());
	if (op == "m4v4" && n == 20) { Vec4_<Fp> p = m4of(v) * Vec4_<Fp>(v[16], v[17], v[18], v[19]); return fs(p.x) + " " + fs(p.y) + " " + fs(p.z) + " " + fs(p.w); }
	if (op == "m4v3" && n == 19) return show(m4of(v) * Vec3_<Fp>(v[16], v[17], v[18]));
	if (op == "m4mod" && n == 19) return show(m4of(v) % Vec3_<Fp>(v[16], v[17], v[18]));
	if (op == "m4rot" && n == 16) return show(m4of(v).rotation());
	if (op == "m3det" && n == 9) return fs(m3of(v).det());
	if (op == "m3inv" && n == 9) return show(m3of(v).inverse());
	if (op == "m3invchk" && n == 9) { M3 m = m3of(v); return show(m * m.inverse()); }
	if (op == "m3mul" && n == 18) return show(m3of(v) * m3of(v, 9));
	if (op == "m3tr" && n == 9) return show(m3of(v).transposed());
	if (op == "m3v3" && n == 12) return show(m3of(v) * Vec3_<Fp>(v[9], v[10], v[11]));
	if (op == "v3cross" && n == 6) return show(Vec3_<Fp>(v[0], v[1], v[2]) ^ Vec3_<Fp>(v[3], v[4], v[5]));
	if (op == "v3dot" && n == 6) return fs(Vec3_<Fp>(v[0], v[1], v[2]) * Vec3_<Fp>(v[3], v[4], v[5]));
	if (op == "v3lin" && n == 7) { Vec3_<Fp> a(v[0], v[1], v[2]), b(v[3], v[4], v[5]); return show(a + b * v[6] - b); }
	if (op == "v3len2" && n == 3) return fs(Vec3_<Fp>(v[0], v[1], v[2]).length2());
	if (op == "qfaa" && n == 4) return show(Q::fromAxisAngle(Vec3_<Fp>(v[0], v[1], v[2]), v[3]));
	if (op == "qfaau" && n == 4) return show(Q::fromAxisAngleU(Vec3_<Fp>(v[0], v[1], v[2]), v[3]));
	if (op == "qfrv" && n == 3) return show(Q::fromAxisAngle(Vec3_<Fp>(v[0], v[1], v[2])));
	if (op == "qangle" && n == 4) return fs(Q(v[0], v[1], v[2], v[3]).angle());
	if (op == "qaxang" && n == 4) return show(Q(v[0], v[1], v[2], v[3]).axisAngle());
	if (op == "qaart" && n == 4) return show(Q::fromAxisAngle(Q(v[0], v[1], v[2], v[3]).axisAngle()).matrix());
	if (op == "m4rotaa" && n == 4) return show(M4::rotate(Vec3_<Fp>(v[0], v[1], v[2]), v[3]));
	if (op == "m4rotv" && n == 3) return show(M4::rotate(Vec3_<Fp>(v[0], v[1], v[2])));
	if (op == "m4axang" && n == 16) return show(m4of(v).axisAngle());
	if (op == "m4rote" && n == 6) return show(M4::rotateE(Vec3_<Fp>(v[0], v[1], v[2]), (int)(v[3].v % 3), (int)(v[4].v % 3), (int)(v[5].v % 3)));
	if (op == "m4euler" && n == 19) {   // eulerAngles(a0, a1, a2) with a1 != a0 forced (k = 3 - a0 - a1 must be an axis)
		int a0 = (int)(v[16].v % 3), a1 = (a0 + 1 + (int)(v[17].v % 2)) % 3, a2 = (int)(v[18].v % 3);
		return show(m4of(v).eulerAngles(a0, a1, a2));
	}
	if (op == "qmat" && n == 4) return show(Q(v[0], v[1], v[2], v[3]).matrix());
	if (op == "qmul" && n == 8) return show(Q(v[0], v[1], v[2], v[3]) ^ Q(v[4], v[5], v[6], v[7]));
	if (op == "qconj" && n == 4) return show(Q(v[0], v[1], v[2], v[3]).conj());
	if (op == "qinv" && n == 4) return show(Q(v[0], v[1], v[2], v[3]).inverse());
	if (op == "qlen2" && n == 4) return fs(Q(v[0], v[1], v[2], v[3]).length2());
	if (op == "qdot" && n == 8) return fs(Q(v[0], v[1], v[2], v[3]) * Q(v[4], v[5], v[6], v[7]));
	if (op == "qrotrt" && n == 4) return show(Q(v[0], v[1], v[2], v[3]).matrix().rotation().matrix());
	if ((op == "solve" || op == "mtmul") && n >= 3) {
		uint64_t r = v[0].v, c = v[1].v, m = v[2].v;
		if (r > 64 || c > 64 || m > 64 || n != 3 + r * c + r * m) return "bad-op";
		MX A = dense((int)r, (int)c, v, 3), b = dense((int)r, (int)m, v, 3 + r * c);
		if (op == "mtmul") return show(A.transposed(b));
		return show(solve(A, b));
	}
	if (op == "minv" && n >= 1) {
		uint64_t r = v[0].v;
		if (r > 64 || n != 1 + r * r) return "bad-op";
		return show(dense((int)r, (int)r, v, 1).inverse());
	}
	if (op == "mmul" && n >= 3) {
		uint64_t r = v[0].v, c = v[1].v, m = v[2].v;
		if (r > 64 || c > 64 || m > 64 || n != 3 + r * c + c * m) return "bad-op";
		return show(dense((int)r, (int)c, v, 3) * dense((int)c, (int)m, v, 3 + r * c));
	}
	return "bad-op";
}

int main() { return run([]() {}, step); }
