// Shared helpers for the correspondence harnesses: line protocol, hex coding.
// One op per input line, one output line per op.  `case <n>` resets the state.
#pragma once
#include <stdio.h>
#include <stdlib.h>
#include <string.h>
#include <string>
#include <vector>
#include <functional>

namespace vh {

typedef std::vector<std::string> Toks;

inline Toks split(const std::string& s)
{
	Toks t;
	size_t i = 0, n = s.size();
	while (i < n) {
		while (i < n && s[i] == ' ') i++;
		size_t j = i;
		while (j < n && s[j] != ' ') j++;
		if (j > i) t.push_back(s.substr(i, j - i));
		i = j;
	}
	return t;
}

inline std::string hex(const void* p, size_t n)
{
	if (n == 0) return "-";
	static const char* d = "0123456789abcdef";
	const unsigned char* b = (const unsigned char*)p;
	std::string s;
	s.reserve(2 * n);
	for (size_t i = 0; i < n; i++) { s += d[b[i] >> 4]; s += d[b[i] & 15]; }
	return s;
}
inline std::string hex(const std::string& s) { return hex(s.data(), s.size()); }

inline int hv(char c) { return c <= '9' ? c - '0' : (c | 32) - 'a' + 10; }

inline std::string unhex(const std::string& h)
{
	std::string s;
	if (h == "-") return s;
	for (size_t i = 0; i + 1 < h.size(); i += 2) s += (char)(hv(h[i]) * 16 + hv(h[i + 1]));
	return s;
}

inline long long num(const std::string& s) { return atoll(s.c_str()); }

inline std::string str(long long v) { char b[32]; snprintf(b, sizeof b, "%lld", v); return b; }

// copy bytes into a heap block of exact size (+ terminator) so that ASan redzones are adjacent
struct Exact {
	char* p; size_t n;
	Exact(const std::string& s) : n(s.size()) { p = (char*)malloc(n + 1); memcpy(p, s.data(), n); p[n] = 0; }
	~Exact() { free(p); }
};

inline int run(std::function<void()> reset, std::function<std::string(const Toks&)> step)
{
	setvbuf(stdout, NULL, _IOLBF, 0);
	std::string line;
	int c;
	for (;;) {
		line.clear();
		while ((c = getchar()) != EOF && c != '\n') line += (char)c;
		if (c == EOF && line.empty()) break;
		Toks t = split(line);
		if (t.empty()) { puts("bad-op"); continue; }
		if (t[0] == "case") { reset(); puts("case"); continue; }
		std::string r = step(t);
		fputs(r.c_str(), stdout);
		fputc('\n', stdout);
		fflush(stdout);
	}
	return 0;
}

}
