// Deterministic scheduler on top of the ASL_VERIF hook points (asl_verif_hook()).
// One controlled thread runs at a time; a schedule is the list of thread ids released at each decision.
// Used by the C12/C13/C14 harnesses.  A thread is "at a point" when it has called the hook and waits to be
// released; releasing it lets it perform the announced operation and run until its next point or its end.
#pragma once
#include <asl/defs.h>
#include <pthread.h>
#include <stdio.h>
#include <map>
#include <vector>
#include <functional>
#include <mutex>
#include <condition_variable>
#include <thread>

namespace vs {

enum { K_INC = 1, K_DEC = 2, K_FREE = 3, K_LOCK = 4, K_UNLOCK = 5,
       K_SPAWN = 10, K_BEGIN = 11, K_READY = 12, K_SPIN = 13, K_END = 14, K_JOIN = 15 };

struct Ev { int tid, kind; const volatile void* addr; };
struct Decision { std::vector<int> enabled; int chosen; };

struct Sched {
	std::mutex mu;
	std::condition_variable cv;
	struct T { int state; int kind; const volatile void* addr; bool go; };
	std::vector<T> ts;                       // state: 0 running, 1 at a point, 2 finished
	std::map<const volatile void*, int> owner; // mutex -> holder
	std::map<const volatile void*, int> readyCtx;  // hand-over contexts whose worker has passed its READY point
	std::map<const volatile void*, int> ended;     // pthread handles whose thread function has reached its END point
	int expected, registered;                // threads announced by SPAWN points / threads that have reached BEGIN
	bool adopt;                              // library-created threads join the schedule at their BEGIN point
	std::vector<Ev> trace;
	bool active;
	bool record_only;                        // no blocking: just append to trace (shape recording)
	std::function<bool(int, int, const volatile void*)> blocked; // extra "not enabled" predicate (tid, kind, addr)
	Sched() : expected(0), registered(0), adopt(false), active(false), record_only(false) {}
};

inline Sched& S() { static Sched s; return s; }
inline int& tid() { static thread_local int t = -1; return t; }

inline void hook(int kind, const volatile void* addr)
{
	Sched& s = S();
	if (s.record_only) { Ev e = { tid(), kind, addr }; s.trace.push_back(e); return; }
	int me = tid();
	if (!s.active) return;
	std::unique_lock<std::mutex> lk(s.mu);
	if (me < 0) {
		if (!(s.adopt && kind == K_BEGIN)) return;
		me = tid() = (int)s.ts.size();
		s.ts.push_back(Sched::T());
		s.registered++;
	}
	if (!s.active) return;
	{
		Sched::T& t = s.ts[me];
		t.state = 1; t.kind = kind; t.addr = addr; t.go = false;
	}
	s.cv.notify_all();
	s.cv.wait(lk, [&] { return s.ts[me].go; });
	if (kind == K_END) { tid() = -1; return; }   // recorded by the controller; whatever follows runs free
	Ev e = { me, kind, addr };
	s.trace.push_back(e);
}

#ifdef ASL_VERIF
inline void install() { asl_verif_hook() = hook; }
#else
inline void install() {}   // production-build pass: no hook points; only the free-running ops mean anything
#endif

// Run the bodies as controlled threads under the schedule prefix (then always the lowest enabled thread).
// Returns the decisions taken.  `deadlock` is set if unfinished threads remain but none is enabled.
inline std::vector<Decision> run(const std::vector<std::function<void()> >& bodies, const std::vector<int>& prefix, bool* deadlock = 0)
{
	Sched& s = S();
	int n = (int)bodies.size();
	{
		std::unique_lock<std::mutex> lk(s.mu);
		s.ts.assign(n, Sched::T());
		for (int i = 0; i < n; i++) { s.ts[i].state = 0; s.ts[i].go = false; }
		s.owner.clear();
		s.readyCtx.clear();
		s.ended.clear();
		s.expected = s.registered = n;
		s.trace.clear();
		s.active = true;
	}
	std::vector<std::thread> th;
	for (int i = 0; i < n; i++)
		th.push_back(std::thread([i, &bodies, &s]() {
			tid() = i;
			bodies[i]();
			std::unique_lock<std::mutex> lk(s.mu);
			s.ts[i].state = 2;
			s.cv.notify_all();
		}));
	std::vector<Decision> ds;
	size_t step = 0;
	if (deadlock) *deadlock = false;
	for (;;) {
		std::unique_lock<std::mutex> lk(s.mu);
		s.cv.wait(lk, [&] {
			if (s.registered < s.expected) return false;
			for (size_t i = 0; i < s.ts.size(); i++) if (s.ts[i].state == 0) return false;
			return true; });
		Decision d;
		bool unfinished = false;
		for (int i = 0; i < (int)s.ts.size(); i++) {
			if (s.ts[i].state != 1) continue;
			unfinished = true;
			if (s.ts[i].kind == K_LOCK && s.owner.count(s.ts[i].addr)) continue;
			if (s.ts[i].kind == K_SPIN && !s.readyCtx.count(s.ts[i].addr)) continue;
			if (s.ts[i].kind == K_JOIN && !s.ended.count(s.ts[i].addr)) continue;
			if (s.blocked && s.blocked(i, s.ts[i].kind, s.ts[i].addr)) continue;
			d.enabled.push_back(i);
		}
		if (d.enabled.empty()) {
			if (unfinished) {
				if (deadlock) *deadlock = true;
				// release everything so that the process can end
				s.active = false;
				for (size_t i = 0; i < s.ts.size(); i++) s.ts[i].go = true;
				s.cv.notify_all();
			}
			break;
		}
		int pick = d.enabled[0];
		if (step < prefix.size()) {
			pick = prefix[step];
			bool ok = false;
			for (size_t k = 0; k < d.enabled.size(); k++) if (d.enabled[k] == pick) ok = true;
			if (!ok) pick = d.enabled[0];
		}
		step++;
		d.chosen = pick;
		ds.push_back(d);
		if (s.ts[pick].kind == K_LOCK) s.owner[s.ts[pick].addr] = pick;
		if (s.ts[pick].kind == K_UNLOCK) s.owner.erase(s.ts[pick].addr);
		if (s.ts[pick].kind == K_SPAWN) { s.expected++; s.readyCtx.erase(s.ts[pick].addr); }
		if (s.ts[pick].kind == K_READY) s.readyCtx[s.ts[pick].addr] = 1;
		if (s.ts[pick].kind == K_JOIN) s.ended.erase(s.ts[pick].addr);
		if (s.ts[pick].kind == K_END) {
			// the thread function is over: the rest (finished flag, thread exit) runs free; joins synchronize with it for real
			s.ended[s.ts[pick].addr] = 1;
			Ev e = { pick, K_END, s.ts[pick].addr };
			s.trace.push_back(e);
			s.ts[pick].state = 2;
			s.ts[pick].go = true;
			s.cv.notify_all();
			continue;
		}
		s.ts[pick].state = 0;
		s.ts[pick].go = true;
		s.cv.notify_all();
	}
	for (int i = 0; i < n; i++) th[i].join();
	{
		std::unique_lock<std::mutex> lk(s.mu);
		s.active = false;
	}
	return ds;
}

// next schedule prefix in depth-first order; false when the tree is exhausted
inline bool next_prefix(const std::vector<Decision>& ds, std::vector<int>& prefix)
{
	for (int k = (int)ds.size() - 1; k >= 0; k--) {
		const std::vector<int>& en = ds[k].enabled;
		size_t idx = 0;
		while (idx < en.size() && en[idx] != ds[k].chosen) idx++;
		if (idx + 1 < en.size()) {
			prefix.clear();
			for (int j = 0; j < k; j++) prefix.push_back(ds[j].chosen);
			prefix.push_back(en[idx + 1]);
			return true;
		}
	}
	return false;
}

}
