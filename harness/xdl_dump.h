// Canonical text of a Var (shared by the C05 and C06 harnesses): object members sorted by key bytes,
// doubles by bit pattern, strings in hex.  Public API of Var only.
#pragma once
#include "common.h"
#include <asl/Var.h>
#include <asl/Map.h>
#include <algorithm>

namespace vh {
using namespace asl;

static std::string hex16(double x)
{
	unsigned long long b;
	memcpy(&b, &x, 8);
	char s[20];
	snprintf(s, sizeof s, "%016llx", b);
	return s;
}

// canonical text: object members sorted by key bytes, doubles by bit pattern, strings in hex
static void dump(const Var& v, std::string& out)
{
	switch (v.type())
	{
	case Var::NONE: out += "none"; break;
	case Var::NUL: out += "n"; break;
	case Var::BOOL: out += ((bool)v ? "t" : "f"); break;
	case Var::INT: out += "i" + str((int)v); break;
	case Var::NUMBER: out += "d" + hex16((double)v); break;
	case Var::FLOAT: out += "F" + hex16((double)v); break;
	case Var::STRING: {
		const char* s = *v;
		out += "s" + hex(s, strlen(s));
		if ((int)strlen(s) != v.length()) out += "!len";
		break;
	}
	case Var::ARRAY: {
		out += "[";
		for (int i = 0; i < v.length(); i++) {
			if (i) out += ",";
			dump(v[i], out);
		}
		out += "]";
		break;
	}
	case Var::OBJ: {
		std::vector<std::pair<std::string, std::string> > ms;
		foreach2(String& k, const Var& x, v) {
			std::string d;
			dump(x, d);
			ms.push_back(std::make_pair(hex(*k, k.length()), d));
		}
		std::sort(ms.begin(), ms.end());
		out += "{";
		for (size_t i = 0; i < ms.size(); i++) {
			if (i) out += ",";
			out += ms[i].first + ":" + ms[i].second;
		}
		out += "}";
		break;
	}
	default: out += "?type"; break;
	}
}

static std::string show(const Var& v)
{
	std::string s;
	dump(v, s);
	return s;
}

}
