/-!
# Executable model of `asl::Array<T>`, `asl::Stack<T>`, `asl::Queue<T>`
(include/asl/Array.h, Stack.h, Queue.h, the placement helpers of defs.h, `quicksort` of foreach1.h) — core Lean only

Two layers, both run by the model driver (`Driver/C01.lean`):

* **Block layer** (`BS`): one element block as raw cells `List (Option α)` of length = capacity
  (`none` = unconstructed storage), the header fields `n`, `rc`, and the global live-instance counter
  `live` that every constructor / destructor call of the code bumps.  The members of `Array` are written
  as the code's primitive sequence: `construct` (placement new; the cell must be unconstructed),
  `destroy` (the cell must hold an object), `relocate` (`memmove`/`memcpy` used as a *bitwise move*:
  the bytes of the source cells become dead storage, and a target cell that is not itself a source cell
  must be unconstructed), element assignment / read (the cell must hold an object), growth
  (`malloc`+`memcpy`+`free` below 2048 bytes, `realloc` above: new cells are unconstructed).  Every
  primitive returns `none` when its requirement fails — that is the model's notion of "reads or writes
  outside live storage / constructs twice / destroys twice".
* **Heap layer** (`St`): blocks by id (`none` = released), handle slots holding a block id (a handle whose
  block was released is *dangling*: every access through it is `none`), the handle operations
  (copy constructor, `operator=`, destructor → `free()`), and `pMut`, which runs a block-layer member
  through one handle: when the member grew the block, the block gets a *new id*, the old one is
  released and only the acting handle follows — exactly what `realloc`/`malloc`+`free` do to the other
  handles of a shared block.

`guard` is the decidable predicate "this operation would increase the capacity of a block whose `rc > 1`"
(known finding `shared-growth`); the driver and the harness skip exactly those operations.
-/
namespace AslModel.Arr

abbrev Cells (α : Type) := List (Option α)

/-- what the code needs to know about the element type -/
structure Elem (α : Type) where
  dflt : α                 -- value of `T()`
  esz : Nat                -- `sizeof(T)`
  lt : α → α → Bool        -- `operator<`
  key : α → Int            -- used by the predicates of `filter` / `removeIf` in the harness

/-- one block while a member function runs on it -/
structure BS (α : Type) where
  cells : Cells α          -- `d().s` = `cells.length`
  n : Nat                  -- `d().n`
  rc : Nat                 -- `d().rc`
  live : Int               -- global count of live element objects
  moved : Bool             -- the block was reallocated during this member call

variable {α : Type}

/-! ## primitives -/

/-- `new (p+i) T(v)` -/
def construct (s : BS α) (i : Nat) (v : α) : Option (BS α) :=
  match s.cells[i]? with
  | some none => some { s with cells := s.cells.set i (some v), live := s.live + 1 }
  | _ => none

/-- `(p+i)->~T()` -/
def destroy (s : BS α) (i : Nat) : Option (BS α) :=
  match s.cells[i]? with
  | some (some _) => some { s with cells := s.cells.set i none, live := s.live - 1 }
  | _ => none

/-- read `_a[i]` -/
def readCell (s : BS α) (i : Nat) : Option α :=
  match s.cells[i]? with
  | some (some v) => some v
  | _ => none

/-- `_a[i] = v` (copy assignment to an existing object) -/
def assignCell (s : BS α) (i : Nat) (v : α) : Option (BS α) :=
  match s.cells[i]? with
  | some (some _) => some { s with cells := s.cells.set i (some v) }
  | _ => none

/-- `asl_construct(_a + i, k)` -/
def constructN (dflt : α) : Nat → BS α → Nat → Option (BS α)
  | 0, s, _ => some s
  | k + 1, s, i => (construct s i dflt).bind fun s' => constructN dflt k s' (i + 1)

/-- `asl_destroy(_a + i, k)` -/
def destroyN : Nat → BS α → Nat → Option (BS α)
  | 0, s, _ => some s
  | k + 1, s, i => (destroy s i).bind fun s' => destroyN k s' (i + 1)

def writeAt (c : Cells α) (pos : Nat) (xs : Cells α) : Cells α :=
  c.take pos ++ xs ++ c.drop (pos + xs.length)

def allNone : Cells α → Bool
  | [] => true
  | none :: t => allNone t
  | some _ :: _ => false

/-- `memmove(_a+dst, _a+src, k*sizeof(T))` / `memcpy` of whole elements, used by the code as a bitwise
move of objects: both ranges must lie inside the block; the source cells become dead storage; a target
cell outside the source range must not hold an object (it would be overwritten without a destructor). -/
def relocate (s : BS α) (dst src k : Nat) : Option (BS α) :=
  if src + k ≤ s.cells.length ∧ dst + k ≤ s.cells.length then
    let moved := (s.cells.drop src).take k
    let cleared := writeAt s.cells src (List.replicate k none)
    if allNone ((cleared.drop dst).take k) then
      some { s with cells := writeAt cleared dst moved }
    else none
  else none

/-- `a[off+i] = xs[i]` for ascending `i` -/
def assignFrom : List α → BS α → Nat → Option (BS α)
  | [], s, _ => some s
  | x :: xs, s, off => (assignCell s off x).bind fun s' => assignFrom xs s' (off + 1)

/-- `a[dst+i] = a[src+i]` for ascending `i < k` (reads the block as it is at that moment) -/
def assignSelf : Nat → BS α → Nat → Nat → Option (BS α)
  | 0, s, _, _ => some s
  | k + 1, s, dst, src =>
    (readCell s src).bind fun v => (assignCell s dst v).bind fun s' => assignSelf k s' (dst + 1) (src + 1)

/-- the first `k` cells as objects (`none` if one of them is unconstructed or outside the block) -/
def readN : Nat → Cells α → Option (List α)
  | 0, _ => some []
  | k + 1, some v :: t => (readN k t).map (v :: ·)
  | _ + 1, _ => none

/-- the element sequence `_a[0..n)` -/
def elems (s : BS α) : Option (List α) := readN s.n s.cells

/-! ## members of `Array<T>` on one block -/

/-- `Array<T>::reserve(int m)` -/
def reserve (E : Elem α) (s : BS α) (m : Nat) : BS α :=
  let cap := s.cells.length
  if m ≤ cap then s else
  let s1 := max (8 * cap / 4) m
  if cap * E.esz < 2048 then
    -- malloc(s1) ; memcpy(b, _a, min(m,n) elements) ; free(old)
    { s with cells := s.cells.take (min m s.n) ++ List.replicate (s1 - min m s.n) none, moved := true }
  else
    -- realloc(old, s1): all `cap` cells are carried over
    { s with cells := s.cells ++ List.replicate (s1 - cap) none, moved := true }

/-- `Array<T>::resize(int m)` -/
def resize (E : Elem α) (s : BS α) (m : Nat) : Option (BS α) :=
  let n := s.n
  let s := reserve E s m
  if m > n then (constructN E.dflt (m - n) s n).map fun s' => { s' with n := m }
  else if m < n then (destroyN (n - m) s m).map fun s' => { s' with n := m }
  else some { s with n := m }

/-- the `const T& x` argument of `insert`/`<<`: a value living outside this block, or element `j` of
this same block (`px >= _a && px < _a + n`) -/
inductive Arg (α : Type) where
  | val (v : α)
  | own (j : Nat)

/-- `Array<T>::insert(int k, const T& x)` for `0 ≤ k ≤ n` (`k == -1` is `k = n`) — the code after a88e99c -/
def insert (s : BS α) (k : Nat) (x : Arg α) : Option (BS α) :=
  let n := s.n
  let cap := s.cells.length
  let s := if n < cap then s
           else { s with cells := s.cells ++ List.replicate (2 * cap - cap) none, moved := true }  -- realloc(2*s)
  (if k < n then relocate s (k + 1) k (n - k) else some s).bind fun s =>
  let px := match x with
    | .val v => some v
    | .own j => readCell s (if j ≥ k then j + 1 else j)   -- re-read from its new position
  px.bind fun v => (construct s k v).map fun s => { s with n := n + 1 }

/-- `Array<T>::remove(int i, int n)` -/
def remove (E : Elem α) (s : BS α) (i cnt : Nat) : Option (BS α) :=
  let m := s.n
  if i + cnt > m then some s else
  (destroyN cnt s i).bind fun s =>
  (relocate s i (i + cnt) (m - i - cnt)).bind fun s =>
  resize E { s with n := s.n - cnt } (m - cnt)

/-- the loop of `removeIf`: `i` scans, `j` is the compaction cursor, `n` the new count -/
def removeIfAux (f : α → Bool) : Nat → BS α → Nat → Nat → Nat → Option (BS α × Nat)
  | 0, s, _, _, n => some (s, n)
  | r + 1, s, i, j, n =>
    (readCell s i).bind fun v =>
    if f v then (destroy s i).bind fun s' => removeIfAux f r s' (i + 1) j (n - 1)
    else (relocate s j i 1).bind fun s' => removeIfAux f r s' (i + 1) (j + 1) n

/-- `Array<T>::removeIf(F f)` -/
def removeIf (f : α → Bool) (s : BS α) : Option (BS α) :=
  (removeIfAux f s.n s 0 0 s.n).map fun r => { r.1 with n := r.2 }

/-- source of `append(const Array& b)` / `copy(const Array& b)`: another block (only its values matter)
or this same block (read in place while it is being written) -/
inductive Src (α : Type) where
  | vals (xs : List α)
  | self

/-- `Array<T>::append(const Array& b)` — the code after 5dae6b7 (`b.length()` is taken before `resize`) -/
def append (E : Elem α) (s : BS α) (src : Src α) : Option (BS α) :=
  let n := s.n
  match src with
  | .vals xs => (resize E s (n + xs.length)).bind fun s' => assignFrom xs s' n
  | .self => (resize E s (n + n)).bind fun s' => assignSelf n s' n 0

/-- `Array<T>::copy(const Array& b)` -/
def copy (E : Elem α) (s : BS α) (src : Src α) : Option (BS α) :=
  match src with
  | .vals xs => (resize E s xs.length).bind fun s' => assignFrom xs s' 0
  | .self => (resize E s s.n).bind fun s' => assignSelf s.n s' 0 0

/-- `Array<T>::append(const T* p, int n)` with `p = _a + j` pointing into this same array — the code after fbcbf17
(the offset is taken before `resize`, the pointer is rebased after it) -/
def appendOwn (E : Elem α) (s : BS α) (j k : Nat) : Option (BS α) :=
  let m := s.n
  (resize E s (m + k)).bind fun s' => assignSelf k s' m j

/-- `Array<T>::copy(const T* p, int n)` with `p = _a + j` pointing into this same array — the code after dd01035
(`_a[i] = _a[j+i]` ascending, then `resize(n)`) -/
def copyOwn (E : Elem α) (s : BS α) (j k : Nat) : Option (BS α) :=
  (assignSelf k s 0 j).bind fun s' => resize E s' k

/-- `filter`'s `b << x` for each kept element -/
def pushAll : List α → BS α → Option (BS α)
  | [], s => some s
  | x :: xs, s => (insert s s.n (.val x)).bind fun s' => pushAll xs s'

/-- `Array<T>::alloc(int m)` followed by the constructor body `init` -/
def alloc (E : Elem α) (live : Int) (m : Nat) : Option (BS α) :=
  constructN E.dflt m ⟨List.replicate (max m 3) none, m, 1, live, false⟩ 0

/-! ## `quicksort(T* a, int n)` (foreach1.h) on the element sequence
`l` is an index, `r` is kept as `r1 = r + 1` (the code lets `r` reach `a - 1`).  Every read is
`xs[i]?`: an index outside `[0, n)` makes the whole sort `none`.  All loops carry fuel. -/

/-- `while (*l < p) l++;` -/
def scanL (lt : α → α → Bool) (p : α) (xs : List α) : Nat → Nat → Option Nat
  | 0, _ => none
  | f + 1, l =>
    match xs[l]? with
    | some x => if lt x p then scanL lt p xs f (l + 1) else some l
    | none => none

/-- `while (p < *r) r--;` -/
def scanR (lt : α → α → Bool) (p : α) (xs : List α) : Nat → Nat → Option Nat
  | 0, _ => none
  | f + 1, r1 =>
    if r1 = 0 then none else
    match xs[r1 - 1]? with
    | some x => if lt p x then scanR lt p xs f (r1 - 1) else some r1
    | none => none

/-- `swap(*l, *r)` : `T A = a; a = b; b = A;` -/
def swapAt (xs : List α) (i j : Nat) : Option (List α) :=
  match xs[i]?, xs[j]? with
  | some a, some b => some ((xs.set i b).set j a)
  | _, _ => none

/-- `while (l <= r) { scan; scan; if (l <= r) swap(*l++, *r--); }` -/
def partLoop (lt : α → α → Bool) (p : α) (sf : Nat) : Nat → List α → Nat → Nat → Option (List α × Nat × Nat)
  | 0, _, _, _ => none
  | f + 1, xs, l, r1 =>
    if l + 1 ≤ r1 then
      (scanL lt p xs sf l).bind fun l' =>
      (scanR lt p xs sf r1).bind fun r1' =>
      if l' + 1 ≤ r1' then
        (swapAt xs l' (r1' - 1)).bind fun xs' => partLoop lt p sf f xs' (l' + 1) (r1' - 1)
      else partLoop lt p sf f xs l' r1'
    else some (xs, l, r1)

/-- `quicksort(T* a, int n)` after dff9640: `while (n >= 2) { partition; recurse into the smaller part; go on with the
larger one }` — the continuation of the `while` is the second call here (it does not deepen the C++ stack) -/
def qsortAux (lt : α → α → Bool) : Nat → List α → Nat → Nat → Option (List α)
  | 0, _, _, _ => none
  | f + 1, xs, a, n =>
    if n < 2 then some xs else
    match xs[a + n / 2]? with
    | none => none
    | some p =>
      (partLoop lt p (n + 2) (n + 2) xs a (a + n)).bind fun r =>
      -- nl = int(r - a + 1), nr = int(a + n - l)
      if r.2.2 - a < a + n - r.2.1 then
        (qsortAux lt f r.1 a (r.2.2 - a)).bind fun xs' => qsortAux lt f xs' r.2.1 (a + n - r.2.1)
      else
        (qsortAux lt f r.1 r.2.1 (a + n - r.2.1)).bind fun xs' => qsortAux lt f xs' a (r.2.2 - a)

/-- the same recursion, also returning how deep the nested C++ calls go (the call on the smaller part is one level
deeper, the continuation of the loop is not) -/
def qsortAuxD (lt : α → α → Bool) : Nat → List α → Nat → Nat → Option (List α × Nat)
  | 0, _, _, _ => none
  | f + 1, xs, a, n =>
    if n < 2 then some (xs, 0) else
    match xs[a + n / 2]? with
    | none => none
    | some p =>
      (partLoop lt p (n + 2) (n + 2) xs a (a + n)).bind fun r =>
      if r.2.2 - a < a + n - r.2.1 then
        (qsortAuxD lt f r.1 a (r.2.2 - a)).bind fun x =>
          (qsortAuxD lt f x.1 r.2.1 (a + n - r.2.1)).map fun y => (y.1, max (x.2 + 1) y.2)
      else
        (qsortAuxD lt f r.1 r.2.1 (a + n - r.2.1)).bind fun x =>
          (qsortAuxD lt f x.1 a (r.2.2 - a)).map fun y => (y.1, max (x.2 + 1) y.2)

def qsortList (lt : α → α → Bool) (xs : List α) : Option (List α) :=
  qsortAux lt (xs.length + 1) xs 0 xs.length

/-! ### the element temporaries of `quicksort`
`T p = a[n / 2];` copy-constructs the pivot at the start of every pass of the `while` and destroys it at the end of that
pass (after the nested call on the smaller part, before the next pass); `swap(*l, *r)` is `T A = a; a = b; b = A;`:
one copy construction, two assignments, one destruction.  `Tmp` is the ledger of these constructor / destructor calls. -/

structure Tmp where
  live : Int     -- element objects alive (the global instance counter of the counted element type)
  made : Nat     -- copy constructions so far
  freed : Nat    -- destructions so far
  peak : Int     -- largest value `live` has had
  deriving Repr, DecidableEq

def Tmp.ctor (t : Tmp) : Tmp := ⟨t.live + 1, t.made + 1, t.freed, if t.peak < t.live + 1 then t.live + 1 else t.peak⟩
def Tmp.dtor (t : Tmp) : Tmp := ⟨t.live - 1, t.made, t.freed + 1, t.peak⟩

/-- `swap(*l, *r)` with its temporary `A` -/
def swapAtT (xs : List α) (i j : Nat) (t : Tmp) : Option (List α × Tmp) :=
  (swapAt xs i j).map fun ys => (ys, t.ctor.dtor)

/-- `partLoop` with the ledger -/
def partLoopT (lt : α → α → Bool) (p : α) (sf : Nat) : Nat → List α → Nat → Nat → Tmp → Option ((List α × Nat × Nat) × Tmp)
  | 0, _, _, _, _ => none
  | f + 1, xs, l, r1, t =>
    if l + 1 ≤ r1 then
      (scanL lt p xs sf l).bind fun l' =>
      (scanR lt p xs sf r1).bind fun r1' =>
      if l' + 1 ≤ r1' then
        (swapAtT xs l' (r1' - 1) t).bind fun x => partLoopT lt p sf f x.1 (l' + 1) (r1' - 1) x.2
      else partLoopT lt p sf f xs l' r1' t
    else some ((xs, l, r1), t)

/-- `qsortAux` with the ledger: the pivot is constructed before the partition, is alive during the nested call and is
destroyed before the next pass of the `while` -/
def qsortAuxT (lt : α → α → Bool) : Nat → List α → Nat → Nat → Tmp → Option (List α × Tmp)
  | 0, _, _, _, _ => none
  | f + 1, xs, a, n, t =>
    if n < 2 then some (xs, t) else
    match xs[a + n / 2]? with
    | none => none
    | some p =>
      (partLoopT lt p (n + 2) (n + 2) xs a (a + n) t.ctor).bind fun rt =>
      let r := rt.1
      if r.2.2 - a < a + n - r.2.1 then
        (qsortAuxT lt f r.1 a (r.2.2 - a) rt.2).bind fun x => qsortAuxT lt f x.1 r.2.1 (a + n - r.2.1) x.2.dtor
      else
        (qsortAuxT lt f r.1 r.2.1 (a + n - r.2.1) rt.2).bind fun x => qsortAuxT lt f x.1 a (r.2.2 - a) x.2.dtor

def qsortListT (lt : α → α → Bool) (xs : List α) (t : Tmp) : Option (List α × Tmp) :=
  qsortAuxT lt (xs.length + 1) xs 0 xs.length t

/-- `Array<T>::sort()` / `sort(Less)` -/
def sortB (lt : α → α → Bool) (s : BS α) : Option (BS α) :=
  (elems s).bind fun l => (qsortList lt l).bind fun l' => assignFrom l' s 0

/-- `indexOf(x, j)` : `for(int i=j; i<length(); i++) if(_a[i]==x) return i; return -1;` -/
def indexFrom [DecidableEq α] (x : α) : List α → Nat → Int
  | [], _ => -1
  | y :: t, i => if y = x then (i : Int) else indexFrom x t (i + 1)

def indexOf [DecidableEq α] (l : List α) (x : α) (j : Nat) : Int := indexFrom x (l.drop j) j

/-! ## the heap: blocks, handles -/

structure Raw (α : Type) where
  cells : Cells α
  n : Nat
  rc : Nat

structure St (α : Type) where
  blocks : List (Option (Raw α))   -- by block id; `none` = released
  live : Int
  hs : List (Option Nat)           -- handle slots: `none` = no `Array` object, `some b` = `_a` points to block `b`

/-- user slots `0..NS-1`; slots `T0`, `T1` hold C++ temporaries during one operation -/
def NS : Nat := 6
def T0 : Nat := 6
def T1 : Nat := 7

def St.init : St α := ⟨[], 0, List.replicate 8 none⟩

def Raw.toBS (r : Raw α) (live : Int) : BS α := ⟨r.cells, r.n, r.rc, live, false⟩
def BS.toRaw (s : BS α) : Raw α := ⟨s.cells, s.n, s.rc⟩

/-- the block a slot's handle points to; `none` when the slot is empty or the handle dangles -/
def St.blockOf (st : St α) (slot : Nat) : Option (Nat × Raw α) :=
  match st.hs[slot]? with
  | some (some b) =>
    match st.blocks[b]? with
    | some (some r) => some (b, r)
    | _ => none
  | _ => none

def St.occ (st : St α) (slot : Nat) : Bool :=
  match st.hs[slot]? with
  | some (some _) => true
  | _ => false

def St.idOf (st : St α) (slot : Nat) : Option Nat :=
  match st.hs[slot]? with
  | some (some b) => some b
  | _ => none

/-- `Array()` / `Array(int m)` + constructor body `init` into an empty slot -/
def pNew (E : Elem α) (st : St α) (slot m : Nat) (init : BS α → Option (BS α)) : Option (St α) :=
  (alloc E st.live m).bind fun s0 => (init s0).map fun s =>
    { blocks := st.blocks ++ [some s.toRaw], live := s.live, hs := st.hs.set slot (some st.blocks.length) }

/-- `Array(const Array& b)` into an empty slot: `_a = b._a; ++d().rc;` -/
def pShare (st : St α) (dst src : Nat) : Option (St α) :=
  (st.blockOf src).map fun br =>
    { st with blocks := st.blocks.set br.1 (some { br.2 with rc := br.2.rc + 1 }), hs := st.hs.set dst (some br.1) }

/-- `~Array()` : `if(--d().rc==0) free();`  with `free()` = `asl_destroy(_a, n); ::free(block)` -/
def pDrop (st : St α) (slot : Nat) : Option (St α) :=
  (st.blockOf slot).bind fun br =>
    if br.2.rc = 1 then
      (destroyN br.2.n (br.2.toBS st.live) 0).map fun s =>
        { blocks := st.blocks.set br.1 none, live := s.live, hs := st.hs.set slot none }
    else
      some { st with blocks := st.blocks.set br.1 (some { br.2 with rc := br.2.rc - 1 }), hs := st.hs.set slot none }

/-- harness pointer move `H[dst] = tmp` (no library code runs) -/
def pMove (st : St α) (dst src : Nat) : St α :=
  { st with hs := (st.hs.set dst (st.hs.getD src none)).set src none }

/-- run the member `op` on the block of `slot`.  If the member reallocated the block, the new block gets a
fresh id, the old id is released and only this handle follows. -/
def pMut (st : St α) (slot : Nat) (op : BS α → Option (BS α)) : Option (St α) :=
  (st.blockOf slot).bind fun br => (op (br.2.toBS st.live)).map fun s =>
    if s.moved then
      { blocks := st.blocks.set br.1 none ++ [some s.toRaw], live := s.live, hs := st.hs.set slot (some st.blocks.length) }
    else
      { st with blocks := st.blocks.set br.1 (some s.toRaw), live := s.live }

/-- would `op` through `slot` reallocate a block that other handles share? -/
def pGuard (st : St α) (slot : Nat) (op : BS α → Option (BS α)) : Bool :=
  match st.blockOf slot with
  | some br =>
    match op (br.2.toBS st.live) with
    | some s => s.moved && decide (br.2.rc > 1)
    | none => false
  | none => false

/-- the element sequence seen through a slot -/
def St.elemsOf (st : St α) (slot : Nat) : Option (List α) :=
  (st.blockOf slot).bind fun br => readN br.2.n br.2.cells

/-- `*H[dst] = *H[src]` : `if(this==&b) return; if(--d().rc==0) free(); _a=b._a; ++d().rc;` -/
def pAssign (st : St α) (dst src : Nat) : Option (St α) :=
  if dst = src then some st else (pDrop st dst).bind fun st' => pShare st' dst src

/-- store the temporary in `T0` into user slot `t` (`if (!H[t]) H[t] = new C(); *H[t] = r;`), then destroy it -/
def storeT0 (E : Elem α) (st : St α) (t : Nat) : Option (St α) :=
  (if st.occ t then some st else pNew E st t 0 some).bind fun st1 =>
  (pAssign st1 t T0).bind fun st2 => pDrop st2 T0

/-- how `b` of `a.append(b)` / `a.copy(b)` relates to `a` -/
def srcOf (st : St α) (h g : Nat) : Option (Src α) :=
  if st.idOf h = st.idOf g then some .self else (st.elemsOf g).map .vals

/-! ## the operations of the line protocol -/

inductive Op (α : Type) where
  | new (h : Nat)
  | newn (h n : Nat) (v : α)
  | cp (h g : Nat)
  | asg (h g : Nat)
  | drop (h : Nat)
  | app (h : Nat) (v : α)
  | ins (h k : Nat) (v : α)
  | appo (h j : Nat)
  | inso (h k j : Nat)
  | insx (h k g j : Nat)
  | rem (h i c : Nat)
  | remone (h : Nat) (v : α) (j : Nat)
  | reml (h : Nat)
  | rsz (h m : Nat) (v : α)
  | res (h m : Nat)
  | clr (h : Nat)
  | sort (h : Nat) (desc : Bool)
  | slice (t h i j : Nat)
  | clone (t h : Nat)
  | dup (h : Nat)
  | concat (t h g : Nat)
  | rev (t h : Nat)
  | filt (t h m r : Nat)
  | remif (h m r : Nat)
  | apnd (h g : Nat)
  | copy (h g : Nat)
  | set (h i : Nat) (v : α)
  | get (h i : Nat)
  | idx (h : Nat) (v : α) (j : Nat)
  | last (h : Nat)
  | eq (h g : Nat)
  | pop (h : Nat)
  | popn (h k : Nat)
  | popget (h : Nat)
  | top (h i : Nat)
  | qget (h : Nat)
  | newp (h : Nat) (xs : List α)      -- `Array<T>(const T* p, int n)`
  | copyp (h : Nat) (xs : List α)     -- `a.copy(const T* p, int n)` (p outside the array)
  | appp (h : Nat) (xs : List α)      -- `a.append(const T* p, int n)` (p outside the array)
  | sortby (h : Nat) (asc : Bool)     -- `a.sortBy(key, ascending)`
  | iter (h : Nat)                    -- range-for / foreach / Enumerator / slice_ read every element
  | appown (h j k : Nat)              -- `a.append(a.data() + j, k)` (in range)
  | copyown (h j k : Nat)             -- `a.copy(a.data() + j, k)` (in range)
  | remx (h i c : Nat)                -- `a.remove(i, c)` with raw arguments (out-of-range ones must be ignored)
  | slicee (t h i : Nat)              -- `a.slice(i)` (second argument omitted)

inductive Res (α : Type) where
  | ok
  | skip
  | val (v : α)
  | idx (i : Int) (c : Bool)
  | flag (b : Bool)

/-- the predicate the harness passes to `filter` / `removeIf` -/
def predOf (E : Elem α) (m r : Nat) (v : α) : Bool := E.key v % ((m : Int) + 1) == ((r % (m + 1) : Nat) : Int)

/-- the member function (on the block of slot `h`) that a mutating operation runs, if it is one that can
grow the block; used both to execute it and to evaluate the guard -/
def growingMember [DecidableEq α] (E : Elem α) (st : St α) : Op α → Option (Nat × (BS α → Option (BS α)))
  | .app h v => some (h, fun s => insert s s.n (.val v))
  | .ins h k v => some (h, fun s => insert s (k % (s.n + 1)) (.val v))
  | .appo h j => some (h, fun s => if s.n = 0 then some s else insert s s.n (.own (j % s.n)))
  | .inso h k j => some (h, fun s => if s.n = 0 then some s else insert s (k % (s.n + 1)) (.own (j % s.n)))
  | .insx h k g j =>
    match st.elemsOf g with
    | some (x :: xs) =>
      let jj := j % (x :: xs).length
      if st.idOf h = st.idOf g then some (h, fun s => insert s (k % (s.n + 1)) (.own jj))
      else some (h, fun s => insert s (k % (s.n + 1)) (.val ((x :: xs).getD jj x)))
    | _ => none
  | .rsz h m v => some (h, fun s => (resize E s m).bind fun s' => assignFrom (List.replicate (m - s.n) v) s' s.n)
  | .res h m => some (h, fun s => some (reserve E s m))
  | .apnd h g => (srcOf st h g).map fun src => (h, fun s => append E s src)
  | .copy h g => (srcOf st h g).map fun src => (h, fun s => copy E s src)
  | .copyp h xs => some (h, fun s => copy E s (.vals xs))
  | .appp h xs => some (h, fun s => append E s (.vals xs))
  | .appown h j k => some (h, fun s => let j' := j % (s.n + 1); appendOwn E s j' (k % (s.n - j' + 1)))
  | _ => none

/-- "this operation would increase the capacity of a block whose `rc > 1`" -/
def guard [DecidableEq α] (E : Elem α) (st : St α) (op : Op α) : Bool :=
  match growingMember E st op with
  | some (h, f) => pGuard st h f
  | none => false

def okR (o : Option (St α)) : Option (St α × Res α) := o.map fun st => (st, Res.ok)

/-- build a new array holding `xs` in temporary slot `T0` (`Array b(n); b[i] = …`) and store it into `t` -/
def produce (E : Elem α) (st : St α) (t : Nat) (xs : List α) : Option (St α × Res α) :=
  okR ((pNew E st T0 xs.length fun s => assignFrom xs s 0).bind fun st' => storeT0 E st' t)

/-- one operation; `none` = the model detected an access outside live storage.  Operations on empty
slots answer `skip`. -/
def step [DecidableEq α] (E : Elem α) (st : St α) (op : Op α) : Option (St α × Res α) :=
  match op with
  | .new h =>
    okR ((if st.occ h then pDrop st h else some st).bind fun st' => pNew E st' h 0 some)
  | .newn h n v =>
    -- `delete H[h]; H[h] = new C(); *H[h] = Array<T>(n, v);`
    (if st.occ h then pDrop st h else some st).bind fun st' => produce E st' h (List.replicate n v)
  | .cp h g =>
    if st.occ g then
      okR ((pShare st T0 g).bind fun st1 =>
        (if st1.occ h then pDrop st1 h else some st1).map fun st2 => pMove st2 h T0)
    else some (st, .skip)
  | .asg h g =>
    if st.occ h && st.occ g then okR (pAssign st h g) else some (st, .skip)
  | .drop h =>
    if st.occ h then okR (pDrop st h) else some (st, .skip)
  | .app h _ | .ins h _ _ | .appo h _ | .inso h _ _ | .rsz h _ _ | .res h _ | .copyp h _ | .appp h _ | .appown h _ _ =>
    if st.occ h then
      match growingMember E st op with
      | some (_, f) => okR (pMut st h f)
      | none => none
    else some (st, .skip)
  | .insx h _ g _ | .apnd h g | .copy h g =>
    if st.occ h && st.occ g then
      match growingMember E st op with
      | some (_, f) => okR (pMut st h f)
      | none => if (st.elemsOf g).isSome then some (st, .skip) else none   -- insx from an empty array
    else some (st, .skip)
  | .rem h i c =>
    if st.occ h then okR (pMut st h fun s => let i' := i % (s.n + 1); remove E s i' (c % (s.n - i' + 1)))
    else some (st, .skip)
  | .remone h v j =>
    if st.occ h then
      (st.elemsOf h).bind fun l =>
        let i := indexOf l v (j % (l.length + 1))
        if i < 0 then some (st, .flag false)
        else (pMut st h fun s => remove E s i.toNat 1).map fun st' => (st', .flag true)
    else some (st, .skip)
  | .reml h =>
    if st.occ h then okR (pMut st h fun s => if s.n > 0 then remove E s (s.n - 1) 1 else some s)
    else some (st, .skip)
  | .clr h =>
    if st.occ h then okR (pMut st h fun s => resize E s 0) else some (st, .skip)
  | .sort h desc =>
    if st.occ h then okR (pMut st h (sortB (if desc then fun a b => E.lt b a else E.lt))) else some (st, .skip)
  | .sortby h asc =>
    -- `quicksort(_a, length(), IsLess<T,F>(f))` / `IsMore<T,F>(f)` : compares the keys
    if st.occ h then
      okR (pMut st h (sortB (if asc then fun a b => decide (E.key a < E.key b) else fun a b => decide (E.key b < E.key a))))
    else some (st, .skip)
  | .newp h xs =>
    -- `delete H[h]; H[h] = new C(); *H[h] = Array<T>(p, n);`
    (if st.occ h then pDrop st h else some st).bind fun st' => produce E st' h xs
  | .iter h =>
    if st.occ h then (st.elemsOf h).map fun _ => (st, .ok) else some (st, .skip)
  | .copyown h j k =>
    if st.occ h then okR (pMut st h fun s => let j' := j % (s.n + 1); copyOwn E s j' (k % (s.n - j' + 1)))
    else some (st, .skip)
  | .remx h i c =>
    if st.occ h then okR (pMut st h fun s => remove E s i c) else some (st, .skip)
  | .slice t h i j =>
    if st.occ h then
      (st.elemsOf h).bind fun l =>
        let i1 := i % (l.length + 1)
        let i2 := i1 + j % (l.length - i1 + 1)              -- explicit `i2 ≥ 0` (code after 4e6b3b8: only `i2 < 0` means "omitted")
        produce E st t ((l.drop i1).take (i2 - i1))
    else some (st, .skip)
  | .slicee t h i =>
    -- `a.slice(i1)` : second argument omitted (`-1`) = up to the end
    if st.occ h then (st.elemsOf h).bind fun l => produce E st t (l.drop (i % (l.length + 1))) else some (st, .skip)
  | .clone t h =>
    if st.occ h then (st.elemsOf h).bind fun l => produce E st t l else some (st, .skip)
  | .dup h =>
    if st.occ h then
      (st.blockOf h).bind fun br =>
        if br.2.rc = 1 then some (st, .ok)
        else (st.elemsOf h).bind fun l =>
          okR ((pNew E st T0 l.length fun s => assignFrom l s 0).bind fun st1 =>
            (pAssign st1 h T0).bind fun st2 => pDrop st2 T0)
    else some (st, .skip)
  | .concat t h g =>
    if st.occ h && st.occ g then
      (st.elemsOf h).bind fun l => (st.elemsOf g).bind fun l2 =>
        okR ((pNew E st T0 l.length fun s => assignFrom l s 0).bind fun st1 =>
          (pMut st1 T0 fun s => append E s (.vals l2)).bind fun st2 => storeT0 E st2 t)
    else some (st, .skip)
  | .rev t h =>
    if st.occ h then (st.elemsOf h).bind fun l => produce E st t l.reverse else some (st, .skip)
  | .filt t h m r =>
    if st.occ h then
      (st.elemsOf h).bind fun l =>
        okR ((pNew E st T0 0 fun s => pushAll (l.filter (predOf E m r)) (reserve E s l.length)).bind fun st' =>
          storeT0 E st' t)
    else some (st, .skip)
  | .remif h m r =>
    if st.occ h then okR (pMut st h (removeIf (predOf E m r))) else some (st, .skip)
  | .set h i v =>
    if st.occ h then okR (pMut st h fun s => if s.n = 0 then some s else assignCell s (i % s.n) v)
    else some (st, .skip)
  | .get h i =>
    if st.occ h then
      (st.blockOf h).bind fun br =>
        if br.2.n = 0 then some (st, .skip)
        else (readCell (br.2.toBS st.live) (i % br.2.n)).map fun v => (st, .val v)
    else some (st, .skip)
  | .idx h v j =>
    if st.occ h then
      (st.elemsOf h).map fun l => let i := indexOf l v (j % (l.length + 1)); (st, .idx i (indexOf l v 0 ≥ 0))
    else some (st, .skip)
  | .last h =>
    if st.occ h then
      (st.blockOf h).bind fun br =>
        if br.2.n = 0 then some (st, .skip)
        else (readCell (br.2.toBS st.live) (br.2.n - 1)).map fun v => (st, .val v)
    else some (st, .skip)
  | .eq h g =>
    if st.occ h && st.occ g then
      (st.elemsOf h).bind fun l => (st.elemsOf g).map fun l2 => (st, .flag (decide (l = l2)))
    else some (st, .skip)
  | .pop h =>
    if st.occ h then
      (st.blockOf h).bind fun br =>
        if br.2.n = 0 then some (st, .skip) else okR (pMut st h fun s => resize E s (s.n - 1))
    else some (st, .skip)
  | .popn h k =>
    if st.occ h then okR (pMut st h fun s => resize E s (s.n - k % (s.n + 1))) else some (st, .skip)
  | .popget h =>
    -- `T y; (*this) >> y;` : `x = (*this)[len-1]; resize(len-1);`
    if st.occ h then
      (st.blockOf h).bind fun br =>
        if br.2.n = 0 then some (st, .skip)
        else (readCell (br.2.toBS st.live) (br.2.n - 1)).bind fun v =>
          (pMut st h fun s => resize E s (s.n - 1)).map fun st' => (st', .val v)
    else some (st, .skip)
  | .top h i =>
    if st.occ h then
      (st.blockOf h).bind fun br =>
        if br.2.n = 0 then some (st, .skip)
        else (readCell (br.2.toBS st.live) (br.2.n - 1 - i % br.2.n)).map fun v => (st, .val v)
    else some (st, .skip)
  | .qget h =>
    -- `T y; (*this) >> y;` : `x = (*this)[0]; remove(0);`
    if st.occ h then
      (st.blockOf h).bind fun br =>
        if br.2.n = 0 then some (st, .skip)
        else (readCell (br.2.toBS st.live) 0).bind fun v =>
          (pMut st h fun s => remove E s 0 1).map fun st' => (st', .val v)
    else some (st, .skip)

/-- what the public API shows through one slot: elements and `rc()` -/
def St.view (st : St α) (slot : Nat) : Option (Option (List α × Nat)) :=
  match st.hs[slot]? with
  | some (some b) =>
    match st.blocks[b]? with
    | some (some r) => (readN r.n r.cells).map fun l => some (l, r.rc)
    | _ => none
  | _ => some none

def viewsAux (st : St α) : Nat → Nat → Option (List (Option (List α × Nat)))
  | 0, _ => some []
  | k + 1, i => (st.view i).bind fun v => (viewsAux st k (i + 1)).map (v :: ·)

/-- all user slots; `none` when some handle dangles -/
def St.observe (st : St α) : Option (List (Option (List α × Nat))) := viewsAux st NS 0

/-- `cap()` through every user slot (printed by the driver, compared with the real `cap()` on every operation; it is
not part of the reference semantics) -/
def St.caps (st : St α) : List (Option Nat) :=
  (List.range NS).map fun slot => (st.blockOf slot).map fun br => br.2.cells.length

/-- the driver's step: slot numbers are reduced mod `NS`, guarded operations are skipped -/
def normOp : Op α → Op α
  | .new h => .new (h % NS)
  | .newn h n v => .newn (h % NS) n v
  | .cp h g => .cp (h % NS) (g % NS)
  | .asg h g => .asg (h % NS) (g % NS)
  | .drop h => .drop (h % NS)
  | .app h v => .app (h % NS) v
  | .ins h k v => .ins (h % NS) k v
  | .appo h j => .appo (h % NS) j
  | .inso h k j => .inso (h % NS) k j
  | .insx h k g j => .insx (h % NS) k (g % NS) j
  | .rem h i c => .rem (h % NS) i c
  | .remone h v j => .remone (h % NS) v j
  | .reml h => .reml (h % NS)
  | .rsz h m v => .rsz (h % NS) m v
  | .res h m => .res (h % NS) m
  | .clr h => .clr (h % NS)
  | .sort h d => .sort (h % NS) d
  | .slice t h i j => .slice (t % NS) (h % NS) i j
  | .clone t h => .clone (t % NS) (h % NS)
  | .dup h => .dup (h % NS)
  | .concat t h g => .concat (t % NS) (h % NS) (g % NS)
  | .rev t h => .rev (t % NS) (h % NS)
  | .filt t h m r => .filt (t % NS) (h % NS) m r
  | .remif h m r => .remif (h % NS) m r
  | .apnd h g => .apnd (h % NS) (g % NS)
  | .copy h g => .copy (h % NS) (g % NS)
  | .set h i v => .set (h % NS) i v
  | .get h i => .get (h % NS) i
  | .idx h v j => .idx (h % NS) v j
  | .last h => .last (h % NS)
  | .eq h g => .eq (h % NS) (g % NS)
  | .pop h => .pop (h % NS)
  | .popn h k => .popn (h % NS) k
  | .popget h => .popget (h % NS)
  | .top h i => .top (h % NS) i
  | .qget h => .qget (h % NS)
  | .newp h xs => .newp (h % NS) xs
  | .copyp h xs => .copyp (h % NS) xs
  | .appp h xs => .appp (h % NS) xs
  | .sortby h a => .sortby (h % NS) a
  | .iter h => .iter (h % NS)
  | .appown h j k => .appown (h % NS) j k
  | .copyown h j k => .copyown (h % NS) j k
  | .remx h i c => .remx (h % NS) i c
  | .slicee t h i => .slicee (t % NS) (h % NS) i

def stepG [DecidableEq α] (E : Elem α) (st : St α) (op : Op α) : Option (St α × Res α) :=
  let op := normOp op
  if guard E st op then some (st, .skip) else step E st op

/-! ## the element types of the harness -/

/-- `String::operator<` = `strcmp` on NUL-free byte strings: lexicographic order of unsigned bytes -/
def ltBytes : List UInt8 → List UInt8 → Bool
  | [], [] => false
  | [], _ :: _ => true
  | _ :: _, [] => false
  | a :: s, b :: t => if a < b then true else if b < a then false else ltBytes s t

/-- `int` and the counted element type (compared by its payload) -/
def intElem (esz : Nat) : Elem Int := ⟨0, esz, fun a b => a < b, fun v => v⟩
/-- `asl::String` (24 bytes), key = length -/
def strElem : Elem (List UInt8) := ⟨[], 24, ltBytes, fun b => (b.length : Int)⟩

end AslModel.Arr
