/-!
# Reference-level model of `Array<Node>` with `struct Node { int v; Array<Node> kids; }` (core Lean only)

Used by the correspondence check only (no theorems): an element type whose payload is itself an `asl::Array`, so that
an argument of `operator=`, `append`, `copy` can be *stored inside an element of the same array*
(`a = a[j].kids`, `a.append(a[j].kids)`, `a.copy(a[j].kids)`).  Cells are shared sequences of `(v, kids cell)`
with an explicit reference count (one reference per handle slot and per `Node` object holding the cell); the last
release destroys the elements, which release their own `kids`.  There is no capacity here: operations that may grow
a block are left out whenever the block is shared at all (`rc > 1`), a superset of the known finding `shared-growth`.
-/
namespace AslModel.ArrN

structure NCell where
  elems : List (Int × Nat)
  rc : Nat

structure NSt where
  cells : List NCell
  hs : List (Option Nat)

def NS : Nat := 6
def NSt.init : NSt := ⟨[], List.replicate NS none⟩

def modify (cs : List NCell) (c : Nat) (f : NCell → NCell) : List NCell :=
  match cs[c]? with
  | some x => cs.set c (f x)
  | none => cs

def retain (cs : List NCell) (c : Nat) : List NCell := modify cs c fun x => { x with rc := x.rc + 1 }

/-- drop one reference; the last one destroys the elements, each of which releases its `kids` -/
def release : Nat → List NCell → Nat → List NCell
  | 0, cs, _ => cs
  | f + 1, cs, c =>
    match cs[c]? with
    | none => cs
    | some cell =>
      if cell.rc ≤ 1 then cell.elems.foldl (fun cs e => release f cs e.2) (cs.set c ⟨[], 0⟩)
      else cs.set c { cell with rc := cell.rc - 1 }

def rel (cs : List NCell) (c : Nat) : List NCell := release (cs.length + 2) cs c

def fresh (cs : List NCell) : List NCell × Nat := (cs ++ [⟨[], 1⟩], cs.length)

def cellOf (st : NSt) (h : Nat) : Option (Nat × NCell) :=
  match st.hs[h]? with
  | some (some c) => (st.cells[c]?).map fun x => (c, x)
  | _ => none

def elemAt (x : NCell) (j : Nat) : Option (Int × Nat) := x.elems[j % x.elems.length]?

inductive NOp where
  | new (h : Nat) | drop (h : Nat) | cp (h g : Nat)
  | app (h : Nat) (v : Int)            -- `a << Node(v)`
  | kapp (h j : Nat) (v : Int)         -- `a[j].kids << Node(v)`
  | getk (t h j : Nat)                 -- `H[t] = new Array<Node>(a[j].kids)`
  | asgk (h j : Nat)                   -- `a = a[j].kids`
  | apndk (h j : Nat)                  -- `a.append(a[j].kids)`
  | copyk (h j : Nat)                  -- `a.copy(a[j].kids)`
  | rem (h i : Nat)                    -- `a.remove(i)`

def dropSlot (st : NSt) (h : Nat) : NSt :=
  match st.hs[h]? with
  | some (some c) => { cells := rel st.cells c, hs := st.hs.set h none }
  | _ => st

/-- one operation; the Boolean says whether it was carried out (`ok`) or left out (`skip`) -/
def step (st : NSt) : NOp → NSt × Bool
  | .new h =>
    let st := dropSlot st h
    let (cs, c) := fresh st.cells
    ({ cells := cs, hs := st.hs.set h (some c) }, true)
  | .drop h => match cellOf st h with
    | some _ => (dropSlot st h, true)
    | none => (st, false)
  | .cp h g => match cellOf st g with
    | some (c, _) =>
      let st1 : NSt := { st with cells := retain st.cells c }
      let st2 := dropSlot st1 h
      ({ st2 with hs := st2.hs.set h (some c) }, true)
    | none => (st, false)
  | .app h v => match cellOf st h with
    | some (c, x) =>
      if x.rc > 1 then (st, false) else
      let (cs, k) := fresh st.cells
      ({ st with cells := modify cs c fun x => { x with elems := x.elems ++ [(v, k)] } }, true)
    | none => (st, false)
  | .kapp h j v => match cellOf st h with
    | some (_, x) => match elemAt x j with
      | some (_, k) => match st.cells[k]? with
        | some kx =>
          if kx.rc > 1 then (st, false) else
          let (cs, k2) := fresh st.cells
          ({ st with cells := modify cs k fun y => { y with elems := y.elems ++ [(v, k2)] } }, true)
        | none => (st, false)
      | none => (st, false)
    | none => (st, false)
  | .getk t h j => match cellOf st h with
    | some (_, x) => match elemAt x j with
      | some (_, k) =>
        let st1 : NSt := { st with cells := retain st.cells k }
        let st2 := dropSlot st1 t
        ({ st2 with hs := st2.hs.set t (some k) }, true)
      | none => (st, false)
    | none => (st, false)
  | .asgk h j => match cellOf st h with
    | some (c, x) => match elemAt x j with
      | some (_, k) =>
        -- take the new block first, then release the old one (code after 46697f8)
        ({ cells := rel (retain st.cells k) c, hs := st.hs.set h (some k) }, true)
      | none => (st, false)
    | none => (st, false)
  | .apndk h j => match cellOf st h with
    | some (c, x) => match elemAt x j with
      | some (_, k) =>
        if x.rc > 1 then (st, false) else
        let xs := ((st.cells[k]?).map (·.elems)).getD []
        let cs := xs.foldl (fun cs e => retain cs e.2) st.cells
        ({ st with cells := modify cs c fun y => { y with elems := y.elems ++ xs } }, true)
      | none => (st, false)
    | none => (st, false)
  | .copyk h j => match cellOf st h with
    | some (c, x) => match elemAt x j with
      | some (_, k) =>
        if x.rc > 1 then (st, false) else
        -- `Array src(b)` holds the source block while the old elements are destroyed / overwritten (code after 8a65fa2)
        let xs := ((st.cells[k]?).map (·.elems)).getD []
        let cs := xs.foldl (fun cs e => retain cs e.2) (retain st.cells k)
        let cs := modify cs c fun y => { y with elems := xs }
        let cs := x.elems.foldl (fun cs e => rel cs e.2) cs
        ({ st with cells := rel cs k }, true)
      | none => (st, false)
    | none => (st, false)
  | .rem h i => match cellOf st h with
    | some (c, x) => match elemAt x i with
      | some (_, k) =>
        let i' := i % x.elems.length
        let cs := modify st.cells c fun y => { y with elems := y.elems.take i' ++ y.elems.drop (i' + 1) }
        ({ st with cells := rel cs k }, true)
      | none => (st, false)
    | none => (st, false)

def normOp : NOp → NOp
  | .new h => .new (h % NS) | .drop h => .drop (h % NS) | .cp h g => .cp (h % NS) (g % NS)
  | .app h v => .app (h % NS) v | .kapp h j v => .kapp (h % NS) j v | .getk t h j => .getk (t % NS) (h % NS) j
  | .asgk h j => .asgk (h % NS) j | .apndk h j => .apndk (h % NS) j | .copyk h j => .copyk (h % NS) j
  | .rem h i => .rem (h % NS) i

/-- `v:rc[children]` for every element, to a bounded depth -/
def render (cs : List NCell) : Nat → List (Int × Nat) → String
  | 0, _ => "..."
  | f + 1, es =>
    ",".intercalate (es.map fun e =>
      match cs[e.2]? with
      | some k => s!"{e.1}:{k.rc}[{render cs f k.elems}]"
      | none => s!"{e.1}:?")

def view (st : NSt) (h : Nat) : String :=
  match cellOf st h with
  | some (_, x) => s!"{x.elems.length}/{x.rc}/{render st.cells 6 x.elems}"
  | none => "-"

/-- live `Node` objects: the elements of the cells that are still referenced -/
def live (st : NSt) : Nat := st.cells.foldl (fun a c => if c.rc > 0 then a + c.elems.length else a) 0

def showState (st : NSt) : String :=
  " ".intercalate ((List.range NS).map (view st)) ++ s!" | L{live st}"

end AslModel.ArrN
