/-!
# Reference-level model of `Array<Node>` with `struct Node { int v; Array<Node> kids; Array<int> ints; }` (core Lean only)

Used by the correspondence check only (no theorems): an element type whose payload is itself an `asl::Array`, so that
an argument of `operator=`, `append`, `copy` can be *stored inside an element of the same array*
(`a = a[j].kids`, `a.append(a[j].kids)`, `a.copy(a[j].kids)`, and the converting assignment `a = a[j].ints`).  Cells are shared sequences of `(v, kids cell)`
with an explicit reference count (one reference per handle slot and per `Node` object holding the cell); the last
release destroys the elements, which release their own `kids`.  There is no capacity here: operations that may grow
a block are left out whenever the block is shared at all (`rc > 1`), a superset of the known finding `shared-growth`.
-/
namespace AslModel.ArrN

structure NCell where
  elems : List (Int × Nat × Nat)     -- (v, id of the `kids` cell, id of the `ints` cell)
  rc : Nat

structure ICell where
  vals : List Int
  rc : Nat

structure Store where
  cells : List NCell
  icells : List ICell

structure NSt where
  store : Store
  hs : List (Option Nat)

def NS : Nat := 6
def NSt.init : NSt := ⟨⟨[], []⟩, List.replicate NS none⟩

def modify (st : Store) (c : Nat) (f : NCell → NCell) : Store :=
  match st.cells[c]? with
  | some x => { st with cells := st.cells.set c (f x) }
  | none => st

def modifyI (st : Store) (c : Nat) (f : ICell → ICell) : Store :=
  match st.icells[c]? with
  | some x => { st with icells := st.icells.set c (f x) }
  | none => st

def retain (st : Store) (c : Nat) : Store := modify st c fun x => { x with rc := x.rc + 1 }
def retainI (st : Store) (c : Nat) : Store := modifyI st c fun x => { x with rc := x.rc + 1 }
def releaseI (st : Store) (c : Nat) : Store :=
  modifyI st c fun x => if x.rc ≤ 1 then ⟨[], 0⟩ else { x with rc := x.rc - 1 }

/-- a copy of a `Node` shares both arrays of the original -/
def retainElem (st : Store) (e : Int × Nat × Nat) : Store := retainI (retain st e.2.1) e.2.2

/-- drop one reference; the last one destroys the elements, each of which releases its `kids` and its `ints` -/
def release : Nat → Store → Nat → Store
  | 0, st, _ => st
  | f + 1, st, c =>
    match st.cells[c]? with
    | none => st
    | some cell =>
      if cell.rc ≤ 1 then
        cell.elems.foldl (fun st e => releaseI (release f st e.2.1) e.2.2) { st with cells := st.cells.set c ⟨[], 0⟩ }
      else { st with cells := st.cells.set c { cell with rc := cell.rc - 1 } }

def rel (st : Store) (c : Nat) : Store := release (st.cells.length + 2) st c
def relElem (st : Store) (e : Int × Nat × Nat) : Store := releaseI (rel st e.2.1) e.2.2

def fresh (st : Store) : Store × Nat := ({ st with cells := st.cells ++ [⟨[], 1⟩] }, st.cells.length)
def freshI (st : Store) : Store × Nat := ({ st with icells := st.icells ++ [⟨[], 1⟩] }, st.icells.length)
/-- `Node(v)` : new empty `kids` and `ints` -/
def freshNode (st : Store) (v : Int) : Store × (Int × Nat × Nat) :=
  let (st, k) := fresh st
  let (st, i) := freshI st
  (st, (v, k, i))

def cellOf (st : NSt) (h : Nat) : Option (Nat × NCell) :=
  match st.hs[h]? with
  | some (some c) => (st.store.cells[c]?).map fun x => (c, x)
  | _ => none

def elemAt (x : NCell) (j : Nat) : Option (Int × Nat × Nat) := x.elems[j % x.elems.length]?

inductive NOp where
  | new (h : Nat) | drop (h : Nat) | cp (h g : Nat)
  | app (h : Nat) (v : Int)            -- `a << Node(v)`
  | kapp (h j : Nat) (v : Int)         -- `a[j].kids << Node(v)`
  | iapp (h j : Nat) (v : Int)         -- `a[j].ints << v`
  | getk (t h j : Nat)                 -- `H[t] = new Array<Node>(a[j].kids)`
  | asgk (h j : Nat)                   -- `a = a[j].kids`
  | asgi (h j : Nat)                   -- `a = a[j].ints`  (converting `operator=(const Array<int>&)`)
  | apndk (h j : Nat)                  -- `a.append(a[j].kids)`
  | copyk (h j : Nat)                  -- `a.copy(a[j].kids)`
  | rem (h i : Nat)                    -- `a.remove(i)`

def dropSlot (st : NSt) (h : Nat) : NSt :=
  match st.hs[h]? with
  | some (some c) => { store := rel st.store c, hs := st.hs.set h none }
  | _ => st

/-- one operation; the Boolean says whether it was carried out (`ok`) or left out (`skip`) -/
def step (st : NSt) : NOp → NSt × Bool
  | .new h =>
    let st := dropSlot st h
    let (s, c) := fresh st.store
    ({ store := s, hs := st.hs.set h (some c) }, true)
  | .drop h => match cellOf st h with
    | some _ => (dropSlot st h, true)
    | none => (st, false)
  | .cp h g => match cellOf st g with
    | some (c, _) =>
      let st1 : NSt := { st with store := retain st.store c }
      let st2 := dropSlot st1 h
      ({ st2 with hs := st2.hs.set h (some c) }, true)
    | none => (st, false)
  | .app h v => match cellOf st h with
    | some (c, x) =>
      if x.rc > 1 then (st, false) else
      let (s, e) := freshNode st.store v
      ({ st with store := modify s c fun x => { x with elems := x.elems ++ [e] } }, true)
    | none => (st, false)
  | .kapp h j v => match cellOf st h with
    | some (_, x) => match elemAt x j with
      | some (_, k, _) => match st.store.cells[k]? with
        | some kx =>
          if kx.rc > 1 then (st, false) else
          let (s, e) := freshNode st.store v
          ({ st with store := modify s k fun y => { y with elems := y.elems ++ [e] } }, true)
        | none => (st, false)
      | none => (st, false)
    | none => (st, false)
  | .iapp h j v => match cellOf st h with
    | some (_, x) => match elemAt x j with
      | some (_, _, i) => match st.store.icells[i]? with
        | some ix =>
          if ix.rc > 1 then (st, false) else
          ({ st with store := modifyI st.store i fun y => { y with vals := y.vals ++ [v] } }, true)
        | none => (st, false)
      | none => (st, false)
    | none => (st, false)
  | .getk t h j => match cellOf st h with
    | some (_, x) => match elemAt x j with
      | some (_, k, _) =>
        let st1 : NSt := { st with store := retain st.store k }
        let st2 := dropSlot st1 t
        ({ st2 with hs := st2.hs.set t (some k) }, true)
      | none => (st, false)
    | none => (st, false)
  | .asgk h j => match cellOf st h with
    | some (c, x) => match elemAt x j with
      | some (_, k, _) =>
        -- take the new block first, then release the old one (code after 46697f8)
        ({ store := rel (retain st.store k) c, hs := st.hs.set h (some k) }, true)
      | none => (st, false)
    | none => (st, false)
  | .asgi h j => match cellOf st h with
    | some (c, x) => match elemAt x j with
      | some (_, _, i) =>
        if x.rc > 1 then (st, false) else
        -- `Array<int> src(b)` holds the source while the old elements are destroyed / overwritten (code after 752cb8b);
        -- every element becomes `Node(src[k])`: new empty `kids` and `ints`
        let xs := ((st.store.icells[i]?).map (·.vals)).getD []
        let s := retainI st.store i
        let (s, es) := xs.foldl (fun (acc : Store × List (Int × Nat × Nat)) v =>
          let (s', e) := freshNode acc.1 v; (s', acc.2 ++ [e])) (s, [])
        let s := modify s c fun y => { y with elems := es }
        let s := x.elems.foldl relElem s
        ({ st with store := releaseI s i }, true)
      | none => (st, false)
    | none => (st, false)
  | .apndk h j => match cellOf st h with
    | some (c, x) => match elemAt x j with
      | some (_, k, _) =>
        if x.rc > 1 then (st, false) else
        let xs := ((st.store.cells[k]?).map (·.elems)).getD []
        let s := xs.foldl retainElem st.store
        ({ st with store := modify s c fun y => { y with elems := y.elems ++ xs } }, true)
      | none => (st, false)
    | none => (st, false)
  | .copyk h j => match cellOf st h with
    | some (c, x) => match elemAt x j with
      | some (_, k, _) =>
        if x.rc > 1 then (st, false) else
        -- `Array src(b)` holds the source block while the old elements are destroyed / overwritten (code after 8a65fa2)
        let xs := ((st.store.cells[k]?).map (·.elems)).getD []
        let s := xs.foldl retainElem (retain st.store k)
        let s := modify s c fun y => { y with elems := xs }
        let s := x.elems.foldl relElem s
        ({ st with store := rel s k }, true)
      | none => (st, false)
    | none => (st, false)
  | .rem h i => match cellOf st h with
    | some (c, x) => match elemAt x i with
      | some e =>
        let i' := i % x.elems.length
        let s := modify st.store c fun y => { y with elems := y.elems.take i' ++ y.elems.drop (i' + 1) }
        ({ st with store := relElem s e }, true)
      | none => (st, false)
    | none => (st, false)

def normOp : NOp → NOp
  | .new h => .new (h % NS) | .drop h => .drop (h % NS) | .cp h g => .cp (h % NS) (g % NS)
  | .app h v => .app (h % NS) v | .kapp h j v => .kapp (h % NS) j v | .iapp h j v => .iapp (h % NS) j v
  | .getk t h j => .getk (t % NS) (h % NS) j
  | .asgk h j => .asgk (h % NS) j | .asgi h j => .asgi (h % NS) j | .apndk h j => .apndk (h % NS) j
  | .copyk h j => .copyk (h % NS) j | .rem h i => .rem (h % NS) i

/-- `v:rc<ints rc;ints>[children]` for every element, to a bounded depth -/
def render (st : Store) : Nat → List (Int × Nat × Nat) → String
  | 0, _ => "..."
  | f + 1, es =>
    ",".intercalate (es.map fun e =>
      let ints := match st.icells[e.2.2]? with
        | some ic => s!"{ic.rc};" ++ ".".intercalate (ic.vals.map toString)
        | none => "?"
      match st.cells[e.2.1]? with
      | some k => s!"{e.1}:{k.rc}<{ints}>[{render st f k.elems}]"
      | none => s!"{e.1}:?")

def view (st : NSt) (h : Nat) : String :=
  match cellOf st h with
  | some (_, x) => s!"{x.elems.length}/{x.rc}/{render st.store 6 x.elems}"
  | none => "-"

/-- live `Node` objects: the elements of the cells that are still referenced -/
def live (st : NSt) : Nat := st.store.cells.foldl (fun a c => if c.rc > 0 then a + c.elems.length else a) 0

/-- self-check evaluated by the driver after every step: the reference count of every cell equals the number of
handle slots plus the number of `Node` elements (in still-referenced cells) that refer to it, and a released cell
is empty -/
def consistent (st : NSt) : Bool :=
  let liveCells := st.store.cells.filter fun c => c.rc > 0
  let kidRefs := liveCells.flatMap fun c => c.elems.map fun e => e.2.1
  let intRefs := liveCells.flatMap fun c => c.elems.map fun e => e.2.2
  let slotRefs := st.hs.filterMap id
  ((List.range st.store.cells.length).all fun c =>
    match st.store.cells[c]? with
    | some x => x.rc == kidRefs.count c + slotRefs.count c && (x.rc > 0 || x.elems.isEmpty)
    | none => true) &&
  ((List.range st.store.icells.length).all fun i =>
    match st.store.icells[i]? with
    | some x => x.rc == intRefs.count i && (x.rc > 0 || x.vals.isEmpty)
    | none => true)

def showState (st : NSt) : String :=
  " ".intercalate ((List.range NS).map (view st)) ++ s!" | L{live st}"

end AslModel.ArrN
