import Gen.TablesGen
/-!
# C15 — models of `encodeBase64`, `decodeBase64`, `encodeHex`, `decodeHex` (src/util.cpp)
and `Url::encode`, `Url::decode` (src/Http.cpp).

The loops are transcribed with the code's own bit operations (`<<`, `|`, `>>`, `&`);
the alphabet, the inverse table and the URL keep-sets are *regenerated* from the source
(`Gen/TablesGen.lean`).  Core Lean only.
-/
namespace AslModel.Codec
open Gen.Tables

/-- `base64_chars[k]` -/
def chr (k : Nat) : UInt8 := b64chars.getD k 0
/-- `base64_chars_inv[c]` -/
def inv (c : UInt8) : Nat := (b64inv.getD c.toNat 0).toNat

/-- one iteration of the encoder loop: `u = (a<<16)|(b<<8)|c`, four table lookups -/
def quad (a b c : UInt8) : List UInt8 :=
  let u := (a.toNat <<< 16) ||| (b.toNat <<< 8) ||| c.toNat
  [chr ((u >>> 18) &&& 0x3f), chr ((u >>> 12) &&& 0x3f), chr ((u >>> 6) &&& 0x3f), chr (u &&& 0x3f)]

/-- the `for (i = 0; i < n; i += 3)` loop with `b`, `c` read as 0 past the end -/
def encGroups : List UInt8 → List UInt8
  | a :: b :: c :: t => quad a b c ++ encGroups t
  | [a, b] => quad a b 0
  | [a] => quad a 0 0
  | [] => []

def eqSign : UInt8 := 61

/-- `encodeBase64(data, n)`: loop, then the two `'='` fix-ups at `len-1` and `len-2` -/
def encodeBase64 (d : List UInt8) : List UInt8 :=
  let n := d.length
  let len := 4 * ((n + 2) / 3)
  let out := encGroups d
  let out := if n % 3 > 0 then out.set (len - 1) eqSign else out
  let out := if n % 3 = 1 then out.set (len - 2) eqSign else out
  out

/-- `myisspace` -/
def isSpace (c : UInt8) : Bool := c == 32 || c == 10 || c == 13 || c == 9
/-- `myisalnum(c) || c == '/' || c == '+'` -/
def isSym (c : UInt8) : Bool :=
  (65 ≤ c && c ≤ 90) || (97 ≤ c && c ≤ 122) || (48 ≤ c && c ≤ 57) || c == 47 || c == 43

/-- `e`: the backward scan `while (p > src && !sym(*p)) if (*p-- == '=') e++`
    (index 0 is never examined) -/
def padCount (w : List UInt8) : Nat :=
  (((w.drop 1).reverse.takeWhile (fun c => !isSym c)).filter (· == eqSign)).length

/-- `u = (k0<<18)|(k1<<12)|(k2<<6)|k3`, three bytes out -/
def triple (k0 k1 k2 k3 : Nat) : List UInt8 :=
  let u := (k0 <<< 18) ||| (k1 <<< 12) ||| (k2 <<< 6) ||| k3
  [UInt8.ofNat (u >>> 16), UInt8.ofNat ((u >>> 8) &&& 0xff), UInt8.ofNat (u &&& 0xff)]

/-- complete groups of four table values; an incomplete last group writes nothing -/
def decGroups : List Nat → List UInt8
  | k0 :: k1 :: k2 :: k3 :: t => triple k0 k1 k2 k3 ++ decGroups t
  | _ => []

/-- bytes written through `dest` by the main loop (which stops at the first NUL) -/
def decWritten (w : List UInt8) : List UInt8 :=
  decGroups (((w.takeWhile (· != 0)).filter (fun c => !isSpace c)).map inv)

/-- `decodeBase64(src, len)` (whitespace-tolerant variant, the one compiled).
    The result buffer has `len/4*3` bytes; the final `resize(written - e)` is clamped at 0
    (the repaired code). -/
def decodeBase64 (w : List UInt8) : List UInt8 :=
  if w.length < 4 then [] else
  let out := decWritten w
  out.take (out.length - padCount w)

/-- what the *unrepaired* code passed to `resize`: can be negative -/
def decodeBase64LenRaw (w : List UInt8) : Int :=
  if w.length < 4 then 0 else ((decWritten w).length : Int) - (padCount w : Int)

/-! ## hex -/

def hexDigitLower (n : Nat) : UInt8 :=
  if n < 10 then UInt8.ofNat (48 + n) else UInt8.ofNat (87 + n)

/-- `snprintf("%02x")` per byte -/
def encodeHex (d : List UInt8) : List UInt8 :=
  d.flatMap fun b => [hexDigitLower (b.toNat / 16), hexDigitLower (b.toNat % 16)]

def hexVal (c : UInt8) : Option Nat :=
  if 48 ≤ c ∧ c ≤ 57 then some (c.toNat - 48)
  else if 97 ≤ c ∧ c ≤ 102 then some (c.toNat - 87)
  else if 65 ≤ c ∧ c ≤ 70 then some (c.toNat - 55)
  else none

/-- C `isspace` in the "C" locale -/
def cIsSpace (c : UInt8) : Bool := c == 32 || (9 ≤ c && c ≤ 13)

/-- digits part of `strtoul(.,NULL,16)`: longest hex prefix, value -/
def hexDigits : List UInt8 → Nat → Nat
  | [], acc => acc
  | c :: t, acc => match hexVal c with
    | some v => hexDigits t (acc * 16 + v)
    | none => acc

/-- `(unsigned)strtoul(s, NULL, 16)` for the short (≤ 2 byte) NUL-free strings the callers pass:
    blanks, optional sign, optional `0x` prefix (only when a hex digit follows), digits. -/
def strtoul16 (s : List UInt8) : Nat :=
  let s := s.takeWhile (· != 0)
  let s := s.dropWhile cIsSpace
  let (neg, s) := match s with
    | 45 :: t => (true, t)
    | 43 :: t => (false, t)
    | _ => (false, s)
  let s := match s with
    | 48 :: x :: h :: t => if (x == 120 || x == 88) && (hexVal h).isSome then h :: t else s
    | _ => s
  let v := hexDigits s 0
  if neg then (4294967296 - v % 4294967296) % 4294967296 else v % 4294967296

def pairs : List UInt8 → List (List UInt8)
  | a :: b :: t => [a, b] :: pairs t
  | [a] => [[a]]
  | [] => []

/-- `decodeHex(s)`: one byte per *complete* pair (repaired code: a trailing odd digit is ignored,
    the array has `len/2` elements). -/
def decodeHex (s : List UInt8) : List UInt8 :=
  ((pairs s).filter (·.length == 2)).map fun p => UInt8.ofNat (strtoul16 p)

/-! ## percent-encoding -/

def isAlnumC (c : UInt8) : Bool :=
  (65 ≤ c && c ≤ 90) || (97 ≤ c && c ≤ 122) || (48 ≤ c && c ≤ 57)

def hexNibble (n : Nat) : UInt8 :=
  if n < 10 then UInt8.ofNat (48 + n) else UInt8.ofNat (55 + n)

def urlKeep (component : Bool) : List UInt8 := if component then urlKeepComponent else urlKeepFull

def urlEncode (s : List UInt8) (component : Bool) : List UInt8 :=
  s.flatMap fun c =>
    if !isAlnumC c && !(urlKeep component).contains c then
      [37, hexNibble (c.toNat >>> 4), hexNibble (c.toNat &&& 0x0f)]
    else [c]

/-- `Url::decode`: a `%` that is the last byte *stops* decoding (`break`);
    the two bytes go through `strtoul(.,16)` and a `(char)` cast. -/
def urlDecode : List UInt8 → List UInt8
  | 37 :: a :: b :: t => UInt8.ofNat (strtoul16 [a, b]) :: urlDecode t
  | [37, a] => [UInt8.ofNat (strtoul16 [a])]   -- second digit read is the terminating NUL
  | [37] => []
  | c :: t => c :: urlDecode t
  | [] => []

end AslModel.Codec

/-! ## `Url::params` / `Url::parseQuery` (src/Http.cpp) over `Dic<>` = `Map<String,String>` kept sorted by key -/
namespace AslModel.Query
open AslModel.Codec

/-- lexicographic order on unsigned bytes -/
def bytesLt : List UInt8 → List UInt8 → Bool
  | [], [] => false
  | [], _ :: _ => true
  | _ :: _, [] => false
  | a :: as, b :: bs => if a < b then true else if b < a then false else bytesLt as bs

/-- the C string held in a byte buffer: everything before the first NUL -/
def cstr (s : List UInt8) : List UInt8 := s.takeWhile (· != 0)

/-- `String::operator<`: `strcmp(a, b) < 0`, which never looks past a NUL -/
def strLt (a b : List UInt8) : Bool := bytesLt (cstr a) (cstr b)

abbrev Dict := List (List UInt8 × List UInt8)

/-- `dic[k] = v` on a `Map`: the array stays sorted by key; an existing key keeps its slot -/
def dicSet : Dict → List UInt8 → List UInt8 → Dict
  | [], k, v => [(k, v)]
  | (k', v') :: r, k, v =>
    if strLt k k' then (k, v) :: (k', v') :: r
    else if strLt k' k then (k', v') :: dicSet r k v
    else (k', v) :: r

def ofPairs (l : Dict) : Dict := l.foldl (fun acc kv => dicSet acc kv.1 kv.2) []

/-- `Dic<>::join(s1, s2)` with one-byte separators -/
def join (s1 s2 : UInt8) (d : Dict) : List UInt8 :=
  List.intercalate [s1] (d.map fun kv => kv.1 ++ [s2] ++ kv.2)

/-- `Url::params`: `d[encode(k)] = encode(v)` for every entry in key order, then `join('&', '=')` -/
def params (q : Dict) : List UInt8 :=
  join 38 61 (ofPairs (q.map fun kv => (urlEncode kv.1 true, urlEncode kv.2 true)))

/-- `String::split(sep)` for a one-byte separator: always at least one (possibly empty) piece -/
def splitByte (sep : UInt8) : List UInt8 → List (List UInt8)
  | [] => [[]]
  | c :: r =>
    if c = sep then [] :: splitByte sep r
    else match splitByte sep r with
      | h :: t => (c :: h) :: t
      | [] => [[c]]

def indexOfByte (c : UInt8) : List UInt8 → Option Nat
  | [] => none
  | x :: r => if x = c then some 0 else (indexOfByte c r).map (· + 1)

/-- `String::split(sep1, sep2)`: pieces without `sep2`, or with it at position 0, are dropped -/
def splitDic (sep1 sep2 : UInt8) (s : List UInt8) : Dict :=
  (splitByte sep1 s).foldl (fun acc p =>
    match indexOfByte sep2 p with
    | some j => if j > 0 then dicSet acc (p.take j) (p.drop (j + 1)) else acc
    | none => acc) []

/-- `Url::parseQuery` -/
def parseQuery (s : List UInt8) : Dict :=
  let q := splitDic 38 61 (s.map fun c => if c = 43 then 32 else c)
  ofPairs (q.map fun kv => (urlDecode kv.1, urlDecode kv.2))

end AslModel.Query
