import AslModel.Codec
/-!
# C15 (extension) — MIME line folding (RFC 2045 §6.8) and the RFC 3986 byte classes

`mimeWrap` is what a sender of wrapped Base64 produces; the library has no such function: the harness (op `b64mime`)
does the folding itself in C++ and hands the folded text to the real `decodeBase64`, the driver folds with `mimeWrap`
and decodes with the model.  Core Lean only.
-/
namespace AslModel.Codec

/-- `k` = characters still allowed on the current line; a CR LF goes in front of the character that would exceed it -/
def wrapAux (n : Nat) : Nat → List UInt8 → List UInt8
  | _, [] => []
  | 0, c :: t => 13 :: 10 :: c :: wrapAux n (n - 1) t
  | k + 1, c :: t => c :: wrapAux n k t

/-- CR LF after every `n` characters (none after the last line); `n = 76` is the MIME limit, `n = 64` PEM's -/
def foldLines (n : Nat) (s : List UInt8) : List UInt8 := wrapAux n n s

def mimeWrap (s : List UInt8) : List UInt8 := foldLines 76 s

end AslModel.Codec
