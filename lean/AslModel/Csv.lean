import AslModel.Ini
/-!
# C18 — model of `TabularDataFile` (src/TabularDataFile.cpp), CSV only

Writer: `columns(names)` + `operator<<(Var)` (a row is written when it has as many cells as
there are columns; the first row is preceded by the newline that ends the header; strings are
quoted iff they contain the quote or the separator, quotes doubled).  Reader: `readHeader`
(BOM, separator sniffing, "a numeric first row is data"), `nextRow` (BASE/QUOTE/QUOTE2 machine,
`myisnumber` — the repaired one, ccdee89 — and `myatof`), `data()`.

Numbers: the writer receives the `%.15g` text of a cell (the library prints it with `snprintf`);
the reader's `myatof` is transcribed on bytes and returns sign, integer mantissa `y1` and decimal
exponent, i.e. the exact rational `y1 * 10^exp` that the code then rounds with
`double(y1) * pow(10.0, exp)`.  `fmt15` prints such a value as `printf("%.15g")` prints the
double (exact for mantissas of at most 15 digits).  Core Lean only.
-/
namespace AslModel.Csv
open AslModel.Ini (Bytes charAt idxOf splitLF stripCR)

def isDigit (c : UInt8) : Bool := 48 ≤ c && c ≤ 57

/-! ## writer -/

/-- a cell handed to `operator<<`: a string, or a number given by the text `Var::toString()` prints -/
inductive Cell where
  | str (s : Bytes)
  | num (lex : Bytes)
deriving Repr, DecidableEq

/-- `value.replace(_quote, _equote)` for a one-byte quote -/
def doubleQuotes (q : UInt8) (s : Bytes) : Bytes := s.flatMap fun c => if c = q then [q, q] else [c]

/-- text of one cell inside a row -/
def writeCell (sep q : UInt8) : Cell → Bytes
  | .num lex => lex
  | .str s => if s.contains q || s.contains sep then [q] ++ doubleQuotes q s ++ [q] else s

/-- `row` without the final newline: cells joined by the separator -/
def writeRow (sep q : UInt8) (r : List Cell) : Bytes :=
  match r with
  | [] => []
  | c :: t => t.foldl (fun acc x => acc ++ [sep] ++ writeCell sep q x) (writeCell sep q c)

/-- `parts[0]` of `col.split(':')` -/
def colName (c : Bytes) : Bytes := c.takeWhile (· != 58)

def joinSep (sep : UInt8) : List Bytes → Bytes
  | [] => []
  | c :: t => t.foldl (fun acc x => acc ++ [sep] ++ x) c

/-- writer state: file text so far, pending `_row`, `_dataStarted` -/
structure WState where
  ncols : Nat
  text : Bytes
  row : List Cell
  dataStarted : Bool

/-- `columns(cols)` on a fresh object (separator ',', file opened for writing) -/
def startTable (cols : List Bytes) : WState :=
  { ncols := cols.length, text := joinSep 44 (cols.map colName), row := [], dataStarted := false }

/-- `operator<<(const Var& x)` -/
def putCell (w : WState) (x : Cell) : WState :=
  let rowFull := x == .str [10] && w.row.length > 0
  let row := if rowFull then w.row else w.row ++ [x]
  if row.length == w.ncols || rowFull then
    let pre : Bytes := if w.dataStarted then [] else [10]
    { w with text := w.text ++ pre ++ writeRow 44 34 row ++ [10], row := [], dataStarted := true }
  else { w with row := row }

/-- the file written by `columns(cols)` followed by `<<` of every cell -/
def writeTable (cols : List Bytes) (cells : List Cell) : Bytes :=
  (cells.foldl putCell (startTable cols)).text

/-- `operator<<(const Var& x)` with `x` an array: `_row = x.array().clone()` (a copy: the caller's array is
    neither shared nor changed) replaces whatever cells were pending; the row is written when it has as many
    cells as there are columns -/
def putArray (w : WState) (cs : List Cell) : WState :=
  if cs.length == w.ncols then
    let pre : Bytes := if w.dataStarted then [] else [10]
    { w with text := w.text ++ pre ++ writeRow 44 34 cs ++ [10], row := [], dataStarted := true }
  else { w with row := cs }

/-- what is handed to `operator<<`: one cell, or a whole row as an array `Var` -/
inductive WItem where
  | cell (c : Cell)
  | arr (cs : List Cell)
deriving Repr, DecidableEq

def putItem (w : WState) : WItem → WState
  | .cell c => putCell w c
  | .arr cs => putArray w cs

/-- the file written by `columns(cols)` followed by `<<` of every item -/
def writeItems (cols : List Bytes) (items : List WItem) : Bytes :=
  (items.foldl putItem (startTable cols)).text

/-! ## writer with `setSeparator(sep)` / `setDecimal(dec)` -/

/-- `if (_decimal != '.' && item.is(Var::NUMBER)) value.replaceme('.', _decimal)` -/
def localize (dec : UInt8) : Cell → Cell
  | .num lex => .num (if dec != 46 then lex.map (fun c => if c = 46 then dec else c) else lex)
  | c => c

def rowTextG (sep dec : UInt8) (row : List Cell) : Bytes := writeRow sep 34 (row.map (localize dec))

def startTableG (sep : UInt8) (cols : List Bytes) : WState :=
  { ncols := cols.length, text := joinSep sep (cols.map colName), row := [], dataStarted := false }

def putCellG (sep dec : UInt8) (w : WState) (x : Cell) : WState :=
  let rowFull := x == .str [10] && w.row.length > 0
  let row := if rowFull then w.row else w.row ++ [x]
  if row.length == w.ncols || rowFull then
    let pre : Bytes := if w.dataStarted then [] else [10]
    { w with text := w.text ++ pre ++ rowTextG sep dec row ++ [10], row := [], dataStarted := true }
  else { w with row := row }

def putArrayG (sep dec : UInt8) (w : WState) (cs : List Cell) : WState :=
  if cs.length == w.ncols then
    let pre : Bytes := if w.dataStarted then [] else [10]
    { w with text := w.text ++ pre ++ rowTextG sep dec cs ++ [10], row := [], dataStarted := true }
  else { w with row := cs }

def putItemG (sep dec : UInt8) (w : WState) : WItem → WState
  | .cell c => putCellG sep dec w c
  | .arr cs => putArrayG sep dec w cs

/-- the file written after `setSeparator(sep)`, `setDecimal(dec)`, `columns(cols)` and `<<` of every item
    (`sep = ','`, `dec = '.'` are the defaults: `writeItemsG 44 46 = writeItems`) -/
def writeItemsG (sep dec : UInt8) (cols : List Bytes) (items : List WItem) : Bytes :=
  (items.foldl (putItemG sep dec) (startTableG sep cols)).text

/-! ## reader -/

/-- a file being read: bytes not yet consumed and the `feof` flag -/
structure RFile where
  rest : Bytes
  eof : Bool

/-- `fgets`-based line: (line without LF and one CR, file after it, line was ended by LF) -/
def takeLine : Bytes → Bytes → Bytes × Bytes × Bool
  | [], cur => (cur, [], false)
  | c :: t, cur => if c = 10 then (stripCR cur, t, true) else takeLine t (cur ++ [c])

/-- `String readLine()` : the line; `feof` is set when the end was hit -/
def readLine (f : RFile) : Bytes × RFile :=
  let r := takeLine f.rest []
  (r.1, { rest := r.2.1, eof := !r.2.2 })

/-- `bool readLine(String&)`: false when the end of file is hit before an LF (the partial line is
    stored but the caller sees `false`) -/
def readLineB (f : RFile) : Bytes × RFile × Bool :=
  let r := takeLine f.rest []
  (r.1, { rest := r.2.1, eof := !r.2.2 }, r.2.2)

def bom : Bytes := [0xef, 0xbb, 0xbf]

def eatBom (l : Bytes) : Bytes := if l.length ≥ 3 && l.take 3 == bom then l.drop 3 else l

/-- `line.split(sep)` for a one-byte separator -/
def splitSep (sep : UInt8) : Bytes → Bytes → List Bytes
  | [], cur => [cur]
  | c :: t, cur => if c = sep then cur :: splitSep sep t [] else splitSep sep t (cur ++ [c])

/-- decimal text of a column index (`col = i`) -/
def natText (n : Nat) : Bytes := (Nat.toDigits 10 n).map fun c => UInt8.ofNat c.toNat

structure Header where
  sep : UInt8
  dec : UInt8
  columns : List Bytes
  file : RFile

/-- replace the first column that starts like a number by its index (`col = i; break;`) -/
def markNumeric : Nat → List Bytes → Option (List Bytes)
  | _, [] => none
  | i, c :: t =>
    if isDigit (charAt c 0) || (charAt c 0 == 45 && isDigit (charAt c 1)) then some (natText i :: t)
    else (markNumeric (i + 1) t).map (c :: ·)

/-- `readHeader()` on a file holding `text` -/
def readHeader (text : Bytes) : Header :=
  let f0 : RFile := { rest := text, eof := false }
  let r := readLine f0
  let line := eatBom r.1
  let sd : UInt8 × UInt8 :=
    if line.contains 59 then (59, 44)
    else if line.contains 44 then (44, 46)
    else if line.contains 9 then (9, 46)
    else (44, 46)
  let row := splitSep sd.1 line []
  match markNumeric 0 row with
  | some row' => { sep := sd.1, dec := sd.2, columns := row', file := f0 }     -- `_file.seek(0)`
  | none => { sep := sd.1, dec := sd.2, columns := row, file := r.2 }

inductive PState where
  | base | quote | quote2

/-- the `while ((c = *p++))` machine of `nextRow`; `value` is the cell being built -/
def parseCells (sep : UInt8) : PState → Bytes → Bytes → List Bytes
  | _, [], value => [value]
  | .base, c :: t, value =>
    if c = 34 then parseCells sep .quote t value
    else if c = sep then value :: parseCells sep .base t []
    else parseCells sep .base t (value ++ [c])
  | .quote, c :: t, value =>
    if c ≠ 34 then parseCells sep .quote t (value ++ [c])
    else parseCells sep .quote2 t value
  | .quote2, c :: t, value =>
    if c = 34 then parseCells sep .quote t (value ++ [34])
    else if c = sep then value :: parseCells sep .base t []
    else parseCells sep .quote t value

def parseRow (sep : UInt8) (line : Bytes) : List Bytes := parseCells sep .base line []

/-- `if (p[i] == '+' || p[i] == '-') i++;` -/
def skipSign : Bytes → Bytes
  | 43 :: u => u
  | 45 :: u => u
  | t => t

/-- `if (p[i] == '-') i++;` -/
def skipMinus : Bytes → Bytes
  | 45 :: t => t
  | s => s

/-- the end of `myisnumber`: optional `(e|E)[+|-]digits`, then `return i == s.length()` -/
def isNumberExp : Bytes → Bool
  | [] => true
  | c :: t =>
    if c = 101 || c = 69 then !((skipSign t).isEmpty) && (skipSign t).all isDigit
    else false

/-- `myisnumber(s, dec)` (ccdee89): `[-]digits[dec digits][(e|E)[+|-]digits]`, at least one mantissa digit -/
def isNumber (dec : UInt8) (s : Bytes) : Bool :=
  let s1 := skipMinus s
  let d1 := s1.takeWhile isDigit
  match s1.dropWhile isDigit with
  | [] => !(d1.length = 0)
  | c :: t =>
    if c = dec then
      if d1.length + (t.takeWhile isDigit).length = 0 then false else isNumberExp (t.dropWhile isDigit)
    else
      if d1.length = 0 then false else isNumberExp (c :: t)

/-- the digit loop of `myatoiz`: *every* remaining byte is taken as a digit -/
def atoizDigits (t : Bytes) : Int := t.foldl (fun y c => 10 * y + ((c.toNat : Int) - 48)) 0

/-- `myatoiz`: optional sign, then the digit loop -/
def atoiz : Bytes → Int
  | 45 :: t => -(atoizDigits t)
  | 43 :: t => atoizDigits t
  | s => atoizDigits s

def isE (c : UInt8) : Bool := c == 101 || c == 69

/-- exact value `myatof` aims at: `(negative, y1, exp)` for `± y1 · 10^exp` -/
structure Dec where
  neg : Bool
  mant : Int
  exp : Int
deriving Repr, DecidableEq

/-- `if (*(p + 1) == '+') p++; exp += myatoiz(p + 1);` with `u` the bytes after the exponent mark -/
def expAfterE : Bytes → Int
  | 43 :: v => atoiz v
  | u => atoiz u

/-- the scan `while (*p++) if (*p == 'e' || *p == 'E') {…; break;}` started with `p` at the head of the
    argument: it looks at the bytes *after* the first one -/
def expScan : Bytes → Int
  | [] => 0
  | [_] => 0
  | _ :: c :: u => if isE c then expAfterE u else expScan (c :: u)

/-- the decimal exponent `myatof` computes for the unsigned text `s`: minus the number of bytes between
    the first `.` and the exponent mark, plus the exponent found by the scan -/
def atofExp (s : Bytes) : Int :=
  match idxOf 46 s with
  | some i =>
    let frac := (s.drop (i + 1)).takeWhile (fun c => !isE c)
    -- `p` ends on the last fraction byte (or on the `.`)
    expScan (s.drop (i + frac.length)) - (frac.length : Int)
  | none => expScan s

/-- `y1`: every byte up to the exponent mark except `.` taken as a digit -/
def atofMant (s : Bytes) : Int :=
  (s.takeWhile (fun c => !isE c)).foldl (fun y c => if c = 46 then y else 10 * y + ((c.toNat : Int) - 48)) 0

/-- `myatof(s)` -/
def atofDec (s0 : Bytes) : Dec :=
  let neg := charAt s0 0 == 45
  let s := if neg then s0.drop 1 else s0
  { neg := neg, mant := atofMant s, exp := atofExp s }

/-- a cell as returned by `data()` -/
inductive RCell where
  | str (s : Bytes)
  | num (d : Dec)
  /-- an `int` cell: only produced by a column read as `i` (`readAs`) -/
  | int (v : Int)
deriving Repr, DecidableEq

/-- type inference of `nextRow` without `readAs`:
    `if (myisnumber(v, decimal) || (decimal != '.' && myisnumber(v, '.')))` — a number spelled with `.` is a number
    also when the reader guessed the decimal comma from a `;` in the header (the repaired code) -/
def inferCell (dec : UInt8) (v : Bytes) : RCell :=
  if isNumber dec v || (dec != 46 && isNumber 46 v) then
    let v' := if dec != 46 then v.map (fun c => if c = dec then 46 else c) else v
    .num (atofDec v')
  else .str v

/-- `data()`: rows until `_file.end() || !_file.readLine(line)`; the BOM is eaten on the first data line -/
def readRows (sep dec : UInt8) : Nat → RFile → Bool → List (List RCell)
  | 0, _, _ => []
  | fuel + 1, f, started =>
    if f.eof then [] else
    let r := readLineB f
    if !r.2.2 then [] else
    let line := if !started then eatBom r.1 else r.1
    (parseRow sep line).map (inferCell dec) :: readRows sep dec fuel r.2.1 true

structure Table where
  columns : List Bytes
  rows : List (List RCell)

/-- a fresh `TabularDataFile(path)`: `data()` then `columns()` -/
def readTable (text : Bytes) : Table :=
  let h := readHeader text
  { columns := h.columns, rows := readRows h.sep h.dec (text.length + 2) h.file false }

/-! ## `readAs(types)`: typed columns -/

/-- a character of the `readAs` string: `n` (`myatof`), `s` (the text), `i` (`myatoi`); any other character but `h`
    matches no `case` of the switch, the cell is **not appended** to the row (`skip`).  `h` is `String::hexToInt`,
    `(unsigned) strtoul(str(), NULL, 16)` of libc, transcribed as `hexU32` below. -/
inductive ColType where
  | num | str | int | skip | hex
deriving Repr, DecidableEq

/-! ### `h` columns: `(unsigned) strtoul(text, NULL, 16)` then `Var(unsigned)` -/

def hexVal (c : UInt8) : Option Nat :=
  if 48 ≤ c ∧ c ≤ 57 then some (c.toNat - 48)
  else if 97 ≤ c ∧ c ≤ 102 then some (c.toNat - 87)
  else if 65 ≤ c ∧ c ≤ 70 then some (c.toNat - 55)
  else none

/-- the digit loop of `strtoul` (exact; the saturation is applied by `hexU32`) -/
def hexLoop : Bytes → Nat → Nat
  | [], y => y
  | c :: t, y => match hexVal c with
    | some d => hexLoop t (16 * y + d)
    | none => y

/-- `isspace` in the C locale -/
def isBlankC (c : UInt8) : Bool := c == 32 || (9 ≤ c && c ≤ 13)

/-- optional sign of `strtoul`: `-` negates the `unsigned long` result -/
def hexSign : Bytes → Bool × Bytes
  | 45 :: t => (true, t)
  | 43 :: t => (false, t)
  | s => (false, s)

/-- optional `0x` / `0X`, consumed only when a hex digit follows -/
def skip0x : Bytes → Bytes
  | 48 :: x :: h :: t => if (x == 120 || x == 88) && (hexVal h).isSome then h :: t else 48 :: x :: h :: t
  | s => s

/-- `String::hexToInt()` on a NUL-free text, 64-bit `unsigned long`: blanks, sign, `0x`, hex digits; a value above
    `ULONG_MAX` gives `ULONG_MAX` (whatever the sign); then the cast to `unsigned` -/
def hexU32 (s : Bytes) : Nat :=
  let r := hexSign (s.dropWhile isBlankC)
  let v := hexLoop (skip0x r.2) 0
  if v ≥ 18446744073709551616 then 4294967295
  else if r.1 then (4294967296 - v % 4294967296) % 4294967296 else v % 4294967296


/-- `while (c = *s++, c >= '0' && c <= '9') y = 10 * y + unsigned(c - '0');` with `unsigned y` -/
def atoiDigits : Bytes → Nat → Nat
  | [], y => y
  | c :: t, y => if isDigit c then atoiDigits t ((10 * y + (c.toNat - 48)) % 4294967296) else y

/-- `myatoi`: optional sign, digits accumulated in an `unsigned`, `int(0u - y)` / `int(y)` -/
def atoi32 (s : Bytes) : Int :=
  let r : Bool × Bytes := match s with
    | 45 :: t => (true, t)
    | 43 :: t => (false, t)
    | t => (false, t)
  let y := atoiDigits r.2 0
  let u := if r.1 then (4294967296 - y) % 4294967296 else y
  if u < 2147483648 then (u : Int) else (u : Int) - 4294967296

/-- one cell of a column that has a type character -/
def typedCell (dec : UInt8) : ColType → Bytes → Option RCell
  | .num, v => some (.num (atofDec (if dec != 46 then v.map (fun c => if c = dec then 46 else c) else v)))
  | .str, v => some (.str v)
  | .int, v => some (.int (atoi32 v))
  | .skip, _ => none
  -- `Var(unsigned y)`: `INT` below 2^31, else `NUMBER` with `double(y)` (exact)
  | .hex, v => let y := hexU32 v
    some (if y < 2147483648 then .int y else .num ⟨false, y, 0⟩)

/-- the `foreach2(int i, String& v, row)` loop of `nextRow`: `if (ntypes > i) switch (_types[i]) … else` inference -/
def typedRow (dec : UInt8) : List ColType → List Bytes → List RCell
  | _, [] => []
  | [], v :: vs => inferCell dec v :: typedRow dec [] vs
  | t :: ts, v :: vs => (typedCell dec t v).toList ++ typedRow dec ts vs

def readRowsT (types : List ColType) (sep dec : UInt8) : Nat → RFile → Bool → List (List RCell)
  | 0, _, _ => []
  | fuel + 1, f, started =>
    if f.eof then [] else
    let r := readLineB f
    if !r.2.2 then [] else
    let line := if !started then eatBom r.1 else r.1
    typedRow dec types (parseRow sep line) :: readRowsT types sep dec fuel r.2.1 true

/-- a fresh `TabularDataFile(path)`, `readAs(types)`, `data()` then `columns()` -/
def readTableT (types : List ColType) (text : Bytes) : Table :=
  let h := readHeader text
  { columns := h.columns, rows := readRowsT types h.sep h.dec (text.length + 2) h.file false }

/-! ## `printf("%.15g")` of an exact decimal -/

def digitsOf (n : Nat) : Bytes := (Nat.toDigits 10 n).map fun c => UInt8.ofNat c.toNat

def stripTrailingZeros (d : Bytes) : Bytes := (d.reverse.dropWhile (· == 48)).reverse

/-- round a positive mantissa to at most 15 digits (half to even on the decimal), returns (digits value, exponent shift) -/
def round15 (m : Nat) : Nat × Nat :=
  let n := (digitsOf m).length
  if n ≤ 15 then (m, 0) else
  let k := n - 15
  let p := 10 ^ k
  let q := m / p
  let r := m % p
  let q := if 2 * r > p || (2 * r = p && q % 2 = 1) then q + 1 else q
  (q, k)

/-- `%.15g` of `± m · 10^e` -/
def fmt15 (d : Dec) : Bytes :=
  let sign : Bytes := if d.neg then [45] else []
  if d.mant ≤ 0 then sign ++ [48] else
  let (m, k) := round15 d.mant.toNat
  let ds := digitsOf m
  let n := ds.length
  -- decimal exponent of the leading digit
  let x : Int := (n : Int) - 1 + d.exp + k
  let sig := stripTrailingZeros ds
  if x < -4 || x ≥ 15 then
    let frac := sig.drop 1
    let ax := x.natAbs
    let ed := digitsOf ax
    let ed := if ed.length < 2 then [48] ++ ed else ed
    sign ++ sig.take 1 ++ (if frac.isEmpty then [] else [46] ++ frac) ++ [101] ++ (if x < 0 then [45] else [43]) ++ ed
  else if x ≥ 0 then
    let ip := x.toNat + 1
    let intPart := (ds ++ List.replicate (ip - n) 48).take ip
    let frac := stripTrailingZeros (ds.drop ip)
    sign ++ intPart ++ (if frac.isEmpty then [] else [46] ++ frac)
  else
    sign ++ [48, 46] ++ List.replicate ((-x).toNat - 1) 48 ++ sig

end AslModel.Csv
