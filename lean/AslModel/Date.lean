import Gen.DateGen
/-!
# Executable model of `asl::Date` (src/Date.cpp, include/asl/Date.h) — core Lean only

Time values are **integer milliseconds** since 1970-01-01T00:00:00Z (`Option Int`, `none` = NaN).
`yearFromDay`, `daysInYear`, `timeFromYearAsDays`, `monthDays` and the name tables come from
`Gen/DateGen.lean`, which is regenerated from `src/Date.cpp` on every run; the functions below are
hand transcriptions of `Date::calc`, `Date::construct`, `Date::toString`, `Date::Date(const String&)`
and `Date::Date(const String&, const String&)` and are tied to the code by the correspondence check.

Floating-point steps that are abstracted (exercised exhaustively by the harness):
* `floor(t * (1 / 86400.0))`, `floor(t / 86400.0)` are the integer day of `t`;
* `floor(floor(t * 1000 + 0.5) / 1000)` is the second and `floor(t * 1000 + 0.5) mod 1000` the millisecond of the instant
  rounded to the nearest millisecond; `t - floor(t / 86400.0) * 86400.0` is the exact second of the day of a whole second `t`;
* the fraction `parseInt(digits) * pow(10.0, 1 - i)` is rounded to the nearest millisecond.
Strings are `List UInt8` without NUL; index `length` is the terminator, any larger index is an
out-of-bounds read and makes the parser return `none` (the outer `Option`).
-/
namespace AslModel.Date
open Gen.Date

abbrev Bytes := List UInt8

/-- 32-bit two's complement wrap of C `int` arithmetic -/
def wrap32 (x : Int) : Int := (x + 2147483648) % 4294967296 - 2147483648

structure Fields where
  year : Int
  month : Int
  day : Int
  hours : Int
  minutes : Int
  seconds : Int
  weekDay : Int
deriving DecidableEq, Repr

/-- `month_days[leap][i]` (the model only indexes 0..13) -/
def mdays (leap : Bool) (i : Nat) : Int := (monthDays.getD (if leap then 1 else 0) []).getD i 0

/-- `daysInYear(y) == 366` -/
def isLeap (y : Int) : Bool := daysInYear y == 366

/-! ## Date::calc -/

/-- `for (int i = yd / 32; i < 13; i++) if (yd < month_days[leap][i + 1]) { month = i; break; }`
with `month` initialised to 1 -/
def monthLoop (leap : Bool) (yd : Int) : Nat → Nat → Int
  | 0, _ => 1
  | fuel + 1, i =>
    if i < 13 then
      if yd < mdays leap (i + 1) then (i : Int) else monthLoop leap yd fuel (i + 1)
    else 1

/-- at most 13 iterations (`i` runs from `yd / 32 ≥ 0` to 12) -/
def monthOf (leap : Bool) (yd : Int) : Int := monthLoop leap yd 13 (Int.tdiv yd 32).toNat

/-- `Date::calc(t)` for `t` milliseconds (an integral number of ms: `t + 0.0005` stays in the same second) -/
def calcF (t : Int) : Fields :=
  let secs := t / 1000
  let day := secs / 86400
  let year := yearFromDay day
  let leap := isLeap year
  let yd := day - timeFromYearAsDays year
  let month := monthOf leap yd
  let dom := yd - mdays leap month.toNat + 1
  let sod := secs % 86400
  let wd := Int.tmod (day - 3) 7
  { year := year, month := month, day := dom,
    hours := sod / 3600, minutes := sod % 3600 / 60, seconds := sod % 60,
    weekDay := if wd < 0 then wd + 7 else wd }

/-! ## Date::construct (zone UTC; with TZ=UTC the LOCAL branch subtracts a zero offset) -/

def construct (year month day h m s : Int) : Option Int :=
  if month < 1 ∨ month > 12 ∨ day < 0 ∨ day > 31 ∨ year < -100000 then none
  else
    let leap := isLeap year
    let yearday := timeFromYearAsDays year
    let monthday := mdays leap month.toNat
    some (((yearday + monthday + day - 1) * 86400 + wrap32 (wrap32 (wrap32 (h * 3600) + wrap32 (m * 60)) + s)) * 1000)

def constructF (f : Fields) : Option Int := construct f.year f.month f.day f.hours f.minutes f.seconds

/-! ## Date::toString(fmt, utc = true) -/

def dig (n : Nat) : UInt8 := UInt8.ofNat (48 + n % 10)
def pad2 (v : Nat) : Bytes := [dig (v / 10), dig v]
def pad3 (v : Nat) : Bytes := [dig (v / 100), dig (v / 10), dig v]
def pad4 (v : Nat) : Bytes := [dig (v / 1000), dig (v / 100), dig (v / 10), dig v]

inductive Fmt where
  | long | short | dateOnly | http | full
deriving DecidableEq, Repr

/-- instants whose UTC year is 1..9999 (the `%04i` conversions print exactly four digits there) -/
def inRange (t : Int) : Bool := -62135596800000 ≤ t && t ≤ 253402300799999

def timeLong (f : Fields) : Bytes :=
  pad2 f.hours.toNat ++ [58] ++ pad2 f.minutes.toNat ++ [58] ++ pad2 f.seconds.toNat

def dateLong (f : Fields) : Bytes :=
  pad4 f.year.toNat ++ [45] ++ pad2 f.month.toNat ++ [45] ++ pad2 f.day.toNat

def fmtFields (k : Fmt) (f : Fields) (ms : Nat) : Bytes :=
  match k with
  | .long => dateLong f ++ [84] ++ timeLong f ++ [90]
  | .full => dateLong f ++ [84] ++ timeLong f ++ [46] ++ pad3 ms ++ [90]
  | .short => pad4 f.year.toNat ++ pad2 f.month.toNat ++ pad2 f.day.toNat ++ [84] ++
      pad2 f.hours.toNat ++ pad2 f.minutes.toNat ++ pad2 f.seconds.toNat ++ [90]
  | .dateOnly => dateLong f ++ [90]
  | .http => wdNames.getD f.weekDay.toNat [] ++ [44, 32] ++ pad2 f.day.toNat ++ [32] ++
      mnNames.getD (f.month.toNat - 1) [] ++ [32] ++ pad4 f.year.toNat ++ [32] ++ timeLong f ++ [32, 71, 77, 84]

/-- `Date(t).toUTCString(k)` for an in-range instant -/
def toUTCString (k : Fmt) (t : Int) : Bytes := fmtFields k (calcF t) (t % 1000).toNat

/-! ## instants with a fraction of a millisecond

`Date` stores a `double`; an instant given in **microseconds** `u` stands for the double `u / 10^6`.
`Date::calc` starts with `t = floor(floor(t * 1000 + 0.5) / 1000)` and takes *every* field from that whole second by
integer arithmetic, and `toString(FULL)` prints `floor(t * 1000 + 0.5) mod 1000`: one rounding of the instant to the
nearest millisecond (ties up), which is `roundMs`.  (Before repo commit 4c81461 the date part was taken from the unrounded
instant; before f44eb78 the second came from a fractional-day chain and the millisecond from `fract(t)`, which disagreed by
a whole second for about half of the instants at .9995 s.)  At an exact tie the double product `t * 1000 + 0.5` may fall on
either side; the correspondence check accepts either neighbour there (`tieu`) but demands one consistent choice. -/

/-- nearest millisecond, ties up: `floor(t * 1000 + 0.5)` for `t = u / 10^6` -/
def roundMs (u : Int) : Int := (u + 500) / 1000

/-- `Date(u / 1e6).splitUTC()` -/
def calcU (u : Int) : Fields := calcF (roundMs u)

/-- `Date(u / 1e6).toUTCString(k)` -/
def toUTCStringU (k : Fmt) (u : Int) : Bytes := fmtFields k (calcU u) (roundMs u % 1000).toNat

/-! ## the stored `double`

`Date` stores `double` seconds.  `Date(ms / 1000.0)` (how every whole-millisecond instant enters the library: the
parser, `Date::now`, the harness) holds the IEEE-754 binary64 quotient, modelled exactly as a dyadic rational
`n / 2^k` (`|n| ≤ 2^53`), computed with integer arithmetic only: `k` is the least exponent `≥ 15` that makes the
quotient at least `2^52` units (`2^52 * 1000 = 4503599627370496000`), `n` the round-half-even quotient.  In years
1..9999 `|t| < 2^38 s`, so `k ≥ 15` is the exponent of the format there (unit in the last place `2^-15 s ≈ 30.5 us`). -/

/-- round-half-to-even of `a / 1000` -/
def rne1000 (a : Int) : Int :=
  let q := a / 1000
  let r := a % 1000
  if r * 2 < 1000 then q else if 1000 < r * 2 then q + 1 else if q % 2 = 0 then q else q + 1

/-- least `k' ≥ k` (within `fuel` steps) with `a * 2^k' ≥ 2^52 * 1000` -/
def expFrom (a : Nat) (k : Nat) : Nat → Nat
  | 0 => k
  | fuel + 1 => if 4503599627370496000 ≤ a * 2 ^ k then k else expFrom a (k + 1) fuel

/-- the double `(double)ms / 1000.0` as `(n, k)`, value `n / 2^k` (for `1 ≤ |ms| < 2^38 * 1000`; `k ≤ 62`) -/
def toDouble (ms : Int) : Int × Nat :=
  let k := expFrom ms.natAbs 15 47
  (rne1000 (ms * 2 ^ k), k)

/-- `floor(t * 1000 + 0.5)` for the double `t = n / 2^k`, in exact arithmetic -/
def roundMsD (d : Int × Nat) : Int := (d.1 * 2000 + 2 ^ d.2) / 2 ^ (d.2 + 1)

/-- lowest terms of `n / 2^k` (what the harness prints of the real double) -/
def normD : Nat → Int → Nat → Int × Nat
  | 0, n, k => (n, k)
  | f + 1, n, k => if k = 0 ∨ n % 2 ≠ 0 then (n, k) else normD f (n / 2) (k - 1)

/-- `Date(ms / 1000.0).splitUTC()` through the stored double -/
def calcD (ms : Int) : Fields := calcF (roundMsD (toDouble ms))

/-- `Date(ms / 1000.0).toUTCString(k)` through the stored double -/
def toUTCStringD (k : Fmt) (ms : Int) : Bytes := toUTCString k (roundMsD (toDouble ms))

/-! ### arithmetic on the stored double: `Date::operator+(double)`, `operator-(double)`, `operator<`

`_t + dt` for a whole number of seconds `dt = s` (`|s| < 2^53`, exact as a double): the exact sum `n / 2^k + s` rounded
to binary64 (`round53`: drop the least `j` bits that leave fewer than 54, round-half-even).  `operator-(double)` is the
same with `-s` (IEEE subtraction is addition of the negated operand). -/

/-- least `j' ≥ j` (within `fuel` steps) with `a < 2^53 * 2^j'` -/
def shiftFrom (a : Nat) (j : Nat) : Nat → Nat
  | 0 => j
  | f + 1 => if a < 9007199254740992 * 2 ^ j then j else shiftFrom a (j + 1) f

/-- round-half-to-even of `N / 2^j` -/
def rneShift (N : Int) (j : Nat) : Int :=
  let p := (2 : Int) ^ j
  let q := N / p
  let r := N % p
  if r * 2 < p then q else if p < r * 2 then q + 1 else if q % 2 = 0 then q else q + 1

/-- binary64 rounding of the dyadic `N / 2^k` (no overflow / subnormals for |value| in 2^-1022..2^63) -/
def round53 (N : Int) (k : Nat) : Int × Nat :=
  let j := shiftFrom N.natAbs 0 64
  if j ≤ k then (rneShift N j, k - j) else (rneShift N j * 2 ^ (j - k), 0)

/-- `Date(t) + s` resp. `Date(t) - (-s)` for the stored double `d` and whole seconds `s` -/
def addSecD (d : Int × Nat) (s : Int) : Int × Nat := round53 (d.1 + s * 2 ^ d.2) d.2

/-- `double Date::operator-(const Date&)`: the exact difference of the two stored doubles (common scale), rounded to binary64 -/
def diffD (a b : Int × Nat) : Int × Nat :=
  let K := max a.2 b.2
  round53 (a.1 * 2 ^ (K - a.2) - b.1 * 2 ^ (K - b.2)) K

/-- `operator<` on two stored doubles -/
def ltD (a b : Int × Nat) : Bool := a.1 * 2 ^ b.2 < b.1 * 2 ^ a.2

/-! ## Date::Date(const String&) -/

/-- read `s[i]`; index `length` is the NUL terminator; beyond it the read is out of bounds -/
def rd (s : Bytes) (i : Nat) : Option UInt8 :=
  match s.drop i with
  | c :: _ => some c
  | [] => if i ≤ s.length then some 0 else none

def isDigit (c : UInt8) : Bool := 48 ≤ c && c ≤ 57
def isSpace (c : UInt8) : Bool := c == 32 || c == 10 || c == 13 || c == 9

/-- `parseInt(p, n)`: digits read from the last to the first, `int` arithmetic wraps -/
def parseIntLoop (s : Bytes) (p : Nat) : Nat → Int → Int → Option Int
  | 0, x, _ => some x
  | i + 1, x, k =>
    match rd s (p + i) with
    | none => none
    | some c =>
      if isDigit c then parseIntLoop s p i (wrap32 (x + wrap32 (((c.toNat : Int) - 48) * k))) (wrap32 (k * 10))
      else some (-1000000)

def parseInt (s : Bytes) (p n : Nat) : Option Int := parseIntLoop s p n 0 1

/-- `String::split()`: maximal runs of non-space bytes -/
def splitWsAux : Bytes → Bytes → List Bytes
  | [], cur => if cur.isEmpty then [] else [cur.reverse]
  | c :: t, cur =>
    if isSpace c then (if cur.isEmpty then splitWsAux t [] else cur.reverse :: splitWsAux t [])
    else splitWsAux t (c :: cur)

def splitWs (s : Bytes) : List Bytes := splitWsAux s []

def lookupMonth (name : Bytes) : Int :=
  match parseMonths.find? (fun p => p.1 == name) with
  | some p => p.2
  | none => 0

/-- outer `none`: out-of-bounds read; inner `none`: invalid Date (NaN) -/
abbrev ParseResult := Option (Option Int)

def invalid : ParseResult := some none

/-- the HTTP-like branch `"Thu, 18 May 2017 03:24:12 GMT"` -/
def parseHttp (t : Bytes) : ParseResult :=
  let parts := splitWs t
  if parts.length < 6 then invalid else
  let p1 := parts.getD 1 []
  let p3 := parts.getD 3 []
  let tm := parts.getD 4 []
  let mo := lookupMonth (parts.getD 2 [])
  (parseInt p1 0 2).bind fun d =>
  (parseInt p3 0 p3.length).bind fun y =>
  if mo = 0 ∨ y < 0 ∨ d < 0 then invalid else
  if tm.length ≠ 8 then invalid else
  (rd tm 2).bind fun c2 =>
  if c2 ≠ 58 then invalid else
  (rd tm 5).bind fun c5 =>
  if c5 ≠ 58 then invalid else
  (parseInt tm 0 2).bind fun h =>
  (parseInt tm 3 2).bind fun m =>
  (parseInt tm 6 2).bind fun s =>
  some (construct y mo d h m s)

/-- `while (myisdigit(p[i])) i++` from absolute index `j`: the index of the first non-digit at or after `j`
(reads `s[j..e]`; the terminator is not a digit, so `e ≤ length` whenever `j ≤ length`) -/
def skipDigits (s : Bytes) (j : Nat) : Option Nat :=
  if j ≤ s.length then some (j + ((s.drop j).takeWhile isDigit).length) else none

/-- nearest millisecond of `x / 10^n` seconds (half up) -/
def fracMs (x : Int) (n : Nat) : Int := (2 * x * 1000 + 10 ^ n) / (2 * 10 ^ n)

/-- is the string in extended format?  `t.length() >= 10 && p[4] == '-' && p[7] == '-'` (short-circuit reads) -/
def isoExt (t : Bytes) : Option Bool :=
  if t.length ≥ 10 then (rd t 4).bind fun c4 => if c4 = 45 then (rd t 7).bind fun c7 => some (c7 == 45) else some false
  else some false

/-- index of the time part: 9 (`basic && length > 12 && t[8] == 'T'`), 11 (`!basic && length > 15 && t[10] == 'T'`), else 0 = return -/
def isoTimeIndex (t : Bytes) (basic : Bool) : Option Nat :=
  if basic && t.length > 12 then (rd t 8).bind fun c => some (if c = 84 then 9 else 0)
  else if !basic && t.length > 15 then (rd t 10).bind fun c => some (if c = 84 then 11 else 0)
  else some 0

/-- `hh:mm[:ss]` / `hhmm[ss]` at index `p`: `some (h, mi, s, index after the clock)`; inner `none`: missing colon -/
def parseClock (t : Bytes) (basic : Bool) (p : Nat) : Option (Option (Int × Int × Int × Nat)) :=
  let n := t.length
  (if !basic then (rd t (p + 2)).bind fun c => some (c == 58) else some true).bind fun colonOk =>
  if !colonOk then some none else
  (if !basic then (if n - p ≥ 8 then (rd t (p + 5)).bind fun c => some (c == 58) else some false)
   else (if n - p ≥ 6 then (rd t (p + 4)).bind fun c => some (isDigit c) else some false)).bind fun hassecs =>
  (parseInt t p 2).bind fun h =>
  (parseInt t (p + (if basic then 2 else 3)) 2).bind fun mi =>
  (parseInt t (p + (if basic then 4 else 6)) (if hassecs then 2 else 0)).bind fun s =>
  some (some (h, mi, s, p + (if hassecs then (if basic then 6 else 8) else (if basic then 4 else 5))))

/-- optional fraction `.ddd…` at index `p1`: (digits as int, number of digits, index after the fraction) -/
def parseFrac (t : Bytes) (p1 : Nat) : Option (Int × Nat × Nat) :=
  (rd t p1).bind fun c0 =>
  if c0 = 46 then
    (skipDigits t (p1 + 1)).bind fun e =>
    (parseInt t (p1 + 1) (e - (p1 + 1))).bind fun x => some (x, e - (p1 + 1), e)
  else some (0, 0, p1)

/-- zone designator at index `p2`: `Z`, `±hh`, `±hhmm`, `±hh:mm` (which must end the string), or the terminator
(local time, offset 0 under TZ=UTC).  Result: minutes to add to the instant; inner `none` = invalid Date -/
def parseZone (t : Bytes) (p2 : Nat) : Option (Option Int) :=
  (rd t p2).bind fun z =>
  if z = 90 then some (some 0)
  else if z = 43 ∨ z = 45 then
    let k := t.length - p2
    (if k ≥ 3 then (parseInt t (p2 + 1) 2).bind fun v => some (v * 60) else some 0).bind fun tz0 =>
    (if k = 6 then (rd t (p2 + 3)).bind fun c => some (c == 58) else some false).bind fun colon6 =>
    (if colon6 then (parseInt t (p2 + 4) 2).bind fun v => some (tz0 + v)
     else if k = 5 then (parseInt t (p2 + 3) 2).bind fun v => some (tz0 + v)
     else if k ≠ 3 then some (-1000000)
     else some tz0).bind fun (tz : Int) =>
    if tz < -100000 then some none
    else some (some (if z = 43 then -tz else tz))
  else if z = 0 then some (some 0)
  else some none

/-- the ISO 8601 branch (basic and extended, `Z`, numeric offsets, fraction) -/
def parseIso (t : Bytes) : ParseResult :=
  let n := t.length
  (isoExt t).bind fun ext =>
  if !ext && n < 8 then invalid else
  let basic := !ext
  (parseInt t 0 4).bind fun y =>
  (parseInt t (if basic then 4 else 5) 2).bind fun m =>
  (parseInt t (if basic then 6 else 8) 2).bind fun d =>
  (isoTimeIndex t basic).bind fun iTime =>
  if iTime = 0 then invalid else
  if y < 0 ∨ m < 0 ∨ d < 0 then invalid else
  if n - iTime ≥ (if basic then 4 else 5) then
    (parseClock t basic iTime).bind fun ck =>
    match ck with
    | none => invalid
    | some (h, mi, s, p1) =>
      (parseFrac t p1).bind fun fr =>
      if h < 0 ∨ h > 23 ∨ mi < 0 ∨ mi > 59 ∨ s < 0 ∨ s > 59 ∨ fr.1 < 0 then invalid else
      (parseZone t fr.2.2).bind fun tzr =>
      match tzr with
      | none => invalid
      | some tz => some ((construct y m d h mi s).map fun t0 => t0 + tz * 60000 + fracMs fr.1 fr.2.1)
  else
    some (construct y m d 0 0 0)

/-- `Date::Date(const String& t)` -/
def parse (t : Bytes) : ParseResult :=
  (rd t 0).bind fun c0 =>
  if 65 < c0 ∧ c0 < 90 then parseHttp t else parseIso t

/-! ## Date::Date(const String& str, const String& fmt) (LOCAL zone with TZ=UTC) -/

/-- libc `atoi` at index `j`: optional white space, optional sign, digits; reads stop at the first non-digit -/
def atoiDigits (s : Bytes) : Nat → Nat → Nat → Option Nat
  | 0, _, acc => some acc
  | fuel + 1, j, acc => (rd s j).bind fun c => if isDigit c then atoiDigits s fuel (j + 1) (acc * 10 + (c.toNat - 48)) else some acc

def isCSpace (c : UInt8) : Bool := c == 32 || (9 ≤ c && c ≤ 13)

def skipCSpace (s : Bytes) : Nat → Nat → Option Nat
  | 0, j => some j
  | fuel + 1, j => (rd s j).bind fun c => if isCSpace c then skipCSpace s fuel (j + 1) else some j

/-- `(int)strtol(...)`: the value saturates at the 64-bit `long` range, then is truncated to 32 bits -/
def atoi (s : Bytes) (j : Nat) : Option Int :=
  (skipCSpace s (s.length + 1) j).bind fun j1 =>
  (rd s j1).bind fun c =>
  let neg := c = 45
  let j2 := if c = 45 ∨ c = 43 then j1 + 1 else j1
  (atoiDigits s (s.length + 1) j2 0).bind fun v =>
  let sv : Int := if neg then -(v : Int) else v
  let cl : Int := if sv > 9223372036854775807 then 9223372036854775807
                  else if sv < -9223372036854775808 then -9223372036854775808 else sv
  some (wrap32 cl)

structure FmtState where
  pos : Nat
  year : Int := 0
  month : Int := 0
  day : Int := 0
  hour : Int := 0
  minute : Int := 0
  second : Int := 0

/-- `parseSkipNumber(s)` -/
def parseSkipNumber (s : Bytes) (j : Nat) : Option (Int × Nat) :=
  (atoi s j).bind fun v => (skipDigits s j).bind fun e => some (v, e)

/-- the format loop; `some (some st)` = ran to the end of `fmt`, `some none` = literal mismatch (`_t = 0`) -/
def parseFmtLoop (s : Bytes) : Bytes → FmtState → Option (Option FmtState)
  | [], st => some (some st)
  | c :: f, st =>
    let num (upd : FmtState → Int → FmtState) : Option (Option FmtState) :=
      (parseSkipNumber s st.pos).bind fun r => parseFmtLoop s f { upd st r.1 with pos := r.2 }
    if c = 89 then num fun st v => { st with year := v }
    else if c = 68 then num fun st v => { st with day := v }
    else if c = 77 then num fun st v => { st with month := v }
    else if c = 104 then num fun st v => { st with hour := v }
    else if c = 109 then num fun st v => { st with minute := v }
    else if c = 115 then num fun st v => { st with second := v }
    else
      (rd s st.pos).bind fun x =>
      if x = 0 ∨ (c ≠ 63 ∧ x ≠ c) then some none
      else parseFmtLoop s f { st with pos := st.pos + 1 }

def parseFmt (s fmt : Bytes) : ParseResult :=
  (parseFmtLoop s fmt { pos := 0 }).bind fun r =>
  match r with
  | none => some (some 0)
  | some st => some (construct st.year st.month st.day st.hour st.minute st.second)

end AslModel.Date
