/-!
# `snprintf("%.Pg", x)` for a finite binary64 `x` (model of glibc in the C locale), and float → double widening

Exact rational arithmetic on `Nat`: the value `m·2^e` is rounded half-to-even to `P` significant decimal
digits (glibc prints the exactly rounded decimal expansion in the default rounding mode), then laid out by
the C rules for `%g` without the `#` flag: style `e` if the decimal exponent `X < -4` or `X ≥ P`, else
style `f` with `P-1-X` decimals; trailing zeros and a trailing decimal point removed; exponent of at least
two digits.  Listed as an assumption of C05 and exercised on every run by the correspondence check (the
model's lexemes are compared byte for byte with the real `snprintf`).  Core Lean only.
-/
namespace AslModel.Dtoa

abbrev Bytes := List UInt8

def decDigits (n : Nat) : Bytes := (Nat.toDigits 10 n).map fun c => UInt8.ofNat c.toNat

def decLen (n : Nat) : Nat := if n = 0 then 0 else (Nat.toDigits 10 n).length

/-- `num/den` rounded half-to-even -/
def roundDiv (num den : Nat) : Nat :=
  let q := num / den
  let r := num % den
  if 2 * r > den ∨ (2 * r = den ∧ q % 2 = 1) then q + 1 else q

/-- sign, and the magnitude as a fraction; `none` for zero -/
def decompose (bits : UInt64) : Bool × Option (Nat × Nat) :=
  let b := bits.toNat
  let neg : Bool := decide (b / 2 ^ 63 = 1)
  let be : Nat := b / 2 ^ 52 % 2048
  let fr : Nat := b % 2 ^ 52
  let m : Nat := if be = 0 then fr else fr + 2 ^ 52
  let e : Int := (if be = 0 then (1 : Int) else (be : Int)) - 1075
  if m = 0 then (neg, none)
  else if e ≥ 0 then (neg, some (m * 2 ^ e.toNat, 1))
  else (neg, some (m, 2 ^ (-e).toNat))

def isFinite (bits : UInt64) : Bool := bits.toNat / 2 ^ 52 % 2048 ≠ 2047
def isNaN (bits : UInt64) : Bool := bits.toNat / 2 ^ 52 % 2048 = 2047 ∧ bits.toNat % 2 ^ 52 ≠ 0
def isNeg (bits : UInt64) : Bool := bits.toNat / 2 ^ 63 = 1

/-- `10^x ≤ num/den` ? -/
def geRatio (num den : Nat) (x : Int) : Bool :=
  if x ≥ 0 then decide (num ≥ den * 10 ^ x.toNat) else decide (num * 10 ^ (-x).toNat ≥ den)

/-- floor(log10(num/den)) for positive num, den -/
def log10Floor (num den : Nat) : Int :=
  let x0 : Int := (decLen num : Int) - (decLen den : Int)
  if geRatio num den (x0 + 1) then x0 + 1 else if geRatio num den x0 then x0
  else if geRatio num den (x0 - 1) then x0 - 1 else x0 - 2

/-- the `P` significant digits (as a number with exactly `P` digits) and the decimal exponent -/
def sigDigits (P : Nat) (num den : Nat) : Nat × Int :=
  let x0 := log10Floor num den
  let s : Int := (P : Int) - 1 - x0
  let n := if s ≥ 0 then roundDiv (num * 10 ^ s.toNat) den else roundDiv num (den * 10 ^ (-s).toNat)
  if n ≥ 10 ^ P then (n / 10, x0 + 1) else (n, x0)

def stripZeros (ds : Bytes) : Bytes := (ds.reverse.dropWhile (· = 48)).reverse

def padLeft (n : Nat) (ds : Bytes) : Bytes := List.replicate (n - ds.length) 48 ++ ds

/-- `%.Pg` of a finite double (P ≥ 1) -/
def fmtG (P : Nat) (bits : UInt64) : Bytes :=
  let P := if P = 0 then 1 else P
  match decompose bits with
  | (neg, none) => (if neg then [45] else []) ++ [48]
  | (neg, some (num, den)) =>
    let (n, x) := sigDigits P num den
    let ds := padLeft P (decDigits n)          -- exactly P digits
    let sign : Bytes := if neg then [45] else []
    if x < -4 ∨ x ≥ (P : Int) then
      -- d.ddd e±XX
      let frac := stripZeros (ds.drop 1)
      let mant := ds.take 1 ++ (if frac = [] then [] else 46 :: frac)
      let ex := x.natAbs
      let exd := padLeft 2 (decDigits ex)
      sign ++ mant ++ [101, if x < 0 then 45 else 43] ++ exd
    else if x ≥ 0 then
      let ip := ds.take (x.toNat + 1)
      let frac := stripZeros (ds.drop (x.toNat + 1))
      sign ++ ip ++ (if frac = [] then [] else 46 :: frac)
    else
      -- 0.000ddd
      let frac := stripZeros (List.replicate ((-x).toNat - 1) 48 ++ ds)
      sign ++ [48] ++ (if frac = [] then [] else 46 :: frac)

/-- the binary64 bit pattern of a binary32 value (exact widening, `(double)f`) -/
def floatToDouble (f : UInt32) : UInt64 :=
  let b := f.toNat
  let sign := b / 2 ^ 31
  let be := b / 2 ^ 23 % 256
  let fr := b % 2 ^ 23
  let mag : Nat :=
    if be = 255 then 2047 * 2 ^ 52 + fr * 2 ^ 29
    else if be = 0 then
      if fr = 0 then 0
      else
        -- subnormal float: fr · 2^-149, normal as a double
        let l := Nat.log2 fr                         -- fr = 2^l · (1 + ...)
        (l + 1023 - 149) * 2 ^ 52 + (fr - 2 ^ l) * 2 ^ (52 - l)
    else (be + 1023 - 127) * 2 ^ 52 + fr * 2 ^ 29
  UInt64.ofNat (sign * 2 ^ 63 + mag)

end AslModel.Dtoa
