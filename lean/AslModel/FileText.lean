import AslModel.Utf
import Gen.FileGen
/-!
# C17 — model of `File`, `TextFile` and `Directory::copy/move` (src/File.cpp, src/TextFile.cpp,
include/asl/File.h, include/asl/TextFile.h, src/Directory.cpp — POSIX half)

A file is the list of its bytes; a path is a small number; the disk is a function from paths to
`Option Bytes` (`none` = no such file).  stdio is modelled by the few facts of C11 §7.21 the code relies
on (each is an entry of `ASSUMPTIONS` in tools/props/c17.py and is exercised by the correspondence check
against the real libc):

* `fopen(mode)`: `r` needs the file, `w` creates/truncates, `a` creates and always writes at the end,
  `+` adds the other direction; the `b`/`t` letters make no difference (POSIX).
* an output stream delivers every byte passed to `fwrite`, in order, at the current position, when it is
  flushed or closed.  **The model has no stdio buffer: it writes through at once.**  So what the model says
  about an object that is still open for writing is true of the code only because every observation path of
  such an object flushes it first (`size()`, `content()`, `text()`, `lines()`, `firstBytes()`, `File::copy`,
  `File::move`, `open()` of an open object: shape-checked by `translate()`), and the correspondence check
  compares those paths on real files (`xputread`, `xobjcopy`, `xreopen`, h-operations); the theorems about
  open writers cannot tell the code before the repairs ae75f36 / b3be5cd / a48095a from the code after them.
* `fgets(buf, n, f)` stores at most `n-1` bytes, stops after the first LF, returns NULL when it stored
  nothing — at the end of the file, or because the stream cannot be read (opened for writing): then the
  error indicator is set instead — and sets the end-of-file indicator exactly when it ran out of bytes
  before LF / before `n-1` bytes; `fread` of at least one byte on such a stream also fails with the error
  indicator set; `fseek` does not clear it.
* `fread(p, 1, n, f)` returns the next `min n remaining` bytes and sets the indicator iff fewer than `n`
  were left; `feof` reads the indicator; `fseek` clears it.
* `rename` replaces the destination atomically and fails with `EXDEV` across devices.

What is transcribed from the C++: the `readLine(String&)` chunk loop with its LF / CR stripping, the
`lines()` loop driven by `end()`, `text()` (size mask, BOM sniffing, both UTF-16 unit loops with the CR LF
folding, conversion through `String(const wchar_t*)` = `Utf.fromWide`, the UTF-8 BOM skip, the size-bounded
read), `content()/firstBytes()/read()/write()/put()`, `TextFile::write/append/operator<<`, the block loop of
`Directory::copy` (opening the destination truncates it before the first read), `Directory::move` with its
`EXDEV` copy+remove fallback.  The constants (`chunk`, the copy block, the `fopen` mode strings, the BOM
bytes, the size mask, the byte order of the two unit loops) are regenerated from the source
(`Gen/FileGen.lean`).  Core Lean only.

`readLine(String&)` uses `strlen` on each chunk: the model keeps that (bytes of a chunk behind a NUL are lost),
so it is total on all bytes; the theorems about lines assume NUL-free content (the property's domain).
`readLine(char)` appends byte by byte: the harness and the driver answer `err nul` for it on a file with a NUL.
-/
namespace AslModel.FileText
open Gen.File
set_option linter.unusedVariables false

abbrev Bytes := List UInt8

/-! ## stdio input stream -/

/-- a `FILE*` open for reading: the bytes from the file position to the end, and the end-of-file indicator -/
structure RStream where
  rest : Bytes
  eof : Bool
deriving Repr, DecidableEq

/-- the byte loop of `fgets` with room for `k` bytes: (stored bytes, bytes left in the file, "ran out of bytes") -/
def fgetsAux : Nat → Bytes → Bytes × Bytes × Bool
  | 0, rest => ([], rest, false)
  | _ + 1, [] => ([], [], true)
  | k + 1, c :: rest =>
    if c = 10 then ([c], rest, false)
    else
      let r := fgetsAux k rest
      (c :: r.1, r.2.1, r.2.2)

theorem fgetsAux_length (k : Nat) (rest : Bytes) :
    (fgetsAux k rest).1.length + (fgetsAux k rest).2.1.length = rest.length := by
  induction k generalizing rest with
  | zero => simp [fgetsAux]
  | succ k ih =>
    cases rest with
    | nil => simp [fgetsAux]
    | cons c t =>
      simp only [fgetsAux]
      split
      · simp only [List.length_cons, List.length_nil]; omega
      · have := ih t
        simp only [List.length_cons]
        omega

/-- `fread(p, 1, n, f)` -/
def fread (n : Nat) (s : RStream) : Bytes × RStream :=
  (s.rest.take n, { rest := s.rest.drop n, eof := s.eof || decide (s.rest.length < n) })

/-! ## `TextFile::readLine(String&)` -/

/-- `if (n > 0 && s[n-1] == '\r') n--` on the reversed line -/
def dropCR : Bytes → Bytes
  | [] => []
  | y :: t => if y = 13 then t else y :: t

/-- The `do … while(1)` loop for `chunk = k + 2`.  `racc` is `s[0..m)` reversed (what the previous
    iterations stored).  Result: ((the string left in `s`, the returned `bool`), the stream afterwards).

    `fgets(&s[m], chunk, _file)` has room for `chunk - 1 = k + 1` bytes.  It returns NULL exactly when it
    stores nothing (first branch: `s.fix(m); return false`).  Otherwise `n = m + strlen(*s + m)`: only the
    bytes before the first NUL of the chunk count (`vis`), the rest of the chunk is overwritten by the next
    `fgets`.  If `n > 0` and the last counted byte is LF, it is removed together with one CR before it (which
    may have been stored by an earlier iteration) and the loop ends; otherwise `m = n` and the loop goes on
    (`n = 0` included — repair d08b735: the code used to read `s[-1]` there). -/
def readLineLoop (k : Nat) (racc : Bytes) (s : RStream) : (Bytes × Bool) × RStream :=
  match h : fgetsAux (k + 1) s.rest with
  | ([], r, out) => ((racc.reverse, false), { rest := r, eof := s.eof || out })
  | (c :: ch, r, out) =>
    let vis := (c :: ch).takeWhile (· != 0)
    let rall := vis.reverse ++ racc
    let s' : RStream := { rest := r, eof := s.eof || out }
    match rall with
    | [] => readLineLoop k rall s'
    | x :: t =>
      if x = 10 then (((dropCR t).reverse, true), s')
      else readLineLoop k rall s'
termination_by s.rest.length
decreasing_by
  all_goals
    have := fgetsAux_length (k + 1) s.rest
    rw [h] at this
    simp only [List.length_cons] at this
    omega

/-- `readLine(String& s)` on an open stream, with the `chunk` of the source (`chunk ≥ 2`; the translator
    rejects a smaller one: the code could not terminate) -/
def readLine (chunk : Nat) (s : RStream) : (Bytes × Bool) × RStream :=
  readLineLoop (chunk - 2) [] s

/-- what is left to do on a stream: unread bytes, plus one more step to discover the end -/
def RStream.measure (s : RStream) : Nat := s.rest.length + (if s.eof then 0 else 1)

/-- a call either consumes at least one byte or leaves the end-of-file indicator set -/
theorem readLineLoop_progress (k : Nat) (racc : Bytes) (s : RStream) :
    (readLineLoop k racc s).2.rest.length ≤ s.rest.length ∧
    ((readLineLoop k racc s).2.rest.length < s.rest.length ∨ (readLineLoop k racc s).2.eof = true) := by
  fun_induction readLineLoop k racc s with
  | case1 racc s r out h =>
    cases hs : s.rest with
    | nil =>
      rw [hs] at h
      simp only [fgetsAux] at h
      simp only [Prod.mk.injEq] at h
      obtain ⟨-, rfl, rfl⟩ := h
      simp
    | cons c t =>
      rw [hs] at h
      simp only [fgetsAux] at h
      split at h <;> simp at h
  | case2 racc s c ch r out h vis rall s' hr ih =>
    have hl := fgetsAux_length (k + 1) s.rest
    rw [h] at hl
    simp only [List.length_cons] at hl
    have hs' : s'.rest.length = r.length := rfl
    omega
  | case3 racc s c ch r out h vis rall s' t hr =>
    have hl := fgetsAux_length (k + 1) s.rest
    rw [h] at hl
    simp only [List.length_cons] at hl
    have hs' : s'.rest.length = r.length := rfl
    simp only
    omega
  | case4 racc s c ch r out h vis rall s' x t hr hx ih =>
    have hl := fgetsAux_length (k + 1) s.rest
    rw [h] at hl
    simp only [List.length_cons] at hl
    have hs' : s'.rest.length = r.length := rfl
    omega

theorem readLineLoop_measure (k : Nat) (racc : Bytes) (s : RStream) (he : s.eof = false) :
    (readLineLoop k racc s).2.measure < s.measure := by
  have h := readLineLoop_progress k racc s
  simp only [RStream.measure, he]
  cases hh : (readLineLoop k racc s).2.eof
  · rw [hh] at h
    simp only [Bool.false_eq_true, if_false, or_false] at h ⊢
    omega
  · simp only [Bool.false_eq_true, if_true, if_false]
    omega

/-- a call that returns `true` has consumed its LF: the stream is strictly shorter -/
theorem readLineLoop_true_shorter (k : Nat) (racc : Bytes) (s : RStream)
    (ht : (readLineLoop k racc s).1.2 = true) : (readLineLoop k racc s).2.rest.length < s.rest.length := by
  fun_induction readLineLoop k racc s with
  | case1 racc s r out h => simp at ht
  | case2 racc s c ch r out h vis rall s' hr ih =>
    have hl := fgetsAux_length (k + 1) s.rest
    rw [h] at hl
    simp only [List.length_cons] at hl
    have hs' : s'.rest.length = r.length := rfl
    have := ih ht
    omega
  | case3 racc s c ch r out h vis rall s' t hr =>
    have hl := fgetsAux_length (k + 1) s.rest
    rw [h] at hl
    simp only [List.length_cons] at hl
    have hs' : s'.rest.length = r.length := rfl
    simp only
    omega
  | case4 racc s c ch r out h vis rall s' x t hr hx ih =>
    have hl := fgetsAux_length (k + 1) s.rest
    rw [h] at hl
    simp only [List.length_cons] at hl
    have hs' : s'.rest.length = r.length := rfl
    have := ih ht
    omega

/-! ## the caller's loop `while (f.readLine(s)) out << s;` -/

/-- The loop driven by the `bool` result of `readLine(String&)`: the strings delivered with `true` (in order), the
    string left in `s` by the final call that returned `false`, and the stream afterwards.  A `true` call has consumed
    an LF, so the loop ends on every content (NUL bytes included). -/
def readWhileLoop (k : Nat) (s : RStream) (acc : List Bytes) : (List Bytes × Bytes) × RStream :=
  let r := readLineLoop k [] s
  if h : r.1.2 = true then readWhileLoop k r.2 (r.1.1 :: acc) else ((acc.reverse, r.1.1), r.2)
termination_by s.rest.length
decreasing_by exact readLineLoop_true_shorter k [] s h

/-- `while (f.readLine(s)) out << s;` on an open stream, with the `chunk` of the source -/
def readWhile (chunk : Nat) (s : RStream) : (List Bytes × Bytes) × RStream := readWhileLoop (chunk - 2) s []

/-! ## `TextFile::readLine(char newline)` -/

/-- `while (1) { char c; if (read(&c, 1) < 1) break; if (c == newline) break; s << c; }` — one `fread` of one
    byte per iteration; at the end of the file (or when the read fails: repair 95952ce, the loop used to test
    `feof` only and never ended on a stream that cannot be read) the loop stops.  No CR handling here: the
    delimiter is the caller's. -/
def readDelimLoop (delim : UInt8) : Bytes → Bool → Bytes → Bytes × RStream
  | [], _, racc => (racc.reverse, { rest := [], eof := true })
  | c :: t, e, racc =>
    if c == delim then (racc.reverse, { rest := t, eof := e })
    else readDelimLoop delim t e (c :: racc)

def readLineDelim (delim : UInt8) (s : RStream) : Bytes × RStream := readDelimLoop delim s.rest s.eof []

/-! ## `TextFile::lines()` -/

/-- `while (!end()) { lines << String(); readLine(lines.last()); }` — `end()` is `feof`; the return value
    of `readLine` is ignored, so the bytes after the last LF are a line even without a final newline, and
    a file ending in LF (also the empty file) yields a final empty line. -/
def linesLoop (k : Nat) (s : RStream) (acc : List Bytes) : List Bytes :=
  if h : s.eof = true then acc.reverse
  else
    let r := readLineLoop k [] s
    linesLoop k r.2 (r.1.1 :: acc)
termination_by s.measure
decreasing_by
  exact readLineLoop_measure k [] s (by cases hh : s.eof <;> simp_all)

/-- `TextFile(path).lines()` on a file with this content -/
def lines (chunk : Nat) (content : Bytes) : List Bytes :=
  linesLoop (chunk - 2) { rest := content, eof := false } []

/-! ## `TextFile::text()` -/

/-- `while (1) { if (read(b, 2) < 2) break; c = b[lo] | (b[hi] << 8); … }`: the 16-bit units of the byte
    pairs (a trailing single byte is dropped); `lo` is the index of the low-order byte -/
def units (lo : Nat) : Bytes → List Nat
  | b0 :: b1 :: t =>
    (if lo = 0 then b0.toNat ||| (b1.toNat <<< 8) else b1.toNat ||| (b0.toNat <<< 8)) :: units lo t
  | _ => []

/-- `if (c == '\n' && c0 == '\r') a.resize(a.length() - 1); a << c; c0 = c;` over all units
    (`ra` is the array `a` reversed) -/
def fold16 : List Nat → Nat → List Nat → List Nat
  | [], _, ra => ra.reverse
  | c :: t, c0, ra => fold16 t c (c :: (if c = 10 ∧ c0 = 13 then ra.tail else ra))

/-- `a << 0; text = a.data();` — `String(const wchar_t*)` -/
def wideToString (a : List Nat) : Option Bytes :=
  Utf.fromWide (a.map Int.ofNat ++ [0])

/-- the body of `TextFile::text()` once `int n = (int)(size() & mask)` is known and the file is open at its
    beginning with these bytes (`none` = the wide-string converter would read outside its input; never
    happens, see `text_total`).  `n` comes from the object's *cached* stat information, so it need not be the
    length of `content`. -/
def textN (n : Nat) (content : Bytes) : Option Bytes :=
  if 2 ≤ n then
    match content with
    | h0 :: h1 :: body =>
      if h0 = bom1.1 ∧ h1 = bom1.2 then wideToString (fold16 (units lowIndex1 body) 0 [])
      else if h0 = bom2.1 ∧ h1 = bom2.2 then wideToString (fold16 (units lowIndex2 body) 0 [])
      else if h0 = bom3.1 ∧ h1 = bom3.2.1 ∧ 3 ≤ n ∧ body.head? = some bom3.2.2 then some (body.tail.take n)
      else some (content.take n)
    | _ => some (content.take n)
  else some (content.take n)

/-- `TextFile(path).text()` on an existing file with this content, through a fresh object (`size()` is the
    file's length) -/
def text (content : Bytes) : Option Bytes := textN (content.length &&& sizeMask) content

/-! ## `Directory::copy` block loop -/

/-- `do { n = src.read(buffer, sizeof buffer); dst.write(buffer, n); } while (n == sizeof buffer);` with
    `sizeof buffer = b + 1`: the bytes written to the destination -/
def copyLoop (b : Nat) (src : Bytes) : Bytes :=
  let blk := src.take (b + 1)
  if h : blk.length = b + 1 then blk ++ copyLoop b (src.drop (b + 1)) else blk
termination_by src.length
decreasing_by
  simp only [List.length_take, List.length_drop, blk] at *
  omega

/-! ## the disk, `fopen`, handles -/

abbrev Disk := Nat → Option Bytes

def Disk.set (d : Disk) (p : Nat) (v : Option Bytes) : Disk := fun q => if q = p then v else d q

/-- C11 §7.21.5.3: what a mode string means (`b`/`t` ignored) -/
structure StdioMode where
  canRead : Bool
  canWrite : Bool
  trunc : Bool
  create : Bool
  append : Bool
deriving Repr, DecidableEq

def stdioMode : List Char → Option StdioMode
  | 'r' :: fl => some { canRead := true, canWrite := fl.contains '+', trunc := false, create := false, append := false }
  | 'w' :: fl => some { canRead := fl.contains '+', canWrite := true, trunc := true, create := true, append := false }
  | 'a' :: fl => some { canRead := fl.contains '+', canWrite := true, trunc := false, create := true, append := true }
  | _ => none

/-- `fopen(path, mode)` -/
def fopen (d : Disk) (p : Nat) (m : List Char) : Option (StdioMode × Disk) :=
  match stdioMode m with
  | none => none
  | some sm =>
    match d p with
    | none => if sm.create then some (sm, d.set p (some [])) else none
    | some _ => if sm.trunc then some (sm, d.set p (some [])) else some (sm, d)

/-- an open `File` / `TextFile` object -/
structure Handle where
  path : Nat
  isText : Bool
  mode : OpenMode
  sm : StdioMode
  /-- the file's bytes when it was opened (what `seek` repositions into) -/
  all : Bytes
  rs : RStream
  /-- output position of a non-append writer -/
  pos : Nat
  /-- the stream's error indicator (`ferror`): set by a read on a stream that cannot be read -/
  err : Bool := false
deriving Repr, DecidableEq

/-- `File::open(name, mode)` / `TextFile::open(name, mode)` (`mode | TEXT`) -/
def openH (d : Disk) (p : Nat) (isText : Bool) (mode : OpenMode) : Option Handle × Disk :=
  match fopen d p (if isText then fopenText mode else fopenBin mode) with
  | none => (none, d)
  | some (sm, d') =>
    let c := (d' p).getD []
    (some { path := p, isText := isText, mode := mode, sm := sm, all := c, rs := { rest := c, eof := false }, pos := 0 }, d')

/-- bytes `bs` written at offset `pos` of `old` -/
def overwrite (old : Bytes) (pos : Nat) (bs : Bytes) : Bytes :=
  old.take pos ++ bs ++ old.drop (pos + bs.length)

/-- `fwrite(p, 1, n, _file)`: returned count, disk, handle -/
def fwrite (d : Disk) (h : Handle) (bs : Bytes) : Nat × Disk × Handle :=
  if h.sm.canWrite then
    let old := (d h.path).getD []
    if h.sm.append then (bs.length, d.set h.path (some (old ++ bs)), h)
    else (bs.length, d.set h.path (some (overwrite old h.pos bs)), { h with pos := h.pos + bs.length })
  else (0, d, h)

/-- every byte string of a session goes through `fwrite` on the open handle, in order -/
def writeAll (d : Disk) (h : Handle) : List Bytes → Disk × Handle
  | [] => (d, h)
  | bs :: t => writeAll (fwrite d h bs).2.1 (fwrite d h bs).2.2 t

/-! ### what the stream operators hand to `fwrite` -/

/-- `File::operator<<(const char* x)` = `write(x, strlen(x))`, `TextFile::operator<<(const char* x)` = `fputs`:
    the bytes before the first NUL -/
def cstr (bs : Bytes) : Bytes := bs.takeWhile (· != 0)

/-- decimal digits, most significant first -/
def decDigits (n : Nat) : Bytes :=
  if h : n < 10 then [UInt8.ofNat (48 + n)] else decDigits (n / 10) ++ [UInt8.ofNat (48 + n % 10)]
termination_by n
decreasing_by omega

/-- `TextFile::operator<<(const T& x)` = `write(String(x))` for an `int`: `String(int)` is the decimal text
    (C03's domain; modelled here as its result) -/
def decimal (i : Int) : Bytes := if i < 0 then 45 :: decDigits i.natAbs else decDigits i.toNat

/-- `File::operator<<(const T& x)` for a 32-bit `x` whose byte order is the host's (`_endian` left at
    `ENDIAN_NATIVE` on this little-endian host; the swapping branch belongs to C16): `write(&y, 4)` -/
def le32 (n : Nat) : Bytes :=
  [UInt8.ofNat n, UInt8.ofNat (n >>> 8), UInt8.ofNat (n >>> 16), UInt8.ofNat (n >>> 24)]

/-- `File::read(p, n)`: on a stream that cannot be read (opened for writing) `fread` of at least one byte returns 0
    with the error indicator set (a request for 0 bytes touches nothing) -/
def hread (h : Handle) (n : Nat) : Bytes × Handle :=
  if h.sm.canRead then
    let r := fread n h.rs
    (r.1, { h with rs := r.2 })
  else ([], if n = 0 then h else { h with err := true })

/-- `TextFile::readLine(char)` through an open object: on a stream that cannot be read (opened for writing) the first
    `read` fails — the error indicator is set — and the empty string is returned at once -/
def hreadLineDelim (h : Handle) (delim : UInt8) : Bytes × Handle :=
  if h.sm.canRead then
    let r := readLineDelim delim h.rs
    (r.1, { h with rs := r.2 })
  else ([], { h with err := true })

/-- `TextFile::readLine(String&)` through an open object: on a stream that cannot be read `fgets` returns NULL with the
    error indicator set: the empty string and `false` -/
def hreadLine (chunk : Nat) (h : Handle) : (Bytes × Bool) × Handle :=
  if h.sm.canRead then
    let r := readLine chunk h.rs
    (r.1, { h with rs := r.2 })
  else (([], false), { h with err := true })

/-- `while (f.readLine(s)) out << s;` through an open object: on a stream that cannot be read the first call fails
    (see `hreadLine`): nothing delivered, the empty string left -/
def hreadWhile (chunk : Nat) (h : Handle) : (List Bytes × Bytes) × Handle :=
  if h.sm.canRead then
    let r := readWhile chunk h.rs
    (r.1, { h with rs := r.2 })
  else (([], []), { h with err := true })

/-- `end()`: `feof(_file) != 0 || ferror(_file) != 0` (repair 4bfeeba: it used to test `feof` only, so the documented
    loop `while (!f.end()) f.readLine();` never ended after a failed read) -/
def hend (h : Handle) : Bool := h.rs.eof || h.err

/-- `seek(k)` from the start, `k ≤ size` -/
def hseek (h : Handle) (k : Nat) : Handle :=
  { h with rs := { rest := h.all.drop k, eof := false } }

/-- `position()` -/
def hpos (h : Handle) : Nat := h.all.length - h.rs.rest.length

/-! ## one-shot operations on temporaries (`File(path).put(…)`, `TextFile(path).append(…)`, …) -/

/-- `File(path).put(data)`: `open(_path, WRITE)`, `write(data.data(), data.length()) == data.length()`; the
    temporary is destroyed (closed) at the end of the statement -/
def put (d : Disk) (p : Nat) (bs : Bytes) : Bool × Disk :=
  match openH d p false .write with
  | (none, d') => (false, d')
  | (some h, d') =>
    let r := fwrite d' h bs
    (r.1 == bs.length, r.2.1)

/-- `TextFile(path).write(s)` / `.put(s)` (`open(WRITE)`) and `.append(s)` (`open(APPEND)`):
    `(int)fwrite(*s, 1, s.length(), _file) >= s.length()` -/
def tput (d : Disk) (p : Nat) (mode : OpenMode) (bs : Bytes) : Bool × Disk :=
  match openH d p true mode with
  | (none, d') => (false, d')
  | (some h, d') =>
    let r := fwrite d' h bs
    (decide (r.1 ≥ bs.length), r.2.1)

/-- `File(path).size()` (−1 when `stat` fails) -/
def size (d : Disk) (p : Nat) : Int :=
  match d p with
  | none => -1
  | some c => c.length

/-- `File(path).firstBytes(n)` for `n ≥ 0` -/
def firstBytes (d : Disk) (p : Nat) (n : Nat) : Bytes :=
  match openH d p false .read with
  | (none, _) => []
  | (some h, _) => (hread h n).1

/-- `File(path).content()` = `firstBytes((int)size())`; without the file `open` fails first -/
def content (d : Disk) (p : Nat) : Bytes :=
  match d p with
  | none => []
  | some c => firstBytes d p c.length

/-- `TextFile(path).lines()` (empty array when the file cannot be opened) -/
def linesOf (d : Disk) (p : Nat) : List Bytes :=
  match openH d p true .read with
  | (none, _) => []
  | (some h, _) => linesLoop (readLineChunk - 2) h.rs []

/-- `TextFile(path).text()` (empty string when the file cannot be opened) -/
def textOf (d : Disk) (p : Nat) : Option Bytes :=
  match openH d p true .read with
  | (none, _) => some []
  | (some h, _) => text h.all

/-! ## `Directory::copy`, `Directory::move`, `Directory::remove` (destination already resolved to a file path) -/

/-- `to` names a directory: `topath = to + '/' + File(from).name()`.  Paths `2·dir + name`. -/
def intoDir (src dir : Nat) : Nat := 2 * dir + src % 2

/-- `Directory::copy(from, topath)`: the source must open; a destination that *is* the source (same
    device and inode) is refused before it is opened for writing (repair 576b460: it used to be truncated);
    then the block loop. -/
def copy (d : Disk) (src dst : Nat) : Bool × Disk :=
  match openH d src false .read with
  | (none, _) => (false, d)
  | (some _, _) =>
    if src = dst then (false, d) else
    match openH d dst false .write with
    | (none, d1) => (false, d1)
    | (some hd, d1) =>
      let data := copyLoop (copyBlock - 1) ((d1 src).getD [])
      (true, (fwrite d1 hd data).2.1)

def remove (d : Disk) (p : Nat) : Bool × Disk :=
  match d p with
  | none => (false, d)
  | some _ => (true, d.set p none)

/-- `Directory::move(from, dst)`; `xdev`: the two paths are on different devices, so `rename` fails with
    `EXDEV` and the code copies, then removes the source (repair a7085af: only if the copy succeeded, and
    the result is reported) -/
def move (d : Disk) (src dst : Nat) (xdev : Bool) : Bool × Disk :=
  match d src with
  | none => (false, d)                     -- rename: ENOENT
  | some c =>
    if xdev then
      let r := copy d src dst
      if r.1 then remove r.2 src else (false, r.2)
    else if src = dst then (true, d)
    else (true, (d.set dst (some c)).set src none)

/-! ## persistent `File` / `TextFile` objects: the lazily opened handle and the cached `stat` information

`File` keeps `_file` (null until something opens it; several members open it on demand and leave it open) and
`mutable FileInfo _info` (filled by `size()/creationDate()/lastModified()/isDirectory()` of an object that is
not open and reused until `close()` — `_info = FileInfo()` — or `exists()/content()/text()` — `_info.clear()` —
discards it; a failed `stat` leaves `size == -1`, which reads as "nothing cached").  The members are transcribed
from include/asl/File.h, src/File.cpp and src/TextFile.cpp as they are after the repairs ae75f36 (an open object
asks again, after flushing; `content()/text()` do not use a cached size), 4c57e14 (`content()/text()/firstBytes()`
of an object that is already open flush it and read through a separate temporary object, so they start at the
beginning of the file, work on an object open for writing and leave its position alone) and a48095a (`open()`
closes the handle the object already has), b935145 (`lines()` likewise reads through a temporary when the object is
open), 630b40d (the whole-file readers close the handle they opened themselves: an object that was not open is
not open afterwards either, so it can still open itself for writing) and b3be5cd (`File::copy` flushes,
`File::move` closes the object first). -/

/-- the cached `FileInfo`: nothing, or the size `stat` reported -/
inductive Cache where
  | empty
  | size (n : Nat)
deriving DecidableEq, Repr

structure Obj where
  path : Nat
  isText : Bool
  file : Option Handle
  info : Cache
deriving Repr

/-- `File f(path)` / `TextFile f(path)` -/
def Obj.new (p : Nat) (t : Bool) : Obj := { path := p, isText := t, file := none, info := .empty }

/-- `getFileInfo(_path)` -/
def statFetch (d : Disk) (p : Nat) : Cache :=
  match d p with
  | none => .empty
  | some c => .size c.length

def Cache.val : Cache → Int
  | .empty => -1
  | .size n => n

/-- `if (!_info) _info = getFileInfo(_path);` -/
def Obj.ensureInfo (d : Disk) (o : Obj) : Obj :=
  match o.info with
  | .empty => { o with info := statFetch d o.path }
  | .size _ => o

/-- `size()`: an open object flushes and asks again (`if (_file) { fflush(_file); _info = getFileInfo(_path); }`),
    an object that is not open answers from the cache if there is one -/
def Obj.size (d : Disk) (o : Obj) : Int × Obj :=
  match o.file with
  | some _ => ((statFetch d o.path).val, { o with info := statFetch d o.path })
  | none => ((o.ensureInfo d).info.val, o.ensureInfo d)

/-- `exists()`: `_info.clear(); return creationDate().time() != 0;` -/
def Obj.exists (d : Disk) (o : Obj) : Bool × Obj :=
  let o' := { o with info := statFetch d o.path }
  (o'.info != .empty, o')

/-- `isFile()`: `creationDate().time() != 0 && !isDirectory()` (the paths of the protocol are never directories) -/
def Obj.isFile (d : Disk) (o : Obj) : Bool × Obj :=
  let o' := o.ensureInfo d
  (o'.info != .empty, o')

/-- `isDirectory()`, `lastModified()`, `creationDate()`: fill the cache if it is empty -/
def Obj.touch (d : Disk) (o : Obj) : Obj := o.ensureInfo d

/-- `close()`: `if (_file) fclose(_file); _file = 0; _info = FileInfo();` -/
def Obj.close (o : Obj) : Obj := { o with file := none, info := .empty }

/-- `open(mode)` (`File::open(_path, mode)`, `TextFile::open` adds `TEXT`): `if (_file) close();` first, so a
    reopened object loses nothing it had written; `_file` is null afterwards when `fopen` failed -/
def Obj.open (d : Disk) (o : Obj) (mode : OpenMode) : Bool × Disk × Obj :=
  let o0 := if o.file.isSome then o.close else o
  let r := openH d o0.path o0.isText mode
  (r.1.isSome, r.2, { o0 with file := r.1 })

/-- `File::open(name, mode)` / `TextFile::open(name, mode)` with a name of the caller's (also what the constructors
    `File(name, mode)` / `TextFile(name, mode)` run): `if (_file) close();`, `fopen`, then `_path = name` **whether or not
    `fopen` succeeded** — so an object whose open failed (READ on a file that does not exist yet) refers to `name`, and
    the lazily opening writers create and write that file.  The cached stat information is not touched when the
    object was not open. -/
def Obj.openAt (d : Disk) (o : Obj) (p : Nat) (mode : OpenMode) : Bool × Disk × Obj :=
  let o0 := if o.file.isSome then o.close else o
  let r := openH d p o0.isText mode
  (r.1.isSome, r.2, { o0 with path := p, file := r.1 })

/-- `if (!_file && !open(mode)) …`: what every lazily opening member does first; `text` tells whether the
    member calls `TextFile::open` (with `TEXT`) or `File::open` -/
def Obj.lazyOpen (d : Disk) (o : Obj) (text : Bool) (mode : OpenMode) : Disk × Obj :=
  match o.file with
  | some _ => (d, o)
  | none =>
    let r := openH d o.path text mode
    (r.2, { o with file := r.1 })

/-- `File::write(p, n)` (also `File << x`) on an open object -/
def Obj.write (d : Disk) (o : Obj) (bs : Bytes) : Nat × Disk × Obj :=
  match o.file with
  | none => (0, d, o)
  | some h =>
    let r := fwrite d h bs
    (r.1, r.2.1, { o with file := some r.2.2 })

/-- `TextFile::write(s)` / `put(s)` / `operator<<(s)` (`mode = WRITE`) and `append(s)` (`mode = APPEND`):
    open in that mode only if the object is not open, then `fwrite(...) >= s.length()` -/
def Obj.twrite (d : Disk) (o : Obj) (mode : OpenMode) (bs : Bytes) : Bool × Disk × Obj :=
  let r := o.lazyOpen d true mode
  match r.2.file with
  | none => (false, r.1, r.2)
  | some h =>
    let w := fwrite r.1 h bs
    (decide (w.1 ≥ bs.length), w.2.1, { r.2 with file := some w.2.2 })

/-- `File::put(data)`: `open(_path, WRITE)` only if the object is not open, then `write(...) == length` -/
def Obj.put (d : Disk) (o : Obj) (bs : Bytes) : Bool × Disk × Obj :=
  let r := o.lazyOpen d false .write
  match r.2.file with
  | none => (false, r.1, r.2)
  | some h =>
    let w := fwrite r.1 h bs
    (w.1 == bs.length, w.2.1, { r.2 with file := some w.2.2 })

/-- `firstBytes(n)`: an object that is already open flushes and answers through `File(_path).firstBytes(n)`
    (a temporary: the first bytes of the file, this object untouched); otherwise `open(_path)` (READ), one
    `read` of `n` bytes, `close()` — which also discards the cache; if the file cannot be opened nothing changes -/
def Obj.firstBytes (d : Disk) (o : Obj) (n : Nat) : Bytes × Obj :=
  match o.file with
  | some _ => (FileText.firstBytes d o.path n, o)
  | none =>
    match (openH d o.path false .read).1 with
    | none => ([], o)
    | some h => ((hread h n).1, o.close)

/-- `content()`: open ⇒ flush and `File(_path).content()`; not open ⇒ `_info.clear()`, then
    `firstBytes((int)size())` with the size just fetched -/
def Obj.content (d : Disk) (o : Obj) : Bytes × Obj :=
  match o.file with
  | some _ => (FileText.content d o.path, o)
  | none =>
    let s := ({ o with info := .empty } : Obj).size d
    s.2.firstBytes d s.1.toNat

/-- `read(p, n)` on an open object -/
def Obj.read (o : Obj) (n : Nat) : Bytes × Obj :=
  match o.file with
  | none => ([], o)
  | some h =>
    let x := hread h n
    (x.1, { o with file := some x.2 })

/-- `(int)(size() & mask)` for a 64-bit `size()` (−1 when nothing could be cached) -/
def sizeAnd (sz : Int) : Nat := (sz % 18446744073709551616).toNat &&& sizeMask

/-- `TextFile::lines()`: open ⇒ flush and `TextFile(_path).lines()`; not open ⇒ open for reading, read lines up to the
    end of the file (the loop also stops on a read error), `close()` -/
def Obj.lines (d : Disk) (o : Obj) : List Bytes × Obj :=
  match o.file with
  | some _ => (linesOf d o.path, o)
  | none =>
    match (openH d o.path true .read).1 with
    | none => ([], o)
    | some h => (linesLoop (readLineChunk - 2) h.rs [], o.close)

/-- `TextFile::text()`: open ⇒ flush and `TextFile(_path).text()`; not open ⇒ `_info.clear()`, `n` from the size
    just fetched, open for reading (on failure: the empty string, the cache keeps what `size()` fetched), the body,
    `close()` -/
def Obj.text (d : Disk) (o : Obj) : Option Bytes × Obj :=
  match o.file with
  | some _ => (FileText.textOf d o.path, o)
  | none =>
    let s := ({ o with info := .empty } : Obj).size d
    match (openH d o.path true .read).1 with
    | none => (some [], s.2)
    | some h => (textN (sizeAnd s.1) h.rs.rest, o.close)

/-- `File::copy(to)`: `if (_file) flush();` then `Directory::copy(_path, to)` — the object is otherwise untouched -/
def Obj.copy (d : Disk) (o : Obj) (dst : Nat) : Bool × Disk := FileText.copy d o.path dst

/-- `File::move(to)`: `if (_file) close();` then `Directory::move(_path, to)` -/
def Obj.move (d : Disk) (o : Obj) (dst : Nat) (xdev : Bool) : (Bool × Disk) × Obj :=
  (FileText.move d o.path dst xdev, if o.file.isSome then o.close else o)

/-! ## a destination that accepts no byte (`/dev/full`: every `write(2)` fails with ENOSPC)

`fopen("wb")` succeeds and `fwrite` of a block that fits the stdio buffer "succeeds"; the failure only shows when
the buffer is flushed.  `Directory::copy` flushes the destination and tests its error indicator before it reports
success (repair 78aac25), so only an empty source can be "copied"; `Directory::move` falls back to copy + remove
(`rename` fails with `EXDEV`) and removes the source only after a successful copy. -/

def copyToFull (d : Disk) (src : Nat) : Bool × Disk :=
  match d src with
  | none => (false, d)
  | some c => (c.isEmpty, d)

def moveToFull (d : Disk) (src : Nat) : Bool × Disk :=
  match d src with
  | none => (false, d)
  | some _ =>
    let r := copyToFull d src
    if r.1 then remove r.2 src else (false, r.2)

/-! ## reading with the stream operators: `File::operator>>(int&)`, `File::operator>>(String&)` -/

/-- the value of bytes stored least significant first (what `read(&x, 4)` leaves in an `x` that was 0, on this
    little-endian host; fewer than four bytes read leave the high bytes 0) -/
def leVal (bs : Bytes) : Nat := bs.foldr (fun b a => b.toNat + 256 * a) 0

/-- a 32-bit pattern as the `int` it is -/
def toI32 (n : Nat) : Int := if n % 4294967296 < 2147483648 then (n % 4294967296 : Nat) else (n % 4294967296 : Nat) - 4294967296

/-- `int n = 0; *this >> n;` = `read(&n, sizeof(n))` in native byte order (`_endian` left at `ENDIAN_NATIVE`) -/
def readI32 (s : RStream) : Int × RStream :=
  let r := fread 4 s
  (toI32 (leVal r.1), r.2)

/-- the loop of `File::operator>>(String& x)` with a `blk`-byte buffer:
    `while (n > 0) { m = read(buf, n < sizeof(buf) ? n : sizeof(buf)); if (m <= 0) break; x.append(buf, m); n -= m; }` -/
def shrLoop (blk : Nat) (s : RStream) (n : Nat) (acc : Bytes) : Bytes × RStream :=
  if hn : n = 0 then (acc, s)
  else
    if hm : (fread (min n blk) s).1.length = 0 then (acc, (fread (min n blk) s).2)
    else shrLoop blk (fread (min n blk) s).2 (n - (fread (min n blk) s).1.length) (acc ++ (fread (min n blk) s).1)
termination_by n
decreasing_by omega

/-- `File::operator>>(String& x)`: the length as an int32, then that many bytes in `blk`-byte reads; a negative length
    reads nothing, a length beyond the end of the file gives the bytes that are there -/
def readStr (blk : Nat) (s : RStream) : Bytes × RStream :=
  let r := readI32 s
  shrLoop blk r.2 r.1.toNat []

/-- `f >> x` (String) through an open object: on a stream that cannot be read the length read fails (error indicator set),
    `n` stays 0, the string is empty -/
def hreadStr (blk : Nat) (h : Handle) : Bytes × Handle :=
  if h.sm.canRead then
    let r := readStr blk h.rs
    (r.1, { h with rs := r.2 })
  else ([], { h with err := true })

end AslModel.FileText
