/-!
# C20 — scalar interface for the matrix / quaternion models (core Lean only)

The C++ templates `Matrix4_<T>`, `Matrix3_<T>`, `Quaternion_<T>`, `Matrix_<T>`/`solve_` use the scalar
type `T` only through `+ - * /`, unary `-`, conversion from small integer literals, and (pivot search,
branch selection in `rotation()`) `fabs`, `<`, `sqrt`.  `Fld` / `Cmp` are exactly those operations,
**without laws**: the generated definitions (`Gen/Matrix4Gen.lean`, …) and the hand-written `solve_`
model are written against them.  The driver instantiates them with the prime field `2^61-1`
(`fpFld`, `fpCmp`); the proofs instantiate them from Mathlib's `[Field K]` (`AslProofs/Matrix.lean`).
-/
namespace AslModel

/-- field operations, no laws -/
structure Fld (K : Type) where
  zero : K
  one : K
  add : K → K → K
  sub : K → K → K
  mul : K → K → K
  div : K → K → K
  neg : K → K

namespace Fld
variable {K : Type}
/-- value of the C++ conversion `T(n)` of a non-negative integer literal `n` -/
def lit (F : Fld K) : Nat → K
  | 0 => F.zero
  | n + 1 => F.add (lit F n) F.one
/-- `(T)0.5` -/
def half (F : Fld K) : K := F.div F.one (F.lit 2)
end Fld

/-- `fabs`, `<`, `sqrt`, `== 0` on scalars, no laws -/
structure Cmp (K : Type) where
  abs : K → K
  lt : K → K → Bool
  sqrt : K → K
  eqz : K → Bool

/-- `cos`, `sin`, `asin`, `acos`, `atan2` and the constant `PI` converted to the scalar type; no laws -/
structure Trig (K : Type) where
  cos : K → K
  sin : K → K
  asin : K → K
  acos : K → K
  atan2 : K → K → K
  pi : K

/-- `Quaternion_<T>`: members in declaration order `w, x, y, z` -/
structure Quat (K : Type) where
  w : K
  x : K
  y : K
  z : K

/-- `Vec3_<T>` -/
structure V3 (K : Type) where
  x : K
  y : K
  z : K

/-- `Vec4_<T>` -/
structure V4 (K : Type) where
  x : K
  y : K
  z : K
  w : K

/-- a fixed-size matrix given by its rows (row-major constructor arguments) -/
def ofRows {K : Type} (z : K) (rows : List (List K)) : Nat → Nat → K :=
  fun i j => (rows.getD i []).getD j z

/-! ## the prime field 2^61-1 used by the driver (values are naturals `< P`) -/
namespace Fp
def P : Nat := 2305843009213693951

def powAux : Nat → Nat → Nat → Nat → Nat
  | 0, _, _, r => r
  | f + 1, a, e, r =>
    if e = 0 then r else powAux f (a * a % P) (e / 2) (if e % 2 = 1 then r * a % P else r)

/-- `a^e mod P` for `e < 2^64` -/
def pow (a e : Nat) : Nat := powAux 64 (a % P) e 1

def fld : Fld Nat where
  zero := 0
  one := 1
  add a b := (a + b) % P
  sub a b := (a + P - b % P) % P
  mul a b := a * b % P
  div a b := a * pow b (P - 2) % P   -- `b = 0` gives 0, as the C++ scalar class of the harness
  neg a := (P - a % P) % P

/-- position of `a` in the order of the balanced representatives `(-P/2, P/2]` -/
def key (a : Nat) : Nat := if a ≤ P / 2 then a + P else a

/-- `fabs`, `<` on the balanced representatives, `sqrt(x) = x^((P+1)/4)` (a square root whenever one exists, `P ≡ 3 mod 4`) -/
def cmp : Cmp Nat where
  abs a := if a ≤ P / 2 then a else (P - a % P) % P
  lt a b := decide (key a < key b)
  sqrt a := pow a ((P + 1) / 4)
  eqz a := decide (a % P = 0)

/-- stand-ins for the trigonometric functions over the prime field, the same ones as in `harness/c20.cpp`, so that the
code paths that call `cos`/`sin`/`acos` can be executed exactly: the rational parametrisation
`cos x = (1-x²)/(1+x²)`, `sin x = 2x/(1+x²)` of the unit circle (so `cos² + sin² = 1` whenever `1+x² ≠ 0`),
`acos w = sqrt((1-w)/(1+w))` (a right inverse of `cos` when that root exists),
`atan2 y x = y/(sqrt(x²+y²)+x)` (the half-angle tangent of the point `(x, y)`), `PI = 3`; `asin` unused -/
def trig : Trig Nat where
  cos x := fld.div (fld.sub 1 (fld.mul x x)) (fld.add 1 (fld.mul x x))
  sin x := fld.div (fld.mul 2 x) (fld.add 1 (fld.mul x x))
  asin x := x
  acos w := cmp.sqrt (fld.div (fld.sub 1 w) (fld.add 1 w))
  atan2 y x := fld.div y (fld.add (cmp.sqrt (fld.add (fld.mul x x) (fld.mul y y))) x)
  pi := 3
end Fp

end AslModel
