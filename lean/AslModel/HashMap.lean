import Gen.HashMapGen
/-!
# Executable model of `asl::HashMap<K,T>`, `asl::HashDic<T>` and `asl::Set<T>`
(include/asl/HashMap.h, include/asl/Set.h) — core Lean only

`Array<KeyValN*> a`: slots `0`/`1` hold the entry count and the reference count, slots `SKIP…` the chain
heads.  The model keeps the chain heads as `buckets : List (List (K × V))` (a chain = its nodes in `next`
order) and the count as `n`.  The hash function `h` is a *parameter* (low 32 bits of `hash(key)` as a
natural number), so the theorems cover every collision pattern; the driver instantiates it with the two
`hash` overloads the harness uses.  Functions transcribe what the C++ members do.  The constants (default
size, growth rule, hash multiplier, `nextPoT` shifts) come from `Gen/HashMapGen.lean`, regenerated from
`include/asl/HashMap.h` on every run.
-/
namespace AslModel.HashMap
open Gen.HashMap (hashMul defaultBuckets growNum growDen growFactor maxSlots skip potShifts)

structure HM (K V : Type) where
  buckets : List (List (K × V))
  n : Nat
  /-- slot 1 of the array: how many `HashMap` handles share this table (`HashMap(const HashMap&)` / `operator=`
  increment it, destructors decrement it; the driver keeps it equal to the number of handles) -/
  rc : Nat
deriving Repr

variable {K V : Type} [DecidableEq K]

/-- `nextPoT(int n)` for `1 ≤ n ≤ 2^30`: `n--; n |= n >> k` for every regenerated shift `k`; `n + 1`.
(For `n < 1` the C++ `int` gives 0 — see `nextPoTInt` below; this natural-number version gives 1 at 0.) -/
def nextPoT (n : Nat) : Nat :=
  potShifts.foldl (fun n k => n ||| (n >>> k)) (n - 1) + 1

/-- `HashMap()` (`defaultBuckets` buckets) / `HashMap(int n)` (`nextPoT(n)` buckets): all chain heads null, count 0 -/
def empty (nb : Nat) : HM K V := ⟨List.replicate nb [], 0, 1⟩

/-- `HashMap(int n)` (as repaired by 16300ca): a size hint below 1 counts as 1 -/
def ofSize (n : Int) : HM K V := empty (nextPoT (if n < 1 then 1 else n.toNat))

/-- `binOf(key) - SKIP` : `hash(key) & (a.length() - SKIP - 1)` -/
def binOf (h : K → Nat) (nb : Nat) (key : K) : Nat := h key &&& (nb - 1)

/-- the chain walk of `find` : value of the first node whose key `== key` -/
def chainFind (key : K) : List (K × V) → Option V
  | [] => none
  | (k, v) :: t => if k = key then some v else chainFind key t

/-- the chain walk of `has` -/
def chainHas (key : K) : List (K × V) → Bool
  | [] => false
  | (k, _) :: t => if k = key then true else chainHas key t

/-- the chain walk of the non-const `operator[]`: stop at the first node with the key, else append a new
node `(key, T())` after the last one; the flag says whether a node was appended -/
def chainIndex (key : K) (dflt : V) : List (K × V) → List (K × V) × Bool
  | [] => ([(key, dflt)], true)
  | (k, v) :: t =>
    if k = key then ((k, v) :: t, false)
    else
      let r := chainIndex key dflt t
      ((k, v) :: r.1, r.2)

/-- write through the reference returned by `operator[]` (the first node with the key) -/
def chainSetVal (key : K) (value : V) : List (K × V) → List (K × V)
  | [] => []
  | (k, v) :: t => if k = key then (k, value) :: t else (k, v) :: chainSetVal key value t

/-- the chain walk of `remove` (as repaired by d4d2172): unlink the first node with the key -/
def chainRemove (key : K) : List (K × V) → List (K × V) × Bool
  | [] => ([], false)
  | (k, v) :: t =>
    if k = key then (t, true)
    else
      let r := chainRemove key t
      ((k, v) :: r.1, r.2)

/-- enumeration order of `HashMap::Enumerator`: buckets in index order, each chain in `next` order -/
def enum (m : HM K V) : List (K × V) := m.buckets.flatten

/-! ## `HashMap::Enumerator` as coded (also `foreach`/`foreach2`, `Set::Enumerator`, `Set::array()`)

The state is `(j, p)`: `e` points at array slot `j + SKIP` (bucket `j`), `p` is the rest of the current chain
(`[]` = null).  Every read `*e` is `B[j]?`; a read outside the table makes the walk `none`. -/

/-- `while(p == 0 && e) { ++e; if(e) p = *e; }` (shared by the constructor and `operator++`); `fuel` bounds the
iterations (`B.length + 1` always suffices) -/
def settle (B : List (List (K × V))) : Nat → Nat → List (K × V) → Option (Nat × List (K × V))
  | _, j, kv :: t => some (j, kv :: t)
  | 0, _, [] => none
  | f + 1, j, [] =>
    if j < B.length then
      if j + 1 < B.length then
        match B[j + 1]? with
        | none => none
        | some c => settle B f (j + 1) c
      else some (j + 1, [])
    else some (j, [])

/-- `for(; e; ++e) yield (~e, *e)`: `operator bool` is `p != 0 || e`; with `p == 0` and `e` still inside the table the
body would dereference null (`none`); `operator++` is `p = p->next` followed by the settle loop -/
def walkLoop (B : List (List (K × V))) : Nat → Nat → List (K × V) → Option (List (K × V))
  | 0, _, _ => none
  | _ + 1, j, [] => if j < B.length then none else some []
  | f + 1, j, kv :: t =>
    match settle B (B.length + 1) j t with
    | none => none
    | some (j', p') => (walkLoop B f j' p').map (kv :: ·)

/-- `Enumerator(const HashMap& m)` — `SKIP` times `++e` (unchecked), `p = *e` (reads slot `SKIP`, i.e. bucket 0: this
read is inside the array only because a table has at least one bucket), settle — followed by the whole loop -/
def walk (m : HM K V) : Option (List (K × V)) :=
  match m.buckets[0]? with
  | none => none
  | some c =>
    match settle m.buckets (m.buckets.length + 1) 0 c with
    | none => none
    | some (j, p) => walkLoop m.buckets (m.buckets.flatten.length + 1) j p

/-- `nextPoT(int n)` on the C++ `int`: for `n < 1` the decrement gives a negative number, the arithmetic shifts smear
the sign bit over all 32 bits (`-1`) and `n + 1` is `0` — a table of no buckets; `HashMap(int)` therefore clamps its
argument to `1` (16300ca).  For `1 ≤ n ≤ 2^30` it is `nextPoT` above; above `2^30` the `int` overflows (not modelled). -/
def nextPoTInt (n : Int) : Int := if n < 1 then 0 else (nextPoT n.toNat : Nat)

/-- inner loop of `rehash()`: every node, in enumeration order, is appended to the tail of its new bucket -/
def rehashInto (h : K → Nat) (nb : Nat) (es : List (K × V)) : List (List (K × V)) :=
  es.foldl (fun b kv => let bin := binOf h nb kv.1; b.set bin (b.getD bin [] ++ [kv])) (List.replicate nb [])

/-- `void rehash()`: nothing below `growNum/growDen` fill (of `a.length()`, which includes the header slots)
or above `maxSlots` slots, and (as repaired by c201e90) nothing while another handle shares the table;
otherwise a `growFactor`× larger table bound to this handle -/
def rehash (h : K → Nat) (m : HM K V) : HM K V :=
  let alen := m.buckets.length + skip
  if m.n < alen * growNum / growDen ∨ alen > maxSlots ∨ m.rc > 1 then m
  else ⟨rehashInto h (m.buckets.length * growFactor) (enum m), m.n, m.rc⟩

/-- non-const `T& operator[](key)` (creates `(key, T())` when missing) -/
def index (h : K → Nat) (dflt : V) (m : HM K V) (key : K) : HM K V :=
  let m := rehash h m
  let bin := binOf h m.buckets.length key
  let r := chainIndex key dflt (m.buckets.getD bin [])
  ⟨m.buckets.set bin r.1, if r.2 then m.n + 1 else m.n, m.rc⟩

/-- `*p = value` through the reference `operator[]` returned -/
def setVal (h : K → Nat) (m : HM K V) (key : K) (value : V) : HM K V :=
  let bin := binOf h m.buckets.length key
  ⟨m.buckets.set bin (chainSetVal key value (m.buckets.getD bin [])), m.n, m.rc⟩

/-- `m[key] = value`  (also `set(key, value)`) -/
def assign (h : K → Nat) (dflt : V) (m : HM K V) (key : K) (value : V) : HM K V :=
  setVal h (index h dflt m key) key value

/-- `find(key)` -/
def find (h : K → Nat) (m : HM K V) (key : K) : Option V :=
  chainFind key (m.buckets.getD (binOf h m.buckets.length key) [])

/-- `has(key)` -/
def has (h : K → Nat) (m : HM K V) (key : K) : Bool :=
  chainHas key (m.buckets.getD (binOf h m.buckets.length key) [])

/-- `get(key, def)` and the const `operator[]` -/
def get (h : K → Nat) (m : HM K V) (key : K) (dflt : V) : V := (find h m key).getD dflt

/-- `remove(key)` -/
def remove (h : K → Nat) (m : HM K V) (key : K) : HM K V :=
  let bin := binOf h m.buckets.length key
  let r := chainRemove key (m.buckets.getD bin [])
  ⟨m.buckets.set bin r.1, if r.2 then m.n - 1 else m.n, m.rc⟩

/-- `clear()`: every chain deleted, every head null, count 0 (table size kept) -/
def clear (m : HM K V) : HM K V := ⟨m.buckets.map (fun _ => []), 0, m.rc⟩

/-- `dup()` / `clone()`: a fresh table of `nextPoT(current size)` buckets filled by `b[k] = v` in
enumeration order -/
def dup (h : K → Nat) (dflt : V) (m : HM K V) : HM K V :=
  (enum m).foldl (fun b kv => assign h dflt b kv.1 kv.2) (empty (nextPoT m.buckets.length))

/-- `operator==` (as repaired by 12cf1de): equal counts and every entry of `a` found in `b` with an equal value -/
def eq [DecidableEq V] (h : K → Nat) (a b : HM K V) : Bool :=
  if a.n ≠ b.n then false
  else (enum a).all (fun kv => match find h b kv.1 with
    | none => false
    | some v => decide (kv.2 = v))

/-! ## handles: several `HashMap` objects may refer to one table -/

/-- A family of `HashMap` objects (slots) over a store of tables: `slots[j]` names the table object `j` refers to.
`HashMap(const HashMap&)` / `operator=` make two slots name one table (`share`); an object that is assigned a new
map (constructor, `clone()`, a set-algebra result) is bound to a fresh table (`rebind`); every other member acts on
the table the slot names (`mutate`), and all slots naming it see the effect.  The reference count a table's
operations see (`a[1]`) is the number of slots naming it. -/
structure Fam (K V : Type) where
  tabs : List (HM K V)
  slots : List Nat

/-- number of objects referring to table `t` -/
def Fam.rcOf (f : Fam K V) (t : Nat) : Nat := (f.slots.filter (· == t)).length

/-- the table object `j` refers to, as that object sees it -/
def Fam.get (f : Fam K V) (j : Nat) : HM K V :=
  let t := f.slots.getD j 0
  { f.tabs.getD t (empty defaultBuckets) with rc := f.rcOf t }

/-- write back the table of object `j` after a member function ran on it -/
def Fam.store (f : Fam K V) (j : Nat) (m : HM K V) : Fam K V :=
  { f with tabs := f.tabs.set (f.slots.getD j 0) m }

/-- a member function `g` called on object `j` -/
def Fam.mutate (f : Fam K V) (j : Nat) (g : HM K V → HM K V) : Fam K V := f.store j (g (f.get j))

/-- `object j = object i` (handle copy: both now refer to the table of `i`) -/
def Fam.share (f : Fam K V) (i j : Nat) : Fam K V := { f with slots := f.slots.set j (f.slots.getD i 0) }

/-- `object j = <a newly built map m>` -/
def Fam.rebind (f : Fam K V) (j : Nat) (m : HM K V) : Fam K V :=
  { tabs := f.tabs ++ [{ m with rc := 1 }], slots := f.slots.set j f.tabs.length }

/-! ## `Set<T>` = `HashMap<T,int>` with value 1 -/

abbrev HSet (K : Type) := HM K Int

/-- `s << x` : `(*this)[x] = 1` -/
def sIns (h : K → Nat) (s : HSet K) (x : K) : HSet K := assign h 0 s x 1

/-- `s << other` : every item of `other` in its enumeration order -/
def sAddAll (h : K → Nat) (s other : HSet K) : HSet K :=
  (enum other).foldl (fun b kv => sIns h b kv.1) s

/-! ## `s << s` as coded: the enumeration of `s` runs while its body `(*this)[x] = 1` may `rehash()` the same table

`Set::operator<<(const Set& s)` is `foreach(const T& x, s) (*this)[x] = 1;`.  With `&s == this` the `Enumerator`
(`Array<KeyValN*>::Enumerator e` = a REFERENCE to the member `a`, an index `i` and the end `j` = the array length at
construction; `KeyValN* p`) stays alive across `rehash()`: afterwards `*e` reads the NEW array at the old index, the end
stays the OLD length, and `p->next` is the node's successor in the chain it was re-linked into.  A node pointer is
modelled by the node's key (keys are unique, no node is freed by `operator[]`); `p->next` is looked up in the current
table; `none` = a read outside the array, a null/dangling dereference, or fuel exhausted. -/

/-- key of the head node of a chain (`none` = null pointer) -/
def headKey (c : List (K × V)) : Option K := c.head?.map (·.1)

/-- `p->next` for the node holding `key`, read in the current table (outer `none`: no such node) -/
def nextOf (h : K → Nat) (m : HM K V) (key : K) : Option (Option K) :=
  match (m.buckets.getD (binOf h m.buckets.length key) []).dropWhile (fun kv => kv.1 ≠ key) with
  | [] => none
  | _ :: t => some (headKey t)

/-- `while(p == 0 && e) { ++e; if(e) p = *e; }` with `e` = (current array `B`, index `i`, fixed end `jEnd`) -/
def settleK (B : List (List (K × V))) (jEnd : Nat) : Nat → Nat → Option K → Option (Nat × Option K)
  | _, i, some k => some (i, some k)
  | 0, _, none => none
  | f + 1, i, none =>
    if i < jEnd then
      if i + 1 < jEnd then
        match B[i + 1]? with
        | none => none
        | some c => settleK B jEnd f (i + 1) (headKey c)
      else some (i + 1, none)
    else some (i, none)

/-- `for(; e; ++e) (*this)[~e] = 1;` on the table being enumerated -/
def selfMergeLoop (h : K → Nat) (jEnd : Nat) : Nat → HSet K → Nat → Option K → Option (HSet K)
  | 0, _, _, _ => none
  | _ + 1, m, i, none => if i < jEnd then none else some m
  | f + 1, m, i, some k =>
    let m' := sIns h m k
    match nextOf h m' k with
    | none => none
    | some nx =>
      match settleK m'.buckets jEnd (jEnd + 1) i nx with
      | none => none
      | some (i', p') => selfMergeLoop h jEnd f m' i' p'

/-- `s << s` -/
def selfMerge (h : K → Nat) (m : HSet K) : Option (HSet K) :=
  match m.buckets[0]? with
  | none => none
  | some c =>
    match settleK m.buckets m.buckets.length (m.buckets.length + 1) 0 (headKey c) with
    | none => none
    | some (i, p) => selfMergeLoop h m.buckets.length (2 * m.buckets.flatten.length + 2) m i p

/-- `Set(const Array<T>&)` -/
def sFromList (h : K → Nat) (xs : List K) : HSet K := xs.foldl (sIns h) (empty defaultBuckets)

/-- `contains(const Set& s)` -/
def sContainsAll (h : K → Nat) (a s : HSet K) : Bool := (enum s).all (fun kv => has h a kv.1)

/-- `containsAny(const Set& s)` -/
def sContainsAny (h : K → Nat) (a s : HSet K) : Bool := (enum s).any (fun kv => has h a kv.1)

/-- `operator==` (as repaired by 12cf1de) -/
def sEq (h : K → Nat) (a s : HSet K) : Bool := decide (a.n = s.n) && sContainsAll h a s

/-- `notIn(s)` / `operator-` -/
def sNotIn (h : K → Nat) (a s : HSet K) : HSet K :=
  (enum a).foldl (fun b kv => if has h s kv.1 then b else sIns h b kv.1) (empty defaultBuckets)

/-- `in(s)` / `operator&` -/
def sIn (h : K → Nat) (a s : HSet K) : HSet K :=
  (enum a).foldl (fun b kv => if has h s kv.1 then sIns h b kv.1 else b) (empty defaultBuckets)

/-- `operator+` : `Set b; b << *this << s;` -/
def sUnion (h : K → Nat) (a s : HSet K) : HSet K := sAddAll h (sAddAll h (empty defaultBuckets) a) s

/-- `array()` -/
def sArray (s : HSet K) : List K := (enum s).map (·.1)

/-! ## the two hash overloads used by the harness (low 32 bits, as a natural number) -/

/-- `hash(int x) = x` -/
def hashInt (x : Int) : Nat := (x % 4294967296).toNat

/-- `hash(const String&)`: `h = hashMul*h + p[i]` over `char` (signed on this platform), 32-bit wrap-around -/
def hashBytes (s : List UInt8) : Nat :=
  (s.foldl (fun (hh : Int) c =>
    let ci : Int := if c.toNat < 128 then c.toNat else (c.toNat : Int) - 256
    (hashMul * hh + ci) % 4294967296) 0).toNat

end AslModel.HashMap
