import AslModel.Codec
import Gen.HttpFrameGen
/-!
# C10 — HTTP message framing of aslze/asl (src/Http.cpp, src/HttpServer.cpp, src/Socket.cpp)

Executable transcription (core Lean only) of

* `HttpMessage::sendHeaders` / `HttpMessage::write(buffer,n)` / `writeFile` / `putFile`   (the sender),
* `Socket_::readLine`, `HttpMessage::readHeaders`, `HttpMessage::readBody`, `HttpRequest::read`,
  the status-line part of `Http::request`                                               (the reader),
* the request line built by `Http::request`, redirects, and the response post-processing of
  `HttpServer::serve(Socket)` (keep-alive echo, OPTIONS, files, `Range`, 416),
* the blocking `Socket_::read` / `Socket_::write` loops over partial transfers.

The operating system is a parameter: a connection is the list of bytes still to come (then EOF / silence) plus the
positions where the peer's sends were cut (`cuts`), which is what `available()` reports; partial `send`/`read`
results are an explicit schedule.  The block sizes are regenerated from the source (`Gen.HttpFrame`).
-/
namespace AslModel.HttpFrame

abbrev Bytes := List UInt8

def sendBlock : Nat := Gen.HttpFrame.sendBlockSize
def recvBlock : Nat := Gen.HttpFrame.recvBlockSize

/-! ## small string functions (asl::String as a byte list without NUL) -/

def CR : UInt8 := 13
def LF : UInt8 := 10
def crlf : Bytes := [13, 10]

/-- `myisspace` (include/asl/defs.h) -/
def isSpace (c : UInt8) : Bool := c == 32 || c == 10 || c == 13 || c == 9

/-- C `isspace` (used on the first byte of a header line) -/
def cIsSpace (c : UInt8) : Bool := c == 32 || (9 ≤ c && c ≤ 13)

def trimStart (s : Bytes) : Bytes := s.dropWhile isSpace
def trimEnd (s : Bytes) : Bytes := (s.reverse.dropWhile isSpace).reverse
/-- `String::trimmed` / `trim` -/
def trimmed (s : Bytes) : Bytes := trimEnd (trimStart s)

/-- `String::indexOf(char)` from position 0 -/
def indexOfByte (c : UInt8) : Bytes → Option Nat
  | [] => none
  | x :: t => if x == c then some 0 else (indexOfByte c t).map (· + 1)

def toUpper (c : UInt8) : UInt8 := if 97 ≤ c ∧ c ≤ 122 then c - 32 else c
def toLower (c : UInt8) : UInt8 := if 65 ≤ c ∧ c ≤ 90 then c + 32 else c

/-- the loop of `capitalized()` (Http.cpp): first letter and every letter after `-` upper case, others lower -/
def capLoop : Bool → Bytes → Bytes
  | _, [] => []
  | cap, c :: t =>
    let c' := if cap then toUpper c else toLower c
    c' :: capLoop (c' == 45) t

def capitalized (name : Bytes) : Bytes := capLoop true name

def lowerAscii (s : Bytes) : Bytes := s.map toLower

def digitsRev : Nat → Nat → Bytes
  | 0, _ => []
  | f + 1, n => if n < 10 then [UInt8.ofNat (48 + n)] else UInt8.ofNat (48 + n % 10) :: digitsRev f (n / 10)

/-- decimal text of a non-negative int (`String(int)`, `%i`, `%lli`) -/
def utoa (n : Nat) : Bytes := (digitsRev (n + 1) n).reverse

def hexDigit (d : Nat) : UInt8 := if d < 10 then UInt8.ofNat (48 + d) else UInt8.ofNat (87 + d)

def hexRev : Nat → Nat → Bytes
  | 0, _ => []
  | f + 1, n => if n < 16 then [hexDigit n] else hexDigit (n % 16) :: hexRev f (n / 16)

/-- `%x` -/
def hexLower (n : Nat) : Bytes := (hexRev (n + 1) n).reverse

def digitLoop : Bytes → Nat → Nat
  | [], y => y
  | c :: t, y => if 48 ≤ c ∧ c ≤ 57 then digitLoop t (10 * y + (c.toNat - 48)) else y

/-- `myatoi` on text without a sign (the values used here are lengths and codes) ; a leading `-` gives 0 here and
is reported separately by `isNeg` -/
def atoi (s : Bytes) : Nat :=
  match s with
  | 43 :: t => digitLoop t 0
  | _ => digitLoop s 0

def isNeg (s : Bytes) : Bool := match s with
  | 45 :: _ => true
  | _ => false

def hexVal (c : UInt8) : Option Nat :=
  if 48 ≤ c ∧ c ≤ 57 then some (c.toNat - 48)
  else if 97 ≤ c ∧ c ≤ 102 then some (c.toNat - 87)
  else if 65 ≤ c ∧ c ≤ 70 then some (c.toNat - 55)
  else none

def hexLoop : Bytes → Nat → Nat
  | [], y => y
  | c :: t, y => match hexVal c with
    | some d => hexLoop t (16 * y + d)
    | none => y

def isBlank (c : UInt8) : Bool := c == 32 || (9 ≤ c && c ≤ 13)

def skipPlus : Bytes → Bytes
  | 43 :: t => t
  | s => s

def skip0x : Bytes → Bytes
  | 48 :: x :: h :: t => if (x == 120 || x == 88) && (hexVal h).isSome then h :: t else 48 :: x :: h :: t
  | s => s

/-- `String::hexToInt` = `(unsigned) strtoul(s, NULL, 16)`: blanks, optional `+`, optional `0x`, hex digits -/
def hexToInt (s : Bytes) : Nat :=
  hexLoop (skip0x (skipPlus (s.dropWhile isBlank))) 0 % 4294967296

/-- `strcmp(a,b) < 0` on NUL-free strings (the order of `Dic`) -/
def ltBytes : Bytes → Bytes → Bool
  | [], [] => false
  | [], _ :: _ => true
  | _ :: _, [] => false
  | a :: s, b :: t => if a < b then true else if b < a then false else ltBytes s t

/-! ## `Dic<>` : array of (key,value) sorted by key -/

abbrev Dic := List (Bytes × Bytes)

def dicSet : Dic → Bytes → Bytes → Dic
  | [], k, v => [(k, v)]
  | (k', v') :: t, k, v =>
    if k' = k then (k, v) :: t
    else if ltBytes k k' then (k, v) :: (k', v') :: t
    else (k', v') :: dicSet t k v

def dicGet : Dic → Bytes → Option Bytes
  | [], _ => none
  | (k', v') :: t, k => if k' = k then some v' else dicGet t k

def dicRemove : Dic → Bytes → Dic
  | [], _ => []
  | (k', v') :: t, k => if k' = k then t else (k', v') :: dicRemove t k

def dicOfList (l : List (Bytes × Bytes)) : Dic := l.foldl (fun d kv => dicSet d kv.1 kv.2) []

/-- `HttpMessage::setHeader` -/
def setHeader (h : Dic) (name value : Bytes) : Dic :=
  let cname := capitalized name
  if value.isEmpty then dicRemove h cname else dicSet h cname value

/-- how `readHeaders` stores a received header line: `_headers[capitalized(name)] = value`, an empty value included -/
def storeHeader (h : Dic) (name value : Bytes) : Dic := dicSet h (capitalized name) value

/-- `HttpMessage::header` (empty when absent) -/
def header (h : Dic) (name : Bytes) : Bytes := (dicGet h (capitalized name)).getD []

def hasHeader (h : Dic) (name : Bytes) : Bool := (dicGet h (capitalized name)).isSome

def sContentLength : Bytes := [67, 111, 110, 116, 101, 110, 116, 45, 76, 101, 110, 103, 116, 104]
def sTransferEncoding : Bytes := [84, 114, 97, 110, 115, 102, 101, 114, 45, 69, 110, 99, 111, 100, 105, 110, 103]
def sChunked : Bytes := [99, 104, 117, 110, 107, 101, 100]
def sConnection : Bytes := [67, 111, 110, 110, 101, 99, 116, 105, 111, 110]
def sKeepAlive : Bytes := [107, 101, 101, 112, 45, 97, 108, 105, 118, 101]
def sClose : Bytes := [99, 108, 111, 115, 101]
def sContentRange : Bytes := [67, 111, 110, 116, 101, 110, 116, 45, 82, 97, 110, 103, 101]
def sContentType : Bytes := [67, 111, 110, 116, 101, 110, 116, 45, 84, 121, 112, 101]
def sRange : Bytes := [82, 97, 110, 103, 101]
def sLocation : Bytes := [76, 111, 99, 97, 116, 105, 111, 110]
def sHttp11 : Bytes := [72, 84, 84, 80, 47, 49, 46, 49]
def sHttp10 : Bytes := [72, 84, 84, 80, 47, 49, 46, 48]

/-! ## the sender -/

structure Msg where
  command : Bytes
  headers : Dic
  body : Bytes
deriving Repr, DecidableEq, Inhabited

def headerLines : Dic → Bytes
  | [] => []
  | (n, v) :: t => n ++ [58, 32] ++ v ++ crlf ++ headerLines t

/-- the text `sendHeaders()` writes -/
def headerBlock (command : Bytes) (h : Dic) : Bytes := command ++ crlf ++ headerLines h ++ crlf

/-- `String::split(char)` with a one-byte separator -/
def splitByte (sep : UInt8) (s : Bytes) : List Bytes :=
  let r := s.foldr (fun c (acc : Bytes × List Bytes) =>
      if c == sep then ([], acc.1 :: acc.2) else (c :: acc.1, acc.2)) ([], [])
  r.1 :: r.2

/-- `readBody`: the body is chunked when the last transfer coding is `chunked`, names compared without regard to case -/
def teChunked (te : Bytes) : Bool :=
  trimmed ((splitByte 44 (lowerAscii te)).getLast?.getD []) == sChunked

/-- `sendHeaders` (07183e2): a message whose last transfer coding is `chunked` is framed by its chunks alone, a
Content-Length that `put()`, `putFile()` or the owner set is removed before the header block goes out -/
def sentHeaders (h : Dic) : Dic :=
  if teChunked (header h sTransferEncoding) then setHeader h sContentLength [] else h

/-- `_chunked = !header("Content-Length").ok()` -/
def isChunked (h : Dic) : Bool := (header h sContentLength).isEmpty

/-- one block of `write(buffer,n)`'s loop -/
def frameBlock (chunked : Bool) (p : Bytes) : Bytes :=
  if chunked then hexLower p.length ++ crlf ++ p ++ crlf else p

/-- the `while (n > 0)` loop of `HttpMessage::write(buffer, n)` with block size `blk` -/
def writeLoop (chunked : Bool) (blk : Nat) : Nat → Bytes → Bytes
  | 0, _ => []
  | f + 1, b =>
    if b.isEmpty then [] else
    let m := min b.length blk
    frameBlock chunked (b.take m) ++ writeLoop chunked blk f (b.drop m)

/-- bytes put on the wire by one call `write(buffer, n)` after the headers were sent -/
def writeBody (chunked : Bool) (blk : Nat) (b : Bytes) : Bytes := writeLoop chunked blk b.length b

/-- `writeFile`: the file is read in blocks of `rblk` bytes, each handed to `write(buf, n)` -/
def writeFileLoop (chunked : Bool) (blk rblk : Nat) : Nat → Bytes → Bytes
  | 0, _ => []
  | f + 1, b =>
    if b.isEmpty then [] else
    let m := min b.length rblk
    writeBody chunked blk (b.take m) ++ writeFileLoop chunked blk rblk f (b.drop m)

def writeFile (chunked : Bool) (blk rblk : Nat) (content : Bytes) : Bytes :=
  writeFileLoop chunked blk rblk content.length content

/-- `HttpMessage::write()` of a message whose body is in memory: headers, then the body -/
def lastChunk : Bytes := [48, 13, 10, 13, 10]

/-- the last chunk with which `write()` / `putFile()` end a chunked message they wrote as a whole (c720b96) -/
def endOf (h : Dic) : Bytes := if teChunked (header h sTransferEncoding) then lastChunk else []

def serializeWith (blk : Nat) (m : Msg) : Bytes :=
  headerBlock m.command (sentHeaders m.headers) ++ writeBody (isChunked (sentHeaders m.headers)) blk m.body ++ endOf m.headers

def serialize (m : Msg) : Bytes := serializeWith sendBlock m

/-- `putFile` writing a message as a whole: the headers, the file in `rblk`-byte reads, the last chunk of a chunked message -/
def serializeFile (blk rblk : Nat) (command : Bytes) (h : Dic) (content : Bytes) : Bytes :=
  headerBlock command (sentHeaders h) ++ writeFile (isChunked (sentHeaders h)) blk rblk content ++ endOf h

/-! ## the connection as the reader sees it -/

structure Inp where
  data : Bytes        -- bytes not yet consumed; after them EOF
  pos : Nat           -- bytes consumed so far
  cuts : List Nat     -- absolute offsets where the peer's sends were cut
  closed : Bool       -- `_socket->close()` was called
  err : Bool          -- the socket's error flag (a read met EOF, or a line was too long)
deriving Repr, Inhabited

def Inp.ofBytes (d : Bytes) (cuts : List Nat := []) : Inp := { data := d, pos := 0, cuts := cuts, closed := false, err := false }

def Inp.advance (i : Inp) (k : Nat) : Inp := { i with data := i.data.drop k, pos := i.pos + k }

def Inp.dead (i : Inp) : Bool := i.closed || i.err

/-- `available()`: what has arrived and was not consumed — up to the next cut (at least one byte if any is left) -/
def Inp.available (i : Inp) : Nat :=
  match i.cuts.find? (fun c => c > i.pos) with
  | some c => min (c - i.pos) i.data.length
  | none => i.data.length

/-- `Socket_::readLine` loop: bytes up to LF (not included).  `n` = bytes consumed so far (= length of the line
while no error).  Result: the line (`none` = SOCKET_BAD_LINE, more than 16001 bytes), the rest, the number of bytes
consumed, and whether EOF was met before LF -/
def readLineLoop : Nat → Bytes → Bytes → Option Bytes × Bytes × Nat × Bool
  | n, acc, [] => (some acc.reverse, [], n, true)
  | n, acc, c :: t =>
    if c == 10 then (some acc.reverse, t, n + 1, false)
    else if n > 16000 then (none, t, n + 1, false)
    else readLineLoop (n + 1) (c :: acc) t

def readLine (i : Inp) : Option Bytes × Inp :=
  if i.dead then (some [], i) else
  match readLineLoop 0 [] i.data with
  | (some l, rest, used, eof) => (some l, { i with data := rest, pos := i.pos + used, err := eof })
  | (none, rest, used, _) => (none, { i with data := rest, pos := i.pos + used, err := true })

/-- `HttpMessage::readHeaders` -/
def readHeadersLoop : Nat → Inp → Dic → Bytes → Bytes → Dic × Inp
  | 0, i, h, _, _ => (h, i)
  | f + 1, i, h, name, value =>
    match readLine i with
    | (none, i') => (h, { i' with closed := true })
    | (some line, i') =>
      if line = [13] then (h, i')
      else if cIsSpace (line.headD 0) then
        -- continuation line (obs-fold): joined to the value with one blank; a blank continuation changes nothing;
        -- before any field there is nothing to continue: the block ends there, the connection is given up (c2e6d14)
        if name.isEmpty then (h, { i' with closed := true }) else
        let more := trimmed line
        if more.isEmpty then readHeadersLoop f i' h name value
        else
          let value' := if value.isEmpty then more else value ++ [32] ++ more
          readHeadersLoop f i' (storeHeader h name value') name value'
      else
        let l := trimmed line
        match indexOfByte 58 l with
        | none => (h, { i' with closed := true })
        | some k =>
          let name' := l.take k
          -- a field name is a token: empty, or with a blank, a control character or DEL in it ("Content-Length : 5"),
          -- the line ends the header block like a line without colon (9bf376e)
          if k = 0 ∨ name'.all (fun c => decide (32 < c) && c != 127) = false then (h, { i' with closed := true })
          else
          let value' := trimmed (l.drop (k + 1))
          readHeadersLoop f i' (storeHeader h name' value') name' value'

def readHeaders (i : Inp) (h : Dic) : Dic × Inp := readHeadersLoop (i.data.length + 1) i h [] []

/-- the inner `while (maxToRead > 0)` loop of `readBody`; result: chunks read (reversed), connection, remaining
`size`, and whether the function returned from inside -/
def readInner (rblk : Nat) : Nat → Inp → Nat → Nat → List Bytes → List Bytes × Inp × Nat × Bool
  | 0, i, _, size, acc => (acc, i, size, false)
  | f + 1, i, m, size, acc =>
    if m = 0 then (acc, i, size, false) else
    let k := min m rblk
    let got := i.data.take k
    if got.isEmpty then (acc, { i with err := true }, size, true) else
    let i' := { (i.advance got.length) with err := got.length < k }
    let acc' := got :: acc
    let m' := m - got.length
    if size > 0 then
      if size ≤ got.length then (acc', i', 0, true)
      else readInner rblk f i' m' (size - got.length) acc'
    else readInner rblk f i' m' size acc'

/-- `readBody` with `Content-Length` (not chunked): the `while (!end)` loop -/
def readLenLoop (rblk : Nat) : Nat → Inp → Nat → List Bytes → List Bytes × Inp
  | 0, i, _, acc => (acc, i)
  | f + 1, i, size, acc =>
    if i.dead then (acc, i) else
    let av := i.available
    let m := if av = 0 then 1 else av
    let m := if size > 0 ∧ m > size then size else m
    match readInner rblk (m + 1) i m size acc with
    | (acc', i', _, true) => (acc', i')
    | (acc', i', size', false) => readLenLoop rblk f i' size' acc'

/-- the chunk-size line check of `readBody`: 1 to 8 hex digits, then optional blanks, then the CR of the line end or a
`;extension`, and a value that fits an `int` -/
def chunkLineValid (line : Bytes) : Bool :=
  let nd := (line.takeWhile (fun c => (hexVal c).isSome)).length
  let after := (line.drop nd).dropWhile (fun c => c == 32 || c == 9)
  decide (1 ≤ nd ∧ nd ≤ 8) && (after.head? == some 13 || after.head? == some 59) && decide (hexToInt line ≤ 2147483647)

/-- `readBody` with `Transfer-Encoding: chunked` -/
def readChunkedLoop (rblk : Nat) : Nat → Inp → Nat → List Bytes → List Bytes × Inp
  | 0, i, _, acc => (acc, i)
  | f + 1, i, size, acc =>
    if i.dead then (acc, i) else
    match readLine i with
    | (none, i1) => (acc, { i1 with closed := true })       -- "" is no chunk-size line: the connection is given up
    | (some line, i1) =>
      if !chunkLineValid line then (acc, { i1 with closed := true })
      else
      let m := hexToInt line
      match readInner rblk (m + 1) i1 m size acc with
      | (acc', i2, _, true) => (acc', i2)
      | (acc', i2, size', false) =>
        let two := i2.data.take 2
        let i3 := { (i2.advance two.length) with err := i2.err || two.length < 2 }
        if two.length < 2 then (acc', i3)
        else if two != [13, 10] then (acc', { i3 with closed := true })   -- no CRLF after the chunk data: the framing is lost
        else if m = 0 then (acc', i3)
        else readChunkedLoop rblk f i3 size' acc'

/-- the Content-Length check of `readBody`: 1 to 10 decimal digits whose value fits an `int` -/
def clValid (cl : Bytes) : Bool :=
  decide (1 ≤ cl.length ∧ cl.length ≤ 10) && cl.all (fun c => decide (48 ≤ c ∧ c ≤ 57)) && decide (digitLoop cl 0 ≤ 2147483647)

/-- `HttpMessage::readBody` -/
def readBodyWith (rblk : Nat) (h : Dic) (i : Inp) : Bytes × Inp :=
  let cl := header h sContentLength
  let chunked := teChunked (header h sTransferEncoding)
  if hasHeader h sContentLength ∧ ¬ clValid cl then
    -- a length with a sign, other characters or too many digits: the framing is unknown, the connection is given up
    ([], { i with closed := true })
  else if chunked then
    -- Transfer-Encoding overrides Content-Length: the chunks alone frame the body (`size = 0`)
    let r := readChunkedLoop rblk (i.data.length + 1) i 0 []
    (r.1.reverse.flatten, r.2)
  else if hasHeader h sContentLength then
    if atoi cl = 0 then ([], i)            -- "0", "00", ...: no body
    else
      let r := readLenLoop rblk (i.data.length + 1) i (atoi cl) []
      (r.1.reverse.flatten, r.2)
  else ([], i)

def readBody (h : Dic) (i : Inp) : Bytes × Inp := readBodyWith recvBlock h i

/-! ## `HttpRequest::read` -/

def indexOfFrom (c : UInt8) (s : Bytes) (from_ : Nat) : Option Nat :=
  (indexOfByte c (s.drop from_)).map (· + from_)

/-- `String::fix()` : cut at the first NUL -/
def fixNul (s : Bytes) : Bytes := s.takeWhile (· != 0)

/-- leftmost non-overlapping removal of `..` (`replace("..", "")`) -/
def rmDotDot : Bytes → Bytes
  | 46 :: 46 :: t => rmDotDot t
  | c :: t => c :: rmDotDot t
  | [] => []

/-- `Url::parseQuery` -/
def parseQuery (q : Bytes) : Dic :=
  let q := q.map fun c => if c == 43 then 32 else c
  let pairs := (splitByte 38 q).foldl (fun (d : Dic) p =>
    match indexOfByte 61 p with
    | some j => if j > 0 then dicSet d (p.take j) (p.drop (j + 1)) else d
    | none => d) []
  pairs.foldl (fun d kv => dicSet d (Codec.urlDecode kv.1) (Codec.urlDecode kv.2)) []

structure Request where
  method : Bytes
  resource : Bytes
  proto : Bytes
  headers : Dic
  body : Bytes
  path : Bytes
  querystring : Bytes
  fragment : Bytes
deriving Repr, DecidableEq, Inhabited

def emptyRequest : Request := { method := [], resource := [], proto := [], headers := [], body := [], path := [], querystring := [], fragment := [] }

/-- target → (path, querystring, fragment) as in `HttpRequest::read` -/
def splitTarget (res : Bytes) : Bytes × Bytes × Bytes :=
  let n := res.length
  let h := indexOfByte 35 res
  let hpos := match h with
    | some k => if k > 0 then some k else none
    | none => none
  let pathend := hpos.getD n
  let fragment := match hpos with
    | some k => res.drop (k + 1)
    | none => []
  let q := indexOfByte 63 res
  let (qs, pathend) := match q with
    | some k => if k > 0 ∧ k < pathend then ((res.drop (k + 1)).take (pathend - (k + 1)), k) else ([], pathend)
    | none => ([], pathend)
  let p := fixNul (Codec.urlDecode (res.take pathend))
  let p := rmDotDot p
  (p, qs, fragment)

/-- `HttpRequest::read` on a connection; `interim` is what the server writes back while reading (`Expect`) -/
def readRequest (i : Inp) : Request × Inp :=
  match readLine i with
  | (none, i1) => (emptyRequest, i1)
  | (some cmd, i1) =>
    if cmd.isEmpty ∨ i1.err then (emptyRequest, i1) else
    match indexOfByte 32 cmd with
    | none => (emptyRequest, i1)
    | some a =>
      match indexOfFrom 32 cmd (a + 1) with
      | none => (emptyRequest, i1)
      | some b =>
        let method := cmd.take a
        let res := (cmd.drop (a + 1)).take (b - (a + 1))
        let proto := trimmed (cmd.drop (b + 1))
        let (h, i2) := readHeaders i1 []
        if hasHeader h sTransferEncoding ∧ teChunked (header h sTransferEncoding) = false then
          -- a Transfer-Encoding whose last coding is not chunked: the length cannot be known, the connection is given up
          -- before anything else is done (4dff910); the request has no path and is not dispatched
          ({ method := method, resource := res, proto := proto, headers := h, body := [],
             path := [], querystring := [], fragment := [] }, { i2 with closed := true })
        else
        let (body, i3) := readBody h i2
        let (p, qs, fr) := splitTarget res
        ({ method := method, resource := res, proto := proto, headers := h, body := body,
           path := p, querystring := qs, fragment := fr }, i3)

/-- the test of `HttpServer::serve(Socket)` that lets a request reach the handler -/
def Request.valid (q : Request) : Bool := !q.method.isEmpty && !q.path.isEmpty && !q.proto.isEmpty

/-! ## the status line and the response as read by `Http::request` -/

/-- `String::split()` on blanks -/
def splitWs (s : Bytes) : List Bytes :=
  let r := s.foldr (fun c (acc : Bytes × List Bytes) =>
      if isSpace c then ([], if acc.1.isEmpty then acc.2 else acc.1 :: acc.2) else (c :: acc.1, acc.2)) ([], [])
  if r.1.isEmpty then r.2 else r.1 :: r.2

structure Response where
  code : Nat
  proto : Bytes
  headers : Dic
  body : Bytes
  sockError : Bytes
deriving Repr, DecidableEq, Inhabited

def sBadRecv : Bytes := [83, 79, 67, 75, 69, 84, 95, 66, 65, 68, 95, 82, 69, 67, 86]   -- SOCKET_BAD_RECV
def sOK : Bytes := [79, 75]
def sBadData : Bytes := [83, 79, 67, 75, 69, 84, 95, 66, 65, 68, 95, 68, 65, 84, 65]   -- SOCKET_BAD_DATA

/-- status line, headers (no redirect handling here) -/
def readResponseHead (i : Inp) : Option (Nat × Bytes × Dic × Inp) :=
  match readLine i with
  | (none, _) => none
  | (some line, i1) =>
    if line.isEmpty then none else
    match splitWs line with
    | proto :: code :: _ =>
      let (h, i2) := readHeaders i1 []
      some (atoi code, proto, h, i2)
    | _ => none

/-- the `while (response.code() == 100)` loop of `Http::request`: an interim `100 Continue` (the server's answer to
`Expect: 100-continue`) is followed by the final status line and headers, read into the same response object.
`none`: the line after the interim response is missing or short (code 0, socket error text) -/
def skipContinue : Nat → Nat × Bytes × Dic × Inp → Option (Nat × Bytes × Dic × Inp)
  | 0, r => some r
  | f + 1, (code, proto, h, i) =>
    if code = 100 then
      match readLine i with
      | (none, _) => none
      | (some line, i1) =>
        match splitWs line with
        | proto' :: code' :: _ =>
          let (h', i2) := readHeaders i1 h
          if i2.closed then some (atoi code', proto', h', i2)      -- the block was refused: `Http::request` stops here
          else skipContinue f (atoi code', proto', h', i2)
        | _ => none
    else some (code, proto, h, i)

def readResponse (i : Inp) : Response × Inp :=
  match readResponseHead i with
  | none => ({ code := 0, proto := sHttp11, headers := [], body := [], sockError := if (readLine i).2.err then sBadRecv else sOK }, i)
  | some (code, proto, h, i2) =>
    -- a header block the reader refused (the socket was closed on it) is no response: code 0, SOCKET_BAD_DATA (9f1c7c1)
    if i2.closed then ({ code := 0, proto := proto, headers := h, body := [], sockError := sBadData }, i2) else
    match skipContinue (i2.data.length + 1) (code, proto, h, i2) with
    | none => ({ code := 0, proto := proto, headers := h, body := [], sockError := if i2.data.isEmpty then sBadRecv else sOK }, i2)
    | some (code, proto, h, i2) =>
      if i2.closed then ({ code := 0, proto := proto, headers := h, body := [], sockError := sBadData }, i2) else
      let (body, i3) := readBody h i2
      ({ code := code, proto := proto, headers := h, body := body, sockError := [] }, i3)

/-! ## `Http::request`: what the client puts on the wire -/

/-- the message `Http::request` sends for a request with in-memory body: `Content-Length` when the body is not empty,
request line with the `Host` line folded into the command -/
def clientMsg (method path host : Bytes) (port : Nat) (hasPort : Bool) (h : Dic) (body : Bytes) : Msg :=
  let h := if body.length ≠ 0 then setHeader h sContentLength (utoa body.length) else h
  let title := method ++ [32] ++ path ++ [32] ++ sHttp11 ++ crlf ++ [72, 111, 115, 116, 58, 32] ++ host
  let title := if hasPort then title ++ [58] ++ utoa port else title
  { command := title, headers := h, body := body }

/-- `Http::request` for a request whose last transfer coding is `chunked` (after a376a88): no Content-Length, the body in
chunks of the send block, then the last chunk -/
def clientChunkedHeaders (h : Dic) : Dic := setHeader h sContentLength []

def clientCommand (method path host : Bytes) (port : Nat) : Bytes :=
  method ++ [32] ++ path ++ [32] ++ sHttp11 ++ crlf ++ [72, 111, 115, 116, 58, 32] ++ host ++ [58] ++ utoa port

/-- what the client puts on the wire for an in-memory body: chunk-framed when the headers ask for it, by length otherwise -/
def clientSend (method path host : Bytes) (port : Nat) (h : Dic) (body : Bytes) : Dic × Bytes :=
  if teChunked (header h sTransferEncoding) then
    let h' := clientChunkedHeaders h
    (h', serializeWith sendBlock { command := clientCommand method path host port, headers := h', body := body })
  else
    let m := clientMsg method path host port true h body
    (m.headers, serialize m)

/-- the same for a file body (`putFile` / `writeFile`: 16000-byte reads) -/
def clientSendFile (method path host : Bytes) (port : Nat) (h : Dic) (content : Bytes) : Dic × Bytes :=
  if teChunked (header h sTransferEncoding) then
    let h' := clientChunkedHeaders h
    (h', serializeFile sendBlock recvBlock (clientCommand method path host port) h' content)
  else
    let h' := setHeader h sContentLength (utoa content.length)
    (h', serializeFile sendBlock recvBlock (clientCommand method path host port) h' content)

/-! ## `HttpResponse::setCode`, `HttpServer::serve(Socket)` post-processing, `putFile` -/

def codeMsg (code : Nat) : Bytes :=
  if code = 200 then [79, 75]
  else if code = 404 then [78, 111, 116, 32, 70, 111, 117, 110, 100]
  else if code = 206 then [80, 97, 114, 116, 105, 97, 108, 32, 67, 111, 110, 116, 101, 110, 116]
  else if code ≥ 500 then [83, 101, 114, 118, 101, 114, 32, 101, 114, 114, 111, 114]
  else if code ≥ 400 then [82, 101, 113, 117, 101, 115, 116, 32, 101, 114, 114, 111, 114]
  else if code ≥ 300 then [82, 101, 100, 105, 114, 101, 99, 116]
  else [79, 75]

def statusLine (proto : Bytes) (code : Nat) : Bytes := proto ++ [32] ++ utoa code ++ [32] ++ codeMsg code

/-- a status whose message never has a body (RFC 7230 3.3.3): its header block is the whole message -/
def bodyless (code : Nat) : Bool := code < 200 || code == 204 || code == 304

/-- a response that names neither a length nor a coding when its headers go out (written in pieces) -/
def unframed (h : Dic) : Bool := !hasHeader h sContentLength && !hasHeader h sTransferEncoding

/-- whether `sendHeaders` chooses the chunked coding itself (75c75d0, 3e98c13): an unframed response with a status that can
have a body, not to an HTTP/1.0 request; the library then announces the coding and ends the message -/
def ownChunks (proto : Bytes) (code : Nat) (h : Dic) : Bool := unframed h && !bodyless code && proto != sHttp10

/-- the same to an HTTP/1.0 request (687f097): the pieces go out as they are under `Connection: close` and the library ends
the message by closing the connection -/
def endByClose (proto : Bytes) (code : Nat) (h : Dic) : Bool := unframed h && !bodyless code && proto == sHttp10

/-- the header block `sendHeaders` emits for a response written in pieces -/
def streamHeaders (proto : Bytes) (code : Nat) (h : Dic) : Dic :=
  if ownChunks proto code h then setHeader h sTransferEncoding sChunked
  else if endByClose proto code h then setHeader h sConnection sClose
  else sentHeaders h

/-- a handler streaming `parts` through `write(part)` one after the other (headers first); `fin`: the handler ends the
stream by hand; a stream whose chunking was the library's choice is ended by the library (the server's closing `write()`
or `putFile()`) -/
def serializeStream (blk : Nat) (proto : Bytes) (code : Nat) (h : Dic) (parts : List Bytes) (fin : Bool) : Bytes :=
  let hs := streamHeaders proto code h
  headerBlock (statusLine proto code) hs ++ (parts.map (writeBody (isChunked hs && !endByClose proto code h) blk)).flatten ++
    (if fin || ownChunks proto code h then lastChunk else [])


/-- outcome of `putFile(path, begin, end)` for a file of `n` bytes when a range was asked:
`some (b, e)` = bytes b..e are announced and sent, `none` = unsatisfiable (`bytes */n`) -/
def rangeOf (n : Nat) (b e : Int) : Option (Nat × Nat) :=
  -- a last position at or past the end of the file means "to the end" (37f2453), as does `end = 0`
  let e' : Int := if e = 0 ∨ e ≥ (n : Int) then (n : Int) - 1 else e
  if e' < b ∨ b < 0 then none else some (b.toNat, e'.toNat)

/-- bytes `writeFile(path, begin, end)` reads from the file -/
def fileSlice (content : Bytes) (b e : Nat) : Bytes :=
  if b ≠ e ∨ b > 0 then (content.drop b).take (e - b + 1) else content.drop b

/-- `bytes=-k` on a file of `n` bytes: the arguments `serve()` gives to `putFile` (the last `k` bytes, all of the file when
it is shorter; nothing asked for or nothing there: an empty, unsatisfiable range) -/
def suffixRange (n k : Nat) : Int × Int :=
  (if k ≥ n then 0 else (n : Int) - k, if k = 0 ∨ n = 0 then -1 else (n : Int) - 1)

/-- a position that does not fit an `int` is beyond any file served: clamped, not taken modulo 2^32 -/
def clampPos (v : Nat) : Int := if v > 2147483647 then 2147483647 else v

/-- the `Range` header text after `bytes=` → `putFile`'s (begin, end); `end = 0` stands for "to the end" -/
def rangeArgs (n : Nat) (spec : Bytes) : Int × Int :=
  let parts := splitByte 45 spec
  -- more than 18 characters do not fit a Long: such a position is beyond any file (6971ba6)
  let posOf (x : Bytes) : Nat := if x.length > 18 then 2147483647 else atoi x
  let first := match parts with
    | x :: _ => posOf x
    | [] => 0
  let last := match parts with
    | _ :: y :: _ => posOf y
    | _ => 0
  match parts with
  | x :: _ :: _ => if x.isEmpty then suffixRange n last else (clampPos first, clampPos last)
  | _ => (clampPos first, clampPos last)

def contentRangeText (b e n : Nat) : Bytes :=
  [98, 121, 116, 101, 115, 32] ++ utoa b ++ [45] ++ utoa e ++ [47] ++ utoa n

def contentRangeStar (n : Nat) : Bytes := [98, 121, 116, 101, 115, 32, 42, 47] ++ utoa n

/-! ## redirections followed by `Http::request` -/

/-- the status codes `Http::request` follows when asked to -/
def isRedirectCode (c : Nat) : Bool := c == 301 || c == 302 || c == 307 || c == 308

/-- `Http::request`: a redirection is followed when it names a target (9644a87); else it is the response -/
def followsRedirect (follow : Bool) (code : Nat) (h : Dic) : Bool :=
  follow && !(header h sLocation).isEmpty && isRedirectCode code

def startsWith' (s p : Bytes) : Bool := s.take p.length == p

def isSchemeChar (c : UInt8) : Bool :=
  (48 ≤ c && c ≤ 57) || (65 ≤ c && c ≤ 90) || (97 ≤ c && c ≤ 122) || c == 43 || c == 45 || c == 46

/-- index of the first `://` -/
def findSchemeSep : Bytes → Nat → Option Nat
  | 58 :: 47 :: 47 :: _, i => some i
  | _ :: t, i => findSchemeSep t (i + 1)
  | [], _ => none

/-- the loop of `resolveLocation` over the segments after the leading `/`: `.` and `..` are removed (RFC 3986 5.2.4) -/
def removeDots : List Bytes → List Bytes → List Bytes
  | [], out => out
  | seg :: rest, out =>
    let last := rest.isEmpty
    if seg = [46, 46] then
      let out := out.dropLast
      removeDots rest (if last then out ++ [[]] else out)
    else if seg = [46] then removeDots rest (if last then out ++ [[]] else out)
    else removeDots rest (out ++ [seg])

def joinSlash : List Bytes → Bytes
  | [] => []
  | [x] => x
  | x :: t => x ++ [47] ++ joinSlash t

/-- `resolveLocation(base, loc)` (7920316): the target of a redirection — `loc` itself when it has a scheme, else resolved
against the request's URL `base` (RFC 3986 5.2) -/
def resolveLocation (base loc : Bytes) : Bytes :=
  let k := (loc.takeWhile isSchemeChar).length
  if k > 0 ∧ loc[k]? = some 58 then loc else
  let s := match findSchemeSep base 0 with
    | some v => if v > 0 then some v else none
    | none => none
  if startsWith' loc [47, 47] then (match s with | some v => base.take (v + 1) | none => []) ++ loc else
  let p := indexOfFrom 47 base (match s with | some v => v + 3 | none => 0)
  let root := match p with
    | some p => base.take p
    | none => base
  let path := match p with
    | some p => base.drop p
    | none => [47]
  let path := path.takeWhile (fun c => c != 0 && c != 35)
  if loc.head? = some 35 ∨ loc.isEmpty then root ++ path ++ loc else       -- the same document: path and query stay (7f2fd90)
  let path := path.takeWhile (fun c => c != 0 && c != 63)                 -- the path of the request without its query
  if loc.head? = some 63 then root ++ path ++ loc else
  let e := (loc.takeWhile (fun c => c != 0 && c != 63 && c != 35)).length
  let dir := path.take (path.length - (path.reverse.takeWhile (· != 47)).length)   -- up to and including the last '/'
  let dir := if path.contains 47 then dir else []
  let merged := if loc.head? = some 47 then loc.take e else dir ++ loc.take e
  root ++ [47] ++ joinSlash (removeDots ((splitByte 47 merged).drop 1) []) ++ loc.drop e

/-! ## `Socket_::write` / `Socket_::read` (src/Socket.cpp): blocking loops over partial transfers

The operating system's answers are a schedule: the k-th `send` accepts `clamp (sched k)` bytes of what it is offered, the
k-th `read` returns `clamp (sched k)` of the bytes that are there (at least one byte, at most what is asked / present;
an exhausted schedule means "everything").  `read` at EOF returns 0. -/

def clampXfer (want : Option Nat) (limit : Nat) : Nat :=
  match want with
  | some w => min (max 1 w) limit
  | none => limit

/-- `Socket_::write(data, size)`: returns (bytes handed to the OS in order, return value) -/
def sockWriteLoop : Nat → List Nat → Bytes → Bytes × Nat → Bytes × Nat
  | 0, _, _, acc => acc
  | f + 1, sched, data, (out, s) =>
    if data.isEmpty then (out, s) else
    let n := clampXfer sched.head? data.length
    let acc' := (out ++ data.take n, s + n)
    if (data.drop n).isEmpty then acc' else sockWriteLoop f sched.tail (data.drop n) acc'

def sockWrite (sched : List Nat) (data : Bytes) : Bytes × Nat :=
  if data.isEmpty then ([], 0) else sockWriteLoop data.length sched data ([], 0)

/-- `Socket_::read(data, size)` in blocking mode on the incoming stream `inc`: (bytes stored, return value, error flag) -/
def sockReadLoop : Nat → List Nat → Bytes → Nat → Bytes → Bytes × Bool
  | 0, _, _, _, out => (out, false)
  | f + 1, sched, inc, size, out =>
    if inc.isEmpty then (out, true)                 -- read() returned 0: SOCKET_BAD_RECV
    else
      let n := clampXfer sched.head? (min size inc.length)
      let out' := out ++ inc.take n
      if size - n = 0 then (out', false) else sockReadLoop f sched.tail (inc.drop n) (size - n) out'

def sockRead (sched : List Nat) (inc : Bytes) (size : Nat) : Bytes × Bool :=
  if size = 0 then ([], false) else sockReadLoop size sched inc size []     -- `if (size <= 0) return 0;` (8331f50): nothing read, no error

/-! ## `HttpServer::serve(Socket)` around the handler, and `Http::request` around the exchange -/

def sMoved : Bytes := [109, 111, 118, 101, 100]   -- moved
def sNotFound : Bytes := [78, 111, 116, 32, 102, 111, 117, 110, 100]   -- Not found
def sTextPlain : Bytes := [116, 101, 120, 116, 47, 112, 108, 97, 105, 110]   -- text/plain

/-- `if (!response.hasHeader(name)) response.setHeader(name, value)` -/
def fillAbsent (h : Dic) (name value : Bytes) : Dic := if hasHeader h name then h else setHeader h name value

inductive Kind where
  | none
  | bytes (b : Bytes)                         -- `put(ByteArray)` / `put(String)`
  | json                                      -- `put(Var)`: body not modelled (C05), only the headers
  | file (content : Bytes) (ext : Bytes)      -- `put(File)`
  | stream (parts : List Bytes) (fin : Bool)  -- `write(part)` repeatedly, then the last chunk by hand
  | redirect (loc : Bytes) (b : Bytes)        -- `Location` unless the request target is `loc`
  | streamAuto (parts : List Bytes)           -- `write(part)` repeatedly with no framing header set: the library announces and ends the chunks
  | streamFile (pre : Bytes) (content : Bytes) -- `write(pre)` (or `sendHeaders()` alone when empty), then `put(File)`: the server's file branch runs behind the headers
  | missing                                   -- `put(File)` of a file that does not exist
  | redirectRel (loc rel : Bytes) (b : Bytes) -- `Location: rel` verbatim (none when empty) and a 5-byte body, unless the request target is `loc`
deriving Repr, Inhabited

structure Plan where
  code : Nat
  headers : List (Bytes × Bytes)
  kind : Kind
deriving Repr, Inhabited

def sMethods : Bytes := [71, 69, 84, 44, 32, 80, 79, 83, 84, 44, 32, 79, 80, 84, 73, 79, 78, 83, 44, 32, 80, 85, 84, 44, 32, 68, 69, 76, 69, 84, 69, 44, 32, 80, 65, 84, 67, 72, 44, 32, 72, 69, 65, 68]
def sAllow : Bytes := [65, 108, 108, 111, 119]
def sOrigin : Bytes := [79, 114, 105, 103, 105, 110]
def sACRH : Bytes := [65, 99, 99, 101, 115, 115, 45, 67, 111, 110, 116, 114, 111, 108, 45, 82, 101, 113, 117, 101, 115, 116, 45, 72, 101, 97, 100, 101, 114, 115]
def sACAH : Bytes := [65, 99, 99, 101, 115, 115, 45, 67, 111, 110, 116, 114, 111, 108, 45, 65, 108, 108, 111, 119, 45, 72, 101, 97, 100, 101, 114, 115]
def sACAM : Bytes := [65, 99, 99, 101, 115, 115, 45, 67, 111, 110, 116, 114, 111, 108, 45, 65, 108, 108, 111, 119, 45, 77, 101, 116, 104, 111, 100, 115]
def sOPTIONS : Bytes := [79, 80, 84, 73, 79, 78, 83]
def sDate : Bytes := [68, 97, 116, 101]
def sCacheControl : Bytes := [67, 97, 99, 104, 101, 45, 67, 111, 110, 116, 114, 111, 108]
def sCacheValue : Bytes := [109, 97, 120, 45, 97, 103, 101, 61, 54, 48, 44, 32, 112, 117, 98, 108, 105, 99]
def sAppJson : Bytes := [97, 112, 112, 108, 105, 99, 97, 116, 105, 111, 110, 47, 106, 115, 111, 110]
def sBytesEq : Bytes := [98, 121, 116, 101, 115, 61]
def sStar : Bytes := [42]

/-- extension → mime type (the table of the HttpServer constructor) -/
def mimeTable : List (Bytes × Bytes) :=
  [([99, 115, 115], [116, 101, 120, 116, 47, 99, 115, 115]),
   ([103, 105, 102], [105, 109, 97, 103, 101, 47, 103, 105, 102]),
   ([104, 116, 109], [116, 101, 120, 116, 47, 104, 116, 109, 108]),
   ([104, 116, 109, 108], [116, 101, 120, 116, 47, 104, 116, 109, 108]),
   ([106, 112, 101, 103], [105, 109, 97, 103, 101, 47, 106, 112, 101, 103]),
   ([106, 112, 103], [105, 109, 97, 103, 101, 47, 106, 112, 101, 103]),
   ([106, 115], [97, 112, 112, 108, 105, 99, 97, 116, 105, 111, 110, 47, 106, 97, 118, 97, 115, 99, 114, 105, 112, 116]),
   ([106, 115, 111, 110], [97, 112, 112, 108, 105, 99, 97, 116, 105, 111, 110, 47, 106, 115, 111, 110]),
   ([112, 110, 103], [105, 109, 97, 103, 101, 47, 112, 110, 103]),
   ([116, 120, 116], [116, 101, 120, 116, 47, 112, 108, 97, 105, 110]),
   ([109, 112, 52], [118, 105, 100, 101, 111, 47, 109, 112, 52]),
   ([111, 103, 118], [118, 105, 100, 101, 111, 47, 111, 103, 103]),
   ([119, 101, 98, 109], [118, 105, 100, 101, 111, 47, 119, 101, 98, 109]),
   ([120, 109, 108], [116, 101, 120, 116, 47, 120, 109, 108])]

def mimeOf (ext : Bytes) : Bytes := (dicGet mimeTable ext).getD sTextPlain

/-- what `serve(Socket)` puts on the wire for one request; `none` body marker for JSON bodies is the caller's -/
structure Served where
  called : Bool       -- the user handler ran
  wire : Bytes
  keep : Bool         -- the connection is read again
deriving Repr, Inhabited

def startsWith (s p : Bytes) : Bool := s.take p.length == p

def serveOne (blk rblk : Nat) (optionsDefault : Bool) (q : Request) (p : Plan) (jsonBody : Bytes) (base : Bytes) : Served :=
  let hconn := lowerAscii (header q.headers sConnection)
  let proto := if q.proto = sHttp10 then sHttp10 else sHttp11
  let keep := !((q.proto = sHttp10 && hconn != sKeepAlive) || hconn = sClose)
  let h0 : Dic := if hconn = sKeepAlive then setHeader [] sConnection sKeepAlive else []
  if q.method = sOPTIONS ∧ optionsDefault then
    let h := if hasHeader q.headers sOrigin then setHeader h0 sACAM sMethods else h0
    let h := if hasHeader q.headers sACRH then setHeader h sACAH (header q.headers sACRH) else h
    let h := setHeader h sAllow sMethods
    let h := setHeader h sContentLength [48]
    { called := false, wire := serializeWith blk { command := statusLine proto 200, headers := h, body := [] }, keep := keep }
  else
    let h := p.headers.foldl (fun d nv => setHeader d nv.1 nv.2) h0
    let allow (code : Nat) (h : Dic) : Dic := if code = 405 then setHeader h sAllow sMethods else h
    match p.kind with
    | .none =>
      let h := allow p.code (setHeader h sContentLength [48])
      { called := true, wire := serializeWith blk { command := statusLine proto p.code, headers := h, body := [] }, keep := keep }
    | .bytes b =>
      let h := allow p.code (setHeader h sContentLength (utoa b.length))
      { called := true, wire := serializeWith blk { command := statusLine proto p.code, headers := h, body := b }, keep := keep }
    | .json =>
      let h := setHeader h sContentLength (utoa jsonBody.length)
      let h := allow p.code (setHeader h sContentType sAppJson)
      { called := true, wire := serializeWith blk { command := statusLine proto p.code, headers := h, body := jsonBody }, keep := keep }
    | .redirect loc b =>
      if q.resource = loc then
        let h := allow 200 (setHeader h sContentLength (utoa b.length))
        { called := true, wire := serializeWith blk { command := statusLine proto 200, headers := h, body := b }, keep := keep }
      else
        let h := setHeader h sLocation (base ++ loc)
        let h := allow p.code (setHeader h sContentLength [48])
        { called := true, wire := serializeWith blk { command := statusLine proto p.code, headers := h, body := [] }, keep := keep }
    | .redirectRel loc rel b =>
      if q.resource = loc then
        let h := allow 200 (setHeader h sContentLength (utoa b.length))
        { called := true, wire := serializeWith blk { command := statusLine proto 200, headers := h, body := b }, keep := keep }
      else
        let h := setHeader h sLocation rel
        let h := allow p.code (setHeader h sContentLength [53])
        { called := true, wire := serializeWith blk { command := statusLine proto p.code, headers := h, body := sMoved }, keep := keep }
    | .stream parts fin =>
      let h := setHeader h sTransferEncoding sChunked
      if parts.isEmpty then
        -- nothing was written by the handler: the headers are still unsent, the server's closing put("") + write() writes
        -- the whole (empty, chunked) message and ends it
        let h := allow p.code (setHeader h sContentLength [48])
        { called := true, wire := serializeWith blk { command := statusLine proto p.code, headers := h, body := [] }, keep := keep }
      else
      { called := true, wire := serializeStream blk proto p.code h parts fin, keep := keep }
    | .streamAuto parts =>
      -- an unframed stream to an HTTP/1.0 request ends with the connection
      { called := true, wire := serializeStream blk proto p.code h parts false, keep := keep && !endByClose proto p.code h }
    | .streamFile pre content =>
      -- the headers are out when the server's file branch runs: its status and header changes show nowhere, but a Range
      -- of the request still selects the bytes `putFile` writes (nothing when it is unsatisfiable)
      let n := content.length
      let body : Bytes :=
        if hasHeader q.headers sRange then
          let range := header q.headers sRange
          if startsWith range sBytesEq ∧ ¬ range.contains 44 then
            match rangeOf n (rangeArgs n (range.drop 6)).1 (rangeArgs n (range.drop 6)).2 with
            | some (b', e') => fileSlice content b' e'
            | none => []
          else content
        else content
      let hs := streamHeaders proto p.code h
      let c := isChunked hs && !endByClose proto p.code h
      { called := true,
        wire := headerBlock (statusLine proto p.code) hs ++ (if pre.isEmpty then [] else writeBody c blk pre) ++
          writeFile c blk rblk body ++ (if ownChunks proto p.code h then lastChunk else []),
        keep := keep && !endByClose proto p.code h }
    | .missing =>
      -- 404 "Not found" as an ordinary body; the connection is kept or closed as after any other response (f26c43e)
      let h := allow p.code h
      let h := setHeader h sContentType sTextPlain
      let h := setHeader h sContentLength [57]
      { called := true, wire := serializeWith blk { command := statusLine proto 404, headers := h, body := sNotFound }, keep := keep }
    | .file content ext =>
      let n := content.length
      let h := allow p.code h
      -- Date and Content-Type are filled in only when the handler set none (71fbc0b), like Cache-Control
      let h := fillAbsent h sDate [68]
      let h := fillAbsent h sContentType (mimeOf ext)
      let h := fillAbsent h sCacheControl sCacheValue
      let whole (code : Nat) (h : Dic) : Served :=
        let h := setHeader h sContentLength (utoa n)
        { called := true, wire := serializeFile blk rblk (statusLine proto code) h content, keep := keep }
      if hasHeader q.headers sRange then
        let range := header q.headers sRange
        if startsWith range sBytesEq ∧ ¬ range.contains 44 then
          let (b, e) := rangeArgs n (range.drop 6)
          match rangeOf n b e with
          | some (b', e') =>
            let h := setHeader h sContentLength (utoa (e' - b' + 1))
            let h := setHeader h sContentRange (contentRangeText b' e' n)
            { called := true, wire := serializeFile blk rblk (statusLine proto 206) h (fileSlice content b' e'), keep := keep }
          | none =>
            let h := setHeader h sContentRange (contentRangeStar n)
            let h := setHeader h sContentLength [48]
            { called := true, wire := serializeWith blk { command := statusLine proto 416, headers := h, body := [] }, keep := keep }
        else whole p.code h
      else whole p.code h

def serve1 (opt : Bool) (q : Request) (p : Plan) (jsonBody base : Bytes) : Served :=
  serveOne sendBlock recvBlock opt q p jsonBody base

def sExpect : Bytes := [69, 120, 112, 101, 99, 116]
def s100continue : Bytes := [49, 48, 48, 45, 99, 111, 110, 116, 105, 110, 117, 101]
def sInterim100 : Bytes := [72, 84, 84, 80, 47, 49, 46, 49, 32, 49, 48, 48, 32, 67, 111, 110, 116, 105, 110, 117, 101, 13, 10, 13, 10]
def sInterim417 : Bytes := [72, 84, 84, 80, 47, 49, 46, 49, 32, 52, 49, 55, 32, 84, 111, 111, 32, 98, 105, 103, 13, 10, 13, 10]

/-- what `HttpRequest::read` writes back between the headers and the body: the answer to `Expect: 100-continue` -/
def interimOf (h : Dic) : Bytes :=
  if header h sExpect = s100continue then
    (if isNeg (header h sContentLength) ∨ atoi (header h sContentLength) < 128000000 then sInterim100 else sInterim417)
  else []

/-- whether the connection was already given up when `HttpRequest::read` came to its interim answer, i.e. while the
header block was read (a header line without colon or longer than a line may be); a connection given up later, in
`readBody`, has the interim answer written before -/
def headClosed (i : Inp) : Bool :=
  match readLine i with
  | (none, _) => false
  | (some cmd, i1) =>
    if cmd.isEmpty ∨ i1.err then false else
    match indexOfByte 32 cmd with
    | none => false
    | some a =>
      match indexOfFrom 32 cmd (a + 1) with
      | none => false
      | some _ =>
        let r := readHeaders i1 []
        r.2.closed || (hasHeader r.1 sTransferEncoding && !teChunked (header r.1 sTransferEncoding))

/-- one turn of `serve(Socket)`'s loop: (request given to the handler, bytes written back, connection kept, rest) -/
def serveStep (opt : Bool) (base : Bytes) (p : Plan) (i : Inp) : Option Request × Bytes × Bool × Inp :=
  if i.data.isEmpty ∨ i.dead then (none, [], false, i)
  else
    let (q, i') := readRequest i
    if ¬ q.valid ∨ i'.err ∨ i'.closed then
      -- `client.error()`, `client.handle() < 0` (the reader gave the connection up: a header line without colon, a
      -- Content-Length or a chunk-size line that is none, a chunk not followed by CRLF) or a missing part: dropped
      -- without calling the handler; only the interim answer may have been written
      (none, (if headClosed i then [] else interimOf q.headers), false, i')
    else
      let s := serve1 opt q p [] base
      (if s.called then some q else none, interimOf q.headers ++ s.wire, s.keep, i')

/-- several requests arriving on one connection, served in order -/
def serveConn (opt : Bool) (base : Bytes) : List Plan → Inp → List (Option Request × Bytes)
  | [], _ => []
  | p :: ps, i =>
    let (q, w, keep, i') := serveStep opt base p i
    (q, w) :: (if keep then serveConn opt base ps i' else ps.map (fun _ => (none, [])))

/-! ## many connections served at once

`SocketServer` gives every accepted connection its own thread running `serve(Socket)`; the per-connection state is the
connection's own `Socket` / `HttpRequest` / `HttpResponse` (and, inside `writeFile` / `readBody`, block buffers that are
locals of the call).  A schedule says which connection's handler takes its next turn. -/

/-- a connection being served: the plans of the requests still to come, what is left to read, what was answered so far -/
structure Conn where
  plans : List Plan
  inp : Inp
  out : List (Option Request × Bytes)
  alive : Bool
deriving Inhabited

def Conn.start (plans : List Plan) (wire : Bytes) (cuts : List Nat := []) : Conn :=
  { plans := plans, inp := Inp.ofBytes wire cuts, out := [], alive := true }

/-- one turn of this connection's handler thread (`serveStep`), touching nothing but the connection itself -/
def Conn.step (opt : Bool) (base : Bytes) (c : Conn) : Conn :=
  match c.plans with
  | [] => c
  | p :: ps =>
    if c.alive then
      let (q, w, keep, i') := serveStep opt base p c.inp
      { plans := ps, inp := i', out := c.out ++ [(q, w)], alive := keep }
    else { c with plans := ps, out := c.out ++ [(none, [])] }

/-- the server state: connection number ↦ connection -/
abbrev Server := Nat → Conn

def Server.turn (opt : Bool) (base : Bytes) (s : Server) (k : Nat) : Server :=
  fun j => if j = k then (s k).step opt base else s j

/-- run the handler threads in the order given by the schedule (a list of connection numbers) -/
def runSched (opt : Bool) (base : Bytes) : List Nat → Server → Server
  | [], s => s
  | k :: ks, s => runSched opt base ks (s.turn opt base k)

def iterStep (opt : Bool) (base : Bytes) : Nat → Conn → Conn
  | 0, c => c
  | n + 1, c => iterStep opt base n (c.step opt base)

end AslModel.HttpFrame
