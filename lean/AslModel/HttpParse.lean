/-!
# C09 — model of the HTTP request reader of aslze/asl

Transcribed from `src/Socket.cpp` (`Socket_::readLine`, `read`, `available`, `waitInput`, `write`, `close`),
`src/Http.cpp` (`Url::decode`, `Url::Url`, `Url::parseQuery`, `capitalized`, `HttpMessage::setHeader/header/
hasHeader/readHeaders/readBody/sendHeaders/write`, `HttpRequest::read`, `HttpRequest::query`,
`HttpResponse::HttpResponse/setCode`) and `src/HttpServer.cpp` (`HttpServer::serve(Socket)`, `handleOptions`).

World: a connection is the finite byte list the peer sends followed by the peer's close (EOF); all of it
has arrived when the server starts reading (the harness writes the stream and shuts the write side down
before the server runs), so `available()` is the number of unread bytes and `waitInput()` never times out.

* Every index computation of the code goes through `at?` / `substring?` / `…From?`, which raise
  `Fault.oob` outside the string's storage (`length()` bytes plus the terminator).
* Every `while` loop of the code that is not a plain scan of a string is run with explicit fuel and raises
  `Fault.spin` when the fuel is exhausted.  `AslProps/C09.lean` proves that neither fault can happen.

Strings are `length()`-aware byte lists; what a libc function sees is `cstr s` (bytes before the first NUL).
Core Lean only.
-/
set_option linter.unusedVariables false
namespace AslModel.HttpParse

abbrev Bytes := List UInt8

inductive Fault where
  | oob    -- an index outside the storage of a string / array
  | spin   -- a loop made no progress within its fuel
deriving Repr, DecidableEq

abbrev M := Except Fault

/-- one pass through a loop body: leave the loop with a result, or go round again with a new state -/
inductive Step (σ ρ : Type) where
  | done (r : ρ)
  | next (x : σ)

/-- a `while` loop run with explicit fuel; running out of fuel is the fault `spin` -/
def iterate {σ ρ : Type} (step : σ → M (Step σ ρ)) : Nat → σ → M ρ
  | 0, _ => throw .spin
  | fuel + 1, x =>
    match step x with
    | .error e => .error e
    | .ok (.done r) => pure r
    | .ok (.next y) => iterate step fuel y

/-! ## C strings -/

/-- what a `const char*` consumer sees: the bytes before the first NUL -/
def cstr (b : Bytes) : Bytes := b.takeWhile (· != 0)

/-- `s[i]` on a `String`: the bytes, then the terminator at `i = length()` -/
def at? (s : Bytes) (i : Nat) : M UInt8 :=
  if i < s.length then pure (s.getD i 0) else if i = s.length then pure 0 else throw .oob

/-- the same access on an array copy of the string (constant time; `atA?_eq` in AslProofs shows it is `at?`) -/
def atA? (a : Array UInt8) (i : Nat) : M UInt8 :=
  if i < a.size then pure (a.getD i 0) else if i = a.size then pure 0 else throw .oob

/-- `String::substring(i, j)`: `memcpy(dst, str()+i, j-i)` — needs `i ≤ j ≤ length()` -/
def substring? (s : Bytes) (i j : Nat) : M Bytes :=
  if i ≤ j ∧ j ≤ s.length then pure ((s.drop i).take (j - i)) else throw .oob

/-- index of the first `c` in a NUL-free list -/
def findByte (c : UInt8) : Bytes → Option Nat
  | [] => none
  | x :: t => if x == c then some 0 else (findByte c t).map (· + 1)

def isPrefix : Bytes → Bytes → Bool
  | [], _ => true
  | _ :: _, [] => false
  | a :: p, b :: s => a == b && isPrefix p s

/-- leftmost occurrence of `pat` (what `strstr` returns, as an offset) -/
def findSub (pat : Bytes) : Bytes → Option Nat
  | [] => if pat.isEmpty then some 0 else none
  | c :: t => if isPrefix pat (c :: t) then some 0 else (findSub pat t).map (· + 1)

/-- `String::indexOf(char c, int i0)`: `strchr(str()+i0, c)`; `i0` may point at most at the terminator -/
def indexOfByteFrom? (s : Bytes) (c : UInt8) (i0 : Nat) : M (Option Nat) :=
  if i0 ≤ s.length then pure ((findByte c (cstr (s.drop i0))).map (· + i0)) else throw .oob

/-- `String::indexOf(const char* pat, int i0)`: `strstr(str()+i0, pat)` -/
def indexOfSubFrom? (s : Bytes) (pat : Bytes) (i0 : Nat) : M (Option Nat) :=
  if i0 ≤ s.length then pure ((findSub pat (cstr (s.drop i0))).map (· + i0)) else throw .oob

/-- `myisspace` -/
def isSp (c : UInt8) : Bool := c == 32 || c == 10 || c == 13 || c == 9
/-- libc `isspace` in the "C" locale -/
def cIsSpace (c : UInt8) : Bool := c == 32 || (9 ≤ c && c ≤ 13)

/-- `String::trimmed()` / `trim()`: drop `myisspace` bytes at both ends (over `length()` bytes) -/
def trimmed (s : Bytes) : Bytes := ((s.dropWhile isSp).reverse.dropWhile isSp).reverse

def toUpper (c : UInt8) : UInt8 := if 97 ≤ c ∧ c ≤ 122 then c - 32 else c
def toLower (c : UInt8) : UInt8 := if 65 ≤ c ∧ c ≤ 90 then c + 32 else c

/-- the loop of `capitalized()`: `capitalize` starts true and is true after each `'-'` -/
def capAux : Bool → Bytes → Bytes
  | _, [] => []
  | cap, c :: t =>
    let c' := if cap then toUpper c else toLower c
    c' :: capAux (c' == 45) t

def capitalized (s : Bytes) : Bytes := capAux true s

/-- unsigned lexicographic comparison (sign of `strcmp` on NUL-free lists) -/
def cmpBytes : Bytes → Bytes → Ordering
  | [], [] => .eq
  | [], _ :: _ => .lt
  | _ :: _, [] => .gt
  | x :: a, y :: b => if x < y then .lt else if y < x then .gt else cmpBytes a b

/-! ## `Dic<String>` = sorted `Map<String,String>` whose key order is `strcmp` -/

abbrev Dic := List (Bytes × Bytes)

def dicFind : Dic → Bytes → Option Bytes
  | [], _ => none
  | (k', v') :: t, k => match cmpBytes (cstr k') (cstr k) with
    | .lt => dicFind t k
    | .eq => some v'
    | .gt => none

/-- `Map::set` / `operator[] =`: an existing (strcmp-equal) key keeps its bytes -/
def dicSet : Dic → Bytes → Bytes → Dic
  | [], k, v => [(k, v)]
  | (k', v') :: t, k, v => match cmpBytes (cstr k') (cstr k) with
    | .lt => (k', v') :: dicSet t k v
    | .eq => (k', v) :: t
    | .gt => (k, v) :: (k', v') :: t

def dicRemove : Dic → Bytes → Dic
  | [], _ => []
  | (k', v') :: t, k => match cmpBytes (cstr k') (cstr k) with
    | .lt => (k', v') :: dicRemove t k
    | .eq => t
    | .gt => (k', v') :: t

/-- `HttpMessage::setHeader`: an empty value removes the header -/
def setHeader (h : Dic) (name value : Bytes) : Dic :=
  let cname := capitalized name
  if value.length == 0 then dicRemove h cname else dicSet h cname value

/-- `HttpMessage::header` (missing ⇒ empty string) -/
def header (h : Dic) (name : Bytes) : Bytes := (dicFind h (capitalized name)).getD []
def hasHeader (h : Dic) (name : Bytes) : Bool := (dicFind h (capitalized name)).isSome

/-! ## numbers -/

/-- two's-complement wrap to `bits` bits -/
def wrap (bits : Nat) (x : Int) : Int := (x + 2 ^ (bits - 1)) % 2 ^ bits - 2 ^ (bits - 1)

def atoiDigits (bits : Nat) : Bytes → Int → Int
  | [], y => y
  | c :: t, y => if 48 ≤ c ∧ c ≤ 57 then atoiDigits bits t (wrap bits (10 * y + ((c.toNat - 48 : Nat) : Int))) else y

/-- `myatoi` (bits = 32) / `myatol` (bits = 64) on a C string; overflow wraps (as compiled) -/
def myatoi (bits : Nat) (s : Bytes) : Int :=
  match s with
  | 45 :: t => wrap bits (-(atoiDigits bits t 0))
  | 43 :: t => atoiDigits bits t 0
  | _ => atoiDigits bits s 0

def hexVal (c : UInt8) : Option Nat :=
  if 48 ≤ c ∧ c ≤ 57 then some (c.toNat - 48)
  else if 97 ≤ c ∧ c ≤ 102 then some (c.toNat - 87)
  else if 65 ≤ c ∧ c ≤ 70 then some (c.toNat - 55)
  else none

def hexDigits : Bytes → Nat → Nat
  | [], acc => acc
  | c :: t, acc => match hexVal c with
    | some v => hexDigits t (acc * 16 + v)
    | none => acc

/-- optional sign of `strtoul` -/
def stripSign : Bytes → Bool × Bytes
  | 45 :: t => (true, t)
  | 43 :: t => (false, t)
  | s => (false, s)

/-- optional `0x`/`0X` prefix of `strtoul(., 16)` (only when a hex digit follows) -/
def strip0x : Bytes → Bytes
  | 48 :: x :: h :: t => if (x == 120 || x == 88) && (hexVal h).isSome then h :: t else 48 :: x :: h :: t
  | s => s

/-- `strtoul(s, NULL, 16)` of glibc on a C string: blanks, sign, optional `0x`, digits, saturation at 2^64-1 -/
def strtoul16 (s : Bytes) : Nat :=
  let r := stripSign (s.dropWhile cIsSpace)
  let v := hexDigits (strip0x r.2) 0
  if v ≥ 2 ^ 64 then 2 ^ 64 - 1
  else if r.1 then (2 ^ 64 - v) % 2 ^ 64 else v

/-- `String::hexToInt()` assigned to an `int`: `(int)(unsigned)strtoul(str(), NULL, 16)` -/
def hexToInt (s : Bytes) : Int := wrap 32 ((strtoul16 (cstr s) % 2 ^ 32 : Nat) : Int)

/-- `(char)strtoul(b, NULL, 16)` for the 2-byte buffer of `Url::decode` -/
def hexByte (b0 b1 : UInt8) : UInt8 := UInt8.ofNat (strtoul16 (cstr [b0, b1]))

/-! ## the socket -/

structure Sock where
  inp : Bytes          -- bytes the peer sent that have not been read yet; then EOF
  err : Nat := 0       -- `_error` (4 BAD_LINE, 5 BAD_RECV, 6 BAD_DATA)
  closed : Bool := false   -- `_handle < 0`
  out : Bytes := []    -- bytes written to the peer
deriving Repr

def Sock.available (s : Sock) : Int := if s.err != 0 || s.closed then -1 else s.inp.length

/-- `waitInput(t)`: true at once when bytes or EOF are pending; a socket in error is marked BAD_DATA -/
def Sock.waitInput (s : Sock) : Bool × Sock :=
  if s.closed then (false, s) else if s.err != 0 then (true, { s with err := 6 }) else (true, s)

/-- blocking `Socket_::read(data, n)`: loops until `n` bytes or EOF/failure (then BAD_RECV) -/
def Sock.rawRead (s : Sock) (n : Nat) : Bytes × Sock :=
  if s.closed || n == 0 then ([], { s with err := 5 })
  else
    let got := s.inp.take n
    let s' := { s with inp := s.inp.drop n }
    (got, if got.length < n then { s' with err := 5 } else s')

/-- `Socket_::write`: fails with BAD_DATA on a closed handle -/
def Sock.write (s : Sock) (b : Bytes) : Sock :=
  if b.isEmpty then s else if s.closed then { s with err := 6 } else { s with out := s.out ++ b }

/-- the `while (1)` loop of `readLine` on a healthy socket: (line, unread, error raised) -/
def readLineLoop : Bytes → Bytes → Nat → Bytes × Bytes × Nat
  | [], acc, _ => (acc.reverse, [], 5)
  | c :: t, acc, n =>
    if c == 10 then (acc.reverse, t, 0)
    else if n > 16000 then ([], t, 4)
    else readLineLoop t (c :: acc) (n + 1)

def Sock.readLineBody (s : Sock) : Bytes × Sock :=
  if s.err != 0 then
    -- one `read(&c, 1)`, then `_error != 0` ends the loop with an empty line
    match s.inp with
    | [] => ([], { s with err := 5 })
    | _ :: t => ([], { s with inp := t })
  else
    let r := readLineLoop s.inp [] 0
    (r.1, { s with inp := r.2.1, err := if r.2.2 != 0 then r.2.2 else s.err })

/-- `Socket_::readLine()` -/
def Sock.readLine (s : Sock) : Bytes × Sock :=
  if s.available > 0 then s.readLineBody
  else
    let w := s.waitInput
    if w.1 then w.2.readLineBody else ([], w.2)

/-! ## `Url::decode` (index loop, as written) -/

structure DecSt where
  i : Nat
  acc : Bytes     -- output so far, reversed

/-- body of the `for (i = 0; i < q0.length(); i++)` loop of `Url::decode` (`q0` as an array, for O(1) `q0[i]`) -/
def decodeStep (q0 : Array UInt8) (x : DecSt) : M (Step DecSt Bytes) :=
  if x.i < q0.size then do
    let c ← atA? q0 x.i
    if c == 37 then
      if x.i + 2 > q0.size then pure (.done x.acc.reverse)          -- `i > length() - 2`: break
      else do
        let b0 ← atA? q0 (x.i + 1)
        let b1 ← atA? q0 (x.i + 2)
        pure (.next ⟨x.i + 3, hexByte b0 b1 :: x.acc⟩)
    else pure (.next ⟨x.i + 1, c :: x.acc⟩)
  else pure (.done x.acc.reverse)

def urlDecode (q0 : Bytes) : M Bytes := iterate (decodeStep q0.toArray) (q0.length + 1) ⟨0, []⟩

/-! ## the path: `fix()`, `contains("..")`, `replace("..", "")`, `split('/')` -/

def dot : UInt8 := 46

/-- `contains("..")` on a NUL-free string -/
def hasDD : Bytes → Bool
  | a :: b :: t => (a == dot && b == dot) || hasDD (b :: t)
  | _ => false

/-- `replace("..", "")`: leftmost, non-overlapping removal -/
def rmDD : Bytes → Bytes
  | a :: b :: t => if a = dot ∧ b = dot then rmDD t else a :: rmDD (b :: t)
  | [a] => [a]
  | [] => []

/-- `String::split(sep)` for a one-byte separator -/
def splitByte (sep : UInt8) : Bytes → List Bytes
  | [] => [[]]
  | c :: t =>
    match splitByte sep t with
    | [] => [[]]   -- unreachable
    | p :: ps => if c == sep then [] :: p :: ps else (c :: p) :: ps

/-- `_parts`: split at '/', drop an empty last, then an empty first element -/
def pathParts (p : Bytes) : List Bytes :=
  let ps := splitByte 47 p
  let ps := if ps.length > 0 && (ps.getLastD []).isEmpty then ps.dropLast else ps
  if ps.length > 0 && (ps.headD []).isEmpty then ps.drop 1 else ps

/-- the decoded, sanitised path of a raw path (target up to `?`/`#`) -/
def sanitize (raw : Bytes) : M Bytes := do
  let d ← urlDecode raw
  let p := cstr d                                  -- `_path.fix()`
  pure (if hasDD p then rmDD p else p)

/-! ## `Url::parseQuery` -/

/-- first pass: `split('&', '=')` — pairs with a non-empty key, later duplicates overwrite -/
def queryPairs : List Bytes → Dic → M Dic
  | [], d => pure d
  | p :: ps, d =>
    match findByte 61 p with
    | some j =>
      if j > 0 then do
        let k ← substring? p 0 j
        let v ← substring? p (j + 1) p.length
        queryPairs ps (dicSet d k v)
      else queryPairs ps d
    | none => queryPairs ps d

/-- second pass: decode keys and values in key order -/
def queryDecode : Dic → Dic → M Dic
  | [], d => pure d
  | kv :: t, d => do
    let k ← urlDecode kv.1
    let v ← urlDecode kv.2
    queryDecode t (dicSet d k v)

def parseQuery (qs : Bytes) : M Dic := do
  let q := qs.map fun c => if c == 43 then 32 else c
  let raw ← queryPairs (splitByte 38 (cstr q)) []
  queryDecode raw []

/-! ## requests -/

structure Req where
  method : Bytes := []
  res : Bytes := []
  proto : Bytes := [72, 84, 84, 80, 47, 49, 46, 49]   -- `HttpMessage::_proto("HTTP/1.1")`
  path : Bytes := []
  query : Bytes := []
  fragment : Bytes := []
  parts : List Bytes := []
  headers : Dic := []
  body : Bytes := []
deriving Repr

def sExpect : Bytes := [69, 120, 112, 101, 99, 116]
def sContentLength : Bytes := [67, 111, 110, 116, 101, 110, 116, 45, 76, 101, 110, 103, 116, 104]
def sTransferEncoding : Bytes := [84, 114, 97, 110, 115, 102, 101, 114, 45, 69, 110, 99, 111, 100, 105, 110, 103]
def sChunked : Bytes := [99, 104, 117, 110, 107, 101, 100]
def s100continue : Bytes := [49, 48, 48, 45, 99, 111, 110, 116, 105, 110, 117, 101]
/-- "HTTP/1.1 100 Continue\r\n\r\n" -/
def sContinue : Bytes := [72, 84, 84, 80, 47, 49, 46, 49, 32, 49, 48, 48, 32, 67, 111, 110, 116, 105, 110, 117, 101, 13, 10, 13, 10]
/-- "HTTP/1.1 417 Too big\r\n\r\n" -/
def sTooBig : Bytes := [72, 84, 84, 80, 47, 49, 46, 49, 32, 52, 49, 55, 32, 84, 111, 111, 32, 98, 105, 103, 13, 10, 13, 10]

/-- how `readHeaders` stores a received field: `_headers[capitalized(name)] = value` (an empty value is kept;
    `setHeader`, used for responses, would remove the field) -/
def storeHeader (h : Dic) (name value : Bytes) : Dic := dicSet h (capitalized name) value

structure HSt where
  s : Sock
  h : Dic
  name : Bytes     -- `headerName`
  value : Bytes    -- `headerValue`

/-- `validName` of `readHeaders`: non-empty, every byte above the blank and not DEL -/
def validName (name : Bytes) : Bool := name.length != 0 && name.all (fun c => c > 32 && c != 127)

/-- body of the `while (line = readLine(), line != "\r")` loop of `HttpMessage::readHeaders()` -/
def headersStep (x : HSt) : M (Step HSt (Sock × Dic)) :=
  let r := x.s.readLine
  if cstr r.1 == [13] then pure (.done (r.2, x.h))
  else do
    let c0 ← at? r.1 0
    if cIsSpace c0 then
      -- continuation line (obs-fold): joined to the field's accumulated value with one space; an empty one is ignored
      -- before any field there is nothing to continue (fix c2e6d14): like an invalid field name
      if x.name.length == 0 then pure (.done ({ r.2 with closed := true }, x.h))
      else
      let more := trimmed r.1
      if more.length == 0 then pure (.next { x with s := r.2 })
      else
        let v := if x.value.length == 0 then more else x.value ++ 32 :: more
        pure (.next ⟨r.2, storeHeader x.h x.name v, x.name, v⟩)
    else
      let line := trimmed r.1
      match findByte 58 (cstr line) with
      | none => pure (.done ({ r.2 with closed := true }, x.h))          -- `_socket->close(); return;`
      | some i => do
        let name ← substring? line 0 i
        -- a field name is a token: empty, or with a blank / control character ("Content-Length : 5"), it ends the block
        -- like a line without ':' (fix 9bf376e)
        if !validName name then pure (.done ({ r.2 with closed := true }, x.h))
        else do
          let rest ← substring? line (i + 1) line.length
          pure (.next ⟨r.2, storeHeader x.h name (trimmed rest), name, trimmed rest⟩)

def readHeaders (s : Sock) : M (Sock × Dic) := iterate headersStep (s.inp.length + 2) ⟨s, [], [], []⟩

structure Blk where
  s : Sock
  size : Int
  body : Bytes
  ret : Bool       -- the function returned from inside the inner loop

structure BSt where
  s : Sock
  mx : Int        -- `maxToRead`
  size : Int
  body : Bytes

/-- body of the inner `while (maxToRead > 0)` loop of `readBody` -/
def blocksStep (x : BSt) : M (Step BSt Blk) :=
  if x.mx ≤ 0 then pure (.done ⟨x.s, x.size, x.body, false⟩)
  else
    let r := x.s.rawRead (min x.mx 16000).toNat
    if r.1.length == 0 then pure (.done ⟨r.2, x.size, x.body, true⟩)
    else
      let body := x.body ++ r.1
      let mx := x.mx - (r.1.length : Int)
      if x.size != 0 then
        let size := x.size - (r.1.length : Int)
        if size ≤ 0 then pure (.done ⟨r.2, size, body, true⟩) else pure (.next ⟨r.2, mx, size, body⟩)
      else pure (.next ⟨r.2, mx, x.size, body⟩)

def readBlocks (s : Sock) (mx size : Int) (body : Bytes) : M Blk :=
  iterate blocksStep (s.inp.length + 1) ⟨s, mx, size, body⟩

/-- the chunk-size check of `readBody` on the line as `readLine` returned it (CR still at its end): 1 to 8 hex
    digits, optional blanks, then CR or `;`, and the value `strtoul` reads at most 0x7fffffff -/
def chunkLineOk (line : Bytes) : Bool :=
  let cs := cstr line
  let nd := (cs.takeWhile fun c => (hexVal c).isSome).length
  let rest := (cs.drop nd).dropWhile fun c => c == 32 || c == 9
  decide (1 ≤ nd) && decide (nd ≤ 8) && (rest.headD 0 == 13 || rest.headD 0 == 59) &&
    decide (strtoul16 cs % 2 ^ 32 ≤ 2147483647)

structure BodySt where
  s : Sock
  size : Int
  body : Bytes

/-- body of the outer `while (!end)` loop of `readBody` -/
def bodyStep (chunked : Bool) (x : BodySt) : M (Step BodySt (Sock × Bytes)) :=
  let av := x.s.available
  if av < 0 then pure (.done (x.s, x.body))            -- (`waitInput(10)` is true: data or EOF is pending)
  else if chunked then do
    let r := x.s.readLine
    -- a line that is not a chunk-size line: the connection is given up
    if !chunkLineOk r.1 then pure (.done ({ r.2 with closed := true }, x.body))
    else do
      let mx := hexToInt r.1
      let b ← readBlocks r.2 mx x.size x.body
      if b.ret then pure (.done (b.s, b.body))
      else
        let r2 := b.s.rawRead 2
        if r2.1.length < 2 then pure (.done (r2.2, b.body))
        else if r2.1 != [13, 10] then pure (.done ({ r2.2 with closed := true }, b.body))   -- not the chunk's CRLF
        else if mx == 0 then pure (.done (r2.2, b.body))
        else pure (.next ⟨r2.2, b.size, b.body⟩)
  else do
    let mx : Int := if av ≤ 0 then 1 else av
    let mx := if x.size > 0 && mx > x.size then x.size else mx
    let b ← readBlocks x.s mx x.size x.body
    if b.ret then pure (.done (b.s, b.body)) else pure (.next ⟨b.s, b.size, b.body⟩)

/-- the Content-Length check of `readBody`: 1 to 10 decimal digits (over `length()` bytes) whose value fits an `int` -/
def validLength (v : Bytes) : Bool :=
  decide (1 ≤ v.length) && decide (v.length ≤ 10) && v.all (fun c => decide (48 ≤ c) && decide (c ≤ 57)) &&
    decide (myatoi 64 (cstr v) ≤ 2147483647)

/-- `codings = header("Transfer-Encoding").toLowerCase().split(','); codings.last().trimmed() == "chunked"`:
    the last transfer coding, ASCII case-insensitively (`toLowerCase` stops at a NUL) -/
def isChunked (v : Bytes) : Bool :=
  trimmed ((splitByte 44 ((cstr v).map toLower)).getLastD []) == sChunked

/-- `HttpMessage::readBody()`: an invalid Content-Length gives the connection up; `Transfer-Encoding: chunked`
    overrides Content-Length (also `Content-Length: 0`); otherwise Content-Length frames the body -/
def readBody (s : Sock) (h : Dic) : M (Sock × Bytes) :=
  let size := myatoi 32 (cstr (header h sContentLength))
  let chunked := isChunked (header h sTransferEncoding)
  if hasHeader h sContentLength && !validLength (header h sContentLength) then pure ({ s with closed := true }, [])
  else if chunked then iterate (bodyStep true) (s.inp.length + 2) ⟨s, 0, []⟩
  else if hasHeader h sContentLength then
    (if size == 0 then pure (s, [])
     else iterate (bodyStep false) (s.inp.length + 2) ⟨s, size, []⟩)
  else pure (s, [])

/-- the `?` part of the split: `q > 0 && q < pathend` (then the query ends at `h > 0 ? h : pathend`, which is
    `pathend` itself, and the path ends at `q`) -/
def splitQuery (res : Bytes) (q : Option Nat) (pathend : Nat) (fragment : Bytes) : M (Bytes × Bytes × Bytes) :=
  match q with
  | some qv =>
    if qv > 0 ∧ qv < pathend then do
      let qs ← substring? res (qv + 1) pathend
      let raw ← substring? res 0 qv
      pure (raw, qs, fragment)
    else do
      let raw ← substring? res 0 pathend
      pure (raw, [], fragment)
  | none => do
    let raw ← substring? res 0 pathend
    pure (raw, [], fragment)

/-- the `#` part: `h > 0` cuts the path at `h` and makes the rest the fragment -/
def splitFragment (res : Bytes) (h q : Option Nat) : M (Bytes × Bytes × Bytes) :=
  match h with
  | some hv =>
    if hv > 0 then do
      let fragment ← substring? res (hv + 1) res.length
      splitQuery res q hv fragment
    else splitQuery res q res.length []
  | none => splitQuery res q res.length []

/-- target → (raw path, query string, fragment) -/
def splitTarget (res : Bytes) : M (Bytes × Bytes × Bytes) := do
  let h ← indexOfByteFrom? res 35 0
  let q ← indexOfByteFrom? res 63 0
  splitFragment res h q

structure ReqLine where
  method : Bytes
  res : Bytes
  proto : Bytes

/-- the split of the request line at its first two spaces -/
def parseRequestLine (cmd : Bytes) : M (Option ReqLine) := do
  let i? ← indexOfByteFrom? cmd 32 0
  match i? with
  | none => pure none
  | some i => do
    let j? ← indexOfByteFrom? cmd 32 (i + 1)
    match j? with
    | none => pure none
    | some j => do
      let method ← substring? cmd 0 i
      let res ← substring? cmd (i + 1) j
      let p ← substring? cmd (j + 1) cmd.length
      pure (some ⟨method, res, trimmed p⟩)

structure Target where
  path : Bytes
  query : Bytes
  fragment : Bytes
  parts : List Bytes

/-- everything `read()` derives from the request target -/
def parseTarget (res : Bytes) : M Target := do
  let t ← splitTarget res
  let path ← sanitize t.1
  pure ⟨path, t.2.1, t.2.2, pathParts path⟩

/-- `Expect: 100-continue` handling -/
def expectContinue (s : Sock) (hdrs : Dic) : Sock :=
  if cstr (header hdrs sExpect) == s100continue then
    (if myatoi 64 (cstr (header hdrs sContentLength)) < 128000000 then s.write sContinue else s.write sTooBig)
  else s

/-- `HttpRequest::read()` -/
def read (s : Sock) : M (Req × Sock) :=
  let r := s.readLine
  if r.2.err != 0 || r.1.length == 0 then pure ({}, r.2)
  else do
    let rl? ← parseRequestLine r.1
    match rl? with
    | none => pure ({}, r.2)
    | some rl => do
      let hs ← readHeaders r.2
      -- a Transfer-Encoding whose last coding is not chunked: no determinable length, the connection is given up
      -- (method, target, protocol and headers are set, the path is not derived; `serve` drops the closed connection)
      if hasHeader hs.2 sTransferEncoding && !isChunked (header hs.2 sTransferEncoding) then
        pure ({ method := rl.method, res := rl.res, proto := rl.proto, headers := hs.2 }, { hs.1 with closed := true })
      else do
        let b ← readBody (expectContinue hs.1 hs.2) hs.2
        let t ← parseTarget rl.res
        pure ({ method := rl.method, res := rl.res, proto := rl.proto, path := t.path, query := t.query,
                fragment := t.fragment, parts := t.parts, headers := hs.2, body := b.2 }, b.1)

/-- `HttpRequest::query()` -/
def queryDic (r : Req) : M Dic := if r.query.length != 0 then parseQuery r.query else pure []

/-! ## `HttpServer::serve(Socket)` with a handler that answers `200` and the body `ok` -/

def ofStr (s : String) : Bytes := s.toUTF8.toList

def sConnection : Bytes := [67, 111, 110, 110, 101, 99, 116, 105, 111, 110]
def sKeepAlive : Bytes := [107, 101, 101, 112, 45, 97, 108, 105, 118, 101]
def sClose : Bytes := [99, 108, 111, 115, 101]
def sHttp10 : Bytes := [72, 84, 84, 80, 47, 49, 46, 48]
def sHttp11 : Bytes := [72, 84, 84, 80, 47, 49, 46, 49]
def sOptions : Bytes := [79, 80, 84, 73, 79, 78, 83]
def sOrigin : Bytes := [79, 114, 105, 103, 105, 110]
def crlf : Bytes := [13, 10]

/-- `sendHeaders()` + body for a response with status 200 -/
def responseBytes (proto : Bytes) (h : Dic) (body : Bytes) : Bytes :=
  proto ++ ofStr " 200 OK" ++ crlf ++ (h.flatMap fun kv => kv.1 ++ [58, 32] ++ kv.2 ++ crlf) ++ crlf ++ body

def decimal (n : Nat) : Bytes := (toString n).toUTF8.toList

/-- one pass of the `while` body after a request was accepted: the response written and "break?" -/
def respond (r : Req) (s : Sock) : Sock × Bool :=
  let hconn := (header r.headers sConnection).map toLower
  let proto := if cstr r.proto == sHttp10 then sHttp10 else sHttp11
  let h : Dic := []
  let h := if cstr hconn == sKeepAlive then setHeader h sConnection sKeepAlive else h
  let methods := ofStr "GET, POST, OPTIONS, PUT, DELETE, PATCH, HEAD"
  let s :=
    if cstr r.method == sOptions then
      let h := if hasHeader r.headers sOrigin then setHeader h (ofStr "Access-Control-Allow-Methods") methods else h
      let h := if hasHeader r.headers (ofStr "Access-Control-Request-Headers") then
          setHeader h (ofStr "Access-Control-Allow-Headers") (header r.headers (ofStr "Access-Control-Request-Headers")) else h
      let h := setHeader h (ofStr "Allow") methods
      let h := setHeader h sContentLength [48]
      s.write (responseBytes proto h [])
    else
      let body := ofStr "ok"
      let h := setHeader h sContentLength (decimal body.length)
      -- headers and body are two `write` calls
      (s.write (responseBytes proto h [])).write body
  (s, (cstr r.proto == sHttp10 && cstr hconn != sKeepAlive) || cstr hconn == sClose)

structure SrvSt where
  s : Sock
  acc : List Req     -- requests handed to the application so far, newest first

/-- body of the `while (client.connected() && …)` loop of `HttpServer::serve(Socket client)` -/
def serveStep (x : SrvSt) : M (Step SrvSt (Sock × List Req)) :=
  -- `client.connected()`: handle valid, no error, and not (readable with nothing available)
  if x.s.closed || x.s.err != 0 || x.s.inp.isEmpty then pure (.done (x.s, x.acc.reverse))
  else do
    let rs ← read x.s
    let r := rs.1
    let s := rs.2
    -- `client.error() || client.handle() < 0 || !method.ok() || !path.ok() || !protocol.ok()`: drop, no dispatch
    if s.err != 0 || s.closed || r.method.length == 0 || r.path.length == 0 || r.proto.length == 0 then
      pure (.done (s, x.acc.reverse))
    else
      let ans := respond r s
      -- OPTIONS is answered by `handleOptions`; every other request is handed to the application
      let acc := if cstr r.method == sOptions then x.acc else r :: x.acc
      if ans.2 then pure (.done (ans.1, acc.reverse)) else pure (.next ⟨ans.1, acc⟩)

/-- the `while` loop of `HttpServer::serve`: the requests handed to the application, in order, and the socket at its exit -/
def serveLoop (s : Sock) : M (Sock × List Req) := iterate serveStep (s.inp.length + 1) ⟨s, []⟩

/-- the loop once more, recording next to each request handed to the application how many bytes of the stream were
    still unread at that moment (`request.socket().available()` in the handler; `respond` reads nothing): where each
    dispatched request ended.  Built on `serveStep` itself; observed by the correspondence check only (`at=`), since
    `closeBehind` hides where the loop stopped. -/
def serveStepAt (x : SrvSt × List Nat) : M (Step (SrvSt × List Nat) (Sock × List Req × List Nat)) := do
  match ← serveStep x.1 with
  | .done r => pure (.done (r.1, r.2, (if r.2.length > x.1.acc.length then r.1.inp.length :: x.2 else x.2).reverse))
  | .next y => pure (.next (y, if y.acc.length > x.1.acc.length then y.s.inp.length :: x.2 else x.2))

def serveLoopAt (s : Sock) : M (Sock × List Req × List Nat) := iterate serveStepAt (s.inp.length + 1) (⟨s, []⟩, [])

/-- `closeBehind(client)` (Http.cpp, C10's 7f6f841), with which `HttpServer::serve` ends every connection: nothing on a
    socket the reader has closed already; else the send side is shut down (`out` is complete), what the peer still
    sent is read and dropped until its end (the peer has closed its side: at once), and the socket is closed -/
def closeBehind (s : Sock) : Sock :=
  if s.closed then s
  -- a socket in error: `waitInput` marks it BAD_DATA and `available()` is negative, nothing is read
  else if s.err != 0 then { s with err := 6, closed := true }
  else { s with inp := [], closed := true }

/-- `HttpServer::serve(Socket client)`: the loop, then the connection is ended -/
def serve (s : Sock) : M (Sock × List Req) := do
  let r ← serveLoop s
  pure (closeBehind r.1, r.2)

/-! ## `HttpServer::serveFile`: from the request path to the file under the root -/

def sIndexHtml : Bytes := [105, 110, 100, 101, 120, 46, 104, 116, 109, 108]

/-- what `serveFile` appends to `_webroot`: the path, with a `/` put in front when it has none, and `index.html`
    after a final `/` -/
def localRel (path : Bytes) : Bytes :=
  let p := if path.head? == some 47 then path else 47 :: path
  if p.getLast? == some 47 then p ++ sIndexHtml else p

/-- a node of the file tree the harness serves (`<tmp>/root`): a directory or a file of `n` bytes -/
inductive Node where
  | dir (children : List (Bytes × Node))
  | file (n : Nat)

/-- the fixture of harness/c09.cpp `setupFiles()`: index.html (18), a.txt (36), e.bin (0), sub/b.txt (4), sub/index.html (8) -/
def fixtureRoot : Node :=
  .dir [(sIndexHtml, .file 18), ([97, 46, 116, 120, 116], .file 36), ([101, 46, 98, 105, 110], .file 0),
        ([115, 117, 98], .dir [([98, 46, 116, 120, 116], .file 4), (sIndexHtml, .file 8)])]

def lookupChild : List (Bytes × Node) → Bytes → Option Node
  | [], _ => none
  | (n, c) :: t, k => if n == k then some c else lookupChild t k

/-- POSIX path resolution below the root: empty and `.` components stay in a directory (and need one) -/
def resolve : Node → List Bytes → Option Node
  | n, [] => some n
  | .dir ch, c :: t =>
    if c.isEmpty || c == [46] then resolve (.dir ch) t
    else match lookupChild ch c with
      | some n => resolve n t
      | none => none
  | .file _, _ :: _ => none

/-- status code and Content-Length of the answer to `GET path` (no Range, no If-Modified-Since) -/
def serveFileStatus (path : Bytes) : Nat × Nat :=
  match resolve fixtureRoot (splitByte 47 (localRel path)) with
  | some (.dir _) => (301, 0)
  | some (.file n) => (200, n)
  | none => (404, 9)

/-! ## `Url::Url` -/

structure UrlR where
  protocol : Bytes := []
  host : Bytes := []
  path : Bytes := []
  port : Int := 0
deriving Repr

def sSchemeSep : Bytes := [58, 47, 47]

/-- `port = (portstart == 0) ? 0 : (int)url.substring(portstart, pathstart)` -/
def urlPort (url : Bytes) (portstart pathstart : Nat) : M Int :=
  if portstart == 0 then pure 0 else do
    let p ← substring? url portstart pathstart
    pure (myatoi 32 (cstr p))

/-- the IPv6 branch (`url[hoststart] == '['`, `hoststart` already advanced) -/
def urlBracket (url protocol path : Bytes) (hoststart pathstart : Nat) : M UrlR := do
  let he ← indexOfByteFrom? url 93 hoststart
  match he with
  | none => pure {}
  | some hostend =>
    if hostend > pathstart then pure {}          -- no closing bracket before the path: `*this = Url()`
    else do
      let c2 ← at? url (hostend + 1)
      let portstart := if c2 == 58 then hostend + 2 else 0
      let host ← substring? url hoststart hostend
      let port ← urlPort url portstart pathstart
      pure { protocol := protocol, host := host, path := path, port := port }

def urlPlain (url protocol path : Bytes) (hoststart pathstart : Nat) : M UrlR := do
  let j ← indexOfByteFrom? url 58 hoststart
  let hostend := match j with
    | some jv => if jv < pathstart then jv else pathstart
    | none => pathstart
  let portstart := match j with
    | some jv => if jv < pathstart then jv + 1 else 0
    | none => 0
  let host ← substring? url hoststart hostend
  let port ← urlPort url portstart pathstart
  pure { protocol := protocol, host := host, path := path, port := port }

/-- `Url::Url(const String& url)` -/
def parseUrl (url : Bytes) : M UrlR := do
  let i ← indexOfSubFrom? url sSchemeSep 0
  let ipos : Bool := match i with | some k => k > 0 | none => false
  let protocol ← if ipos then substring? url 0 (i.getD 0) else pure []
  let hoststart := if ipos then i.getD 0 + 3 else 0
  let ps ← indexOfByteFrom? url 47 hoststart
  let pathstart := ps.getD url.length
  let _host0 ← substring? url hoststart pathstart
  let path ← substring? url pathstart url.length
  let path := if cstr path == [] then [47] else path
  let c ← at? url hoststart
  if c == 91 then urlBracket url protocol path (hoststart + 1) pathstart
  else urlPlain url protocol path hoststart pathstart

end AslModel.HttpParse
