import AslModel.HttpParse
import AslModel.HttpFrame
/-!
# C09 — `HttpServer::serve(Socket)`: the `Range` header of a request for a file, and the `Upgrade: websocket` hand-off

Transcribed from `src/HttpServer.cpp` (`serve(Socket client)`): the file branch
(`range.startsWith("bytes=") && !range.contains(',')`, `range.substr(6).split('-')`, `parts[0]`, `parts[1]`, the two
clamps, the `bytes=-n` branch) and the `request.header("Upgrade") == "websocket" && _wsserver` branch.  What
`putFile(path, begin, end)` makes of the two numbers is C10's `AslModel.HttpFrame.rangeOf` (one definition for both
properties).  Every `parts[i]` goes through `partAt?`, which raises `Fault.oob` outside the array.  Core Lean only.
-/
namespace AslModel.HttpParse

def sRange : Bytes := [82, 97, 110, 103, 101]
def sBytesEq : Bytes := [98, 121, 116, 101, 115, 61]
def sUpgrade : Bytes := [85, 112, 103, 114, 97, 100, 101]
def sWebsocket : Bytes := [119, 101, 98, 115, 111, 99, 107, 101, 116]

/-- `Array<String>::operator[]` -/
def partAt? (ps : List Bytes) (i : Nat) : M Bytes :=
  match ps[i]? with
  | some x => pure x
  | none => throw .oob

/-- `String::split(sep)` for a one-byte separator as compiled: `indexOf` is a `strstr`, so separators are found up to
    the first NUL only and the last part runs to `length()` -/
def splitC (sep : UInt8) (s : Bytes) : List Bytes :=
  let pre := cstr s
  let ps := splitByte sep pre
  ps.dropLast ++ [ps.getLastD [] ++ s.drop pre.length]

/-- `parts[i].length() > 18 ? 2147483647 : (Long)parts[i]` -/
def posOf (x : Bytes) : Int := if x.length > 18 then 2147483647 else myatoi 64 (cstr x)

/-- `v > 2147483647 ? 2147483647 : (int)v` -/
def toInt32 (v : Int) : Int := if v > 2147483647 then 2147483647 else wrap 32 v

/-- the text after `bytes=` of a `Range` header, for a file of `n` bytes → the `(begin, end)` given to `putFile` -/
def rangeArgs9 (n : Nat) (spec : Bytes) : M (Int × Int) := do
  let parts := splitC 45 spec
  let p0 ← partAt? parts 0
  let first := posOf p0
  let last ← if parts.length > 1 then (do let p1 ← partAt? parts 1; pure (posOf p1)) else pure 0
  if p0.isEmpty && parts.length > 1 then
    -- "bytes=-n": the last n bytes
    pure (if last ≥ (n : Int) then 0 else wrap 32 ((n : Int) - last),
          if last ≤ 0 ∨ n = 0 then -1 else wrap 32 ((n : Int) - 1))
  else pure (toInt32 first, toInt32 last)

/-- what the server answers to a request for an existing file of `n` bytes -/
inductive RangeAns where
  | whole                 -- 200, all of the file
  | unsat                 -- 416, `Content-Range: bytes */n`
  | part (b e : Nat)      -- 206, `Content-Range: bytes b-e/n`
deriving Repr, DecidableEq

def rangeAnswer (n : Nat) (h : Dic) : M RangeAns :=
  if hasHeader h sRange then
    let range := header h sRange
    if isPrefix sBytesEq range && !(cstr range).contains 44 then do
      let be ← rangeArgs9 n (range.drop 6)
      match AslModel.HttpFrame.rangeOf n be.1 be.2 with
      | some (b', e') => pure (.part b' e')
      | none => pure .unsat
    else pure .whole
  else pure .whole

/-- one round of the `serve` loop of a server that has a WebSocket server linked, up to the hand-off:
    `none` = no request / not an upgrade (the loop goes on as `serveStep` says); `some (headers, socket)` = what
    `_wsserver->process(client, request.headers())` receives — the socket with exactly the bytes the request reader left -/
def upgradeHandOff (s : Sock) : M (Option (Dic × Sock)) := do
  let rs ← read s
  let r := rs.1
  let s' := rs.2
  if s'.err != 0 || s'.closed || r.method.length == 0 || r.path.length == 0 || r.proto.length == 0 then pure none
  else if cstr (header r.headers sUpgrade) == sWebsocket then pure (some (r.headers, s'))
  else pure none

/-- `%` written as `%25`, every other byte as it is: the escaping after which one decoding gives the text back -/
def escPct : Bytes → Bytes
  | [] => []
  | c :: t => if c == 37 then 37 :: 50 :: 53 :: escPct t else c :: escPct t

end AslModel.HttpParse
