/-!
# C18 — model of `IniFile` (src/IniFile.cpp, include/asl/IniFile.h)

Transcription of the constructor (reader loop over `TextFile::readLine`, section / comment /
`key=value` classification, trimming, `_lines` kept verbatim), of `operator[]`, `set`, `has`,
`values`, and of `write` (first loop: rewrite the known `key=value` lines in place; second loop:
place the keys that are on no line after their section, add new sections; write only if modified)
and of the destructor.  The code modelled is the repaired one (e9d9f0a: the last line of a file
without final newline is parsed; 3bcb78f: the backwards scan over blank lines stops at index 0).

`Dic<T>` (a sorted array searched by `strcmp`) is a sorted association list; a `Section*` is the
name of the section it points to (the pointers are re-taken at every insertion into `_sections`).
Index reads that the code does without a bound (`_lines[j]` in the second backwards scan) return
`none` when they would leave the array, so "never reads outside" is a theorem about `write`.
Core Lean only.
-/
namespace AslModel.Ini

abbrev Bytes := List UInt8

/-- `myisspace` -/
def isSpace (c : UInt8) : Bool := c == 32 || c == 10 || c == 13 || c == 9

/-- `NOSECTION` = "-" -/
def nosection : Bytes := [45]

/-! ## strings -/

/-- `s[i]` of a NUL-terminated string (the terminator at the end) -/
def charAt (s : Bytes) (i : Nat) : UInt8 := s.getD i 0

/-- `indexOf(c)`: `none` is −1 -/
def idxOf (c : UInt8) : Bytes → Option Nat
  | [] => none
  | a :: t => if a = c then some 0 else (idxOf c t).map (· + 1)

/-- `trim()` / `trimmed()`: both cut `myisspace` bytes at both ends -/
def trim (s : Bytes) : Bytes := ((s.dropWhile isSpace).reverse.dropWhile isSpace).reverse

/-- `replaceme('/', '\\')` -/
def slashToBackslash (s : Bytes) : Bytes := s.map fun c => if c = 47 then 92 else c

/-! ## `Dic<T>`: sorted association list (order = `strcmp` on NUL-free strings) -/

def bytesLt : Bytes → Bytes → Bool
  | [], [] => false
  | [], _ :: _ => true
  | _ :: _, [] => false
  | a :: s, b :: t => if a < b then true else if b < a then false else bytesLt s t

abbrev Dic (α : Type) := List (Bytes × α)

def dicGet? {α : Type} (d : Dic α) (k : Bytes) : Option α :=
  match d with
  | [] => none
  | (k', v) :: t => if k' = k then some v else dicGet? t k

def dicHas {α : Type} (d : Dic α) (k : Bytes) : Bool := (dicGet? d k).isSome

/-- `a[i].value = value` at the index `indexOf(key)` found -/
def dicReplace {α : Type} (d : Dic α) (k : Bytes) (v : α) : Dic α :=
  d.map fun kv => if kv.1 = k then (k, v) else kv

/-- `a.insert(-i-1, KeyVal(key, value))`: before the first key greater than `k` -/
def dicInsert {α : Type} (d : Dic α) (k : Bytes) (v : α) : Dic α :=
  match d with
  | [] => [(k, v)]
  | (k', v') :: t => if bytesLt k k' then (k, v) :: (k', v') :: t else (k', v') :: dicInsert t k v

/-- `set(key, value)`: `int i = indexOf(key); if (i >= 0) a[i].value = value; else a.insert(-i-1, …)` -/
def dicSet {α : Type} (d : Dic α) (k : Bytes) (v : α) : Dic α :=
  if dicHas d k then dicReplace d k v else dicInsert d k v

/-- `remove(key)` -/
def dicRemove {α : Type} (d : Dic α) (k : Bytes) : Dic α := d.filter (fun kv => kv.1 != k)

abbrev Section := Dic Bytes

/-- non-const `_sections[name]`: creates an empty section when absent -/
def touch (secs : Dic Section) (name : Bytes) : Dic Section :=
  if dicHas secs name then secs else dicSet secs name []

def secOf (secs : Dic Section) (name : Bytes) : Section := (dicGet? secs name).getD []

/-- non-const `_sections[sec][key]` read: creates section and (empty) key when absent -/
def touchKey (secs : Dic Section) (sec key : Bytes) : Dic Section :=
  let s := secOf secs sec
  if dicHas s key then touch secs sec else dicSet secs sec (dicSet s key [])

/-- `_sections[sec][key] = value` -/
def secSet (secs : Dic Section) (sec key value : Bytes) : Dic Section :=
  dicSet secs sec (dicSet (secOf secs sec) key value)

/-- value stored under `sec`/`key`, `none` when the section or the key is absent -/
def lookup (secs : Dic Section) (sec key : Bytes) : Option Bytes :=
  match dicGet? secs sec with
  | none => none
  | some s => dicGet? s key

/-! ## `TextFile::readLine()` driven by `while(!file.end())` -/

/-- `if (n > 0 && s[n-1] == '\r') n--` -/
def stripCR (l : Bytes) : Bytes := if l.getLast? = some 13 then l.dropLast else l

/-- The lines the loop `while(!file.end()) line = file.readLine();` sees (`fgets` semantics, NUL-free
    text): a line ends at LF, which is dropped together with one CR before it; at end of file the
    partial line is returned as it is and `feof` becomes true; after a final LF `feof` is still
    false, so one more (empty) line is read. `cur` is the line being accumulated. -/
def splitLF : Bytes → Bytes → List Bytes
  | [], cur => [cur]
  | c :: t, cur => if c = 10 then stripCR cur :: splitLF t [] else splitLF t (cur ++ [c])

def fileLines (text : Bytes) : List Bytes := splitLF text []

/-! ## constructor -/

structure Ini where
  sections : Dic Section
  currentTitle : Bytes
  indent : Bytes
  lines : List Bytes
  modified : Bool
  shouldwrite : Bool
  ok : Bool
deriving Repr

/-- reader loop state; `cur` is the name of the section `cursection` points to -/
structure RState where
  sections : Dic Section
  currentTitle : Bytes
  indent : Bytes
  lines : List Bytes
  cur : Bytes

/-- `i0`: `while (myisspace(line[i0]) && line[i0] != '\0') i0++` -/
def leadSpaces (line : Bytes) : Nat := (line.takeWhile isSpace).length

/-- `c != '#' && c > 47 && c != ';'` on a (signed) `char` -/
def isKeyStart (c : UInt8) : Bool := c != 35 && (47 < c && c < 128) && c != 59

/-- `if (_lines.length() > 0 && _lines.last().ok()) _lines.resize(_lines.length() - 1)` -/
def dropGarbage (lines : List Bytes) : List Bytes :=
  match lines.getLast? with
  | some l => if l.isEmpty then lines else lines.dropLast
  | none => lines

/-- what a line is to the reader / to the first loop of the writer -/
inductive Kind where
  /-- empty, comment, `[` without `]`, … : kept, no effect -/
  | skip
  /-- (reader only) first significant byte is a key start but there is no `=` beyond index 0: removed from `_lines` -/
  | garbage
  /-- `[name]…` -/
  | header (name : Bytes)
  /-- `key=value`: the bytes before and after the first `=` -/
  | kv (rawKey rawVal : Bytes)
deriving Repr, DecidableEq

/-- the branches of the reader loop body -/
def classifyR (line : Bytes) : Kind :=
  if line.isEmpty then .skip else
  let i0 := leadSpaces line
  if charAt line 0 = 91 then
    -- `int end = line.indexOf(']', 1); String name = line.substring(1, end);`
    match idxOf 93 (line.drop 1) with
    | none => .skip
    | some e => .header ((line.drop 1).take e)
  else if isKeyStart (charAt line i0) then
    -- `int i = line.indexOf('='); if (i < 1) {…; continue;}`
    match idxOf 61 line with
    | none => .garbage
    | some 0 => .garbage
    | some i => .kv (line.take i) (line.drop (i + 1))
  else .skip

/-- one iteration of the reader loop -/
def readStep (sw : Bool) (st : RState) (line : Bytes) : RState :=
  let lines := if sw then st.lines ++ [line] else st.lines
  match classifyR line with
  | .skip => { st with lines := lines }
  | .garbage => { st with lines := dropGarbage lines }
  | .header name =>
    { st with lines := lines, sections := touch st.sections name, cur := name,
              currentTitle := if st.currentTitle = nosection then name else st.currentTitle }
  | .kv rawKey rawVal =>
    let indent := if st.indent.isEmpty then line.takeWhile isSpace else st.indent
    let key := slashToBackslash (trim rawKey)
    let value := trim rawVal
    { st with lines := lines, indent := indent, sections := secSet st.sections st.cur key value }

/-- `for(i=_lines.length()-1; i>0 && _lines[i][0]=='\0'; i--) _lines.resize(_lines.length()-1)` -/
def stripTrail : List Bytes → List Bytes
  | [] => []
  | a :: t => a :: (t.reverse.dropWhile (·.isEmpty)).reverse

def finish (sw : Bool) (st : RState) : Ini :=
  let lines := stripTrail st.lines
  if (secOf st.sections nosection).isEmpty then
    { sections := dicRemove st.sections nosection, currentTitle := st.currentTitle, indent := st.indent,
      lines := lines, modified := false, shouldwrite := sw, ok := true }
  else
    { sections := st.sections, currentTitle := nosection, indent := st.indent,
      lines := lines, modified := false, shouldwrite := sw, ok := true }

def initR : RState :=
  { sections := touch [] nosection, currentTitle := nosection, indent := [], lines := [], cur := nosection }

/-- the state after reading the given lines -/
def readLines (sw : Bool) (ls : List Bytes) : Ini := finish sw (ls.foldl (readStep sw) initR)

/-- `IniFile(path, shouldwrite)` on a file holding `text` -/
def read (text : Bytes) (sw : Bool) : Ini := readLines sw (fileLines text)

/-- `IniFile(path, shouldwrite)` when the file cannot be opened -/
def readMissing (sw : Bool) : Ini :=
  { sections := [], currentTitle := nosection, indent := [], lines := [], modified := false, shouldwrite := sw, ok := false }

/-- `IniFile(path, shouldwrite)` when the path opens but cannot be read (a directory): `end()` is false before the
    first read, the read fails and returns an empty line, and `end()` (end of file **or read error**, the repaired
    `TextFile::end`) is then true: the loop sees one empty line, as for an empty file -/
def readUnreadable (sw : Bool) : Ini := readLines sw [[]]

def openFile (file : Option Bytes) (sw : Bool) : Ini :=
  match file with
  | some t => read t sw
  | none => readMissing sw

/-! ## accessors -/

/-- `const String operator[](name) const` -/
def get (ini : Ini) (name : Bytes) : Bytes :=
  match idxOf 47 name with
  | none => (lookup ini.sections ini.currentTitle name).getD []
  | some slash => (lookup ini.sections (name.take slash) (name.drop (slash + 1))).getD []

/-- `has(name)` -/
def has (ini : Ini) (name : Bytes) : Bool :=
  match idxOf 47 name with
  | none => (lookup ini.sections ini.currentTitle name).isSome
  | some slash => (lookup ini.sections (name.take slash) (name.drop (slash + 1))).isSome

/-- non-const `operator[](name) = value` -/
def put (ini : Ini) (name value : Bytes) : Ini :=
  match idxOf 47 name with
  | none => { ini with sections := secSet ini.sections ini.currentTitle name value }
  | some slash => { ini with sections := secSet ini.sections (name.take slash) (name.drop (slash + 1)) value }

/-- `set(name, value)` -/
def set (ini : Ini) (name value : Bytes) : Ini := { put ini name value with modified := true }

/-- `values()`: keys `title/key` in a fresh `Dic` -/
def values (ini : Ini) : Dic Bytes :=
  ini.sections.foldl (fun acc ts => ts.2.foldl (fun acc kv => dicSet acc (ts.1 ++ [47] ++ kv.1) kv.2) acc) []

def sectionNames (ini : Ini) : List Bytes := ini.sections.map (·.1)

/-! ## `write` -/

/-- state of the first loop; `sec` = `secname`, and `psection` points to `_sections[sec]` -/
structure W1 where
  sections : Dic Section
  newsecs : Dic Section
  sec : Bytes
  modified : Bool

/-- the branches of the body of `foreach(String& line, _lines)` in `write` (never `garbage`) -/
def classifyW (line : Bytes) : Kind :=
  let i0 := leadSpaces line
  let c := charAt line i0
  if charAt line 0 = 91 then
    -- `int end = line.indexOf(']'); String name = line.substring(1, end);`
    match idxOf 93 line with
    | none => .skip
    | some e => .header ((line.take e).drop 1)
  else if isKeyStart c then
    -- `int i = line.indexOf('='); if (i < 0) continue;`
    match idxOf 61 line with
    | none => .skip
    | some i => .kv (line.take i) (line.drop (i + 1))
  else .skip

/-- one iteration of `foreach(String& line, _lines)`: the new state and the (possibly rewritten) line -/
def writeStep (indent : Bytes) (w : W1) (line : Bytes) : W1 × Bytes :=
  match classifyW line with
  | .skip => (w, line)
  | .garbage => (w, line)
  | .header name => ({ w with sec := name, sections := touch w.sections name }, line)
  | .kv rawKey rawVal =>
    let key := trim rawKey
    let value0 := trim rawVal
    let sections := touchKey w.sections w.sec key
    let value1 := (lookup sections w.sec key).getD []
    ({ w with sections := sections,
              newsecs := dicSet w.newsecs w.sec (dicRemove (secOf w.newsecs w.sec) key),
              modified := w.modified || value0 != value1 },
     indent ++ key ++ [61] ++ value1)

def pass1 (indent : Bytes) : W1 → List Bytes → W1 × List Bytes
  | w, [] => (w, [])
  | w, l :: t =>
    let r := writeStep indent w l
    let rest := pass1 indent r.1 t
    (rest.1, r.2 :: rest.2)

/-- sections of `newsecs` whose values are all empty (or that have no entry) are removed -/
def allEmpty (s : Section) : Bool := s.all (fun kv => kv.2.isEmpty)
def pruneEmpty (newsecs : Dic Section) : Dic Section := newsecs.filter (fun ts => !allEmpty ts.2)

def startsWithBracket (l : Bytes) : Bool := charAt l 0 == 91

/-- `for(j=start; j<_lines.length() && _lines[j][0]!='['; j++) {}` -/
def scanToBracket (lines : List Bytes) (start : Nat) : Nat :=
  start + ((lines.drop start).takeWhile (fun l => !startsWithBracket l)).length

/-- `while(j>0 && _lines[j][0]=='\0') j--;` (3bcb78f) -/
def backBlank (lines : List Bytes) : Nat → Nat
  | 0 => 0
  | j + 1 => if (lines.getD (j + 1) []).isEmpty then backBlank lines j else j + 1

/-- `while(_lines[j][0]=='\0') j--;` entered with `j > 0`, no lower bound in the code:
    `none` = the scan would read `_lines[-1]` -/
def backBlankU (lines : List Bytes) : Nat → Option Nat
  | 0 => if (lines.getD 0 []).isEmpty then none else some 0
  | j + 1 => if (lines.getD (j + 1) []).isEmpty then backBlankU lines j else some (j + 1)

def headerLine (title : Bytes) : Bytes := [91] ++ title ++ [93]

/-- index of the first line equal to `h` -/
def idxOfLine (h : Bytes) : List Bytes → Option Nat
  | [] => none
  | l :: t => if l = h then some 0 else (idxOfLine h t).map (· + 1)

/-- the `for(int i=0; i<_lines.length(); i++) if (notitle || _lines[i] == '[' + title + ']') {…; break;}`
    search: the insertion index `j`, `none` when the loop ends with `j == -1` -/
def findPos (lines : List Bytes) (title : Bytes) : Option Nat :=
  let notitle := title == nosection
  let oi := if notitle then (if lines.isEmpty then none else some 0) else idxOfLine (headerLine title) lines
  oi.map fun i =>
    let k := if notitle then 0 else 1
    let jEnd := scanToBracket lines (i + k)
    -- j = jEnd - 1 (−1 when jEnd = 0); while(j>0 && blank) j--; j++
    if jEnd = 0 then 0 else backBlank lines (jEnd - 1) + 1

/-- `j=_lines.length()-1; if(j>0) while(_lines[j][0]=='\0') j--; j++;` -/
def appendPos (lines : List Bytes) : Option Nat :=
  if lines.length ≤ 1 then some lines.length
  else (backBlankU lines (lines.length - 1)).map (· + 1)

def kvLine (indent : Bytes) (kv : Bytes × Bytes) : Bytes := indent ++ kv.1 ++ [61] ++ kv.2

/-- body of the second `foreach2(title, section, newsecs)`; the `insert(j++, …)` sequence is one splice.
    `none` = out-of-bounds read -/
def placeSection (indent : Bytes) (lines : List Bytes) (title : Bytes) (sect : Section) : Option (List Bytes) :=
  if sect.isEmpty then some lines else
  let kvs := sect.map (kvLine indent)
  match findPos lines title with
  | some j => some (lines.take j ++ kvs ++ lines.drop j)
  | none =>
    match appendPos lines with
    | none => none
    | some j =>
      let sep : List Bytes := if lines.length > 0 then [[]] else []
      some (lines.take j ++ sep ++ [headerLine title] ++ kvs ++ lines.drop j)

def pass2 (indent : Bytes) : List Bytes → Dic Section → Option (List Bytes)
  | lines, [] => some lines
  | lines, (title, sect) :: t =>
    match placeSection indent lines title sect with
    | none => none
    | some lines' => pass2 indent lines' t

/-- the lines `write` puts into the file, `file << line << '\n'` each -/
def joinLines (ls : List Bytes) : Bytes := ls.flatMap (· ++ [10])

structure WriteResult where
  ini : Ini
  /-- `some text` when the file was (re)written -/
  text : Option Bytes

/-- `write()`; `none` = an out-of-bounds read in the second loop -/
def write (ini : Ini) : Option WriteResult :=
  let newsecs := ini.sections
  let w0 : W1 := { sections := touch ini.sections nosection, newsecs := newsecs, sec := nosection, modified := ini.modified }
  let r := pass1 ini.indent w0 ini.lines
  let pruned := pruneEmpty r.1.newsecs
  match pass2 ini.indent r.2 pruned with
  | none => none
  | some out =>
    let modified := r.1.modified || pruned.any (fun ts => !ts.2.isEmpty)
    some { ini := { ini with sections := r.1.sections, modified := modified },
           text := if modified then some (joinLines out) else none }

end AslModel.Ini
