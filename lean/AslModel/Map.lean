/-!
# Executable model of `asl::Map<K,T>` / `asl::Dic<T>` (include/asl/Map.h) — core Lean only

The storage `Array<KeyVal> a` is a `List (K × V)`.  Every function below transcribes what the C++ member
*does* (including the hand-written binary search with its encoded result), not what it should do.
`cmp` is `asl::compare(a, b)` reduced to its sign (`<0`, `0`, `>0`).  An array read outside `[0, length)`
makes the model return `none` (the theorems show this never happens on an ascending array).
-/
namespace AslModel.Map

variable {K V : Type}

/-- `a.insert(p, x)` of `Array<T>` for `0 ≤ p ≤ n` (memmove of the tail by one slot, then construct) -/
def insertAt (l : List (K × V)) (p : Nat) (x : K × V) : List (K × V) :=
  l.take p ++ x :: l.drop p

/-- `a[i].value = v` (the stored key is untouched) -/
def setValAt : List (K × V) → Nat → V → List (K × V)
  | [], _, _ => []
  | (k, _) :: t, 0, v => (k, v) :: t
  | kv :: t, i + 1, v => kv :: setValAt t i v

/-- The `do { … } while (max-min > 1)` loop of `Map::indexOf` and the code after it, entered with
`(min, max, mid)`.  The result is the C++ `int`: an index `≥ 0`, or `-(insertion point)-1`.
`fuel` bounds the number of iterations (`length+1` always suffices; `none` = fuel exhausted or a read
outside the array). -/
def loop (cmp : K → K → Ordering) (l : List (K × V)) (key : K) : Nat → Nat → Nat → Nat → Option Int
  | 0, _, _, _ => none
  | fuel + 1, mn, mx, mid =>
    match l[mid]? with
    | none => none
    | some kv =>
      let c := cmp kv.1 key
      if c = .eq then some (mid : Int) else
      let mn' := if c = .lt then mid else mn
      let mx' := if c = .lt then mx else mid
      if mx' - mn' > 1 then loop cmp l key fuel mn' mx' ((mx' + mn') / 2)
      else if mn' = mx' then (if c = .lt then some (-(mx' : Int) - 2) else some (-1))
      else
        match l[mn']? with
        | none => none
        | some kw =>
          let c2 := cmp kw.1 key
          if c2 = .eq then some (mn' : Int)
          else if c2 = .lt then some (-(mx' : Int) - 1)
          else some (-(mn' : Int) - 1)

/-- `int Map::indexOf(const K& key) const` -/
def indexOf (cmp : K → K → Ordering) (l : List (K × V)) (key : K) : Option Int :=
  if l.length = 0 then some (-1)
  else loop cmp l key (l.length + 1) 0 (l.length - 1) (l.length - 1)

/-- `Map& set(key, value)` -/
def set (cmp : K → K → Ordering) (l : List (K × V)) (key : K) (value : V) : Option (List (K × V)) :=
  match indexOf cmp l key with
  | none => none
  | some i =>
    if i ≥ 0 then some (setValAt l i.toNat value)
    else some (insertAt l (-i - 1).toNat (key, value))

/-- non-const `T& operator[](key)`: the (possibly grown) array and the position of the referenced slot -/
def index (cmp : K → K → Ordering) (l : List (K × V)) (key : K) (dflt : V) : Option (List (K × V) × Nat) :=
  match indexOf cmp l key with
  | none => none
  | some i =>
    if i ≥ 0 then some (l, i.toNat)
    else some (insertAt l (-i - 1).toNat (key, dflt), (-i - 1).toNat)

/-- `m[key] = value` -/
def assign (cmp : K → K → Ordering) (l : List (K × V)) (key : K) (dflt value : V) : Option (List (K × V)) :=
  match index cmp l key dflt with
  | none => none
  | some (l', p) => some (setValAt l' p value)

/-- `find(key)`: pointer to the value or NULL -/
def find (cmp : K → K → Ordering) (l : List (K × V)) (key : K) : Option (Option V) :=
  match indexOf cmp l key with
  | none => none
  | some i => if i ≥ 0 then some (l[i.toNat]?.map (·.2)) else some none

/-- `has(key)` -/
def has (cmp : K → K → Ordering) (l : List (K × V)) (key : K) : Option Bool :=
  match indexOf cmp l key with
  | none => none
  | some i => some (decide (i ≥ 0))

/-- `get(key, def)` and the const `operator[]` (with `def = T()`) -/
def get (cmp : K → K → Ordering) (l : List (K × V)) (key : K) (dflt : V) : Option V :=
  match find cmp l key with
  | none => none
  | some r => some (r.getD dflt)

/-- `bool remove(key)`: `Array::remove(i)` shifts the tail down -/
def remove (cmp : K → K → Ordering) (l : List (K × V)) (key : K) : Option (List (K × V) × Bool) :=
  match indexOf cmp l key with
  | none => none
  | some i => if i ≥ 0 then some (l.eraseIdx i.toNat, true) else some (l, false)

/-- `void add(const Map& d)`: `(*this)[d.a[i].key] = d.a[i].value` for every `i` in order -/
def add (cmp : K → K → Ordering) (dflt : V) (l : List (K × V)) (d : List (K × V)) : Option (List (K × V)) :=
  d.foldl (fun acc kv => match acc with
    | none => none
    | some a => assign cmp a kv.1 dflt kv.2) (some l)

/-- `template<class K2, class T2> Map(const Map<K2,T2>& b)`: `foreach2(K2& k, const T2& v, b) { T _v = v; K _k = k; set(_k, _v); }`
on the empty map; `fk`/`fv` are the implicit conversions `K2 -> K`, `T2 -> T` (ANY functions: a key conversion need not keep
the order of the keys nor keep different keys different).  `Dic<T>(const Dic<T2>&)` goes through this constructor too. -/
def convert {K2 V2 : Type} (cmp : K → K → Ordering) (fk : K2 → K) (fv : V2 → V) (b : List (K2 × V2)) : Option (List (K × V)) :=
  b.foldl (fun acc kv => match acc with
    | none => none
    | some a => set cmp a (fk kv.1) (fv kv.2)) (some [])

/-- `template<class K2, class T2> Dic(const Map<K2,T2>& b)`: `foreach2(K2& k, const T2& v, b) (*this)[k] = v;` -/
def convertDic {K2 V2 : Type} (cmp : K → K → Ordering) (dflt : V) (fk : K2 → K) (fv : V2 → V) (b : List (K2 × V2)) : Option (List (K × V)) :=
  b.foldl (fun acc kv => match acc with
    | none => none
    | some a => assign cmp a (fk kv.1) dflt (fv kv.2)) (some [])

/-- `Map clone() const`: `Map b(*this); return b.dup();` — an element-wise copy of the array -/
def clone (l : List (K × V)) : List (K × V) := l.map (fun kv => (kv.1, kv.2))

/-- `Array<K> keys()` -/
def keys (l : List (K × V)) : List K := l.map (·.1)

/-- `Map::Enumerator` / `foreach2` / range-for over `kv()`: `for(i = 0; i < length(); i++) yield a[i]`; a read
outside the array makes the walk `none`; `fuel` bounds the iterations -/
def walkFrom (l : List (K × V)) : Nat → Nat → Option (List (K × V))
  | 0, _ => none
  | f + 1, i =>
    if i < l.length then
      match l[i]? with
      | none => none
      | some kv => (walkFrom l f (i + 1)).map (kv :: ·)
    else some []

def walk (l : List (K × V)) : Option (List (K × V)) := walkFrom l (l.length + 1) 0

/-- `operator==`: equal lengths and pairwise equal keys and values at the same positions -/
def eq [DecidableEq K] [DecidableEq V] (a b : List (K × V)) : Bool :=
  if a.length ≠ b.length then false
  else (a.zip b).all (fun p => decide (p.1.1 = p.2.1) && decide (p.1.2 = p.2.2))

/-! ## the two key comparisons used by the harness -/

/-- `compare<int>(a, b)` : `(a<b)? -1 : (a==b)? 0 : 1` -/
def cmpInt (a b : Int) : Ordering := if a < b then .lt else if a = b then .eq else .gt

/-- `String::compare` = libc `strcmp` on NUL-free byte strings: first differing byte decides (unsigned),
a proper prefix is smaller -/
def cmpBytes : List UInt8 → List UInt8 → Ordering
  | [], [] => .eq
  | [], _ :: _ => .lt
  | _ :: _, [] => .gt
  | a :: s, b :: t => if a < b then .lt else if a = b then cmpBytes s t else .gt

end AslModel.Map
