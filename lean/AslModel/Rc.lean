/-!
# C12 — reference-count protocol of asl's shared handles, atomic counters and mutex-protected variables
as an interleaving model (core Lean only).

A configuration has shared *objects* (a reference count, an `alive` flag, a count of releases),
*counters* (`AtomicCount`), mutexes and `Atomic<T>` payloads, and any number of *threads*.
A thread is a program of atomic steps plus what it owns: the multiset `held` of objects it has a
handle to.  The steps are exactly the library's hook points (`asl_verif_point`): one step = the
atomic operation announced at the point, then thread-local code up to the next point.

* `inc o`  — `atomicInc(&rc)`: one more handle, owned by the executing thread
* `dec o`  — `atomicDec(&rc)`: gives one handle up; when the result is 0 the *same thread* must
             release the storage: its next step is the implicit `free o` (`pending`)
* `use o`  — the thread reads the object's payload through one of its handles (no hook point of its own)
* `add c d` — `AtomicCount` increment and decrement operators
* `lock m` / `unlock m`, `load x` / `store x d` — `Atomic<T>` operators: `Lock _(mutex); x = x + d`

`bad` records the first memory error (touching released storage, releasing twice) or protocol
misuse (a thread incrementing/decrementing an object it holds no handle to).
-/
namespace AslModel.Rc

inductive Step where
  | inc (o : Nat)
  | dec (o : Nat)
  | use (o : Nat)
  | add (c : Nat) (d : Int)
  | lock (m : Nat)
  | unlock (m : Nat)
  | load (x : Nat)
  | store (x : Nat) (d : Int)
deriving Repr, DecidableEq, Inhabited

structure Thr where
  prog : List Step
  held : List Nat            -- one entry per handle this thread owns
  pending : Option Nat       -- object whose storage this thread must release next
  tmp : Int                  -- register of the non-atomic read-upd-write
deriving Repr, DecidableEq, Inhabited

inductive Bad where
  | misuse (t : Nat) (o : Nat)        -- inc/dec/use of an object the thread holds no handle to
  | touchDead (t : Nat) (o : Nat)     -- inc/dec/use on released storage
  | doubleFree (t : Nat) (o : Nat)
deriving Repr, DecidableEq

structure Cfg where
  rc : List Int
  alive : List Bool
  frees : List Nat
  ctr : List Int
  mtx : List Bool
  vars : List Int
  thrs : List Thr
  bad : Option Bad
deriving Repr, DecidableEq

def upd {α} (l : List α) (i : Nat) (f : α → α) : List α :=
  match l[i]? with
  | some a => l.set i (f a)
  | none => l

/-- is thread `t` able to take a step? (finished threads and threads waiting for a held mutex are not) -/
def enabled (c : Cfg) (t : Nat) : Bool :=
  match c.thrs[t]? with
  | none => false
  | some th =>
    match th.pending with
    | some _ => true
    | none =>
      match th.prog with
      | [] => false
      | Step.lock m :: _ => !(c.mtx.getD m false)
      | _ => true

/-- one step of thread `t` (which must be enabled; otherwise the configuration is unchanged) -/
def step (c : Cfg) (t : Nat) : Cfg :=
  if c.bad.isSome then c else
  match c.thrs[t]? with
  | none => c
  | some th =>
    match th.pending with
    | some o =>
      -- release the storage of `o`
      if c.alive.getD o false then
        { c with alive := c.alive.set o false, frees := upd c.frees o (· + 1),
                 thrs := c.thrs.set t { th with pending := none } }
      else { c with bad := some (Bad.doubleFree t o) }
    | none =>
      match th.prog with
      | [] => c
      | Step.inc o :: rest =>
        if !(th.held.contains o) then { c with bad := some (Bad.misuse t o) }
        else if !(c.alive.getD o false) then { c with bad := some (Bad.touchDead t o) }
        else { c with rc := upd c.rc o (· + 1),
                      thrs := c.thrs.set t { th with prog := rest, held := o :: th.held } }
      | Step.dec o :: rest =>
        if !(th.held.contains o) then { c with bad := some (Bad.misuse t o) }
        else if !(c.alive.getD o false) then { c with bad := some (Bad.touchDead t o) }
        else
          let r := c.rc.getD o 0 - 1
          { c with rc := upd c.rc o (· - 1),
                   thrs := c.thrs.set t { th with prog := rest, held := th.held.erase o,
                                                  pending := if r = 0 then some o else none } }
      | Step.use o :: rest =>
        if !(th.held.contains o) then { c with bad := some (Bad.misuse t o) }
        else if !(c.alive.getD o false) then { c with bad := some (Bad.touchDead t o) }
        else { c with thrs := c.thrs.set t { th with prog := rest } }
      | Step.add k d :: rest =>
        { c with ctr := upd c.ctr k (· + d), thrs := c.thrs.set t { th with prog := rest } }
      | Step.lock m :: rest =>
        if c.mtx.getD m false then c
        else { c with mtx := c.mtx.set m true, thrs := c.thrs.set t { th with prog := rest } }
      | Step.unlock m :: rest =>
        { c with mtx := c.mtx.set m false, thrs := c.thrs.set t { th with prog := rest } }
      | Step.load x :: rest =>
        { c with thrs := c.thrs.set t { th with prog := rest, tmp := c.vars.getD x 0 } }
      | Step.store x d :: rest =>
        { c with vars := c.vars.set x (th.tmp + d), thrs := c.thrs.set t { th with prog := rest } }

/-- run a schedule (a list of thread ids); ids of threads that are not enabled are skipped -/
def run (c : Cfg) : List Nat → Cfg
  | [] => c
  | t :: s => run (if enabled c t then step c t else c) s

/-- all threads have finished -/
def done (c : Cfg) : Bool := c.thrs.all fun th => th.prog.isEmpty && th.pending.isNone

/-- thread-local validity of a program: every `inc`/`dec` of `o` happens while the thread itself
    holds a handle to `o` (so it can be checked by running the thread alone) -/
def wfProg : List Nat → List Step → Bool
  | _, [] => true
  | held, Step.inc o :: rest => held.contains o && wfProg (o :: held) rest
  | held, Step.dec o :: rest => held.contains o && wfProg (held.erase o) rest
  | held, Step.use o :: rest => held.contains o && wfProg held rest
  | held, _ :: rest => wfProg held rest

def wfThr (th : Thr) : Bool := wfProg th.held th.prog

/-- handles to `o` over all threads -/
def heldCount (thrs : List Thr) (o : Nat) : Nat := (thrs.map fun th => th.held.count o).sum

def pendCount (thrs : List Thr) (o : Nat) : Nat :=
  (thrs.map fun th => if th.pending = some o then 1 else 0).sum

/-- initial configuration: `nobj` live objects; the counts are those of the given handle sets -/
def mkCfg (nobj : Nat) (thrs : List Thr) (ctr : List Int) (nmtx : Nat) (vars : List Int) : Cfg :=
  { rc := (List.range nobj).map fun o => (heldCount thrs o : Int),
    alive := List.replicate nobj true, frees := List.replicate nobj 0,
    ctr := ctr, mtx := List.replicate nmtx false, vars := vars, thrs := thrs, bad := none }

/-! ### the same operations with a non-atomic increment (`ASL_THREAD_UNSAFE`-style `++*x`):
used only to show that the atomicity hypothesis is not vacuous -/

/-- a lost update: two threads each doing `tmp := x; x := tmp + 1` without a lock -/
def racyIncr : Cfg :=
  { rc := [], alive := [], frees := [], ctr := [], mtx := [], vars := [0], bad := none,
    thrs := [⟨[Step.load 0, Step.store 0 1], [], none, 0⟩, ⟨[Step.load 0, Step.store 0 1], [], none, 0⟩] }

/-! ### exhaustive exploration (used by the driver; the theorems do not depend on it) -/

structure Summary where
  schedules : Nat
  badRuns : Nat
  outcomes : List String
deriving Repr

def outcome (c : Cfg) : String :=
  s!"frees={c.frees} alive={c.alive} rc={c.rc} ctr={c.ctr} vars={c.vars} bad={c.bad.isSome}"

def insertUniq (s : String) (l : List String) : List String := if l.contains s then l else s :: l

/-- depth-first enumeration of all maximal schedules; `chk` is evaluated in every visited state -/
partial def explore (chk : Cfg → Bool) (c : Cfg) (acc : Summary × Bool) : Summary × Bool :=
  let (sm, ok) := acc
  let ok := ok && chk c
  let en := (List.range c.thrs.length).filter (enabled c)
  if c.bad.isSome || en.isEmpty then
    ({ schedules := sm.schedules + 1, badRuns := sm.badRuns + (if c.bad.isSome || !done c then 1 else 0),
       outcomes := insertUniq (outcome c) sm.outcomes }, ok)
  else en.foldl (fun a t => explore chk (step c t) a) (sm, ok)

end AslModel.Rc
