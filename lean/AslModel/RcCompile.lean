import AslModel.Rc
import Gen.ShapesGen
/-!
# C12 — compiling a scenario's thread programs from the recorded operation shapes

`compileOps` turns a thread's list of handle operations (`c<i>` copy handle i, `x` drop the last handle,
`a<i><j>` assign handle j to handle i, `u<i>` read the payload through handle i) into the atomic steps of the interleaving model, using the shapes
recorded from the instrumented library.  Used by the model driver and by the theorems (core Lean only).
-/
open AslModel.Rc Gen.Shapes
namespace AslModel.RcCompile

/-- model object id of counter `cnt` of logical object `obj` -/
def oid (k : Kind) (obj cnt : Nat) : Nat := obj * k.counters + cnt

/-- shape events → model steps (releases are implicit in the model: they follow a decrement to 0) -/
def evSteps (k : Kind) (roleObj : Nat → Nat) (evs : List Ev) : List Step :=
  evs.filterMap fun e => match e with
    | Ev.inc r c => some (Step.inc (oid k (roleObj r) c))
    | Ev.dec r c => some (Step.dec (oid k (roleObj r) c))
    | _ => none

/-- the model handles a thread owns to logical object `o` (one per counter of the handle type) -/
def objHandles (k : Kind) (o : Nat) : List Nat := (List.range k.counters).map (oid k o)

/-- compile one thread's program; `hs` = logical objects behind the thread's handles -/
def compileOps (k : Kind) : List String → List Nat → List Step
  | [], hs => hs.reverse.flatMap fun o => evSteps k (fun _ => o) k.dropNotLast
  | op :: rest, hs =>
    let n := hs.length
    if n == 0 then compileOps k rest hs else
    let cs := op.toList
    let dig (c : Char) : Nat := c.toNat - '0'.toNat
    match cs with
    | ['c', i] =>
      let o := hs.getD (dig i % n) 0
      evSteps k (fun _ => o) k.copy ++ compileOps k rest (hs ++ [o])
    | ['u', i] =>
      -- read the payload through handle i (all of the object's counters must be held and alive)
      let o := hs.getD (dig i % n) 0
      (objHandles k o).map Step.use ++ compileOps k rest hs
    | ['x'] =>
      let o := hs.getD (n - 1) 0
      evSteps k (fun _ => o) k.dropNotLast ++ compileOps k rest hs.dropLast
    | ['a', i, j] =>
      let i' := dig i % n
      let j' := dig j % n
      let od := hs.getD i' 0
      let os := hs.getD j' 0
      let shape := if i' == j' then k.assignSelf else if od == os then k.assignSameObj else k.assignDiff
      evSteps k (fun r => if r == 0 then od else os) shape ++ compileOps k rest (hs.set i' os)
    | _ => compileOps k rest hs


/-- all model handles behind the logical handle list `hs` -/
def heldOf (k : Kind) (hs : List Nat) : List Nat := hs.flatMap (objHandles k)

/-- a scenario thread: starts with one handle to each of the two logical objects and runs the compiled program -/
def scenThr (k : Kind) (ops : List String) : Thr :=
  { prog := compileOps k ops [0, 1], held := heldOf k [0, 1], pending := none, tmp := 0 }

/-- the configuration the driver explores for a handle scenario (one op list per thread) -/
def scenCfg (k : Kind) (progs : List (List String)) : Cfg :=
  mkCfg (2 * k.counters) (progs.map (scenThr k)) [0] 1 [0]

end AslModel.RcCompile
