/-!
# C12 — handles stored inside shared objects: the assignment protocol of Array / Map / HashMap / Shared

`AslModel/Rc.lean` lets *threads* own handles.  Here the shared objects themselves contain handles
(an `Array<Node>` block whose elements have a member `Array<Node> kids`, a map whose values hold maps …),
so that releasing an object releases, in turn, the handles stored in it.  This is what makes the order
of the two halves of an assignment matter: in `a = a[0].kids` the source handle lives inside the block
that the destination is about to release.

* an object (`Obj`) is a reference-counted block: its count, whether its storage is still allocated, and
  the targets of the handles stored in it (`inner`), in element order;
* `roots` are the targets of the program's handle variables;
* `release` is the destructor cascade: decrement; on reaching 0 free the block and release every handle
  it contained (a work list, so the model is total and the cascade order is explicit);
* `assign acqFirst dst src` is `*dst = *src` for two handle locations, with the code's guard
  `if (this == &b) return`.  `acqFirst = true` is the order of the current code (copy the source handle,
  swap, let the copy release the old block); `acqFirst = false` is the order the containers had before
  (release own block, then read and acquire the source).

Order of the three steps inside an acquire-first assignment: the model does *increment, store, release the old object*
(the `Array old(b); bswap` order of Array / Map / HashMap).  `Shared::operator=` stores before it increments and
`SmartObject::operator=` releases before it stores (`++p->rc; unref(); _p = p;`).  These differ only in when the destination
place is overwritten relative to the cascade; the cascade never reads the destination place (it reads the `inner` lists of
the objects it frees, and the object containing `dst` is pinned by the path from a program variable along which `dst` was
reached), so the resulting heaps are equal.  That argument is not mechanised: the theorems are about the modelled order, and
the agreement for `shared` / `smart` is what the `nest` correspondence runs check.

Core Lean only.
-/
namespace AslModel.RcNest

structure Obj where
  rc : Nat
  alive : Bool
  inner : List Nat
deriving Repr, DecidableEq, Inhabited

structure Heap where
  objs : List Obj
  roots : List Nat
  bad : Bool          -- released storage was read or written, or a count of released storage was changed
deriving Repr, DecidableEq, Inhabited

/-- where a handle is stored: in program variable `i`, or as the `i`-th handle inside object `o` -/
inductive Loc where
  | root (i : Nat)
  | inObj (o : Nat) (i : Nat)
deriving Repr, DecidableEq, Inhabited

def aliveAt (h : Heap) (o : Nat) : Bool := match h.objs[o]? with
  | some ob => ob.alive
  | none => false

def rcAt (h : Heap) (o : Nat) : Nat := match h.objs[o]? with
  | some ob => ob.rc
  | none => 0

/-- the handle stored at `l`, if `l` is a place in live storage -/
def readLoc (h : Heap) : Loc → Option Nat
  | Loc.root i => h.roots[i]?
  | Loc.inObj o i => match h.objs[o]? with
    | some ob => if ob.alive then ob.inner[i]? else none
    | none => none

/-- overwrite the handle stored at `l` (no counting: the callers do that) -/
def writeLoc (h : Heap) (l : Loc) (t : Nat) : Heap := match l with
  | Loc.root i => { h with roots := h.roots.set i t }
  | Loc.inObj o i => match h.objs[o]? with
    | some ob => { h with objs := h.objs.set o { ob with inner := ob.inner.set i t } }
    | none => h

/-- is `l` a place in live storage? -/
def locLive (h : Heap) (l : Loc) : Bool := (readLoc h l).isSome

/-- `++rc` through a handle to `o` -/
def incr (h : Heap) (o : Nat) : Heap := match h.objs[o]? with
  | some ob => if ob.alive then { h with objs := h.objs.set o { ob with rc := ob.rc + 1 } } else { h with bad := true }
  | none => { h with bad := true }

/-- the destructor cascade for the handles in the work list (fuel: see `fuelFor`) -/
def release : Nat → List Nat → Heap → Heap × List Nat
  | 0, w, h => (h, w)
  | _, [], h => (h, [])
  | f + 1, o :: w, h =>
    match h.objs[o]? with
    | none => ({ h with bad := true }, w)
    | some ob =>
      if !ob.alive || ob.rc == 0 then ({ h with bad := true }, w)
      else if ob.rc == 1 then
        release f (ob.inner ++ w) { h with objs := h.objs.set o { ob with rc := 0, alive := false } }
      else release f w { h with objs := h.objs.set o { ob with rc := ob.rc - 1 } }

/-- number of handles stored in live objects -/
def storedIn (objs : List Obj) : Nat := (objs.map fun ob => if ob.alive then ob.inner.length else 0).sum

/-- enough fuel to run the cascade for a work list `w` to its end -/
def fuelFor (h : Heap) (w : List Nat) : Nat := w.length + storedIn h.objs + 1

/-- the "no object" value a handle location holds while its owner has released the old block and not yet
    stored the new one (only the release-first order has such a moment) -/
def hole (h : Heap) : Nat := h.objs.length

/-- `*dst = *src` -/
def assign (acqFirst : Bool) (h : Heap) (dst src : Loc) : Heap :=
  if h.bad then h else
  if dst = src then h else                     -- `if (this == &b) return *this;`
  match readLoc h dst with
  | none => { h with bad := true }             -- the destination itself is not in live storage
  | some d =>
    if acqFirst then
      match readLoc h src with
      | none => { h with bad := true }
      | some s =>
        let h1 := incr h s                       -- `Array old(b);`
        if h1.bad then h1 else
        let h2 := writeLoc h1 dst s              -- `bswap(_a, old._a);`
        (release (fuelFor h2 [d]) [d] h2).1      -- `~old`
    else
      let h0 := writeLoc h dst (hole h)
      let h1 := (release (fuelFor h0 [d]) [d] h0).1     -- `if (--rc == 0) free();`
      if h1.bad then h1 else
      match readLoc h1 src with                   -- `_a = b._a;`
      | none => { h1 with bad := true }
      | some s =>
        let h2 := incr h1 s                       -- `++rc;`
        if h2.bad then h2 else writeLoc h2 dst s

/-- the last program variable goes out of scope (`~Array`) -/
def dropRoot (h : Heap) : Heap :=
  if h.bad then h else
  match h.roots.getLast? with
  | none => h
  | some d =>
    let h0 := { h with roots := h.roots.dropLast }
    (release (fuelFor h0 [d]) [d] h0).1

/-! ### the invariant -/

/-- handles to `o`: in program variables, stored in live objects, and in the work list `w` -/
def handles (h : Heap) (w : List Nat) (o : Nat) : Nat :=
  h.roots.count o + (h.objs.map fun ob => if ob.alive then ob.inner.count o else 0).sum + w.count o

/-- every live object's count is the number of handles to it, and nothing points to released storage -/
def Inv (h : Heap) (w : List Nat) : Prop :=
  ∀ o, handles h w o = if aliveAt h o then rcAt h o else 0

/-- decidable form of the invariant for concrete heaps (objects that can be mentioned are `< bound`) -/
def invB (h : Heap) (w : List Nat) (bound : Nat) : Bool :=
  (List.range bound).all fun o => handles h w o == (if aliveAt h o then rcAt h o else 0)

/-! ### building a heap from a description (driver and examples) -/

/-- `descr[b]` = kids targets of the elements of block `b`; `roots` = targets of the program variables.
    Built as the harness builds it: one construction handle per block, counts from all handles, then the
    construction handles are dropped. -/
def build (descr : List (List Nat)) (roots : List Nat) : Heap :=
  let n := descr.length
  let cnt (o : Nat) : Nat := roots.count o + (descr.map fun inn => inn.count o).sum + 1
  let objs := (List.range n).map fun b => ({ rc := cnt b, alive := true, inner := descr.getD b [] } : Obj)
  let h0 : Heap := { objs := objs, roots := roots, bad := false }
  (release (n + storedIn objs + 1) (List.range n) h0).1

/-- every handle of the description points at one of its blocks -/
def wfDescr (descr : List (List Nat)) (roots : List Nat) : Bool :=
  roots.all (· < descr.length) && descr.all fun inn => inn.all (· < descr.length)

/-- indices of the live blocks -/
def liveBlocks (h : Heap) : List Nat := (List.range h.objs.length).filter (aliveAt h)


/-! ### what the recorded shape of an assignment says about its order -/

/-- in a recorded list of reference-count events (`true` = increment, `false` = decrement or release):
    is there an increment, and does every increment come before the first decrement or release? -/
def incsFirst : List Bool → Bool
  | [] => false
  | true :: rest => rest.dropWhile (· == true) |>.all (· == false)
  | false :: _ => false

/-! ### programs: sequences of assignments between handle places reached by paths -/

/-- `r.e₁.e₂…`: program variable `r`, then the `e₁`-th handle stored in the object it points to, … -/
structure Path where
  root : Nat
  elems : List Nat
deriving Repr, DecidableEq, Inhabited

/-- the place a path denotes in the current heap (none: an index is out of range — the harness skips the operation) -/
def resolve (h : Heap) (p : Path) : Option Loc :=
  let rec go (cur : Loc) : List Nat → Option Loc
    | [] => if locLive h cur then some cur else none
    | e :: es => match readLoc h cur with
      | some t => go (Loc.inObj t e) es
      | none => none
  go (Loc.root p.root) p.elems

inductive Op where
  | assign (dst src : Path)
  | drop                           -- the last program variable goes out of scope
deriving Repr, DecidableEq, Inhabited

def runOp (acqFirst : Bool) (h : Heap) : Op → Heap
  | Op.assign d s => match resolve h d, resolve h s with
    | some dl, some sl => assign acqFirst h dl sl
    | _, _ => h
  | Op.drop => dropRoot h

def runOps (acqFirst : Bool) (h : Heap) (ops : List Op) : Heap := ops.foldl (runOp acqFirst) h

end AslModel.RcNest
