import AslModel.RcNest
/-!
# C12 — the three statement orders of an acquire-first handle assignment

`AslModel/RcNest.lean` models `*dst = *src` in the order of Array / Map / HashMap: *increment the source's count, store,
release the old object*.  The other two handle classes order the same three steps differently:

* `Shared::operator=` (include/asl/Pointer.h): `t = _p; _p = r._p; ref(); if (t) t->unref();` — *store, increment
  (through the stored pointer), release*;
* `SmartObject::operator=`: `++p->rc; unref(); _p = p;` — *increment, release, store*: the destination place is written
  after the destructor cascade, so it has to be still in live storage then (`storeChecked`).

Core Lean only.
-/
namespace AslModel.RcNest

/-- the object a handle place is stored in (`none`: a program variable) -/
def container : Loc → Option Nat
  | Loc.root _ => none
  | Loc.inObj o _ => some o

/-- the place's container is a program variable or an object that is still allocated -/
def containerAlive (h : Heap) (l : Loc) : Bool := match container l with
  | none => true
  | some o => aliveAt h o

/-- a store into a handle place whose container must still be allocated (a store into a freed object is the
    use-after-free the order of `SmartObject::operator=` would commit if the cascade freed the destination's container) -/
def storeChecked (h : Heap) (l : Loc) (t : Nat) : Heap :=
  if containerAlive h l then writeLoc h l t else { h with bad := true }

inductive Order where
  | array     -- increment, store, release   (`assign true`)
  | shared    -- store, increment, release
  | smart     -- increment, release, store
deriving Repr, DecidableEq, Inhabited

/-- `*dst = *src`, acquire-first, in the given statement order -/
def assignOrd (ord : Order) (h : Heap) (dst src : Loc) : Heap :=
  if h.bad then h else
  if dst = src then h else
  match readLoc h dst with
  | none => { h with bad := true }
  | some d =>
    match readLoc h src with
    | none => { h with bad := true }
    | some s =>
      match ord with
      | Order.array =>
        let h1 := incr h s
        if h1.bad then h1 else
        let h2 := writeLoc h1 dst s
        (release (fuelFor h2 [d]) [d] h2).1
      | Order.shared =>
        let h1 := writeLoc h dst s
        let h2 := incr h1 s
        if h2.bad then { h with bad := true } else
        (release (fuelFor h2 [d]) [d] h2).1
      | Order.smart =>
        let h1 := incr h s
        if h1.bad then h1 else
        let h2 := (release (fuelFor h1 [d]) [d] h1).1
        if h2.bad then h2 else storeChecked h2 dst s

def runOpOrd (ord : Order) (h : Heap) : Op → Heap
  | Op.assign d s => match resolve h d, resolve h s with
    | some dl, some sl => assignOrd ord h dl sl
    | _, _ => h
  | Op.drop => dropRoot h

def runOpsOrd (ord : Order) (h : Heap) (ops : List Op) : Heap := ops.foldl (runOpOrd ord) h

end AslModel.RcNest
