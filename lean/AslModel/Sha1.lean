/-!
# C15 — SHA-1: the streaming implementation of src/SHA1.cpp and the FIPS 180-4 specification

`Impl.*` follows the code: a 64-byte buffer filled by `update`, a bit counter, `transform` with the
in-place *circular 16-word* message schedule (`blk`), `end()` padding through repeated 1-byte
`update`s.  `Fips.*` is written from FIPS 180-4 §5.1.1/§6.1: pad the whole message, 80-word
schedule, fold the compression function over the blocks.  Core Lean only.
-/
namespace AslModel.Sha1

abbrev W := UInt32

def rol (x : W) (n : Nat) : W := (x <<< UInt32.ofNat n) ||| (x >>> UInt32.ofNat (32 - n))

structure St where
  a : W
  b : W
  c : W
  d : W
  e : W
deriving Repr, DecidableEq, Inhabited

def init : St := ⟨0x67452301, 0xEFCDAB89, 0x98BADCFE, 0x10325476, 0xC3D2E1F0⟩

/-- round function and constant of round `t` (FIPS 180-4 §4.1.1, §4.2.1; the code's R0..R4) -/
def f (t : Nat) (b c d : W) : W :=
  if t < 20 then (b &&& (c ^^^ d)) ^^^ d          -- = Ch, as the code writes it
  else if t < 40 then b ^^^ c ^^^ d
  else if t < 60 then ((b ||| c) &&& d) ||| (b &&& c)   -- = Maj, as the code writes it
  else b ^^^ c ^^^ d

def k (t : Nat) : W :=
  if t < 20 then 0x5A827999 else if t < 40 then 0x6ED9EBA1 else if t < 60 then 0x8F1BBCDC else 0xCA62C1D6

/-- one round with message word `w` -/
def round (t : Nat) (s : St) (w : W) : St :=
  ⟨rol s.a 5 + f t s.b s.c s.d + s.e + k t + w, s.a, rol s.b 30, s.c, s.d⟩

def be32 (b0 b1 b2 b3 : UInt8) : W :=
  (b0.toUInt32 <<< 24) ||| (b1.toUInt32 <<< 16) ||| (b2.toUInt32 <<< 8) ||| b3.toUInt32

def words : List UInt8 → List W
  | b0 :: b1 :: b2 :: b3 :: t => be32 b0 b1 b2 b3 :: words t
  | _ => []

namespace Impl

/-- rounds `t .. 79` over the circular 16-word block `blk` (an `Array` indexed `i &&& 15`) -/
def rounds (blk : Array W) (s : St) (t : Nat) (fuel : Nat) : St :=
  match fuel with
  | 0 => s
  | fuel + 1 =>
    if t < 16 then
      rounds blk (round t s (blk.getD t 0)) (t + 1) fuel
    else
      let w := rol (blk.getD ((t + 13) % 16) 0 ^^^ blk.getD ((t + 8) % 16) 0 ^^^ blk.getD ((t + 2) % 16) 0 ^^^ blk.getD (t % 16) 0) 1
      let blk := blk.setIfInBounds (t % 16) w
      rounds blk (round t s w) (t + 1) fuel

/-- `SHA1::transform` -/
def transform (h : St) (block : List UInt8) : St :=
  let r := rounds (words block).toArray h 0 80
  ⟨h.a + r.a, h.b + r.b, h.c + r.c, h.d + r.d, h.e + r.e⟩

structure Ctx where
  h : St
  count : Nat            -- message length in bits (count[1]:count[0])
  buf : List UInt8       -- the first `(count/8) % 64` bytes of `buffer`
deriving Inhabited

def new : Ctx := ⟨init, 0, []⟩

/-- consume complete 64-byte blocks directly from the data -/
def blocks (h : St) (d : List UInt8) (fuel : Nat) : St × List UInt8 :=
  match fuel with
  | 0 => (h, d)
  | fuel + 1 => if d.length ≥ 64 then blocks (transform h (d.take 64)) (d.drop 64) fuel else (h, d)

/-- `SHA1::update(data, len)` -/
def update (c : Ctx) (d : List UInt8) : Ctx :=
  let j := c.buf.length
  let count := (c.count + 8 * d.length) % 2 ^ 64
  if j + d.length > 63 then
    let i := 64 - j
    let h := transform c.h (c.buf ++ d.take i)
    let (h, rest) := blocks h (d.drop i) (d.length / 64 + 1)
    ⟨h, count, rest⟩
  else ⟨c.h, count, c.buf ++ d⟩

/-- the two 32-bit words `count[0]`, `count[1]` of the bit counter as `SHA1::update(data, len)` maintains them
    (`uint32_t`; the carry test is `(count[0] += len << 3) < old count[0]`) -/
def countWords (c0 c1 : UInt32) (len : Nat) : UInt32 × UInt32 :=
  let add := UInt32.ofNat len <<< 3
  let n0 := c0 + add
  let c1 := if n0 < c0 then c1 + 1 else c1
  (n0, c1 + (UInt32.ofNat len >>> 29))

def be64 (n : Nat) : List UInt8 :=
  [56, 48, 40, 32, 24, 16, 8, 0].map fun s => UInt8.ofNat ((n >>> s) % 256)

/-- the `while ((count[0] & 504) != 448) update(0)` loop -/
def padZeros (c : Ctx) (fuel : Nat) : Ctx :=
  match fuel with
  | 0 => c
  | fuel + 1 => if c.count % 512 / 8 * 8 != 448 then padZeros (update c [0]) fuel else c

def be32bytes (w : W) : List UInt8 :=
  [UInt8.ofNat ((w >>> 24).toNat % 256), UInt8.ofNat ((w >>> 16).toNat % 256), UInt8.ofNat ((w >>> 8).toNat % 256), UInt8.ofNat (w.toNat % 256)]

def digest (h : St) : List UInt8 :=
  be32bytes h.a ++ be32bytes h.b ++ be32bytes h.c ++ be32bytes h.d ++ be32bytes h.e

/-- `SHA1::end()` -/
def finish (c : Ctx) : List UInt8 :=
  let fc := be64 c.count
  let c := update c [0x80]
  let c := padZeros c 64
  let c := update c fc
  digest c.h

def hash (d : List UInt8) : List UInt8 := finish (update new d)

def hashChunks (ds : List (List UInt8)) : List UInt8 := finish (ds.foldl update new)

end Impl

namespace Fips

/-- 80-word message schedule -/
def schedule (w16 : List W) : List W :=
  (List.range 64).foldl (fun ws t =>
    let t := t + 16
    ws ++ [rol (ws.getD (t - 3) 0 ^^^ ws.getD (t - 8) 0 ^^^ ws.getD (t - 14) 0 ^^^ ws.getD (t - 16) 0) 1]) w16

def compress (h : St) (block : List UInt8) : St :=
  let ws := schedule (words block)
  let r := (List.range 80).foldl (fun s t => round t s (ws.getD t 0)) h
  ⟨h.a + r.a, h.b + r.b, h.c + r.c, h.d + r.d, h.e + r.e⟩

def pad (m : List UInt8) : List UInt8 :=
  let l := m.length
  let z := (119 - l % 64) % 64     -- zeros so that total ≡ 0 mod 64
  m ++ [0x80] ++ List.replicate z 0 ++ Impl.be64 (8 * l)

def chunks64 (d : List UInt8) (fuel : Nat) : List (List UInt8) :=
  match fuel with
  | 0 => []
  | fuel + 1 => if d.length ≥ 64 then d.take 64 :: chunks64 (d.drop 64) fuel else []

def sha1 (m : List UInt8) : List UInt8 :=
  let p := pad m
  Impl.digest ((chunks64 p (p.length / 64 + 1)).foldl compress init)

end Fips

/-! ## FIPS 180-4 as printed (§2.2.2 ROTL, §4.1.1 Ch/Parity/Maj, §4.2.1 K_t, §5.1.1 padding, §5.3.1 H(0), §6.1.2):
nothing here refers to the implementation model's round function, constants, rotation or padding -/
namespace Std

def ROTL (n : Nat) (x : W) : W := (x <<< UInt32.ofNat n) ||| (x >>> UInt32.ofNat (32 - n))
def Ch (x y z : W) : W := (x &&& y) ^^^ (~~~x &&& z)
def Parity (x y z : W) : W := x ^^^ y ^^^ z
def Maj (x y z : W) : W := (x &&& y) ^^^ (x &&& z) ^^^ (y &&& z)

def ft (t : Nat) (x y z : W) : W :=
  if t ≤ 19 then Ch x y z else if t ≤ 39 then Parity x y z else if t ≤ 59 then Maj x y z else Parity x y z

def Kt (t : Nat) : W :=
  if t ≤ 19 then 0x5a827999 else if t ≤ 39 then 0x6ed9eba1 else if t ≤ 59 then 0x8f1bbcdc else 0xca62c1d6

def H0 : St := ⟨0x67452301, 0xefcdab89, 0x98badcfe, 0x10325476, 0xc3d2e1f0⟩

/-- §6.1.2 step 1: W_t = M_t for t < 16, ROTL¹(W_{t-3} ⊕ W_{t-8} ⊕ W_{t-14} ⊕ W_{t-16}) for 16 ≤ t ≤ 79 -/
def schedule (M : List W) : List W :=
  (List.range 64).foldl (fun ws i =>
    let t := i + 16
    ws ++ [ROTL 1 (ws.getD (t - 3) 0 ^^^ ws.getD (t - 8) 0 ^^^ ws.getD (t - 14) 0 ^^^ ws.getD (t - 16) 0)]) M

/-- §6.1.2 step 3 -/
def stepT (ws : List W) (s : St) (t : Nat) : St :=
  let T := ROTL 5 s.a + ft t s.b s.c s.d + s.e + Kt t + ws.getD t 0
  ⟨T, s.a, ROTL 30 s.b, s.c, s.d⟩

/-- §6.1.2 steps 1–4 for one 512-bit block -/
def compress (H : St) (block : List UInt8) : St :=
  let ws := schedule (words block)
  let r := (List.range 80).foldl (stepT ws) H
  ⟨r.a + H.a, r.b + H.b, r.c + H.c, r.d + H.d, r.e + H.e⟩

/-- the 64-bit big-endian representation of `n` -/
def be64 (n : Nat) : List UInt8 :=
  [7, 6, 5, 4, 3, 2, 1, 0].map fun i => UInt8.ofNat (n / 256 ^ i % 256)

/-- §5.1.1: append the bit 1, then k zero bits with l + 1 + k ≡ 448 (mod 512), then the length in bits -/
def pad (m : List UInt8) : List UInt8 :=
  let k := (64 - (m.length + 9) % 64) % 64       -- zero *bytes* after the 0x80 byte
  m ++ [0x80] ++ List.replicate k 0 ++ be64 (8 * m.length)

def sha1 (m : List UInt8) : List UInt8 :=
  let p := pad m
  Impl.digest ((Fips.chunks64 p (p.length / 64 + 1)).foldl compress H0)

end Std

end AslModel.Sha1
