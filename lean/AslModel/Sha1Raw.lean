import AslModel.Sha1
/-!
# C15 (extension) — the `SHA1` object as src/SHA1.cpp keeps it

`Impl.Ctx` (AslModel/Sha1.lean) keeps only the *live* part of the block buffer and one natural-number bit counter.
`Raw.Obj` is the object itself: `state[5]`, the two `uint32_t` words `count[0]`, `count[1]`, and all 64 bytes of `buffer`
(stale bytes of earlier blocks included); `update(data, len)` computes `j` from `count[0]` as the code does, does the two
`memcpy`s and the `for (; i + 63 < len; i += 64) transform(&data[i])` loop on offsets into `data`; `end()` builds `finalcount`
from the two words, issues its own one-byte updates while `(count[0] & 504) != 448`, then `update(finalcount, 8)`.
Core Lean only.
-/
namespace AslModel.Sha1.Raw
open AslModel.Sha1

structure Obj where
  state : St
  c0 : UInt32               -- count[0]
  c1 : UInt32               -- count[1]
  buffer : List UInt8       -- buffer[64], every byte
deriving Inhabited

/-- `SHA1::SHA1()`: initial state, `count[0] = count[1] = 0`, `memset(buffer, 0, 64)` -/
def new : Obj := ⟨init, 0, 0, List.replicate 64 0⟩

/-- `memcpy(&buffer[j], src, |src|)` (the callers keep `j + |src| ≤ 64`) -/
def memcpyAt (buffer : List UInt8) (j : Nat) (src : List UInt8) : List UInt8 :=
  buffer.take j ++ src ++ buffer.drop (j + src.length)

/-- `for ( ; i + 63 < len; i += 64) transform(&data[i]);` — returns the state and the final `i` -/
def loop (h : St) (data : List UInt8) (i : Nat) (fuel : Nat) : St × Nat :=
  match fuel with
  | 0 => (h, i)
  | fuel + 1 =>
    if i + 63 < data.length then loop (Impl.transform h ((data.drop i).take 64)) data (i + 64) fuel else (h, i)

/-- `SHA1::update(data, len)` -/
def update (o : Obj) (data : List UInt8) : Obj :=
  let len := data.length
  let cw := Impl.countWords o.c0 o.c1 len                  -- the carry test and `count[1] += len >> 29`
  let j := (o.c0 >>> 3).toNat % 64                        -- `(j0 >> 3) & 63`
  if j + len > 63 then
    let i := 64 - j
    let buffer := memcpyAt o.buffer j (data.take i)
    let r := loop (Impl.transform o.state buffer) data i (len / 64 + 1)
    ⟨r.1, cw.1, cw.2, memcpyAt buffer 0 (data.drop r.2)⟩   -- `j = 0; memcpy(&buffer[0], &data[i], len - i)`
  else ⟨o.state, cw.1, cw.2, memcpyAt o.buffer j data⟩

/-- `finalcount[i] = (count[i >= 4 ? 0 : 1] >> ((3 - (i & 3)) * 8)) & 255` -/
def finalcount (o : Obj) : List UInt8 := Impl.be32bytes o.c1 ++ Impl.be32bytes o.c0

/-- `while ((count[0] & 504) != 448) { c = 0; update(&c, 1); }` -/
def padLoop (o : Obj) (fuel : Nat) : Obj :=
  match fuel with
  | 0 => o
  | fuel + 1 => if (o.c0 &&& 504) != 448 then padLoop (update o [0]) fuel else o

/-- `SHA1::end()` -/
def finish (o : Obj) : List UInt8 :=
  let fc := finalcount o
  let o := update o [0x80]
  let o := padLoop o 64
  let o := update o fc
  Impl.digest o.state

/-- `SHA1 sha; sha.update(d1, n1); …; sha.end()` -/
def hashChunks (ds : List (List UInt8)) : List UInt8 := finish (ds.foldl update new)

/-- `SHA1::hash(data, len)` -/
def hash (d : List UInt8) : List UInt8 := finish (update new d)

end AslModel.Sha1.Raw
