/-!
# C14 — SocketServer accept loop, connection handlers, stop(true) and destruction (src/SocketServer.cpp)

Interleaving model over the server's hook points.  Connections are numbered `0 … n-1`; `st c` is the
status of connection `c`:
`0` not connected · `1` pending in the listen queue · `2` accepted, not yet counted · `3` counted
(`++_numClients` done, handler may start) · `4` inside `serve()` · `5` `serve()` returned · `6` client
socket closed · `7` `--_numClients` done (the handler touches nothing of the server any more).

Actors: the environment (`connect`), the accept loop, one handler per connection (concurrent mode; in
sequential mode the accept loop does the handler's steps inline), and the controller that calls
`stop(true)` and then destroys the server.  Core Lean only.
-/
namespace AslModel.SockServer

inductive APc where
  | idle                 -- top of the loop / between accepts
  | counting (c : Nat)   -- `accept()` returned connection c, `++_numClients` not yet done
  | inline (c : Nat)     -- sequential mode: serving connection c inside the loop
  | exited               -- `_running = false; break` (the thread itself is not finished yet: see `threadDone`)
deriving Repr, DecidableEq, Inhabited

inductive CPc where
  | running              -- `stop` not called yet
  | waiting              -- `_requestStop = true` done; about to read `_running`
  | sawStopped           -- read `_running == false`; about to read `_numClients`
  | returned             -- `stop(true)` has returned
  | destroyed            -- `~SocketServer` has run
deriving Repr, DecidableEq, Inhabited

inductive Act where
  | connect (c : Nat)
  | accept (c : Nat)
  | count
  | hBegin (c : Nat)
  | hEnd (c : Nat)
  | hClose (c : Nat)
  | hDec (c : Nat)
  | check (seen : Bool)      -- the loop's test of `_requestStop`, with the value it observed
  | acceptFail               -- `accept()` failed (out of descriptors, EMFILE): the pending connection stays in the
                             --   listen queue, the listening socket stays readable and the loop comes round again
  | loopFail                 -- `waitInput` returned a negative value (select error / closed socket): the loop gives up
  | loopEnd                  -- the accept thread finishes: `Thread::begin` writes `_threadFinished` into the
                             --   `SockServerThread` object that the server owns and frees in its destructor (since 8766189: the virtual call
                             --   `ended()` on that object is the thread's last use of it; the flag itself lives in the shared state)
  | reqStop
  | readRunning
  | readNum
  | destroy
deriving Repr, DecidableEq

structure Cfg where
  n : Nat
  sequential : Bool
  reqStop : Bool
  running : Bool
  num : Int
  apc : APc
  cpc : CPc
  st : Nat → Nat
  serveBegins : Nat → Nat
  serveEnds : Nat → Nat
  bad : Bool               -- some thread used the server object (or what it owns) after its destruction
  threadDone : Bool        -- the accept thread has completely finished
  joins : Bool             -- does `~SocketServer` wait for the accept thread (`join`) before freeing it?
  phantom : Nat            -- `serve()` calls made with a socket that is not a connection
  skipsFailed : Bool       -- does the loop skip a failed `accept()` (`if (client.handle() < 0) continue;`)?

def upd {α} (f : Nat → α) (k : Nat) (v : α) : Nat → α := fun j => if j = k then v else f j

def init (n : Nat) (sequential : Bool) (joins : Bool := true) (skipsFailed : Bool := true) : Cfg :=
  { n := n, sequential := sequential, reqStop := false, running := true, num := 0, apc := APc.idle,
    cpc := CPc.running, st := fun _ => 0, serveBegins := fun _ => 0, serveEnds := fun _ => 0, bad := false,
    threadDone := false, joins := joins, phantom := 0, skipsFailed := skipsFailed }

/-- may the handler steps of connection `c` be taken now? (concurrent: by its own thread, any time;
    sequential: only by the accept loop while it is serving `c` inline) -/
def handlerTurn (s : Cfg) (c : Nat) : Bool := !s.sequential || s.apc == APc.inline c

def enabled (s : Cfg) : Act → Bool
  | Act.connect c => c < s.n && s.st c == 0
  | Act.accept c => c < s.n && s.apc == APc.idle && s.st c == 1
  | Act.count => match s.apc with
    | APc.counting _ => true
    | _ => false
  | Act.hBegin c => c < s.n && s.st c == 3 && handlerTurn s c
  | Act.hEnd c => c < s.n && s.st c == 4 && handlerTurn s c
  | Act.hClose c => c < s.n && s.st c == 5 && handlerTurn s c
  | Act.hDec c => c < s.n && s.st c == 6 && handlerTurn s c
  | Act.check seen => s.apc == APc.idle && (!seen || s.reqStop)
  | Act.acceptFail => s.apc == APc.idle
  | Act.loopFail => s.apc == APc.idle
  | Act.loopEnd => s.apc == APc.exited && !s.threadDone
  | Act.reqStop => s.cpc == CPc.running
  | Act.readRunning => s.cpc == CPc.waiting
  | Act.readNum => s.cpc == CPc.sawStopped
  | Act.destroy => s.cpc == CPc.returned && (!s.joins || s.threadDone)   -- `join()` returns only when the thread has ended

/-- steps that use the server object (its members or its virtual `serve`) -/
def touchesServer : Act → Bool
  | Act.connect _ => false
  | Act.hClose _ => false          -- closes the handler's own socket
  | Act.reqStop => false           -- the controller itself
  | Act.readRunning => false
  | Act.readNum => false
  | Act.destroy => false
  | _ => true

def step (s : Cfg) (a : Act) : Cfg :=
  let s := if touchesServer a && s.cpc == CPc.destroyed then { s with bad := true } else s
  match a with
  | Act.connect c => { s with st := upd s.st c 1 }
  | Act.accept c => { s with st := upd s.st c 2, apc := APc.counting c }
  | Act.count => match s.apc with
    | APc.counting c =>
      { s with num := s.num + 1, st := upd s.st c 3, apc := if s.sequential then APc.inline c else APc.idle }
    | _ => s
  | Act.hBegin c => { s with st := upd s.st c 4, serveBegins := upd s.serveBegins c (s.serveBegins c + 1) }
  | Act.hEnd c => { s with st := upd s.st c 5, serveEnds := upd s.serveEnds c (s.serveEnds c + 1) }
  | Act.hClose c => { s with st := upd s.st c 6 }
  | Act.hDec c => { s with st := upd s.st c 7, num := s.num - 1, apc := if s.sequential then APc.idle else s.apc }
  | Act.check seen => if seen then { s with running := false, apc := APc.exited } else s
  | Act.acceptFail => if s.skipsFailed then s else { s with phantom := s.phantom + 1 }   -- counted, served, un-counted
  | Act.loopFail => { s with running := false, apc := APc.exited }
  | Act.loopEnd => { s with threadDone := true }
  | Act.reqStop => { s with reqStop := true, cpc := CPc.waiting }
  | Act.readRunning => if s.running then s else { s with cpc := CPc.sawStopped }
  | Act.readNum => if s.num > 0 then { s with cpc := CPc.waiting } else { s with cpc := CPc.returned }
  | Act.destroy => { s with cpc := CPc.destroyed }

def run (s : Cfg) : List Act → Cfg
  | [] => s
  | a :: r => run (if enabled s a then step s a else s) r

/-- connections whose handler has been counted and has not yet decremented: `_numClients` counts these -/
def inFlight (s : Cfg) : Nat := (List.range s.n).countP fun c => decide (3 ≤ s.st c ∧ s.st c ≤ 6)

end AslModel.SockServer
