import AslModel.Fld
/-!
# C20 — model of `Matrix_<T>` products, `solve`, `solve_`, `inverse` (include/asl/Matrix.h:203-235, 385-459)

Hand-written transcription of the loops (tied to the code by the correspondence check K, the real
templates being instantiated over the same prime field).  A dense matrix is `rows`, `cols` and an entry
function (`Array2::operator()(i, j) = _a[i*_cols + j]` for in-range indices).  The scalar type is used
only through `Fld` (no laws); the pivot search of `solve_` is a *parameter* `pick`, instantiated in the
driver by `pivotSearch` (the transcribed `max < fabs(A(_[i], k))` loop), so that the theorems hold for
every pivot choice.  Core Lean only.
-/
namespace AslModel.Solve
variable {K : Type}

/-- `Matrix_<T>`: `_rows`, `_cols`, entries -/
structure Mat (K : Type) where
  rows : Nat
  cols : Nat
  e : Nat → Nat → K

/-! Execution note.  Lean compiles a definition whose result type is a function by eta-expanding it, so a
function-valued fold accumulator would be re-evaluated at every read (exponentially often through a chain of
updates).  Every loop state below is therefore a record with at least two fields, and the matrices carried
from one step to the next are tabulated (`tab`) and read back through `look`; `look_tab` in
`AslProofs/Solve.lean` shows that `look (tab r c f) f = f`, i.e. this is an execution device only. -/

/-- the values of `f` on `[0,r) × [0,c)` -/
def tab (r c : Nat) (f : Nat → Nat → K) : Array (Array K) :=
  Array.ofFn (n := r) fun i => Array.ofFn (n := c) fun j => f i.val j.val

/-- read entry `(i, j)` from the table, falling back to `f` outside of it -/
def look (t : Array (Array K)) (f : Nat → Nat → K) : Nat → Nat → K :=
  fun i j =>
    match t[i]? with
    | some row => match row[j]? with
      | some v => v
      | none => f i j
    | none => f i j

/-- `s = 0; for (k = 0; k < n; k++) s += f(k)` -/
def sumTo (F : Fld K) (n : Nat) (f : Nat → K) : K :=
  (List.range n).foldl (fun s k => F.add s (f k)) F.zero

/-- `Matrix_::operator*(const Matrix_& b)`; a dimension mismatch returns the cleared (0×0) matrix -/
def mul (F : Fld K) (a b : Mat K) : Mat K :=
  if a.cols ≠ b.rows then ⟨0, 0, fun _ _ => F.zero⟩
  else
    let g := fun i j => sumTo F a.cols fun k => F.mul (a.e i k) (b.e k j)
    ⟨a.rows, b.cols, look (tab a.rows b.cols g) g⟩

/-- `Matrix_::transposed(const Matrix_& b)` = `aᵀ·b` -/
def tmul (F : Fld K) (a b : Mat K) : Mat K :=
  if a.rows ≠ b.rows then ⟨0, 0, fun _ _ => F.zero⟩
  else
    let g := fun i j => sumTo F a.rows fun k => F.mul (a.e k i) (b.e k j)
    ⟨a.cols, b.cols, look (tab a.cols b.cols g) g⟩

/-- `Matrix_::identity(n)` -/
def identity (F : Fld K) (n : Nat) : Mat K :=
  ⟨n, n, fun i j => if i = j then F.lit 1 else F.lit 0⟩

/-- `M(r, c) = v` -/
def upd (M : Nat → Nat → K) (r c : Nat) (v : K) : Nat → Nat → K :=
  fun i j => if i = r ∧ j = c then v else M i j

/-- `swap(_[i], _[j])` on the row-permutation vector -/
def swapP (p : Nat → Nat) (i j : Nat) : Nat → Nat :=
  fun t => if t = i then p j else if t = j then p i else p t

/-- the pivot search of `solve_`:
`T max = 0; int ipivot = 0; for (i = k; i < n; i++) if (max < fabs(col i)) { max = fabs(col i); ipivot = i; }`
where `col i = A(_[i], k)` -/
def pivotSearch (F : Fld K) (C : Cmp K) (col : Nat → K) (k n : Nat) : Nat :=
  ((List.range' k (n - k)).foldl
    (fun (st : K × Nat) i => if C.lt st.1 (C.abs (col i)) then (C.abs (col i), i) else st) (F.zero, 0)).2

/-- `for (jj = k; jj < n; jj++) A(ii, jj) += A(kk, jj) * f;`
Iteration `jj` reads and writes column `jj` only, and every column is visited once, so each read sees the value
from before the loop (also when `ii = kk`): the loop is exactly this simultaneous update of row `ii`. -/
def rowOp (F : Fld K) (n k : Nat) (A : Nat → Nat → K) (ii kk : Nat) (f : K) : Nat → Nat → K :=
  fun r c => if r = ii ∧ k ≤ c ∧ c < n then F.add (A ii c) (F.mul (A kk c) f) else A r c

/-- state of the elimination for one right-hand-side column: `A`, `b`, the permutation `_` -/
structure St (K : Type) where
  A : Nat → Nat → K
  b : Nat → Nat → K
  p : Nat → Nat

/-- body of `for (i = k+1; i < n; i++)`: eliminate column `k` from row `_[i]` -/
def elimRow (F : Fld K) (n j k : Nat) (s : St K) (i : Nat) : St K :=
  let ii := s.p i
  let kk := s.p k
  let f := F.div (F.neg (s.A ii k)) (s.A kk k)
  let A' := rowOp F n k s.A ii kk f
  { s with A := look (tab n n A') A',
           b := upd s.b ii j (F.add (s.b ii j) (F.mul (s.b kk j) f)) }

/-- body of `for (k = 0; k < n-1; k++)`: pivot search, `swap(_[k], _[ipivot])`, elimination below the pivot -/
def elimStep (F : Fld K) (pick : (Nat → K) → Nat → Nat → Nat) (n j : Nat) (s : St K) (k : Nat) : St K :=
  let ipivot := pick (fun i => s.A (s.p i) k) k n
  let s1 := { s with p := swapP s.p k ipivot }
  (List.range' (k + 1) (n - (k + 1))).foldl (elimRow F n j k) s1

/-- forward elimination for right-hand-side column `j` (the search is skipped for the last column) -/
def eliminate (F : Fld K) (pick : (Nat → K) → Nat → Nat → Nat) (n j : Nat) (s : St K) : St K :=
  (List.range (n - 1)).foldl (elimStep F pick n j) s

/-- `x(k) = v` -/
def setAt (x : Nat → K) (k : Nat) (v : K) : Nat → K := fun i => if i = k then v else x i

/-- accumulator of the back substitution (a record, see the execution note): the solution so far -/
structure BS (K : Type) where
  x : Nat → K
  done : Nat

/-- one step `k` of the back substitution on the permuted view `U k i = A(_[k], i)`, `d k = b(_[k], j)`:
`sum = Σ_{i=k+1}^{n-1} U(k,i)·x(i); x(k) = (d(k) - sum) / U(k,k)` -/
def backStep (F : Fld K) (n : Nat) (U : Nat → Nat → K) (d : Nat → K) (s : BS K) (k : Nat) : BS K :=
  let sum := (List.range' (k + 1) (n - (k + 1))).foldl (fun t i => F.add t (F.mul (U k i) (s.x i))) F.zero
  let v := F.div (F.sub (d k) sum) (U k k)
  ⟨setAt s.x k v, s.done + 1⟩

/-- `for (k = n-1; k >= 0; k--)` -/
def backSub (F : Fld K) (n : Nat) (U : Nat → Nat → K) (d : Nat → K) (x : Nat → K) : Nat → K :=
  ((List.range n).reverse.foldl (backStep F n U d) ⟨x, 0⟩).x

/-- one iteration of `for (j = 0; j < b_.cols(); j++)`: `A` restarts from `A_`, `_` from the identity;
`b` and `x` are carried along (only their column `j` is touched) -/
def solveCol (F : Fld K) (pick : (Nat → K) → Nat → Nat → Nat) (n m : Nat) (A0 : Nat → Nat → K)
    (bx : (Nat → Nat → K) × (Nat → Nat → K)) (j : Nat) : (Nat → Nat → K) × (Nat → Nat → K) :=
  let s := eliminate F pick n j ⟨A0, bx.1, fun i => i⟩
  let xj := backSub F n (fun k i => s.A (s.p k) i) (fun k => s.b (s.p k) j) (fun i => bx.2 i j)
  let x' := fun i c => if c = j then xj i else bx.2 i c
  (look (tab n m s.b) s.b, look (tab n m x') x')

/-- the square case of `solve_`: `x` is `b.rows × b.cols`, `n = A.rows` -/
def solveSq (F : Fld K) (pick : (Nat → K) → Nat → Nat → Nat) (A b : Mat K) : Mat K :=
  let r := (List.range b.cols).foldl (solveCol F pick A.rows b.cols A.e) (b.e, fun _ _ => F.zero)
  ⟨b.rows, b.cols, r.2⟩

/-- `solve_(A, b)`: normal equations `AᵀA x = Aᵀb` when `A` is not square -/
def solve_ (F : Fld K) (pick : (Nat → K) → Nat → Nat → Nat) (A b : Mat K) : Mat K :=
  if A.rows ≠ A.cols then solveSq F pick (tmul F A A) (tmul F A b) else solveSq F pick A b

/-- `solve(A, b)` (works on clones / on the normal equations; same values as `solve_`) -/
def solve (F : Fld K) (pick : (Nat → K) → Nat → Nat → Nat) (A b : Mat K) : Mat K :=
  if A.rows ≠ A.cols then solve_ F pick (tmul F A A) (tmul F A b) else solve_ F pick A b

/-- `Matrix_::inverse()` = `solve(*this, identity(rows()))` -/
def inverse (F : Fld K) (pick : (Nat → K) → Nat → Nat → Nat) (A : Mat K) : Mat K :=
  solve F pick A (identity F A.rows)

end AslModel.Solve
