import Gen.StrGen
/-!
# C03 — model of `asl::String` (include/asl/String.h, src/String.cpp).  Core Lean only.

Layer A: the C-string primitives (`strstr`, `strchr`, `strrchr`, `strcmp`: libc, modelled) and the
index loops of `split`, `replace`, `trim`, `substr`, `lastIndexOf`, `myitoa`, `myltoa`, `myatoi`,
`myatol`, transcribed on byte lists.

Layer B: the representation `{_size, _len, storage}` with `alloc`, `resize` (every branch of the
growth policy), `append`/`assign` (source = external bytes or a piece of the string's own storage,
as the repaired code distinguishes them), the constructors, `trim`, `substring`, `concat`,
the printf retry loops.  Every block read/write goes through `rd`/`wr`, which return `none`
outside the block: "stays in bounds" is "never `none`".

The storage constants (`ASL_STR_SPACE`, the first heap sizes, the 1 KiB switch, the sizes the number and printf
constructors allocate, the `INT_MIN` literal of `myitoa`) are *regenerated* from the source on every run
(`Gen/StrGen.lean`, written by `tools/props/c03.py translate`).
-/
set_option linter.unusedVariables false
namespace AslModel.Str

abbrev Bytes := List UInt8

/-! ## libc primitives on NUL-free byte lists (modelled, see ASSUMPTIONS of the plugin) -/

/-- the bytes a C function sees through a `char*`: up to the first NUL -/
def cstr (b : Bytes) : Bytes := b.takeWhile (· != 0)

/-- `strstr(h, pat) - h`: leftmost position where `pat` starts -/
def strstr (pat : Bytes) : Bytes → Option Nat
  | [] => if pat.isEmpty then some 0 else none
  | c :: t => if pat.isPrefixOf (c :: t) then some 0 else (strstr pat t).map (· + 1)

/-- `strchr(h, c) - h` (for `c = 0` the terminator is found) -/
def strchr (c : UInt8) : Bytes → Option Nat
  | [] => if c == 0 then some 0 else none
  | x :: t => if x == c then some 0 else (strchr c t).map (· + 1)

/-- `strrchr(h, c) - h` -/
def strrchr (c : UInt8) : Bytes → Option Nat
  | [] => if c == 0 then some 0 else none
  | x :: t => match strrchr c t with
    | some k => some (k + 1)
    | none => if x == c then some 0 else none

/-- sign of `strcmp(a, b)` (bytes compared as `unsigned char`) -/
def strcmp : Bytes → Bytes → Int
  | [], [] => 0
  | [], _ :: _ => -1
  | _ :: _, [] => 1
  | x :: a, y :: b => if x < y then -1 else if y < x then 1 else strcmp a b

/-- sign of `strncmp(a, b, n)` -/
def strncmp : Nat → Bytes → Bytes → Int
  | 0, _, _ => 0
  | _ + 1, [], [] => 0
  | _ + 1, [], _ :: _ => -1
  | _ + 1, _ :: _, [] => 1
  | n + 1, x :: a, y :: b => if x < y then -1 else if y < x then 1 else strncmp n a b

/-- `myisspace(char c)`: `c <= ' ' && (c == ' ' || c == '\n' || c == '\r' || c == '\t')`, `char` signed -/
def isSpace (c : UInt8) : Bool :=
  (c ≥ 128 || c ≤ 32) && (c == 32 || c == 10 || c == 13 || c == 9)

/-! ## Layer A — the algorithms' loops on byte lists -/

/-- `indexOf(const char* s, int i0)`: `strstr(p + i0, s)`; `none` is the code's `-1` -/
def indexOf (s pat : Bytes) (i0 : Nat) : Option Nat :=
  (strstr pat (s.drop i0)).map (i0 + ·)

/-- `indexOf(char c, int i0)` -/
def indexOfChar (s : Bytes) (c : UInt8) (i0 : Nat) : Option Nat :=
  (strchr c (s.drop i0)).map (i0 + ·)

/-- the end index used by `split`/`replace`: `j = indexOf(sep, i); if (j == -1) j = n;` -/
def nextCut (s pat : Bytes) (i : Nat) : Nat :=
  match strstr pat (s.drop i) with
  | some k => i + k
  | none => s.length

theorem nextCut_ge (s pat : Bytes) (i : Nat) (h : i ≤ s.length) : i ≤ nextCut s pat i := by
  unfold nextCut; split <;> omega

/-- `lastIndexOf(const char*)`: `while ((i = indexOf(s, i)) >= 0) { j = i; i++; }`.
    (With an empty pattern the real loop never ends; the guard stops the model at the terminator.) -/
def lastIndexOfLoop (s pat : Bytes) (i : Nat) (j : Option Nat) : Option Nat :=
  if i ≤ s.length then
    match strstr pat (s.drop i) with
    | some k => lastIndexOfLoop s pat (i + k + 1) (some (i + k))
    | none => j
  else j
termination_by s.length + 1 - i
decreasing_by omega

def lastIndexOf (s pat : Bytes) : Option Nat := lastIndexOfLoop s pat 0 none

/-- byte-level `substring(i, j)` for `i ≤ j ≤ len` -/
def sub (s : Bytes) (i j : Nat) : Bytes := (s.drop i).take (j - i)

/-- `split(sep)`: `for (i = 0; i <= n; i = j + m) { j = indexOf(sep, i); if (j == -1) j = n; out << substring(i, j); }`
    (`m = 0` makes the real loop endless; the model then returns no pieces) -/
def splitLoop (sep s : Bytes) (i : Nat) : List Bytes :=
  if h : i ≤ s.length ∧ 0 < sep.length then
    let j := nextCut s sep i
    sub s i j :: splitLoop sep s (j + sep.length)
  else []
termination_by s.length + 1 - i
decreasing_by
  have := nextCut_ge s sep i h.1
  omega

def split (sep s : Bytes) : List Bytes := splitLoop sep s 0

/-- `Array<String>::join(sep)` on byte lists: `s = a[0]; for (i = 1..) { s += sep; s += a[i]; }` -/
def joinLoop (sep : Bytes) (acc : Bytes) : List Bytes → Bytes
  | [] => acc
  | p :: t => joinLoop sep (acc ++ sep ++ p) t

def join (sep : Bytes) : List Bytes → Bytes
  | [] => []
  | p :: t => joinLoop sep p t

/-- the loop of `replace(a, b)` after the first match at `j`:
    `for (i = j + m; i <= n; i = j + m) { j = indexOf(a, i); if (j == -1) j = n; out << b; out.append(str() + i, j - i); }` -/
def replaceLoop (a b s : Bytes) (i : Nat) (out : Bytes) : Bytes :=
  if h : i ≤ s.length ∧ 0 < a.length then
    let j := nextCut s a i
    replaceLoop a b s (j + a.length) (out ++ b ++ sub s i j)
  else out
termination_by s.length + 1 - i
decreasing_by
  have := nextCut_ge s a i h.1
  omega

def replace (s a b : Bytes) : Bytes :=
  match strstr a s with
  | none => s
  | some j => replaceLoop a b s (j + a.length) (sub s 0 j)

/-- `for (i = 0; i < n; i++) if (!myisspace(s[i])) break;` -/
def trimStart (s : Bytes) : Nat := (s.takeWhile isSpace).length

/-- `for (j = n - 1; j >= i; j--) if (!myisspace(s[j])) break;` — argument and result are `j + 1` -/
def trimEnd (s : Bytes) (i : Nat) : Nat → Nat
  | 0 => 0
  | J + 1 => if J + 1 ≤ i then J + 1 else if !isSpace (s.getD J 0) then J + 1 else trimEnd s i J

def trimmed (s : Bytes) : Bytes :=
  let i := trimStart s
  sub s i (trimEnd s i s.length)

/-- `split()` by whitespace: the outer `for (i = 0; i <= n; i++)` with the inner scan for the token end -/
def tokEnd (s : Bytes) (j : Nat) : Nat :=   -- first j' ≥ j with space or NUL at j' (NUL at n)
  j + ((s.drop j).takeWhile (fun c => !isSpace c)).length

def splitWsLoop (s : Bytes) (i : Nat) : List Bytes :=
  if h : i ≤ s.length then
    if i = s.length then []            -- s[n] = NUL: not a space; inner loop `j = n+1 < n+1` is empty
    else if isSpace (s.getD i 0) then splitWsLoop s (i + 1)
    else
      let j := tokEnd s (i + 1)
      sub s i j :: splitWsLoop s (j + 1)
  else []
termination_by s.length + 1 - i
decreasing_by
  all_goals (try unfold tokEnd); omega

def splitWs (s : Bytes) : List Bytes := splitWsLoop s 0

/-- `split(sep1, sep2)` → `Dic`: `pairs = split(sep1); for each: j = pairs[i].indexOf(sep2); if (j > 0) dic[substring(0, j)] = substring(j + |sep2|)`
    (association list in insertion order, later keys overwrite) -/
def splitDic (s sep1 sep2 : Bytes) : List (Bytes × Bytes) :=
  (split sep1 s).foldl (fun dic p =>
    match indexOf p sep2 0 with
    | some j => if j > 0 then (dic.filter (·.1 != sub p 0 j)) ++ [(sub p 0 j, sub p (j + sep2.length) p.length)] else dic
    | none => dic) []

/-- two's-complement `int` / `Long`: what an addition or cast of the compiled code yields -/
def wrap32 (x : Int) : Int := x.bmod 4294967296
def wrap64 (x : Int) : Int := x.bmod 18446744073709551616

/-- index arithmetic of `substr(int i, int n)` (repaired), every addition the code performs in `int` marked by `wrap32`:
    `if (i < 0) i += _len; if (i >= _len) i = _len; int j = (n > _len - i) ? _len : i + n;`
    `none` = the code would index before the buffer (`i < -len`) or ask for a negative size (`n < 0`) -/
def substrIdx (len : Nat) (i n : Int) : Option (Nat × Nat) :=
  let i := if i < 0 then wrap32 (i + len) else i
  if i < 0 then none else
  let i := if i ≥ len then (len : Int) else i
  let j := if n > wrap32 (len - i) then (len : Int) else wrap32 (i + n)
  if j < i then none else some (i.toNat, j.toNat)

/-- the same with the arithmetic of the code before the repair (`int j = i + n; if (j > _len) j = _len;`):
    kept only to state what was wrong (`AslProofs.Str.substr_unrepaired_counterexample`) -/
def substrIdxUnrepaired (len : Nat) (i n : Int) : Option (Nat × Nat) :=
  let i := if i < 0 then wrap32 (i + len) else i
  if i < 0 then none else
  let i := if i ≥ len then (len : Int) else i
  let j := wrap32 (i + n)
  let j := if j > len then (len : Int) else j
  if j < i then none else some (i.toNat, j.toNat)

/-! ### number ↔ text -/

/-- the `while (x != 0) { ss[i++] = x % 10 + '0'; x /= 10; }` loop: digits least significant first -/
def digitsRev (x : Nat) : Bytes :=
  if h : x = 0 then [] else UInt8.ofNat (48 + x % 10) :: digitsRev (x / 10)
termination_by x
decreasing_by omega

/-- `myitoa(int x, char* s)`: text written (without the terminator) -/
def myitoa (x : Int) : Bytes :=
  if x = 0 then [48]
  else if x < 0 then
    if x = -2147483648 then Gen.Str.intMinText          -- `strcpy(s, "-2147483648")`
    else 45 :: (digitsRev (-x).toNat).reverse
  else (digitsRev x.toNat).reverse

/-- `myltoa(Long x, char* s)` (repaired): magnitude as `ULong u = x; if (x < 0) u = 0 - u;` -/
def myltoa (x : Int) : Bytes :=
  if x = 0 then [48]
  else
    let u : Nat := (x % 18446744073709551616).toNat          -- (ULong)x
    if x < 0 then 45 :: (digitsRev ((18446744073709551616 - u) % 18446744073709551616)).reverse
    else (digitsRev u).reverse

/-- `snprintf("%u")`, `snprintf("%llu")` (libc, modelled): decimal digits -/
def utoa (x : Nat) : Bytes := if x = 0 then [48] else (digitsRev x).reverse

/-- `while (c = *s++, c >= '0' && c <= '9') y = 10 * y + (c - '0');` in exact arithmetic -/
def digitLoop : Bytes → Int → Int
  | [], y => y
  | c :: t, y => if 48 ≤ c ∧ c ≤ 57 then digitLoop t (10 * y + ((c.toNat : Int) - 48)) else y

/-- sign prefix shared by `myatoi`/`myatol` -/
def signSplit : Bytes → Int × Bytes
  | 45 :: t => (-1, t)
  | 43 :: t => (1, t)
  | s => (1, s)

/-- `myatoi` (repaired): the digits are accumulated in `unsigned` (arithmetic mod 2^32, defined behaviour), negated
    there and cast to `int` — i.e. the exact value reduced to the two's-complement range; reducing once at the end
    is the same because `bmod` is a ring homomorphism. -/
def myatoi (s : Bytes) : Int :=
  let (sgn, t) := signSplit s
  wrap32 (digitLoop t 0 * sgn)

/-- `myatol` (repaired): the same in `ULong` / `Long` -/
def myatol (s : Bytes) : Int :=
  let (sgn, t) := signSplit s
  wrap64 (digitLoop t 0 * sgn)

/-- C `isspace` in the "C" locale -/
def cIsSpace (c : UInt8) : Bool := c == 32 || (9 ≤ c && c ≤ 13)

/-- libc `atoi` = `(int)strtol(s, 0, 10)` on LP64: blanks, sign, digits, saturate to `long`, truncate (modelled) -/
def cAtoi (s : Bytes) : Int :=
  let s := s.dropWhile cIsSpace
  let (sgn, t) := signSplit s
  let v := digitLoop t 0 * sgn
  let v := if v > 9223372036854775807 then 9223372036854775807 else if v < -9223372036854775808 then -9223372036854775808 else v
  wrap32 v

/-- `(unsigned)` conversion of an `int` -/
def toU32 (x : Int) : Nat := (x % 4294967296).toNat
def toU64 (x : Int) : Nat := (x % 18446744073709551616).toNat

/-! ## Layer B — representation and storage -/

/-- content of freshly `malloc`ed / never written storage (any non-zero value would do:
    no observable may depend on it) -/
def junk : UInt8 := 0xAA
def fresh (n : Nat) : Bytes := List.replicate n junk

/-- `memcpy`/`memmove`/store into a block: `none` when the range leaves the block -/
def wr (buf : Bytes) (off : Nat) (bs : Bytes) : Option Bytes :=
  if off + bs.length ≤ buf.length then some (buf.take off ++ bs ++ buf.drop (off + bs.length)) else none

/-- block read: `none` when the range leaves the block -/
def rd (buf : Bytes) (off n : Nat) : Option Bytes :=
  if off + n ≤ buf.length then some ((buf.drop off).take n) else none

/-- `{_size, _len, union{_space[16], _str}}`; `buf` is `_space` (16 bytes) when `size = 0`,
    else the heap block of `size` bytes -/
structure Rep where
  size : Nat
  len : Nat
  buf : Bytes
deriving Repr, BEq

namespace Rep

/-- `ASL_STR_SPACE` -/
def SPACE : Nat := Gen.Str.space

/-- `cap()` -/
def cap (r : Rep) : Nat := if r.size = 0 then SPACE else r.size

/-- the string as the API reports it: `length()` bytes from `str()` -/
def toList (r : Rep) : Bytes := r.buf.take r.len

/-- `alloc(n)`: `if (n < 16) _size = 0; else { _size = max(++n, 20); _str = malloc(_size); }` (`_len` unset) -/
def alloc (n : Nat) : Rep :=
  if n < SPACE then { size := 0, len := 0, buf := fresh SPACE }
  else { size := max (n + 1) Gen.Str.allocMin, len := 0, buf := fresh (max (n + 1) Gen.Str.allocMin) }

/-- `init(n)`: `alloc(n); _len = n;` -/
def init (n : Nat) : Rep := { alloc n with len := n }

/-- `String()`: `_size(0), _len(0), *_space = 0` -/
def empty : Rep := { size := 0, len := 0, buf := 0 :: fresh (SPACE - 1) }

/-- `String(int cap, int n)`: `init(max(cap, n)); _len = n; str()[n] = 0;` -/
def ctor2 (cap n : Nat) : Option Rep :=
  let a := init (max cap n)
  (wr a.buf n [0]).map fun b => { a with len := n, buf := b }

/-- `String(const char* txt, int n)`: `init(n); memcpy(str(), txt, n); str()[n] = 0;` -/
def ofBytes (txt : Bytes) : Option Rep :=
  let a := init txt.length
  (wr a.buf 0 txt).bind fun b => (wr b txt.length [0]).map fun b => { a with buf := b }

/-- `String(const Array<char>& txt)` and `String(const ByteArray& txt)`: `n = txt.length(); init(n); memcpy(str(), txt.data(), n); str()[n] = 0;`
    — statement for statement the same as `String(const char*, int)` -/
def ofArray (txt : Bytes) : Option Rep := ofBytes txt

/-- `String(const char* txt)`: `init(strlen(txt)); memcpy(str(), txt, _len + 1);` -/
def ofCStr (txt : Bytes) : Option Rep :=
  let a := init txt.length
  (wr a.buf 0 (txt ++ [0])).map fun b => { a with buf := b }

/-- `String(const String& s)`: `init(s._len); memcpy(str(), s.str(), _len + 1);` -/
def copy (s : Rep) : Option Rep :=
  let a := init s.len
  (rd s.buf 0 (s.len + 1)).bind fun src => (wr a.buf 0 src).map fun b => { a with buf := b }

/-- `String(char c)` -/
def ofChar (c : UInt8) : Option Rep :=
  let a := init 1
  (wr a.buf 0 [c, 0]).map fun b => { a with buf := b }

/-- `String::repeat(c, n)`: `String s(n, n); memset(p, c, n); p[n] = 0;` -/
def repeatChar (c : UInt8) (n0 : Int) : Option Rep :=
  let n := if n0 < 0 then 0 else n0.toNat          -- `if (n < 0) n = 0;`
  (ctor2 n n).bind fun s => (wr s.buf 0 (List.replicate n c)).bind fun b =>
    (wr b n [0]).map fun b => { s with buf := b }

/-- `resize(n, keep, newlen)`, branch by branch -/
def resize (r : Rep) (n : Nat) (keep : Bool := true) (newlen : Bool := true) : Option Rep :=
  if r.size = 0 then
    if n < SPACE then
      if newlen then (wr r.buf n [0]).map fun b => { r with buf := b, len := n }
      else some r
    else
      let size := max (n + 1) Gen.Str.heapMin
      let str2 := fresh size
      let str2? := if keep then (rd r.buf 0 (r.len + 1)).bind fun src => wr str2 0 src else some str2
      str2?.bind fun str2 =>
        if newlen then (wr str2 n [0]).map fun b => { size := size, len := n, buf := b }
        else some { size := size, len := r.len, buf := str2 }
  else
    let size2 := n + 1
    let size3 := if r.size < Gen.Str.doubleBelow then 2 * r.size else Gen.Str.sizeMax
    let size2 := if size2 > r.size then max size3 size2 else r.size
    let r1? : Option Rep :=
      if size2 = r.size then some r
      else if r.size < Gen.Str.reallocFrom then
        -- malloc + memcpy(str2, _str, min(n, _len + 1)) + free
        let str2 := fresh size2
        let str2? := if keep then (rd r.buf 0 (min n (r.len + 1))).bind fun src => wr str2 0 src else some str2
        str2?.map fun str2 => { r with buf := str2, size := size2 }
      else
        -- realloc: the old bytes are kept, the new tail is indeterminate
        some { r with buf := r.buf ++ fresh (size2 - r.size), size := size2 }
    r1?.bind fun r1 =>
      if newlen then (wr r1.buf n [0]).map fun b => { r1 with len := n, buf := b }
      else some r1

/-- where `append`/`assign` take their bytes from -/
inductive Src where
  /-- a buffer outside this string -/
  | ext (b : Bytes)
  /-- `str() + off`, `n` bytes (a piece of this same string: `off + n ≤ _len`) -/
  | self (off n : Nat)
deriving Repr

def Src.n : Src → Nat
  | .ext b => b.length
  | .self _ n => n

/-- `append(const char* b, int n)` (repaired):
    `own = b in [s0, s0+_len]; off = b - s0; if (_len+n >= _size) resize(_len+n) else _len += n;`
    `s = str(); if (own) b = s + off; memcpy(s+_len-n, b, n); s[_len] = 0;` -/
def append (r : Rep) (src : Src) : Option Rep :=
  let n := src.n
  let r1? := if r.len + n ≥ r.size then r.resize (r.len + n) else some { r with len := r.len + n }
  r1?.bind fun r1 =>
    let b? := match src with
      | .ext b => some b
      | .self off n => rd r1.buf off n        -- read from the *new* buffer
    b?.bind fun b =>
      (wr r1.buf (r1.len - n) b).bind fun buf => (wr buf r1.len [0]).map fun buf => { r1 with buf := buf }

/-- `assign(const char* b, int n)` (repaired): a piece of this string is moved in place
    (`memmove(s, b, n); s[n] = 0; _len = n`), anything else: `resize(n, false); memcpy(s, b, _len); s[_len] = 0` -/
def assign (r : Rep) (src : Src) : Option Rep :=
  match src with
  | .self off n =>
    (rd r.buf off n).bind fun b => (wr r.buf 0 b).bind fun buf => (wr buf n [0]).map fun buf =>
      { r with buf := buf, len := n }
  | .ext b =>
    (r.resize b.length false).bind fun r1 =>
      (wr r1.buf 0 (b.take r1.len)).bind fun buf => (wr buf r1.len [0]).map fun buf => { r1 with buf := buf }

/-- `operator+=(char b)`: `n = _len+1; if (n >= _size) resize(n); s[n-1] = b; s[n] = 0; _len = n;` -/
def appendChar (r : Rep) (c : UInt8) : Option Rep :=
  let n := r.len + 1
  let r1? := if n ≥ r.size then r.resize n else some r
  r1?.bind fun r1 =>
    (wr r1.buf (n - 1) [c]).bind fun buf => (wr buf n [0]).map fun buf => { r1 with buf := buf, len := n }

/-- `concat(b, n)`: `String s(_len+n, _len+n); memcpy(p, str(), _len); memcpy(p+_len, b, n); p[_len+n] = 0;` -/
def concat (r : Rep) (b : Bytes) : Option Rep :=
  (ctor2 (r.len + b.length) (r.len + b.length)).bind fun s =>
    (rd r.buf 0 r.len).bind fun src => (wr s.buf 0 src).bind fun buf =>
      (wr buf r.len b).bind fun buf => (wr buf (r.len + b.length) [0]).map fun buf => { s with buf := buf }

/-- `operator+(const char* a, const String& b)`: `String s(a); s += b; return s;` -/
def rconcat (a : Bytes) (r : Rep) : Option Rep :=
  (ofCStr a).bind fun s => s.append (.ext r.toList)

/-- `operator+(const char a, const String& b)`: `String s(a); s += b; return s;` -/
def rconcatChar (c : UInt8) (r : Rep) : Option Rep :=
  (ofChar c).bind fun s => s.append (.ext r.toList)

/-- `substring(i, j)`: `String s(j-i, j-i); memcpy(s.str(), str()+i, j-i); s.str()[j-i] = 0;`
    (`i > j` would be a negative size: `none`) -/
def substring (r : Rep) (i j : Nat) : Option Rep :=
  if i ≤ j then
    (ctor2 (j - i) (j - i)).bind fun s =>
      (rd r.buf i (j - i)).bind fun src => (wr s.buf 0 src).bind fun buf =>
        (wr buf (j - i) [0]).map fun buf => { s with buf := buf }
  else none

/-- `substr(i, n)` -/
def substr (r : Rep) (i n : Int) : Option Rep :=
  (substrIdx r.len i n).bind fun (i, j) => r.substring i j

/-- `clear()`: `_len = 0; str()[0] = 0;` -/
def clear (r : Rep) : Option Rep :=
  (wr r.buf 0 [0]).map fun b => { r with len := 0, buf := b }

/-- what the scanning loops and libc see through `str()` -/
def view (r : Rep) : Bytes := cstr r.buf

/-- `startsWith(const String& s)`: `_len >= s.length() && strncmp(str(), s, s.length()) == 0` -/
def startsWith (r : Rep) (p : Bytes) : Bool := r.len ≥ p.length && strncmp p.length r.view p == 0

/-- `endsWith(const String& s)`: `_len >= s.length() && strncmp(str() + _len - s.length(), s, s.length()) == 0` -/
def endsWith (r : Rep) (p : Bytes) : Bool :=
  r.len ≥ p.length && strncmp p.length (r.view.drop (r.len - p.length)) p == 0

/-- `operator==(const String& s)`: `(_len != s._len) ? false : !memcmp(str(), s.str(), _len)` -/
def eq (r s : Rep) : Bool := if r.len != s.len then false else r.buf.take r.len == s.buf.take r.len

/-- `operator!=(const String& s)`: `(_len != s._len) ? true : memcmp(str(), s.str(), _len) != 0` -/
def ne (r s : Rep) : Bool := if r.len != s.len then true else r.buf.take r.len != s.buf.take r.len

/-- `compare(const String& s)`: sign of `strcmp(str(), s.str())`; `operator<` is `compare < 0` -/
def compare (r s : Rep) : Int := strcmp r.view s.view
def lt (r s : Rep) : Bool := r.compare s < 0

/-- `operator==(const char* s)`: `!strcmp(str(), s)` -/
def eqCStr (r : Rep) (s : Bytes) : Bool := strcmp r.view s == 0

/-- `operator[](int i)`: `str()[i]` — one read of the storage block (`none` = outside the block) -/
def charAt (r : Rep) (i : Nat) : Option UInt8 := r.buf[i]?

/-- `startsWith(char c)`: `str()[0] == c` -/
def startsWithChar (r : Rep) (c : UInt8) : Option Bool := (r.charAt 0).map (· == c)

/-- `endsWith(char c)`: `_len > 0 && str()[_len-1] == c` -/
def endsWithChar (r : Rep) (c : UInt8) : Option Bool :=
  if r.len > 0 then (r.charAt (r.len - 1)).map (· == c) else some false

/-- `operator==(char c)`: `_len==1 && str()[0]==c` -/
def eqChar (r : Rep) (c : UInt8) : Option Bool :=
  if r.len == 1 then (r.charAt 0).map (· == c) else some false

/-- `ok()` / `operator bool()`: `_len > 0`;  `operator!()`: `_len == 0` -/
def ok (r : Rep) : Bool := r.len > 0
def isEmpty (r : Rep) : Bool := r.len == 0

/-- `isTrue()`: `char c = str()[0]; return length() > 0 && *this != "0" && c != 'N' && c != 'n' && c != 'f' && c != 'F';` -/
def isTrue (r : Rep) : Option Bool :=
  (r.charAt 0).map fun c => r.len > 0 && !(r.eqCStr [48]) && c != 78 && c != 110 && c != 102 && c != 70

/-- `contains(const String& / const char*)`: `indexOf(s) >= 0`;  `contains(char)`: `indexOf(c) >= 0` -/
def contains (r : Rep) (p : Bytes) : Bool := (indexOf r.view p 0).isSome
def containsChar (r : Rep) (c : UInt8) : Bool := (indexOfChar r.view c 0).isSome

/-- `trim()`: `memmove(s, s+i, j-i+1); s[j-i+1] = 0; _len = j-i+1;` (`J = j+1`) -/
def trim (r : Rep) : Option Rep :=
  let s := r.toList
  let i := trimStart s
  let J := trimEnd s i r.len
  (rd r.buf i (J - i)).bind fun src => (wr r.buf 0 src).bind fun buf =>
    (wr buf (J - i) [0]).map fun buf => { r with buf := buf, len := J - i }

/-- `trimmed()`: the same scans, then `substring(i, j+1)` -/
def trimmed (r : Rep) : Option Rep :=
  let s := r.toList
  let i := trimStart s
  r.substring i (trimEnd s i r.len)

/-- `split(sep, out)`: each piece is built by `substring` -/
def splitLoop (r : Rep) (sep : Bytes) (i : Nat) : Option (List Rep) :=
  if h : i ≤ r.toList.length ∧ 0 < sep.length then
    let j := nextCut r.toList sep i
    (r.substring i j).bind fun p => (splitLoop r sep (j + sep.length)).map fun t => p :: t
  else some []
termination_by r.toList.length + 1 - i
decreasing_by
  have := nextCut_ge r.toList sep i h.1
  omega

def split (r : Rep) (sep : Bytes) : Option (List Rep) := splitLoop r sep 0

/-- `split()` by blanks on the representation: the loops of `splitWsLoop`, each token built by `a << substring(i, j)` -/
def splitWsLoop (r : Rep) (i : Nat) : Option (List Rep) :=
  if h : i ≤ r.toList.length then
    if i = r.toList.length then some []
    else if isSpace (r.toList.getD i 0) then splitWsLoop r (i + 1)
    else
      let j := tokEnd r.toList (i + 1)
      (r.substring i j).bind fun p => (splitWsLoop r (j + 1)).map fun t => p :: t
  else some []
termination_by r.toList.length + 1 - i
decreasing_by
  all_goals (try unfold tokEnd); omega

def splitWs (r : Rep) : Option (List Rep) := splitWsLoop r 0

/-! `split(sep, out)` / `split(out)` with the output array given by the caller.  The array is a list of *cells*:
`some r` = a live element, `none` = an element that has been destroyed (`out.clear()` destroys every element; the
references `*this` / `sep` the caller passed keep pointing at the dead cell).  The operands are given by reference:
a String outside the array, or element `k` of the output array itself.  Reading a dead cell fails (`none`).

Both statement orders are transcribed: the repaired one (42a2190: pieces into a local array while `out` is untouched,
then `out.clear(); out.append(parts)`) and the one before the repair (`out.clear()` first, then `out << piece` in the loop). -/

abbrev Cells := List (Option Rep)

/-- where an operand of `split(…, out)` lives -/
inductive Ref where
  | ext (r : Rep)
  | cell (k : Nat)

/-- evaluating `*this` / `sep` -/
def deref (cells : Cells) : Ref → Option Rep
  | .ext r => some r
  | .cell k => (cells[k]?).bind id

/-- `out.clear()`: every element is destroyed -/
def clearCells (cells : Cells) : Cells := cells.map fun _ => none

def liveCells (l : List Rep) : Cells := l.map some

/-- `out.append(parts)` on the cleared array: resize (default-constructed Strings), then element-wise assignment -/
def fillArray (parts : List Rep) : Option (List Rep) := parts.mapM fun p => empty.assign (.ext p.toList)

/-- `self.split(sep, out)`, repaired: `m = sep.length(), n = length()` and the loop read the operands while `out` is
    untouched (the pieces go to the local `parts`); only then `out.clear(); out.append(parts)` -/
def splitInto (out : Cells) (self sep : Ref) : Option Cells :=
  (deref out sep).bind fun sp => (deref out self).bind fun s =>
    (s.split sp.toList).bind fun parts =>
      let _dead := clearCells out
      (fillArray parts).map liveCells

/-- `self.split(sep, out)` before the repair: `out.clear();` first, then `m = sep.length(), n = length()` and the loop with
    `out << substring(i, j)` — the operands are read through the cleared array -/
def splitIntoOld (out : Cells) (self sep : Ref) : Option Cells :=
  let out1 := clearCells out
  (deref out1 sep).bind fun sp => (deref out1 self).bind fun s =>
    (s.split sp.toList).bind fun parts => (parts.mapM copy).map liveCells

/-- `self.split(out)` (blanks), repaired and before -/
def splitWsInto (out : Cells) (self : Ref) : Option Cells :=
  (deref out self).bind fun s => s.splitWs.bind fun parts =>
    let _dead := clearCells out
    (fillArray parts).map liveCells

def splitWsIntoOld (out : Cells) (self : Ref) : Option Cells :=
  let out1 := clearCells out
  (deref out1 self).bind fun s => s.splitWs.bind fun parts => (parts.mapM copy).map liveCells

/-- `Array<String>::join(sep)`: `if (n == 0) return ""; String s = a[0]; for (i = 1..) { s += sep; String v = a[i]; s += v; }` -/
def joinLoop (sep : Rep) (acc : Rep) : List Rep → Option Rep
  | [] => some acc
  | p :: t => (acc.append (.ext sep.toList)).bind fun a => (copy p).bind fun v =>
      (a.append (.ext v.toList)).bind fun a => joinLoop sep a t

def join (sep : Rep) : List Rep → Option Rep
  | [] => ofCStr []
  | p :: t => (copy p).bind fun s => joinLoop sep s t

/-- `replace(a, b)`: `String out(length(), 0); out << substring(0, j); loop { out << b; out.append(str()+i, j-i); }` -/
def replaceLoop (r : Rep) (a b : Bytes) (i : Nat) (out : Rep) : Option Rep :=
  if h : i ≤ r.toList.length ∧ 0 < a.length then
    let j := nextCut r.toList a i
    (out.append (.ext b)).bind fun out => (rd r.buf i (j - i)).bind fun piece =>
      (out.append (.ext piece)).bind fun out => replaceLoop r a b (j + a.length) out
  else some out
termination_by r.toList.length + 1 - i
decreasing_by
  have := nextCut_ge r.toList a i h.1
  omega

def replace (r : Rep) (a b : Bytes) : Option Rep :=
  match strstr a r.toList with
  | none => copy r
  | some j =>
    (ctor2 r.len 0).bind fun out => (r.substring 0 j).bind fun p =>
      (out.append (.ext p.toList)).bind fun out => replaceLoop r a b (j + a.length) out

/-! ### constructors from numbers -/

/-- write a NUL-terminated text produced by `myitoa`/`snprintf` into freshly `alloc`ed storage -/
def ofText (allocN : Nat) (txt : Bytes) : Option Rep :=
  let a := alloc allocN
  (wr a.buf 0 (txt ++ [0])).map fun b => { a with buf := b, len := txt.length }

/-- `String(int x)`: `alloc(11); _len = myitoa(x, str());` -/
def ofInt (x : Int) : Option Rep := ofText Gen.Str.intAlloc (myitoa x)
/-- `String(unsigned x)`: `alloc(10); _len = snprintf(str(), cap(), "%u", x);` -/
def ofUInt (x : Nat) : Option Rep := ofText Gen.Str.uintAlloc (utoa x)
/-- `String(Long x)`: `alloc((x < 10^15 && x > -10^14) ? 15 : 21); _len = myltoa(x, str());` -/
def ofLong (x : Int) : Option Rep :=
  ofText (if x < (Gen.Str.longInlineBelow : Int) ∧ x > -(Gen.Str.longInlineAbove : Int) then SPACE - 1 else Gen.Str.longHeapAlloc) (myltoa x)
/-- `String(ULong x)`: `alloc(x < 10^15 ? 15 : 21); _len = snprintf(str(), cap(), "%llu", x);` -/
def ofULong (x : Nat) : Option Rep :=
  ofText (if x < Gen.Str.ulongInlineBelow then SPACE - 1 else Gen.Str.ulongHeapAlloc) (utoa x)
/-- `String(bool x)`: `alloc(5); strcpy(str(), x ? "true" : "false");` -/
def ofBool (x : Bool) : Option Rep :=
  ofText Gen.Str.boolAlloc (if x then [116, 114, 117, 101] else [102, 97, 108, 115, 101])

/-! ### printf-style constructors: the retry loops around `vsnprintf` -/

/-- `vsnprintf(buf, space, fmt, …)` (libc, modelled) for a format whose complete output is `text`:
    writes `min(|text|, space-1)` bytes and a NUL, returns `|text|` -/
def vsnprintf (buf : Bytes) (space : Nat) (text : Bytes) : Option Bytes :=
  if space = 0 then some buf else wr buf 0 (text.take (min text.length (space - 1)) ++ [0])

/-- `String(float x)`: `alloc(15); _len = snprintf(str(), cap(), "%.7g", x);` — `text` is the complete `%.7g` output
    (libc formatting is a parameter of the model) -/
def ofFloat (text : Bytes) : Option Rep :=
  let a := alloc Gen.Str.floatAlloc
  (vsnprintf a.buf a.cap text).map fun b => { a with buf := b, len := text.length }

/-- `String(double x)`: `char s[32]; _len = snprintf(s, 32, "%.15g", x); alloc(_len); strcpy(str(), s);` -/
def ofDouble (text : Bytes) : Option Rep :=
  (vsnprintf (fresh Gen.Str.doubleStack) Gen.Str.doubleStack text).bind fun s =>
    let a := alloc text.length
    (wr a.buf 0 (cstr s ++ [0])).map fun b => { a with buf := b, len := text.length }

/-- `while (((n = vsnprintf(str(), space, …)) == -1 || n >= space) && ++i < 10) { resize(n >= space ? n : 2*space, false); space = _size ? _size : 16; }`
    `tries` = remaining values of `i` -/
def fmtLoop (text : Bytes) : Nat → Rep → Option Rep
  | 0, r => (vsnprintf r.buf r.cap text).map fun b => { r with buf := b, len := text.length }
  | tries + 1, r =>
    (vsnprintf r.buf r.cap text).bind fun b =>
      let r := { r with buf := b }
      if text.length ≥ r.cap then (r.resize text.length false).bind fun r => fmtLoop text tries r
      else some { r with len := text.length }

/-- `String(int n, const char* fmt, ...)`: `alloc(n ? n : 100)`, loop with `++i < 10`, `_len = n` -/
def ofFormat (n0 : Nat) (text : Bytes) : Option Rep :=
  fmtLoop text (Gen.Str.fmtTries - 1) (alloc (if n0 = 0 then Gen.Str.fmtDefault else n0))

/-- `String::f(fmt, ...)`: first attempt into `char ss[256]` with `space = 255`; on success `s.assign(ss, n)`;
    otherwise `s.resize(n, false)` and the loop continues in the string's storage (`++i < 16`) -/
def ofF (text : Bytes) : Option Rep :=
  (vsnprintf (fresh Gen.Str.fStack) Gen.Str.fSpace text).bind fun ss =>
    if text.length ≥ Gen.Str.fSpace then
      (empty.resize text.length false).bind fun s => fmtLoop text (Gen.Str.fTries - 2) s
    else
      (rd ss 0 text.length).bind fun src => (empty.assign (.ext src)).map fun s => { s with len := text.length }

/-- `replaceme(a, b)`: `do { if (*p == a) *p = b; } while (*p++);` — the loop test reads the byte *after* the
    replacement; `none` = the scan ran off the block (only possible when the terminator itself is replaced, `a = 0`) -/
def replaceMeBuf (a b : UInt8) : Bytes → Option Bytes
  | [] => none
  | c :: t =>
    let c' := if c == a then b else c
    if c' == 0 then some (c' :: t) else (replaceMeBuf a b t).map (c' :: ·)

def replaceMe (r : Rep) (a b : UInt8) : Option Rep :=
  (replaceMeBuf a b r.buf).map fun buf => { r with buf := buf }

/-! ### the in-place mutations of the line protocol, as one interpreter (what the driver runs on `cur`) -/

/-- total encoding of a piece `[off, off+n)` of a string of length `len` -/
def piece (len a b : Nat) : Nat × Nat :=
  let off := a % (len + 1)
  (off, b % (len - off + 1))

inductive Mut where
  /-- `s = String(b)` -/
  | assign (b : Bytes)
  /-- `s += String(b)` -/
  | append (b : Bytes)
  /-- `s += c` -/
  | appendChar (c : UInt8)
  /-- `s << x` (`int`) -/
  | appendInt (x : Int)
  /-- `s.append(s.data() + off, n)` with `(off, n) = piece len a b` -/
  | appendSelf (a b : Nat)
  /-- `s += s` -/
  | plusSelf
  /-- `s.assign(*s + off, n)` -/
  | assignSelf (a b : Nat)
  /-- `s = *s + off` -/
  | assignTail (a : Nat)
  /-- `s = s` -/
  | selfEq
  | trim
  | clear
  /-- `s.resize(a % (len+1))` -/
  | shrink (a : Nat)
  /-- `s.resize(len + n); memset(s.data() + len, c, n)` -/
  | grow (n : Nat) (c : UInt8)
  /-- `s.resize(n, false); memset(s.data(), c, n)` -/
  | refill (n : Nat) (c : UInt8)
  /-- `s.resize(n, true, false)` -/
  | reserve (n : Nat)
  /-- `s.data()[a % (len+1)] = 0; s.fix()` -/
  | pokeFix (a : Nat)
  /-- `s.replaceme(a, b)` -/
  | replaceMe (a b : UInt8)
deriving Repr

def mutate (r : Rep) : Mut → Option Rep
  | .assign b => r.assign (.ext b)
  | .append b => r.append (.ext b)
  | .appendChar c => r.appendChar c
  | .appendInt x => (ofInt x).bind fun v => r.append (.ext v.toList)
  | .appendSelf a b => r.append (.self (piece r.len a b).1 (piece r.len a b).2)
  | .plusSelf => r.append (.self 0 r.len)
  | .assignSelf a b => r.assign (.self (piece r.len a b).1 (piece r.len a b).2)
  | .assignTail a => r.assign (.self (a % (r.len + 1)) (r.len - a % (r.len + 1)))
  | .selfEq => r.assign (.self 0 r.len)
  | .trim => r.trim
  | .clear => r.clear
  | .shrink a => r.resize (a % (r.len + 1))
  | .grow n c => (r.resize (r.len + n)).bind fun r1 =>
      (wr r1.buf r.len (List.replicate n c)).map fun b => { r1 with buf := b }
  | .refill n c => (r.resize n false).bind fun r1 =>
      (wr r1.buf 0 (List.replicate n c)).map fun b => { r1 with buf := b }
  | .reserve n => r.resize n true false
  | .pokeFix a => (wr r.buf (a % (r.len + 1)) [0]).map fun b => { r with buf := b, len := (cstr b).length }
  | .replaceMe a b => r.replaceMe a b

/-- a whole history of mutations -/
def run (r : Rep) : List Mut → Option Rep
  | [] => some r
  | m :: ms => (r.mutate m).bind fun r' => run r' ms

end Rep
end AslModel.Str
