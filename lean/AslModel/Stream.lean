import Gen.StreamGen
/-!
# C16 — model of the endian-aware binary streams

`StreamBuffer::operator<<`, `StreamBufferReader::read2/4/8` and `operator>>` (include/asl/StreamBuffer.h),
`File::operator<< / >>` (include/asl/File.h), `Socket::operator<< / >>` (include/asl/Socket.h),
`swapBytes` / `bytesSwapped` (include/asl/defs.h).

A scalar is its *bit pattern* `v : Nat` (`v < 256 ^ sizeof T`); floats and doubles are their bits, so
NaN payloads are ordinary values.  The C++ object of type `T` is modelled by its object
representation `objRep` (the bytes `memcpy` sees), which depends on the host byte order.  The
writers work on object representations (`memcpy`, `swapBytes`, `write`); `StreamBufferReader`
assembles the value arithmetically (`<<`, `|`).

Regenerated from the source on every run (`Gen/StreamGen.lean`): `ASL_OTHER_ENDIAN`, the host byte
order and `sizeof` (compiler probe), the byte-order test of every `operator<<`/`operator>>`, the byte
count of the non-swapping `Array<T>` branch, the shift/index terms of `read2/4/8`, which `readN`
each `operator>>` calls, the index expression of `swapBytes`, the default byte orders.  Core Lean only.
-/
namespace AslModel.Stream
open Gen.Stream

/-! ## object representations -/

/-- the `w` low-order bytes of `v`, least significant first -/
def leBytes : Nat → Nat → List UInt8
  | 0, _ => []
  | w + 1, v => UInt8.ofNat (v % 256) :: leBytes w (v / 256)

/-- number whose least-significant-first bytes are `bs` -/
def leVal : List UInt8 → Nat
  | [] => 0
  | b :: t => b.toNat + 256 * leVal t

/-- bytes of the C++ object holding bit pattern `v` in a `w`-byte scalar on this host (what `memcpy(b, &x, w)` yields) -/
def objRep (w v : Nat) : List UInt8 :=
  if hostLittle then leBytes w v else (leBytes w v).reverse

/-- bit pattern of the scalar whose object bytes are `bs` (what `memcpy(&x, b, w)` produces) -/
def objVal (bs : List UInt8) : Nat :=
  if hostLittle then leVal bs else leVal bs.reverse

/-- `swapBytes`: `for (i = 0; i < n; i++) by[i] = bx[INDEX];` with the index expression regenerated from
    defs.h (`swapIndex n i`, today `n - i - 1`).  An index outside `bx` reads as 0 here; that it never is
    outside is theorem `C16.swap_index_in_bounds`. -/
def swapBytes (bx : List UInt8) : List UInt8 :=
  (List.range bx.length).map fun i => bx.getD (swapIndex bx.length i) 0

/-- the bit pattern a C++ variable of type `t` holds after converting the 64-bit number `v` to it
    (what the harness does with the op argument): `bool` ⇒ `v != 0`, others ⇒ truncation -/
def norm (t : Ty) (v : Nat) : Nat :=
  match t with
  | .b => if v % 2 ^ 64 != 0 then 1 else 0
  | _ => v % 256 ^ sizeofT t

/-! ## writers -/

inductive Kind where
  | sb | file | sock
deriving DecidableEq, Repr

/-- generic `template<class T> operator<<(const T& x)` of the three classes:
    StreamBuffer: `AsBytes<T> y(x); if (_endian == OTHER) swapBytes(y); write(y.b, sizeof(T));`
    File/Socket:  `T y = (_endian == OTHER) ? bytesSwapped(x) : x; write(&y, sizeof(x));` -/
def putGeneric (swap : Bool) (w v : Nat) : List UInt8 :=
  let y := objRep w v
  if swap then swapBytes y else y

def scalarSwap (k : Kind) (e : Endian) : Bool :=
  match k with
  | .sb => sbSwap e
  | .file => fileWSwap e
  | .sock => sockWSwap e

/-- `stream << x` for a scalar `x` of type `t` holding bit pattern `v`.
    StreamBuffer has non-template overloads for `bool` (`byte(x ? 1 : 0)`), `byte`, `char`, `signed char`
    (the byte itself); File and Socket send every type through the template. -/
def putScalar (k : Kind) (e : Endian) (t : Ty) (v : Nat) : List UInt8 :=
  match k, t with
  | .sb, .b => [if v != 0 then 1 else 0]
  | .sb, .u8 => [UInt8.ofNat v]
  | .sb, .ch => [UInt8.ofNat v]
  | .sb, .i8 => [UInt8.ofNat v]
  | _, _ => putGeneric (scalarSwap k e) (sizeofT t) v

/-- the test of `operator<<(const Array<T>&)`: `_endian == OTHER || !IsArithmetic<T>::value`
    (`arith` = the element type is a built-in arithmetic type) -/
def arraySwap (k : Kind) (e : Endian) (arith : Bool) : Bool :=
  match k with
  | .sb => sbArraySwap e arith
  | .file => fileArraySwap e arith
  | .sock => sockArraySwap e arith

def arrayCount (k : Kind) (len size : Nat) : Nat :=
  match k with
  | .sb => sbArrayCount len size
  | .file => fileArrayCount len size
  | .sock => sockArrayCount len size

/-- the storage of an `Array<T>`: the elements' object representations one after the other -/
def arrayMem (t : Ty) (vs : List Nat) : List UInt8 :=
  vs.flatMap (objRep (sizeofT t))

/-- `stream << Array<T>`: `Array<byte>` has its own overload (`write(x.data(), x.length())`); otherwise
    `if (_endian == OTHER || !IsArithmetic<T>::value) foreach(y, x) *this << y; else write(&x[0], COUNT);`
    `take` models `write` reading `COUNT` bytes from the array's storage; that `COUNT` never exceeds
    the storage is theorem `C16.array_write_in_bounds`. -/
def putArray (k : Kind) (e : Endian) (t : Ty) (vs : List Nat) : List UInt8 :=
  match t with
  | .u8 => vs.map UInt8.ofNat
  | _ =>
    if arraySwap k e (arithT t) then vs.flatMap (putScalar k e t)
    else (arrayMem t vs).take (arrayCount k vs.length (sizeofT t))

/-! ## the writers with the caller's memory made explicit

The functions above are value-level: a write maps (order, value) to bytes and cannot say whether the real operator
leaves its `const T&` / `const Array<T>&` argument alone.  Here the argument is a piece of memory (its object
representation) and the generic `operator<<(const T& x)` is the list of memory steps the translator found in its
body (`Gen.Stream.WStmt`: temporary copy, `swapBytes` on the temporary or in place on the argument, `write` from either).
`runW` executes them; its result is (bytes handed to `write`, the argument's memory afterwards).  The driver's `w`, `wa`,
`wv` run these and report the argument afterwards, as the harness does on the real object.  Theorems
`C16.scalar_write_mem` / `C16.array_write_mem`: the bytes are those of `putScalar` / `putArray` and the argument is
what it was. -/

structure WMem where
  arg : List UInt8
  tmp : List UInt8 := []
  out : List UInt8 := []

def execW (swap : Bool) (m : WMem) : WStmt → WMem
  | .copyTmp => { m with tmp := m.arg }
  | .swapTmp => { m with tmp := if swap then swapBytes m.tmp else m.tmp }
  | .swapArg => { m with arg := if swap then swapBytes m.arg else m.arg }
  | .writeTmp => { m with out := m.out ++ m.tmp }
  | .writeArg => { m with out := m.out ++ m.arg }

/-- (bytes written, the argument's memory afterwards) -/
def runW (swap : Bool) (path : List WStmt) (x : List UInt8) : List UInt8 × List UInt8 :=
  let m := path.foldl (execW swap) { arg := x }
  (m.out, m.arg)

def scalarPath : Kind → List WStmt
  | .sb => sbPath
  | .file => filePath
  | .sock => sockPath

/-- `stream << x` on the object `x` of type `t` holding `v`.  StreamBuffer's `bool`/`byte`/`char`/`signed char`
    overloads only read `x` (`byte(x ? 1 : 0)`, `*(byte*)&x`; bodies shape-checked by the translator). -/
def putScalarMem (k : Kind) (e : Endian) (t : Ty) (v : Nat) : List UInt8 × List UInt8 :=
  match k, t with
  | .sb, .b => (putScalar .sb e .b v, objRep (sizeofT .b) v)
  | .sb, .u8 => (putScalar .sb e .u8 v, objRep (sizeofT .u8) v)
  | .sb, .ch => (putScalar .sb e .ch v, objRep (sizeofT .ch) v)
  | .sb, .i8 => (putScalar .sb e .i8 v, objRep (sizeofT .i8) v)
  | _, _ => runW (scalarSwap k e) (scalarPath k) (objRep (sizeofT t) v)

/-- `stream << Array<T>` on the array whose storage is `arrayMem t vs`: the item-by-item branch hands every element
    *itself* (`foreach(const T& y, x) *this << y` — a reference into the storage) to the scalar operator, so whatever
    that does to its argument happens to the caller's array; the block branch and the `Array<byte>` overload only
    read the storage (`write(&x[0], COUNT)`). -/
def putArrayMem (k : Kind) (e : Endian) (t : Ty) (vs : List Nat) : List UInt8 × List UInt8 :=
  match t with
  | .u8 => (vs.map UInt8.ofNat, arrayMem .u8 vs)
  | _ =>
    if arraySwap k e (arithT t) then
      ((vs.map (putScalarMem k e t)).flatMap (·.1), (vs.map (putScalarMem k e t)).flatMap (·.2))
    else ((arrayMem t vs).take (arrayCount k vs.length (sizeofT t)), arrayMem t vs)

/-- `stream << Array<String>`: the item-by-item branch sends every string through `operator<<(const String&)`
    (its bytes, whatever the byte order); the one-block branch would write the String *objects'* memory
    (pointers, uninitialised bytes), which has no model: `none`.  Theorem `C16.string_array_canonical` shows the
    block branch is never taken (it was, in native order, before commit 8a61870). -/
def putStrArray (k : Kind) (e : Endian) (ss : List (List UInt8)) : Option (List UInt8) :=
  if arraySwap k e arithString then some (ss.flatMap id) else none

/-- `StreamBuffer << T[N]` (commit 7c56539): `for (i < N) *this << x[i]` — item by item in every byte order
    (before, the generic `operator<<(const T&)` reversed all `N*sizeof(T)` bytes in the non-native order).
    File and Socket have no such operator (a C array does not compile there), and a `char[N]` never gets here: it is a C
    string for `operator<<(char*)` (`.cstr`).  The function is total over `k` and `t`, but it describes the library only for
    `k = .sb ∧ t ≠ .ch` — the predicate `C16.WF` the history theorems assume; driver and harness answer `na` / `bad-op`
    outside it. -/
def putCArray (k : Kind) (e : Endian) (t : Ty) (vs : List Nat) : List UInt8 :=
  vs.flatMap (putScalar k e t)

/-- `stream << const char*`, and since commit 7c56539 also `<< char*` / `<< char[N]` (before, the generic operator
    wrote the pointer value, resp. the N bytes of the buffer): `write(x, strlen(x))` -/
def putCStr (bs : List UInt8) : List UInt8 := bs.takeWhile (· != 0)

/-! ## raw bytes: counts regenerated from the source -/

/-- the number of bytes `write(p, n)` hands on: `StreamBuffer::write` = `append(data, COUNT)`, `File::write` =
    `fwrite(p, SIZE, COUNT, _file)`; `Socket::write` loops over `send` until `n` bytes are out (assumption, C10) -/
def rawWriteCount (k : Kind) (n : Nat) : Nat :=
  match k with
  | .sb => sbWriteCount n
  | .file => fileWriteCount n
  | .sock => n

/-- the number of bytes `read(n)` / `read(p, n)` returns: `StreamBufferReader::read(n)` = `ByteArray a(COUNT);
    memcpy(a.data(), _ptr, COUNT)`, `File::read` = `fread(p, SIZE, COUNT, _file)`; `Socket::read` (assumption, C10) -/
def rawReadCount (k : Kind) (n : Nat) : Nat :=
  match k with
  | .sb => sbrReadCount n
  | .file => fileReadCount n
  | .sock => n

/-- … and how far the reader moves: `_ptr += ADV` in `StreamBufferReader::read(n)`; a FILE / a socket moves by what it
    delivered -/
def rawReadAdv (k : Kind) (n : Nat) : Nat :=
  match k with
  | .sb => sbrReadAdv n
  | .file => fileReadCount n
  | .sock => n

/-- how far `skip(n)` moves the reader: `_ptr += ADV` (StreamBufferReader), a thrown-away read of `COUNT` bytes
    (`Socket_::skip`); a File is moved with `seek(n, HERE)` = `fseek` (OS) -/
def skipAdv (k : Kind) (n : Nat) : Nat :=
  match k with
  | .sb => sbrSkipAdv n
  | .file => n
  | .sock => sockSkipCount n

/-- one write operation; `setEndian` only changes the stream's byte order -/
inductive WOp where
  | setEndian (e : Endian)
  | scalar (t : Ty) (v : Nat)
  | array (t : Ty) (vs : List Nat)
  | bytes (bs : List UInt8)      -- ByteArray / String: `write(data, length)`
  | cstr (bs : List UInt8)       -- const char*
  | strArray (ss : List (List UInt8))   -- Array<String>
  | carray (t : Ty) (vs : List Nat)     -- T[N] (StreamBuffer only, T ≠ char: `C16.WF`)
deriving Repr

/-- new byte order and the bytes appended by the operation -/
def writeOp (k : Kind) (e : Endian) : WOp → Endian × List UInt8
  | .setEndian e' => (e', [])
  | .scalar t v => (e, putScalar k e t (norm t v))
  | .array t vs => (e, putArray k e t (vs.map (norm t)))
  | .bytes bs => (e, bs.take (rawWriteCount k bs.length))
  | .cstr bs => (e, putCStr bs)
  | .carray t vs => (e, putCArray k e t (vs.map (norm t)))
  | .strArray ss => (e, (putStrArray k e ss).getD [])   -- never `none`: `C16.string_array_canonical`

/-- a whole write history: final byte order and everything written -/
def writeAll (k : Kind) : Endian → List WOp → Endian × List UInt8
  | e, [] => (e, [])
  | e, op :: ops =>
    let r := writeOp k e op
    let r' := writeAll k r.1 ops
    (r'.1, r.2 ++ r'.2)

def defaultW : Kind → Endian
  | .sb => sbDefault
  | .file => fileDefault
  | .sock => sockDefault

/-! ## readers -/

/-- `t₁ | t₂ | …` with `tᵢ = (T)_ptr[i] << s` -/
def orTerms (terms : List (Nat × Nat)) (p : Nat → Nat) : Nat :=
  terms.foldl (fun acc t => acc ||| (p t.1 <<< t.2)) 0

/-- `readN`: the value is converted to the `N`-byte unsigned type (`AsOther<unsigned…, T> a(expr)`) and
    `memcpy`ed into `x`; `_ptr += adv`.  Bytes beyond the data read as 0 here — the reader does not
    check bounds ("You have to make sure you don't read past the bounds of the buffer"); the driver
    and the theorems only use `readN` with at least `adv` bytes available, and theorem
    `C16.reader_indices_in_bounds` shows every index is `< adv`. -/
def readN (cond : Bool) (thn els : List (Nat × Nat)) (adv w : Nat) (bs : List UInt8) : Nat × List UInt8 :=
  let p := fun i => (bs.getD i 0).toNat
  (orTerms (if cond then thn else els) p % 256 ^ w, bs.drop adv)

def sbrGet (e : Endian) (t : Ty) (bs : List UInt8) : Nat × List UInt8 :=
  match t with
  | .b => ((if bs.getD 0 0 != 0 then 1 else 0), bs.drop 1)
  | .i8 => ((bs.getD 0 0).toNat, bs.drop 1)
  | .ch => ((bs.getD 0 0).toNat, bs.drop 1)
  | .u8 => ((bs.getD 0 0).toNat, bs.drop 1)
  | _ =>
    match sbrWidth t with
    | 2 => readN (read2Cond e) read2Then read2Else read2Adv 2 bs
    | 4 => readN (read4Cond e) read4Then read4Else read4Adv 4 bs
    | _ => readN (read8Cond e) read8Then read8Else read8Adv 8 bs

/-- number of bytes `sbrGet` needs -/
def sbrNeed (t : Ty) : Nat :=
  match t with
  | .b | .i8 | .ch | .u8 => 1
  | _ => match sbrWidth t with
    | 2 => read2Adv
    | 4 => read4Adv
    | _ => read8Adv

/-- File/Socket `operator>>(T& x)`: `read(&x, sizeof(x)); if (_endian == OTHER) swapBytes(x);`
    (`char` and `byte` have overloads without the swap — one byte either way) -/
def getGeneric (swap : Bool) (w : Nat) (bs : List UInt8) : Nat × List UInt8 :=
  let x := bs.take w
  let x := if swap then swapBytes x else x
  (objVal x, bs.drop w)

def readSwap (k : Kind) (e : Endian) : Bool :=
  match k with
  | .sb => false
  | .file => fileRSwap e
  | .sock => sockRSwap e

def getScalar (k : Kind) (e : Endian) (t : Ty) (bs : List UInt8) : Nat × List UInt8 :=
  match k with
  | .sb => sbrGet e t bs
  | _ =>
    match t with
    | .ch => getGeneric false 1 bs
    | .u8 => getGeneric false 1 bs
    | _ => getGeneric (readSwap k e) (sizeofT t) bs

def rArraySwap (k : Kind) (e : Endian) (arith : Bool) : Bool :=
  match k with
  | .sb => true
  | .file => fileRArraySwap e arith
  | .sock => sockRArraySwap e arith

def rArrayCount (k : Kind) (len size : Nat) : Nat :=
  match k with
  | .sb => len * size
  | .file => fileRArrayCount len size
  | .sock => sockRArrayCount len size

/-- `n` successive `*this >> x[i]` -/
def getMany (k : Kind) (e : Endian) (t : Ty) : Nat → List UInt8 → List Nat × List UInt8
  | 0, bs => ([], bs)
  | n + 1, bs =>
    let r := getScalar k e t bs
    let r' := getMany k e t n r.2
    (r.1 :: r'.1, r'.2)

/-- the elements of an `Array<T>` whose storage was filled by `read(&x[0], …)` with the bytes `bs`
    (`n` elements of `w` bytes; missing bytes leave the element as it was — modelled as 0 — but the driver and
    the theorems only use it with all the bytes present) -/
def memVals (w : Nat) : Nat → List UInt8 → List Nat
  | 0, _ => []
  | n + 1, bs => objVal (bs.take w) :: memVals w n (bs.drop w)

/-- File/Socket `stream >> Array<T>` for an array of length `n` (commit cdda882):
    `if (_endian == OTHER || !IsArithmetic<T>::value) for (i < n) *this >> x[i]; else read(&x[0], COUNT);`
    (StreamBufferReader has no such operator.) -/
def getArray (k : Kind) (e : Endian) (t : Ty) (n : Nat) (bs : List UInt8) : List Nat × List UInt8 :=
  if rArraySwap k e (arithT t) then getMany k e t n bs
  else
    let c := rArrayCount k n (sizeofT t)
    (memVals (sizeofT t) n (bs.take c), bs.drop c)

def need (k : Kind) (t : Ty) : Nat :=
  match k with
  | .sb => sbrNeed t
  | _ => sizeofT t

/-- `File::operator>>(String&)` (after commit e37681a): `int n = 0; *this >> n;` then at most `n` bytes in blocks —
    a negative `n` gives the empty string, an `n` beyond the end what is there.
    `Socket::operator>>(String&)`: `*this >> n; x = readString(n)`; `readString` treats a negative `n` as 0 and sets the
    length to the number of bytes read (`s.fix(n)`, commit b125771; it used `strlen` before and cut the value at the first
    NUL); with fewer than `n` bytes pending it would block
    (and allocates `n` bytes first): `none`, as for fewer than 4 bytes (partial length) and for StreamBufferReader,
    which has no such operator. -/
def getString (k : Kind) (e : Endian) (bs : List UInt8) : Option (List UInt8 × List UInt8) :=
  match k with
  | .sb => none
  | _ =>
    if bs.length < 4 then none else
    let r := getScalar k e .i32 bs
    let n := r.1
    if n ≥ 2 ^ 31 then some ([], r.2)
    else if k == .sock then
      if r.2.length < n then none else some (r.2.take n, r.2.drop n)
    else some (r.2.take n, r.2.drop n)

inductive ROp where
  | setEndian (e : Endian)
  | scalar (t : Ty)
  | bytes (n : Nat)      -- read(n) / read(p, n)
  | skip (n : Nat)
  | array (t : Ty) (n : Nat)   -- `>> Array<T>` of length n (File, Socket)
deriving Repr

inductive RVal where
  | none
  | val (t : Ty) (v : Nat)
  | bytes (bs : List UInt8)
  | vals (t : Ty) (vs : List Nat)
deriving Repr, DecidableEq

/-- one read operation on the remaining bytes (precondition: enough bytes, checked by the driver) -/
def readOp (k : Kind) (e : Endian) (bs : List UInt8) : ROp → Endian × List UInt8 × RVal
  | .setEndian e' => (e', bs, .none)
  | .scalar t => let r := getScalar k e t bs; (e, r.2, .val t r.1)
  | .bytes n => (e, bs.drop (rawReadAdv k n), .bytes (bs.take (rawReadCount k n)))
  | .skip n => (e, bs.drop (skipAdv k n), .none)
  | .array t n => let r := getArray k e t n bs; (e, r.2, .vals t r.1)

/-- a whole read history: final byte order, the values returned, the bytes left -/
def readAll (k : Kind) : Endian → List UInt8 → List ROp → Endian × List RVal × List UInt8
  | e, bs, [] => (e, [], bs)
  | e, bs, op :: ops =>
    let r := readOp k e bs op
    let r' := readAll k r.1 r.2.1 ops
    (r'.1, r.2.2 :: r'.2.1, r'.2.2)

def defaultR : Kind → Endian
  | .sb => sbrDefault
  | .file => fileDefault
  | .sock => sockDefault

/-! ## a Socket whose bytes arrive in pieces

`Socket_::read(void* data, int size)` (src/Socket.cpp): `if (size <= 0) return 0; do { n = recv(h, data, size); if (n <= 0)
{ error; break; } data += n; s += n; size -= n; } while (s < size0); return s;` — a blocking stream socket hands out, per
`recv`, at most `size` bytes of what has arrived so far. The pending data is a list of pieces (each piece = what one
`recv` can see at most); `Socket::get_` is `read(&x, sizeof(x)); if (endian() == OTHER) swapBytes(x);` (the whole object is
swapped whatever the number of `recv` calls it took). -/

/-- the `do … while (s < size0)` loop, `size > 0`: the bytes stored at `data` and the pieces still pending
    (an empty piece stands for `recv` returning 0: peer closed, the loop breaks) -/
def sockRecvLoop : Nat → List (List UInt8) → List UInt8 × List (List UInt8)
  | _, [] => ([], [])
  | size, p :: ps =>
    if p.length = 0 then ([], ps)
    else if size < p.length then (p.take size, p.drop size :: ps)
    else if size = p.length then (p, ps)
    else let r := sockRecvLoop (size - p.length) ps; (p ++ r.1, r.2)

/-- `Socket_::read(void*, int)` -/
def sockRead (n : Nat) (ps : List (List UInt8)) : List UInt8 × List (List UInt8) :=
  if n = 0 then ([], ps) else sockRecvLoop n ps

/-- the size `n` of the last chunk the loop received (0 when `recv` found the peer closed) -/
def sockRecvLast : Nat → List (List UInt8) → Nat
  | _, [] => 0
  | size, p :: ps =>
    if p.length = 0 then 0
    else if size < p.length then size
    else if size = p.length then p.length
    else sockRecvLast (size - p.length) ps

/-- the value `Socket_::read(void*, int)` returns: which variable the `return` after the loop names comes from G
    (`sockReadRet`: the sum `s` of the chunks today) -/
def sockReadResult (n : Nat) (ps : List (List UInt8)) : Nat :=
  if n = 0 then 0 else
  match sockReadRet with
  | .total => (sockRecvLoop n ps).1.length
  | .last => sockRecvLast n ps

/-- `ByteArray Socket_::read(int n)`: `ByteArray a(n); n = read(&a[0], a.length()); return a.resize(max(0, n));` -/
def sockReadBytes (n : Nat) (ps : List (List UInt8)) : List UInt8 × List (List UInt8) :=
  let r := sockRead n ps
  (r.1.take (sockReadResult n ps), r.2)

def getGenericFrag (swap : Bool) (w : Nat) (ps : List (List UInt8)) : Nat × List (List UInt8) :=
  let r := sockRead w ps
  let x := if swap then swapBytes r.1 else r.1
  (objVal x, r.2)

def getScalarFrag (e : Endian) (t : Ty) (ps : List (List UInt8)) : Nat × List (List UInt8) :=
  match t with
  | .ch => getGenericFrag false 1 ps
  | .u8 => getGenericFrag false 1 ps
  | _ => getGenericFrag (readSwap .sock e) (sizeofT t) ps

def getManyFrag (e : Endian) (t : Ty) : Nat → List (List UInt8) → List Nat × List (List UInt8)
  | 0, ps => ([], ps)
  | n + 1, ps =>
    let r := getScalarFrag e t ps
    let r' := getManyFrag e t n r.2
    (r.1 :: r'.1, r'.2)

def getArrayFrag (e : Endian) (t : Ty) (n : Nat) (ps : List (List UInt8)) : List Nat × List (List UInt8) :=
  if rArraySwap .sock e (arithT t) then getManyFrag e t n ps
  else
    let r := sockRead (rArrayCount .sock n (sizeofT t)) ps
    (memVals (sizeofT t) n r.1, r.2)

/-- `readOp .sock` with every `Socket_::read(p, n)` going through the receive loop -/
def readOpFrag (e : Endian) (ps : List (List UInt8)) : ROp → Endian × List (List UInt8) × RVal
  | .setEndian e' => (e', ps, .none)
  | .scalar t => let r := getScalarFrag e t ps; (e, r.2, .val t r.1)
  | .bytes n => let r := sockReadBytes (rawReadCount .sock n) ps; (e, r.2, .bytes r.1)
  | .skip n => let r := sockRead (skipAdv .sock n) ps; (e, r.2, .none)
  | .array t n => let r := getArrayFrag e t n ps; (e, r.2, .vals t r.1)

def readAllFrag : Endian → List (List UInt8) → List ROp → Endian × List RVal × List (List UInt8)
  | e, ps, [] => (e, [], ps)
  | e, ps, op :: ops =>
    let r := readOpFrag e ps op
    let r' := readAllFrag r.1 r.2.1 ops
    (r'.1, r.2.2 :: r'.2.1, r'.2.2)

/-- `Socket::operator>>(String&)` over pieces: `*this >> n; x = readString(n)`, `readString`: `n = read(&s[0], n); s.fix(n)`
    (`none` as in `getString`: fewer than 4 / than `n` bytes pending, where the real call would block) -/
def getStringFrag (e : Endian) (ps : List (List UInt8)) : Option (List UInt8 × List (List UInt8)) :=
  if ps.flatten.length < 4 then none else
  let r := getScalarFrag e .i32 ps
  let n := r.1
  if n ≥ 2 ^ 31 then some ([], r.2)
  else if r.2.flatten.length < n then none
  else let q := sockReadBytes n r.2; some (q.1, q.2)

/-- the bytes `bs` (first byte at offset `i`) cut before every offset listed in `offs` -/
def cutGo (offs : List Nat) : Nat → List UInt8 → List (List UInt8)
  | _, [] => []
  | i, b :: bs =>
    match cutGo offs (i + 1) bs with
    | [] => [[b]]
    | p :: ps => if offs.contains (i + 1) then [b] :: p :: ps else (b :: p) :: ps

/-- op `readerf`: the stream cut at the offsets `c mod (length + 1)` -/
def cutPieces (cuts : List Nat) (bs : List UInt8) : List (List UInt8) :=
  cutGo (cuts.map (· % (bs.length + 1))) 0 bs


end AslModel.Stream
