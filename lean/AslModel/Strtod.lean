/-!
# Correctly rounded decimal → binary64 conversion (model of glibc `atof`/`strtod` in the C locale)

`atofBits lex` is the IEEE-754 binary64 bit pattern nearest (ties to even) to the decimal number
spelled by `lex`, for lexemes of the shape `-?digits(.digits)?([eE][+-]?digits)?` — the only shape the
XDL/JSON number states hand to `atof`.  Exact `Nat` arithmetic, no floating point.  glibc's `strtod` is
correctly rounded in the default rounding mode; this is listed as an assumption of C05/C06 and is
exercised on every run by the correspondence check (the driver prints these bits, the harness the
real `atof` bits).  Core Lean only.
-/
namespace AslModel.Strtod

abbrev Bytes := List UInt8

def isDigit (c : UInt8) : Bool := 48 ≤ c && c ≤ 57

def digitsVal (ds : Bytes) : Nat := ds.foldl (fun y c => 10 * y + (c.toNat - 48)) 0

/-- sign, mantissa digits (integer part ++ fraction part), number of fraction digits, exponent -/
structure Dec where
  neg : Bool
  mant : Nat
  fracLen : Nat
  expNeg : Bool
  exp : Nat

/-- optional sign -/
def splitSign (lex : Bytes) : Bool × Bytes :=
  match lex with
  | 45 :: t => (true, t)
  | 43 :: t => (false, t)
  | _ => (false, lex)

/-- optional fraction: the digits after a `.` and what follows them -/
def splitFrac (s : Bytes) : Bytes × Bytes :=
  match s with
  | 46 :: t => (t.takeWhile isDigit, t.dropWhile isDigit)
  | _ => ([], s)

/-- optional exponent: its sign and digits -/
def splitExp (s : Bytes) : Bool × Bytes :=
  match s with
  | c :: t =>
    if c = 101 ∨ c = 69 then
      match t with
      | 45 :: u => (true, u.takeWhile isDigit)
      | 43 :: u => (false, u.takeWhile isDigit)
      | _ => (false, t.takeWhile isDigit)
    else (false, [])
  | [] => (false, [])

def parseDec (lex : Bytes) : Dec :=
  let r := splitSign lex
  let ip := r.2.takeWhile isDigit
  let f := splitFrac (r.2.dropWhile isDigit)
  let e := splitExp f.2
  { neg := r.1, mant := digitsVal (ip ++ f.1), fracLen := f.1.length, expNeg := e.1, exp := digitsVal e.2 }

/-- number of decimal digits of a positive natural (0 for 0) -/
def decLen (n : Nat) : Nat := if n = 0 then 0 else (Nat.toDigits 10 n).length

/-- round `num/den` (both positive) to binary64; returns the 63 low bits (exponent and fraction) -/
def roundRatio (num den : Nat) : Nat :=
  -- choose e with value = q * 2^e, q having 53 bits (or e = -1074 for subnormals)
  let bl : Int := (Nat.log2 num : Int) - (Nat.log2 den : Int)
  let quot (e : Int) : Nat × Nat × Nat :=
    -- q, r, d with num / (den * 2^e) = q + r/d
    if e ≥ 0 then
      let d := den * 2 ^ e.toNat
      (num / d, num % d, d)
    else
      let n := num * 2 ^ (-e).toNat
      (n / den, n % den, den)
  let e0 : Int := max (bl - 52) (-1074)
  let (q0, _, _) := quot e0
  -- adjust so that 2^52 ≤ q < 2^53 unless subnormal
  let e1 : Int := if q0 ≥ 2 ^ 53 then e0 + 1 else if q0 < 2 ^ 52 ∧ e0 > -1074 then e0 - 1 else e0
  let (q, r, d) := quot e1
  let q := if 2 * r > d ∨ (2 * r = d ∧ q % 2 = 1) then q + 1 else q
  let (q, e) := if q ≥ 2 ^ 53 then (q / 2, e1 + 1) else (q, e1)
  if q < 2 ^ 52 then q            -- subnormal (e = -1074) or zero
  else
    let be : Int := e + 1075
    if be ≥ 2047 then 2047 * 2 ^ 52 -- overflow → infinity
    else be.toNat * 2 ^ 52 + (q - 2 ^ 52)

def atofBits (lex : Bytes) : UInt64 :=
  let d := parseDec lex
  let sign : Nat := if d.neg then 2 ^ 63 else 0
  if d.mant = 0 then UInt64.ofNat sign else
  let nd : Int := decLen d.mant
  let e10 : Int := (if d.expNeg then -(d.exp : Int) else (d.exp : Int)) - (d.fracLen : Int)
  -- value in [10^(nd-1+e10), 10^(nd+e10))
  if nd + e10 > 310 then UInt64.ofNat (sign + 2047 * 2 ^ 52)
  else if nd + e10 < -326 then UInt64.ofNat sign
  else
    let mag := if e10 ≥ 0 then roundRatio (d.mant * 10 ^ e10.toNat) 1 else roundRatio d.mant (10 ^ (-e10).toNat)
    UInt64.ofNat (sign + mag)

end AslModel.Strtod
