/-!
# C13 — Thread start/join, parallel_for, Semaphore and Condition (include/asl/Thread.h, Mutex.h)

* `ParFor` — the index arithmetic of `Thread::parallel_for`: `n = min(nth, i1-i0)` workers, worker `k`
  runs `for (i = i0+k; i < i1; i += n) f(i)`.
* `Handover` — the creation / hand-over / join protocol as an interleaving model for any number of
  workers: the creator builds a `Context` on its stack, starts the worker, spins on `ready`, leaves the
  scope; the worker copies the context, sets `ready`, runs, sets the finished flag of its `Thread`
  object and exits; the creator then joins and deletes every `Thread`.
* `Sync` — counting semaphore and condition variable under the documented protocol.
Core Lean only.
-/
namespace AslModel.Thread

/-! ## parallel_for index assignment -/
namespace ParFor

/-- `for (i = a; i < b; i += n) f(i)` — the indices visited (fuel ≥ number of iterations) -/
def loop : Nat → Int → Int → Int → List Int
  | 0, _, _, _ => []
  | fuel + 1, a, b, n => if a < b then a :: loop fuel (a + n) b n else []

/-- `n = min(nth, i1 - i0)` (an `int`; ≤ 0 means no worker is created) -/
def nWorkers (i0 i1 : Int) (nth : Nat) : Int := min (nth : Int) (i1 - i0)

/-- indices run by worker `k` -/
def worker (i0 i1 : Int) (nth : Nat) (k : Nat) : List Int :=
  loop ((i1 - i0).toNat + 1) (i0 + k) i1 (nWorkers i0 i1 nth)

/-- all invocations of `f`, worker by worker -/
def all (i0 i1 : Int) (nth : Nat) : List Int :=
  (List.range (nWorkers i0 i1 nth).toNat).flatMap (worker i0 i1 nth)

end ParFor

/-! ## creation, hand-over and join -/
namespace Handover

/-- worker program counter: 0 not created, 1 created (context not yet copied), 2 context copied,
    3 `ready` set, 4 body run, 5 finished flag set and thread exited -/

inductive CPos where
  | spawn (k : Nat)     -- about to build the context of worker k and create its thread
  | spin (k : Nat)      -- `while (!s.ready) {}` for worker k; leaving it ends the context's scope
  | join (k : Nat)      -- about to `join()` thread k
  | del (k : Nat)       -- about to `delete` thread object k
  | done
deriving Repr, DecidableEq, Inhabited

inductive Bad where
  | ctxUseAfterScope (k : Nat)   -- worker read its context after the creator left the scope
  | threadUseAfterDelete (k : Nat)
deriving Repr, DecidableEq

structure Cfg where
  n : Nat                       -- number of workers
  ctxFree : Bool                -- subclassed threads (`start()`): no stack context, the creator does not wait for `ready`
  cpos : CPos
  wpc : Nat → Nat
  ctxValid : Nat → Bool         -- the creator's stack context of worker k is in scope
  objAlive : Nat → Bool         -- Thread object k exists
  ready : Nat → Bool
  ran : Nat → Nat               -- how many times the body of worker k has run
  finished : Nat → Bool         -- `_threadFinished` of Thread object k
  bad : Option Bad

def upd {α} (f : Nat → α) (k : Nat) (v : α) : Nat → α := fun j => if j = k then v else f j

def init (n : Nat) (ctxFree : Bool := false) : Cfg :=
  { n := n, ctxFree := ctxFree, cpos := if n = 0 then CPos.done else CPos.spawn 0, wpc := fun _ => 0, ctxValid := fun _ => false,
    objAlive := fun _ => false, ready := fun _ => false, ran := fun _ => 0, finished := fun _ => false, bad := none }

/-- actors: `none` = the creator, `some k` = worker k -/
def enabled (c : Cfg) : Option Nat → Bool
  | none => match c.cpos with
    | CPos.spawn _ => true
    | CPos.spin k => c.ready k            -- the spin loop only ends once `ready` is seen
    | CPos.join k => c.wpc k == 5         -- pthread_join returns after the thread has exited
    | CPos.del _ => true
    | CPos.done => false
  | some k => k < c.n && 1 ≤ c.wpc k && c.wpc k < 5

def step (c : Cfg) : Option Nat → Cfg
  | none => match c.cpos with
    | CPos.spawn k =>
      if c.ctxFree then
        -- `start()` of a subclassed thread: nothing to hand over, the creator goes on at once
        { c with cpos := if k + 1 < c.n then CPos.spawn (k + 1) else CPos.join 0,
                 objAlive := upd c.objAlive k true, wpc := upd c.wpc k 2 }
      else
        { c with cpos := CPos.spin k, ctxValid := upd c.ctxValid k true, objAlive := upd c.objAlive k true,
                 wpc := upd c.wpc k 1 }
    | CPos.spin k =>
      if c.ready k then
        { c with ctxValid := upd c.ctxValid k false,
                 cpos := if k + 1 < c.n then CPos.spawn (k + 1) else CPos.join 0 }
      else c
    | CPos.join k => if c.wpc k == 5 then { c with cpos := CPos.del k } else c
    | CPos.del k =>
      { c with objAlive := upd c.objAlive k false, cpos := if k + 1 < c.n then CPos.join (k + 1) else CPos.done }
    | CPos.done => c
  | some k =>
    if c.wpc k = 1 then
      if c.ctxValid k then { c with wpc := upd c.wpc k 2 } else { c with bad := some (Bad.ctxUseAfterScope k) }
    else if c.wpc k = 2 then
      -- `((Context*)p)->ready = true`: a write into the creator's stack context (function threads only)
      if c.ctxFree || c.ctxValid k then { c with wpc := upd c.wpc k 3, ready := upd c.ready k true }
      else { c with bad := some (Bad.ctxUseAfterScope k) }
    else if c.wpc k = 3 then { c with wpc := upd c.wpc k 4, ran := upd c.ran k (c.ran k + 1) }
    else if c.wpc k = 4 then
      if c.objAlive k then { c with wpc := upd c.wpc k 5, finished := upd c.finished k true }
      else { c with bad := some (Bad.threadUseAfterDelete k) }
    else c

def run (c : Cfg) : List (Option Nat) → Cfg
  | [] => c
  | a :: s => run (if enabled c a && c.bad.isNone then step c a else c) s

end Handover

/-! ## semaphore and condition variable -/
namespace Sync

/-- counting semaphore: `post` increments, `wait` is enabled only when the count is positive -/
structure Sem where
  count : Nat
  posts : Nat        -- completed posts
  waits : Nat        -- completed waits
deriving Repr, DecidableEq

def Sem.post (s : Sem) : Sem := { s with count := s.count + 1, posts := s.posts + 1 }
def Sem.canWait (s : Sem) : Bool := 0 < s.count
def Sem.wait (s : Sem) : Sem := if 0 < s.count then { s with count := s.count - 1, waits := s.waits + 1 } else s

inductive SemOp where
  | post
  | wait
deriving Repr, DecidableEq

/-- apply operations in order; a `wait` that is not enabled does not complete -/
def Sem.run (s : Sem) : List SemOp → Sem
  | [] => s
  | SemOp.post :: r => Sem.run s.post r
  | SemOp.wait :: r => Sem.run s.wait r

/-- waiter: `lock; while (!pred) wait(); unlock` — signaler: `lock; pred = true; signal(); unlock`
    (`signal` is a broadcast; `wait` releases the mutex and sleeps atomically, re-acquires on wake-up) -/
inductive WPc where
  | start | locked | sleeping | woken | relocked | done
deriving Repr, DecidableEq

inductive SPc where
  | start | locked | predSet | signalled | done
deriving Repr, DecidableEq

structure Cond where
  mutex : Option Bool     -- none = free, some true = waiter holds it, some false = signaler holds it
  pred : Bool
  w : WPc
  s : SPc
deriving Repr, DecidableEq

def Cond.init : Cond := ⟨none, false, WPc.start, SPc.start⟩

/-- `true` = waiter moves, `false` = signaler moves -/
def Cond.enabled (c : Cond) : Bool → Bool
  | true => match c.w with
    | WPc.start => c.mutex.isNone
    | WPc.locked => true
    | WPc.sleeping => false              -- only a signal wakes it
    | WPc.woken => c.mutex.isNone        -- must re-acquire the mutex
    | WPc.relocked => true
    | WPc.done => false
  | false => match c.s with
    | SPc.start => c.mutex.isNone
    | SPc.locked => true
    | SPc.predSet => true
    | SPc.signalled => true
    | SPc.done => false

def Cond.step (c : Cond) : Bool → Cond
  | true => match c.w with
    | WPc.start => if c.mutex.isNone then { c with mutex := some true, w := WPc.locked } else c
    | WPc.locked =>      -- the `while (!pred)` test, under the mutex
      if c.pred then { c with mutex := none, w := WPc.done }
      else { c with mutex := none, w := WPc.sleeping }     -- wait(): unlock + sleep, atomically
    | WPc.sleeping => c
    | WPc.woken => if c.mutex.isNone then { c with mutex := some true, w := WPc.locked } else c
    | WPc.relocked => c
    | WPc.done => c
  | false => match c.s with
    | SPc.start => if c.mutex.isNone then { c with mutex := some false, s := SPc.locked } else c
    | SPc.locked => { c with pred := true, s := SPc.predSet }
    | SPc.predSet =>     -- broadcast: a sleeping waiter becomes runnable
      { c with s := SPc.signalled, w := if c.w = WPc.sleeping then WPc.woken else c.w }
    | SPc.signalled => { c with mutex := none, s := SPc.done }
    | SPc.done => c

def Cond.run (c : Cond) : List Bool → Cond
  | [] => c
  | a :: r => Cond.run (if c.enabled a then c.step a else c) r

end Sync

end AslModel.Thread

/-! ## condition variable with any number of waiters (`signal()` is a broadcast) -/
namespace AslModel.Thread.SyncN
open AslModel.Thread.Sync

inductive Holder where
  | free
  | signaler
  | waiter (i : Nat)
deriving Repr, DecidableEq

structure CondN where
  n : Nat
  mutex : Holder
  pred : Bool
  w : Nat → WPc
  s : SPc

def upd {α} (f : Nat → α) (k : Nat) (v : α) : Nat → α := fun j => if j = k then v else f j

def init (n : Nat) : CondN := ⟨n, Holder.free, false, fun _ => WPc.start, SPc.start⟩

/-- actors: `some i` = waiter `i`, `none` = the signaler -/
def enabled (c : CondN) : Option Nat → Bool
  | some i => i < c.n && (match c.w i with
    | WPc.start => c.mutex == Holder.free
    | WPc.locked => true
    | WPc.woken => c.mutex == Holder.free
    | _ => false)
  | none => match c.s with
    | SPc.start => c.mutex == Holder.free
    | SPc.locked => true
    | SPc.predSet => true
    | SPc.signalled => true
    | SPc.done => false

def step (c : CondN) : Option Nat → CondN
  | some i => match c.w i with
    | WPc.start => { c with mutex := Holder.waiter i, w := upd c.w i WPc.locked }
    | WPc.locked =>
      if c.pred then { c with mutex := Holder.free, w := upd c.w i WPc.done }
      else { c with mutex := Holder.free, w := upd c.w i WPc.sleeping }
    | WPc.woken => { c with mutex := Holder.waiter i, w := upd c.w i WPc.locked }
    | _ => c
  | none => match c.s with
    | SPc.start => { c with mutex := Holder.signaler, s := SPc.locked }
    | SPc.locked => { c with pred := true, s := SPc.predSet }
    | SPc.predSet => { c with s := SPc.signalled, w := fun j => if c.w j = WPc.sleeping then WPc.woken else c.w j }
    | SPc.signalled => { c with mutex := Holder.free, s := SPc.done }
    | SPc.done => c

def run (c : CondN) : List (Option Nat) → CondN
  | [] => c
  | a :: r => run (if enabled c a then step c a else c) r

end AslModel.Thread.SyncN

/-! ## counting semaphore shared by any number of waiting and posting threads -/
namespace AslModel.Thread.SemN

structure Cfg where
  nW : Nat
  nP : Nat
  count : Nat
  wantW : Nat → Nat      -- `wait()` calls waiter i still has to complete
  wantP : Nat → Nat      -- `post()` calls poster j still has to make
  doneW : Nat
  doneP : Nat

inductive Act where
  | wait (i : Nat)
  | post (j : Nat)
deriving Repr, DecidableEq

def upd (f : Nat → Nat) (k v : Nat) : Nat → Nat := fun j => if j = k then v else f j

/-- `wait()` completes only when the count is positive; `post()` never blocks -/
def enabled (c : Cfg) : Act → Bool
  | Act.wait i => decide (i < c.nW) && decide (0 < c.wantW i) && decide (0 < c.count)
  | Act.post j => decide (j < c.nP) && decide (0 < c.wantP j)

def step (c : Cfg) : Act → Cfg
  | Act.wait i => { c with count := c.count - 1, wantW := upd c.wantW i (c.wantW i - 1), doneW := c.doneW + 1 }
  | Act.post j => { c with count := c.count + 1, wantP := upd c.wantP j (c.wantP j - 1), doneP := c.doneP + 1 }

def run (c : Cfg) : List Act → Cfg
  | [] => c
  | a :: r => run (if enabled c a then step c a else c) r

def init (nW nP count : Nat) (wantW wantP : Nat → Nat) : Cfg :=
  { nW := nW, nP := nP, count := count, wantW := wantW, wantP := wantP, doneW := 0, doneP := 0 }

def total (n : Nat) (f : Nat → Nat) : Nat := ((List.range n).map f).sum

/-- nothing can happen any more -/
def quiescent (c : Cfg) : Prop := ∀ a, enabled c a = false

end AslModel.Thread.SemN
