/-!
# C13 — two small interleaving models around the start and the end of a thread (include/asl/Thread.h)

`AslModel/Thread.lean` (`Handover`) treats "copy the context" and "set `ready`" as two ordered atomic steps and
the end of a subclassed thread as one step.  Both simplifications hid a defect:

* **`Fence`** — the copy of the creator's stack context is several loads, and only a barrier keeps them before the
  store `ready = true`.  `fenced = false` is the code before 12ac8c3 (only `volatile` on the flag: the compiler may
  sink loads below the store; gcc at -O2 and -O3 did).
* **`End`** — `Thread::begin` of a subclassed thread ends with two steps, the virtual call `ended()` on the object
  and the store `finished = true`, while an owner may poll `finished()` and delete the object as soon as it is
  true (and a self-owned object deletes itself in `ended()`).  `endedFirst`/`holdsState` describe the order of the
  two steps and whether the thread holds its own reference on the shared state (current code: both true; before
  8766189: both false).

Core Lean only.
-/
namespace AslModel.ThreadFence

structure Cfg where
  fenced : Bool
  loads : Nat            -- context words the worker still has to read from the creator's stack slot
  ready : Bool           -- the worker's store `ready = true` has happened
  creatorLeft : Bool     -- the creator saw `ready`, left its spin loop and reused the stack slot
  stale : Bool           -- the worker read a context word after the slot was reused
deriving Repr, DecidableEq

inductive Act where
  | load | store | leave
deriving Repr, DecidableEq

def init (words : Nat) (fenced : Bool) : Cfg := ⟨fenced, words, false, false, false⟩

def enabled (c : Cfg) : Act → Bool
  | Act.load => 0 < c.loads
  | Act.store => !c.ready && (!c.fenced || c.loads == 0)     -- the barrier: every load is complete before the store
  | Act.leave => c.ready && !c.creatorLeft

def step (c : Cfg) : Act → Cfg
  | Act.load => { c with loads := c.loads - 1, stale := c.stale || c.creatorLeft }
  | Act.store => { c with ready := true }
  | Act.leave => { c with creatorLeft := true }

def run (c : Cfg) : List Act → Cfg
  | [] => c
  | a :: r => run (if enabled c a then step c a else c) r

end AslModel.ThreadFence

namespace AslModel.ThreadEnd

structure Cfg where
  endedFirst : Bool      -- `t->ended()` comes before `finished = true` in `Thread::begin`
  holdsState : Bool      -- `begin` holds its own reference on the shared `State_` (and writes the flag through it)
  selfOwned : Bool       -- `ended()` deletes the object (SocketServer's connection threads); nobody else owns it
  wpc : Nat              -- 0 `run()` has not returned · 1 returned · 2 first tail step done · 3 both done, the thread's own
                         --   reference not yet released · 4 thread function over
  objAlive : Bool
  stateRefs : Nat        -- references on the shared `State_`
  finished : Bool
  owner : Nat            -- 0 polling `finished()` · 1 saw it true · 2 has deleted the object
  bad : Bool             -- the deleted object or the released state was used
deriving Repr, DecidableEq

inductive Act where
  | worker | poll | delete
deriving Repr, DecidableEq

def init (endedFirst holdsState selfOwned : Bool) : Cfg :=
  { endedFirst, holdsState, selfOwned, wpc := 0, objAlive := true, stateRefs := if holdsState then 2 else 1,
    finished := false, owner := 0, bad := false }

/-! Scope of `End`: it starts when the worker already holds its reference (`begin` takes it as its first step, before
`run()`), and the owner acts only on what `finished()` tells it.  An owner that deletes or reassigns the thread object
BEFORE the worker has taken that reference (`t.start(); t = Thread();`) is outside the model — and outside the library's
contract: `run()` itself uses the object. -/

/-- the virtual call `t->ended()` -/
def callEnded (c : Cfg) : Cfg :=
  if !c.objAlive then { c with bad := true }
  else if c.selfOwned then { c with objAlive := false, stateRefs := c.stateRefs - 1 }   -- `delete this`
  else c

/-- `finished = true`, through the thread's own reference or through the object -/
def setFlag (c : Cfg) : Cfg :=
  if c.holdsState then (if c.stateRefs = 0 then { c with bad := true } else { c with finished := true })
  else if !c.objAlive then { c with bad := true }
  else { c with finished := true }

def enabled (c : Cfg) : Act → Bool
  | Act.worker => c.wpc < 4 && !c.bad
  | Act.poll => c.owner == 0 && !c.selfOwned && !c.bad
  | Act.delete => c.owner == 1 && !c.bad

def step (c : Cfg) : Act → Cfg
  | Act.worker =>
    if c.wpc = 0 then (if c.objAlive then { c with wpc := 1 } else { c with bad := true })   -- `t->run()` uses the object
    else if c.wpc = 1 then { (if c.endedFirst then callEnded c else setFlag c) with wpc := 2 }
    else if c.wpc = 2 then { (if c.endedFirst then setFlag c else callEnded c) with wpc := 3 }
    else
      -- `releaseState(st)`: a separate step — the owner's poll and delete can fall between the flag store and this release
      { c with wpc := 4, stateRefs := if c.holdsState then
                 (if c.stateRefs = 0 then 0 else c.stateRefs - 1) else c.stateRefs,
               bad := c.bad || (c.holdsState && c.stateRefs == 0) }
  | Act.poll => if c.finished then { c with owner := 1 } else c
  | Act.delete => { c with objAlive := false, stateRefs := c.stateRefs - 1, owner := 2 }     -- `delete w`

def run (c : Cfg) : List Act → Cfg
  | [] => c
  | a :: r => run (if enabled c a then step c a else c) r

end AslModel.ThreadEnd

/-! ## `Copies` — Thread objects sharing one reference-counted `State_` (9bb3303, 7f3debf)

Copying or assigning a started `Thread` shares its `State_` (the finished flag and a count); the running function thread
holds one more reference until it is over.  Any number of copies; objects are dropped in any order, before or after the
thread ends. -/
namespace AslModel.ThreadCopies

structure Cfg where
  objs : Nat            -- live Thread objects sharing the state
  worker : Nat          -- 0 running · 1 has set `finished` · 2 has released its reference (thread over)
  refs : Nat            -- `State_::rc`
  stateAlive : Bool
  finished : Bool       -- the flag inside the state
  frees : Nat           -- how often the state was released
  bad : Bool            -- the released state was used, or released twice
deriving Repr, DecidableEq

inductive Act where
  | copy                -- `Thread b(a)` / `b = a` / `array << a` through a live object
  | drop                -- a Thread object sharing the state is destroyed (or assigned another thread)
  | finish              -- the worker stores `finished = true` through its own reference
  | release             -- the worker releases its reference
deriving Repr, DecidableEq

/-- one object (the one the thread was started through) and the worker's own reference -/
def init : Cfg := { objs := 1, worker := 0, refs := 2, stateAlive := true, finished := false, frees := 0, bad := false }

def enabled (c : Cfg) : Act → Bool
  | Act.copy => 0 < c.objs && !c.bad
  | Act.drop => 0 < c.objs && !c.bad
  | Act.finish => c.worker == 0 && !c.bad
  | Act.release => c.worker == 1 && !c.bad

def unref (c : Cfg) : Cfg :=
  if !c.stateAlive || c.refs == 0 then { c with bad := true }
  else if c.refs == 1 then { c with refs := 0, stateAlive := false, frees := c.frees + 1 }
  else { c with refs := c.refs - 1 }

def step (c : Cfg) : Act → Cfg
  | Act.copy => if c.stateAlive then { c with objs := c.objs + 1, refs := c.refs + 1 } else { c with bad := true }
  | Act.drop => unref { c with objs := c.objs - 1 }
  | Act.finish => if c.stateAlive then { c with worker := 1, finished := true } else { c with bad := true }
  | Act.release => unref { c with worker := 2 }

def run (c : Cfg) : List Act → Cfg
  | [] => c
  | a :: r => run (if enabled c a then step c a else c) r

/-- `finished()` through a live object: reads the shared state -/
def readFinished (c : Cfg) : Option Bool := if 0 < c.objs && c.stateAlive then some c.finished else none

end AslModel.ThreadCopies
