/-
  C13 — the same threads started and joined again and again (`ThreadGroup::start(); join();` in a loop, or a
  `Thread` object that is re-started after `join()`).

  `Thread::finished()` is sticky: the flag a worker sets at its end stays true when the object is started again
  (include/asl/Thread.h: `start()` does not reset it).  `Thread::join()` waits on the thread handle
  (`pthread_join`), never on that flag.  The model keeps both, so that the difference is visible:
  `joinUsesFlag = true` is a `join()` that returns at once when `finished()` is already true.

    creator : for each round: start thread 0 … n-1, then join thread 0 … n-1
    worker i: runs its body once per start, then sets its flag and ends
-/
namespace AslModel.Thread.Rounds

inductive WPh where
  | idle        -- never started, or joined
  | running     -- started, body not yet completed
  | ended       -- body completed, flag set, not yet joined
deriving Repr, DecidableEq

inductive CPc where
  | starting (j : Nat)    -- about to start thread j
  | joining (j : Nat)     -- about to join thread j
deriving Repr, DecidableEq

structure Cfg where
  n : Nat
  joinUsesFlag : Bool
  rounds : Nat               -- completed start/join rounds
  cpc : CPc
  ph : Nat → WPh
  runs : Nat → Nat           -- completed executions of the body
  flag : Nat → Bool          -- `finished()`
  early : Bool               -- some join returned while the thread it joins was still running

def upd {α} (f : Nat → α) (k : Nat) (v : α) : Nat → α := fun j => if j = k then v else f j

def init (n : Nat) (joinUsesFlag : Bool) : Cfg :=
  { n := n, joinUsesFlag := joinUsesFlag, rounds := 0, cpc := CPc.starting 0, ph := fun _ => WPh.idle,
    runs := fun _ => 0, flag := fun _ => false, early := false }

inductive Act where
  | creator
  | worker (i : Nat)
deriving Repr, DecidableEq

def enabled (c : Cfg) : Act → Bool
  | Act.creator => (match c.cpc with
    | CPc.starting _ => true
    | CPc.joining j => if j < c.n then (c.ph j == WPh.ended || (c.joinUsesFlag && c.flag j)) else true)
  | Act.worker i => decide (i < c.n) && (c.ph i == WPh.running)

def step (c : Cfg) : Act → Cfg
  | Act.creator => (match c.cpc with
    | CPc.starting j =>
      if j < c.n then { c with ph := upd c.ph j WPh.running, cpc := CPc.starting (j + 1) }
      else { c with cpc := CPc.joining 0 }
    | CPc.joining j =>
      if j < c.n then
        if c.ph j == WPh.ended then { c with ph := upd c.ph j WPh.idle, cpc := CPc.joining (j + 1) }
        else { c with early := true, cpc := CPc.joining (j + 1) }       -- returned on the stale flag
      else { c with rounds := c.rounds + 1, cpc := CPc.starting 0 })
  | Act.worker i => { c with ph := upd c.ph i WPh.ended, runs := upd c.runs i (c.runs i + 1), flag := upd c.flag i true }

def run (c : Cfg) : List Act → Cfg
  | [] => c
  | a :: r => run (if enabled c a then step c a else c) r

/-- the canonical schedule of `k` rounds: start all, let every worker run, join all (driver) -/
def roundSched (n : Nat) : List Act :=
  List.replicate (n + 1) Act.creator ++ (List.range n).map Act.worker ++ List.replicate (n + 1) Act.creator

def sched (n k : Nat) : List Act := (List.replicate k (roundSched n)).flatten

end AslModel.Thread.Rounds
