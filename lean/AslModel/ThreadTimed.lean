/-
  C13 — the documented condition-variable protocol with *timed* waits and *spurious* wake-ups.

  `Condition::wait()` is `pthread_cond_wait`, `Condition::wait(timeout)` is `pthread_cond_timedwait` and returns
  `true` exactly on ETIMEDOUT (include/asl/Mutex.h).  POSIX allows either call to return without a signal
  (spurious wake-up), and the timed one to return on time-out; in both cases the mutex is re-acquired first.
  `AslModel/Thread.lean` (`SyncN`) has neither; this model adds both as moves of the environment:

    waiter i   : lock; while (!pred) { if (wait[(timeout)]) and the waiter gives up on time-out: break; } unlock
    signaler   : lock; pred = true; signal() (broadcast); unlock
    environment: `wake i false` = spurious wake-up of a sleeping waiter,
                 `wake i true`  = time-out of a sleeping *timed* waiter; it is also allowed for a timed waiter the
                                  signal has already made runnable but that has not yet re-acquired the mutex
                                  (POSIX: when time-out and signal race, either may be reported)

  `loops = false` is the faulty caller that writes `if (!pred) wait();` — kept to show what the loop is for.
-/
namespace AslModel.Thread.SyncT

inductive Holder where
  | free
  | signaler
  | waiter (i : Nat)
deriving Repr, DecidableEq

/-- waiter program counter; `woken tmo`: runnable again, mutex not yet re-acquired (`tmo`: by time-out) -/
inductive TPc where
  | start | locked | sleeping | woken (tmo : Bool) | leaving | done
deriving Repr, DecidableEq

inductive SPc where
  | start | locked | predSet | signalled | done
deriving Repr, DecidableEq

structure CondT where
  n : Nat
  loops : Bool              -- `while (!pred)` (true) or the faulty `if (!pred)` (false)
  timed : Nat → Bool        -- waiter i uses wait(timeout)
  giveUp : Nat → Bool       -- waiter i leaves the loop when wait(timeout) reports a time-out
  mutex : Holder
  pred : Bool
  w : Nat → TPc
  s : SPc
  sawPred : Nat → Bool      -- waiter i left because it found pred = true under the mutex
  timedOut : Nat → Bool     -- waiter i left because its wait timed out
  wakeups : Nat             -- environment wake-ups so far (reported only)

def upd {α} (f : Nat → α) (k : Nat) (v : α) : Nat → α := fun j => if j = k then v else f j

def init (n : Nat) (loops : Bool) (timed giveUp : Nat → Bool) : CondT :=
  { n := n, loops := loops, timed := timed, giveUp := giveUp, mutex := Holder.free, pred := false,
    w := fun _ => TPc.start, s := SPc.start, sawPred := fun _ => false, timedOut := fun _ => false, wakeups := 0 }

inductive Act where
  | waiter (i : Nat)
  | signaler
  | wake (i : Nat) (tmo : Bool)
deriving Repr, DecidableEq

def enabled (c : CondT) : Act → Bool
  | Act.waiter i => decide (i < c.n) && (match c.w i with
    | TPc.start => c.mutex == Holder.free
    | TPc.locked => true
    | TPc.woken _ => c.mutex == Holder.free
    | TPc.leaving => true
    | _ => false)
  | Act.signaler => (match c.s with
    | SPc.start => c.mutex == Holder.free
    | SPc.locked => true
    | SPc.predSet => true
    | SPc.signalled => true
    | SPc.done => false)
  | Act.wake i tmo => decide (i < c.n) && (c.w i == TPc.sleeping || (tmo && c.w i == TPc.woken false)) && (!tmo || c.timed i)

def step (c : CondT) : Act → CondT
  | Act.waiter i => (match c.w i with
    | TPc.start => { c with mutex := Holder.waiter i, w := upd c.w i TPc.locked }
    | TPc.locked =>      -- the test of the predicate, under the mutex
      if c.pred then { c with w := upd c.w i TPc.leaving, sawPred := upd c.sawPred i true }
      else { c with mutex := Holder.free, w := upd c.w i TPc.sleeping }       -- wait(): unlock + sleep, atomically
    | TPc.woken tmo =>   -- wait() returns with the mutex re-acquired
      if tmo && c.giveUp i then
        { c with mutex := Holder.waiter i, w := upd c.w i TPc.leaving, timedOut := upd c.timedOut i true }
      else if c.loops then { c with mutex := Holder.waiter i, w := upd c.w i TPc.locked }
      else { c with mutex := Holder.waiter i, w := upd c.w i TPc.leaving }
    | TPc.leaving => { c with mutex := Holder.free, w := upd c.w i TPc.done }
    | _ => c)
  | Act.signaler => (match c.s with
    | SPc.start => { c with mutex := Holder.signaler, s := SPc.locked }
    | SPc.locked => { c with pred := true, s := SPc.predSet }
    | SPc.predSet => { c with s := SPc.signalled, w := fun j => if c.w j = TPc.sleeping then TPc.woken false else c.w j }
    | SPc.signalled => { c with mutex := Holder.free, s := SPc.done }
    | SPc.done => c)
  | Act.wake i tmo => { c with w := upd c.w i (TPc.woken tmo), wakeups := c.wakeups + 1 }

def run (c : CondT) : List Act → CondT
  | [] => c
  | a :: r => run (if enabled c a then step c a else c) r

end AslModel.Thread.SyncT

/-! ## counting semaphore with `trywait()` and `wait(timeout)`: attempts that may fail without taking a unit -/
namespace AslModel.Thread.SemT

structure Sem where
  count : Nat
  posts : Nat          -- completed posts
  taken : Nat          -- waits / trywaits / timed waits that returned success
  failed : Nat         -- trywaits / timed waits that returned failure

inductive Op where
  | post
  | wait                 -- blocking: completes only when a unit is available
  | tryWait              -- sem_trywait: never blocks
  | timedWait (tmo : Bool) -- sem_timedwait: `tmo` = the environment lets the time run out first
deriving Repr, DecidableEq

def enabled (s : Sem) : Op → Bool
  | Op.wait => decide (0 < s.count)
  | Op.timedWait tmo => tmo || decide (0 < s.count)
  | _ => true

/-- result of the call as the caller sees it (`post` and `wait` return nothing: `true`) -/
def result (s : Sem) : Op → Bool
  | Op.tryWait => decide (0 < s.count)
  | Op.timedWait tmo => !tmo
  | _ => true

def step (s : Sem) : Op → Sem
  | Op.post => { s with count := s.count + 1, posts := s.posts + 1 }
  | Op.wait => { s with count := s.count - 1, taken := s.taken + 1 }
  | Op.tryWait => if 0 < s.count then { s with count := s.count - 1, taken := s.taken + 1 } else { s with failed := s.failed + 1 }
  | Op.timedWait tmo => if tmo then { s with failed := s.failed + 1 } else { s with count := s.count - 1, taken := s.taken + 1 }

def run (s : Sem) : List Op → Sem
  | [] => s
  | a :: r => run (if enabled s a then step s a else s) r

def init (k : Nat) : Sem := ⟨k, 0, 0, 0⟩

end AslModel.Thread.SemT
