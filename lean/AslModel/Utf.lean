import Gen.UnicodeGen
/-!
# C08 — models of the UTF-8/16/32 converters, the code-point enumerator, `count()`,
`chars()/fromCodes()/fromCode()`, `toUpperCase/toLowerCase/equalsNocase` and the wide-string
scratch conversion of `src/String.cpp`.

Conventions (what the transcription keeps from the C++):

* A pointer into a NUL-terminated buffer is the **list of the bytes (ints, wide units) from the
  pointer to the end of the allocation**.  `*u++` on `[]` is a read outside the allocation: every
  reader returns `none` in that case (the harness sees an AddressSanitizer report there), so
  "never reads past the terminator" is "never `none` on `s ++ [0]`".
* Output written through `*p++ = x` is the returned list, in order, so the number of elements written
  before the final terminator is its length (the converters then store one terminator more).
* The bit operations of the code (`&`, `|`, `<<`, `>>`) are kept; a value stored into a `char` keeps its
  low 8 bits (`UInt8.ofNat`).  `int`/`wchar_t` inputs are 32-bit signed values (`Int`), `char` masks
  are the same on the sign-extended value and on the unsigned byte.
* `n` is the unit budget (`if (--n == 0) break;`): an `Int`, so a budget `≤ 0` never stops the loop,
  as in the code.
* The case tables and the three cut-over constants are *regenerated* from `src/unicodedata.cpp` and
  `src/String.cpp` (`Gen/UnicodeGen.lean`).  Core Lean only.
-/
namespace AslModel.Utf
open Gen.Unicode

/-- what a store into a `char` keeps -/
def lo8 (n : Nat) : UInt8 := UInt8.ofNat n

/-- `c & 0xff` of a (possibly negative) 32-bit int -/
def lowByte (c : Int) : UInt8 := UInt8.ofNat (c % 256).toNat

/-! ## UTF-32 → UTF-8 (`utf32toUtf8`, src/String.cpp:85) -/

def enc2 (c : Nat) : List UInt8 := [lo8 (c >>> 6 ||| 0xc0), lo8 ((c &&& 0x3f) ||| 0x80)]
def enc3 (c : Nat) : List UInt8 :=
  [lo8 (c >>> 12 ||| 0xe0), lo8 ((c >>> 6 &&& 0x3f) ||| 0x80), lo8 ((c &&& 0x3f) ||| 0x80)]
def enc4 (c : Nat) : List UInt8 :=
  [lo8 (c >>> 18 ||| 0xf0), lo8 ((c >>> 12 &&& 0x3f) ||| 0x80), lo8 ((c >>> 6 &&& 0x3f) ||| 0x80),
   lo8 ((c &&& 0x3f) ||| 0x80)]

/-- the loop body for one non-zero `int c` -/
def enc32 (c : Int) : List UInt8 :=
  if c < 0x80 then [lowByte c]
  else if c < 0x800 then enc2 c.toNat
  else if c < 0x10000 then enc3 c.toNat
  else enc4 c.toNat

/-- `if (--n == 0) break;` followed by the rest of the loop -/
def contB (out : List UInt8) (n : Int) (rest : Option (List UInt8)) : Option (List UInt8) :=
  if n - 1 = 0 then some out else rest.map (out ++ ·)

def utf32toUtf8 : List Int → Int → Option (List UInt8)
  | [], _ => none
  | c :: p, n =>
    if c = 0 then some []
    else contB (enc32 c) n (utf32toUtf8 p (n - 1))

/-! ## UTF-8 → UTF-32 (`utf8toUtf32`, :114) -/

def is1 (c : Nat) : Bool := c &&& 0x80 == 0
def is2 (c : Nat) : Bool := c &&& 0xe0 == 0xc0
def is3 (c : Nat) : Bool := c &&& 0xf0 == 0xe0
def is4 (c : Nat) : Bool := c &&& 0xf8 == 0xf0

def code2 (c c2 : Nat) : Nat := ((c &&& 0x1f) <<< 6) ||| (c2 &&& 0x3f)
def code3 (c c2 c3 : Nat) : Nat := ((c &&& 0x0f) <<< 12) ||| ((c2 &&& 0x3f) <<< 6) ||| (c3 &&& 0x3f)
def code4 (c c2 c3 c4 : Nat) : Nat :=
  ((c &&& 0x07) <<< 18) ||| ((c2 &&& 0x3f) <<< 12) ||| ((c3 &&& 0x3f) <<< 6) ||| (c4 &&& 0x3f)

def contN (out : List Nat) (n : Int) (rest : Option (List Nat)) : Option (List Nat) :=
  if n - 1 = 0 then some out else rest.map (out ++ ·)

def utf8toUtf32 : List UInt8 → Int → Option (List Nat)
  | [], _ => none
  | b :: u, n =>
    if b = 0 then some []
    else if is1 b.toNat then contN [b.toNat &&& 0xff] n (utf8toUtf32 u (n - 1))
    else if is2 b.toNat then
      match u with
      | [] => none
      | b2 :: u2 =>
        if b2 = 0 then some []
        else contN [code2 b.toNat b2.toNat] n (utf8toUtf32 u2 (n - 1))
    else if is3 b.toNat then
      match u with
      | [] => none
      | b2 :: u2 =>
        if b2 = 0 then some [] else
        match u2 with
        | [] => none
        | b3 :: u3 =>
          if b3 = 0 then some []
          else contN [code3 b.toNat b2.toNat b3.toNat] n (utf8toUtf32 u3 (n - 1))
    else if is4 b.toNat then
      match u with
      | [] => none
      | b2 :: u2 =>
        if b2 = 0 then some [] else
        match u2 with
        | [] => none
        | b3 :: u3 =>
          if b3 = 0 then some [] else
          match u3 with
          | [] => none
          | b4 :: u4 =>
            if b4 = 0 then some []
            else contN [code4 b.toNat b2.toNat b3.toNat b4.toNat] n (utf8toUtf32 u4 (n - 1))
    else contN [] n (utf8toUtf32 u (n - 1))

/-! ## UTF-16 → UTF-8 (`utf16toUtf8`, :150; `wchar_t` is a signed 32-bit int on this platform) -/

/-- `((((unsigned)c - 0xd800) << 10) | (c2 - 0xdc00)) + 0x10000` for `c ∈ [d800,dbff]`, `c2 ∈ [dc00,dfff]` -/
def pairCode (c c2 : Nat) : Nat := (((c - 0xd800) <<< 10) ||| (c2 - 0xdc00)) + 0x10000

def utf16toUtf8 : List Int → Int → Option (List UInt8)
  | [], _ => none
  | c :: p, n =>
    if c = 0 then some []
    else if c < 0x80 then contB [lowByte c] n (utf16toUtf8 p (n - 1))
    else if c < 0x800 then contB (enc2 c.toNat) n (utf16toUtf8 p (n - 1))
    else if c < 0xd800 ∨ c > 0xdfff then contB (enc3 c.toNat) n (utf16toUtf8 p (n - 1))
    else if c < 0xdc00 then
      match p with
      | [] => none
      | c2 :: p2 =>
        if c2 < 0xdc00 ∨ c2 > 0xdfff then some []
        else contB (enc4 (pairCode c.toNat c2.toNat)) n (utf16toUtf8 p2 (n - 1))
    else some []

/-! ## UTF-8 → UTF-16 (`utf8toUtf16`, :185) -/

/-- `unsigned int d = code - 0x10000` (wraps), then `(d >> 10) + 0xd800`, `(d & 0x3ff) + 0xdc00` -/
def surrogates (code : Nat) : List Nat :=
  let d := (code + 4294967296 - 0x10000) % 4294967296
  [(d >>> 10) + 0xd800, (d &&& 0x3ff) + 0xdc00]

def utf8toUtf16 : List UInt8 → Int → Option (List Nat)
  | [], _ => none
  | b :: u, n =>
    if b = 0 then some []
    else if is1 b.toNat then contN [b.toNat] n (utf8toUtf16 u (n - 1))
    else if is2 b.toNat then
      match u with
      | [] => none
      | b2 :: u2 =>
        if b2 = 0 then some []
        else contN [code2 b.toNat b2.toNat] n (utf8toUtf16 u2 (n - 1))
    else if is3 b.toNat then
      match u with
      | [] => none
      | b2 :: u2 =>
        if b2 = 0 then some [] else
        match u2 with
        | [] => none
        | b3 :: u3 =>
          if b3 = 0 then some []
          else contN [code3 b.toNat b2.toNat b3.toNat] n (utf8toUtf16 u3 (n - 1))
    else if is4 b.toNat then
      match u with
      | [] => none
      | b2 :: u2 =>
        if b2 = 0 then some [] else
        match u2 with
        | [] => none
        | b3 :: u3 =>
          if b3 = 0 then some [] else
          match u3 with
          | [] => none
          | b4 :: u4 =>
            if b4 = 0 then some []
            else contN (surrogates (code4 b.toNat b2.toNat b3.toNat b4.toNat)) n (utf8toUtf16 u4 (n - 1))
    else some []

/-! ## the code-point enumerator (`String::Enumerator`, :243 and String.h:667)

`for (Enumerator e = all(); e; ++e) { int code = *e; … }` — `operator bool` reads `*u`,
`operator*` reads up to three more bytes (stopping at a NUL) and sets the advance `n`,
`operator++` does `u += n`.  Returned: the list of `(code, n)`.
When `operator*` stopped at a NUL (`n` = number of non-NUL bytes seen, code 0) the advance lands on
that NUL and `operator bool` ends the loop: those branches return the last element directly. -/

def enumAll : List UInt8 → Option (List (Nat × Nat))
  | [] => none
  | b :: u =>
    if b = 0 then some []
    else if is1 b.toNat then (enumAll u).map ((b.toNat, 1) :: ·)
    else if is2 b.toNat then
      match u with
      | [] => none
      | b2 :: u2 =>
        if b2 = 0 then some [(0, 1)]
        else (enumAll u2).map ((code2 b.toNat b2.toNat, 2) :: ·)
    else if is3 b.toNat then
      match u with
      | [] => none
      | b2 :: u2 =>
        if b2 = 0 then some [(0, 1)] else
        match u2 with
        | [] => none
        | b3 :: u3 =>
          if b3 = 0 then some [(0, 2)]
          else (enumAll u3).map ((code3 b.toNat b2.toNat b3.toNat, 3) :: ·)
    else
      match u with
      | [] => none
      | b2 :: u2 =>
        if b2 = 0 then some [(0, 1)] else
        match u2 with
        | [] => none
        | b3 :: u3 =>
          if b3 = 0 then some [(0, 2)] else
          match u3 with
          | [] => none
          | b4 :: u4 =>
            if b4 = 0 then some [(0, 3)]
            else (enumAll u4).map ((code4 b.toNat b2.toNat b3.toNat b4.toNat, 4) :: ·)

/-- the same enumeration, keeping for every step the `n` bytes `e.u[0..n)` the enumerator stands on
    (what the case functions copy through and `equalsNocase` compares when the code is 0) -/
def enumRaw : List UInt8 → Option (List (Nat × List UInt8))
  | [] => none
  | b :: u =>
    if b = 0 then some []
    else if is1 b.toNat then (enumRaw u).map ((b.toNat, [b]) :: ·)
    else if is2 b.toNat then
      match u with
      | [] => none
      | b2 :: u2 =>
        if b2 = 0 then some [(0, [b])]
        else (enumRaw u2).map ((code2 b.toNat b2.toNat, [b, b2]) :: ·)
    else if is3 b.toNat then
      match u with
      | [] => none
      | b2 :: u2 =>
        if b2 = 0 then some [(0, [b])] else
        match u2 with
        | [] => none
        | b3 :: u3 =>
          if b3 = 0 then some [(0, [b, b2])]
          else (enumRaw u3).map ((code3 b.toNat b2.toNat b3.toNat, [b, b2, b3]) :: ·)
    else
      match u with
      | [] => none
      | b2 :: u2 =>
        if b2 = 0 then some [(0, [b])] else
        match u2 with
        | [] => none
        | b3 :: u3 =>
          if b3 = 0 then some [(0, [b, b2])] else
          match u3 with
          | [] => none
          | b4 :: u4 =>
            if b4 = 0 then some [(0, [b, b2, b3])]
            else (enumRaw u4).map ((code4 b.toNat b2.toNat b3.toNat b4.toNat, [b, b2, b3, b4]) :: ·)

/-! ## `String::count()` (:577) -/

def countFrom : List UInt8 → Option Nat
  | [] => none
  | b :: u =>
    if b = 0 then some 0
    else if is1 b.toNat then (countFrom u).map (· + 1)
    else if is2 b.toNat then
      -- `++count_; char c2 = *u++; if (c2 == 0) break;`   (repaired code: the byte after a 2-byte
      -- lead is read and tested like the ones of the 3- and 4-byte cases)
      match u with
      | [] => none
      | b2 :: u2 => if b2 = 0 then some 1 else (countFrom u2).map (· + 1)
    else if is3 b.toNat then
      match u with
      | [] => none
      | b2 :: u2 =>
        if b2 = 0 then some 1 else
        match u2 with
        | [] => none
        | b3 :: u3 => if b3 = 0 then some 1 else (countFrom u3).map (· + 1)
    else if is4 b.toNat then
      match u with
      | [] => none
      | b2 :: u2 =>
        if b2 = 0 then some 1 else
        match u2 with
        | [] => none
        | b3 :: u3 =>
          if b3 = 0 then some 1 else
          match u3 with
          | [] => none
          | b4 :: u4 => if b4 = 0 then some 1 else (countFrom u4).map (· + 1)
    else countFrom u

/-- the code before the repair (`++u; ++count_;` — the byte after a 2-byte lead is skipped unread):
    kept as the witness of the defect, not run by the driver's `count` -/
def countFromOld : List UInt8 → Option Nat
  | [] => none
  | b :: u =>
    if b = 0 then some 0
    else if is1 b.toNat then (countFromOld u).map (· + 1)
    else if is2 b.toNat then
      match u with
      | [] => none          -- the next `*u++` is outside the allocation
      | _ :: u2 => (countFromOld u2).map (· + 1)
    else if is3 b.toNat then
      match u with
      | [] => none
      | b2 :: u2 =>
        if b2 = 0 then some 1 else
        match u2 with
        | [] => none
        | b3 :: u3 => if b3 = 0 then some 1 else (countFromOld u3).map (· + 1)
    else if is4 b.toNat then
      match u with
      | [] => none
      | b2 :: u2 =>
        if b2 = 0 then some 1 else
        match u2 with
        | [] => none
        | b3 :: u3 =>
          if b3 = 0 then some 1 else
          match u3 with
          | [] => none
          | b4 :: u4 => if b4 = 0 then some 1 else (countFromOld u4).map (· + 1)
    else countFromOld u

/-! ## String-level operations.  A `String` of length `_len = s.length` owns the bytes `s ++ [0]`
(`s` may contain NULs: the C-string readers then stop at the first one). -/

def mem (s : List UInt8) : List UInt8 := s ++ [0]

/-- `count()` -/
def count (s : List UInt8) : Option Nat := countFrom (mem s)

/-- `chars()`: `Array<int> c(length()+1); n = utf8toUtf32(str(), c.data(), length()); c.resize(n)` -/
def chars (s : List UInt8) : Option (List Nat) := utf8toUtf32 (mem s) s.length

/-- range-for / `foreach` over the string: codes and advances -/
def iter (s : List UInt8) : Option (List (Nat × Nat)) := enumAll (mem s)

/-- `fromCodes(codes)`: `a = codes.clone(); a << 0; String s(codes.length()*4, 0);
    s.fix(utf32toUtf8(a.data(), s.str(), a.length()))` -/
def fromCodes (codes : List Int) : Option (List UInt8) := utf32toUtf8 (codes ++ [0]) (codes.length + 1)

/-- `fromCode(code)`: `codes[] = {code, 0}; String s(4, 0); s.fix(utf32toUtf8(codes, s.str(), 1))` -/
def fromCode (code : Int) : Option (List UInt8) := utf32toUtf8 [code, 0] 1

/-! ### case mapping (:659–761) -/

/-- the two table bytes of a code point: `c1` always stored, `c2` only if non-zero -/
def tableBytes (tbl : Array UInt8) (code : Nat) : List UInt8 :=
  let c1 := tbl.getD (code * 2) 0
  let c2 := tbl.getD (code * 2 + 1) 0
  if c2 != 0 then [c1, c2] else [c1]

/-- `u[0] = code; p += utf32toUtf8(u, p, 1);` with `u[1] == 0` -/
def reencode (code : Nat) : List UInt8 :=
  match utf32toUtf8 [(code : Int), 0] 1 with
  | some b => b
  | none => []

def mapCode (tbl : Array UInt8) (cut : Nat) (code : Nat) : List UInt8 :=
  if code < cut then tableBytes tbl code else reencode code

/-- one step of the mapping loops: `if (code == 0)` the `e.n` source bytes are copied through
    (an undecodable sequence: truncated by the terminator, or an encoding of NUL), otherwise table / re-encoding -/
def mapGroup (tbl : Array UInt8) (cut : Nat) (g : Nat × List UInt8) : List UInt8 :=
  if g.1 = 0 then g.2 else mapCode tbl cut g.1

def caseMap (tbl : Array UInt8) (cut : Nat) (s : List UInt8) : Option (List UInt8) :=
  (enumRaw (mem s)).map fun gs => gs.flatMap (mapGroup tbl cut)

def toUpperCase (s : List UInt8) : Option (List UInt8) := caseMap toUppercaseU8 upperCut s
def toLowerCase (s : List UInt8) : Option (List UInt8) := caseMap toLowercaseU8 lowerCut s

/-- the table / code comparison of `equalsNocase` for two decodable code points -/
def nocaseStep (code1 code2 : Nat) : Bool :=
  if code1 > nocaseCut1 ∨ code2 > nocaseCut2 then code1 == code2
  else toLowercaseU8.getD (code1 * 2) 0 == toLowercaseU8.getD (code2 * 2) 0
    && toLowercaseU8.getD (code1 * 2 + 1) 0 == toLowercaseU8.getD (code2 * 2 + 1) 0

/-- one step of the comparison loop: `if (code1 == 0 || code2 == 0)` the bytes are compared as they are
    (`code1 != code2 || e1.n != e2.n || memcmp(e1.u, e2.u, e1.n)` ⇒ false) -/
def nocaseStepG (g1 g2 : Nat × List UInt8) : Bool :=
  if g1.1 = 0 ∨ g2.1 = 0 then g1.1 == g2.1 && g1.2 == g2.2
  else nocaseStep g1.1 g2.1

/-- lock-step walk; afterwards `(e1 && !e2) || (!e1 && e2)` ⇒ false -/
def nocaseLoop : List (Nat × List UInt8) → List (Nat × List UInt8) → Bool
  | a :: as, b :: bs => if nocaseStepG a b then nocaseLoop as bs else false
  | [], [] => true
  | _, _ => false

def equalsNocase (s t : List UInt8) : Option Bool :=
  match enumRaw (mem s), enumRaw (mem t) with
  | some a, some b => some (nocaseLoop a b)
  | _, _ => none

/-! ### wide strings (:282–303) -/

/-- `dataw()`: byte offset of the wide scratch area and the number of `wchar_t` that fit the resized buffer
    (`resize(_len + 1 + (_len + 2) * 4)` allocates that many bytes plus one) -/
def wideOffset (len : Nat) : Nat := (len + 1) + ((4 - ((len + 1) &&& 0x03)) &&& 0x03)
def wideRoom (len : Nat) : Nat := (len + 1 + (len + 2) * 4 + 1 - wideOffset len) / 4

/-- `from8bit(str(), wstr, _len)` -/
def dataw (s : List UInt8) : Option (List Nat) := utf8toUtf16 (mem s) s.length

/-- what a C caller sees through the returned pointer (`wcslen`, `wlength()`) -/
def wcs (units : List Nat) : List Nat := units.takeWhile (· != 0)

/-- `String::wlength()`: `wcslen(dataw())` -/
def wlength (s : List UInt8) : Option Nat := (dataw s).map fun u => (wcs u).length

/-- `cap()` after `init(m)` -/
def capAfterInit (m : Nat) : Nat := if m < 16 then 16 else max (m + 1) 20

/-- `String(const wchar_t* s)`: `init(4*wcslen(s)); _len = to8bit(s, str(), cap())` -/
def fromWide (w : List Int) : Option (List UInt8) :=
  let l := (w.takeWhile (· != 0)).length
  utf16toUtf8 w (capAfterInit (4 * l))

/-- `String(const Array<wchar_t>& txt)`: `init(4*txt.length()); a = txt.clone(); a << 0;
    _len = to8bit(a.data(), str(), cap())` -/
def fromWideArr (w : List Int) : Option (List UInt8) := utf16toUtf8 (w ++ [0]) (capAfterInit (4 * w.length))

/-! ### `fixW()` (:352): the wide scratch area converted back **in place**

`to8bit((wchar_t*)(str() + offset), str(), cap())` reads `wchar_t`s from byte offset `off` of the
String's own buffer (`size` bytes) and writes UTF-8 from byte 0 of the same buffer.  The model keeps both
cursors: `k` = number of units the read pointer has passed (it stands at byte `off + 4*k`), `w` = byte index
of the write pointer.  The scratch area from `off` to the end of the buffer is the list of units.
A store is a fault if it falls outside the buffer (`oobWrite`) or at/after the read cursor (`overtake`:
it would destroy a unit not yet read — the only way the in-place conversion could differ from the
out-of-place one); a read beyond the buffer is `oobRead`. -/

inductive Fault
  | oobRead | oobWrite | overtake
  deriving DecidableEq, Repr

/-- storing `cnt` bytes at `w, w+1, …` while the read cursor stands at unit `k` -/
def storeFault (off size k w cnt : Nat) : Option Fault :=
  if w + cnt > size then some .oobWrite
  else if w + cnt > off + 4 * k then some .overtake
  else none

/-- the final `*u = '\0'` -/
def finish (off size k w : Nat) : Except Fault (List UInt8) :=
  match storeFault off size k w 1 with
  | some f => .error f
  | none => .ok []

/-- stores of one loop iteration, `if (--n == 0) break;`, the rest of the loop -/
def contF (off size k w : Nat) (out : List UInt8) (n : Int) (rest : Except Fault (List UInt8)) :
    Except Fault (List UInt8) :=
  match storeFault off size k w out.length with
  | some f => .error f
  | none =>
    if n - 1 = 0 then (finish off size k (w + out.length)).map (out ++ ·)
    else rest.map (out ++ ·)

/-- `utf16toUtf8` run in place; same branches as `utf16toUtf8` above -/
def fixWLoop (off size : Nat) : List Int → Nat → Nat → Int → Except Fault (List UInt8)
  | [], _, _, _ => .error .oobRead
  | c :: p, k, w, n =>
    if c = 0 then finish off size (k + 1) w
    else if c < 0x80 then contF off size (k + 1) w [lowByte c] n (fixWLoop off size p (k + 1) (w + 1) (n - 1))
    else if c < 0x800 then contF off size (k + 1) w (enc2 c.toNat) n (fixWLoop off size p (k + 1) (w + 2) (n - 1))
    else if c < 0xd800 ∨ c > 0xdfff then
      contF off size (k + 1) w (enc3 c.toNat) n (fixWLoop off size p (k + 1) (w + 3) (n - 1))
    else if c < 0xdc00 then
      match p with
      | [] => .error .oobRead
      | c2 :: p2 =>
        if c2 < 0xdc00 ∨ c2 > 0xdfff then finish off size (k + 2) w
        else contF off size (k + 2) w (enc4 (pairCode c.toNat c2.toNat)) n (fixWLoop off size p2 (k + 2) (w + 4) (n - 1))
    else finish off size (k + 1) w

/-- `_size` after `init(n)` / `alloc(n)` (0 = the 16-byte inline buffer) -/
def sizeInit (n : Nat) : Nat := if n < 16 then 0 else max (n + 1) 20
/-- `_size` after `resize(n, …)` starting from `_size = size0` (sizes below 2^30) -/
def sizeResize (size0 n : Nat) : Nat :=
  if size0 = 0 then (if n < 16 then 0 else max (n + 1) 24)
  else if n + 1 > size0 then max (2 * size0) (n + 1) else size0
/-- `cap()` -/
def capOf (size : Nat) : Nat := if size = 0 then 16 else size
/-- the argument of the `resize` in `dataw()` -/
def datawNeed (len : Nat) : Nat := len + 1 + (len + 2) * 4

/-- the scratch area as the harness fills it: as many of the given units as fit before a terminator -/
def scratch (off cap : Nat) (units : List Int) : List Int := units.take ((cap - off) / 4 - 1) ++ [0]

/-- `s.dataw()`, the caller stores `units` into the scratch area, `s.fixW()`: the new content (`_len = strlen(str())`) -/
def fixWString (size0 len : Nat) (units : List Int) : Except Fault (List UInt8) :=
  let cap := capOf (sizeResize size0 (datawNeed len))
  let off := wideOffset len
  (fixWLoop off cap (scratch off cap units) 0 0 cap).map fun out => out.takeWhile (· != 0)

/-- `String s(bytes); s.dataw(); …; s.fixW()` -/
def fixwOp (len : Nat) (units : List Int) : Except Fault (List UInt8) := fixWString (sizeInit len) len units

/-- `String s; { SafeString ss(s, n); wchar_t* w = ss; … }` — `resize(3*n)`, `dataw()`, caller stores, `fixW()` -/
def safeOp (n : Nat) (units : List Int) : Except Fault (List UInt8) := fixWString (sizeResize 0 (3 * n)) (3 * n) units

/-- `String s(bytes); { const SafeString ss(s); const wchar_t* w = ss; … read-only use … }`:
    the const conversion is `dataw()` (repaired code; it used to return the address of the String object),
    the destructor runs `fixW()` over the scratch area `dataw()` filled and terminated.
    Returned: what the caller sees through `w`, and the content after `fixW()`. -/
def safeConstOp (s : List UInt8) : Option (List Nat × Except Fault (List UInt8)) :=
  (dataw s).map fun units =>
    let cap := capOf (sizeResize (sizeInit s.length) (datawNeed s.length))
    (wcs units,
     (fixWLoop (wideOffset s.length) cap (units.map Int.ofNat ++ [0]) 0 0 cap).map fun out => out.takeWhile (· != 0))

end AslModel.Utf
