import AslModel.Map
/-!
# Executable model of `asl::Var` (include/asl/Var.h, src/Var.cpp) — core Lean only

A `Var` is a tagged union.  `ARRAY` and `OBJ` hold an in-place `Array<Var>` / `Dic<Var>` handle: one pointer to
a reference-counted block `{n, s, rc}` + elements (include/asl/Array.h); copies of a Var share the block.
`STRING` holds an `Array<char>` that is never shared (every copy allocates its own), so the model keeps its bytes
inline; strings shorter than 8 bytes are stored inline in the union (`SSTRING`).

* `V`     — one Var: the tag and the scalar payload or a block id.
* `Heap`  — `List (Option Block)`: block ids are never reused, a released block stays `none` for ever, so every
            later access through a stale handle is seen (`Err.uaf`).  A block that grows moves: the model
            always allocates a new id and releases the old one (what `malloc`+`free` does and `realloc` may do);
            only the handle the growth went through is updated — exactly the one-pointer design of `Array`.
* every public operation is a function on `State` (heap + root variables) that sequences the reference-count
  increments, decrements, releases and copies as the C++ does.  `Except Err` = the C++ would touch released or
  out-of-range storage (`uaf`, `oob`, `rc`), or the operation is outside the modelled domain (`badarg`), or it is
  refused by a guard (`sharedGrowth`, `cyclic`, `nopath`).
* numbers: `INT` is an `Int` (the harness keeps it in the 32-bit range); doubles are exact dyadic rationals
  `m / 2^e` in normal form (`Dy`), which represents every finite double exactly; `==` on them is `=`.
  NaN, infinities and -0 are outside the model.
-/
namespace AslModel.Var

/-! ## numbers -/

/-- `m / 2^e`; normal form: `e = 0 ∨ m odd` -/
structure Dy where
  m : Int
  e : Nat
deriving DecidableEq, Repr, Inhabited

/-- normal form of `m / 2^e` -/
def Dy.norm : Int → Nat → Dy
  | m, 0 => ⟨m, 0⟩
  | m, e + 1 => if m % 2 = 0 then Dy.norm (m / 2) e else ⟨m, e + 1⟩

/-- `(double)i` for a 32-bit (or any |i| < 2^53) integer: exact -/
def Dy.ofInt (i : Int) : Dy := ⟨i, 0⟩

/-- C conversion of a double to an integer type: truncation toward zero -/
def Dy.trunc (d : Dy) : Int := Int.tdiv d.m ((2 : Int) ^ d.e)

/-- number of binary digits of `n` -/
def bitLen : Nat → Nat → Nat
  | 0, _ => 0
  | f + 1, n => if n = 0 then 0 else bitLen f (n / 2) + 1

/-- `(float)i`: round to nearest, ties to even, to a 24-bit significand -/
def Dy.ofIntF (i : Int) : Dy :=
  let a := i.natAbs
  let bl := bitLen (a + 1) a
  if bl ≤ 24 then ⟨i, 0⟩ else
  let k := bl - 24
  let q := a / 2 ^ k
  let r := a % 2 ^ k
  let q := if 2 * r > 2 ^ k ∨ (2 * r = 2 ^ k ∧ q % 2 = 1) then q + 1 else q
  let v : Int := (q * 2 ^ k : Nat)
  ⟨if i < 0 then -v else v, 0⟩

/-- `(double)i`: round to nearest, ties to even, to a 53-bit significand -/
def Dy.ofIntD (i : Int) : Dy :=
  let a := i.natAbs
  let bl := bitLen (a + 1) a
  if bl ≤ 53 then ⟨i, 0⟩ else
  let k := bl - 53
  let q := a / 2 ^ k
  let r := a % 2 ^ k
  let q := if 2 * r > 2 ^ k ∨ (2 * r = 2 ^ k ∧ q % 2 = 1) then q + 1 else q
  let v : Int := (q * 2 ^ k : Nat)
  ⟨if i < 0 then -v else v, 0⟩

/-- `(double)x` for a 64-bit integer: the value itself while |x| < 2^53, rounded to nearest-even beyond -/
def Dy.ofInt64 (x : Int) : Dy :=
  if -9007199254740992 < x ∧ x < 9007199254740992 then Dy.ofInt x else Dy.ofIntD x

/-! ## values, blocks, heap -/

abbrev Bytes := List UInt8

inductive V
  | none | null
  | bool (b : Bool)
  | int (i : Int)
  | num (d : Dy)
  | flt (d : Dy)
  | sstr (s : Bytes)
  | str (s : Bytes)
  | arr (id : Nat)
  | obj (id : Nat)
deriving DecidableEq, Repr, Inhabited

/-- the block behind an `Array<Var>` (keys unused, `[]`) or the `Array<KeyVal>` of a `Dic<Var>` (ascending keys) -/
structure Block where
  isObj : Bool
  items : List (Bytes × V)
  cap : Nat
  rc : Nat
deriving DecidableEq, Repr, Inhabited

abbrev Heap := List (Option Block)

inductive Err
  | uaf          -- access to a released block / a block id that was never allocated
  | oob          -- index outside [0, n)
  | rc           -- reference count of a live block is 0
  | fuel         -- recursion bound exhausted (cyclic structure)
  | badarg       -- operation outside the modelled domain (the harness never issues it)
  | sharedGrowth -- guard: the operation would grow a block whose rc > 1 (known finding)
  | cyclic       -- guard: the operation would make a container contain itself
  | nopath       -- the source path does not exist
  | srcMoved     -- guard: evaluating the target path would move the element the source reference designates (known finding)
deriving DecidableEq, Repr, Inhabited

structure State where
  heap : Heap
  slots : List V
deriving Repr, Inhabited

def getB (h : Heap) (id : Nat) : Except Err Block :=
  match h[id]? with
  | some (some b) => .ok b
  | _ => .error .uaf

def setB (h : Heap) (id : Nat) (b : Block) : Heap := h.set id (some b)
def freeB (h : Heap) (id : Nat) : Heap := h.set id none
def allocB (h : Heap) (b : Block) : Heap × Nat := (h ++ [some b], h.length)

def handleOf : V → Option Nat
  | .arr id => some id
  | .obj id => some id
  | _ => none

/-- is the tag OBJ? -/
def isObjV : V → Bool
  | .obj _ => true
  | _ => false

/-- `isPod()`: `(_type & 8) == 0` — everything except STRING(8), ARRAY(9), OBJ(10) -/
def isPod : V → Bool
  | .str _ => false
  | .arr _ => false
  | .obj _ => false
  | _ => true

def mkHandle (isObj : Bool) (id : Nat) : V := if isObj then .obj id else .arr id

/-- `Array()` / `Dic()`: `alloc(0)` gives capacity `max(0, 3)`, rc 1 -/
def emptyBlock (isObj : Bool) : Block := { isObj := isObj, items := [], cap := 3, rc := 1 }

/-- an upper bound of the number of steps `release` can take: one per live block and per stored element -/
def heapSize (h : Heap) : Nat :=
  (h.map fun | some b => b.items.length + 1 | none => 0).sum

/-! ## list combinators in `Except Err` (the element loops of the C++; recursion on the list, so that the fuel of
the recursive functions below counts nesting depth only) -/

/-- `for (...) if (!p(x)) return false; return true;` -/
def allE {α : Type} : List α → (α → Except Err Bool) → Except Err Bool
  | [], _ => .ok true
  | x :: xs, p =>
    match p x with
    | .error e => .error e
    | .ok false => .ok false
    | .ok true => allE xs p

/-- `for (...) if (p(x)) return true; return false;` -/
def anyE {α : Type} : List α → (α → Except Err Bool) → Except Err Bool
  | [], _ => .ok false
  | x :: xs, p =>
    match p x with
    | .error e => .error e
    | .ok true => .ok true
    | .ok false => anyE xs p

def mapE {α β : Type} : List α → (α → Except Err β) → Except Err (List β)
  | [], _ => .ok []
  | x :: xs, g =>
    match g x with
    | .error e => .error e
    | .ok y => match mapE xs g with
      | .error e => .error e
      | .ok ys => .ok (y :: ys)

/-- apply `g` to the value of every element in order, threading the heap -/
def mapHeapE (g : Heap → V → Except Err (Heap × V)) : Heap → List (Bytes × V) → Except Err (Heap × List (Bytes × V))
  | h, [] => .ok (h, [])
  | h, (k, x) :: rest =>
    match g h x with
    | .error e => .error e
    | .ok (h1, x') =>
      match mapHeapE g h1 rest with
      | .error e => .error e
      | .ok (h2, rest') => .ok (h2, (k, x') :: rest')

/-! ## copy construction and destruction -/

/-- `Var(const Var&)`: memcpy + `copy(v)`; ARRAY/OBJ share the block (`++rc`), STRING allocates its own bytes -/
def copyV (h : Heap) (v : V) : Except Err Heap :=
  match handleOf v with
  | none => .ok h
  | some id =>
    match getB h id with
    | .error e => .error e
    | .ok b => .ok (setB h id { b with rc := b.rc + 1 })

/-- `~Var` for every value of a work list (depth first, as `asl_destroy` does): `if(--rc == 0) free()` where
`free()` destroys the elements and releases the block -/
def release : Nat → Heap → List V → Except Err Heap
  | 0, _, _ => .error .fuel
  | _ + 1, h, [] => .ok h
  | f + 1, h, v :: rest =>
    match handleOf v with
    | none => release f h rest
    | some id =>
      match getB h id with
      | .error e => .error e
      | .ok b =>
        if b.rc = 0 then .error .rc
        else if b.rc = 1 then release f (freeB h id) (b.items.map (·.2) ++ rest)
        else release f (setB h id { b with rc := b.rc - 1 }) rest

def relFuel (h : Heap) (l : List V) : Nat := heapSize h + l.length + 1

/-- destroy the values of `l` -/
def drop (h : Heap) (l : List V) : Except Err Heap := release (relFuel h l) h l

/-! ## locations -/

inductive Loc
  | slot (k : Nat)
  | item (id idx : Nat)
deriving DecidableEq, Repr, Inhabited

def readLoc (σ : State) : Loc → Except Err V
  | .slot k => match σ.slots[k]? with
    | some v => .ok v
    | none => .error .oob
  | .item id i =>
    match getB σ.heap id with
    | .error e => .error e
    | .ok b => match b.items[i]? with
      | some kv => .ok kv.2
      | none => .error .oob

def writeLoc (σ : State) (l : Loc) (v : V) : Except Err State :=
  match l with
  | .slot k => if k < σ.slots.length then .ok { σ with slots := σ.slots.set k v } else .error .oob
  | .item id i =>
    match getB σ.heap id with
    | .error e => .error e
    | .ok b =>
      if i < b.items.length then
        .ok { σ with heap := setB σ.heap id { b with items := Map.setValAt b.items i v } }
      else .error .oob

/-! ## assignment -/

/-- `void Var::operator=(const Var& v)` on the Var at `t`; `src` is the value of `v` when the call starts (the
three branches all copy from `v` before they release anything — commit 4e1a308) -/
def assignV (σ : State) (t : Loc) (src : V) : Except Err State :=
  match readLoc σ t with
  | .error e => .error e
  | .ok old =>
    match old, src with
    | .str _, .str s =>
      -- _s->resize(v._s->length()); memcpy
      writeLoc σ t (.str s)
    | _, _ =>
      -- pod target: memcpy(this, &v); copy(v).   non-pod: Var tmp(v); bswap(*this, tmp); ~tmp releases the old content
      match copyV σ.heap src with
      | .error e => .error e
      | .ok h =>
        match writeLoc { σ with heap := h } t src with
        | .error e => .error e
        | .ok σ1 =>
          if isPod old then .ok σ1
          else
            match drop σ1.heap [old] with
            | .error e => .error e
            | .ok h2 => .ok { σ1 with heap := h2 }

/-- `free()` of the Var at `t` followed by a new tag and payload `nv`: the old container (if any) is released and the
Var holds `nv`.  (The C++ releases first and writes the new tag afterwards; the model writes first so that the
released value is not also counted as stored — the same final state whenever `*this` survives its own `free()`,
i.e. whenever the Var is not inside the structure it holds.) -/
def storeV (σ : State) (t : Loc) (nv : V) : Except Err State :=
  match readLoc σ t with
  | .error e => .error e
  | .ok old =>
    match writeLoc σ t nv with
    | .error e => .error e
    | .ok σ1 =>
      match drop σ1.heap [old] with
      | .error e => .error e
      | .ok h => .ok { σ1 with heap := h }

/-- the typed assignments `operator=(int|double|float|unsigned|Long|bool)`: `if(_type != NONE) free();` then the
new tag and payload -/
def assignScalar (σ : State) (t : Loc) (nv : V) : Except Err State := storeV σ t nv

/-- `operator=(const String&)` and `operator=(const char*)` (same effect): in place when the Var already is a
STRING (it stays a STRING whatever the new length) or an SSTRING and the text still fits; otherwise `free()` and a
new SSTRING (< 8 bytes) or STRING -/
def assignString (σ : State) (t : Loc) (s : Bytes) : Except Err State :=
  match readLoc σ t with
  | .error e => .error e
  | .ok old =>
    match old with
    | .str _ => writeLoc σ t (.str s)
    | .sstr _ =>
      if s.length < 8 then writeLoc σ t (.sstr s)
      else writeLoc σ t (.str s)          -- free() of an SSTRING releases nothing
    | _ => storeV σ t (if s.length < 8 then .sstr s else .str s)

/-- `p = *p + off` for a string Var: `operator=(const char*)` with a pointer into the Var's own buffer (memmove since
commit 0cc196d); the result is the suffix, of the same kind (a STRING stays a STRING, an SSTRING an SSTRING) -/
def assignSuffix (σ : State) (t : Loc) (off : Nat) : Except Err State :=
  match readLoc σ t with
  | .error e => .error e
  | .ok (.str s) => if off ≤ s.length then assignString σ t (s.drop off) else .error .badarg
  | .ok (.sstr s) => if off ≤ s.length then assignString σ t (s.drop off) else .error .badarg
  | .ok _ => .error .badarg

/-- `p = *q + off` for a string Var `q` read through the source reference: `operator=(const char*)`; when the target
is an array or an object holding `q`, the text is copied before they are released (commit 7dd07aa) -/
def assignCs (σ : State) (t : Loc) (src : Except Err V) (off : Nat) : Except Err State :=
  match src with
  | .error e => .error e
  | .ok (.str s) => if off ≤ s.length then assignString σ t (s.drop off) else .error .badarg
  | .ok (.sstr s) => if off ≤ s.length then assignString σ t (s.drop off) else .error .badarg
  | .ok _ => .error .badarg

/-- `p = k` for `const String& k = q.object().kv()[i].key`, the name of the `i`-th property of the object `q` read through
the source reference: `operator=(const String&)`; when the target holds that object, the name is copied before the object is
released (commit 782f6e9) -/
def assignKey (σ : State) (t : Loc) (src : Except Err V) (i : Nat) : Except Err State :=
  match src with
  | .error e => .error e
  | .ok (.obj id) =>
    match getB σ.heap id with
    | .error e => .error e
    | .ok b =>
      match b.items[i]? with
      | some kv => assignString σ t kv.1
      | none => .error .badarg
  | .ok _ => .error .badarg

/-! ## constructors -/

/-- `Var(const char*)`, `Var(const String&)` -/
def mkString (s : Bytes) : V := if s.length < 8 then .sstr s else .str s
/-- `Var(int)`, `Var(long)`, `Var(char)` -/
def mkInt (i : Int) : V := .int i
/-- `Var(unsigned)` and `operator=(unsigned)`: INT below 2^31, NUMBER from there on -/
def mkUnsigned (u : Nat) : V := if u < 2147483648 then .int u else .num (Dy.ofInt u)
/-- `Var(Long)` / `operator=(Long)`: always NUMBER, `(double)y` (exact for |y| < 2^53, rounded beyond) -/
def mkLong (x : Int) : V := .num (Dy.ofInt64 x)
/-- `Var(ULong)` / `operator=(ULong)` (commit c047585: no detour through `Long`): NUMBER `(double)u`, exact below 2^53,
rounded to nearest-even above -/
def mkULong (u : Nat) : V := .num (if u < 9007199254740992 then Dy.ofInt u else Dy.ofIntD u)
/-- `Var(long)` / `operator=(long)` on LP64 (commit 6c0507b): INT inside the int range, NUMBER outside -/
def mkNativeLong (x : Int) : V := if -2147483648 ≤ x ∧ x < 2147483648 then .int x else .num (Dy.ofInt64 x)
/-- `Var(unsigned long)` / `operator=(unsigned long)` -/
def mkNativeULong (u : Nat) : V := if u < 2147483648 then .int u else .num (Dy.ofInt64 u)
/-- `Var(double)` -/
def mkDouble (d : Dy) : V := .num d
/-- `Var(float)` -/
def mkFloat (d : Dy) : V := .flt d
/-- `Var(bool)` -/
def mkBool (b : Bool) : V := .bool b

/-- the `Type` enum values used by `Var(Type)` / `is(Type)` -/
def tNONE := 0
def tNUL := 1
def tNUMBER := 2
def tBOOL := 3
def tINT := 4
def tSSTRING := 5
def tFLOAT := 6
def tSTRING := 8
def tARRAY := 9
def tOBJ := 10

/-- `Var(Type t)` for the tags that do not leave the payload uninitialised -/
def mkType (h : Heap) (t : Nat) : Except Err (Heap × V) :=
  if t = tNONE then .ok (h, .none)
  else if t = tNUL then .ok (h, .null)
  else if t = tSSTRING then .ok (h, .sstr [])
  else if t = tSTRING then .ok (h, .str [])          -- commit 193448d: one terminator byte
  else if t = tARRAY then let (h', id) := allocB h (emptyBlock false); .ok (h', .arr id)
  else if t = tOBJ then let (h', id) := allocB h (emptyBlock true); .ok (h', .obj id)
  else if t = tINT then .ok (h, .int 0)              -- commit 11663a3: numbers and booleans start at zero / false
  else if t = tNUMBER then .ok (h, .num (Dy.ofInt 0))
  else if t = tFLOAT then .ok (h, .flt (Dy.ofInt 0))
  else if t = tBOOL then .ok (h, .bool false)
  else .error .badarg

/-! ## growth -/

/-- the block `id` referenced from the Var at `l` moves to a new block of capacity `newcap`
(`reserve`: malloc+memcpy+free below 2 KiB, realloc above; `insert`: realloc).  With `guard` the move is refused
while another handle shares the block. -/
def relocate (guard : Bool) (σ : State) (l : Loc) (id : Nat) (newcap : Nat) : Except Err (State × Nat) :=
  match getB σ.heap id with
  | .error e => .error e
  | .ok b =>
    if guard && decide (b.rc > 1) then .error .sharedGrowth
    else
      let (h1, id') := allocB σ.heap { b with cap := newcap }
      let h2 := freeB h1 id
      match writeLoc { σ with heap := h2 } l (mkHandle b.isObj id') with
      | .error e => .error e
      | .ok σ' => .ok (σ', id')

/-- `Array::reserve(m)`: nothing if `m <= s`, else a new block of `max(2s, m)` -/
def reserveAt (guard : Bool) (σ : State) (l : Loc) (id : Nat) (m : Nat) : Except Err (State × Nat) :=
  match getB σ.heap id with
  | .error e => .error e
  | .ok b =>
    if m ≤ b.cap then .ok (σ, id)
    else relocate guard σ l id (max (2 * b.cap) m)

/-- the growth step of `Array::insert`: `if (n < s) {} else realloc(2*s)` -/
def growInsertAt (guard : Bool) (σ : State) (l : Loc) (id : Nat) : Except Err (State × Nat) :=
  match getB σ.heap id with
  | .error e => .error e
  | .ok b =>
    if b.items.length < b.cap then .ok (σ, id)
    else relocate guard σ l id (2 * b.cap)

/-- `Array::resize(m)`: reserve, then default-construct (NONE) the new tail or destroy the cut tail -/
def resizeAt (guard : Bool) (σ : State) (l : Loc) (id : Nat) (m : Nat) : Except Err (State × Nat) := do
  let (σ1, id1) ← reserveAt guard σ l id m
  let b ← getB σ1.heap id1
  let n := b.items.length
  if m > n then
    pure ({ σ1 with heap := setB σ1.heap id1 { b with items := b.items ++ List.replicate (m - n) ([], V.none) } }, id1)
  else if m < n then
    let dead := (b.items.drop m).map (·.2)
    let h1 := setB σ1.heap id1 { b with items := b.items.take m }
    let h2 ← drop h1 dead
    pure ({ σ1 with heap := h2 }, id1)
  else pure (σ1, id1)

/-! ## `operator[]` (non-const): auto-vivification -/

inductive Step
  | idx (i : Nat)
  | key (k : Bytes)
deriving DecidableEq, Repr, Inhabited

def natDigitsAux : Nat → Nat → Bytes → Bytes
  | 0, _, acc => acc
  | f + 1, n, acc =>
    let acc' := UInt8.ofNat (48 + n % 10) :: acc
    if n < 10 then acc' else natDigitsAux f (n / 10) acc'

/-- decimal digits of `n` -/
def natDigits (n : Nat) : Bytes := natDigitsAux (n + 1) n []

/-- `String(int)` / `%i` -/
def intDigits (i : Int) : Bytes := if i < 0 then 45 :: natDigits i.natAbs else natDigits i.toNat

/-- `T& Map::operator[](key)` on the Dic block `id` referenced from `l`: the slot of an existing key, or a new
`KeyVal(key, Var())` inserted at its place in the ascending order (`Array::insert`: grow ×2 when full) -/
def indexKey (guard : Bool) (σ : State) (l : Loc) (id : Nat) (k : Bytes) : Except Err (State × Loc) := do
  let b ← getB σ.heap id
  match Map.indexOf Map.cmpBytes b.items k with
  | none => throw .oob
  | some r =>
    if r ≥ 0 then pure (σ, .item id r.toNat)
    else
      let p := (-r - 1).toNat
      let (σ1, id1) ← growInsertAt guard σ l id
      let b1 ← getB σ1.heap id1
      pure ({ σ1 with heap := setB σ1.heap id1 { b1 with items := Map.insertAt b1.items p (k, V.none) } }, .item id1 p)

/-- one application of the non-const `Var::operator[]` to the Var at `l`: the new state and the location of the
referenced Var -/
def stepMut (guard : Bool) (σ : State) (l : Loc) (s : Step) : Except Err (State × Loc) := do
  let v ← readLoc σ l
  match s with
  | .idx i =>
    match v with
    | .arr id =>
      let b ← getB σ.heap id
      if i ≥ b.items.length then
        let (σ1, id1) ← resizeAt guard σ l id (i + 1)
        pure (σ1, .item id1 i)
      else pure (σ, .item id i)
    | .obj id => indexKey guard σ l id (natDigits i)
    | .none =>
      let (h1, id) := allocB σ.heap (emptyBlock false)
      let σ1 ← writeLoc { σ with heap := h1 } l (.arr id)
      let (σ2, id2) ← resizeAt guard σ1 l id (i + 1)
      pure (σ2, .item id2 i)
    | _ => pure (σ, l)                       -- `return *this;`
  | .key k =>
    match v with
    | .none =>
      let (h1, id) := allocB σ.heap (emptyBlock true)
      let σ1 ← writeLoc { σ with heap := h1 } l (.obj id)
      indexKey guard σ1 l id k
    | .obj id => indexKey guard σ l id k
    | .arr _ => throw .badarg                -- never reached from a path: see `normStep`
    | _ => pure (σ, l)                       -- `Var[String]` on a scalar: asl_error (a message), `return *this;`

/-- Would this application of the non-const `operator[]` to the Var at `l` move the element that the reference `src`
designates?  In C++ the source operand of `p = q`, `p << q`, `p.extend(q)` is a `const Var&` evaluated BEFORE the
target path; an auto-creating step of the target path that reallocates the block holding that element, or — in an
object — inserts a new property at or before it, leaves the reference dangling or pointing at another element. -/
def invalidates (σ : State) (l : Loc) (s : Step) (src : Option Loc) : Bool :=
  match src with
  | some (.item B j) =>
    match readLoc σ l with
    | .ok (.arr id) =>
      id == B && (match s, getB σ.heap id with
        | .idx i, .ok b => decide (i ≥ b.items.length ∧ i + 1 > b.cap)
        | _, _ => false)
    | .ok (.obj id) =>
      id == B && (match getB σ.heap id with
        | .ok b =>
          let k := match s with
            | .idx i => natDigits i
            | .key k => k
          match Map.indexOf Map.cmpBytes b.items k with
          | some r => decide (r < 0 ∧ (b.items.length ≥ b.cap ∨ (-r - 1).toNat ≤ j))
          | none => false
        | .error _ => false)
    | _ => false
  | _ => false

/-- `myatoi` (String → int): an optional sign, then decimal digits up to the first other byte, accumulated modulo 2^32
and read back as a 32-bit `int` -/
def myatoi (s : Bytes) : Int :=
  let (neg, ds) := match s with
    | 45 :: r => (true, r)
    | 43 :: r => (false, r)
    | _ => (false, s)
  let y : Nat := (ds.takeWhile fun c => 48 ≤ c && c ≤ 57).foldl (fun (acc : Nat) c => (10 * acc + (c.toNat - 48)) % 4294967296) 0
  let u : Nat := if neg then (4294967296 - y) % 4294967296 else y
  if u < 2147483648 then (u : Int) else (u : Int) - 4294967296

/-- the step the non-const `operator[]` really takes (`none`: no step, the call returns the Var itself):
`Var::operator[](const String& k)` on an ARRAY forwards to `operator[]((int)k)` (commit 7407dbc), so the key is an index;
a key that converts to a negative int is an error that returns `*this` (commit 095ba92) -/
def normStep (σ : State) (l : Loc) (s : Step) : Option Step :=
  match s, readLoc σ l with
  | .key k, .ok (.arr _) => if myatoi k < 0 then none else some (.idx (myatoi k).toNat)
  | _, _ => some s

/-- the path `root[s1][s2]…` evaluated left to right; the state keeps the effects of the steps already taken
when a later step is refused.  `src`: the Var the source reference of the statement designates (if any). -/
def resolveMut (guard : Bool) (src : Option Loc) : State → Loc → List Step → State × Except Err Loc
  | σ, l, [] => (σ, .ok l)
  | σ, l, s0 :: rest =>
    match normStep σ l s0 with
    | none => resolveMut guard src σ l rest
    | some s =>
      if guard && invalidates σ l s src then (σ, .error .srcMoved)
      else
        match stepMut guard σ l s with
        | .error e => (σ, .error e)
        | .ok (σ1, l1) => resolveMut guard src σ1 l1 rest

/-! ## `operator[] const` -/

/-- `const Var& operator[](int) const` / `(const String&) const`: an element, a property, or the static `none`.
An array index outside `[0, length)` gives `none` as well (commit 8dbc483; it was an unchecked read before). -/
def stepConst (h : Heap) (v : V) (s : Step) : Except Err V :=
  match s, v with
  | .idx i, .arr id =>
    match getB h id with
    | .error e => .error e
    | .ok b => match b.items[i]? with
      | some kv => .ok kv.2
      | none => .ok .none                    -- commit 8dbc483: an index outside [0, length) gives the static `none`
  | .key k, .obj id =>
    match getB h id with
    | .error e => .error e
    | .ok b => match Map.find Map.cmpBytes b.items k with
      | none => .error .oob
      | some r => .ok (r.getD .none)
  | _, _ => .ok .none

def resolveConst (h : Heap) : V → List Step → Except Err V
  | v, [] => .ok v
  | v, s :: rest =>
    match stepConst h v s with
    | .error e => .error e
    | .ok v1 => resolveConst h v1 rest

/-- position of `key` in an ascending `KeyVal` list, if present -/
def keyPos (items : List (Bytes × V)) (k : Bytes) : Except Err (Option Nat) :=
  match Map.indexOf Map.cmpBytes items k with
  | none => .error .oob
  | some r => if r ≥ 0 then .ok (some r.toNat) else .ok none

/-- `stepConst` that also tells *which* Var the reference denotes (`none` = the static `Var::none`) -/
def stepConstLoc (h : Heap) (v : V) (s : Step) : Except Err (Option Loc × V) :=
  match s, v with
  | .idx i, .arr id =>
    match getB h id with
    | .error e => .error e
    | .ok b => match b.items[i]? with
      | some kv => .ok (some (.item id i), kv.2)
      | none => .ok (none, .none)
  | .key k, .obj id =>
    match getB h id with
    | .error e => .error e
    | .ok b => match keyPos b.items k with
      | .error e => .error e
      | .ok none => .ok (none, .none)
      | .ok (some j) => match b.items[j]? with
        | some kv => .ok (some (.item id j), kv.2)
        | none => .error .oob
  | _, _ => .ok (none, .none)

def resolveConstLoc (h : Heap) : Option Loc → V → List Step → Except Err (Option Loc × V)
  | l, v, [] => .ok (l, v)
  | _, v, s :: rest =>
    match stepConstLoc h v s with
    | .error e => .error e
    | .ok (l1, v1) => resolveConstLoc h l1 v1 rest

/-! ## reachability (guards of the harness: "would make a container contain itself") -/

/-- is block `target` reachable from value `v` (including `v` itself)?  `fuel` bounds the nesting depth. -/
def reaches : Nat → Heap → Nat → V → Except Err Bool
  | 0, _, _, _ => .error .fuel
  | f + 1, h, target, v =>
    match handleOf v with
    | none => .ok false
    | some id =>
      if id = target then .ok true
      else match getB h id with
        | .error e => .error e
        | .ok b => anyE b.items (fun kv => reaches f h target kv.2)

/-- recursion bound used by the driver for every traversal: longer than any acyclic chain of blocks -/
def travFuel (h : Heap) : Nat := h.length + 2

/-- the block that holds the Var at `l` (none for a root variable) -/
def parentOf : Loc → Option Nat
  | .slot _ => none
  | .item id _ => some id

/-- would storing `src` into a Var that lives in block `parent` close a cycle? -/
def wouldCycle (h : Heap) (parent : Option Nat) (src : V) : Except Err Bool :=
  match parent with
  | none => .ok false
  | some p => reaches (travFuel h) h p src

/-! ## append, remove, clear, extend -/

/-- `Var& operator<<(const Var& x)`: ARRAY → `Array::insert(-1, x)` (grow ×2 when full, copy-construct at the
end); NONE → becomes an empty array first; anything else: nothing -/
def appendAt (guard : Bool) (σ : State) (l : Loc) (src : V) : Except Err State := do
  let v ← readLoc σ l
  match v with
  | .arr id =>
    let (σ1, id1) ← growInsertAt guard σ l id
    let h ← copyV σ1.heap src
    let b ← getB h id1
    pure { σ1 with heap := setB h id1 { b with items := b.items ++ [([], src)] } }
  | .none =>
    let (h1, id) := allocB σ.heap (emptyBlock false)
    let σ1 ← writeLoc { σ with heap := h1 } l (.arr id)
    let h ← copyV σ1.heap src
    let b ← getB h id
    pure { σ1 with heap := setB h id { b with items := b.items ++ [([], src)] } }
  | _ => pure σ

/-- `void resize(int n)`: NONE → array of n; ARRAY → resize; else nothing -/
def resizeV (guard : Bool) (σ : State) (l : Loc) (n : Nat) : Except Err State := do
  let v ← readLoc σ l
  match v with
  | .arr id => let (σ1, _) ← resizeAt guard σ l id n; pure σ1
  | .none =>
    let (h1, id) := allocB σ.heap (emptyBlock false)
    let σ1 ← writeLoc { σ with heap := h1 } l (.arr id)
    let (σ2, _) ← resizeAt guard σ1 l id n
    pure σ2
  | _ => pure σ

/-- `Array::remove(i, n)`: destroy the n elements, close the gap (capacity unchanged) -/
def removeItems (σ : State) (id : Nat) (i n : Nat) : Except Err State := do
  let b ← getB σ.heap id
  if i + n > b.items.length then pure σ
  else
    let dead := ((b.items.drop i).take n).map (·.2)
    let h1 := setB σ.heap id { b with items := b.items.take i ++ b.items.drop (i + n) }
    let h2 ← drop h1 dead
    pure { σ with heap := h2 }

/-- `void removeAt(int i, int n)`: only for an ARRAY and `i >= 0, n > 0, i < len, i + n <= len` -/
def removeAtV (σ : State) (l : Loc) (i n : Nat) : Except Err State := do
  let v ← readLoc σ l
  match v with
  | .arr id =>
    let b ← getB σ.heap id
    if n > 0 ∧ i < b.items.length ∧ i + n ≤ b.items.length then removeItems σ id i n else pure σ
  | _ => pure σ

/-- `void remove(const String& k)`: only for an OBJ -/
def removeKeyV (σ : State) (l : Loc) (k : Bytes) : Except Err State := do
  let v ← readLoc σ l
  match v with
  | .obj id =>
    let b ← getB σ.heap id
    match Map.indexOf Map.cmpBytes b.items k with
    | none => throw .oob
    | some r => if r ≥ 0 then removeItems σ id r.toNat 1 else pure σ
  | _ => pure σ

/-- `void clear()`: `resize(0)` of the array / of the Dic's array -/
def clearV (σ : State) (l : Loc) : Except Err State := do
  let v ← readLoc σ l
  match handleOf v with
  | some id => let (σ1, _) ← resizeAt true σ l id 0; pure σ1      -- never grows
  | none => pure σ

/-- the loop of `extend` over the held Dic (block `sid`): `foreach2(k, x, src) if (x.ok()) (*_o)[k] = x;` — the
enumerator reads element `i` of the Dic's array at every step; `n` bounds the number of steps (the initial length) -/
def extendLoop (guard : Bool) (sid : Nat) : Nat → State → Loc → Nat → Except Err State
  | 0, σ, _, _ => .ok σ
  | n + 1, σ, l, i =>
    match getB σ.heap sid with
    | .error e => .error e
    | .ok sb =>
      match sb.items[i]? with
      | none => .ok σ                                  -- `i < d->length()` no longer holds
      | some (k, x) =>
        if x = V.none then extendLoop guard sid n σ l (i + 1)
        else
          match readLoc σ l with
          | .error e => .error e
          | .ok (.obj id) =>
            -- a property from which this object can be reached would make it contain itself: the harness has
            -- refused such a call before issuing it (`anyReaches`), so `cyclic` is never returned here in a
            -- checked history
            match reaches (travFuel σ.heap) σ.heap id x with
            | .error e => .error e
            | .ok true => .error .cyclic
            | .ok false =>
              match indexKey guard σ l id k with
              | .error e => .error e
              | .ok (σ1, t) =>
                match assignV σ1 t x with
                | .error e => .error e
                | .ok σ2 => extendLoop guard sid n σ2 l (i + 1)
          | .ok _ => .error .badarg

/-- the first statement of `extend`: `if (_type == NONE) { NEW_DIC(_o); _type = OBJ; }` -/
def toObjIfNone (σ : State) (l : Loc) : Except Err State :=
  match readLoc σ l with
  | .error e => .error e
  | .ok .none =>
    let (h1, id) := allocB σ.heap (emptyBlock true)
    writeLoc { σ with heap := h1 } l (.obj id)
  | .ok _ => .ok σ

/-- the rest of `extend`: if both are objects, every defined property of `v` is assigned into this one
(commits 63d8c00, 02a4aa4: `v` must be an object; its Dic is held for the loop) -/
def extendObj (guard : Bool) (σ0 : State) (l : Loc) (src : V) : Except Err State :=
  match readLoc σ0 l with
  | .error e => .error e
  | .ok v0 =>
    match v0, src with
    | .obj _, .obj sid =>
      match copyV σ0.heap src with                       -- Dic<Var> src = *v._o;
      | .error e => .error e
      | .ok h1 =>
        match getB h1 sid with
        | .error e => .error e
        | .ok sb =>
          match extendLoop guard sid sb.items.length { σ0 with heap := h1 } l 0 with
          | .error e => .error e
          | .ok σ1 =>
            match drop σ1.heap [src] with                -- ~Dic
            | .error e => .error e
            | .ok h2 => .ok { σ1 with heap := h2 }
    | _, _ => .ok σ0

/-- `Var& extend(const Var& v)` -/
def extendV (guard : Bool) (σ : State) (l : Loc) (src : V) : Except Err State :=
  match toObjIfNone σ l with
  | .error e => .error e
  | .ok σ0 => extendObj guard σ0 l src

/-- number of insertions `extend` would make (for the shared-growth guard of the whole call) -/
def extendNewKeys (tgt : List (Bytes × V)) (src : List (Bytes × V)) : Nat :=
  (src.filter fun kv => kv.2 != V.none && (Map.has Map.cmpBytes tgt kv.1 != some true)).length

/-! ## clone -/

/-- `Var clone() const`: a new block (capacity `max(n, 3)`, rc 1) for every array and object below, scalars and
strings copied.  Net effect of `Var v(*this); v._a->dup(); foreach(x) x = x.clone();` — the transient
increments/decrements of the shared originals cancel. -/
def cloneV : Nat → Heap → V → Except Err (Heap × V)
  | 0, _, _ => .error .fuel
  | f + 1, h, v =>
    match handleOf v with
    | none => .ok (h, v)
    | some id =>
      match getB h id with
      | .error e => .error e
      | .ok b =>
        match mapHeapE (cloneV f) h b.items with
        | .error e => .error e
        | .ok (h1, items') =>
          let (h2, id') := allocB h1 { isObj := b.isObj, items := items', cap := max items'.length 3, rc := 1 }
          .ok (h2, mkHandle (isObjV v) id')      -- the copy keeps the tag of `*this`

/-! ## comparison -/

/-- `operator double()` of a numeric Var -/
def numOf : V → Option Dy
  | .int i => some (Dy.ofInt i)
  | .num d => some (Dy.norm d.m d.e)      -- the value, whatever pair represents it
  | .flt d => some (Dy.norm d.m d.e)
  | _ => none

/-- `bool Var::operator==(const Var& other) const`, branch by branch -/
def eqV : Nat → Heap → V → V → Except Err Bool
  | 0, _, _, _ => .error .fuel
  | f + 1, h, v, w =>
    match v, w with
    | .str a, .sstr b => .ok (a == b)                 -- strcmp
    | .sstr a, .str b => .ok (a == b)
    | .int i, _ => .ok (numOf w == some (Dy.ofInt i))  -- double x = *this; return other == x;
    | .num d, _ => .ok (numOf w == some (Dy.norm d.m d.e))
    | .flt d, _ => .ok (numOf w == some (Dy.norm d.m d.e))
    | .bool a, .bool b => .ok (a == b)
    | .str a, .str b => .ok (a == b)
    | .sstr a, .sstr b => .ok (a == b)
    | .null, .null => .ok true
    | .none, .none => .ok true                        -- commit 33d3ace
    | .arr a, .arr b =>
      match getB h a, getB h b with
      | .ok ba, .ok bb =>
        if ba.items.length ≠ bb.items.length then .ok false
        -- `if (b._a[i] != _a[i]) return false;`: the other array's element is the left operand
        else allE (bb.items.zip ba.items) (fun p => eqV f h p.1.2 p.2.2)
      | .error e, _ => .error e
      | _, .error e => .error e
    | .obj a, .obj b =>
      match getB h a, getB h b with
      | .ok ba, .ok bb =>
        if ba.items.length ≠ bb.items.length then .ok false
        -- `if (a[i].key != b.a[i].key || a[i].value != b.a[i].value) return false;`
        else allE (ba.items.zip bb.items) (fun p =>
          if p.1.1 ≠ p.2.1 then .ok false else eqV f h p.1.2 p.2.2)
      | .error e, _ => .error e
      | _, .error e => .error e
    | _, _ => .ok false

/-- `bool contains(const Var& x) const`: `Array::indexOf`: first `i` with `_a[i] == x` -/
def containsL (f : Nat) (h : Heap) (items : List (Bytes × V)) (x : V) : Except Err Bool :=
  anyE items (fun kv => eqV f h kv.2 x)

/-! ## accessors -/

/-- `Type type() const`: SSTRING is reported as STRING -/
def typeOf : V → Nat
  | .none => tNONE | .null => tNUL | .bool _ => tBOOL | .int _ => tINT | .num _ => tNUMBER | .flt _ => tFLOAT
  | .sstr _ => tSTRING | .str _ => tSTRING | .arr _ => tARRAY | .obj _ => tOBJ

/-- the internal tag -/
def tagOf : V → Nat
  | .sstr _ => tSSTRING
  | v => typeOf v

/-- `bool is(Type t) const` -/
def isT (v : V) (t : Nat) : Bool :=
  tagOf v == t || (t == tNUMBER && (tagOf v == tINT || tagOf v == tFLOAT)) ||
    (t == tSTRING && tagOf v == tSSTRING) || (t == tSSTRING && tagOf v == tSTRING)

/-- `int length() const` -/
def lengthV (h : Heap) : V → Except Err Nat
  | .arr id => (getB h id).map (·.items.length)
  | .obj id => (getB h id).map (·.items.length)
  | .str s => .ok s.length        -- `_s->length() - 1`
  | .sstr s => .ok s.length       -- strlen
  | _ => .ok 0

/-- `operator bool() const` -/
def toBool : V → Bool
  | .bool b => b
  | .int i => i != 0
  | .num d => d.m != 0
  | .flt d => d.m != 0
  | .arr _ => true
  | .obj _ => true
  | .str s => s.length > 0        -- `_s->length() > 1`
  | .sstr s => s.length > 0
  | _ => false

/-- text of the form `-?[0-9]{1,9}`: the only strings whose `atoi`/`atof` value the model commits to -/
def simpleDec (s : Bytes) : Option Int :=
  let (neg, ds) := match s with
    | 45 :: t => (true, t)
    | _ => (false, s)
  if ds.length = 0 ∨ ds.length > 9 ∨ !(ds.all fun c => 48 ≤ c && c ≤ 57) then none
  else
    let n : Nat := ds.foldl (fun (acc : Nat) c => acc * 10 + (c.toNat - 48)) 0
    some (if neg then -(n : Int) else n)

/-- `operator int() const`; `none` = outside the modelled libc behaviour / outside the int range -/
def toInt : V → Option Int
  | .int i => some i
  | .num d => let t := d.trunc; if -2147483648 ≤ t ∧ t < 2147483648 then some t else none
  | .flt d => let t := d.trunc; if -2147483648 ≤ t ∧ t < 2147483648 then some t else none
  | .str s => simpleDec s
  | .sstr s => simpleDec s
  | _ => some 0

/-- `operator Long() const`; `none` = outside the modelled libc behaviour / outside the Long range -/
def toLong : V → Option Int
  | .int i => some i
  | .num d => let t := d.trunc; if -9223372036854775808 ≤ t ∧ t < 9223372036854775808 then some t else none
  | .flt d => let t := d.trunc; if -9223372036854775808 ≤ t ∧ t < 9223372036854775808 then some t else none
  | .str s => simpleDec s
  | .sstr s => simpleDec s
  | _ => some 0

/-- `operator ULong() const` (commit c047585): a number from 2^63 on is converted directly, everything else goes
through `Long` and wraps modulo 2^64 -/
def toULong (v : V) : Option Nat :=
  let big : Option Int := match v with
    | .num d => if d.trunc ≥ 9223372036854775808 then some d.trunc else none
    | .flt d => if d.trunc ≥ 9223372036854775808 then some d.trunc else none
    | _ => none
  match big with
  | some t => if t < 18446744073709551616 then some t.toNat else none
  | none => (toLong v).map fun x => (x % 18446744073709551616).toNat

/-- `operator double() const` (NUL gives NaN: `Sum.inr ()`) -/
def toDouble : V → Option (Dy ⊕ Unit)
  | .int i => some (.inl (Dy.ofInt i))
  | .num d => some (.inl d)
  | .flt d => some (.inl d)
  | .str s => (simpleDec s).map fun i => .inl (Dy.ofInt i)
  | .sstr s => (simpleDec s).map fun i => .inl (Dy.ofInt i)
  | .null => some (.inr ())
  | _ => some (.inl (Dy.ofInt 0))

/-! ## `toString()`: glibc `%i`, `%.15g`, `%.7g` on exact dyadic values (correctly rounded, ties to even) -/

def stripTrailingZeros (l : Bytes) : Bytes := (l.reverse.dropWhile (· == 48)).reverse

/-- `%.<P>g` of `m / 2^e` -/
def fmtG (P : Nat) (d : Dy) : Bytes :=
  if d.m = 0 then [48] else
  let neg := d.m < 0
  let N := d.m.natAbs * 5 ^ d.e                 -- value = N / 10^e
  let nd := (natDigits N).length
  -- keep P significant digits
  let (head, X) : Nat × Int :=
    if nd ≤ P then (N, (nd : Int) - 1 - d.e)
    else
      let q := 10 ^ (nd - P)
      let hd := N / q
      let rm := N % q
      let hd := if 2 * rm > q ∨ (2 * rm = q ∧ hd % 2 = 1) then hd + 1 else hd
      if hd = 10 ^ P then (10 ^ (P - 1), (nd : Int) - d.e) else (hd, (nd : Int) - 1 - d.e)
  let sig := stripTrailingZeros (natDigits head)
  let body : Bytes :=
    if X < -4 ∨ X ≥ P then
      let mant := match sig with
        | [] => [48]
        | c :: rest => if rest.isEmpty then [c] else c :: 46 :: rest
      let ex := natDigits X.natAbs
      mant ++ [101, if X < 0 then 45 else 43] ++ (if ex.length < 2 then 48 :: ex else ex)
    else if X ≥ 0 then
      let k := X.toNat + 1
      let ip := sig.take k ++ List.replicate (k - sig.length) 48
      let fr := sig.drop k
      if fr.isEmpty then ip else ip ++ 46 :: fr
    else
      [48, 46] ++ List.replicate ((-X - 1).toNat) 48 ++ sig
  if neg then 45 :: body else body

def joinBytes (sep : Bytes) : List Bytes → Bytes
  | [] => []
  | [x] => x
  | x :: rest => x ++ sep ++ joinBytes sep rest

/-- `operator String()` of a string Var -/
def strOf : V → Option Bytes
  | .str s => some s
  | .sstr s => some s
  | _ => none

/-- `String Var::toString() const`; elements of arrays/objects are converted with `operator String()`: strings as
they are, everything else through `toString()` -/
def toStr : Nat → Heap → V → Except Err Bytes
  | 0, _, _ => .error .fuel
  | f + 1, h, v =>
    match v with
    | .int i => .ok (intDigits i)
    | .flt d => .ok (fmtG 7 d)
    | .num d => .ok (fmtG 15 d)
    | .bool b => .ok (if b then [116, 114, 117, 101] else [102, 97, 108, 115, 101])
    | .str s => .ok s
    | .sstr s => .ok s
    | .null => .ok [110, 117, 108, 108]
    | .none => .ok [63]
    | .arr id =>
      match getB h id with
      | .error e => .error e
      | .ok b => match mapE b.items (fun kv => toStr f h kv.2) with
        | .error e => .error e
        | .ok parts => .ok ([91] ++ joinBytes [44] parts ++ [93])
    | .obj id =>
      match getB h id with
      | .error e => .error e
      | .ok b => match mapE b.items (fun kv => (toStr f h kv.2).map fun s => kv.1 ++ [61] ++ s) with
        | .error e => .error e
        | .ok parts => .ok ([123] ++ joinBytes [44] parts ++ [125])

/-! ## look-ups that convert: `has`, `operator()(key) const`, `contains` — the source's switch over the type tag -/

/-- `bool has(const String& k) const`: `_type == OBJ ? _o->has(k) : false` -/
def hasV (h : Heap) (v : V) (k : Bytes) : Except Err Bool :=
  match v with
  | .obj id =>
    match getB h id with
    | .error e => .error e
    | .ok b => match Map.has Map.cmpBytes b.items k with
      | some r => .ok r
      | none => .error .oob
  | _ => .ok false

/-- `Var operator()(const String& k) const` and the value `operator[](const String&) const` designates: the property,
or `none` (a missing key, or a Var that is not an object) -/
def getKeyV (h : Heap) (v : V) (k : Bytes) : Except Err V :=
  match v with
  | .obj id =>
    match getB h id with
    | .error e => .error e
    | .ok b => match Map.find Map.cmpBytes b.items k with
      | some r => .ok (r.getD .none)
      | none => .error .oob
  | _ => .ok .none

/-- `bool has(const String& k, Type t) const`: `has(k) && (*this)[k].is(t)` -/
def hasTypeV (h : Heap) (v : V) (k : Bytes) (t : Nat) : Except Err Bool :=
  match v with
  | .obj id =>
    match getB h id with
    | .error e => .error e
    | .ok b => match Map.find Map.cmpBytes b.items k with
      | some (some x) => .ok (isT x t)
      | some none => .ok false
      | none => .error .oob
  | _ => .ok false

/-- `bool contains(const Var& x) const`: `_type == ARRAY ? _a->contains(x) : false` -/
def containsV (f : Nat) (h : Heap) (v x : V) : Except Err Bool :=
  match v with
  | .arr id =>
    match getB h id with
    | .error e => .error e
    | .ok b => containsL f h b.items x
  | _ => .ok false

/-! ## the operations of a history (one C++ statement each), as run by the driver -/

/-- a typed literal: the argument of a typed constructor / assignment / `operator<<` -/
inductive Lit
  | int (i : Int)        -- int
  | uns (u : Nat)        -- unsigned
  | long (i : Int)       -- Long
  | dbl (d : Dy)         -- double
  | flt (d : Dy)         -- float
  | bool (b : Bool)
  | str (s : Bytes)      -- const String& / const char*
  | nlong (i : Int)      -- long (64-bit on LP64)
  | nulong (u : Nat)     -- unsigned long
  | ulong (u : Nat)      -- ULong (unsigned long long): `Var(ULong)` / `operator=(ULong)` (commit c047585), always NUMBER
deriving DecidableEq, Repr, Inhabited

/-- `Var(x)` for a typed literal -/
def Lit.toV : Lit → V
  | .int i => mkInt i
  | .uns u => mkUnsigned u
  | .long i => mkLong i
  | .dbl d => mkDouble d
  | .flt d => mkFloat d
  | .bool b => mkBool b
  | .str s => mkString s
  | .nlong i => mkNativeLong i
  | .nulong u => mkNativeULong u
  | .ulong u => mkULong u

structure Path where
  root : Nat
  steps : List Step
deriving DecidableEq, Repr, Inhabited

inductive Op
  | setLit (p : Path) (l : Lit)          -- `p = x;` typed `operator=` (for `Lit.str`: the String / const char* overload)
  | setType (p : Path) (t : Nat)         -- `p = Var::ARRAY;` i.e. `*this = Var(t)`
  | setV (p q : Path)                    -- `p = q;`
  | app (p q : Path)                     -- `p << q;`
  | appLit (p : Path) (l : Lit)          -- `p << x;` template: `*this << (Var)x`
  | resize (p : Path) (n : Nat)
  | removeAt (p : Path) (i n : Int)       -- `p.removeAt(i, n);` (the call itself checks `i >= 0 && n > 0`)
  | removeKey (p : Path) (k : Bytes)
  | clear (p : Path)
  | extend (p q : Path)                  -- `p.extend(q);`
  | setSub (p : Path) (off : Nat)        -- `p = *p + off;` the const char* assignment from inside the Var's own string
  | setKey (p q : Path) (i : Nat)        -- `p = q.object().kv()[i].key;` the const String& assignment from a property NAME of `q` (e.g. of `p` itself)
  | setCs (p q : Path) (off : Nat)       -- `p = *q + off;` the const char* assignment from the string Var at `q` (e.g. `v = *v[0]`)
  | clone (k : Nat) (q : Path)           -- root k = `new Var(q.clone())`, old root destroyed afterwards
  | copy (k : Nat) (q : Path)            -- root k = `new Var(q)`
  | drop (k : Nat)                       -- root k destroyed, `new Var`
  | ctorLit (k : Nat) (l : Lit)          -- root k = `new Var(x)`
  | ctorType (k : Nat) (t : Nat)         -- root k = `new Var(Var::Type)`
  | ctorKV (k : Nat) (key : Bytes) (q : Path)   -- root k = `new Var(key, q)`
  | ctorArr (k : Nat) (lits : List Lit)         -- root k = `new Var(Array<T>{..})` / `new Var{x1, x2, ..}` (initializer_list<T>)
  | ctorDic (k : Nat) (pairs : List (Bytes × Lit))   -- root k = `new Var(Dic<T>)` built by `d[key] = x` in order
  | ctorVars (k : Nat) (qs : List Path)         -- root k = `new Var(Var::array({q1, q2, ..}))`
deriving DecidableEq, Repr, Inhabited

def slotV (σ : State) (k : Nat) : V := σ.slots.getD k V.none

/-- value denoted by a const path -/
def cget (σ : State) (p : Path) : Except Err V := resolveConst σ.heap (slotV σ p.root) p.steps

/-- the Var denoted by a const path (`none` = the static `Var::none`) -/
def cloc (σ : State) (p : Path) : Except Err (Option Loc) :=
  (resolveConstLoc σ.heap (some (.slot p.root)) (slotV σ p.root) p.steps).map (·.1)

/-- replace root variable `k` by `v` (which already owns its reference) and destroy the old root -/
def replaceSlot (σ : State) (k : Nat) (v : V) : Except Err State :=
  if k < σ.slots.length then
    let old := slotV σ k
    let σ1 : State := { σ with slots := σ.slots.set k v }
    match drop σ1.heap [old] with
    | .error e => .error e
    | .ok h => .ok { σ1 with heap := h }
  else .error .badarg

/-- `*this = Var(t)`: a temporary, copy-assigned, then destroyed -/
def assignType (σ : State) (t : Loc) (ty : Nat) : Except Err State := do
  let (h1, tmp) ← mkType σ.heap ty
  let σ2 ← assignV { σ with heap := h1 } t tmp
  let h3 ← drop σ2.heap [tmp]
  pure { σ2 with heap := h3 }

/-- does any defined property value of `items` reach block `target`? -/
def anyReaches (h : Heap) (target : Nat) (items : List (Bytes × V)) : Except Err Bool :=
  anyE items (fun kv => if kv.2 = V.none then .ok false else reaches (travFuel h) h target kv.2)

/-- `wouldCycle` as a guard: refuse with `cyclic` -/
def cycleGuard (h : Heap) (parent : Option Nat) (src : V) : Except Err Unit :=
  match wouldCycle h parent src with
  | .error e => .error e
  | .ok true => .error .cyclic
  | .ok false => .ok ()

/-- the value read through the source reference once the target path has been evaluated (`none`: the static
`Var::none`).  The failure branch is meant to be unreachable after the `invalidates` guard, but that is NOT PROVED
(second audit): a failing read (uaf / oob) is reported as `srcMoved`, i.e. filed under the known finding.  Suggested
repair: prove `Inv σ [] → cloc σ q = .ok (some l) → resolveMut true (some l) σ (.slot p.root) p.steps = (σ1, .ok t) →
readLoc σ1 l = readLoc σ l` (the block of `l` moves only through `relocate` at a location whose handle is that block,
which is what the guard refuses; items only grow), then return the real error here and restate `assign_spec` with the
value read before the statement. -/
def srcVal (σ : State) (sl : Option Loc) : Except Err V :=
  match sl with
  | none => .ok V.none
  | some l =>
    match readLoc σ l with
    | .ok v => .ok v
    | .error _ => .error .srcMoved

/-- `p = q;` with the source reference `sl` -/
def opSetV (σ : State) (t : Loc) (sl : Option Loc) : Except Err State :=
  match srcVal σ sl with
  | .error e => .error e
  | .ok src =>
    match cycleGuard σ.heap (parentOf t) src with
    | .error e => .error e
    | .ok _ => assignV σ t src

/-- guard of `p << q;` where the Var at `t` holds `v` -/
def appGuard (σ : State) (t : Loc) (sl : Option Loc) (src v : V) : Except Err Unit :=
  match v with
  | .arr id =>
    match reaches (travFuel σ.heap) σ.heap id src with
    | .error e => .error e
    | .ok true => .error .cyclic
    | .ok false => .ok ()
  | .none =>
    -- the new array lives inside the parent
    match cycleGuard σ.heap (parentOf t) src with
    | .error e => .error e
    | .ok _ =>
      -- `v << v` on an undefined v: the argument is a reference to the Var that has just become the array
      if sl = some t then .error .cyclic else .ok ()
  | _ => .ok ()

/-- `p << q;` -/
def opApp (guard : Bool) (σ : State) (t : Loc) (sl : Option Loc) : Except Err State :=
  match srcVal σ sl with
  | .error e => .error e
  | .ok src =>
    match readLoc σ t with
    | .error e => .error e
    | .ok v =>
      match appGuard σ t sl src v with
      | .error e => .error e
      | .ok _ => appendAt guard σ t src

/-- guard of `p.extend(q);` where the Var at `t` holds `v` -/
def extGuard (guard : Bool) (σ : State) (t : Loc) (src v : V) : Except Err Unit :=
  match v, src with
  | .obj id, .obj sid =>
    match getB σ.heap id, getB σ.heap sid with
    | .ok b, .ok sb =>
      match anyReaches σ.heap id sb.items with
      | .error e => .error e
      | .ok true => .error .cyclic
      | .ok false =>
        if guard && decide (b.rc > 1) && decide (b.items.length + extendNewKeys b.items sb.items > b.cap) then
          .error .sharedGrowth
        else .ok ()
    | .error e, _ => .error e
    | _, .error e => .error e
  | .none, .obj sid =>
    match parentOf t with
    | some pid =>
      if pid = sid then .error .cyclic      -- the new object is a property of `src` itself
      else
        match getB σ.heap sid with
        | .error e => .error e
        | .ok sb =>
          match anyReaches σ.heap pid sb.items with   -- the new object lives inside the parent
          | .error e => .error e
          | .ok true => .error .cyclic
          | .ok false => .ok ()
    | none => .ok ()
  | _, _ => .ok ()

/-- `p.extend(q);` -/
def opExtend (guard : Bool) (σ : State) (t : Loc) (sl : Option Loc) : Except Err State :=
  match srcVal σ sl with
  | .error e => .error e
  | .ok src =>
    match readLoc σ t with
    | .error e => .error e
    | .ok v =>
      match extGuard guard σ t src v with
      | .error e => .error e
      | .ok _ => extendV guard σ t src

/-- the statement body once the target `t` is resolved; the guards (`cyclic`, `sharedGrowth`) are decided exactly as
harness/c04.cpp decides them from the public API before it issues the call -/
def opBody (guard : Bool) (σ : State) (t : Loc) (sl : Option Loc) : Op → Except Err State
  | .setLit _ (.str s) => assignString σ t s
  | .setLit _ l => assignScalar σ t l.toV
  | .setType _ ty => assignType σ t ty
  | .setV _ _ => opSetV σ t sl
  | .app _ _ => opApp guard σ t sl
  | .appLit _ l => appendAt guard σ t l.toV
  | .resize _ n => resizeV guard σ t n
  | .removeAt _ i n => if i < 0 ∨ n ≤ 0 then .ok σ else removeAtV σ t i.toNat n.toNat
  | .removeKey _ k => removeKeyV σ t k
  | .clear _ => clearV σ t
  | .extend _ _ => opExtend guard σ t sl
  | .setSub _ off => assignSuffix σ t off
  | .setCs _ _ off => assignCs σ t (srcVal σ sl) off
  | .setKey _ _ i => assignKey σ t (srcVal σ sl) i
  | _ => .error .badarg

/-- root k = `new Var(q.clone())`, then the old root is destroyed -/
def opClone (σ : State) (k : Nat) (q : Path) : Except Err State :=
  match cget σ q with
  | .error e => .error e
  | .ok src =>
    match cloneV (travFuel σ.heap) σ.heap src with
    | .error e => .error e
    | .ok (h1, c) => replaceSlot { σ with heap := h1 } k c

/-- root k = `new Var(q)` -/
def opCopy (σ : State) (k : Nat) (q : Path) : Except Err State :=
  match cget σ q with
  | .error e => .error e
  | .ok src =>
    match copyV σ.heap src with
    | .error e => .error e
    | .ok h1 => replaceSlot { σ with heap := h1 } k src

/-- root k = `new Var(Var::Type)` -/
def opCtorType (σ : State) (k : Nat) (ty : Nat) : Except Err State :=
  match mkType σ.heap ty with
  | .error e => .error e
  | .ok (h1, v) => replaceSlot { σ with heap := h1 } k v

/-- root k = `new Var(key, q)`: `Var(const String& k, const Var& x)`: NEW_DIC; set(k, x) -/
def opCtorKV (σ : State) (k : Nat) (key : Bytes) (q : Path) : Except Err State :=
  match cget σ q with
  | .error e => .error e
  | .ok src =>
    match copyV σ.heap src with
    | .error e => .error e
    | .ok h1 =>
      let (h2, id) := allocB h1 { emptyBlock true with items := [(key, src)] }
      replaceSlot { σ with heap := h2 } k (.obj id)

/-- capacity after `NEW_ARRAY/NEW_DIC` (3) and `resize(n)` / `reserve(n)`: unchanged up to 3, else `max(2*3, n)` -/
def litCap (n : Nat) : Nat := if n ≤ 3 then 3 else max 6 n

/-- a `Dic` filled by `d[key] = x` for each pair in order (a later pair with the same key overwrites) -/
def dicOfPairs : List (Bytes × V) → List (Bytes × V) → Except Err (List (Bytes × V))
  | acc, [] => .ok acc
  | acc, (k, v) :: rest =>
    match Map.set Map.cmpBytes acc k v with
    | none => .error .oob
    | some acc' => dicOfPairs acc' rest

/-- `template<class T> Var(const Array<T>& v)` and `Var(std::initializer_list<T>)`: NEW_ARRAY; resize(n);
`(*_a)[i] = v[i]` (typed assignment into fresh NONE elements) -/
def opCtorArr (σ : State) (k : Nat) (lits : List Lit) : Except Err State :=
  let (h1, id) := allocB σ.heap { isObj := false, items := lits.map (fun l => ([], l.toV)), cap := litCap lits.length, rc := 1 }
  replaceSlot { σ with heap := h1 } k (.arr id)

/-- `template<class T> Var(const Dic<T>& x)`: NEW_DIC; reserve(x.length()); `_o->set(k, v)` for every entry -/
def opCtorDic (σ : State) (k : Nat) (pairs : List (Bytes × Lit)) : Except Err State :=
  match dicOfPairs [] (pairs.map fun kl => (kl.1, kl.2.toV)) with
  | .error e => .error e
  | .ok items =>
    let (h1, id) := allocB σ.heap { isObj := true, items := items, cap := litCap items.length, rc := 1 }
    replaceSlot { σ with heap := h1 } k (.obj id)

/-- copy-construct every value of a list -/
def copyAll : Heap → List V → Except Err Heap
  | h, [] => .ok h
  | h, v :: rest =>
    match copyV h v with
    | .error e => .error e
    | .ok h1 => copyAll h1 rest

/-- `Var::array({q1, q2, ..})` = `Var(Array<Var>(b))`: a new block of `max(n, 3)` with copies of the elements -/
def opCtorVars (σ : State) (k : Nat) (qs : List Path) : Except Err State :=
  match mapE qs (cget σ) with
  | .error e => .error e
  | .ok vals =>
    match copyAll σ.heap vals with
    | .error e => .error e
    | .ok h1 =>
      let (h2, id) := allocB h1 { isObj := false, items := vals.map (fun v => ([], v)), cap := max vals.length 3, rc := 1 }
      replaceSlot { σ with heap := h2 } k (.arr id)

/-- the statements on root variables -/
def rootOp (σ : State) : Op → Except Err State
  | .clone k q => opClone σ k q
  | .copy k q => opCopy σ k q
  | .drop k => replaceSlot σ k V.none
  | .ctorLit k l => replaceSlot σ k l.toV
  | .ctorType k ty => opCtorType σ k ty
  | .ctorKV k key q => opCtorKV σ k key q
  | .ctorArr k lits => opCtorArr σ k lits
  | .ctorDic k pairs => opCtorDic σ k pairs
  | .ctorVars k qs => opCtorVars σ k qs
  | _ => .error .badarg

/-- the mutable path a statement starts with -/
def targetOf : Op → Option Path
  | .setLit p _ => some p
  | .setType p _ => some p
  | .setV p _ => some p
  | .app p _ => some p
  | .appLit p _ => some p
  | .resize p _ => some p
  | .removeAt p _ _ => some p
  | .removeKey p _ => some p
  | .clear p => some p
  | .extend p _ => some p
  | .setSub p _ => some p
  | .setCs p _ _ => some p
  | .setKey p _ _ => some p
  | _ => none

/-- the source operand of a statement (a `const Var&`) -/
def srcOf : Op → Option Path
  | .setV _ q => some q
  | .app _ q => some q
  | .extend _ q => some q
  | .setCs _ q _ => some q
  | .setKey _ q _ => some q
  | _ => none

/-- the Var the source reference designates, evaluated BEFORE the target path (as the C++ does) -/
def srcLoc (σ : State) (op : Op) : Except Err (Option Loc) :=
  match srcOf op with
  | none => .ok none
  | some q => cloc σ q

/-- one statement of a history: source reference, then target path, then the call.  The state is returned also
when the statement is refused: the steps of the target path evaluated before the refusal have taken effect (in the
C++ as well). -/
def applyOp (guard : Bool) (σ : State) (op : Op) : State × Except Err Unit :=
  match targetOf op with
  | some p =>
    if p.root < σ.slots.length then
      match srcLoc σ op with
      | .error e => (σ, .error e)
      | .ok sl =>
        match resolveMut guard sl σ (.slot p.root) p.steps with
        | (σ1, .error e) => (σ1, .error e)
        | (σ1, .ok t) =>
          match opBody guard σ1 t sl op with
          | .ok σ2 => (σ2, .ok ())
          | .error e => (σ1, .error e)
    else (σ, .error .badarg)
  | none =>
    match rootOp σ op with
    | .ok σ1 => (σ1, .ok ())
    | .error e => (σ, .error e)

/-- a whole history from a state -/
def run (guard : Bool) : State → List Op → State
  | σ, [] => σ
  | σ, op :: rest => run guard (applyOp guard σ op).1 rest

/-- `p = Array<T>` / `p = Dic<T>` (`free(); NEW_ARRAY / NEW_DIC; resize / reserve(n); fill`): the target is REBOUND to a fresh
container.  Modelled as the history `tmp = Var(x); p = tmp; tmp = Var()` of the model's own statements, `tmp` a root variable
no statement of the harness can name (same final heap: the fresh block with capacity `litCap n` and count 1 held by the target,
the old content of the target released once). -/
def assignFreshOps (tmp : Nat) (p : Path) (ctor : Op) : List Op := [ctor, .setV p { root := tmp, steps := [] }, .drop tmp]

/-- the state after `assignFreshOps` and the outcome of its assignment statement (the only one that can be refused) -/
def assignFresh (guard : Bool) (σ : State) (tmp : Nat) (p : Path) (ctor : Op) : State × Except Err Unit :=
  let σ1 := (applyOp guard σ ctor).1
  let r := applyOp guard σ1 (.setV p { root := tmp, steps := [] })
  ((applyOp guard r.1 (.drop tmp)).1, r.2)

def initState (nslots : Nat) : State := { heap := [], slots := List.replicate nslots V.none }

end AslModel.Var
