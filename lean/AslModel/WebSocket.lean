import AslModel.Codec
import AslModel.Sha1
import Gen.WsGen
/-!
# C11 — model of `WebSocket::send`, `WebSocket::receive` and the server handshake (src/WebSocket.cpp)

Transcribed from the code (after the repairs 732c352, 71ac374, 7971835, d2a7e85, 4463042, d352fb1, c7d7110, d882f64, 81c34a7, bd7f91d, 10948e4, 3e00d94):

* `Rng` — `Random::getLong/get` (xoshiro256**, src/util.cpp), because the client role draws its mask
  keys from `_random`;
* `sendFrame` — `send()`: header forms `< 126`, `< 1<<16`, else; the mask key written big-endian, then
  `swapBytes(mask)` and the payload XORed *word-wise* over `len/4 + 1` 32-bit words of a buffer whose
  capacity was raised by `resize(+4); resize(-4)`;
* `parseHeader`, `recvLoop` — `receive()`: two header bytes, 16/64-bit lengths (64-bit value read as a
  signed `Long`, rejected when `< 0` or `> 0x7ffffff0`, then cast to `int`), mask, the limit on the
  reassembled message, the payload read in pieces of at most 64 KB into a growing buffer, word-wise unmasking, opcode switch, `fin && (opcode < 8 || !partial)`;
* `serverResponse` — `WebSocketServer::process`: accept key = base64(SHA-1(key ‖ GUID)).

The socket is a byte list followed by end-of-stream (the harness writes the whole stream and shuts the
peer's sending side down); a blocking read of `n` bytes returns them or sets the socket error.
Memory is explicit where the code relies on slack capacity: `xorWords` works on a buffer of
`capacity` bytes and returns `none` if it would touch a byte outside it.
The numeric constants, the GUID and the handshake texts come from `Gen/WsGen.lean`, which is regenerated
from the source on every run.  Core Lean only.
-/
namespace AslModel.WebSocket
open Gen.Ws

/-! ## `Random` (xoshiro256**) -/

structure Rng where
  s0 : UInt64
  s1 : UInt64
  s2 : UInt64
  s3 : UInt64
deriving Repr, DecidableEq, Inhabited

def rotl (x : UInt64) (k : UInt64) : UInt64 := (x <<< k) ||| (x >>> (64 - k))

/-- `Random::getLong()` -/
def Rng.getLong (r : Rng) : UInt64 × Rng :=
  let result := rotl (r.s1 * 5) 7 * 9
  let t := r.s1 <<< 17
  let s2 := r.s2 ^^^ r.s0
  let s3 := r.s3 ^^^ r.s1
  let s1 := r.s1 ^^^ s2
  let s0 := r.s0 ^^^ s3
  let s2 := s2 ^^^ t
  let s3 := rotl s3 45
  (result, ⟨s0, s1, s2, s3⟩)

/-- `Random::get()`: `unsigned(getLong() >> 32)` -/
def Rng.get (r : Rng) : Nat × Rng :=
  let (x, r') := r.getLong
  ((x >>> 32).toNat, r')

/-! ## integers on the wire (`StreamBuffer`/`Socket` in `ENDIAN_BIG`) -/

def byte (n : Nat) : UInt8 := UInt8.ofNat (n % 256)

def be16 (n : Nat) : List UInt8 := [byte (n >>> 8), byte n]
def be32 (n : Nat) : List UInt8 := [byte (n >>> 24), byte (n >>> 16), byte (n >>> 8), byte n]
def be64 (n : Nat) : List UInt8 :=
  [byte (n >>> 56), byte (n >>> 48), byte (n >>> 40), byte (n >>> 32),
   byte (n >>> 24), byte (n >>> 16), byte (n >>> 8), byte n]

/-- big-endian value of a byte list -/
def beVal : List UInt8 → Nat
  | [] => 0
  | b :: t => b.toNat * 256 ^ t.length + beVal t

/-! ## word-wise masking on a little-endian host -/

/-- `swapBytes(unsigned)` -/
def swap32 (m : Nat) : Nat :=
  ((m &&& 0xff) <<< 24) ||| (((m >>> 8) &&& 0xff) <<< 16) ||| (((m >>> 16) &&& 0xff) <<< 8) ||| ((m >>> 24) &&& 0xff)

/-- the `unsigned` stored at four consecutive bytes (little-endian host) -/
def leWord (a b c d : UInt8) : Nat :=
  a.toNat ||| (b.toNat <<< 8) ||| (c.toNat <<< 16) ||| (d.toNat <<< 24)

/-- the four bytes of an `unsigned` in memory (little-endian host), pushed on a reversed accumulator -/
def pushWord (w : Nat) (acc : List UInt8) : List UInt8 :=
  byte (w >>> 24) :: byte (w >>> 16) :: byte (w >>> 8) :: byte w :: acc

/-- `for (i = 0; i < n; i++) ((unsigned*)p)[i] ^= mask;` over a block of memory `mem`
    (everything the array owns: elements + slack capacity).  `none` = a word outside the block.
    `acc` holds the words already processed, reversed (tail recursion: messages reach 4 MiB). -/
def xorWordsAux (mask : Nat) : Nat → List UInt8 → List UInt8 → Option (List UInt8)
  | 0, mem, acc => some (acc.reverseAux mem)
  | n + 1, a :: b :: c :: d :: t, acc => xorWordsAux mask n t (pushWord (leWord a b c d ^^^ mask) acc)
  | _ + 1, _, _ => none

def xorWords (mask n : Nat) (mem : List UInt8) : Option (List UInt8) := xorWordsAux mask n mem []

/-- the masking block of `send()`/`receive()`:
    `swapBytes(mask); data.resize(len + 4); data.resize(len); n = len / 4 + 1; for … ^= mask`.
    After the two `resize` calls the array owns at least `len + maskPad` bytes; the slack holds
    arbitrary bytes `slack` (they are XORed too and never looked at again). -/
def maskBuffer (mask : Nat) (data slack : List UInt8) : Option (List UInt8) :=
  let m := swap32 mask
  let mem := data ++ slack.take maskPad
  let n := data.length / maskDiv + maskExtra
  (xorWords m n mem).map (·.take data.length)

def zeroSlack : List UInt8 := [0, 0, 0, 0]

/-! ## `send()` -/

/-- `opcode = (type == FRAME_TEXT) ? 1 : (type == FRAME_BINARY) ? 2 : (type == FRAME_PONG) ? 10 :
    (type == FRAME_PING) ? 9 : 8` with `FRAME_CONT = 0, TEXT = 1, BINARY = 2, CLOSE = 8, PING = 9, PONG = 10` -/
def opcodeOf (type : Nat) : Nat :=
  match opcodeTable.find? (·.1 == type) with
  | some e => e.2
  | none => opcodeDefault

/-- first bytes of a frame written by `send`: `b0`, then the length in one of three forms -/
def sendHeader (isClient : Bool) (opcode len : Nat) : List UInt8 :=
  let b0 := finBit ||| opcode
  let masked := if isClient then maskBit else 0
  if len < sendSmall then [byte b0, byte (masked ||| len)]
  else if len < sendMedium then [byte b0, byte (masked ||| sendCode16)] ++ be16 len
  else [byte b0, byte (masked ||| sendCode64)] ++ be64 len

/-- bytes written by `send(p, length, type)` on an open socket, and the generator afterwards.
    `none` = the masking loop left its buffer (never: `C11.send_in_bounds`). -/
def sendFrame (isClient : Bool) (rng : Rng) (type : Nat) (p : List UInt8) : Option (List UInt8 × Rng) :=
  if p.length = 0 then some ([], rng)            -- `if (length <= 0 || _closed) return;`
  else
    let hdr := sendHeader isClient (opcodeOf type) p.length
    if isClient then
      let (mask, rng') := rng.get
      let hdr := hdr ++ be32 mask
      if mask ≠ 0 then
        (maskBuffer mask p zeroSlack).map fun d => (hdr ++ d, rng')
      else some (hdr ++ p, rng')
    else some (hdr ++ p, rng)

/-! ## `receive()` -/

/-- outcome of reading one frame header from the stream -/
inductive Hdr where
  /-- the stream ended inside the header (socket error) or the 64-bit length is rejected: close -/
  | close
  /-- `fin opcode masked len mask rest` -/
  | ok (fin : Bool) (opcode : Nat) (masked : Bool) (len : Int) (mask : Nat) (rest : List UInt8)
deriving Repr, DecidableEq

/-- C conversion of the low 32 bits to `int` -/
def toInt32 (n : Nat) : Int :=
  let m : Nat := n % 2 ^ 32
  if m < 2 ^ 31 then Int.ofNat m else Int.ofNat m - 2 ^ 32

/-- the header part of `receive()` after `b0` and `mlen` were read and the connection is still up:
    extended length, mask, then the `_socket.error()` test.  A read of `k` bytes with fewer than `k`
    left sets the socket error (whatever garbage the variables hold is then never used). -/
def parseExt (b0 mlen : UInt8) (inp : List UInt8) : Hdr :=
  let fin := b0.toNat &&& recvFinBit != 0
  let opcode := b0.toNat &&& opMask
  let masked := mlen.toNat &&& recvMaskBit != 0
  let len7 := mlen.toNat &&& lenMask
  -- extended length
  let ext : Option (Int × List UInt8) :=
    if len7 = recvCode16 then
      if inp.length < 2 then none else some ((beVal (inp.take 2) : Int), inp.drop 2)
    else if len7 = recvCode64 then
      if inp.length < 8 then none
      else
        let v := beVal (inp.take 8)
        -- `Long len64`: negative iff bit 63 is set
        if v ≥ 2 ^ 63 ∨ v > recvMaxLen then none else some (toInt32 v, inp.drop 8)
    else some ((len7 : Int), inp)
  match ext with
  | none => .close
  | some (len, inp) =>
    if masked then
      if inp.length < 4 then .close else .ok fin opcode true len (beVal (inp.take 4)) (inp.drop 4)
    else .ok fin opcode false len 0 inp

/-- connection state seen by `receive()` -/
structure Conn where
  isClient : Bool
  rng : Rng
  /-- bytes not yet read; end-of-stream follows -/
  inp : List UInt8
  closed : Bool := false
  code : Nat := 1000
  /-- bytes written to the peer (pong frames) -/
  out : List UInt8 := []
  /-- a masking loop left its buffer (never: `C11.receive_in_bounds`) -/
  fault : Bool := false
deriving Repr

/-- `closed()`: `_closed`, or the socket is disconnected — with the whole stream written before the
    peer's shutdown that is "no byte left" -/
def Conn.isClosed (c : Conn) : Bool := c.closed || c.inp.isEmpty

/-- one frame as `receive()` reads it, once `closed()` was false at the top of the loop -/
inductive Frame where
  /-- end of stream inside the frame, or a rejected length: the connection is closed -/
  | close
  /-- a masking loop left its buffer (never: `C11.receive_in_bounds`) -/
  | fault
  /-- `fin opcode buffer rest`: the unmasked payload and the bytes after the frame -/
  | ok (fin : Bool) (opcode : Nat) (buffer : List UInt8) (rest : List UInt8)
deriving Repr, DecidableEq

/-- The payload loop `for (got = 0; got < len;) { step = got < recvChunk ? recvChunk : got; chunk = min(len - got, step);
    buffer.resize(got + chunk); if (read(buffer + got, chunk) != chunk) close; got += chunk; }` with `avail` bytes left before the end of
    the stream.  Returns whether all `len` bytes arrived and the largest length ever passed to `resize`
    (the memory the frame made the library ask for).  The socket delivers the bytes in order, so on
    success the buffer is the next `len` bytes of the stream.  `fuel` = `len + 1` is never exhausted
    (`C11.allocation_bounded_by_received`, `AslProofs.WebSocket.readPayload_spec`). -/
def readPayload : Nat → Nat → Nat → Nat → Nat → Bool × Nat
  | 0, _, _, _, peak => (false, peak)
  | fuel + 1, len, got, avail, peak =>
    if got < len then
      let step := if got < recvChunk then recvChunk else got
      let chunk := if len - got < step then len - got else step
      let peak := max peak (got + chunk)
      if avail < got + chunk then (false, peak)
      else readPayload fuel len (got + chunk) avail peak
    else (true, peak)

/-- `_socket >> b0 >> mlen; if (closed()) return …;` header, message-size check, payload, unmasking.
    `msgLen` = length of the fragments already accumulated in `msg`. -/
def readFrame (msgLen : Nat) (inp : List UInt8) : Frame :=
  match inp with
  | [] => .close
  | [_] => .close                       -- `mlen` not read: socket error
  | b0 :: mlen :: rest =>
    match parseExt b0 mlen rest with
    | .close => .close
    | .ok fin opcode masked len mask rest =>
      let n := len.toNat
      -- `opcode < 3 && len > 0x7ffffff0 - msg.length()`: the reassembled message would not fit an array
      if opcode < recvDataOps ∧ len > (recvMaxMsg : Int) - (msgLen : Int) then .close
      else if (readPayload (n + 1) n 0 rest.length 0).1 = false then .close    -- the stream ends inside the payload
      else
        let payload := rest.take n
        match (if masked then maskBuffer mask payload zeroSlack else some payload) with
        | none => .fault
        | some buffer => .ok fin opcode buffer (rest.drop n)

/-- the `while (!haveMsg)` loop of `receive()`; `fuel` bounds the number of frames (each consumes at
    least two bytes).  Returns the message and the connection. -/
def recvLoop : Nat → Conn → List UInt8 → Bool → List UInt8 × Conn
  | 0, c, msg, _ => (msg, c)
  | fuel + 1, c, msg, partialMsg =>
    -- every path that gives up on the connection returns an empty message (`WebSocketMsg().fix()`):
    -- nothing is delivered of a message whose final frame has not arrived
    if c.isClosed then ([], { c with closed := true })
    else match readFrame msg.length c.inp with
    | .close => ([], { c with closed := true, inp := [] })
    | .fault => ([], { c with closed := true, fault := true })
    | .ok fin opcode buffer rest =>
      let c := { c with inp := rest }
      if opcode ≤ 2 then
        -- continuation, text, binary: `msg.append(buffer); partial = !fin;`
        if fin then (msg ++ buffer, c) else recvLoop fuel c (msg ++ buffer) true
      else if opcode = 8 then
        -- close: the status code and the reason text; whatever had been accumulated is dropped
        if buffer.length ≥ 2 then
          let code := (buffer.getD 0 0).toNat <<< 8 ||| (buffer.getD 1 0).toNat
          (buffer.drop 2, { c with closed := true, code := code })
        else ([], { c with closed := true })
      else if opcode = 9 || opcode = 10 then
        let c := if opcode = 9 then
            match sendFrame c.isClient c.rng 10 buffer with
            | some (bytes, rng) => { c with out := c.out ++ bytes, rng := rng }
            | none => { c with fault := true }
          else c
        -- `if (fin && (opcode < 8 || !partial)) haveMsg = true;`
        if fin && (opcode < 8 || !partialMsg) then (msg, c) else recvLoop fuel c msg partialMsg
      else
        -- `default:` reserved opcode: the connection is failed, nothing is delivered
        ([], { c with closed := true })

/-- `receive()` -/
def receive (c : Conn) : List UInt8 × Conn := recvLoop (c.inp.length + 1) c [] false

/-- the reading side of an application: `while (!ws.closed()) got << ws.receive();` -/
def receiveAll : Nat → Conn → List (List UInt8) → List (List UInt8) × Conn
  | 0, c, acc => (acc.reverse, c)
  | fuel + 1, c, acc =>
    if c.isClosed then (acc.reverse, { c with closed := true })
    else
      let (m, c') := receive c
      receiveAll fuel c' (m :: acc)

def run (c : Conn) : List (List UInt8) × Conn := receiveAll (c.inp.length + 1) c []

/-- the frames a sender writes for `send(p, len, type)` called once per element -/
def sendAll (isClient : Bool) : Rng → List (Nat × List UInt8) → List UInt8 → Option (List UInt8)
  | _, [], acc => some acc
  | rng, (t, p) :: rest, acc =>
    match sendFrame isClient rng t p with
    | some (bytes, rng') => sendAll isClient rng' rest (acc ++ bytes)
    | none => none

/-! ## server handshake -/

/-- `SHA1::hash(key + GUID)` then `encodeBase64` -/
def acceptKey (key : List UInt8) : List UInt8 :=
  Codec.encodeBase64 (Sha1.Impl.hash (key ++ guid))

/-! ### `WebSocketServer::serve(Socket)`: request line, header lines, `process` -/

/-- `myisspace` -/
def isSp (c : UInt8) : Bool := c == 32 || c == 10 || c == 13 || c == 9

/-- `String::trim` / `trimmed` -/
def trimB (s : List UInt8) : List UInt8 := ((s.dropWhile isSp).reverse.dropWhile isSp).reverse

/-- `Socket::readLine()`: the bytes before the next `\n` (a `\r` stays), the rest of the stream after it;
    at the end of the stream whatever is left, then empty lines -/
def readLine (inp : List UInt8) : List UInt8 × List UInt8 :=
  (inp.takeWhile (· != 10), (inp.dropWhile (· != 10)).drop 1)

def isAlnum (c : UInt8) : Bool := (48 ≤ c && c ≤ 57) || (65 ≤ c && c ≤ 90) || (97 ≤ c && c ≤ 122)
def toUpperB (c : UInt8) : UInt8 := if 97 ≤ c ∧ c ≤ 122 then c - 32 else c
def toLowerB (c : UInt8) : UInt8 := if 65 ≤ c ∧ c ≤ 90 then c + 32 else c

/-- `cname`: upper case at the start and after every non-alphanumeric byte, lower case elsewhere -/
def capName : Bool → List UInt8 → List UInt8
  | _, [] => []
  | cap, c :: t => (if cap then toUpperB c else toLowerB c) :: capName (!isAlnum c) t

/-- one header line: `line = line.trim(); c = indexOf(':'); name = substring(0, c);`
    `value = line.substring(c + 1).trimmed()` (the repaired form: the space after the colon is optional) -/
def headerField (line : List UInt8) : Option (List UInt8 × List UInt8) :=
  let l := trimB line
  let name := l.takeWhile (· != 58)
  if name.length = l.length then none            -- no colon
  else some (capName true name, trimB (l.drop (name.length + 1)))

abbrev Headers := List (List UInt8 × List UInt8)

/-- `headers[name] = value` (a later line replaces an earlier one) -/
def setHeader (h : Headers) (k v : List UInt8) : Headers := (k, v) :: h.filter (·.1 != k)
def getHeader (h : Headers) (k : List UInt8) : List UInt8 := ((h.find? (·.1 == k)).map (·.2)).getD []
def hasHeader (h : Headers) (k : List UInt8) : Bool := (h.find? (·.1 == k)).isSome

/-- `String::split(", ")` -/
def splitCommaSp : List UInt8 → List UInt8 → List (List UInt8)
  | cur, [] => [cur.reverse]
  | cur, [x] => [(x :: cur).reverse]
  | cur, x :: y :: t => if x == 44 && y == 32 then cur.reverse :: splitCommaSp [] t else splitCommaSp (x :: cur) (y :: t)

/-- the header loop `while (line = readLine(), line != "\r")`; `none` = a line without colon (or the
    end of the stream): the connection is closed without an answer -/
def readHeaders : Nat → List UInt8 → Headers → Option Headers
  | 0, _, _ => none
  | fuel + 1, inp, h =>
    let (line, rest) := readLine inp
    if line == [13] then some h
    else match headerField line with
      | none => none
      | some (k, v) => readHeaders fuel rest (setHeader h k v)

def strUpgrade : List UInt8 := [85, 112, 103, 114, 97, 100, 101]                       -- "Upgrade"
def strWebsocket : List UInt8 := [119, 101, 98, 115, 111, 99, 107, 101, 116]           -- "websocket"
def strConnection : List UInt8 := [67, 111, 110, 110, 101, 99, 116, 105, 111, 110]     -- "Connection"
def strKey : List UInt8 := [83, 101, 99, 45, 87, 101, 98, 115, 111, 99, 107, 101, 116, 45, 75, 101, 121]   -- "Sec-Websocket-Key"
def strProtocol : List UInt8 :=
  [83, 101, 99, 45, 87, 101, 98, 115, 111, 99, 107, 101, 116, 45, 80, 114, 111, 116, 111, 99, 111, 108]   -- "Sec-Websocket-Protocol"

/-- everything `WebSocketServer::serve(Socket)` writes for the request bytes `req` (then end of stream) -/
def serverHandshake (req : List UInt8) : List UInt8 :=
  let (head, rest) := readLine req
  -- method and resource: two spaces are needed in the request line
  let afterSp := (head.dropWhile (· != 32)).drop 1
  if (head.takeWhile (· != 32)).length = head.length then []
  else if (afterSp.takeWhile (· != 32)).length = afterSp.length then []
  else match readHeaders (req.length + 2) rest [] with
    | none => []
    | some h =>
      if !hasHeader h strUpgrade || getHeader h strUpgrade != strWebsocket ||
          !(splitCommaSp [] (getHeader h strConnection)).contains strUpgrade then response400
      else responseHead ++ acceptKey (getHeader h strKey) ++ [13, 10] ++
          (if hasHeader h strProtocol then responseProtocol else []) ++ [13, 10]

/-- what `WebSocketServer::process` writes for a request with `Upgrade: websocket`,
    `Connection: Upgrade` and the given `Sec-WebSocket-Key` -/
def serverResponse (key : List UInt8) (hasProtocol : Bool) : List UInt8 :=
  responseHead ++ acceptKey key ++ [13, 10] ++ (if hasProtocol then responseProtocol else []) ++ [13, 10]

/-! ## client handshake (`WebSocket::connect`) -/

/-- `(byte)_random(255)`: `Random::operator()(int m)` is `(int)(double(m + 1) * 2^-53 * (getLong() >> 11))`; with
    `m = 255` the product is `(getLong() >> 11) * 2^-45` exactly (a 53-bit integer scaled by a power of two), so the
    truncation to `int` is `getLong() >> 56` -/
def Rng.keyByte (r : Rng) : UInt8 × Rng :=
  let (x, r') := r.getLong
  ((x >>> 56).toUInt8, r')

/-- `for (i = 0; i < 16; i++) key[i] = (byte)_random(255);` -/
def clientNonce : Nat → Rng → List UInt8 × Rng
  | 0, r => ([], r)
  | n + 1, r =>
    let (b, r') := r.keyByte
    let (t, r'') := clientNonce n r'
    (b :: t, r'')

/-- `key64 = encodeBase64(key, 16)` -/
def clientKey (r : Rng) : List UInt8 × Rng :=
  let (k, r') := clientNonce nonceLen r
  (Codec.encodeBase64 k, r')

/-- the request `connect` writes: the format of the source (`Gen.Ws.req*`, regenerated) filled with
    `url.path`, `url.host`, `url.port` (decimal) and the key -/
def clientRequest (path host port key64 : List UInt8) : List UInt8 :=
  reqGet ++ path ++ reqHost ++ host ++ reqColon ++ port ++ reqKey ++ key64 ++ reqTail

/-- one header line as `connect` reads it: like the server's, but the name is kept as written -/
def headerFieldRaw (line : List UInt8) : Option (List UInt8 × List UInt8) :=
  let l := trimB line
  let name := l.takeWhile (· != 58)
  if name.length = l.length then none            -- no colon
  else some (name, trimB (l.drop (name.length + 1)))

/-- the header loop of `connect`: `while (line = readLine(), line != "\r")`; `none` = a line without a colon
    (the end of the stream reads as an empty line): `close(); return false` -/
def readHeadersRaw : Nat → List UInt8 → Headers → Option Headers
  | 0, _, _ => none
  | fuel + 1, inp, h =>
    let (line, rest) := readLine inp
    if line == [13] then some h
    else match headerFieldRaw line with
      | none => none
      | some (k, v) => readHeadersRaw fuel rest (setHeader h k v)

def str101 : List UInt8 := [49, 48, 49]

/-- what `connect` returns for the bytes `resp` the peer answers (then end of stream).  The status line needs two
    spaces and the status `101`; then `Upgrade: websocket` and `Connection` listing `Upgrade` (names exactly so).
    `Sec-WebSocket-Accept` is not looked at (outside_findings C11-r3-2b). -/
def clientAccepts (resp : List UInt8) : Bool :=
  let (head, rest) := readLine resp
  let afterSp := (head.dropWhile (· != 32)).drop 1
  if (head.takeWhile (· != 32)).length = head.length then false
  else if (afterSp.takeWhile (· != 32)).length = afterSp.length then false
  else if afterSp.takeWhile (· != 32) != str101 then false
  else match readHeadersRaw (resp.length + 2) rest [] with
    | none => false
    | some h => getHeader h strUpgrade == strWebsocket && (splitCommaSp [] (getHeader h strConnection)).contains strUpgrade

/-- `connect` against a peer that answers `resp`: the request written and the result -/
def clientConnect (rng : Rng) (path host port resp : List UInt8) : List UInt8 × Bool :=
  (clientRequest path host port (clientKey rng).1, clientAccepts resp)

end AslModel.WebSocket
