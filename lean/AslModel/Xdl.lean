import Gen.XdlGen
/-!
# Executable model of `XdlParser` (src/Xdl.cpp) — the JSON/XDL decoder of C06 (and C05)

Transcription of `XdlParser::parse` (the comment pre-filter, the 21-state switch, the one-character
push-back `s--`, `ERR` by `return` vs. by `break`), `value_end`, `put`, `begin_/end_array/object`,
`new_property`, `value()` and `decode()`.

Representation choices (not behaviour):
* stacks are lists with the **top at the head**; `none` = the code would call `top()`/`pop()` on an
  empty `Stack` or index a `String` beyond its terminator (memory error);
* the token buffer `_buffer` is stored **reversed** (`buffer`, head = last byte appended; `buf p` is the
  text), an open array on `_lists` keeps its items reversed (`Open.arr`), so that appending is O(1);
* a number handed to `atof` is kept as its lexeme (`JV.num lex`); the driver prints
  `AslModel.Strtod.atofBits lex` (assumption: glibc `atof` is correctly rounded, C locale so `_ldp = '.'`);
* `wchar_t` is a 32-bit signed integer (Linux); `strtoul(.,NULL,16)` on the 4-byte accumulator is
  `strtoul16`.
Core Lean only (plus the generated constants of `Gen.XdlGen`, read from src/Xdl.cpp on every run).
-/
namespace AslModel.Xdl

abbrev Bytes := List UInt8

/-- decoded values (`Var` restricted to what the parser can build) -/
inductive JV where
  | null
  | bool (b : Bool)
  | int (i : Int)
  | num (lex : Bytes)
  | str (s : Bytes)
  | arr (l : List JV)
  | obj (l : List (Bytes × JV))
deriving Repr, Inhabited

inductive St where
  | NUMBER | INT | STRING | PROPERTY | IDENTIFIER
  | NUMBER_E | NUMBER_ES | NUMBER_EV | NUMBER_DOT | MINUS | WAIT_SEP
  | WAIT_EQUAL | WAIT_VALUE | WAIT_PROPERTY | WAIT_OBJ | QPROPERTY | ESCAPE | ERR | UNICODECHAR
  | WAIT_COMMA_OR_PROPERTY | WAIT_COMMA_OR_VALUE
deriving DecidableEq, Repr, Inhabited

inductive Ctx where
  | ROOT | ARRAY | OBJECT | COMMENT1 | COMMENT | LINECOMMENT | ENDCOMMENT
deriving DecidableEq, Repr, Inhabited

/-- an open container on `_lists` (array items reversed; object = association list, keys unique) -/
inductive Open where
  | arr (rev : List JV)
  | obj (ms : List (Bytes × JV))
deriving Repr, Inhabited

structure PState where
  state : St
  prev : St
  ctx : List Ctx
  lists : List Open
  props : List Bytes
  buffer : Bytes
  inComment : Bool
  ucount : Nat
  ubuf : Bytes
  wchar : Int
deriving Repr, Inhabited

/-- `XdlParser::XdlParser()` -/
def init : PState :=
  { state := .WAIT_VALUE, prev := .WAIT_VALUE, ctx := [.ROOT], lists := [.arr []], props := [],
    buffer := [], inComment := false, ucount := 0, ubuf := [0, 0, 0, 0], wchar := 0 }

/-- the text of the token buffer -/
def buf (p : PState) : Bytes := p.buffer.reverse

/-! ## character classes (include/asl/defs.h) -/

def isDigit (c : UInt8) : Bool := 48 ≤ c && c ≤ 57
/-- `myisspace` -/
def isSpace (c : UInt8) : Bool := c = 32 || c = 10 || c = 13 || c = 9
/-- `myisalnum` (`char` is signed: bytes ≥ 0x80 are negative and fail every range test) -/
def isAlnum (c : UInt8) : Bool := (65 ≤ c && c ≤ 90) || (97 ≤ c && c ≤ 122) || (48 ≤ c && c ≤ 57)

/-! ## `Var` object assignment `top[key] = x`
(a finite map; the position an entry takes in the association list is not observable) -/

def objSet : List (Bytes × JV) → Bytes → JV → List (Bytes × JV)
  | [], k, x => [(k, x)]
  | (k', y) :: t, k, x => if k' = k then (k, x) :: t else (k', y) :: objSet t k x

/-- `$type` (ASL_XDLCLASS) -/
def classKey : Bytes := [36, 116, 121, 112, 101]

/-! ## libc / String.cpp helpers -/

/-- `myatoiz` on the digits the INT state collects (≤ 9 characters, so no `int` overflow) -/
def myatoiz (s : Bytes) : Int :=
  let go (t : Bytes) : Int := t.foldl (fun y c => 10 * y + ((c.toNat : Int) - 48)) 0
  match s with
  | 45 :: t => -(go t)
  | 43 :: t => go t
  | _ => go s

/-- C-locale `isspace` -/
def isCSpace (c : UInt8) : Bool := c = 32 || (9 ≤ c && c ≤ 13)

def hexVal (c : UInt8) : Option Nat :=
  if 48 ≤ c ∧ c ≤ 57 then some (c.toNat - 48)
  else if 97 ≤ c ∧ c ≤ 102 then some (c.toNat - 87)
  else if 65 ≤ c ∧ c ≤ 70 then some (c.toNat - 55)
  else none

def hexPrefixVal : Bytes → Nat → Nat
  | [], acc => acc
  | c :: t, acc => match hexVal c with
    | some v => hexPrefixVal t (acc * 16 + v)
    | none => acc

/-- optional sign of `strtoul` -/
def splitSign (s : Bytes) : Bool × Bytes :=
  match s with
  | 45 :: t => (true, t)
  | 43 :: t => (false, t)
  | _ => (false, s)

/-- optional `0x` / `0X` prefix of `strtoul(.,.,16)` -/
def strip0x (s : Bytes) : Bytes :=
  match s with
  | 48 :: x :: t => if x = 120 ∨ x = 88 then t else s
  | _ => s

/-- `strtoul(s, NULL, 16)` for a short NUL-free string: optional white space, sign, `0x`, hex digits;
    result as an `unsigned long` (64 bit) -/
def strtoul16 (s : Bytes) : Nat :=
  let r := splitSign (s.dropWhile isCSpace)
  let v := hexPrefixVal (strip0x r.2) 0
  if r.1 then (2 ^ 64 - v) % 2 ^ 64 else v

/-- `(wchar_t)` of an `unsigned long` where `wchar_t` is a signed 32-bit integer -/
def toWchar (v : Nat) : Int :=
  let r : Nat := v % 2 ^ 32
  if r ≥ 2 ^ 31 then (r : Int) - 2 ^ 32 else (r : Int)

/-- low 8 bits, as the `char` stores do -/
def lowByte (x : Int) : UInt8 := UInt8.ofNat (x % 256).toNat

/-- `utf16toUtf8(p, u, n)` of src/String.cpp on a zero-terminated `wchar_t` array given without its
    terminator; returns the bytes written before the final `'\0'` -/
def utf16toUtf8 : List Int → Nat → Bytes
  | [], _ => []
  | c :: rest, n =>
    if c = 0 then []
    else if c < 0x80 then
      lowByte c :: (if n - 1 = 0 then [] else utf16toUtf8 rest (n - 1))
    else if c < 0x800 then
      [lowByte (c / 64 + 0xC0), lowByte (c % 64 + 0x80)]
        ++ (if n - 1 = 0 then [] else utf16toUtf8 rest (n - 1))
    else if c < 0xd800 ∨ c > 0xdfff then
      [lowByte (Int.ofNat (c.toNat >>> 12 ||| 0xE0)), lowByte (Int.ofNat ((c.toNat >>> 6 &&& 0x3F) ||| 0x80)),
       lowByte (Int.ofNat ((c.toNat &&& 0x3F) ||| 0x80))]
        ++ (if n - 1 = 0 then [] else utf16toUtf8 rest (n - 1))
    else if c < 0xdc00 then
      match rest with
      | [] => []
      | c2 :: rest2 =>
        if c2 < 0xdc00 ∨ c2 > 0xdfff then []
        else
          let d : Nat := ((((c.toNat - 0xd800) <<< 10) ||| (c2.toNat - 0xdc00)) + 0x10000) % 2 ^ 32
          [lowByte (Int.ofNat (d >>> 18 ||| 0xF0)), lowByte (Int.ofNat ((d >>> 12 &&& 0x3F) ||| 0x80)),
           lowByte (Int.ofNat ((d >>> 6 &&& 0x3F) ||| 0x80)), lowByte (Int.ofNat ((d &&& 0x3F) ||| 0x80))]
            ++ (if n - 1 = 0 then [] else utf16toUtf8 rest2 (n - 1))
    else []

/-- a C string read from a buffer: the bytes before the first NUL -/
def cstr (b : Bytes) : Bytes := b.takeWhile (· ≠ 0)

/-- `String::operator[](i)`: valid up to and including the terminator -/
def cAt (s : Bytes) (i : Nat) : Option UInt8 :=
  if i < s.length then s[i]? else if i = s.length then some 0 else none

/-! ## parser callbacks -/

/-- `XdlParser::put` -/
def put (p : PState) (x : JV) : Option PState :=
  match p.lists with
  | [] => none
  | .arr rev :: rest => some { p with lists := .arr (x :: rev) :: rest }
  | .obj ms :: rest =>
    match p.props with
    | [] => none
    | k :: ps => some { p with lists := .obj (objSet ms k x) :: rest, props := ps }

/-- `value_end()` -/
def valueEnd (p : PState) : Option PState :=
  match p.ctx with
  | [] => none
  | t :: _ => some { p with state := if t = .ROOT then .WAIT_VALUE else .WAIT_SEP, buffer := [] }

def closed : Open → JV
  | .arr rev => .arr rev.reverse
  | .obj ms => .obj ms

/-- `end_array()` / `end_object()`: `Var v = _lists.top(); _lists.pop(); put(v);` -/
def endContainer (p : PState) : Option PState :=
  match p.lists with
  | [] => none
  | v :: rest => put { p with lists := rest } (closed v)

/-- `begin_object(_class)` -/
def beginObject (p : PState) (cls : Bytes) : PState :=
  { p with lists := .obj (if cls = [] then [] else [(classKey, .str cls)]) :: p.lists }

/-- `_context.pop(); value_end(); end_array()/end_object();` -/
def closeContainer (p : PState) : Option PState :=
  match p.ctx with
  | [] => none
  | _ :: rest => do
    let p1 ← valueEnd { p with ctx := rest }
    endContainer p1

/-- what the loop does after the switch: read the next byte, re-read this one (`s--`), or `return` -/
inductive Flag where
  | next | again | ret
deriving DecidableEq, Repr

abbrev Res := Option (Flag × PState)

def next (p : PState) : Res := some (.next, p)
def errRet (p : PState) : Res := some (.ret, { p with state := .ERR })
def errBrk (p : PState) : Res := some (.next, { p with state := .ERR })

def push (p : PState) (c : UInt8) : PState := { p with buffer := c :: p.buffer }

/-- scalar completed: `new_xxx(v); value_end();` -/
def scalar (p : PState) (v : JV) : Option PState := do
  let p1 ← put p v
  valueEnd p1

/-- the "starting zero" check of state INT on the token `b` (`none` = index past the terminator) -/
def leadingZeroBad (b : Bytes) : Option Bool := do
  let b0 ← cAt b 0
  if b0 = 45 then do
    let b1 ← cAt b 1
    if b1 = 48 then do
      let b2 ← cAt b 2
      pure (decide (b2 ≠ 0))
    else pure false
  else if b0 = 48 then do
    let b1 ← cAt b 1
    pure (decide (b1 ≠ 0))
  else pure false

/-- end of a number in state INT (the "starting zero" check, the int/double split at `Gen.Xdl.intSplit` characters —
    the `N` of `if (_buffer.length() > N)` in the source, 9) -/
def intEnd (p : PState) : Res :=
  let b := buf p
  if b ≠ [45] then
    (leadingZeroBad b).bind fun bad =>
      if bad then errRet p
      else (scalar p (if b.length > Gen.Xdl.intSplit then .num b else .int (myatoiz b))).bind fun p1 => some (.again, p1)
  else errRet p

/-- end of a number with fraction or exponent: `new_number(atof(_buffer)); value_end(); s--;` -/
def numEnd (p : PState) : Res := do
  let p1 ← scalar p (.num (buf p))
  some (.again, p1)

/-- `XDL_MAX_DEPTH`: deeper nesting is rejected (bounds the recursion of `~Var`) -/
def maxDepth : Nat := 1000

/-- the body shared by WAIT_VALUE and (after its comma test) WAIT_COMMA_OR_VALUE -/
def waitValue (p : PState) (ctx : Ctx) (c : UInt8) : Res :=
  if isDigit c then next { push p c with state := .INT }
  else if c = 45 then next { push p c with state := .MINUS }
  else if c = 34 then next { p with state := .STRING }
  else if c = 91 then
    if p.lists.length > maxDepth then errRet p
    else next { p with lists := .arr [] :: p.lists, ctx := .ARRAY :: p.ctx }
  else if c = 123 then
    if p.lists.length > maxDepth then errRet p else
    let p1 := beginObject p (buf p)
    next { p1 with state := .WAIT_PROPERTY, ctx := .OBJECT :: p.ctx, buffer := [] }
  else if c = 125 ∧ ctx = .OBJECT then do
    let p1 ← closeContainer p
    next p1
  else if isAlnum c ∨ c = 95 ∨ c = 36 then next { push p c with state := .IDENTIFIER }
  else if c = 93 ∧ ctx = .ARRAY then do
    let p1 ← closeContainer p
    next p1
  else if !isSpace c then errRet p
  else next p

/-- the body shared by WAIT_PROPERTY and WAIT_COMMA_OR_PROPERTY -/
def waitProperty (p : PState) (c : UInt8) : Res :=
  if isAlnum c ∨ c = 95 ∨ c = 36 then next { push p c with state := .PROPERTY }
  else if c = 34 then next { p with state := .QPROPERTY }
  else if c = 125 then do
    let p1 ← closeContainer p
    next p1
  else if !isSpace c ∧ c ≠ 125 then errRet p
  else next p

def escapeChar (c : UInt8) : Option UInt8 :=
  if c = 92 then some 92 else if c = 34 then some 34 else if c = 110 then some 10
  else if c = 47 then some 47 else if c = 114 then some 13 else if c = 116 then some 9
  else if c = 102 then some 12 else if c = 98 then some 8 else none

/-- append a C string to the (reversed) buffer -/
def pushStr (p : PState) (s : Bytes) : PState := { p with buffer := (cstr s).reverse ++ p.buffer }

/-- state UNICODECHAR -/
def unicodeChar (p : PState) (c : UInt8) : Res :=
  let ubuf := p.ubuf.set (p.ucount % 4) c
  let cnt := p.ucount + 1
  let p := { p with ubuf := ubuf, ucount := cnt }
  if cnt = 4 ∨ cnt = 8 then
    let w := toWchar (strtoul16 (cstr (ubuf.take 4)))
    if cnt = 8 then
      next { pushStr p (utf16toUtf8 [p.wchar, w] 2) with ucount := 0, state := p.prev }
    else if w < 0xd800 ∨ w ≥ 0xdc00 then
      next { pushStr p (utf16toUtf8 [w] 1) with ucount := 0, state := p.prev }
    else
      next { p with wchar := w, state := p.prev }
  else next p

/-- the `switch(_state)` after the comment filter; `ctx` is the local variable of the loop -/
def dispatch (p : PState) (ctx : Ctx) (c : UInt8) : Res :=
  match p.state with
  | .MINUS =>
    if isDigit c then next { push p c with state := .INT } else errRet p
  | .INT =>
    if isDigit c then next (push p c)
    else if c = 46 then next { push p c with state := .NUMBER_DOT }
    else if c = 101 ∨ c = 69 then next { push p c with state := .NUMBER_E }
    else intEnd p
  | .NUMBER_DOT =>
    if isDigit c then next { push p c with state := .NUMBER } else errRet p
  | .NUMBER_E =>
    if c = 45 ∨ c = 43 then next { push p c with state := .NUMBER_ES }
    else if isDigit c then next { push p c with state := .NUMBER_EV }
    else errRet p
  | .NUMBER_ES =>
    if isDigit c then next { push p c with state := .NUMBER_EV } else errRet p
  | .NUMBER_EV =>
    if isDigit c then next (push p c)
    else if c = 44 ∨ isSpace c ∨ c = 93 ∨ c = 125 then numEnd p
    else errRet p
  | .NUMBER =>
    if isDigit c then next (push p c)
    else if c = 101 ∨ c = 69 then next { push p c with state := .NUMBER_E }
    else if c = 44 ∨ isSpace c ∨ c = 93 ∨ c = 125 then numEnd p
    else errRet p
  | .STRING =>
    if c = 92 then next { p with state := .ESCAPE, prev := .STRING }
    else if c = 34 then do
      let p1 ← scalar p (.str (buf p))
      next p1
    else if c < 32 then errRet p
    else next (push p c)
  | .PROPERTY =>
    if c = 61 ∨ isSpace c then
      some (.again, { p with props := buf p :: p.props, state := .WAIT_EQUAL, buffer := [] })
    else next (push p c)
  | .QPROPERTY =>
    if c = 92 then next { p with state := .ESCAPE, prev := .QPROPERTY }
    else if c ≠ 34 then next (push p c)
    else next { p with props := buf p :: p.props, state := .WAIT_EQUAL, buffer := [] }
  | .WAIT_COMMA_OR_VALUE =>
    if c = 44 then next { p with state := .WAIT_VALUE } else waitValue p ctx c
  | .WAIT_VALUE => waitValue p ctx c
  | .WAIT_SEP =>
    if c = 44 then next { p with state := if ctx = .OBJECT then .WAIT_PROPERTY else .WAIT_VALUE }
    else if c = 10 then
      next { p with state := if ctx = .OBJECT then .WAIT_COMMA_OR_PROPERTY else .WAIT_COMMA_OR_VALUE }
    else if c = 125 ∧ ctx = .OBJECT then do
      let p1 ← closeContainer p
      next p1
    else if c = 93 ∧ ctx = .ARRAY then do
      let p1 ← closeContainer p
      next p1
    else if !isSpace c then errRet p
    else next p
  | .WAIT_OBJ =>
    if c = 123 then
      if p.lists.length > maxDepth then errRet p else
      let p1 := beginObject p (buf p)
      next { p1 with state := .WAIT_PROPERTY, ctx := .OBJECT :: p.ctx, buffer := [] }
    else if !isSpace c then errRet p
    else next p
  | .WAIT_COMMA_OR_PROPERTY =>
    if c = 44 then next { p with state := .WAIT_PROPERTY } else waitProperty p c
  | .WAIT_PROPERTY => waitProperty p c
  | .ESCAPE =>
    if c = 117 then next { p with state := .UNICODECHAR }
    else match escapeChar c with
      | some e => next { push p e with state := p.prev }
      | none => errBrk p
  | .IDENTIFIER =>
    if !isAlnum c ∧ c ≠ 95 ∧ c ≠ 46 then
      let b := buf p
      -- "Y" "N" "false" "true"
      if b = [89] ∨ b = [78] ∨ b = [102, 97, 108, 115, 101] ∨ b = [116, 114, 117, 101] then do
        let p1 ← scalar p (.bool (b = [116, 114, 117, 101] ∨ b = [89]))
        some (.again, p1)
      else if b = [110, 117, 108, 108] then do
        let p1 ← scalar p .null
        some (.again, p1)
      else some (.again, { p with state := .WAIT_OBJ })
    else next (push p c)
  | .WAIT_EQUAL =>
    if c = 58 ∨ c = 61 then next { p with state := .WAIT_VALUE }
    else if !isSpace c then errRet p
    else next p
  | .UNICODECHAR => unicodeChar p c
  | .ERR => next p

def isCommentCtx (x : Ctx) : Bool :=
  x = .COMMENT || x = .LINECOMMENT || x = .COMMENT1 || x = .ENDCOMMENT

/-- after the comment `switch`: `ctx = _context.top(); if (comment kind) {_inComment = true; continue;}
    else _inComment = false;` then the state switch -/
def afterComment (p : PState) (c : UInt8) : Res :=
  match p.ctx with
  | [] => none
  | ctx :: _ =>
    if isCommentCtx ctx then next { p with inComment := true }
    else dispatch { p with inComment := false } ctx c

/-- one iteration of the `while(char c=*s++)` loop -/
def body (p : PState) (c : UInt8) : Res :=
  match p.ctx with
  | [] => none
  | ctx :: rest =>
    if !p.inComment then
      if c = 47 ∧ p.state ≠ .STRING ∧ p.state ≠ .QPROPERTY ∧ p.state ≠ .ESCAPE then
        next { p with inComment := true, ctx := .COMMENT1 :: p.ctx }
      else dispatch p ctx c
    else
      match ctx with
      | .COMMENT1 =>
        if c = 47 then afterComment { p with ctx := .LINECOMMENT :: rest } c
        else if c = 42 then afterComment { p with ctx := .COMMENT :: rest } c
        else afterComment { p with ctx := rest, state := .ERR } c
      | .LINECOMMENT =>
        if c = 10 ∨ c = 13 then afterComment { p with inComment := false, ctx := rest } c
        else afterComment p c
      | .COMMENT =>
        if c = 42 then afterComment { p with ctx := .ENDCOMMENT :: p.ctx } c
        else afterComment p c
      | .ENDCOMMENT =>
        if c = 47 then
          match rest with
          | [] => none
          | _ :: rest2 => next { p with inComment := false, ctx := rest2 }
        else afterComment { p with ctx := rest } c
      | _ =>
        if c = 47 ∧ p.state ≠ .STRING then next { p with inComment := true, ctx := .COMMENT1 :: p.ctx }
        else next p

/-- one input byte, including the re-dispatch after a push-back.  `(true, _)` = the code `return`ed.
    A second push-back of the same byte would make the real loop spin for ever: `none`. -/
def stepByte (p : PState) (c : UInt8) : Option (Bool × PState) :=
  match body p c with
  | none => none
  | some (.next, p1) => some (false, p1)
  | some (.ret, p1) => some (true, p1)
  | some (.again, p1) =>
    match body p1 c with
    | none => none
    | some (.next, p2) => some (false, p2)
    | some (.ret, p2) => some (true, p2)
    | some (.again, _) => none

/-- the `while` loop over a NUL-free chunk; the flag tells whether the loop was left by `return` -/
def loop : PState → Bytes → Option (Bool × PState)
  | p, [] => some (false, p)
  | p, c :: cs =>
    match stepByte p c with
    | none => none
    | some (true, p1) => some (true, p1)
    | some (false, p1) => loop p1 cs

/-- `XdlParser::parse(const char* s)`: the chunk is a C string (ends at its first NUL) -/
def parse (p : PState) (chunk : Bytes) : Option PState :=
  if p.state = .ERR then some p
  else (loop p (cstr chunk)).map (·.2)

/-- `XdlParser::value()` -/
def value (p : PState) : Option JV :=
  if p.state = .ERR then none
  else match p.lists.getLast?, p.ctx with
    | some (.arr rev), top :: _ =>
      if top = .ROOT ∧ p.state = .WAIT_VALUE then rev.head? else none
    | _, _ => none

/-- feed the chunks one after the other -/
def parseChunks (p : PState) : List Bytes → Option PState
  | [] => some p
  | c :: cs => (parse p c).bind (parseChunks · cs)

/-- `XdlParser::decode` = `parse(s); parse(" "); value()`; `none` = memory error, `some none` = invalid -/
def decodeFrom (p : PState) (text : Bytes) : Option (Option JV) := do
  let p1 ← parse p text
  let p2 ← parse p1 [32]
  pure (value p2)

/-- `Json::decode` / `Xdl::decode` on a fresh parser -/
def decode (text : Bytes) : Option (Option JV) := decodeFrom init text


/-! # Encoder: `XdlEncoder` (src/Xdl.cpp) — C05

`Json::encode(v, mode)` = `Xdl::encode(v, mode | JSON)`; `Json::write`/`Xdl::write` run the same encoder
with a file sink that is flushed whenever `_out` exceeds 16000 bytes after a node has been encoded.
libc's `snprintf("%.Pg")` is a parameter `g` (the driver passes `AslModel.Dtoa.fmtG`). -/

/-- a `Var` tree as the encoder sees it (`flt` carries the double value of the float; objects are given
    in enumeration order, i.e. sorted by key as `Dic` keeps them) -/
inductive EV where
  | none
  | null
  | bool (b : Bool)
  | int (i : Int)
  | num (bits : UInt64)
  | flt (bits : UInt64)
  | str (s : Bytes)
  | arr (l : List EV)
  | obj (ms : List (Bytes × EV))
deriving Repr, Inhabited

/-- `Json::Mode` bits: PRETTY = 1, SIMPLE = 2, JSON = 8, SHORTF = 32 -/
structure Mode where
  pretty : Bool
  simple : Bool
  json : Bool
  shortf : Bool
deriving Repr, DecidableEq

def Mode.ofNat (n : Nat) : Mode :=
  { pretty := n % 2 = 1, simple := n / 2 % 2 = 1, json := n / 8 % 2 = 1, shortf := n / 32 % 2 = 1 }

def precF (m : Mode) : Nat := if m.simple then 7 else 9
def precD (m : Mode) : Nat := if m.shortf then precF m else if m.simple then 15 else 17

def dFinite (bits : UInt64) : Bool := bits.toNat / 2 ^ 52 % 2048 ≠ 2047
def dNaN (bits : UInt64) : Bool := bits.toNat / 2 ^ 52 % 2048 = 2047 ∧ bits.toNat % 2 ^ 52 ≠ 0
def dNeg (bits : UInt64) : Bool := bits.toNat / 2 ^ 63 = 1

/-- "Fix decimal comma of some locales": the first `,` becomes `.` -/
def fixComma : Bytes → Bytes
  | [] => []
  | c :: t => if c = 44 then 46 :: t else c :: fixComma t

/-- `new_number(double)` / `new_number(float)` with precision `P` -/
def encReal (g : Nat → UInt64 → Bytes) (P : Nat) (bits : UInt64) : Bytes :=
  if !dFinite bits then
    if dNaN bits then [110, 117, 108, 108]                       -- null
    else if dNeg bits then [45, 49, 101, 52, 48, 48] else [49, 101, 52, 48, 48]   -- -1e400 / 1e400
  else fixComma (g P bits)

/-- the digits of a positive number, least significant first (the `ss[]` loop of `myitoa`) -/
def decRev : Nat → Nat → Bytes
  | 0, _ => []
  | f + 1, n => if n = 0 then [] else UInt8.ofNat (48 + n % 10) :: decRev f (n / 10)

/-- `myitoa` on a 32-bit int -/
def itoa (x : Int) : Bytes :=
  if x = 0 then [48]
  else if x < 0 then
    if x = -2147483648 then [45, 50, 49, 52, 55, 52, 56, 51, 54, 52, 56]
    else 45 :: (decRev 16 (-x).toNat).reverse
  else (decRev 16 x.toNat).reverse

def hexLow (n : Nat) : UInt8 := if n < 10 then UInt8.ofNat (48 + n) else UInt8.ofNat (87 + n)

/-- `new_string` body: escapes -/
def escByte (c : UInt8) : Bytes :=
  if c = 92 then [92, 92] else if c = 34 then [92, 34] else if c = 10 then [92, 110]
  else if c = 13 then [92, 114] else if c = 9 then [92, 116] else if c = 12 then [92, 102]
  else if c = 8 then [92, 98]
  else if c < 32 then [92, 117, 48, 48, hexLow (c.toNat / 16), hexLow (c.toNat % 16)]
  else [c]

def encString (s : Bytes) : Bytes := 34 :: (s.flatMap escByte) ++ [34]

def indentOf (lvl : Nat) : Bytes := List.replicate lvl 9
def sep1 (m : Mode) : Bytes := if m.pretty then [44, 32] else [44]
def sep2 (m : Mode) : Bytes := if !m.json && m.pretty then [] else [44]

def isArrV : EV → Bool | .arr _ => true | _ => false
def isObjV : EV → Bool | .obj _ => true | _ => false
def isStrV : EV → Bool | .str _ => true | _ => false
def okV : EV → Bool | .none => false | _ => true

/-- `Var::length()` -/
def vlen : EV → Nat
  | .arr l => l.length
  | .obj ms => ms.length
  | .str s => s.length
  | _ => 0

/-- the pretty-printer's string heuristic: does the running sum of `length()` exceed 100 ? -/
def sumExceeds : List EV → Nat → Bool
  | [], _ => false
  | x :: t, acc => if acc + vlen x > 100 then true else sumExceeds t (acc + vlen x)

/-- `multi` and `big` of the ARRAY case -/
def arrayLayout (m : Mode) (l : List EV) : Bool × Bool :=
  let n := l.length
  let v0 : EV := l.headD (.arr l)
  let multi0 := m.pretty && (decide (n > 10) || (decide (n > 0) && (isArrV v0 || isObjV v0)))
  let multi := multi0 || (m.pretty && !multi0 && isStrV v0 && sumExceeds l 0)
  let big := decide (n > 0) && (isArrV v0 || isObjV v0 || isStrV v0)
  (multi, big)

/-- `isClassName` (src/Xdl.cpp) on the C string of a STRING `Var`: first character a letter, `_` or `$`, then letters,
    digits, `_`, `.`, and none of the words the decoder reads as a boolean or null -/
def isClsNameB (s : Bytes) : Bool :=
  match s with
  | [] => false
  | c0 :: cs =>
    ((isAlnum c0 && !isDigit c0) || c0 = 95 || c0 = 36) && cs.all (fun c => isAlnum c || c = 95 || c = 46)
      && !(decide (s = [89]) || decide (s = [78]) || decide (s = [116, 114, 117, 101])
            || decide (s = [102, 97, 108, 115, 101]) || decide (s = [110, 117, 108, 108]))

/-- the class name a `$type` member gives its object, if it can be written in class notation -/
def clsName : EV → Option Bytes
  | .str s => if isClsNameB s then some s else none
  | _ => none

/-- the XDL class name: the `$type` member (`v.getp(ASL_XDLCLASS)`) when `isClassName` accepts it; otherwise
    `cname = 0` and the member is written as an ordinary property -/
def classOf : List (Bytes × EV) → Option Bytes
  | [] => none
  | (k, v) :: t => if k = classKey then clsName v else classOf t

/-- the member the encoder leaves out because it is written as the class name (`&value == cname`) -/
def skipCls (k : Bytes) (v : EV) : Bool := decide (k = classKey) && (clsName v).isSome

mutual
/-- `_encode(v)` at indentation `_level = lvl` as a pure function (string sink) -/
def enc (g : Nat → UInt64 → Bytes) (m : Mode) : Nat → EV → Bytes
  | _, .flt b => encReal g (precF m) b
  | _, .num b => encReal g (precD m) b
  | _, .int i => itoa i
  | _, .str s => encString s
  | _, .bool b => if m.json then (if b then [116, 114, 117, 101] else [102, 97, 108, 115, 101]) else (if b then [89] else [78])
  | _, .null => [110, 117, 108, 108]
  | _, .none => [110, 117, 108, 108]
  | lvl, .arr l =>
    let (multi, big) := arrayLayout m l
    let lvl' := if multi then lvl + 1 else lvl
    [91] ++ (if multi then 10 :: indentOf lvl' else []) ++ encItems g m lvl' multi big 0 l
      ++ (if multi then 10 :: indentOf lvl else []) ++ [93]
  | lvl, .obj ms =>
    let cls : Bytes := if m.json then [] else (classOf ms).getD []
    let lvl' := if m.pretty then lvl + 1 else lvl
    cls ++ [123] ++ encMembers g m lvl' false ms ++ (if m.pretty then 10 :: indentOf lvl else []) ++ [125]
/-- the items of an array from index `i` on -/
def encItems (g : Nat → UInt64 → Bytes) (m : Mode) (lvl : Nat) (multi big : Bool) : Nat → List EV → Bytes
  | _, [] => []
  | i, x :: t =>
    (if i > 0 then (if multi && (big || i % 16 = 0) then sep2 m ++ 10 :: indentOf lvl else sep1 m) else [])
      ++ enc g m lvl x ++ encItems g m lvl multi big (i + 1) t
/-- the members of an object; `started` = a member has already been written (`k > 0`) -/
def encMembers (g : Nat → UInt64 → Bytes) (m : Mode) (lvl : Nat) : Bool → List (Bytes × EV) → Bytes
  | _, [] => []
  | started, (k, v) :: t =>
    if okV v && (m.json || !skipCls k v) then
      (if started then sep2 m else []) ++ (if m.pretty then 10 :: indentOf lvl else [])
        ++ (if m.json then encString k ++ (if m.pretty then [58, 32] else [58]) else k ++ [61])
        ++ enc g m lvl v ++ encMembers g m lvl true t
    else encMembers g m lvl started t
end

/-- `XdlEncoder::encode(v, mode)` with the string sink: the returned text -/
def encode (g : Nat → UInt64 → Bytes) (m : Mode) (v : EV) : Bytes :=
  enc g m 0 v ++ (if m.pretty then [10] else [])

/-! ## the same encoder writing through a sink (`Xdl::write`) -/

/-- `_out` (reversed, with its length) and what has been handed to the sink so far (newest first) -/
structure W where
  chunks : List Bytes
  rout : Bytes
  len : Nat
deriving Repr, Inhabited

def W.empty : W := { chunks := [], rout := [], len := 0 }
def W.emit (w : W) (s : Bytes) : W := { w with rout := s.reverse ++ w.rout, len := w.len + s.length }
/-- `if (_out.length() > 16000) _sink->write(_out);` -/
def W.flushIfBig (w : W) : W := if w.len > 16000 then { chunks := w.rout.reverse :: w.chunks, rout := [], len := 0 } else w
/-- everything written, in order -/
def W.total (w : W) : Bytes := w.chunks.reverse.flatten ++ w.rout.reverse

mutual
def encW (g : Nat → UInt64 → Bytes) (m : Mode) : Nat → EV → W → W
  | lvl, .arr l, w =>
    let (multi, big) := arrayLayout m l
    let lvl' := if multi then lvl + 1 else lvl
    let w := w.emit ([91] ++ (if multi then 10 :: indentOf lvl' else []))
    let w := encItemsW g m lvl' multi big 0 l w
    (w.emit ((if multi then 10 :: indentOf lvl else []) ++ [93])).flushIfBig
  | lvl, .obj ms, w =>
    let cls : Bytes := if m.json then [] else (classOf ms).getD []
    let lvl' := if m.pretty then lvl + 1 else lvl
    let w := w.emit (cls ++ [123])
    let w := encMembersW g m lvl' false ms w
    (w.emit ((if m.pretty then 10 :: indentOf lvl else []) ++ [125])).flushIfBig
  | lvl, v, w => (w.emit (enc g m lvl v)).flushIfBig
def encItemsW (g : Nat → UInt64 → Bytes) (m : Mode) (lvl : Nat) (multi big : Bool) : Nat → List EV → W → W
  | _, [], w => w
  | i, x :: t, w =>
    let w := w.emit (if i > 0 then (if multi && (big || i % 16 = 0) then sep2 m ++ 10 :: indentOf lvl else sep1 m) else [])
    encItemsW g m lvl multi big (i + 1) t (encW g m lvl x w)
def encMembersW (g : Nat → UInt64 → Bytes) (m : Mode) (lvl : Nat) : Bool → List (Bytes × EV) → W → W
  | _, [], w => w
  | started, (k, v) :: t, w =>
    if okV v && (m.json || !skipCls k v) then
      let w := w.emit ((if started then sep2 m else []) ++ (if m.pretty then 10 :: indentOf lvl else [])
        ++ (if m.json then encString k ++ (if m.pretty then [58, 32] else [58]) else k ++ [61]))
      encMembersW g m lvl true t (encW g m lvl v w)
    else encMembersW g m lvl started t w
end

/-- `Xdl::write`: encode through the sink, final newline in pretty mode, final `_sink->write(_out)` -/
def writeChunks (g : Nat → UInt64 → Bytes) (m : Mode) (v : EV) : List Bytes :=
  let w := encW g m 0 v W.empty
  let w := if m.pretty then w.emit [10] else w
  (w.rout.reverse :: w.chunks).reverse

/-- the BOM probe of `Xdl::read`: a complete UTF-8 BOM is skipped, anything else is read from the start -/
def stripBom : Bytes → Bytes
  | 0xEF :: 0xBB :: 0xBF :: t => t
  | b => b

/-- `Xdl::read` on a file with this content: BOM probe, chunks of `min(16382, size)` bytes, flush -/
def readFile (content : Bytes) : Option (Option JV) :=
  let size := min content.length 100000
  if size = 0 then some none else
  let body := stripBom content
  let n := min 16382 size
  let rec split (fuel : Nat) (b : Bytes) : List Bytes :=
    match fuel with
    | 0 => [b]
    | f + 1 => if b.length < n then [b] else b.take n :: split f (b.drop n)
  match parseChunks init (split content.length body) with
  | none => none
  | some p => (parse p [32]).map value

end AslModel.Xdl
