import AslModel.Xdl
import AslModel.Strtod
/-! Canonical text of decoded values (shared by the C05 and C06 drivers): object members sorted by key,
doubles by the bit pattern of `atof(lexeme)`, strings in hex. -/
namespace AslModel.XdlDump
open AslModel AslModel.Xdl

def hexDigit (n : Nat) : Char :=
  if n < 10 then Char.ofNat (n + '0'.toNat) else Char.ofNat (n - 10 + 'a'.toNat)

def hex (bs : List UInt8) : String :=
  if bs.isEmpty then "-" else
  String.ofList (bs.flatMap fun b => [hexDigit (b.toNat / 16), hexDigit (b.toNat % 16)])

def hex16 (v : UInt64) : String :=
  String.ofList ((List.range 16).map fun i => hexDigit ((v.toNat >>> (4 * (15 - i))) % 16))

def sortStr (l : List (String × String)) : List (String × String) :=
  (l.toArray.qsort (fun a b => a.1 < b.1)).toList

mutual
/-- canonical text of a decoded value: object members sorted by key, doubles by bit pattern -/
def dump : JV → String
  | .null => "n"
  | .bool b => if b then "t" else "f"
  | .int i => s!"i{i}"
  | .num l => "d" ++ hex16 (Strtod.atofBits l)
  | .str s => "s" ++ hex s
  | .arr l => "[" ++ ",".intercalate (dumpL l) ++ "]"
  | .obj l => "{" ++ ",".intercalate ((sortStr (dumpO l)).map fun kv => kv.1 ++ ":" ++ kv.2) ++ "}"
def dumpL : List JV → List String
  | [] => []
  | x :: t => dump x :: dumpL t
def dumpO : List (Bytes × JV) → List (String × String)
  | [] => []
  | (k, x) :: t => (hex k, dump x) :: dumpO t
end

end AslModel.XdlDump
