/-!
# C07 — model of `Xml::decode`, `XmlCodec::escape`, `XmlCodec::encode` (src/Xml.cpp, include/asl/Xml.h)

Transcription of the code as it is (not of XML 1.0): the 20-state `switch` of `Xml::decode`
over a `Stack<Xml>` seeded with an anonymous root, the reference expansion through
`strtoul`/`myatoi`/`utf32toUtf8` into `char bytes[5]`, and the recursive encoder.

DOM representation: a tree whose nodes carry the *identity* of the heap object (`id`, allocation
order) and the raw `parent` pointer as an explicit field (`Option id`), so that "every child's
`parent()` is the element that contains it" is a statement about data the model computes, and not
true by construction.  `Xml::operator<<(const Xml&)` = `attach` (append + set the child's parent).
Stack accesses return `Option`; a `none` is reported as `Result.fault` (pop of the seeded root /
`top()` of an empty stack: what ASan sees as a wild pointer).  Core Lean only.
-/
namespace AslModel.Xml

abbrev Bytes := List UInt8

/-! ## DOM -/

inductive Node where
  /-- `_Xml`: tag, attributes (`Map<String,String>`: sorted by key, unique), children, parent -/
  | elem (id : Nat) (parent : Option Nat) (tag : Bytes) (attrs : List (Bytes × Bytes)) (children : List Node)
  /-- `_XmlText` -/
  | text (id : Nat) (parent : Option Nat) (txt : Bytes)

namespace Node
def id : Node → Nat
  | elem i .. => i
  | text i .. => i
def parent : Node → Option Nat
  | elem _ p .. => p
  | text _ p _ => p
/-- `root._()->parent = NULL` -/
def clearParent : Node → Node
  | elem i _ t a c => elem i none t a c
  | text i _ t => text i none t
/-- `e._()->parent = p` -/
def setParent (p : Nat) : Node → Node
  | elem i _ t a c => elem i (some p) t a c
  | text i _ t => text i (some p) t
end Node

/-- an element under construction (an entry of `Stack<Xml> elems`) -/
structure Frame where
  id : Nat
  parent : Option Nat
  tag : Bytes
  attrs : List (Bytes × Bytes)
  children : List Node

def Frame.toNode (f : Frame) : Node := .elem f.id f.parent f.tag f.attrs f.children

/-- `Xml::operator<<(const Xml& e)`: `children << e; e._()->parent = _();` -/
def attach (p : Frame) (c : Node) : Frame :=
  { p with children := p.children ++ [c.setParent p.id] }

/-! ## `Map<String,String>` (sorted array of pairs, keys compared with `strcmp`) -/

/-- `strcmp(a, b) < 0` on NUL-free strings: unsigned bytes, a proper prefix is smaller -/
def bytesLt : Bytes → Bytes → Bool
  | [], [] => false
  | [], _ :: _ => true
  | _ :: _, [] => false
  | a :: s, b :: t => if a.toNat < b.toNat then true else if b.toNat < a.toNat then false else bytesLt s t

/-- `attribs[k] = v` -/
def mapSet (k v : Bytes) : List (Bytes × Bytes) → List (Bytes × Bytes)
  | [] => [(k, v)]
  | (k', v') :: r =>
    if k = k' then (k, v) :: r
    else if bytesLt k k' then (k, v) :: (k', v') :: r
    else (k', v') :: mapSet k v r

/-! ## character classes of the decoder (with `char` signed: bytes ≥ 0x80 are negative) -/

/-- the test that sends `TAG_START` / `WAIT_ATT` to `ERR` -/
def nameStartBad (c : UInt8) : Bool :=
  (c.toNat < 128 && c.toNat < 65 && c != 58) || (c.toNat > 90 && c.toNat < 95) || c == 96 ||
  (c.toNat > 122 && c.toNat ≤ 126)

/-- the test that sends `TAG` / `ATT_NAME` to `ERR` -/
def nameCharBad (c : UInt8) : Bool :=
  (c.toNat < 128 && c.toNat < 45) || c == 47 || (c.toNat > 58 && c.toNat < 65) ||
  (c.toNat > 90 && c.toNat < 95) || c == 96 || (c.toNat > 122 && c.toNat ≤ 126)

/-- `' ' '\t' '\r' '\n'` (also `myisspace`) -/
def isWs (c : UInt8) : Bool := c == 32 || c == 9 || c == 13 || c == 10

/-- `myisalpha` -/
def isAlpha (c : UInt8) : Bool := (97 ≤ c.toNat && c.toNat ≤ 122) || (65 ≤ c.toNat && c.toNat ≤ 90)

/-! ## references: `strtoul(.,NULL,16)`, `myatoi`, `utf32toUtf8` -/

/-- C `isspace` in the "C" locale -/
def cIsSpace (c : UInt8) : Bool := c == 32 || (9 ≤ c.toNat && c.toNat ≤ 13)

def hexVal (c : UInt8) : Option Nat :=
  if 48 ≤ c.toNat ∧ c.toNat ≤ 57 then some (c.toNat - 48)
  else if 97 ≤ c.toNat ∧ c.toNat ≤ 102 then some (c.toNat - 87)
  else if 65 ≤ c.toNat ∧ c.toNat ≤ 70 then some (c.toNat - 55)
  else none

def ulongMax : Nat := 18446744073709551615

/-- digit loop of glibc `strtoul` (64-bit `unsigned long`): returns (value, overflowed) -/
def hexDigits : Bytes → Nat → Bool → Nat × Bool
  | [], acc, ov => (acc, ov)
  | c :: t, acc, ov => match hexVal c with
    | some v =>
      let acc' := acc * 16 + v
      if acc' > ulongMax then hexDigits t acc true else hexDigits t acc' ov
    | none => (acc, ov)

/-- `(int)(unsigned)strtoul(s, NULL, 16)`: blanks, optional sign, optional `0x`, hex digits;
    `ULONG_MAX` on overflow; negation modulo 2^64; truncation to 32 bits; reinterpretation as `int` -/
def strtoul16 (s : Bytes) : Int :=
  let s := s.dropWhile cIsSpace
  let (neg, s) := match s with
    | 45 :: t => (true, t)
    | 43 :: t => (false, t)
    | _ => (false, s)
  let s := match s with
    | 48 :: x :: t => if x == 120 || x == 88 then t else s
    | _ => s
  let (v, ov) := hexDigits s 0 false
  let u64 := if ov then ulongMax else if neg then (ulongMax + 1 - v) % (ulongMax + 1) else v
  let u32 := u64 % 4294967296
  if u32 < 2147483648 then (u32 : Int) else (u32 : Int) - 4294967296

/-- value of an `int` expression after two's-complement wrap-around -/
def wrap32 (i : Int) : Int := (i + 2147483648) % 4294967296 - 2147483648

/-- digit loop of `myatoi`: `y = 10*y + (c-'0')` in `int` -/
def atoiDigits : Bytes → Int → Int
  | [], y => y
  | c :: t, y => if 48 ≤ c.toNat ∧ c.toNat ≤ 57 then atoiDigits t (wrap32 (10 * y + (c.toNat - 48 : Nat))) else y

/-- `myatoi(s)` -/
def myatoi (s : Bytes) : Int :=
  match s with
  | 45 :: t => wrap32 (atoiDigits t 0 * (-1))
  | 43 :: t => atoiDigits t 0
  | _ => atoiDigits s 0

/-- low byte of an `int` stored into a `char` -/
def lowByte (i : Int) : UInt8 := UInt8.ofNat (i % 256).toNat

/-- what `utf32toUtf8(wch, bytes, 1)` stores before the terminator, for `wch = {code, 0}`
    (`c >> k | m` and `(c >> k & 0x3f) | 0x80` truncated to `char`) -/
def utf8Bytes (code : Int) : Bytes :=
  if code = 0 then []
  else if code < 0x80 then [lowByte code]
  else
    let n := code.toNat
    if n < 0x800 then [UInt8.ofNat ((n >>> 6) ||| 0xc0), UInt8.ofNat ((n &&& 0x3f) ||| 0x80)]
    else if n < 0x10000 then
      [UInt8.ofNat ((n >>> 12) ||| 0xe0), UInt8.ofNat (((n >>> 6) &&& 0x3f) ||| 0x80), UInt8.ofNat ((n &&& 0x3f) ||| 0x80)]
    else
      [UInt8.ofNat ((n >>> 18) ||| 0xf0), UInt8.ofNat (((n >>> 12) &&& 0x3f) ||| 0x80),
       UInt8.ofNat (((n >>> 6) &&& 0x3f) ||| 0x80), UInt8.ofNat ((n &&& 0x3f) ||| 0x80)]

/-- `entities.get(ref, '?')` -/
def entity (ref : Bytes) : UInt8 :=
  if ref = [97, 109, 112] then 38            -- amp
  else if ref = [97, 112, 111, 115] then 39  -- apos
  else if ref = [103, 116] then 62           -- gt
  else if ref = [108, 116] then 60           -- lt
  else if ref = [113, 117, 111, 116] then 34 -- quot
  else 63

/-- bytes appended to `b` when `;` ends the reference `ref` (`b << bytes` stops at a NUL) -/
def refExpand (ref : Bytes) : Bytes :=
  match ref with
  | 35 :: r =>
    let code := match r with
      | 120 :: h => strtoul16 h
      | _ => myatoi r
    (utf8Bytes code).takeWhile (· != 0)
  | _ => [entity ref]

/-! ## the decoder -/

inductive St where
  | free | tagStart | tagEnd | tag | waitAtt | attName | waitEqual | waitAttVal
  | attVal | attValSq | slash | tagExclam | commentStart2 | comment | commentEnd1 | commentEnd2
  | refStart | charRef | def_ | tagQues
  deriving DecidableEq, Repr

/-- the locals of `Xml::decode` (`ERR` is not a value: the code returns as soon as it is set) -/
structure Cfg where
  st : St
  last : St
  b : Bytes
  ref : Bytes
  atname : Bytes
  angle : Nat
  /-- `*(p-2)`: the character before the current one -/
  prev : UInt8
  /-- `elems`, top first -/
  stack : List Frame
  /-- next fresh object identity -/
  next : Nat

inductive Step where
  | cont (c : Cfg)
  /-- `return Xml()` -/
  | null
  /-- an access outside the stack -/
  | fault

inductive Result where
  | node (n : Node)
  | null
  | fault

/-- `elems.push(Xml(b))` -/
def push (c : Cfg) (tag : Bytes) : Cfg :=
  { c with stack := { id := c.next, parent := none, tag := tag, attrs := [], children := [] } :: c.stack,
           next := c.next + 1 }

/-- `elems.top() << XmlText(b)` -/
def topText (c : Cfg) (t : Bytes) : Option Cfg :=
  match c.stack with
  | [] => none
  | f :: r => some { c with stack := attach f (.text c.next none t) :: r, next := c.next + 1 }

/-- `{ Xml e = elems.popget(); elems.top() << e; }` -/
def popAttach (c : Cfg) : Option Cfg :=
  match c.stack with
  | e :: p :: r => some { c with stack := attach p e.toNode :: r }
  | _ => none

/-- `elems.top().setAttr(atname, b)` -/
def topSetAttr (c : Cfg) (k v : Bytes) : Option Cfg :=
  match c.stack with
  | [] => none
  | f :: r => some { c with stack := { f with attrs := mapSet k v f.attrs } :: r }

/-- `elems.length() < 2` (constant time) -/
def lengthLt2 (s : List Frame) : Bool :=
  match s with
  | _ :: _ :: _ => false
  | _ => true

def ofOpt : Option Cfg → Step
  | some c => .cont c
  | none => .fault

/-- one iteration of `while (char c = *p++) switch (state) …`.
    `guard` = the repaired end-tag test `elems.length() < 2 ||` (commit 836cb23: an end tag is refused
    while only the seeded root is open);
    `guard = false` is the code before the repair. -/
def step (guard : Bool) (c : Cfg) (ch : UInt8) : Step :=
  let c1 := { c with prev := ch }
  match c.st with
  | .free =>
    if ch == 60 then
      let c2 := { c1 with b := [], st := .tagStart }
      if c.b.any (fun x => !isWs x) then ofOpt (topText c2 c.b) else .cont c2
    else if ch == 38 then .cont { c1 with st := .refStart }
    else .cont { c1 with b := c.b ++ [ch] }
  | .tagStart =>
    if ch == 47 then .cont { c1 with st := .tagEnd }
    else if ch == 33 then .cont { c1 with st := .tagExclam }
    else if ch == 63 then .cont { c1 with st := .tagQues }
    else if nameStartBad ch then .null
    else .cont { c1 with st := .tag, b := [ch] }
  | .tag =>
    if ch == 62 then .cont { push c1 c.b with b := [], st := .free }
    else if ch == 47 then .cont { push c1 c.b with b := [], st := .slash }
    else if isWs ch then .cont { push c1 c.b with b := [], st := .waitAtt }
    else if nameCharBad ch then .null
    else .cont { c1 with b := c.b ++ [ch] }
  | .tagEnd =>
    if ch == 62 then
      -- `if (elems.length() < 2 || b != elems.top().tag()) return Xml();`
      if guard && lengthLt2 c.stack then .null
      else match c.stack with
      | [] => .fault
      | f :: _ =>
        if c.b != f.tag then .null
        else ofOpt (popAttach { c1 with st := .free, b := [] })
    else .cont { c1 with b := c.b ++ [ch] }
  | .waitAtt =>
    if ch == 62 then .cont { c1 with st := .free, b := [] }
    else if ch == 47 then .cont { c1 with st := .slash }
    else if isWs ch then .cont c1
    else if nameStartBad ch then .null
    else .cont { c1 with st := .attName, b := [ch] }
  | .attName =>
    if isWs ch then .cont { c1 with atname := c.b, b := [], st := .waitEqual }
    else if ch == 61 then .cont { c1 with atname := c.b, b := [], st := .waitAttVal }
    else if nameCharBad ch then .null
    else .cont { c1 with b := c.b ++ [ch] }
  | .waitEqual =>
    if ch == 61 then .cont { c1 with st := .waitAttVal } else .cont c1
  | .waitAttVal =>
    if ch == 34 then .cont { c1 with st := .attVal, last := .attVal, b := [] }
    else if ch == 39 then .cont { c1 with st := .attValSq, last := .attValSq, b := [] }
    else .cont c1
  | .attVal =>
    if ch == 34 then ofOpt (topSetAttr { c1 with st := .waitAtt, last := .free, b := [] } c.atname c.b)
    else if ch == 38 then .cont { c1 with st := .refStart }
    else .cont { c1 with b := c.b ++ [ch] }
  | .attValSq =>
    if ch == 39 then ofOpt (topSetAttr { c1 with st := .waitAtt, last := .free, b := [] } c.atname c.b)
    else if ch == 38 then .cont { c1 with st := .refStart }
    else .cont { c1 with b := c.b ++ [ch] }
  | .slash =>
    if ch == 62 then ofOpt (popAttach { c1 with st := .free, b := [] }) else .cont c1
  | .refStart => .cont { c1 with st := .charRef, ref := [ch] }
  | .charRef =>
    if ch == 59 then .cont { c1 with b := c.b ++ refExpand c.ref, st := c.last, ref := [] }
    else .cont { c1 with ref := c.ref ++ [ch] }
  | .tagExclam =>
    if ch == 45 then .cont { c1 with st := .commentStart2 }
    else .cont { c1 with st := .def_, b := [ch] }
  | .tagQues =>
    if ch == 62 && c.prev == 63 && c.b.length > 1 && isAlpha (c.b.headD 0) then .cont { c1 with st := .free, b := [] }
    else .cont { c1 with b := c.b ++ [ch] }
  | .commentStart2 =>
    if ch == 45 then .cont { c1 with st := .comment } else .cont { c1 with st := .free }
  | .comment =>
    if ch == 45 then .cont { c1 with st := .commentEnd1 } else .cont c1
  | .commentEnd1 =>
    if ch == 45 then .cont { c1 with st := .commentEnd2 } else .cont { c1 with st := .comment }
  | .commentEnd2 =>
    if ch == 62 then .cont { c1 with st := .free } else .cont { c1 with st := .comment }
  | .def_ =>
    if isWs ch then .cont c1
    else if ch == 60 then .cont { c1 with angle := c.angle + 1 }
    else if ch == 62 then
      if c.angle == 0 then .cont { c1 with st := .free, b := [] } else .cont { c1 with angle := c.angle - 1 }
    else .cont { c1 with b := c.b ++ [ch] }

/-- `if (elems.top().numChildren() != 1) return Xml(); Xml root = elems.top().child(0);
    root._()->parent = NULL; return root;`  (commit 5247de7: the element the result was attached to —
    the anonymous root, or an unclosed element — is destroyed on return) -/
def finish (c : Cfg) : Result :=
  match c.stack with
  | [] => .fault
  | f :: _ => match f.children with
    | [n] => .node n.clearParent
    | _ => .null

def run (guard : Bool) (c : Cfg) : Bytes → Result
  | [] => finish c
  | ch :: rest => match step guard c ch with
    | .cont c' => run guard c' rest
    | .null => .null
    | .fault => .fault

/-- the state before the loop: `elems << Xml()` (object 0) -/
def init : Cfg :=
  { st := .free, last := .free, b := [], ref := [], atname := [], angle := 0, prev := 0,
    stack := [{ id := 0, parent := none, tag := [], attrs := [], children := [] }], next := 1 }

/-- `strstr(s, "?>")` as an index -/
def indexOfQG : Bytes → Option Nat
  | 63 :: 62 :: _ => some 0
  | _ :: t => (indexOfQG t).map (· + 1)
  | [] => none

def xmlDeclPrefix : Bytes := [60, 63, 120, 109, 108]  -- "<?xml"

/-- the characters the loop sees: `if (x.startsWith("<?xml")) p += x.indexOf("?>") + 2;`
    (`indexOf` = −1 when there is no `?>`: one character is skipped) -/
def body (s : Bytes) : Bytes :=
  if xmlDeclPrefix.isPrefixOf s then
    match indexOfQG s with
    | some i => s.drop (i + 2)
    | none => s.drop 1
  else s

/-- `Xml::decode(x)` for a `String` holding the bytes `x` (everything reads up to the first NUL) -/
def decodeG (guard : Bool) (x : Bytes) : Result :=
  let s := x.takeWhile (· != 0)
  if s.isEmpty then .null else run guard init (body s)

/-- the code in /repo (repaired) -/
def decode (x : Bytes) : Result := decodeG true x

/-! ## the encoder -/

/-- element trees handed to `Xml::encode` (identities play no role there) -/
inductive Tree where
  | elem (tag : Bytes) (attrs : List (Bytes × Bytes)) (children : List Tree)
  | text (txt : Bytes)

def Tree.isText : Tree → Bool
  | .text _ => true
  | .elem .. => false

def escapeByte (c : UInt8) : Bytes :=
  if c == 38 then [38, 97, 109, 112, 59]                 -- &amp;
  else if c == 60 then [38, 108, 116, 59]                -- &lt;
  else if c == 62 then [38, 103, 116, 59]                -- &gt;
  else if c == 39 then [38, 97, 112, 111, 115, 59]       -- &apos;
  else if c == 34 then [38, 113, 117, 111, 116, 59]      -- &quot;
  else [c]

/-- `XmlCodec::escape` (`while (char c = *p++)`: stops at a NUL) -/
def escape (s : Bytes) : Bytes := (s.takeWhile (· != 0)).flatMap escapeByte

def tabs (n : Nat) : Bytes := List.replicate n 9

def encAttrs : List (Bytes × Bytes) → Bytes
  | [] => []
  | (k, v) :: r => [32] ++ k ++ [61, 34] ++ escape v ++ [34] ++ encAttrs r

mutual
/-- `XmlCodec::encode(e)` with `_formatted = fmt`, `_level = level` on entry -/
def encodeAt (fmt : Bool) (level : Nat) : Tree → Bytes
  | .text t => escape t
  | .elem tag attrs children =>
    if tag.isEmpty then [] else   -- `!e && !e.isText()`: an element without tag prints nothing
    let ind := if fmt then tabs level else []
    let open_ := ind ++ [60] ++ tag ++ encAttrs attrs
    if children.isEmpty then open_ ++ [47, 62] ++ (if fmt then [10] else [])
    else
      let firstIsText := (children.head?.map Tree.isText).getD false
      let lastIsText := (children.getLast?.map Tree.isText).getD false
      open_ ++ [62] ++ (if fmt && !firstIsText then [10] else [])
        ++ encodeList fmt (level + 1) children
        ++ (if fmt && !lastIsText then tabs level else [])
        ++ [60, 47] ++ tag ++ [62] ++ (if fmt then [10] else [])
def encodeList (fmt : Bool) (level : Nat) : List Tree → Bytes
  | [] => []
  | t :: ts => encodeAt fmt level t ++ encodeList fmt level ts
end

/-- `Xml::encode(e, formatted)` -/
def encode (fmt : Bool) (t : Tree) : Bytes := encodeAt fmt 0 t

/-! ## observation -/

mutual
/-- forget identities and parent pointers -/
def Node.erase : Node → Tree
  | .elem _ _ tag attrs children => .elem tag attrs (eraseList children)
  | .text _ _ t => .text t
def eraseList : List Node → List Tree
  | [] => []
  | n :: ns => n.erase :: eraseList ns
end

/-! ## `text()` -/

/-- `Xml::text()`: a text node's text; for an element the text at the end of its first-child chain
    (`_Xml::text()`: walk down while the node is an element with children), empty when the chain
    ends in an element -/
def Node.textOf : Node → Bytes
  | .text _ _ t => t
  | .elem _ _ _ _ [] => []
  | .elem _ _ _ _ (c :: _) => c.textOf

/-- the same observation on a tree without identities -/
def Tree.textOf : Tree → Bytes
  | .text t => t
  | .elem _ _ [] => []
  | .elem _ _ (c :: _) => c.textOf

/-! ## holding on to a sub-element -/

mutual
/-- the nodes of a tree in document order (the node itself first) -/
def preorder : Node → List Node
  | .elem i p t a cs => .elem i p t a cs :: preorderL cs
  | .text i p t => [.text i p t]
def preorderL : List Node → List Node
  | [] => []
  | n :: r => preorder n ++ preorderL r
end

/-- a handle to the node `c` of a decoded tree after every other handle to that tree has been dropped:
    `~_Xml` of the element that contained `c` clears `c`'s parent pointer (commit c581d77), the subtree
    below `c` is untouched -/
def survivor (c : Node) : Node := c.clearParent

/-- `Xml r = decode(x); Xml c = <k-th node of r in document order>; r = Xml();` then `c` -/
def pickSurvivor (r : Result) (k : Nat) : Option Node :=
  match r with
  | .node n =>
    let l := preorder n
    (l[k % l.length]?).map survivor
  | _ => none

/-- `while (e.numChildren() > 0 && !e.child(0).isText()) e = e.child(0);` — the handle moves down the
    first-child chain while the first child is an element -/
def descend : Node → Node
  | .text i p t => .text i p t
  | .elem i p t a [] => .elem i p t a []
  | .elem i p t a (.text j q s :: r) => .elem i p t a (.text j q s :: r)
  | .elem _ _ _ _ (.elem j q u b cs :: _) => descend (.elem j q u b cs)

/-- `Xml e = decode(x);` + the loop above (each `e = e.child(0)` drops the last handle to the element that
    contained the new `e`: `NodeBase::operator=` acquires first, commit e5e901a, and `~_Xml` clears the
    parent pointer), then `e` -/
def descendSurvivor (r : Result) : Option Node :=
  match r with
  | .node n => some (survivor (descend n))
  | _ => none

/-- the ways a child can leave the element that contains it -/
inductive Mutator where
  /-- `remove(int)`, `remove(const Xml&)`, `clear()`, `put(value)`: go through `orphan(i)` (commit dcdfbd7) -/
  | remove | removeE | clear | put
  /-- through the `Array<Xml>&` that the non-const `children()` hands out: `children().remove(i)`,
      `.clear()`, `.resize(0)`, `children()[i] = x` — no code of `Xml` runs, nothing is orphaned
      (known finding `raw-children-array`) -/
  | rawRemove | rawClear | rawResize | rawAssign
  deriving DecidableEq, Repr

/-- does the child's parent pointer get cleared when it leaves?  POSTULATE of the model: it states what
    `orphan()` does for the four API mutators and that the raw array operations do nothing of the kind;
    the model has no heap, so this is tied to the code by K (op `mut`) only -/
def Mutator.orphans : Mutator → Bool
  | .remove | .removeE | .clear | .put => true
  | .rawRemove | .rawClear | .rawResize | .rawAssign => false

/-- the child as its remaining handle shows it right after the mutation, the former parent still alive -/
def detachedBy (m : Mutator) (c : Node) : Node := if m.orphans then c.clearParent else c

/-- what the remaining handle's parent pointer is once the former parent has been destroyed as well -/
inductive ParentAfter where
  | null
  /-- still the address of the destroyed element: reading it (`parent()`) is a use after free -/
  | dangling (id : Nat)

def parentAfterRelease (m : Mutator) (c : Node) : ParentAfter :=
  match (detachedBy m c).parent with
  | none => .null
  | some p => .dangling p

/-- a child taken out by one of the four API mutators (kept under its old name) -/
def detached (c : Node) : Node := detachedBy .remove c

/-- `Xml r = decode(x); Xml p = <k-th node of r>; Xml c = p.child(j); p.<mutator m>;` then `c`
    (`none` when the k-th node is a text node or has no children) -/
def pickDetached (r : Result) (k j : Nat) (m : Mutator) : Option Node :=
  match r with
  | .node n =>
    let l := preorder n
    match l[k % l.length]? with
    | some (.elem _ _ _ _ cs) => (cs[j % cs.length]?).map (detachedBy m)
    | _ => none
  | _ => none

/-- `!e` for the returned object: a text node or an element with an empty tag counts as null -/
def Result.isNull : Result → Bool
  | .node (.elem _ _ tag _ _) => tag.isEmpty
  | .node (.text ..) => true
  | .null => true
  | .fault => false

end AslModel.Xml
