/-!
# Ownership model of the `Xml` node graph (C07, extension round)

`include/asl/Xml.h`: a node (`_Xml`) is reference counted (`_NodeBase::rc`), owns its children through an
`Array<Xml>` of counted handles, and keeps a raw, NON-owning `parent` pointer.  Handles (`Xml`, here the four
variables of a history) count as well.  The public mutators modelled: `Xml(tag)` (alloc), `operator<<(const Xml&)`
(attach), `remove(int)` (orphan + array remove), `clear()` (orphan all + array clear), `child(i)` / `parent()` /
copy assignment of handles (`NodeBase::operator=` acquires before it releases), handle destruction.
`~_Xml` (src/Xml.cpp): clears the `parent` of every child that points at the dying node, then releases the children
(iteratively, with a pending list; here a pending list as well — the order inside one destructor run is not observable).

A use of a dead node or a decrement of a zero count sets `fault` (in the C++: use after free / double free, which
ASan reports); nothing else is done in that case.
-/
namespace AslModel.XmlOwn

structure NodeRec where
  live : Bool := false
  rc : Nat := 0
  parent : Option Nat := none
  kids : List Nat := []
deriving Inhabited

structure Heap where
  node : Nat → NodeRec := fun _ => {}
  next : Nat := 0
  var : Nat → Option Nat := fun _ => none
  fault : Bool := false

def Heap.init : Heap := {}

/-- number of handle variables of a history -/
def NV : Nat := 4

def upd (h : Heap) (n : Nat) (f : NodeRec → NodeRec) : Heap :=
  { h with node := fun i => if i = n then f (h.node i) else h.node i }

def setRc (h : Heap) (n k : Nat) : Heap := upd h n fun r => { r with rc := k }

def setFault (h : Heap) : Heap := { h with fault := true }

/-- `children.clear()` of node `x` after `orphan(i)` for every `i` (`clear()`), or the same inside `~_Xml`
    (`alive = false`: the node is gone afterwards) -/
def emptyKids (h : Heap) (x : Nat) (alive : Bool) : Heap :=
  let ks := (h.node x).kids
  { h with node := fun i =>
      if i = x then
        let r := h.node i
        -- a node that is its own child (`a << a`) is orphaned like any other child
        { r with live := alive && r.live, kids := [], parent := if r.parent = some x ∧ x ∈ ks then none else r.parent }
      else if i ∈ ks ∧ (h.node i).parent = some x then { h.node i with parent := none }
      else h.node i }

/-- `unref()` of every handle in `pending`; a count reaching zero runs `~_Xml` (orphan the children, release them) -/
def release : Nat → List Nat → Heap → Heap
  | 0, _, h => setFault h
  | _ + 1, [], h => h
  | fuel + 1, n :: rest, h =>
    let r := h.node n
    if !r.live || r.rc = 0 then setFault h
    else if r.rc = 1 then release fuel (r.kids ++ rest) (emptyKids (setRc h n 0) n false)
    else release fuel rest (setRc h n (r.rc - 1))

/-- enough fuel: every step of `release` takes one unit off some live count -/
def fuelOf (h : Heap) : Nat := (List.range h.next).foldl (fun a i => a + (h.node i).rc) 0 + 1

def releaseAll (h : Heap) (pending : List Nat) : Heap := release (fuelOf h + pending.length) pending h

/-- `NodeBase::operator=` / constructor / destructor of the handle variable `v`: acquire the new target, then
    release the old one -/
def setVar (h : Heap) (v : Nat) (t : Option Nat) : Heap :=
  let h1 := match t with
    | some n => if (h.node n).live then setRc h n ((h.node n).rc + 1) else setFault h
    | none => h
  let old := h1.var v
  let h2 := { h1 with var := fun i => if i = v then t else h1.var i }
  match old with
  | some o => releaseAll h2 [o]
  | none => h2

/-- `new _Xml(tag)` -/
def alloc (h : Heap) : Heap × Nat :=
  ({ h with node := fun i => if i = h.next then { live := true } else h.node i, next := h.next + 1 }, h.next)

/-- `p << c` : `children << c` (a counted handle), `c->parent = p` -/
def attach (h : Heap) (p c : Nat) : Heap :=
  if p < h.next && c < h.next && (h.node p).live && (h.node c).live then
    let h1 := upd h p fun r => { r with kids := r.kids ++ [c] }
    upd h1 c fun r => { r with rc := r.rc + 1, parent := some p }
  else setFault h

/-- `p.insert(j, e)` : only when `j < children.length()`; `e->parent = p`, `children.insert(j, e)` -/
def insertAt (h : Heap) (p j e : Nat) : Heap :=
  if j < (h.node p).kids.length then
    if p < h.next && e < h.next && (h.node p).live && (h.node e).live then
      let h1 := upd h p fun r => { r with kids := r.kids.insertIdx j e }
      upd h1 e fun r => { r with rc := r.rc + 1, parent := some p }
    else setFault h
  else h

/-- `p.remove(j)` : `orphan(j)`, `children.remove(j)` (which releases the handle) -/
def detachAt (h : Heap) (p j : Nat) : Heap :=
  match (h.node p).kids[j]? with
  | none => h
  | some c =>
    if (h.node p).live then
      let h1 := upd h c fun r => { r with parent := if r.parent = some p then none else r.parent }
      let h2 := upd h1 p fun r => { r with kids := r.kids.eraseIdx j }
      releaseAll h2 [c]
    else setFault h

/-- `p.remove(const Xml& e)` : the first slot holding `e`; `e->parent = NULL` (unconditionally, also when `e`'s parent is
    another element that shares it), then `remove(i)` -/
def detachNode (h : Heap) (p e : Nat) : Heap :=
  if e ∈ (h.node p).kids then
    if (h.node p).live && (h.node e).live then
      detachAt (upd h e fun r => { r with parent := none }) p ((h.node p).kids.idxOf e)
    else setFault h
  else h

/-- `p.clear()` -/
def clearKids (h : Heap) (p : Nat) : Heap :=
  if (h.node p).live then
    let ks := (h.node p).kids
    releaseAll (emptyKids h p true) ks
  else setFault h

inductive Op where
  | new (v : Nat)            -- `v = Xml("e")`
  | append (v w : Nat)       -- `v << w`
  | insert (v w j : Nat)     -- `v.insert(j, w)` (the code does nothing unless `j < numChildren`)
  | remove (v j : Nat)       -- `v.remove(j mod numChildren)`
  | removeE (v w : Nat)      -- `v.remove(w)` (`remove(const Xml&)`)
  | clear (v : Nat)          -- `v.clear()`
  | child (v w j : Nat)      -- `v = w.child(j mod numChildren)`
  | assign (v w : Nat)       -- `v = w`
  | drop (v : Nat)           -- the handle `v` is destroyed
  | up (v w : Nat)           -- `v = w.parent()` (destroyed if that is a null object)
deriving Repr

def step (h : Heap) : Op → Heap
  | .new v => let (h1, n) := alloc h; setVar h1 v (some n)
  | .append v w => match h.var v, h.var w with
    | some p, some c => attach h p c
    | _, _ => h
  | .insert v w j => match h.var v, h.var w with
    | some p, some c => insertAt h p j c
    | _, _ => h
  | .remove v j => match h.var v with
    | some p => if (h.node p).kids.length = 0 then h else detachAt h p (j % (h.node p).kids.length)
    | none => h
  | .removeE v w => match h.var v, h.var w with
    | some p, some e => detachNode h p e
    | _, _ => h
  | .clear v => match h.var v with
    | some p => clearKids h p
    | none => h
  | .child v w j => match h.var w with
    | some p => match (h.node p).kids[j % (h.node p).kids.length]? with
      | some c => setVar h v (some c)
      | none => h
    | none => h
  | .assign v w => match h.var w with
    | some n => setVar h v (some n)
    | none => h
  | .drop v => setVar h v none
  | .up v w => match h.var w with
    | some n => setVar h v (h.node n).parent
    | none => h

def run (h : Heap) : List Op → Heap
  | [] => h
  | o :: os => run (step h o) os

/-- lowest handle variable that holds node `n` ("x": no variable does) -/
def canon (h : Heap) (n : Nat) : String :=
  match (List.range NV).find? (fun j => h.var j == some n) with
  | some j => toString j
  | none => "x"

/-- what the public API shows through the handle variables: per variable `-` or
    `<canon>/<parent: n | canon>/<canon of each child>`; `!` appended if the variable holds a dead node -/
def observe (h : Heap) : String :=
  " ".intercalate ((List.range NV).map fun i =>
    match h.var i with
    | none => "-"
    | some n =>
      let r := h.node n
      canon h n ++ "/" ++ (match r.parent with | none => "n" | some p => canon h p) ++ "/"
        ++ String.join (r.kids.map (canon h)) ++ (if r.live then "" else "!"))

/-- all nodes ever allocated that are still alive (after every handle is dropped: the leaks) -/
def liveCount (h : Heap) : Nat := ((List.range h.next).filter fun i => (h.node i).live).length

/-- stored count = handles + owning slots, for every live node (checked by the driver at each step) -/
def countsOK (h : Heap) : Bool :=
  (List.range h.next).all fun n =>
    let r := h.node n
    !r.live ||
      r.rc == ((List.range NV).filter fun v => h.var v == some n).length
        + ((List.range h.next).foldl (fun a m => if (h.node m).live then a + (h.node m).kids.count n else a) 0)

end AslModel.XmlOwn
